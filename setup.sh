#!/bin/sh
# MANIFEST.setup_cmd: full .vo build of the Coq development (offline, from files on disk)
set -e
cd "$(dirname "$0")"
/venv/bin/python - <<'PY'
import sys; sys.path.insert(0, "tools")
from lib import vlib
vlib.write_coq_project()
PY
cd coq && timeout 3000 make -j16
