#!/bin/sh
# MANIFEST.setup_cmd: full .vo build of the Coq development (offline, from files on disk).
# A file that fails to compile must not block the other properties (its own check then reports
# the broken obligation), hence `make -k`; only a failure of the shared base is fatal here.
cd "$(dirname "$0")" || exit 1
/venv/bin/python - <<'PY' || exit 1
import sys; sys.path.insert(0, "tools")
from lib import vlib
vlib.write_coq_project()
PY
cd coq || exit 1
timeout 3300 make -k -j16 > ../.setup.log 2>&1
rc=$?
tail -5 ../.setup.log
test -f Base/Corr.vo || { echo "setup: Base/Corr.vo was not built"; exit 1; }
n=$(find . -name '*.vo' | wc -l); m=$(find . -name '*.v' | wc -l)
echo "setup: make exit $rc; $n of $m files compiled"
exit 0
