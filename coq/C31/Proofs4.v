(* C31 — (1) the regenerated statement order IS the model's composition (Gen.v / Order.v);
         (2) the composed _preprocess on '#'-free texts WITH comments; insertion of comments there;
         (3) _common_type_names after comment removal: the pre-declared type names are invariant under comment insertion. *)
From Coq Require Import List NArith ZArith Bool Arith Lia ZifyBool.
Import ListNotations.
From Cffi Require Import C31.Model C31.Proofs C31.Proofs2 C31.Proofs3 C31.Order.
From Cffi Require C31.Gen.
Open Scope N_scope.

(* ------------------------------------------------------------------ (1) order ties *)

Lemma preprocess_stages_computed :
  map stage_of Gen.preprocess_stmts =
  [S_other_ws; S_remove_dirs; S_def_replace; S_comment; S_macros_init; S_define_loop; S_define_sub;
   S_later; S_later; S_later; S_later; S_later; S_later; S_later; S_later; S_later; S_later; S_later; S_later;
   S_put_back; S_return].
Proof. vm_compute. reflexivity. Qed.

Theorem preprocess_order_tie : forall s, run_preprocess Gen.preprocess_stmts s = Some (preprocess s).
Proof.
  intros s. unfold run_preprocess. rewrite preprocess_stages_computed. unfold preprocess, process_defines.
  cbn [run_pre]. destruct (remove_line_directives (normalize_ws s)) as [c d]. cbn [run_pre].
  destruct (defs (S (length (sc c))) true (sc c) []) as [t m]. cbn [fst snd].
  destruct (put_back_line_directives t d) as [c'|e]; reflexivity.
Qed.

Lemma parse_stages_computed :
  map pstage_of Gen.parse_front_stmts = [P_preprocess; P_ctn; P_typenames_init; P_typenames_loop; P_typenames_add].
Proof. vm_compute. reflexivity. Qed.

Theorem parse_front_tie : forall common declared raw,
  run_parse_front common declared Gen.parse_front_stmts raw = Some (parse_front common declared raw).
Proof.
  intros. unfold run_parse_front. rewrite parse_stages_computed. unfold parse_front. cbn [run_parse].
  destruct (preprocess raw) as [[t m]|e]; reflexivity.
Qed.

Lemma sources_pinned :
  Gen.r_comment_src = exp_r_comment_src /\ Gen.r_define_src = exp_r_define_src /\
  Gen.r_line_directive_src = exp_r_line_directive_src /\ Gen.r_words_src = exp_r_words_src /\
  Gen.r_other_whitespace_src = exp_r_other_whitespace_src /\
  [Gen.r_comment_flags; Gen.r_define_flags; Gen.r_line_directive_flags; Gen.r_words_flags; Gen.r_other_whitespace_flags]
    = exp_flags /\
  Gen.remove_line_directives_stmts = exp_remove_line_directives /\
  Gen.put_back_line_directives_stmts = exp_put_back_line_directives /\
  Gen.common_type_names_stmts = exp_common_type_names.
Proof. vm_compute. repeat split; reflexivity. Qed.

(* ------------------------------------------------------------------ (2) '#'-free texts with comments *)

Lemma block_end_in : forall s n nl rest c, block_end s n = Some (nl, rest) -> In c rest -> In c s.
Proof.
  induction s as [|a s IH]; intros n nl rest c H Hc; [discriminate|].
  destruct s as [|d r]; [discriminate|]. rewrite block_end_cons2 in H.
  destruct ((a =? STAR) && (d =? SLASH)).
  - injection H as _ <-. right. right. exact Hc.
  - right. eapply IH; eauto.
Qed.

Lemma line_end_in_aux : forall k s n nl rest c, (length s <= k)%nat ->
  line_end s n = Some (nl, rest) -> In c rest -> In c s.
Proof.
  induction k as [|k IH]; intros s n nl rest c Hk H Hc.
  - destruct s; [simpl in H; injection H as _ <-; destruct Hc|simpl in Hk; lia].
  - destruct s as [|a r]; [simpl in H; injection H as _ <-; destruct Hc|].
    simpl in H. destruct (a =? NL).
    + injection H as _ <-. exact Hc.
    + destruct (a =? BSL).
      * destruct r as [|d r']; [discriminate|]. right. right. eapply (IH r'); eauto. simpl in Hk. lia.
      * right. eapply (IH r); eauto. simpl in Hk. lia.
Qed.

Lemma in_repeat_nl : forall n c, In c (repeat NL n) -> c = NL.
Proof. intros n c H. apply repeat_spec in H. exact H. Qed.

(* every character of the comment-free text is a character of the text, a blank or a newline *)
Lemma strip_in : forall f s c, In c (strip f s) -> In c s \/ c = SP \/ c = NL.
Proof.
  induction f as [|f IH]; intros s c H; [left; exact H|].
  destruct s as [|a r]; [destruct H|]. destruct r as [|d r'].
  - left. exact H.
  - rewrite strip_cons2 in H.
    assert (Hcopy : In c (a :: strip f (d :: r')) -> In c (a :: d :: r') \/ c = SP \/ c = NL).
    { intros [<-|Hc]; [left; apply in_eq|]. destruct (IH _ _ Hc) as [Hi|Hi]; [left; right; exact Hi|right; exact Hi]. }
    assert (Hcom : forall nl rest, (forall x, In x rest -> In x r') ->
                   In c (SP :: repeat NL nl ++ strip f rest) -> In c (a :: d :: r') \/ c = SP \/ c = NL).
    { intros nl rest Hsub [<-|Hc]; [right; left; reflexivity|]. apply in_app_or in Hc. destruct Hc as [Hc|Hc].
      - right. right. eapply in_repeat_nl; eauto.
      - destruct (IH _ _ Hc) as [Hi|Hi]; [left; right; right; auto|right; exact Hi]. }
    destruct ((a =? SLASH) && (d =? STAR)).
    + destruct (block_end r' 0) as [[nl rest]|] eqn:E; [|auto].
      apply (Hcom nl rest); [|exact H]. intros x Hx. eapply block_end_in; eauto.
    + destruct ((a =? SLASH) && (d =? SLASH)); [|auto].
      destruct (line_end r' 0) as [[nl rest]|] eqn:E; [|auto].
      apply (Hcom nl rest); [|exact H]. intros x Hx. eapply line_end_in_aux; eauto.
Qed.

Lemma sc_nohash : forall s, nohash s -> nohash (sc s).
Proof.
  intros s H. unfold nohash in *. rewrite Forall_forall in *. intros c Hc.
  destruct (strip_in _ _ _ Hc) as [Hi|[->| ->]]; [auto|discriminate|discriminate].
Qed.

Lemma normalize_nohash : forall s, nohash s -> nohash (normalize_ws s).
Proof.
  intros s H. unfold nohash, normalize_ws in *. rewrite Forall_forall in *. intros c Hc.
  apply in_map_iff in Hc. destruct Hc as (x & <- & Hx). destruct (other_ws x); [discriminate|auto].
Qed.

(* a text without '#': no directive is stashed, no #define is found; what comes out is the normalised text with
   its comments replaced by white space, and no macro *)
Theorem preprocess_hashfree_norm : forall s, nohash s -> preprocess s = Ok (sc (normalize_ws s), []).
Proof.
  intros s H0. pose proof (normalize_nohash s H0) as H. pose proof (sc_nohash _ H) as Hc.
  unfold preprocess, remove_line_directives.
  rewrite (stash_nodir _ 0 (lines_nodir _ H)), join_split.
  unfold process_defines. rewrite (defs_id _ true _ [] (nohash_hash_ok _ Hc)).
  unfold put_back_line_directives. rewrite (restore_nodir _ [] (lines_nodir _ Hc)), join_split. reflexivity.
Qed.

Definition no_other_ws (s : text) : Prop := forallb (fun c => negb (other_ws c)) s = true.

Theorem preprocess_hashfree : forall s, nohash s -> no_other_ws s -> preprocess s = Ok (sc s, []).
Proof. intros s H Hn. rewrite (preprocess_hashfree_norm s H), (normalize_id s Hn). reflexivity. Qed.

Lemma nohash_drop_middle : forall s1 f s2, nohash (s1 ++ f ++ s2) -> nohash (s1 ++ s2).
Proof.
  unfold nohash. intros s1 f s2 H. apply Forall_app in H. destruct H as [H1 H]. apply Forall_app in H.
  destruct H as [_ H2]. apply Forall_app. split; assumption.
Qed.

Lemma no_other_ws_drop_middle : forall s1 f s2, no_other_ws (s1 ++ f ++ s2) -> no_other_ws (s1 ++ s2).
Proof.
  unfold no_other_ws. intros s1 f s2 H. rewrite !forallb_app in *. apply andb_true_iff in H. destruct H as [H1 H].
  apply andb_true_iff in H. destruct H as [_ H2]. now rewrite H1, H2.
Qed.

(* first composed statement in which comments occur: on a '#'-free text, inserting comments / white space at a cut
   outside comments that does not split a word changes neither the words of the text handed on nor the macros, and
   raises nothing *)
Theorem insertion_preprocess_hashfree : forall s1 f s2,
  nohash (s1 ++ f ++ s2) -> no_other_ws (s1 ++ f ++ s2) ->
  closed s1 -> filler f -> word_boundary (sc s1) (sc s2) ->
  exists t1 t2, preprocess (s1 ++ f ++ s2) = Ok (t1, []) /\ preprocess (s1 ++ s2) = Ok (t2, []) /\
                words t1 = words t2.
Proof.
  intros s1 f s2 Hh Hn Hc Hf Hw.
  exists (sc (s1 ++ f ++ s2)), (sc (s1 ++ s2)). split; [|split].
  - apply preprocess_hashfree; assumption.
  - apply preprocess_hashfree; [eapply nohash_drop_middle|eapply no_other_ws_drop_middle]; eauto.
  - apply insertion_keeps_words; assumption.
Qed.

(* ------------------------------------------------------------------ (3) the common type names *)

(* _common_type_names sees its argument only through _r_words.findall *)
Theorem ctn_words_only : forall common t1 t2, words t1 = words t2 ->
  common_type_names common t1 = common_type_names common t2.
Proof. intros common t1 t2 H. unfold common_type_names. now rewrite H. Qed.

(* the names Parser._parse pre-declares to pycparser (`typedef int NAME;`), for any set of common types and any
   earlier declarations: unchanged by the insertion of comments / white space ('#'-free cdefs) *)
Theorem typenames_comment_invariant : forall common declared s1 f s2,
  nohash (s1 ++ f ++ s2) -> no_other_ws (s1 ++ f ++ s2) ->
  closed s1 -> filler f -> word_boundary (sc s1) (sc s2) ->
  exists tn t1 t2,
    parse_front common declared (s1 ++ f ++ s2) = Ok (tn, t1, []) /\
    parse_front common declared (s1 ++ s2) = Ok (tn, t2, []) /\ words t1 = words t2.
Proof.
  intros common declared s1 f s2 Hh Hn Hc Hf Hw.
  destruct (insertion_preprocess_hashfree s1 f s2 Hh Hn Hc Hf Hw) as (t1 & t2 & E1 & E2 & Ew).
  exists (declared ++ filter (fun n => negb (mem n declared)) (common_type_names common t1)), t1, t2.
  unfold parse_front. rewrite E1, E2, (ctn_words_only common t1 t2 Ew). auto.
Qed.

(* ... and the same stated on the REGENERATED order of Parser._parse *)
Theorem parse_front_comment_invariant : forall common declared s1 f s2,
  nohash (s1 ++ f ++ s2) -> no_other_ws (s1 ++ f ++ s2) ->
  closed s1 -> filler f -> word_boundary (sc s1) (sc s2) ->
  exists tn t1 t2,
    run_parse_front common declared Gen.parse_front_stmts (s1 ++ f ++ s2) = Some (Ok (tn, t1, [])) /\
    run_parse_front common declared Gen.parse_front_stmts (s1 ++ s2) = Some (Ok (tn, t2, [])) /\ words t1 = words t2.
Proof.
  intros common declared s1 f s2 Hh Hn Hc Hf Hw.
  destruct (typenames_comment_invariant common declared s1 f s2 Hh Hn Hc Hf Hw) as (tn & t1 & t2 & E1 & E2 & Ew).
  exists tn, t1, t2. rewrite !parse_front_tie, E1, E2. auto.
Qed.

(* why the order matters: applied to the RAW text (what the code would do if _common_type_names were called before
   _preprocess), the scanner is NOT invariant.   "uint8_t x;"  vs  "// typedef int uint8_t;\nuint8_t x;" *)
Definition ex_common : list text := [[115;105;122;101;95;116]; [117;105;110;116;56;95;116]].     (* size_t uint8_t *)
Definition ex_decl : text := [117;105;110;116;56;95;116;32;120;59].
Definition ex_comment : text :=
  [47;47;32;116;121;112;101;100;101;102;32;105;110;116;32;117;105;110;116;56;95;116;59;10].

Lemma ctn_raw_not_invariant :
  filler ex_comment /\
  common_type_names ex_common ex_decl = [[117;105;110;116;56;95;116]] /\
  common_type_names ex_common (ex_comment ++ ex_decl) = [] /\
  parse_front ex_common [] (ex_comment ++ ex_decl) = Ok ([[117;105;110;116;56;95;116]], SP :: NL :: ex_decl, []).
Proof.
  split; [|vm_compute; repeat split; reflexivity].
  change ex_comment with (SLASH :: SLASH :: [32;116;121;112;101;100;101;102;32;105;110;116;32;117;105;110;116;56;95;116;59] ++ [NL]).
  apply f_line. reflexivity.
Qed.
