(* C31 — fillers, #define values, line directives (C31/Model.v). *)
From Coq Require Import List NArith ZArith Bool Arith Lia ZifyBool DecimalN.
Import ListNotations.
From Cffi Require Import C31.Model C31.Proofs.
Open Scope N_scope.

(* ------------------------------------------------------------------ character classes *)

Lemma space_not_word : forall c, is_space c = true -> is_word c = false.
Proof. intros c. unfold is_space, is_word, is_alpha_, is_digit, in_range. lia. Qed.

Lemma inline_space_not_word : forall c, is_inline_space c = true -> is_word c = false.
Proof. intros c. unfold is_inline_space, is_space, is_word, is_alpha_, is_digit, in_range, NL. lia. Qed.

Lemma space_not_slash : forall c, is_space c = true -> c <> SLASH.
Proof. intros c. unfold is_space, in_range, SLASH. lia. Qed.

Lemma inline_space_is_space : forall c, is_inline_space c = true -> is_space c = true.
Proof. intros c. unfold is_inline_space. lia. Qed.

(* ------------------------------------------------------------------ fillers *)

Lemma sc_noslash : forall s, Forall (fun c => c <> SLASH) s -> sc s = s.
Proof. induction 1; [reflexivity|]. rewrite sc_plain by assumption. now f_equal. Qed.

Lemma closed_noslash : forall s, Forall (fun c => c <> SLASH) s -> closed s.
Proof. induction 1; constructor; assumption. Qed.

Lemma spaces_noslash : forall ws, forallb is_space ws = true -> Forall (fun c => c <> SLASH) ws.
Proof.
  intros ws H. apply Forall_forall. intros c Hc.
  apply space_not_slash. rewrite forallb_forall in H. auto.
Qed.

Lemma forallb_repeat_nl : forall n, forallb is_space (repeat NL n) = true.
Proof. induction n; [reflexivity|]. simpl. assumption. Qed.

Lemma line_end_plain : forall c s n, forallb plain_char c = true ->
  line_end (c ++ NL :: s) n = Some (n, NL :: s).
Proof.
  induction c as [|a c IH]; intros s n H.
  - reflexivity.
  - simpl in H. apply andb_true_iff in H. destruct H as [Ha Hc].
    change ((a :: c) ++ NL :: s) with (a :: (c ++ NL :: s)). rewrite line_end_cons.
    unfold plain_char in Ha. apply andb_true_iff in Ha. destruct Ha as [H1 H2].
    apply negb_true_iff in H1, H2. rewrite H1, H2. now apply IH.
Qed.

Lemma filler_ok : forall f, filler f -> closed f /\ forallb is_space (sc f) = true.
Proof.
  induction 1 as [ws H|c nl H|c H|a b Ha [IHa1 IHa2] Hb [IHb1 IHb2]].
  - pose proof (spaces_noslash _ H). split; [now apply closed_noslash|]. now rewrite sc_noslash.
  - split.
    + eapply cl_block; [eassumption|constructor].
    + rewrite (sc_block _ _ _ H). simpl. rewrite forallb_app, forallb_repeat_nl. reflexivity.
  - pose proof (line_end_plain c [] 0%nat H) as L. split.
    + eapply cl_line; [exact L|]. apply cl_plain; [discriminate|constructor].
    + rewrite (sc_line _ _ _ L). reflexivity.
  - split; [now apply closed_app|]. rewrite (sc_app a IHa1), forallb_app, IHa2, IHb2. reflexivity.
Qed.

Lemma forallb_impl : forall (p q : N -> bool) l, (forall c, p c = true -> q c = true) ->
  forallb p l = true -> forallb q l = true.
Proof. intros p q l H. rewrite !forallb_forall. auto. Qed.

Lemma inline_filler_ok : forall f, inline_filler f -> closed f /\ forallb is_inline_space (sc f) = true.
Proof.
  induction 1 as [ws H|c H|a b Ha [IHa1 IHa2] Hb [IHb1 IHb2]].
  - pose proof (spaces_noslash _ (forallb_impl _ _ _ inline_space_is_space H)).
    split; [now apply closed_noslash|]. now rewrite sc_noslash.
  - split.
    + eapply cl_block; [eassumption|constructor].
    + rewrite (sc_block _ _ _ H). reflexivity.
  - split; [now apply closed_app|]. rewrite (sc_app a IHa1), forallb_app, IHa2, IHb2. reflexivity.
Qed.

Theorem insertion_keeps_words : forall s1 f s2,
  closed s1 -> filler f -> word_boundary (sc s1) (sc s2) ->
  words (sc (s1 ++ f ++ s2)) = words (sc (s1 ++ s2)).
Proof.
  intros s1 f s2 H1 Hf Hb. destruct (filler_ok f Hf) as [Hc Hs].
  apply (insertion_generic is_space space_not_word); assumption.
Qed.

Theorem inline_insertion_keeps_lines : forall s1 f s2,
  closed s1 -> inline_filler f -> word_boundary (sc s1) (sc s2) ->
  lwords (sc (s1 ++ f ++ s2)) = lwords (sc (s1 ++ s2)).
Proof.
  intros s1 f s2 H1 Hf Hb. destruct (inline_filler_ok f Hf) as [Hc Hs].
  apply (insertion_generic is_inline_space inline_space_not_word); assumption.
Qed.

(* a comment, seen from the later steps, is exactly a blank followed by its newlines *)
Theorem block_comment_is_space : forall s1 c nl s2, closed s1 ->
  block_end (c ++ [STAR; SLASH]) 0 = Some (nl, []) ->
  sc (s1 ++ (SLASH :: STAR :: c ++ [STAR; SLASH]) ++ s2) = sc s1 ++ (SP :: repeat NL nl) ++ sc s2.
Proof.
  intros s1 c nl s2 H1 H. rewrite (sc_app s1 H1).
  assert (Hc : closed (SLASH :: STAR :: c ++ [STAR; SLASH])) by (eapply cl_block; [eassumption|constructor]).
  rewrite (sc_app _ Hc), (sc_block _ _ _ H). simpl. now rewrite app_nil_r.
Qed.

Theorem line_comment_is_space : forall s1 c s2, closed s1 -> forallb plain_char c = true ->
  sc (s1 ++ (SLASH :: SLASH :: c ++ [NL]) ++ s2) = sc s1 ++ [SP; NL] ++ sc s2.
Proof.
  intros s1 c s2 H1 H. destruct (filler_ok _ (f_line c H)) as [Hc _].
  rewrite (sc_app s1 H1), (sc_app _ Hc).
  rewrite (sc_line _ _ _ (line_end_plain c [] 0%nat H)). reflexivity.
Qed.

(* ------------------------------------------------------------------ #define values *)

Lemma value_end_plain : forall a s, forallb plain_char a = true ->
  value_end (a ++ s) = match value_end s with Some (v, rest) => Some (a ++ v, rest) | None => None end.
Proof.
  induction a as [|c a IH]; intros s H.
  - simpl. destruct (value_end s) as [[v rest]|]; reflexivity.
  - simpl in H. apply andb_true_iff in H. destruct H as [Hc Ha].
    unfold plain_char in Hc. apply andb_true_iff in Hc. destruct Hc as [H1 H2].
    apply negb_true_iff in H1, H2. simpl. rewrite H1, H2, (IH s Ha).
    destruct (value_end s) as [[v rest]|]; reflexivity.
Qed.

Lemma remove_bsnl_cons : forall c r, c <> BSL -> remove_bsnl (c :: r) = c :: remove_bsnl r.
Proof.
  intros c r H. apply N.eqb_neq in H. destruct r as [|d r]; [reflexivity|].
  simpl. rewrite H. reflexivity.
Qed.

Lemma remove_bsnl_nobsl : forall a s, forallb (fun x => negb (x =? BSL)) a = true ->
  remove_bsnl (a ++ s) = a ++ remove_bsnl s.
Proof.
  induction a as [|c a IH]; intros s H; [reflexivity|].
  simpl in H. apply andb_true_iff in H. destruct H as [Hc Ha].
  apply negb_true_iff, N.eqb_neq in Hc.
  change ((c :: a) ++ s) with (c :: (a ++ s)). rewrite remove_bsnl_cons by assumption.
  now rewrite IH.
Qed.

Lemma plain_nobsl : forall a, forallb plain_char a = true -> forallb (fun x => negb (x =? BSL)) a = true.
Proof. intros a. apply forallb_impl. intros c. unfold plain_char. lia. Qed.

Theorem define_continuation : forall a b rest,
  forallb plain_char a = true -> forallb plain_char b = true ->
  value_end (a ++ BSL :: NL :: b ++ NL :: rest) = Some (a ++ BSL :: NL :: b, NL :: rest) /\
  value_end (a ++ b ++ NL :: rest) = Some (a ++ b, NL :: rest) /\
  macro_value (a ++ BSL :: NL :: b) = macro_value (a ++ b).
Proof.
  intros a b rest Ha Hb.
  assert (V : value_end (b ++ NL :: rest) = Some (b, NL :: rest)).
  { rewrite (value_end_plain b _ Hb). simpl. now rewrite app_nil_r. }
  repeat split.
  - rewrite (value_end_plain a _ Ha).
    change (value_end (BSL :: NL :: b ++ NL :: rest)) with
      (match value_end (b ++ NL :: rest) with Some (v, r) => Some (BSL :: NL :: v, r) | None => None end).
    now rewrite V.
  - rewrite (value_end_plain a _ Ha), V. reflexivity.
  - unfold macro_value. rewrite !(remove_bsnl_nobsl a) by now apply plain_nobsl.
    change (remove_bsnl (BSL :: NL :: b)) with (remove_bsnl b). reflexivity.
Qed.

Lemma lstrip_app : forall v w,
  lstrip (v ++ w) = if forallb is_space v then lstrip w else lstrip v ++ w.
Proof.
  induction v as [|c v IH]; intros w; [reflexivity|].
  unfold lstrip in *. simpl. destruct (is_space c); [apply IH|reflexivity].
Qed.

Lemma lstrip_spaces : forall x, forallb is_space x = true -> lstrip x = [].
Proof.
  induction x as [|c x IH]; intros H; [reflexivity|].
  simpl in H. apply andb_true_iff in H. destruct H as [Hc Hx].
  unfold lstrip in *. simpl. rewrite Hc. now apply IH.
Qed.

Lemma strip_ws_blanks : forall ws1 v ws2, forallb is_space ws1 = true -> forallb is_space ws2 = true ->
  strip_ws (ws1 ++ v ++ ws2) = strip_ws v.
Proof.
  intros ws1 v ws2 H1 H2. unfold strip_ws.
  rewrite (lstrip_app ws1), H1, (lstrip_app v).
  destruct (forallb is_space v) eqn:Ev.
  - rewrite (lstrip_spaces _ H2), (lstrip_spaces _ Ev). reflexivity.
  - rewrite rev_app_distr, (lstrip_app (rev ws2)).
    assert (forallb is_space (rev ws2) = true) as ->; [|reflexivity].
    rewrite forallb_forall in *. intros x Hx. apply H2. now apply in_rev.
Qed.

Theorem macro_value_blanks : forall ws1 v ws2,
  forallb is_space ws1 = true -> forallb is_space ws2 = true ->
  forallb (fun x => negb (x =? BSL)) v = true ->
  macro_value (ws1 ++ v ++ ws2) = macro_value v.
Proof.
  intros ws1 v ws2 H1 H2 Hv. unfold macro_value.
  assert (N1 : forall ws, forallb is_space ws = true -> forallb (fun x => negb (x =? BSL)) ws = true).
  { intros ws. apply forallb_impl. intros c. unfold is_space, in_range, BSL. lia. }
  rewrite (remove_bsnl_nobsl ws1) by auto. rewrite (remove_bsnl_nobsl v) by auto.
  rewrite <- (app_nil_r ws2) at 1. rewrite (remove_bsnl_nobsl ws2) by auto. simpl remove_bsnl.
  rewrite app_nil_r. rewrite <- (app_nil_r v) at 2. rewrite (remove_bsnl_nobsl v []) by auto.
  simpl remove_bsnl. rewrite app_nil_r. now apply strip_ws_blanks.
Qed.

(* ------------------------------------------------------------------ line directives *)

Lemma flat_split : forall s cur,
  flat_map (fun x => NL :: x) (split_lines_aux cur s) = NL :: cur ++ s.
Proof.
  induction s as [|c s IH]; intros cur.
  - simpl. now rewrite app_nil_r.
  - simpl. destruct (c =? NL) eqn:E.
    + apply N.eqb_eq in E. subst. simpl. rewrite IH. reflexivity.
    + rewrite IH, <- app_assoc. reflexivity.
Qed.

Lemma split_lines_aux_cons : forall s cur, exists l ls, split_lines_aux cur s = l :: ls.
Proof.
  induction s as [|c s IH]; intros cur; simpl; eauto.
  destruct (c =? NL); eauto.
Qed.

Lemma join_split : forall s, join_lines (split_lines s) = s.
Proof.
  intros s. unfold split_lines. pose proof (flat_split s []) as F.
  destruct (split_lines_aux_cons s []) as (l & ls & E). rewrite E in *.
  simpl in F. injection F as F. exact F.
Qed.

Definition nlfree (l : text) : Prop := Forall (fun c => c <> NL) l.

Lemma split_aux_nlfree_prefix : forall l cur rest, nlfree l ->
  split_lines_aux cur (l ++ rest) = split_lines_aux (cur ++ l) rest.
Proof.
  intros l cur rest H. revert cur. induction H as [|c l Hc Hl IH]; intros cur.
  - now rewrite app_nil_r.
  - simpl. apply N.eqb_neq in Hc. rewrite Hc, IH, <- app_assoc. reflexivity.
Qed.

Lemma split_flat : forall ls cur, Forall nlfree ls ->
  split_lines_aux cur (flat_map (fun x => NL :: x) ls) = cur :: ls.
Proof.
  induction ls as [|l ls IH]; intros cur H; [reflexivity|].
  inversion H as [|? ? Hl Hls]; subst.
  simpl. rewrite split_aux_nlfree_prefix by assumption. now rewrite IH.
Qed.

Lemma split_join : forall ls, ls <> [] -> Forall nlfree ls -> split_lines (join_lines ls) = ls.
Proof.
  intros ls Hne H. destruct ls as [|l ls]; [congruence|].
  inversion H as [|? ? Hl Hls]; subst. unfold split_lines, join_lines.
  rewrite split_aux_nlfree_prefix by assumption. now apply split_flat.
Qed.

Lemma split_aux_nlfree : forall s cur, nlfree cur -> Forall nlfree (split_lines_aux cur s).
Proof.
  induction s as [|c s IH]; intros cur H; simpl.
  - constructor; [assumption|constructor].
  - destruct (c =? NL) eqn:E.
    + constructor; [assumption|]. apply IH. constructor.
    + apply IH. apply Forall_app. split; [assumption|]. constructor; [|constructor].
      now apply N.eqb_neq.
Qed.

(* decimal rendering *)
Lemma chars_uint_chars : forall u, chars_uint (uint_chars u) = Some u.
Proof. induction u; simpl; try rewrite IHu; reflexivity. Qed.

Lemma uint_chars_nlfree : forall u, nlfree (uint_chars u).
Proof. induction u; simpl; constructor; try assumption; discriminate. Qed.

Lemma undec_dec : forall n, undec (dec n) = Some n.
Proof.
  intros n. unfold undec, dec. rewrite chars_uint_chars, DecimalN.Unsigned.of_to.
  destruct (uint_chars (N.to_uint n)) eqn:E; [|reflexivity].
  (* the rendering is never empty *)
  exfalso. destruct (N.to_uint n) eqn:U; try discriminate.
  pose proof (DecimalN.Unsigned.of_to n) as R. rewrite U in R. simpl in R. subst n. discriminate.
Qed.

Lemma is_dirline_placeholder : forall i, is_dirline (s_lineat ++ dec i) = true.
Proof. intros i. reflexivity. Qed.

Lemma starts_placeholder : forall i, starts_with s_lineat (s_lineat ++ dec i) = Some (dec i).
Proof. intros i. reflexivity. Qed.

Lemma restore_cons : forall l ls st,
  restore_lines (l :: ls) st =
  if is_dirline l then
    match replace l st with
    | Err e => Err e
    | Ok d => match restore_lines ls st with Ok out => Ok (d :: out) | Err e => Err e end
    end
  else match restore_lines ls st with Ok out => Ok (l :: out) | Err e => Err e end.
Proof. reflexivity. Qed.

Lemma replace_placeholder : forall i pre l st, length pre = N.to_nat i ->
  replace (s_lineat ++ dec i) (pre ++ l :: st) = Ok l.
Proof.
  intros i pre l st Hp. unfold replace, replace_raw. rewrite starts_placeholder.
  unfold py_int10. rewrite undec_dec. unfold py_index.
  assert ((0 <=? Z.of_N i)%Z = true) as -> by (apply Z.leb_le; apply N2Z.is_nonneg).
  assert (Z.to_nat (Z.of_N i) = N.to_nat i) as -> by lia.
  rewrite nth_error_app2 by lia. rewrite <- Hp, Nat.sub_diag. reflexivity.
Qed.

Lemma stash_cons : forall l ls i,
  stash_lines (l :: ls) i =
  if is_dirline l then
    let (out, st) := stash_lines ls (i + 1) in ((s_lineat ++ dec i) :: out, l :: st)
  else
    let (out, st) := stash_lines ls i in (l :: out, st).
Proof. reflexivity. Qed.

Lemma restore_stash : forall ls i pre out st,
  stash_lines ls i = (out, st) -> length pre = N.to_nat i ->
  restore_lines out (pre ++ st) = Ok ls.
Proof.
  induction ls as [|l ls IH]; intros i pre out st H Hp.
  - inversion H; subst. reflexivity.
  - rewrite stash_cons in H. destruct (is_dirline l) eqn:D.
    + destruct (stash_lines ls (i + 1)) as [out' st'] eqn:E. inversion H; subst. clear H.
      change (35 :: 108 :: 105 :: 110 :: 101 :: 64 :: dec i) with (s_lineat ++ dec i).
      rewrite restore_cons, is_dirline_placeholder, (replace_placeholder i pre l st' Hp).
      specialize (IH (i + 1) (pre ++ [l]) out' st' E).
      rewrite <- app_assoc in IH. simpl in IH. rewrite IH; [reflexivity|].
      rewrite app_length. simpl. lia.
    + destruct (stash_lines ls i) as [out' st'] eqn:E. injection H as <- <-.
      rewrite restore_cons, D. now rewrite (IH i pre out' st' E Hp).
Qed.

Lemma stash_nlfree : forall ls i out st, Forall nlfree ls -> stash_lines ls i = (out, st) ->
  Forall nlfree out /\ length out = length ls.
Proof.
  induction ls as [|l ls IH]; intros i out st Hn H.
  - inversion H; subst. split; [constructor|reflexivity].
  - inversion Hn as [|? ? Hl Hls]; subst. rewrite stash_cons in H. destruct (is_dirline l).
    + destruct (stash_lines ls (i + 1)) as [out' st'] eqn:E. inversion H; subst.
      destruct (IH _ _ _ Hls E) as [A B]. split; [|simpl; now rewrite B].
      constructor; [|assumption]. unfold nlfree.
      repeat (constructor; [discriminate|]). apply uint_chars_nlfree.
    + destruct (stash_lines ls i) as [out' st'] eqn:E. inversion H; subst.
      destruct (IH _ _ _ Hls E) as [A B]. split; [|simpl; now rewrite B].
      constructor; assumption.
Qed.

Theorem line_directives_roundtrip : forall s,
  put_back_line_directives (fst (remove_line_directives s)) (snd (remove_line_directives s)) = Ok s.
Proof.
  intros s. unfold remove_line_directives, put_back_line_directives.
  destruct (stash_lines (split_lines s) 0) as [out st] eqn:E. simpl fst. simpl snd.
  assert (Hn : Forall nlfree (split_lines s)) by (apply split_aux_nlfree; constructor).
  destruct (stash_nlfree _ _ _ _ Hn E) as [A B].
  assert (Hne : out <> []).
  { destruct (split_lines_aux_cons s []) as (l & ls & F). unfold split_lines in B. rewrite F in B.
    destruct out; [discriminate|congruence]. }
  rewrite (split_join out Hne A).
  pose proof (restore_stash _ 0 [] out st E eq_refl) as R. simpl in R.
  rewrite R. now rewrite join_split.
Qed.

(* ------------------------------------------------------------------ \r \f \v *)

Lemma other_ws_space : forall c, other_ws c = true -> is_space c = true /\ is_word c = false.
Proof. intros c. unfold other_ws, is_space, is_word, is_alpha_, is_digit, in_range. lia. Qed.

Lemma gwords_aux_normalize : forall s cur,
  gwords_aux is_space cur (normalize_ws s) = gwords_aux is_space cur s.
Proof.
  induction s as [|c s IH]; intros cur; [reflexivity|].
  unfold normalize_ws in *. simpl. destruct (other_ws c) eqn:O.
  - destruct (other_ws_space c O) as [Hs Hw]. rewrite Hw, Hs.
    change (is_word SP) with false. change (is_space SP) with true. cbv iota. now rewrite IH.
  - destruct (is_word c); now rewrite IH.
Qed.

(* turning \r, \f, \v into blanks does not change the word sequence, and leaves no such character *)
Theorem normalize_keeps_words : forall s, words (normalize_ws s) = words s.
Proof. intros s. apply gwords_aux_normalize. Qed.

Theorem normalize_removes : forall s, forallb (fun c => negb (other_ws c)) (normalize_ws s) = true.
Proof.
  induction s as [|c s IH]; [reflexivity|]. unfold normalize_ws in *. simpl.
  destruct (other_ws c) eqn:O; [|rewrite O]; simpl; assumption.
Qed.

(* ------------------------------------------------------------------ what _put_back_line_directives can raise *)

Lemma replace_errors : forall l st x, replace l st = Err x -> x = CDefError.
Proof.
  intros l st x. unfold replace. destruct (replace_raw l st) as [d|e] eqn:R.
  - discriminate.
  - (* replace_raw raises only ValueError or IndexError, both are caught *)
    unfold replace_raw in R. destruct (starts_with s_lineat l); [|inversion R; subst; intros H; now inversion H].
    destruct (py_int10 t); [|inversion R; subst; intros H; now inversion H].
    destruct (py_index st z); [discriminate|]. inversion R; subst. intros H; now inversion H.
Qed.

(* the three ways replace() fails by itself *)
Lemma replace_raw_errors : forall l st x, replace_raw l st = Err x -> x = ValueError \/ x = IndexError.
Proof.
  intros l st x. unfold replace_raw. destruct (starts_with s_lineat l); [|intros H; inversion H; auto].
  destruct (py_int10 t); [|intros H; inversion H; auto].
  destruct (py_index st z); [discriminate|]. intros H; inversion H; auto.
Qed.

Lemma restore_errors : forall ls st x, restore_lines ls st = Err x -> x = CDefError.
Proof.
  induction ls as [|l ls IH]; intros st x H; [discriminate|].
  rewrite restore_cons in H. destruct (is_dirline l).
  - destruct (replace l st) as [d|e] eqn:R.
    + destruct (restore_lines ls st) eqn:E; [discriminate|]. inversion H; subst. eauto.
    + inversion H; subst. eapply replace_errors; eauto.
  - destruct (restore_lines ls st) eqn:E; [discriminate|]. inversion H; subst. eauto.
Qed.

Theorem preprocess_errors : forall s x, preprocess s = Err x -> x = CDefError.
Proof.
  intros s x. unfold preprocess. destruct (remove_line_directives (normalize_ws s)) as [s1 st].
  destruct (process_defines (sc s1)) as [s3 ms]. unfold put_back_line_directives.
  destruct (restore_lines (split_lines s3) st) as [ls|e] eqn:R; [discriminate|].
  intros H. inversion H; subst. eapply restore_errors; eauto.
Qed.

(* the stashed placeholder passes through comment removal untouched at any cut outside comments
   (which is why the "file name" of a directive cannot confuse the comment scanner) *)
Lemma dec_noslash : forall i, Forall (fun c => c <> SLASH) (dec i).
Proof.
  intros i. unfold dec. induction (N.to_uint i); simpl; constructor; try assumption; discriminate.
Qed.

Theorem placeholder_inert : forall s1 i s2, closed s1 ->
  sc (s1 ++ (s_lineat ++ dec i) ++ s2) = sc s1 ++ (s_lineat ++ dec i) ++ sc s2.
Proof.
  intros s1 i s2 H1.
  assert (F : Forall (fun c => c <> SLASH) (s_lineat ++ dec i)).
  { apply Forall_app. split; [repeat constructor; discriminate|apply dec_noslash]. }
  rewrite (sc_app s1 H1), (sc_app _ (closed_noslash _ F)), (sc_noslash _ F). reflexivity.
Qed.
