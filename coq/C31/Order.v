(* C31 — the ORDER of the textual steps: meaning of the statement lists regenerated into C31/Gen.v.

   C31/Gen.v (written by tools/props/c31_regen.py on every run) contains, as texts, the top-level statements of
   cparser._preprocess, _remove_line_directives, _put_back_line_directives, _common_type_names and of the front part of
   Parser._parse, in source order (ast.unparse: comments and layout removed), and the pattern text + flags of the five
   regular expressions modelled by hand in C31/Model.v.

   This file (hand-written) contains
     * the statement texts the model knows (exp_* / pre_* / rld_* / pbl_* / ctn_* / pf_*: what the code looked like
       when the model was written) and the stage of the model each one stands for;
     * `run_pre`: an interpreter that executes a list of stages with the functions of C31/Model.v;
       C31_preprocess_order_tie (Props.v) proves that executing the REGENERATED statement list is Model.preprocess --
       a reordered, removed, added or edited statement makes that proof fail (broken obligation);
     * a model of cparser._common_type_names (the state machine over the output of _r_words.findall that decides
       which of cffi's common type names are pre-declared to pycparser with `typedef int NAME;`);
     * `run_parse`: the same for the front part of Parser._parse (cparser.py:320-333): _preprocess is called first and
       _common_type_names scans the PREPROCESSED text (comments already removed), never the raw cdef text.
   No proofs here. *)
From Coq Require Import List NArith ZArith Bool.
Import ListNotations.
From Cffi Require Import C31.Model.
Open Scope N_scope.

(* ------------------------------------------------------------------ expected source texts *)
(* _r_comment  /\*.*?\*/|//([^\n\\]|\\.)*?$ *)
Definition exp_r_comment_src : text := [47;92;42;46;42;63;92;42;47;124;47;47;40;91;94;92;110;92;92;93;124;92;92;46;41;42;63;36].
(* _r_define  ^\s*#(?:\s|\\\n)*define(?:\s|\\\n)+([A-Za-z_][A-Za-z_0-9]* )\b((?:[^\n\\]|\\.)*?)$ *)
Definition exp_r_define_src : text := [94;92;115;42;35;40;63;58;92;115;124;92;92;92;110;41;42;100;101;102;105;110;101;40;63;58;92;115;124;92;92;92;110;41;43;40;91;65;45;90;97;45;122;95;93;91;65;45;90;97;45;122;95;48;45;57;93;42;41;92;98;40;40;63;58;91;94;92;110;92;92;93;124;92;92;46;41;42;63;41;36].
(* _r_line_directive  ^[ \t]*#[ \t]*(?:line|\d+)\b.*$ *)
Definition exp_r_line_directive_src : text := [94;91;32;92;116;93;42;35;91;32;92;116;93;42;40;63;58;108;105;110;101;124;92;100;43;41;92;98;46;42;36].
(* _r_words  \w+|\S *)
Definition exp_r_words_src : text := [92;119;43;124;92;83].
(* _r_other_whitespace  [\r\f\v] *)
Definition exp_r_other_whitespace_src : text := [91;92;114;92;102;92;118;93].
(* csource = _r_other_whitespace.sub(' ', csource) *)
Definition pre_1 : text := [99;115;111;117;114;99;101;32;61;32;95;114;95;111;116;104;101;114;95;119;104;105;116;101;115;112;97;99;101;46;115;117;98;40;39;32;39;44;32;99;115;111;117;114;99;101;41].
(* csource, line_directives = _remove_line_directives(csource) *)
Definition pre_2 : text := [99;115;111;117;114;99;101;44;32;108;105;110;101;95;100;105;114;101;99;116;105;118;101;115;32;61;32;95;114;101;109;111;118;101;95;108;105;110;101;95;100;105;114;101;99;116;105;118;101;115;40;99;115;111;117;114;99;101;41].
(* def replace_keeping_newlines(m): |     return ' ' + m.group().count('\n') * '\n' *)
Definition pre_3 : text := [100;101;102;32;114;101;112;108;97;99;101;95;107;101;101;112;105;110;103;95;110;101;119;108;105;110;101;115;40;109;41;58;10;32;32;32;32;114;101;116;117;114;110;32;39;32;39;32;43;32;109;46;103;114;111;117;112;40;41;46;99;111;117;110;116;40;39;92;110;39;41;32;42;32;39;92;110;39].
(* csource = _r_comment.sub(replace_keeping_newlines, csource) *)
Definition pre_4 : text := [99;115;111;117;114;99;101;32;61;32;95;114;95;99;111;109;109;101;110;116;46;115;117;98;40;114;101;112;108;97;99;101;95;107;101;101;112;105;110;103;95;110;101;119;108;105;110;101;115;44;32;99;115;111;117;114;99;101;41].
(* macros = {} *)
Definition pre_5 : text := [109;97;99;114;111;115;32;61;32;123;125].
(* for match in _r_define.finditer(csource): |     macroname, macrovalue = match.groups() |     macrovalue = macrovalue.replace('\\\n', '').str *)
Definition pre_6 : text := [102;111;114;32;109;97;116;99;104;32;105;110;32;95;114;95;100;101;102;105;110;101;46;102;105;110;100;105;116;101;114;40;99;115;111;117;114;99;101;41;58;10;32;32;32;32;109;97;99;114;111;110;97;109;101;44;32;109;97;99;114;111;118;97;108;117;101;32;61;32;109;97;116;99;104;46;103;114;111;117;112;115;40;41;10;32;32;32;32;109;97;99;114;111;118;97;108;117;101;32;61;32;109;97;99;114;111;118;97;108;117;101;46;114;101;112;108;97;99;101;40;39;92;92;92;110;39;44;32;39;39;41;46;115;116;114;105;112;40;41;10;32;32;32;32;109;97;99;114;111;115;91;109;97;99;114;111;110;97;109;101;93;32;61;32;109;97;99;114;111;118;97;108;117;101].
(* csource = _r_define.sub('', csource) *)
Definition pre_7 : text := [99;115;111;117;114;99;101;32;61;32;95;114;95;100;101;102;105;110;101;46;115;117;98;40;39;39;44;32;99;115;111;117;114;99;101;41].
(* if pycparser.__version__ < '2.14': |     csource = _workaround_for_old_pycparser(csource) *)
Definition pre_8 : text := [105;102;32;112;121;99;112;97;114;115;101;114;46;95;95;118;101;114;115;105;111;110;95;95;32;60;32;39;50;46;49;52;39;58;10;32;32;32;32;99;115;111;117;114;99;101;32;61;32;95;119;111;114;107;97;114;111;117;110;100;95;102;111;114;95;111;108;100;95;112;121;99;112;97;114;115;101;114;40;99;115;111;117;114;99;101;41].
(* csource = _r_stdcall2.sub(' volatile volatile const(', csource) *)
Definition pre_9 : text := [99;115;111;117;114;99;101;32;61;32;95;114;95;115;116;100;99;97;108;108;50;46;115;117;98;40;39;32;118;111;108;97;116;105;108;101;32;118;111;108;97;116;105;108;101;32;99;111;110;115;116;40;39;44;32;99;115;111;117;114;99;101;41].
(* csource = _r_stdcall1.sub(' volatile volatile const ', csource) *)
Definition pre_10 : text := [99;115;111;117;114;99;101;32;61;32;95;114;95;115;116;100;99;97;108;108;49;46;115;117;98;40;39;32;118;111;108;97;116;105;108;101;32;118;111;108;97;116;105;108;101;32;99;111;110;115;116;32;39;44;32;99;115;111;117;114;99;101;41].
(* csource = _r_cdecl.sub(' ', csource) *)
Definition pre_11 : text := [99;115;111;117;114;99;101;32;61;32;95;114;95;99;100;101;99;108;46;115;117;98;40;39;32;39;44;32;99;115;111;117;114;99;101;41].
(* csource = _preprocess_extern_python(csource) *)
Definition pre_12 : text := [99;115;111;117;114;99;101;32;61;32;95;112;114;101;112;114;111;99;101;115;115;95;101;120;116;101;114;110;95;112;121;116;104;111;110;40;99;115;111;117;114;99;101;41].
(* _warn_for_string_literal(csource) *)
Definition pre_13 : text := [95;119;97;114;110;95;102;111;114;95;115;116;114;105;110;103;95;108;105;116;101;114;97;108;40;99;115;111;117;114;99;101;41].
(* csource = _r_partial_array.sub('[__dotdotdotarray__]', csource) *)
Definition pre_14 : text := [99;115;111;117;114;99;101;32;61;32;95;114;95;112;97;114;116;105;97;108;95;97;114;114;97;121;46;115;117;98;40;39;91;95;95;100;111;116;100;111;116;100;111;116;97;114;114;97;121;95;95;93;39;44;32;99;115;111;117;114;99;101;41].
(* matches = list(_r_partial_enum.finditer(csource)) *)
Definition pre_15 : text := [109;97;116;99;104;101;115;32;61;32;108;105;115;116;40;95;114;95;112;97;114;116;105;97;108;95;101;110;117;109;46;102;105;110;100;105;116;101;114;40;99;115;111;117;114;99;101;41;41].
(* for number, match in enumerate(reversed(matches)): |     p = match.start() |     if csource[p] == '=': |         p2 = csource.find('...', p, *)
Definition pre_16 : text := [102;111;114;32;110;117;109;98;101;114;44;32;109;97;116;99;104;32;105;110;32;101;110;117;109;101;114;97;116;101;40;114;101;118;101;114;115;101;100;40;109;97;116;99;104;101;115;41;41;58;10;32;32;32;32;112;32;61;32;109;97;116;99;104;46;115;116;97;114;116;40;41;10;32;32;32;32;105;102;32;99;115;111;117;114;99;101;91;112;93;32;61;61;32;39;61;39;58;10;32;32;32;32;32;32;32;32;112;50;32;61;32;99;115;111;117;114;99;101;46;102;105;110;100;40;39;46;46;46;39;44;32;112;44;32;109;97;116;99;104;46;101;110;100;40;41;41;10;32;32;32;32;32;32;32;32;97;115;115;101;114;116;32;112;50;32;62;32;112;10;32;32;32;32;32;32;32;32;99;115;111;117;114;99;101;32;61;32;39;37;115;44;95;95;100;111;116;100;111;116;100;111;116;37;100;95;95;32;37;115;39;32;37;32;40;99;115;111;117;114;99;101;91;58;112;93;44;32;110;117;109;98;101;114;44;32;99;115;111;117;114;99;101;91;112;50;32;43;32;51;58;93;41;10;32;32;32;32;101;108;115;101;58;10;32;32;32;32;32;32;32;32;97;115;115;101;114;116;32;99;115;111;117;114;99;101;91;112;58;112;32;43;32;51;93;32;61;61;32;39;46;46;46;39;10;32;32;32;32;32;32;32;32;99;115;111;117;114;99;101;32;61;32;39;37;115;32;95;95;100;111;116;100;111;116;100;111;116;37;100;95;95;32;37;115;39;32;37;32;40;99;115;111;117;114;99;101;91;58;112;93;44;32;110;117;109;98;101;114;44;32;99;115;111;117;114;99;101;91;112;32;43;32;51;58;93;41].
(* csource = _r_int_dotdotdot.sub(' __dotdotdotint__ ', csource) *)
Definition pre_17 : text := [99;115;111;117;114;99;101;32;61;32;95;114;95;105;110;116;95;100;111;116;100;111;116;100;111;116;46;115;117;98;40;39;32;95;95;100;111;116;100;111;116;100;111;116;105;110;116;95;95;32;39;44;32;99;115;111;117;114;99;101;41].
(* csource = _r_float_dotdotdot.sub(' __dotdotdotfloat__ ', csource) *)
Definition pre_18 : text := [99;115;111;117;114;99;101;32;61;32;95;114;95;102;108;111;97;116;95;100;111;116;100;111;116;100;111;116;46;115;117;98;40;39;32;95;95;100;111;116;100;111;116;100;111;116;102;108;111;97;116;95;95;32;39;44;32;99;115;111;117;114;99;101;41].
(* csource = csource.replace('...', ' __dotdotdot__ ') *)
Definition pre_19 : text := [99;115;111;117;114;99;101;32;61;32;99;115;111;117;114;99;101;46;114;101;112;108;97;99;101;40;39;46;46;46;39;44;32;39;32;95;95;100;111;116;100;111;116;100;111;116;95;95;32;39;41].
(* csource = _put_back_line_directives(csource, line_directives) *)
Definition pre_20 : text := [99;115;111;117;114;99;101;32;61;32;95;112;117;116;95;98;97;99;107;95;108;105;110;101;95;100;105;114;101;99;116;105;118;101;115;40;99;115;111;117;114;99;101;44;32;108;105;110;101;95;100;105;114;101;99;116;105;118;101;115;41].
(* return (csource, macros) *)
Definition pre_21 : text := [114;101;116;117;114;110;32;40;99;115;111;117;114;99;101;44;32;109;97;99;114;111;115;41].
(* line_directives = [] *)
Definition rld_1 : text := [108;105;110;101;95;100;105;114;101;99;116;105;118;101;115;32;61;32;91;93].
(* def replace(m): |     i = len(line_directives) |     line_directives.append(m.group()) |     return '#line@%d' % i *)
Definition rld_2 : text := [100;101;102;32;114;101;112;108;97;99;101;40;109;41;58;10;32;32;32;32;105;32;61;32;108;101;110;40;108;105;110;101;95;100;105;114;101;99;116;105;118;101;115;41;10;32;32;32;32;108;105;110;101;95;100;105;114;101;99;116;105;118;101;115;46;97;112;112;101;110;100;40;109;46;103;114;111;117;112;40;41;41;10;32;32;32;32;114;101;116;117;114;110;32;39;35;108;105;110;101;64;37;100;39;32;37;32;105].
(* csource = _r_line_directive.sub(replace, csource) *)
Definition rld_3 : text := [99;115;111;117;114;99;101;32;61;32;95;114;95;108;105;110;101;95;100;105;114;101;99;116;105;118;101;46;115;117;98;40;114;101;112;108;97;99;101;44;32;99;115;111;117;114;99;101;41].
(* return (csource, line_directives) *)
Definition rld_4 : text := [114;101;116;117;114;110;32;40;99;115;111;117;114;99;101;44;32;108;105;110;101;95;100;105;114;101;99;116;105;118;101;115;41].
(* def replace(m): |     s = m.group() |     try: |         if not s.startswith('#line@'): |             raise ValueError |         return line *)
Definition pbl_1 : text := [100;101;102;32;114;101;112;108;97;99;101;40;109;41;58;10;32;32;32;32;115;32;61;32;109;46;103;114;111;117;112;40;41;10;32;32;32;32;116;114;121;58;10;32;32;32;32;32;32;32;32;105;102;32;110;111;116;32;115;46;115;116;97;114;116;115;119;105;116;104;40;39;35;108;105;110;101;64;39;41;58;10;32;32;32;32;32;32;32;32;32;32;32;32;114;97;105;115;101;32;86;97;108;117;101;69;114;114;111;114;10;32;32;32;32;32;32;32;32;114;101;116;117;114;110;32;108;105;110;101;95;100;105;114;101;99;116;105;118;101;115;91;105;110;116;40;115;91;54;58;93;41;93;10;32;32;32;32;101;120;99;101;112;116;32;40;86;97;108;117;101;69;114;114;111;114;44;32;73;110;100;101;120;69;114;114;111;114;41;58;10;32;32;32;32;32;32;32;32;114;97;105;115;101;32;67;68;101;102;69;114;114;111;114;40;34;117;110;101;120;112;101;99;116;101;100;32;108;105;110;101;32;100;105;114;101;99;116;105;118;101;32;37;114;32;40;99;111;109;109;101;110;116;115;32;111;110;32;116;104;101;32;115;97;109;101;32;108;105;110;101;32;97;115;32;97;32;39;35;108;105;110;101;39;32;97;114;101;32;110;111;116;32;115;117;112;112;111;114;116;101;100;41;34;32;37;32;40;115;46;115;116;114;105;112;40;41;44;41;41].
(* return _r_line_directive.sub(replace, csource) *)
Definition pbl_2 : text := [114;101;116;117;114;110;32;95;114;95;108;105;110;101;95;100;105;114;101;99;116;105;118;101;46;115;117;98;40;114;101;112;108;97;99;101;44;32;99;115;111;117;114;99;101;41].
(* look_for_words = set(COMMON_TYPES) *)
Definition ctn_1 : text := [108;111;111;107;95;102;111;114;95;119;111;114;100;115;32;61;32;115;101;116;40;67;79;77;77;79;78;95;84;89;80;69;83;41].
(* look_for_words.add(';') *)
Definition ctn_2 : text := [108;111;111;107;95;102;111;114;95;119;111;114;100;115;46;97;100;100;40;39;59;39;41].
(* look_for_words.add(',') *)
Definition ctn_3 : text := [108;111;111;107;95;102;111;114;95;119;111;114;100;115;46;97;100;100;40;39;44;39;41].
(* look_for_words.add('(') *)
Definition ctn_4 : text := [108;111;111;107;95;102;111;114;95;119;111;114;100;115;46;97;100;100;40;39;40;39;41].
(* look_for_words.add(')') *)
Definition ctn_5 : text := [108;111;111;107;95;102;111;114;95;119;111;114;100;115;46;97;100;100;40;39;41;39;41].
(* look_for_words.add('typedef') *)
Definition ctn_6 : text := [108;111;111;107;95;102;111;114;95;119;111;114;100;115;46;97;100;100;40;39;116;121;112;101;100;101;102;39;41].
(* words_used = set() *)
Definition ctn_7 : text := [119;111;114;100;115;95;117;115;101;100;32;61;32;115;101;116;40;41].
(* is_typedef = False *)
Definition ctn_8 : text := [105;115;95;116;121;112;101;100;101;102;32;61;32;70;97;108;115;101].
(* paren = 0 *)
Definition ctn_9 : text := [112;97;114;101;110;32;61;32;48].
(* previous_word = '' *)
Definition ctn_10 : text := [112;114;101;118;105;111;117;115;95;119;111;114;100;32;61;32;39;39].
(* for word in _r_words.findall(csource): |     if word in look_for_words: |         if word == ';': |             if is_typedef: |             *)
Definition ctn_11 : text := [102;111;114;32;119;111;114;100;32;105;110;32;95;114;95;119;111;114;100;115;46;102;105;110;100;97;108;108;40;99;115;111;117;114;99;101;41;58;10;32;32;32;32;105;102;32;119;111;114;100;32;105;110;32;108;111;111;107;95;102;111;114;95;119;111;114;100;115;58;10;32;32;32;32;32;32;32;32;105;102;32;119;111;114;100;32;61;61;32;39;59;39;58;10;32;32;32;32;32;32;32;32;32;32;32;32;105;102;32;105;115;95;116;121;112;101;100;101;102;58;10;32;32;32;32;32;32;32;32;32;32;32;32;32;32;32;32;119;111;114;100;115;95;117;115;101;100;46;100;105;115;99;97;114;100;40;112;114;101;118;105;111;117;115;95;119;111;114;100;41;10;32;32;32;32;32;32;32;32;32;32;32;32;32;32;32;32;108;111;111;107;95;102;111;114;95;119;111;114;100;115;46;100;105;115;99;97;114;100;40;112;114;101;118;105;111;117;115;95;119;111;114;100;41;10;32;32;32;32;32;32;32;32;32;32;32;32;32;32;32;32;105;115;95;116;121;112;101;100;101;102;32;61;32;70;97;108;115;101;10;32;32;32;32;32;32;32;32;101;108;105;102;32;119;111;114;100;32;61;61;32;39;116;121;112;101;100;101;102;39;58;10;32;32;32;32;32;32;32;32;32;32;32;32;105;115;95;116;121;112;101;100;101;102;32;61;32;84;114;117;101;10;32;32;32;32;32;32;32;32;32;32;32;32;112;97;114;101;110;32;61;32;48;10;32;32;32;32;32;32;32;32;101;108;105;102;32;119;111;114;100;32;61;61;32;39;40;39;58;10;32;32;32;32;32;32;32;32;32;32;32;32;112;97;114;101;110;32;43;61;32;49;10;32;32;32;32;32;32;32;32;101;108;105;102;32;119;111;114;100;32;61;61;32;39;41;39;58;10;32;32;32;32;32;32;32;32;32;32;32;32;112;97;114;101;110;32;45;61;32;49;10;32;32;32;32;32;32;32;32;101;108;105;102;32;119;111;114;100;32;61;61;32;39;44;39;58;10;32;32;32;32;32;32;32;32;32;32;32;32;105;102;32;105;115;95;116;121;112;101;100;101;102;32;97;110;100;32;112;97;114;101;110;32;61;61;32;48;58;10;32;32;32;32;32;32;32;32;32;32;32;32;32;32;32;32;119;111;114;100;115;95;117;115;101;100;46;100;105;115;99;97;114;100;40;112;114;101;118;105;111;117;115;95;119;111;114;100;41;10;32;32;32;32;32;32;32;32;32;32;32;32;32;32;32;32;108;111;111;107;95;102;111;114;95;119;111;114;100;115;46;100;105;115;99;97;114;100;40;112;114;101;118;105;111;117;115;95;119;111;114;100;41;10;32;32;32;32;32;32;32;32;101;108;115;101;58;10;32;32;32;32;32;32;32;32;32;32;32;32;119;111;114;100;115;95;117;115;101;100;46;97;100;100;40;119;111;114;100;41;10;32;32;32;32;112;114;101;118;105;111;117;115;95;119;111;114;100;32;61;32;119;111;114;100].
(* return words_used *)
Definition ctn_12 : text := [114;101;116;117;114;110;32;119;111;114;100;115;95;117;115;101;100].
(* csource, macros = _preprocess(csource) *)
Definition pf_1 : text := [99;115;111;117;114;99;101;44;32;109;97;99;114;111;115;32;61;32;95;112;114;101;112;114;111;99;101;115;115;40;99;115;111;117;114;99;101;41].
(* ctn = _common_type_names(csource) *)
Definition pf_2 : text := [99;116;110;32;61;32;95;99;111;109;109;111;110;95;116;121;112;101;95;110;97;109;101;115;40;99;115;111;117;114;99;101;41].
(* typenames = [] *)
Definition pf_3 : text := [116;121;112;101;110;97;109;101;115;32;61;32;91;93].
(* for name in sorted(self._declarations): |     if name.startswith('typedef '): |         name = name[8:] |         typenames.append(name) |   *)
Definition pf_4 : text := [102;111;114;32;110;97;109;101;32;105;110;32;115;111;114;116;101;100;40;115;101;108;102;46;95;100;101;99;108;97;114;97;116;105;111;110;115;41;58;10;32;32;32;32;105;102;32;110;97;109;101;46;115;116;97;114;116;115;119;105;116;104;40;39;116;121;112;101;100;101;102;32;39;41;58;10;32;32;32;32;32;32;32;32;110;97;109;101;32;61;32;110;97;109;101;91;56;58;93;10;32;32;32;32;32;32;32;32;116;121;112;101;110;97;109;101;115;46;97;112;112;101;110;100;40;110;97;109;101;41;10;32;32;32;32;32;32;32;32;99;116;110;46;100;105;115;99;97;114;100;40;110;97;109;101;41].
(* typenames += sorted(ctn) *)
Definition pf_5 : text := [116;121;112;101;110;97;109;101;115;32;43;61;32;115;111;114;116;101;100;40;99;116;110;41].

Definition exp_flags : list N := [24; 24; 8; 0; 0].     (* DOTALL|MULTILINE, DOTALL|MULTILINE, MULTILINE, 0, 0 *)
Definition exp_remove_line_directives : list text := [rld_1; rld_2; rld_3; rld_4].
Definition exp_put_back_line_directives : list text := [pbl_1; pbl_2].
Definition exp_common_type_names : list text :=
  [ctn_1; ctn_2; ctn_3; ctn_4; ctn_5; ctn_6; ctn_7; ctn_8; ctn_9; ctn_10; ctn_11; ctn_12].

(* ------------------------------------------------------------------ _preprocess as a list of stages *)

Inductive stage :=
| S_other_ws          (* csource = _r_other_whitespace.sub(' ', csource)                      normalize_ws *)
| S_remove_dirs       (* csource, line_directives = _remove_line_directives(csource)          remove_line_directives *)
| S_def_replace       (* def replace_keeping_newlines(m): return ' ' + count('\n') * '\n'     (used by S_comment) *)
| S_comment           (* csource = _r_comment.sub(replace_keeping_newlines, csource)          sc *)
| S_macros_init       (* macros = {} *)
| S_define_loop       (* for match in _r_define.finditer(csource): macros[name] = value...    snd (defs ..) *)
| S_define_sub        (* csource = _r_define.sub('', csource)                                 fst (defs ..) *)
| S_later             (* the rewriting steps the model does not contain ('...', __stdcall/WINAPI/__cdecl, extern "Python",
                         string-literal warning, old-pycparser workaround): identity on the model's domain (Model.v header) *)
| S_put_back          (* csource = _put_back_line_directives(csource, line_directives)        put_back_line_directives *)
| S_return            (* return (csource, macros) *)
| S_unknown.          (* a statement the model does not know *)

Definition known_preprocess : list (text * stage) :=
  [(pre_1, S_other_ws); (pre_2, S_remove_dirs); (pre_3, S_def_replace); (pre_4, S_comment); (pre_5, S_macros_init);
   (pre_6, S_define_loop); (pre_7, S_define_sub); (pre_8, S_later); (pre_9, S_later); (pre_10, S_later);
   (pre_11, S_later); (pre_12, S_later); (pre_13, S_later); (pre_14, S_later); (pre_15, S_later); (pre_16, S_later);
   (pre_17, S_later); (pre_18, S_later); (pre_19, S_later); (pre_20, S_put_back); (pre_21, S_return)].

Fixpoint lookup {A : Type} (dflt : A) (tbl : list (text * A)) (t : text) : A :=
  match tbl with
  | [] => dflt
  | (k, v) :: tbl' => if list_eqb_N t k then v else lookup dflt tbl' t
  end.
Definition stage_of : text -> stage := lookup S_unknown known_preprocess.

(* state: csource, line_directives, macros, "replace_keeping_newlines is defined", "macros is defined".
   None = the interpreter is stuck (unknown statement, a name used before it is bound, no return). *)
Fixpoint run_pre (l : list stage) (cs : text) (dirs : option (list text)) (ms : option macros) (repl : bool)
  : option (result (text * macros)) :=
  match l with
  | [] => None
  | s :: l' =>
      match s with
      | S_other_ws => run_pre l' (normalize_ws cs) dirs ms repl
      | S_remove_dirs => let (c, d) := remove_line_directives cs in run_pre l' c (Some d) ms repl
      | S_def_replace => run_pre l' cs dirs ms true
      | S_comment => if repl then run_pre l' (sc cs) dirs ms repl else None
      | S_macros_init => run_pre l' cs dirs (Some []) repl
      | S_define_loop =>
          match ms with
          | Some m => run_pre l' cs dirs (Some (snd (defs (S (length cs)) true cs m))) repl
          | None => None
          end
      | S_define_sub => run_pre l' (fst (defs (S (length cs)) true cs [])) dirs ms repl
      | S_later => run_pre l' cs dirs ms repl
      | S_put_back =>
          match dirs with
          | Some d => match put_back_line_directives cs d with
                      | Ok c => run_pre l' c dirs ms repl
                      | Err e => Some (Err e)
                      end
          | None => None
          end
      | S_return => match ms with Some m => Some (Ok (cs, m)) | None => None end
      | S_unknown => None
      end
  end.

Definition run_preprocess (stmts : list text) (s : text) : option (result (text * macros)) :=
  run_pre (map stage_of stmts) s None None false.

(* ------------------------------------------------------------------ _common_type_names (cparser.py:268-305) *)

Definition w_semi : text := [59].
Definition w_comma : text := [44].
Definition w_lpar : text := [40].
Definition w_rpar : text := [41].
Definition w_typedef : text := [116;121;112;101;100;101;102].

Definition mem (w : text) (l : list text) : bool := existsb (list_eqb_N w) l.
Definition discard (w : text) (l : list text) : list text := filter (fun x => negb (list_eqb_N w x)) l.   (* set.discard *)
Definition add (w : text) (l : list text) : list text := if mem w l then l else w :: l.                    (* set.add *)

Record ctn_state := mk_ctn {
  look : list text;        (* look_for_words *)
  used : list text;        (* words_used *)
  is_typedef : bool;
  paren : Z;
  prev : text }.           (* previous_word *)

(* look_for_words = set(COMMON_TYPES) + ';' ',' '(' ')' 'typedef' *)
Definition ctn_init (common : list text) : ctn_state :=
  mk_ctn (common ++ [w_semi; w_comma; w_lpar; w_rpar; w_typedef]) [] false 0%Z [].

(* the loop body: note that `discard(previous_word)` may also remove ';' ',' '(' ')' or 'typedef' from look_for_words *)
Definition ctn_step (s : ctn_state) (w : text) : ctn_state :=
  let s' :=
    if mem w (look s) then
      if list_eqb_N w w_semi then
        if is_typedef s then mk_ctn (discard (prev s) (look s)) (discard (prev s) (used s)) false (paren s) (prev s)
        else s
      else if list_eqb_N w w_typedef then mk_ctn (look s) (used s) true 0%Z (prev s)
      else if list_eqb_N w w_lpar then mk_ctn (look s) (used s) (is_typedef s) (paren s + 1)%Z (prev s)
      else if list_eqb_N w w_rpar then mk_ctn (look s) (used s) (is_typedef s) (paren s - 1)%Z (prev s)
      else if list_eqb_N w w_comma then
        if is_typedef s && (paren s =? 0)%Z
        then mk_ctn (discard (prev s) (look s)) (discard (prev s) (used s)) (is_typedef s) (paren s) (prev s)
        else s
      else mk_ctn (look s) (add w (used s)) (is_typedef s) (paren s) (prev s)
    else s in
  mk_ctn (look s') (used s') (is_typedef s') (paren s') w.

Definition ctn_of_words (common : list text) (ws : list text) : list text :=
  let s := fold_left ctn_step ws (ctn_init common) in
  filter (fun n => mem n (used s)) common.           (* the set words_used, listed in the order of `common` *)

(* _common_type_names(csource): only the \w+|\S words of its argument matter *)
Definition common_type_names (common : list text) (t : text) : list text := ctn_of_words common (words t).

(* ------------------------------------------------------------------ front part of Parser._parse (cparser.py:320-333) *)

Inductive pstage :=
| P_preprocess        (* csource, macros = _preprocess(csource) *)
| P_ctn               (* ctn = _common_type_names(csource) *)
| P_typenames_init    (* typenames = [] *)
| P_typenames_loop    (* for name in sorted(self._declarations): typedefs declared by earlier cdefs: append, ctn.discard *)
| P_typenames_add     (* typenames += sorted(ctn) *)
| P_unknown.

Definition known_parse : list (text * pstage) :=
  [(pf_1, P_preprocess); (pf_2, P_ctn); (pf_3, P_typenames_init); (pf_4, P_typenames_loop); (pf_5, P_typenames_add)].
Definition pstage_of : text -> pstage := lookup P_unknown known_parse.

(* `common`: the keys of COMMON_TYPES, sorted; `declared`: the typedef names of earlier cdef() calls, sorted.
   Result: the names pre-declared with `typedef int NAME;`, the text handed to pycparser, the macros. *)
Fixpoint run_parse (common declared : list text) (l : list pstage) (cs : text) (ms : option macros)
                   (ctn tn : option (list text)) : option (result (list text * text * macros)) :=
  match l with
  | [] => match ms, tn with Some m, Some t => Some (Ok (t, cs, m)) | _, _ => None end
  | p :: l' =>
      match p with
      | P_preprocess => match preprocess cs with
                        | Ok (t, m) => run_parse common declared l' t (Some m) ctn tn
                        | Err e => Some (Err e)
                        end
      | P_ctn => run_parse common declared l' cs ms (Some (common_type_names common cs)) tn
      | P_typenames_init => run_parse common declared l' cs ms ctn (Some [])
      | P_typenames_loop =>
          match ctn, tn with
          | Some c, Some t => run_parse common declared l' cs ms
                                (Some (filter (fun n => negb (mem n declared)) c)) (Some (t ++ declared))
          | _, _ => None
          end
      | P_typenames_add =>
          match ctn, tn with
          | Some c, Some t => run_parse common declared l' cs ms ctn (Some (t ++ c))
          | _, _ => None
          end
      | P_unknown => None
      end
  end.

Definition run_parse_front (common declared : list text) (stmts : list text) (raw : text) :=
  run_parse common declared (map pstage_of stmts) raw None None None.

(* what the model says Parser._parse computes before it calls pycparser *)
Definition parse_front (common declared : list text) (raw : text) : result (list text * text * macros) :=
  match preprocess raw with
  | Ok (t, m) => Ok (declared ++ filter (fun n => negb (mem n declared)) (common_type_names common t), t, m)
  | Err e => Err e
  end.

(* for the correspondence: kind 3 = _common_type_names; the list `common` comes with the case *)
Definition ctn_eval (common : list text) (t : text) : list text := common_type_names common t.
