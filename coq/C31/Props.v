(* C31 — Comments, spacing and line directives do not change a cdef's meaning.
   Statements only; proofs are in C31/Proofs.v, Proofs2.v, Proofs3.v, Proofs4.v.  The model (C31/Model.v, C31/Order.v) is
   cparser.py's textual pre-processing and the front part of Parser._parse; it is tied to the code by differential tests
   on every run and by C31/Gen.v (regenerated from cparser.py on every run: regex sources, statement order).
   What is NOT covered by these theorems (tested only, tools/props/c31.py): pycparser's lexer and
   parser, the '...' / extern "Python" / __stdcall rewriting, and the composition of the steps
   (for which the full statement is false, see C31_full_statement_refuted). *)
From Coq Require Import List NArith Bool.
Import ListNotations.
From Cffi Require Import C31.Model C31.Proofs C31.Proofs2 C31.Proofs3 C31.Order C31.Proofs4.
From Cffi Require C31.Gen.
Open Scope N_scope.

(* TIES of the hand-modelled regular expressions to Python's `re` (differential runs of tools/props/c31.py on
   every ./check C31; a disagreement is reported under exactly these names):
     [tie-comment]    "C31.Model.sc vs cparser._r_comment.sub(replace_keeping_newlines)"   sc, block_end, line_end, closed
     [tie-words]      "C31.Model.words vs cparser._r_words.findall"                         words (lwords: same scanner, '\n' kept)
     [tie-preprocess] "C31.Model.preprocess vs cparser._preprocess"                         _r_other_whitespace (normalize_ws),
                      _r_line_directive (is_dirline, stash/restore), _r_define (define_at, value_end, macro_value), the
                      composition; on texts where the later '...'/extern "Python"/__stdcall rewriting finds nothing *)

(* comment removal never changes the number of line ends (all texts) *)
(* [tie-comment] *)
Theorem C31_newlines_preserved : forall s, count_nl (sc s) = count_nl s.
Proof. exact sc_count_nl. Qed.
Print Assumptions C31_newlines_preserved.

(* at a cut outside comments the scanner works on both sides independently (all texts s2) *)
(* [tie-comment] *)
Theorem C31_scanner_compositional : forall s1, closed s1 -> forall s2, sc (s1 ++ s2) = sc s1 ++ sc s2.
Proof. exact sc_app. Qed.
Print Assumptions C31_scanner_compositional.

(* an inserted comment is, for every later step, a blank followed by its own newlines *)
(* [tie-comment] *)
Theorem C31_block_comment_is_space : forall s1 c nl s2, closed s1 ->
  block_end (c ++ [STAR; SLASH]) 0 = Some (nl, []) ->
  sc (s1 ++ (SLASH :: STAR :: c ++ [STAR; SLASH]) ++ s2) = sc s1 ++ (SP :: repeat NL nl) ++ sc s2.
Proof. exact block_comment_is_space. Qed.
Print Assumptions C31_block_comment_is_space.

(* [tie-comment] *)
Theorem C31_line_comment_is_space : forall s1 c s2, closed s1 -> forallb plain_char c = true ->
  sc (s1 ++ (SLASH :: SLASH :: c ++ [NL]) ++ s2) = sc s1 ++ [SP; NL] ++ sc s2.
Proof. exact line_comment_is_space. Qed.
Print Assumptions C31_line_comment_is_space.

(* central statement: inserting any sequence of white space, /* */ comments and // comments at a cut
   that is outside comments and does not split a word leaves the word sequence (\w+|\S, what
   _common_type_names and every later step sees) unchanged *)
(* [tie-comment] [tie-words] *)
Theorem C31_insertion_keeps_words : forall s1 f s2,
  closed s1 -> filler f -> word_boundary (sc s1) (sc s2) ->
  words (sc (s1 ++ f ++ s2)) = words (sc (s1 ++ s2)).
Proof. exact insertion_keeps_words. Qed.
Print Assumptions C31_insertion_keeps_words.

(* ... and, when the filler contains no newline, also the line structure (newline kept as a token):
   what the line-based steps _r_define and _r_line_directive see *)
(* [tie-comment] [tie-words] *)
Theorem C31_inline_insertion_keeps_lines : forall s1 f s2,
  closed s1 -> inline_filler f -> word_boundary (sc s1) (sc s2) ->
  lwords (sc (s1 ++ f ++ s2)) = lwords (sc (s1 ++ s2)).
Proof. exact inline_insertion_keeps_lines. Qed.
Print Assumptions C31_inline_insertion_keeps_lines.

(* a backslash-newline inside the value part of a #define: the value group of _r_define extends over
   it, the rest of the text is the same, and the macro value is the same *)
(* [tie-preprocess] *)
Theorem C31_define_continuation : forall a b rest,
  forallb plain_char a = true -> forallb plain_char b = true ->
  value_end (a ++ BSL :: NL :: b ++ NL :: rest) = Some (a ++ BSL :: NL :: b, NL :: rest) /\
  value_end (a ++ b ++ NL :: rest) = Some (a ++ b, NL :: rest) /\
  macro_value (a ++ BSL :: NL :: b) = macro_value (a ++ b).
Proof. exact define_continuation. Qed.
Print Assumptions C31_define_continuation.

(* blanks around a macro value are irrelevant *)
(* [tie-preprocess] *)
Theorem C31_macro_value_blanks : forall ws1 v ws2,
  forallb is_space ws1 = true -> forallb is_space ws2 = true ->
  forallb (fun x => negb (x =? BSL)) v = true ->
  macro_value (ws1 ++ v ++ ws2) = macro_value v.
Proof. exact macro_value_blanks. Qed.
Print Assumptions C31_macro_value_blanks.

(* stashing the line directives and putting them back is the identity on every text
   (no AssertionError/IndexError/ValueError when nothing happens in between) *)
(* [tie-preprocess] *)
Theorem C31_line_directives_roundtrip : forall s,
  put_back_line_directives (fst (remove_line_directives s)) (snd (remove_line_directives s)) = Ok s.
Proof. exact line_directives_roundtrip. Qed.
Print Assumptions C31_line_directives_roundtrip.

(* the stashed placeholder '#line@N' passes through comment removal untouched at any cut outside comments:
   the directive text (whose file name may contain comment openers) cannot confuse the comment scanner *)
(* [tie-comment] [tie-preprocess] *)
Theorem C31_placeholder_inert : forall s1 i s2, closed s1 ->
  sc (s1 ++ (s_lineat ++ dec i) ++ s2) = sc s1 ++ (s_lineat ++ dec i) ++ sc s2.
Proof. exact placeholder_inert. Qed.
Print Assumptions C31_placeholder_inert.

(* Composed _preprocess (all four modelled stages: \r\f\v normalisation, directive stash, comment removal, #define
   extraction, directive restore) and the insertion of a line directive.
   `plain_text`: no '#', no '/', no \r \f \v -- declarations without comments, directives and #define lines; a
   decidable condition on the two sides of the insertion point.  In the MODEL the later rewriting steps ('...',
   extern "Python", __stdcall) do not exist, so "outside the rewritten constructs" cannot be expressed here: the
   theorem below is the positive statement for the modelled stages only; the positions inside those constructs
   are where the real parser fails (known finding directive_in_rewritten_construct, metamorphic test).
   NOT proved: the same with comments / other directives / #define lines on either side (needs renumbering of
   the placeholders through the comment scanner); covered by the metamorphic test. *)
(* [tie-preprocess] *)
Theorem C31_preprocess_plain : forall s, plain_text s = true -> preprocess s = Ok (s, []).
Proof. exact preprocess_plain. Qed.
Print Assumptions C31_preprocess_plain.

(* one line directive d -- any content, its file name may contain comment openers, '#', quotes -- inserted
   between two lines of plain declarations comes back verbatim at the same place; nothing else changes, no macro
   appears, no error *)
(* [tie-preprocess] *)
Theorem C31_directive_insertion_plain : forall x d y,
  plain_text x = true -> plain_text y = true ->
  is_dirline d = true -> nlfree d -> forallb (fun c => negb (other_ws c)) d = true ->
  preprocess (x ++ NL :: d ++ NL :: y) = Ok (x ++ NL :: d ++ NL :: y, []).
Proof. exact directive_insertion_plain. Qed.
Print Assumptions C31_directive_insertion_plain.

(* non-vacuity:  "int"  |  # 5 "a//b/*c"  |  "x;" *)
Example C31_directive_insertion_example :
  let d := [35;32;53;32;34;97;47;47;98;47;42;99;34] in
  plain_text [105;110;116] = true /\ plain_text [120;59] = true /\ is_dirline d = true /\
  preprocess ([105;110;116] ++ NL :: d ++ NL :: [120;59]) = Ok ([105;110;116] ++ NL :: d ++ NL :: [120;59], []).
Proof. vm_compute. repeat split; reflexivity. Qed.

(* ---- the full statement for the composed pre-processing, and why it is only partial ---- *)

Definition C31_full_statement : Prop :=
  forall s1 f s2, closed s1 -> filler f -> word_boundary (sc s1) (sc s2) ->
  match preprocess (s1 ++ f ++ s2), preprocess (s1 ++ s2) with
  | Ok (t1, m1), Ok (t2, m2) => words t1 = words t2 /\ m1 = m2
  | Err _, Err _ => True
  | _, _ => False
  end.

(* witness texts (C31/Proofs3.v): w_s1 = "#define X ", w_f = "/*\n*/", w_s2 = "1\n" *)
(* known finding define_multiline_comment: the macro X becomes empty and "1" stays in the text *)
(* [tie-preprocess] [tie-comment] [tie-words] *)
Theorem C31_full_statement_refuted : ~ C31_full_statement.
Proof. exact full_statement_refuted. Qed.
Print Assumptions C31_full_statement_refuted.

(* known finding comment_on_directive_line:  "/**/# 5"  is refused by _put_back_line_directives
   (a CDefError since the fix of C30's line_directive_put_back; the cdef still changes meaning) *)
Example C31_comment_before_directive_raises :
  preprocess [47;42;42;47;35;32;53] = Err CDefError.
Proof. vm_compute. reflexivity. Qed.

(* \r, \f, \v are turned into blanks first (fixed: other_whitespace): same words, none left *)
(* [tie-preprocess] [tie-words] *)
Theorem C31_normalize_keeps_words : forall s, words (normalize_ws s) = words s.
Proof. exact normalize_keeps_words. Qed.
Print Assumptions C31_normalize_keeps_words.

(* [tie-preprocess] *)
Theorem C31_normalize_removes : forall s, forallb (fun c => negb (other_ws c)) (normalize_ws s) = true.
Proof. exact normalize_removes. Qed.
Print Assumptions C31_normalize_removes.

(* fixed: define_continuation_before_name.  "# \<nl> define \<nl> X 1\n"  is the macro X = "1" *)
Example C31_define_continuation_before_name :
  preprocess [35;32;92;10;32;100;101;102;105;110;101;32;92;10;32;88;32;49;10] = Ok ([10], [([88], [49])]).
Proof. vm_compute. reflexivity. Qed.

(* ---- non-vacuity ---- *)

(* "int" | "/* a*b // */" "// x\n" "  \t\n" | "*y;"  : closed prefix, composite filler, word boundary *)
Example C31_example_filler :
  let s1 := [105;110;116] in
  let f := (SLASH :: STAR :: [32;97;42;98;32;47;47;32] ++ [STAR; SLASH]) ++ (SLASH :: SLASH :: [32;120] ++ [NL]) ++ [32;32;9;10] in
  let s2 := [42;121;59] in
  closed s1 /\ filler f /\ word_boundary (sc s1) (sc s2) /\
  words (sc (s1 ++ f ++ s2)) = [[105;110;116]; [42]; [121]; [59]].
Proof.
  intros s1 f s2. split; [|split; [|split]].
  - repeat (apply cl_plain; [discriminate|]). constructor.
  - apply f_app; [apply (f_block _ 0%nat); reflexivity|].
    apply f_app; [apply f_line; reflexivity|apply f_ws; reflexivity].
  - reflexivity.
  - reflexivity.
Qed.

(* the hypothesis `closed` excludes what it must: after "5 /" an inserted comment would become "//..." *)
Example C31_example_not_closed :
  sc ([53;32;47] ++ [47;42;99;42;47] ++ [50;10]) = [53;32;32;10] /\ ~ closed [53;32;47].
Proof.
  split; [reflexivity|]. intros H.
  inversion H as [|c r Hc Hr|d r H1 H2 Hr|r nl rest Hb Hr|r nl rest Hl Hr]; subst.
  inversion Hr as [|c r Hc2 Hr2| | |]; subst.
  inversion Hr2 as [|c r Hc3 Hr3| | |]; subst. now apply Hc3.
Qed.

(* #define X 1 \<nl> 2 : continuation in a value; directive stash on a text with two directives *)
Example C31_example_define :
  macro_value ([32;49;32] ++ BSL :: NL :: [32;50]) = [49;32;32;50] /\
  remove_line_directives [35;32;53;10;105;10;35;108;105;110;101;32;55] =
    ([35;108;105;110;101;64;48;10;105;10;35;108;105;110;101;64;49], [[35;32;53]; [35;108;105;110;101;32;55]]).
Proof. split; reflexivity. Qed.

(* ================================================================== round 3 *)

(* ---- regenerated ties (C31/Gen.v is rewritten from /repo's cparser.py by tools/props/c31_regen.py on every run) ---- *)

(* [regen] the pattern text and flags of the five hand-modelled regular expressions, and the statements of
   _remove_line_directives ('#line@%d'), _put_back_line_directives ('#line@', s[6:], except (ValueError, IndexError))
   and _common_type_names are the ones the model was written for.  A finite comparison of regenerated constants. *)
Example C31_sources_pinned :
  Gen.r_comment_src = exp_r_comment_src /\ Gen.r_define_src = exp_r_define_src /\
  Gen.r_line_directive_src = exp_r_line_directive_src /\ Gen.r_words_src = exp_r_words_src /\
  Gen.r_other_whitespace_src = exp_r_other_whitespace_src /\
  [Gen.r_comment_flags; Gen.r_define_flags; Gen.r_line_directive_flags; Gen.r_words_flags; Gen.r_other_whitespace_flags]
    = exp_flags /\
  Gen.remove_line_directives_stmts = exp_remove_line_directives /\
  Gen.put_back_line_directives_stmts = exp_put_back_line_directives /\
  Gen.common_type_names_stmts = exp_common_type_names.
Proof. exact sources_pinned. Qed.

(* [regen] executing the REGENERATED list of the top-level statements of cparser._preprocess, each mapped to the model
   function it stands for (C31/Order.v: stage_of, run_pre; the '...'/__stdcall/extern "Python" steps are the identity
   on the model's domain), is Model.preprocess -- for every text.  Reordering, removing, adding or editing a statement
   of _preprocess makes this fail. *)
Theorem C31_preprocess_order_tie : forall s, run_preprocess Gen.preprocess_stmts s = Some (preprocess s).
Proof. exact preprocess_order_tie. Qed.
Print Assumptions C31_preprocess_order_tie.

(* [regen] the front part of Parser._parse (regenerated statement list): _preprocess is called first, and
   _common_type_names scans the preprocessed text; the names pre-declared to pycparser are `declared` followed by the
   common type names found in the PREPROCESSED text that are not in `declared` (all texts, all sets of names) *)
Theorem C31_parse_front_tie : forall common declared raw,
  run_parse_front common declared Gen.parse_front_stmts raw = Some (parse_front common declared raw).
Proof. exact parse_front_tie. Qed.
Print Assumptions C31_parse_front_tie.

(* ---- the composed _preprocess on '#'-free texts, comments allowed ---- *)

(* no '#': nothing is stashed, no #define is found, nothing is raised; the result is the normalised text with every
   comment replaced by a blank and its newlines, and there are no macros.  (Generalises C31_preprocess_plain.) *)
(* [tie-preprocess] [tie-comment] *)
Theorem C31_preprocess_hashfree_norm : forall s, nohash s -> preprocess s = Ok (sc (normalize_ws s), []).
Proof. exact preprocess_hashfree_norm. Qed.
Print Assumptions C31_preprocess_hashfree_norm.

(* [tie-preprocess] [tie-comment] *)
Theorem C31_preprocess_hashfree : forall s, nohash s -> no_other_ws s -> preprocess s = Ok (sc s, []).
Proof. exact preprocess_hashfree. Qed.
Print Assumptions C31_preprocess_hashfree.

(* the first composed statement in which comments occur: for a cdef without '#' (no directives, no #define) and
   without \r \f \v, any sequence of comments and white space inserted at a cut outside comments that does not split
   a word leaves the words of the text handed on unchanged, produces no macro and raises nothing *)
(* [tie-preprocess] [tie-comment] [tie-words] *)
Theorem C31_insertion_preprocess_hashfree : forall s1 f s2,
  nohash (s1 ++ f ++ s2) -> no_other_ws (s1 ++ f ++ s2) ->
  closed s1 -> filler f -> word_boundary (sc s1) (sc s2) ->
  exists t1 t2, preprocess (s1 ++ f ++ s2) = Ok (t1, []) /\ preprocess (s1 ++ s2) = Ok (t2, []) /\
                words t1 = words t2.
Proof. exact insertion_preprocess_hashfree. Qed.
Print Assumptions C31_insertion_preprocess_hashfree.

(* ---- the common type names (which names get `typedef int NAME;` in front of the text given to pycparser) ---- *)

(* [tie-ctn] "C31.Order.common_type_names vs cparser._common_type_names" *)
Theorem C31_ctn_words_only : forall common t1 t2, words t1 = words t2 ->
  common_type_names common t1 = common_type_names common t2.
Proof. exact ctn_words_only. Qed.
Print Assumptions C31_ctn_words_only.

(* comments cannot change which type names are pre-declared -- whatever their text ("typedef unsigned char uint8_t;"
   included), for every set of common types and every set of earlier typedefs; stated on the model's parse_front and on
   the regenerated statement order of Parser._parse *)
(* [tie-ctn] [tie-preprocess] [regen] *)
Theorem C31_typenames_comment_invariant : forall common declared s1 f s2,
  nohash (s1 ++ f ++ s2) -> no_other_ws (s1 ++ f ++ s2) ->
  closed s1 -> filler f -> word_boundary (sc s1) (sc s2) ->
  exists tn t1 t2,
    parse_front common declared (s1 ++ f ++ s2) = Ok (tn, t1, []) /\
    parse_front common declared (s1 ++ s2) = Ok (tn, t2, []) /\ words t1 = words t2.
Proof. exact typenames_comment_invariant. Qed.
Print Assumptions C31_typenames_comment_invariant.

Theorem C31_parse_front_comment_invariant : forall common declared s1 f s2,
  nohash (s1 ++ f ++ s2) -> no_other_ws (s1 ++ f ++ s2) ->
  closed s1 -> filler f -> word_boundary (sc s1) (sc s2) ->
  exists tn t1 t2,
    run_parse_front common declared Gen.parse_front_stmts (s1 ++ f ++ s2) = Some (Ok (tn, t1, [])) /\
    run_parse_front common declared Gen.parse_front_stmts (s1 ++ s2) = Some (Ok (tn, t2, [])) /\ words t1 = words t2.
Proof. exact parse_front_comment_invariant. Qed.
Print Assumptions C31_parse_front_comment_invariant.

(* non-vacuity, and why the ORDER is part of the tie: the scanner applied to the raw text is not invariant.
   "uint8_t x;" pre-declares uint8_t; with "// typedef int uint8_t;\n" in front the raw scan finds nothing, while
   parse_front (scan after comment removal) still pre-declares uint8_t *)
Example C31_ctn_raw_not_invariant :
  filler ex_comment /\
  common_type_names ex_common ex_decl = [[117;105;110;116;56;95;116]] /\
  common_type_names ex_common (ex_comment ++ ex_decl) = [] /\
  parse_front ex_common [] (ex_comment ++ ex_decl) = Ok ([[117;105;110;116;56;95;116]], SP :: NL :: ex_decl, []).
Proof. exact ctn_raw_not_invariant. Qed.
