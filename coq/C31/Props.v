(* C31 — Comments, spacing and line directives do not change a cdef's meaning.
   Statements only; proofs are in C31/Proofs.v and C31/Proofs2.v.  The model (C31/Model.v) is
   cparser.py's textual pre-processing; it is tied to the code by differential tests on every run.
   What is NOT covered by these theorems (tested only, tools/props/c31.py): pycparser's lexer and
   parser, the '...' / extern "Python" / __stdcall rewriting, and the composition of the steps
   (for which the full statement is false, see C31_full_statement_refuted). *)
From Coq Require Import List NArith Bool.
Import ListNotations.
From Cffi Require Import C31.Model C31.Proofs C31.Proofs2.
Open Scope N_scope.

(* comment removal never changes the number of line ends (all texts) *)
Theorem C31_newlines_preserved : forall s, count_nl (sc s) = count_nl s.
Proof. exact sc_count_nl. Qed.
Print Assumptions C31_newlines_preserved.

(* at a cut outside comments the scanner works on both sides independently (all texts s2) *)
Theorem C31_scanner_compositional : forall s1, closed s1 -> forall s2, sc (s1 ++ s2) = sc s1 ++ sc s2.
Proof. exact sc_app. Qed.
Print Assumptions C31_scanner_compositional.

(* an inserted comment is, for every later step, a blank followed by its own newlines *)
Theorem C31_block_comment_is_space : forall s1 c nl s2, closed s1 ->
  block_end (c ++ [STAR; SLASH]) 0 = Some (nl, []) ->
  sc (s1 ++ (SLASH :: STAR :: c ++ [STAR; SLASH]) ++ s2) = sc s1 ++ (SP :: repeat NL nl) ++ sc s2.
Proof. exact block_comment_is_space. Qed.
Print Assumptions C31_block_comment_is_space.

Theorem C31_line_comment_is_space : forall s1 c s2, closed s1 -> forallb plain_char c = true ->
  sc (s1 ++ (SLASH :: SLASH :: c ++ [NL]) ++ s2) = sc s1 ++ [SP; NL] ++ sc s2.
Proof. exact line_comment_is_space. Qed.
Print Assumptions C31_line_comment_is_space.

(* central statement: inserting any sequence of white space, /* */ comments and // comments at a cut
   that is outside comments and does not split a word leaves the word sequence (\w+|\S, what
   _common_type_names and every later step sees) unchanged *)
Theorem C31_insertion_keeps_words : forall s1 f s2,
  closed s1 -> filler f -> word_boundary (sc s1) (sc s2) ->
  words (sc (s1 ++ f ++ s2)) = words (sc (s1 ++ s2)).
Proof. exact insertion_keeps_words. Qed.
Print Assumptions C31_insertion_keeps_words.

(* ... and, when the filler contains no newline, also the line structure (newline kept as a token):
   what the line-based steps _r_define and _r_line_directive see *)
Theorem C31_inline_insertion_keeps_lines : forall s1 f s2,
  closed s1 -> inline_filler f -> word_boundary (sc s1) (sc s2) ->
  lwords (sc (s1 ++ f ++ s2)) = lwords (sc (s1 ++ s2)).
Proof. exact inline_insertion_keeps_lines. Qed.
Print Assumptions C31_inline_insertion_keeps_lines.

(* a backslash-newline inside the value part of a #define: the value group of _r_define extends over
   it, the rest of the text is the same, and the macro value is the same *)
Theorem C31_define_continuation : forall a b rest,
  forallb plain_char a = true -> forallb plain_char b = true ->
  value_end (a ++ BSL :: NL :: b ++ NL :: rest) = Some (a ++ BSL :: NL :: b, NL :: rest) /\
  value_end (a ++ b ++ NL :: rest) = Some (a ++ b, NL :: rest) /\
  macro_value (a ++ BSL :: NL :: b) = macro_value (a ++ b).
Proof. exact define_continuation. Qed.
Print Assumptions C31_define_continuation.

(* blanks around a macro value are irrelevant *)
Theorem C31_macro_value_blanks : forall ws1 v ws2,
  forallb is_space ws1 = true -> forallb is_space ws2 = true ->
  forallb (fun x => negb (x =? BSL)) v = true ->
  macro_value (ws1 ++ v ++ ws2) = macro_value v.
Proof. exact macro_value_blanks. Qed.
Print Assumptions C31_macro_value_blanks.

(* stashing the line directives and putting them back is the identity on every text
   (no AssertionError/IndexError/ValueError when nothing happens in between) *)
Theorem C31_line_directives_roundtrip : forall s,
  put_back_line_directives (fst (remove_line_directives s)) (snd (remove_line_directives s)) = Ok s.
Proof. exact line_directives_roundtrip. Qed.
Print Assumptions C31_line_directives_roundtrip.

(* the stashed placeholder '#line@N' passes through comment removal untouched at any cut outside comments:
   the directive text (whose file name may contain comment openers) cannot confuse the comment scanner *)
Theorem C31_placeholder_inert : forall s1 i s2, closed s1 ->
  sc (s1 ++ (s_lineat ++ dec i) ++ s2) = sc s1 ++ (s_lineat ++ dec i) ++ sc s2.
Proof. exact placeholder_inert. Qed.
Print Assumptions C31_placeholder_inert.

(* NOT proved: invariance of the composed _preprocess under insertion of a directive line -- it is false at the
   positions of known finding directive_in_rewritten_construct; covered by the metamorphic test elsewhere *)

(* ---- the full statement for the composed pre-processing, and why it is only partial ---- *)

Definition C31_full_statement : Prop :=
  forall s1 f s2, closed s1 -> filler f -> word_boundary (sc s1) (sc s2) ->
  match preprocess (s1 ++ f ++ s2), preprocess (s1 ++ s2) with
  | Ok (t1, m1), Ok (t2, m2) => words t1 = words t2 /\ m1 = m2
  | Err _, Err _ => True
  | _, _ => False
  end.

(* texts as code points:  "#define X "  "/*\n*/"  "1\n"  *)
Definition w_s1 : text := [35;100;101;102;105;110;101;32;88;32].
Definition w_f  : text := [47;42;10;42;47].
Definition w_s2 : text := [49;10].

Lemma w_f_filler : filler w_f.
Proof. apply (f_block [10] 1%nat). reflexivity. Qed.

Lemma w_s1_closed : closed w_s1.
Proof. repeat (apply cl_plain; [discriminate|]). constructor. Qed.

(* known finding define_multiline_comment: the macro X becomes empty and "1" stays in the text *)
Theorem C31_full_statement_refuted : ~ C31_full_statement.
Proof.
  intros H. specialize (H w_s1 w_f w_s2 w_s1_closed w_f_filler eq_refl).
  vm_compute in H. destruct H as [H _]. discriminate H.
Qed.
Print Assumptions C31_full_statement_refuted.

(* known finding comment_on_directive_line:  "/**/# 5"  is refused by _put_back_line_directives
   (a CDefError since the fix of C30's line_directive_put_back; the cdef still changes meaning) *)
Example C31_comment_before_directive_raises :
  preprocess [47;42;42;47;35;32;53] = Err CDefError.
Proof. vm_compute. reflexivity. Qed.

(* \r, \f, \v are turned into blanks first (fixed: other_whitespace): same words, none left *)
Theorem C31_normalize_keeps_words : forall s, words (normalize_ws s) = words s.
Proof. exact normalize_keeps_words. Qed.
Print Assumptions C31_normalize_keeps_words.

Theorem C31_normalize_removes : forall s, forallb (fun c => negb (other_ws c)) (normalize_ws s) = true.
Proof. exact normalize_removes. Qed.
Print Assumptions C31_normalize_removes.

(* fixed: define_continuation_before_name.  "# \<nl> define \<nl> X 1\n"  is the macro X = "1" *)
Example C31_define_continuation_before_name :
  preprocess [35;32;92;10;32;100;101;102;105;110;101;32;92;10;32;88;32;49;10] = Ok ([10], [([88], [49])]).
Proof. vm_compute. reflexivity. Qed.

(* ---- non-vacuity ---- *)

(* "int" | "/* a*b // */" "// x\n" "  \t\n" | "*y;"  : closed prefix, composite filler, word boundary *)
Example C31_example_filler :
  let s1 := [105;110;116] in
  let f := (SLASH :: STAR :: [32;97;42;98;32;47;47;32] ++ [STAR; SLASH]) ++ (SLASH :: SLASH :: [32;120] ++ [NL]) ++ [32;32;9;10] in
  let s2 := [42;121;59] in
  closed s1 /\ filler f /\ word_boundary (sc s1) (sc s2) /\
  words (sc (s1 ++ f ++ s2)) = [[105;110;116]; [42]; [121]; [59]].
Proof.
  intros s1 f s2. split; [|split; [|split]].
  - repeat (apply cl_plain; [discriminate|]). constructor.
  - apply f_app; [apply (f_block _ 0%nat); reflexivity|].
    apply f_app; [apply f_line; reflexivity|apply f_ws; reflexivity].
  - reflexivity.
  - reflexivity.
Qed.

(* the hypothesis `closed` excludes what it must: after "5 /" an inserted comment would become "//..." *)
Example C31_example_not_closed :
  sc ([53;32;47] ++ [47;42;99;42;47] ++ [50;10]) = [53;32;32;10] /\ ~ closed [53;32;47].
Proof.
  split; [reflexivity|]. intros H.
  inversion H as [|c r Hc Hr|d r H1 H2 Hr|r nl rest Hb Hr|r nl rest Hl Hr]; subst.
  inversion Hr as [|c r Hc2 Hr2| | |]; subst.
  inversion Hr2 as [|c r Hc3 Hr3| | |]; subst. now apply Hc3.
Qed.

(* #define X 1 \<nl> 2 : continuation in a value; directive stash on a text with two directives *)
Example C31_example_define :
  macro_value ([32;49;32] ++ BSL :: NL :: [32;50]) = [49;32;32;50] /\
  remove_line_directives [35;32;53;10;105;10;35;108;105;110;101;32;55] =
    ([35;108;105;110;101;64;48;10;105;10;35;108;105;110;101;64;49], [[35;32;53]; [35;108;105;110;101;32;55]]).
Proof. split; reflexivity. Qed.
