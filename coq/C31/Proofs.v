(* C31 — proofs about the comment scanner and the word scanner (C31/Model.v). *)
From Coq Require Import List NArith Bool Arith Lia.
Import ListNotations.
From Cffi Require Import C31.Model.
Open Scope N_scope.

(* ------------------------------------------------------------------ unfolding lemmas *)

Lemma block_end_cons2 : forall c d r nl,
  block_end (c :: d :: r) nl =
  if (c =? STAR) && (d =? SLASH) then Some (nl, r)
  else block_end (d :: r) (if c =? NL then S nl else nl).
Proof. reflexivity. Qed.

Lemma line_end_cons : forall c r nl,
  line_end (c :: r) nl =
  if c =? NL then Some (nl, c :: r)
  else if c =? BSL then
    match r with
    | [] => None
    | d :: r' => line_end r' (if d =? NL then S nl else nl)
    end
  else line_end r nl.
Proof. reflexivity. Qed.

Lemma strip_cons2 : forall f c d r,
  strip (S f) (c :: d :: r) =
  if (c =? SLASH) && (d =? STAR) then
    match block_end r 0 with
    | Some (nl, rest) => SP :: repeat NL nl ++ strip f rest
    | None => c :: strip f (d :: r)
    end
  else if (c =? SLASH) && (d =? SLASH) then
    match line_end r 0 with
    | Some (nl, rest) => SP :: repeat NL nl ++ strip f rest
    | None => c :: strip f (d :: r)
    end
  else c :: strip f (d :: r).
Proof. reflexivity. Qed.

(* ------------------------------------------------------------------ lengths, fuel *)

Lemma block_end_len : forall s n nl rest,
  block_end s n = Some (nl, rest) -> (length rest < length s)%nat.
Proof.
  induction s as [|c r IH]; intros n nl rest H; [discriminate|].
  destruct r as [|d r']; [discriminate|].
  rewrite block_end_cons2 in H.
  destruct ((c =? STAR) && (d =? SLASH)).
  - inversion H; subst. simpl. lia.
  - apply IH in H. simpl in *. lia.
Qed.

Lemma line_end_len_aux : forall k s n nl rest, (length s <= k)%nat ->
  line_end s n = Some (nl, rest) -> (length rest <= length s)%nat.
Proof.
  induction k; intros s n nl rest Hk H.
  - destruct s; [|simpl in Hk; lia]. inversion H; subst. simpl. lia.
  - destruct s as [|c r]. { inversion H; subst. simpl. lia. }
    rewrite line_end_cons in H.
    destruct (c =? NL). { inversion H; subst. lia. }
    destruct (c =? BSL).
    + destruct r as [|d r']; [discriminate|].
      apply IHk in H; simpl in *; lia.
    + apply IHk in H; simpl in *; lia.
Qed.

Lemma line_end_len : forall s n nl rest,
  line_end s n = Some (nl, rest) -> (length rest <= length s)%nat.
Proof. intros. eapply line_end_len_aux; eauto. Qed.

Lemma strip_nil : forall f, strip f [] = [].
Proof. destruct f; reflexivity. Qed.

Lemma strip_fuel : forall f1 f2 s, (length s <= f1)%nat -> (length s <= f2)%nat ->
  strip f1 s = strip f2 s.
Proof.
  induction f1; intros f2 s H1 H2.
  - destruct s; [|simpl in H1; lia]. now rewrite !strip_nil.
  - destruct f2. { destruct s; [|simpl in H2; lia]. now rewrite !strip_nil. }
    destruct s as [|c r]; [reflexivity|].
    destruct r as [|d r']; [reflexivity|].
    rewrite !strip_cons2. simpl in H1, H2.
    assert (Hd : strip f1 (d :: r') = strip f2 (d :: r')) by (apply IHf1; simpl; lia).
    destruct ((c =? SLASH) && (d =? STAR)).
    + destruct (block_end r' 0) as [[nl rest]|] eqn:E.
      * apply block_end_len in E. f_equal. f_equal. apply IHf1; lia.
      * now rewrite Hd.
    + destruct ((c =? SLASH) && (d =? SLASH)).
      * destruct (line_end r' 0) as [[nl rest]|] eqn:E.
        -- apply line_end_len in E. f_equal. f_equal. apply IHf1; lia.
        -- now rewrite Hd.
      * now rewrite Hd.
Qed.

(* ------------------------------------------------------------------ sc without fuel *)

Lemma sc_nil : sc [] = [].
Proof. reflexivity. Qed.

Lemma sc_single : forall c, sc [c] = [c].
Proof. reflexivity. Qed.

Lemma sc_cons2 : forall c d r,
  sc (c :: d :: r) =
  if (c =? SLASH) && (d =? STAR) then
    match block_end r 0 with
    | Some (nl, rest) => SP :: repeat NL nl ++ sc rest
    | None => c :: sc (d :: r)
    end
  else if (c =? SLASH) && (d =? SLASH) then
    match line_end r 0 with
    | Some (nl, rest) => SP :: repeat NL nl ++ sc rest
    | None => c :: sc (d :: r)
    end
  else c :: sc (d :: r).
Proof.
  intros. unfold sc. change (length (c :: d :: r)) with (S (S (length r))).
  rewrite strip_cons2.
  assert (Hd : strip (S (length r)) (d :: r) = strip (length (d :: r)) (d :: r)) by reflexivity.
  destruct ((c =? SLASH) && (d =? STAR)).
  - destruct (block_end r 0) as [[nl rest]|] eqn:E; [|now rewrite Hd].
    apply block_end_len in E. f_equal. f_equal. apply strip_fuel; lia.
  - destruct ((c =? SLASH) && (d =? SLASH)); [|now rewrite Hd].
    destruct (line_end r 0) as [[nl rest]|] eqn:E; [|now rewrite Hd].
    apply line_end_len in E. f_equal. f_equal. apply strip_fuel; lia.
Qed.

Lemma sc_plain : forall c r, c <> SLASH -> sc (c :: r) = c :: sc r.
Proof.
  intros c r H. destruct r as [|d r]; [reflexivity|].
  rewrite sc_cons2. apply N.eqb_neq in H. rewrite H. reflexivity.
Qed.

Lemma sc_slash : forall d r, d <> STAR -> d <> SLASH -> sc (SLASH :: d :: r) = SLASH :: sc (d :: r).
Proof.
  intros d r H1 H2. rewrite sc_cons2. apply N.eqb_neq in H1, H2. rewrite H1, H2.
  rewrite !andb_false_r. reflexivity.
Qed.

Lemma sc_block : forall r nl rest, block_end r 0 = Some (nl, rest) ->
  sc (SLASH :: STAR :: r) = SP :: repeat NL nl ++ sc rest.
Proof. intros r nl rest H. rewrite sc_cons2. change ((SLASH =? SLASH) && (STAR =? STAR)) with true. now rewrite H. Qed.

Lemma sc_line : forall r nl rest, line_end r 0 = Some (nl, rest) ->
  sc (SLASH :: SLASH :: r) = SP :: repeat NL nl ++ sc rest.
Proof.
  intros r nl rest H. rewrite sc_cons2.
  change ((SLASH =? SLASH) && (SLASH =? STAR)) with false.
  change ((SLASH =? SLASH) && (SLASH =? SLASH)) with true. cbv iota. now rewrite H.
Qed.

(* ------------------------------------------------------------------ appending after a terminated comment *)

Lemma block_end_app : forall r n nl rest, block_end r n = Some (nl, rest) ->
  forall x, block_end (r ++ x) n = Some (nl, rest ++ x).
Proof.
  induction r as [|c r IH]; intros n nl rest H x; [discriminate|].
  destruct r as [|d r']; [discriminate|].
  rewrite block_end_cons2 in H.
  change ((c :: d :: r') ++ x) with (c :: d :: (r' ++ x)). rewrite block_end_cons2.
  destruct ((c =? STAR) && (d =? SLASH)).
  - now inversion H.
  - change (d :: r' ++ x) with ((d :: r') ++ x). now apply IH.
Qed.

Lemma line_end_app_aux : forall k r n nl rest, (length r <= k)%nat ->
  line_end r n = Some (nl, NL :: rest) ->
  forall x, line_end (r ++ x) n = Some (nl, NL :: rest ++ x).
Proof.
  induction k; intros r n nl rest Hk H x.
  - destruct r; [discriminate|simpl in Hk; lia].
  - destruct r as [|c r]; [discriminate|].
    change ((c :: r) ++ x) with (c :: (r ++ x)).
    rewrite line_end_cons in *.
    destruct (c =? NL) eqn:Ec.
    + inversion H; subst. reflexivity.
    + destruct (c =? BSL).
      * destruct r as [|d r']; [discriminate|].
        change ((d :: r') ++ x) with (d :: (r' ++ x)).
        apply IHk; [simpl in Hk; lia|assumption].
      * apply IHk; [simpl in Hk; lia|assumption].
Qed.

Lemma line_end_app : forall r n nl rest, line_end r n = Some (nl, NL :: rest) ->
  forall x, line_end (r ++ x) n = Some (nl, NL :: rest ++ x).
Proof. intros. eapply line_end_app_aux; eauto. Qed.

Theorem sc_app : forall s1, closed s1 -> forall s2, sc (s1 ++ s2) = sc s1 ++ sc s2.
Proof.
  induction 1 as [|c r Hc Hr IH|d r H1 H2 Hr IH|r nl rest Hb Hr IH|r nl rest Hl Hr IH]; intros s2.
  - reflexivity.
  - change ((c :: r) ++ s2) with (c :: (r ++ s2)). rewrite !sc_plain by assumption.
    now rewrite IH.
  - change ((SLASH :: d :: r) ++ s2) with (SLASH :: d :: (r ++ s2)).
    rewrite !sc_slash by assumption. change (d :: r ++ s2) with ((d :: r) ++ s2). now rewrite IH.
  - change ((SLASH :: STAR :: r) ++ s2) with (SLASH :: STAR :: (r ++ s2)).
    rewrite (sc_block _ _ _ (block_end_app _ _ _ _ Hb s2)), (sc_block _ _ _ Hb), IH.
    now rewrite app_comm_cons, app_assoc.
  - change ((SLASH :: SLASH :: r) ++ s2) with (SLASH :: SLASH :: (r ++ s2)).
    rewrite (sc_line _ _ _ (line_end_app _ _ _ _ Hl s2)), (sc_line _ _ _ Hl).
    change (NL :: rest ++ s2) with ((NL :: rest) ++ s2). rewrite IH.
    now rewrite app_comm_cons, app_assoc.
Qed.

Lemma closed_app : forall a, closed a -> forall b, closed b -> closed (a ++ b).
Proof.
  induction 1 as [|c r Hc Hr IH|d r H1 H2 Hr IH|r nl rest Hb Hr IH|r nl rest Hl Hr IH]; intros b Hcl.
  - assumption.
  - simpl. apply cl_plain; auto.
  - change ((SLASH :: d :: r) ++ b) with (SLASH :: d :: (r ++ b)). apply cl_slash; auto.
    change (d :: r ++ b) with ((d :: r) ++ b). auto.
  - change ((SLASH :: STAR :: r) ++ b) with (SLASH :: STAR :: (r ++ b)).
    eapply cl_block; [apply block_end_app; eassumption|auto].
  - change ((SLASH :: SLASH :: r) ++ b) with (SLASH :: SLASH :: (r ++ b)).
    eapply cl_line; [apply line_end_app; eassumption|].
    change (NL :: rest ++ b) with ((NL :: rest) ++ b). auto.
Qed.

(* ------------------------------------------------------------------ newlines are preserved *)

Lemma count_nl_cons : forall c s, count_nl (c :: s) = ((if (c =? NL)%N then 1 else 0) + count_nl s)%nat.
Proof. intros. unfold count_nl. simpl. destruct (c =? NL); reflexivity. Qed.

Lemma count_nl_app : forall a b, count_nl (a ++ b) = (count_nl a + count_nl b)%nat.
Proof. intros. unfold count_nl. now rewrite filter_app, app_length. Qed.

Lemma count_nl_repeat : forall n, count_nl (repeat NL n) = n.
Proof. induction n; [reflexivity|]. simpl repeat. rewrite count_nl_cons, IHn. reflexivity. Qed.

Lemma block_end_nl : forall s n nl rest, block_end s n = Some (nl, rest) ->
  (nl + count_nl rest = n + count_nl s)%nat.
Proof.
  induction s as [|c r IH]; intros n nl rest H; [discriminate|].
  destruct r as [|d r']; [discriminate|].
  rewrite block_end_cons2 in H.
  destruct ((c =? STAR) && (d =? SLASH)) eqn:E.
  - inversion H; subst. apply andb_true_iff in E. destruct E as [E1 E2].
    apply N.eqb_eq in E1, E2. subst. rewrite !count_nl_cons. reflexivity.
  - apply IH in H. rewrite (count_nl_cons c). destruct (c =? NL); lia.
Qed.

Lemma line_end_nl_aux : forall k s n nl rest, (length s <= k)%nat ->
  line_end s n = Some (nl, rest) -> (nl + count_nl rest = n + count_nl s)%nat.
Proof.
  induction k; intros s n nl rest Hk H.
  - destruct s; [|simpl in Hk; lia]. inversion H; subst. reflexivity.
  - destruct s as [|c r]. { inversion H; subst. reflexivity. }
    rewrite line_end_cons in H.
    destruct (c =? NL) eqn:Ec. { inversion H; subst. reflexivity. }
    rewrite (count_nl_cons c), Ec.
    destruct (c =? BSL).
    + destruct r as [|d r']; [discriminate|].
      apply IHk in H; [|simpl in Hk; lia]. rewrite (count_nl_cons d). destruct (d =? NL); lia.
    + apply IHk in H; [|simpl in Hk; lia]. lia.
Qed.

Theorem sc_count_nl : forall s, count_nl (sc s) = count_nl s.
Proof.
  assert (G : forall k s, (length s <= k)%nat -> count_nl (sc s) = count_nl s).
  { induction k; intros s Hk.
    - destruct s; [reflexivity|simpl in Hk; lia].
    - destruct s as [|c [|d r]]; [reflexivity|reflexivity|].
      rewrite sc_cons2. simpl in Hk.
      assert (Hd : count_nl (c :: sc (d :: r)) = count_nl (c :: d :: r)).
      { rewrite !(count_nl_cons c). rewrite IHk by (simpl; lia). reflexivity. }
      destruct ((c =? SLASH) && (d =? STAR)) eqn:E1.
      + destruct (block_end r 0) as [[nl rest]|] eqn:E; [|exact Hd].
        apply andb_true_iff in E1. destruct E1 as [Ea Eb]. apply N.eqb_eq in Ea, Eb. subst.
        pose proof (block_end_len _ _ _ _ E). apply block_end_nl in E.
        rewrite count_nl_cons, count_nl_app, count_nl_repeat, IHk by lia.
        rewrite !count_nl_cons. change (SP =? NL) with false. change (SLASH =? NL) with false.
        change (STAR =? NL) with false. cbv iota. lia.
      + destruct ((c =? SLASH) && (d =? SLASH)) eqn:E2; [|exact Hd].
        destruct (line_end r 0) as [[nl rest]|] eqn:E; [|exact Hd].
        apply andb_true_iff in E2. destruct E2 as [Ea Eb]. apply N.eqb_eq in Ea, Eb. subst.
        pose proof (line_end_len _ _ _ _ E).
        apply (line_end_nl_aux (length r)) in E; [|lia].
        rewrite count_nl_cons, count_nl_app, count_nl_repeat, IHk by lia.
        rewrite !count_nl_cons. change (SP =? NL) with false. change (SLASH =? NL) with false. cbv iota. lia. }
  intros s. apply (G (length s)). lia.
Qed.

(* ------------------------------------------------------------------ words *)

Section WordsFacts.
  Variable sp : N -> bool.
  Hypothesis sp_not_word : forall c, sp c = true -> is_word c = false.

  Definition sep (c : N) : list text := if sp c then [] else [[c]].

  Lemma gwords_aux_nonword : forall x cur c y, is_word c = false ->
    gwords_aux sp cur (x ++ c :: y) = gwords_aux sp cur x ++ sep c ++ gwords_aux sp [] y.
  Proof.
    induction x as [|a x IH]; intros cur c y Hc.
    - simpl. rewrite Hc. reflexivity.
    - simpl. destruct (is_word a).
      + apply IH; assumption.
      + rewrite (IH [] c y Hc). unfold sep. now rewrite <- !app_assoc.
  Qed.

  Lemma gwords_nonword : forall x c y, is_word c = false ->
    gwords sp (x ++ c :: y) = gwords sp x ++ sep c ++ gwords sp y.
  Proof. intros. apply gwords_aux_nonword; assumption. Qed.

  Lemma gwords_spaces : forall ws y, forallb sp ws = true -> gwords sp (ws ++ y) = gwords sp y.
  Proof.
    induction ws as [|c ws IH]; intros y H; [reflexivity|].
    simpl in H. apply andb_true_iff in H. destruct H as [Hc Hw].
    unfold gwords. simpl. rewrite (sp_not_word _ Hc), Hc. simpl. now apply IH.
  Qed.

  Lemma gwords_space_sep : forall x ws y, ws <> [] -> forallb sp ws = true ->
    gwords sp (x ++ ws ++ y) = gwords sp x ++ gwords sp y.
  Proof.
    intros x ws y Hne H. destruct ws as [|c ws]; [congruence|].
    simpl in H. apply andb_true_iff in H. destruct H as [Hc Hw].
    change ((c :: ws) ++ y) with (c :: (ws ++ y)).
    rewrite gwords_nonword by auto. unfold sep. rewrite Hc. simpl.
    now rewrite gwords_spaces.
  Qed.

  Lemma last_is_word_snoc : forall x a, last_is_word (x ++ [a]) = is_word a.
  Proof. intros. unfold last_is_word. now rewrite rev_unit. Qed.

  Lemma gwords_boundary : forall x y, last_is_word x && first_is_word y = false ->
    gwords sp (x ++ y) = gwords sp x ++ gwords sp y.
  Proof.
    intros x y H. destruct y as [|c y].
    - now rewrite !app_nil_r.
    - destruct (is_word c) eqn:Ec.
      + (* then x does not end with a word character *)
        destruct x as [|x0 xs] using rev_ind; [reflexivity|].
        rewrite last_is_word_snoc in H. simpl in H. rewrite Ec, andb_true_r in H.
        rewrite <- app_assoc. change ([x0] ++ c :: y) with (x0 :: c :: y).
        rewrite gwords_nonword by assumption.
        rewrite (gwords_nonword xs x0 []) by assumption.
        change (gwords sp []) with (@nil text). now rewrite app_nil_r, <- app_assoc.
      + rewrite gwords_nonword by assumption.
        f_equal. unfold gwords. simpl. rewrite Ec. reflexivity.
  Qed.

  (* the central composition: a filler that is outside comments on both sides and that the comment
     scanner turns into separators only *)
  Lemma insertion_generic : forall s1 f s2,
    closed s1 -> closed f -> forallb sp (sc f) = true ->
    last_is_word (sc s1) && first_is_word (sc s2) = false ->
    gwords sp (sc (s1 ++ f ++ s2)) = gwords sp (sc (s1 ++ s2)).
  Proof.
    intros s1 f s2 H1 Hf Hsp Hb.
    rewrite (sc_app s1 H1), (sc_app f Hf), (sc_app s1 H1).
    rewrite (gwords_boundary _ _ Hb).
    destruct (sc f) as [|c ws] eqn:E.
    - simpl. now apply gwords_boundary.
    - apply gwords_space_sep; [discriminate|assumption].
  Qed.
End WordsFacts.
