(* C31 — model of the textual pre-processing of a cdef (src/cffi/cparser.py).

   Texts are lists of code points (N).  Everything here is an executable definition; the
   regular expressions of cparser.py are modelled by hand as scanners and tied to Python's
   `re` on every run (tools/props/c31.py: random texts through the real `_r_comment`,
   `_r_words` and the real `_preprocess`, compared with `sc`, `words` and `preprocess`).

   Modelled code (regular expressions are quoted with a blank inserted between '*' and ')'):
     _r_comment  (cparser.py:27)   /\*.*?\*/|//([^\n\\]|\\.)*?$    DOTALL|MULTILINE
     replace_keeping_newlines (cparser.py:208-209)   ' ' + m.group().count('\n') * '\n'
     _r_words    (cparser.py:37)   \w+|\S           (input of _common_type_names, :268; modelled in C31/Order.v)
     _r_define   (cparser.py:29)   ^\s*#(?:\s|\\\n)*define(?:\s|\\\n)+([A-Za-z_][A-Za-z_0-9]* )\b((?:[^\n\\]|\\.)*?)$
     macro value (cparser.py:215)  macrovalue.replace('\\\n', '').strip()
     _r_line_directive (cparser.py:33)  ^[ \t]*#[ \t]*(?:line|\d+)\b.*$   MULTILINE
     _remove_line_directives / _put_back_line_directives (cparser.py:173-197)
     _preprocess (cparser.py:199-266)  for texts on which the later rewriting steps ('...',
                 __stdcall/WINAPI/__cdecl, extern "Python") find nothing to rewrite.
   The pattern texts, the flags and the statement order of these functions are regenerated into C31/Gen.v on every
   run and compared with / interpreted by C31/Order.v (line numbers as of /repo 2d93229).
   Domain: ASCII texts (Python's \s, \w, str.strip() agree with the classes below on
   code points < 128 except 0x1c-0x1f, which the generators do not produce). *)
From Coq Require Import List NArith ZArith Bool Arith.
Import ListNotations.
Open Scope N_scope.

Definition text := list N.

Definition NL : N := 10.     (* \n *)
Definition SP : N := 32.
Definition SLASH : N := 47.
Definition STAR : N := 42.
Definition BSL : N := 92.    (* backslash *)
Definition HASH : N := 35.
Definition AT : N := 64.

(* ------------------------------------------------------------------ comments *)

(* `s` is the text after "/*".  Position of the first "*/": number of newlines before it
   (added to nl) and the text after it; None when the comment is not terminated
   (then the first alternative of _r_comment does not match at all). *)
Fixpoint block_end (s : text) (nl : nat) : option (nat * text) :=
  match s with
  | [] => None
  | c :: r =>
      match r with
      | d :: r' => if (c =? STAR) && (d =? SLASH) then Some (nl, r')
                   else block_end r (if c =? NL then S nl else nl)
      | [] => None
      end
  end.

(* `s` is the text after "//".  The lazy group of _r_comment's second alternative: lazily extend until `$` holds (end of text or
   next char is \n); a backslash takes the next char with it (also a newline, DOTALL); a
   backslash that is the last char of the text makes the match fail (nothing to backtrack to). *)
Fixpoint line_end (s : text) (nl : nat) : option (nat * text) :=
  match s with
  | [] => Some (nl, [])
  | c :: r =>
      if c =? NL then Some (nl, s)
      else if c =? BSL then
        match r with
        | [] => None
        | d :: r' => line_end r' (if d =? NL then S nl else nl)
        end
      else line_end r nl
  end.

(* _r_comment.sub(replace_keeping_newlines, s): leftmost matches, scanning resumes after a match;
   where no alternative matches the character is copied and scanning resumes one char later. *)
Fixpoint strip (fuel : nat) (s : text) : text :=
  match fuel with
  | O => s
  | S f =>
    match s with
    | [] => []
    | c :: r =>
      match r with
      | d :: r' =>
          if (c =? SLASH) && (d =? STAR) then
            match block_end r' 0 with
            | Some (nl, rest) => SP :: repeat NL nl ++ strip f rest
            | None => c :: strip f r
            end
          else if (c =? SLASH) && (d =? SLASH) then
            match line_end r' 0 with
            | Some (nl, rest) => SP :: repeat NL nl ++ strip f rest
            | None => c :: strip f r
            end
          else c :: strip f r
      | [] => [c]
      end
    end
  end.

Definition sc (s : text) : text := strip (length s) s.

(* "the cut after s is outside every comment, and no comment decision taken inside s depends
   on what follows": every comment opened in s is closed in s (a // comment by a newline of s),
   and s does not end with a '/' that could pair with the next character. *)
Inductive closed : text -> Prop :=
| cl_nil : closed []
| cl_plain c r : c <> SLASH -> closed r -> closed (c :: r)
| cl_slash d r : d <> STAR -> d <> SLASH -> closed (d :: r) -> closed (SLASH :: d :: r)
| cl_block r nl rest : block_end r 0 = Some (nl, rest) -> closed rest -> closed (SLASH :: STAR :: r)
| cl_line r nl rest : line_end r 0 = Some (nl, NL :: rest) -> closed (NL :: rest) ->
                      closed (SLASH :: SLASH :: r).

Definition count_nl (s : text) : nat := length (filter (fun c => c =? NL) s).

(* ------------------------------------------------------------------ character classes *)

Definition in_range (lo hi c : N) : bool := (lo <=? c) && (c <=? hi).
Definition is_digit (c : N) : bool := in_range 48 57 c.
Definition is_alpha_ (c : N) : bool := in_range 65 90 c || in_range 97 122 c || (c =? 95).
Definition is_word (c : N) : bool := is_alpha_ c || is_digit c.           (* \w, ASCII *)
Definition is_space (c : N) : bool := in_range 9 13 c || (c =? 32).       (* \s, ASCII *)
Definition is_hspace (c : N) : bool := (c =? 32) || (c =? 9).            (* [ \t] *)
(* white space other than the newline: what separates tokens without ending a line *)
Definition is_inline_space (c : N) : bool := is_space c && negb (c =? NL).

(* ------------------------------------------------------------------ _r_words *)

(* findall(\w+|\S) parametrised by the separator class `sp` (sp c -> not a word char);
   words := gwords is_space is _r_words; lwords keeps the newline as a token of its own, which
   is the line structure the later line-based steps (_r_define, _r_line_directive) see. *)
Section Words.
  Variable sp : N -> bool.
  Definition flush (cur : text) : list text := match cur with [] => [] | _ => [cur] end.
  Fixpoint gwords_aux (cur : text) (s : text) : list text :=
    match s with
    | [] => flush cur
    | c :: r =>
        if is_word c then gwords_aux (cur ++ [c]) r
        else flush cur ++ (if sp c then [] else [[c]]) ++ gwords_aux [] r
    end.
  Definition gwords (s : text) : list text := gwords_aux [] s.
End Words.

Definition words : text -> list text := gwords is_space.
Definition lwords : text -> list text := gwords is_inline_space.

Definition last_is_word (x : text) : bool :=
  match rev x with c :: _ => is_word c | [] => false end.
Definition first_is_word (y : text) : bool :=
  match y with c :: _ => is_word c | [] => false end.
(* cutting between x and y does not cut a word in two *)
Definition word_boundary (x y : text) : Prop := last_is_word x && first_is_word y = false.

(* ------------------------------------------------------------------ what may be inserted between two tokens *)

Definition plain_char (x : N) : bool := negb (x =? NL) && negb (x =? BSL).

(* white space, a block comment (its body ends at the first "*/"), a // comment whose body has neither
   newline nor backslash together with its newline, and any sequence of these *)
Inductive filler : text -> Prop :=
| f_ws ws : forallb is_space ws = true -> filler ws
| f_block c nl : block_end (c ++ [STAR; SLASH]) 0 = Some (nl, []) ->
                 filler (SLASH :: STAR :: c ++ [STAR; SLASH])
| f_line c : forallb plain_char c = true -> filler (SLASH :: SLASH :: c ++ [NL])
| f_app a b : filler a -> filler b -> filler (a ++ b).

(* the same without any newline: blanks, tabs, one-line block comments *)
Inductive inline_filler : text -> Prop :=
| if_ws ws : forallb is_inline_space ws = true -> inline_filler ws
| if_block c : block_end (c ++ [STAR; SLASH]) 0 = Some (0%nat, []) ->
               inline_filler (SLASH :: STAR :: c ++ [STAR; SLASH])
| if_app a b : inline_filler a -> inline_filler b -> inline_filler (a ++ b).

(* ------------------------------------------------------------------ #define *)

Fixpoint skip_while (p : N -> bool) (s : text) : text :=
  match s with
  | c :: r => if p c then skip_while p r else s
  | [] => []
  end.
Fixpoint take_while (p : N -> bool) (s : text) : text :=
  match s with
  | c :: r => if p c then c :: take_while p r else []
  | [] => []
  end.

Fixpoint starts_with (pre s : text) : option text :=     (* Some rest *)
  match pre, s with
  | [], _ => Some s
  | p :: pre', c :: r => if c =? p then starts_with pre' r else None
  | _ :: _, [] => None
  end.

(* the value group of _r_define, lazily up to `$` : Some (value, rest) with rest = [] or NL :: _ ; None on a trailing backslash *)
Fixpoint value_end (s : text) : option (text * text) :=
  match s with
  | [] => Some ([], [])
  | c :: r =>
      if c =? NL then Some ([], s)
      else if c =? BSL then
        match r with
        | [] => None
        | d :: r' => match value_end r' with
                     | Some (v, rest) => Some (c :: d :: v, rest)
                     | None => None
                     end
        end
      else match value_end r with
           | Some (v, rest) => Some (c :: v, rest)
           | None => None
           end
  end.

(* str.replace('\\\n', '') *)
Fixpoint remove_bsnl (s : text) : text :=
  match s with
  | [] => []
  | c :: r =>
      match r with
      | d :: r' => if (c =? BSL) && (d =? NL) then remove_bsnl r' else c :: remove_bsnl r
      | [] => [c]
      end
  end.

Definition lstrip (s : text) : text := skip_while is_space s.
Definition strip_ws (s : text) : text := rev (lstrip (rev (lstrip s))).     (* str.strip() *)
Definition macro_value (raw : text) : text := strip_ws (remove_bsnl raw).

Definition s_define : text := [100; 101; 102; 105; 110; 101].    (* "define" *)

(* (?:\s|\\\n)*  : white space and backslash-newline pairs *)
Fixpoint skip_cont (s : text) : text :=
  match s with
  | c :: r =>
      if is_space c then skip_cont r
      else if c =? BSL then
        match r with
        | d :: r' => if d =? NL then skip_cont r' else s
        | [] => s
        end
      else s
  | [] => []
  end.
Definition starts_cont (s : text) : bool :=          (* at least one item of that class *)
  match s with
  | c :: r => is_space c || ((c =? BSL) && match r with d :: _ => d =? NL | [] => false end)
  | [] => false
  end.

(* _r_define matched at a line start: Some (name, raw value, rest after the match)
   ^\s*#(?:\s|\\\n)*define(?:\s|\\\n)+NAME\b(value)$ *)
Definition define_at (s : text) : option (text * text * text) :=
  match skip_while is_space s with
  | c :: r =>
      if c =? HASH then
        match starts_with s_define (skip_cont r) with
        | Some r2 =>
            if starts_cont r2 then
              let r3 := skip_cont r2 in
              match r3 with
              | a :: _ =>
                  if is_alpha_ a then
                    let name := take_while is_word r3 in
                    match value_end (skip_while is_word r3) with
                    | Some (v, rest) => Some (name, v, rest)
                    | None => None
                    end
                  else None
              | [] => None
              end
            else None
        | None => None
        end
      else None
  | [] => None
  end.

Definition macros := list (text * text).
Fixpoint list_eqb_N (a b : text) : bool :=
  match a, b with
  | [], [] => true
  | x :: a', y :: b' => (x =? y) && list_eqb_N a' b'
  | _, _ => false
  end.
(* dict[key] = value: first insertion fixes the position *)
Fixpoint dict_set (m : macros) (k v : text) : macros :=
  match m with
  | [] => [(k, v)]
  | (k', v') :: m' => if list_eqb_N k k' then (k, v) :: m' else (k', v') :: dict_set m' k v
  end.

(* the finditer loop (cparser.py:213-216) and _r_define.sub('', csource) (:217) in one pass;
   bol = "this position is the start of a line" (the only places where ^ holds) *)
Fixpoint defs (fuel : nat) (bol : bool) (s : text) (acc : macros) : text * macros :=
  match fuel with
  | O => (s, acc)
  | S f =>
    match s with
    | [] => ([], acc)
    | c :: r =>
        match (if bol then define_at s else None) with
        | Some (name, v, rest) => defs f false rest (dict_set acc name (macro_value v))
        | None => let (t, m) := defs f (c =? NL) r acc in (c :: t, m)
        end
    end
  end.
Definition process_defines (s : text) : text * macros := defs (S (length s)) true s [].

(* ------------------------------------------------------------------ line directives *)

Definition s_line : text := [108; 105; 110; 101].                 (* "line" *)
Definition s_lineat : text := [35; 108; 105; 110; 101; 64].       (* "#line@" *)

Definition not_word_next (s : text) : bool := negb (first_is_word s).     (* \b after a word char *)

(* one line (no \n inside): ^[ \t]*#[ \t]*(?:line|\d+)\b.*$ *)
Definition is_dirline (l : text) : bool :=
  match skip_while is_hspace l with
  | c :: r =>
      (c =? HASH) &&
      let r1 := skip_while is_hspace r in
      match starts_with s_line r1 with
      | Some r2 => not_word_next r2 ||
                   (* alternative \d+ cannot match at an 'l' *) false
      | None =>
          match r1 with
          | d :: _ => is_digit d && not_word_next (skip_while is_digit r1)
          | [] => false
          end
      end
  | [] => false
  end.

Fixpoint split_lines_aux (cur : text) (s : text) : list text :=
  match s with
  | [] => [cur]
  | c :: r => if c =? NL then cur :: split_lines_aux [] r else split_lines_aux (cur ++ [c]) r
  end.
Definition split_lines (s : text) : list text := split_lines_aux [] s.      (* s.split('\n') *)
Definition join_lines (ls : list text) : text :=          (* '\n'.join(ls) *)
  match ls with
  | [] => []
  | l :: ls' => l ++ flat_map (fun x => NL :: x) ls'
  end.

(* '%d' % n  and int() on [0-9]+  (through the standard library's decimal numbers) *)
Fixpoint uint_chars (u : Decimal.uint) : text :=
  match u with
  | Decimal.Nil => []
  | Decimal.D0 u => 48 :: uint_chars u | Decimal.D1 u => 49 :: uint_chars u
  | Decimal.D2 u => 50 :: uint_chars u | Decimal.D3 u => 51 :: uint_chars u
  | Decimal.D4 u => 52 :: uint_chars u | Decimal.D5 u => 53 :: uint_chars u
  | Decimal.D6 u => 54 :: uint_chars u | Decimal.D7 u => 55 :: uint_chars u
  | Decimal.D8 u => 56 :: uint_chars u | Decimal.D9 u => 57 :: uint_chars u
  end.
Fixpoint chars_uint (s : text) : option Decimal.uint :=
  match s with
  | [] => Some Decimal.Nil
  | c :: r =>
      match chars_uint r with
      | None => None
      | Some u =>
          if c =? 48 then Some (Decimal.D0 u) else if c =? 49 then Some (Decimal.D1 u)
          else if c =? 50 then Some (Decimal.D2 u) else if c =? 51 then Some (Decimal.D3 u)
          else if c =? 52 then Some (Decimal.D4 u) else if c =? 53 then Some (Decimal.D5 u)
          else if c =? 54 then Some (Decimal.D6 u) else if c =? 55 then Some (Decimal.D7 u)
          else if c =? 56 then Some (Decimal.D8 u) else if c =? 57 then Some (Decimal.D9 u)
          else None
      end
  end.
Definition dec (n : N) : text := uint_chars (N.to_uint n).
Definition undec (s : text) : option N :=
  match s with
  | [] => None
  | _ => match chars_uint s with Some u => Some (N.of_uint u) | None => None end
  end.

Fixpoint stash_lines (ls : list text) (i : N) : list text * list text :=
  match ls with
  | [] => ([], [])
  | l :: ls' =>
      if is_dirline l then
        let (out, st) := stash_lines ls' (i + 1) in ((s_lineat ++ dec i) :: out, l :: st)
      else
        let (out, st) := stash_lines ls' i in (l :: out, st)
  end.
Definition remove_line_directives (s : text) : text * list text :=
  let (out, st) := stash_lines (split_lines s) 0 in (join_lines out, st).

(* exception classes that occur inside _put_back_line_directives (cparser.py:186-197) *)
Inductive exn := CDefError | AssertionError | IndexError | ValueError.
Inductive result (A : Type) := Ok (a : A) | Err (e : exn).
Arguments Ok {A} a.
Arguments Err {A} e.

(* Python's int(s) (base 10) on an ASCII str: blanks around, an optional sign, digits with single
   underscores between digits; None = ValueError.  (A string of plain digits is read directly.) *)
Fixpoint digits_us (acc : Z) (prev_digit : bool) (s : text) : option Z :=
  match s with
  | [] => if prev_digit then Some acc else None
  | c :: r =>
      if is_digit c then digits_us (acc * 10 + (Z.of_N c - 48)) true r
      else if (c =? 95) && prev_digit then digits_us acc false r
      else None
  end.
Definition py_int10 (s : text) : option Z :=
  match undec s with
  | Some n => Some (Z.of_N n)
  | None =>
      match strip_ws s with
      | c :: r => if c =? 45 then option_map Z.opp (digits_us 0 false r)
                  else if c =? 43 then digits_us 0 false r
                  else digits_us 0 false (c :: r)
      | [] => None
      end
  end.
(* lst[i] with Python's negative indices; None = IndexError *)
Definition py_index (st : list text) (i : Z) : option text :=
  let n := Z.of_nat (length st) in
  if (0 <=? i)%Z then nth_error st (Z.to_nat i)
  else if (- n <=? i)%Z then nth_error st (Z.to_nat (n + i))
  else None.

(* the body of replace() before the fix's try/except: what it raises by itself *)
Definition replace_raw (l : text) (st : list text) : result text :=
  match starts_with s_lineat l with
  | None => Err ValueError                        (* if not s.startswith('#line@'): raise ValueError *)
  | Some num =>
      match py_int10 num with
      | None => Err ValueError                    (* int(s[6:]) *)
      | Some i => match py_index st i with
                  | None => Err IndexError        (* line_directives[...] *)
                  | Some d => Ok d
                  end
      end
  end.
(* try: ... except (ValueError, IndexError): raise CDefError(...)  -- any other class would propagate *)
Definition replace (l : text) (st : list text) : result text :=
  match replace_raw l st with
  | Err ValueError | Err IndexError => Err CDefError
  | r => r
  end.

Fixpoint restore_lines (ls : list text) (st : list text) : result (list text) :=
  match ls with
  | [] => Ok []
  | l :: ls' =>
      if is_dirline l then
        match replace l st with
        | Err e => Err e
        | Ok d =>
            match restore_lines ls' st with
            | Ok out => Ok (d :: out)
            | Err e => Err e
            end
        end
      else
        match restore_lines ls' st with
        | Ok out => Ok (l :: out)
        | Err e => Err e
        end
  end.
Definition put_back_line_directives (s : text) (st : list text) : result text :=
  match restore_lines (split_lines s) st with
  | Ok ls => Ok (join_lines ls)
  | Err e => Err e
  end.

(* ------------------------------------------------------------------ _preprocess *)

(* _r_other_whitespace.sub(' ', csource) (cparser.py:38, :202): \r \f \v become blanks *)
Definition other_ws (c : N) : bool := (c =? 13) || (c =? 12) || (c =? 11).
Definition normalize_ws (s : text) : text := map (fun c => if other_ws c then SP else c) s.

Definition preprocess (s : text) : result (text * macros) :=
  let (s1, st) := remove_line_directives (normalize_ws s) in
  let s2 := sc s1 in
  let (s3, ms) := process_defines s2 in
  match put_back_line_directives s3 st with
  | Ok s4 => Ok (s4, ms)
  | Err e => Err e
  end.

(* ------------------------------------------------------------------ for the correspondence *)

Definition exn_code (e : exn) : N :=
  match e with CDefError => 4 | AssertionError => 1 | IndexError => 2 | ValueError => 3 end.
(* (0, text, macros) or (code, [], []) *)
Definition preprocess_out (s : text) : N * (text * list (text * text)) :=
  match preprocess s with
  | Ok (t, ms) => (0, (t, ms))
  | Err e => (exn_code e, ([], []))
  end.

(* one entry point for the three differential ties: kind 0 = sc, 1 = words, 2 = preprocess *)
Definition corr_eval (kt : N * text) : N * (text * list (text * text)) :=
  let (k, t) := kt in
  if k =? 0 then (0, (sc t, []))
  else if k =? 1 then (0, ([], map (fun w => (w, [])) (words t)))
  else preprocess_out t.

(* ------------------------------------------------------------------ for C31_directive_insertion_plain *)
(* text without '#', '/', \r \f \v: declarations without comments, directives and #define lines *)
Definition plain_text (s : text) : bool :=
  forallb (fun c => negb (c =? HASH) && negb (c =? SLASH) && negb (other_ws c)) s.
