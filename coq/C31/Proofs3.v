(* C31 — the composed _preprocess model on plain declarations with one inserted line directive. *)
From Coq Require Import List NArith ZArith Bool Arith Lia ZifyBool.
Import ListNotations.
From Cffi Require Import C31.Model C31.Proofs C31.Proofs2.
Open Scope N_scope.

Definition nohash (s : text) : Prop := Forall (fun c => c <> HASH) s.

Lemma plain_parts : forall s, plain_text s = true ->
  nohash s /\ Forall (fun c => c <> SLASH) s /\ forallb (fun c => negb (other_ws c)) s = true.
Proof.
  induction s as [|c s IH]; intros H.
  - split; [constructor|split; [constructor|reflexivity]].
  - unfold plain_text in H. simpl in H. apply andb_true_iff in H. destruct H as [Hc Hs].
    destruct (IH Hs) as (A & B & C).
    apply andb_true_iff in Hc. destruct Hc as [Hc H3]. apply andb_true_iff in Hc. destruct Hc as [H1 H2].
    apply negb_true_iff in H1, H2. apply N.eqb_neq in H1, H2.
    split; [constructor; assumption|split; [constructor; assumption|]]. simpl. now rewrite H3, C.
Qed.

(* ---- normalisation is the identity *)
Lemma normalize_id : forall s, forallb (fun c => negb (other_ws c)) s = true -> normalize_ws s = s.
Proof.
  induction s as [|c s IH]; intros H; [reflexivity|]. simpl in H. apply andb_true_iff in H. destruct H as [Hc Hs].
  unfold normalize_ws in *. simpl. apply negb_true_iff in Hc. rewrite Hc. now rewrite IH.
Qed.

(* ---- lines *)
Lemma split_aux_app_nl : forall a cur b,
  split_lines_aux cur (a ++ NL :: b) = split_lines_aux cur a ++ split_lines_aux [] b.
Proof.
  induction a as [|c a IH]; intros cur b; simpl.
  - reflexivity.
  - destruct (c =? NL); [now rewrite IH|apply IH].
Qed.

Lemma split_app_nl : forall a b, split_lines (a ++ NL :: b) = split_lines a ++ split_lines b.
Proof. intros. apply split_aux_app_nl. Qed.

Lemma split_nlfree : forall l, nlfree l -> split_lines l = [l].
Proof.
  intros l H. unfold split_lines. rewrite <- (app_nil_r l) at 1.
  rewrite split_aux_nlfree_prefix by assumption. reflexivity.
Qed.

Lemma split_aux_in : forall s cur l c, In l (split_lines_aux cur s) -> In c l -> In c cur \/ In c s.
Proof.
  induction s as [|a s IH]; intros cur l c Hl Hc; simpl in Hl.
  - destruct Hl as [<-|[]]. auto.
  - destruct (a =? NL).
    + destruct Hl as [<-|Hl]; [auto|]. destruct (IH _ _ _ Hl Hc) as [[]|H]; auto using in_cons.
    + destruct (IH _ _ _ Hl Hc) as [H|H]; [|auto using in_cons].
      apply in_app_or in H. destruct H as [H|[<-|[]]]; auto using in_eq.
Qed.

Lemma skip_while_in : forall p s c, In c (skip_while p s) -> In c s.
Proof.
  induction s as [|a s IH]; intros c H; simpl in H; [assumption|].
  destruct (p a); [right; auto|assumption].
Qed.

Lemma nohash_not_dirline : forall l, nohash l -> is_dirline l = false.
Proof.
  intros l H. unfold is_dirline. destruct (skip_while is_hspace l) as [|c r] eqn:E; [reflexivity|].
  assert (In c l) by (apply (skip_while_in is_hspace); rewrite E; apply in_eq).
  unfold nohash in H. rewrite Forall_forall in H. specialize (H c H0).
  apply N.eqb_neq in H. now rewrite H.
Qed.

Lemma lines_nodir : forall s, nohash s -> Forall (fun l => is_dirline l = false) (split_lines s).
Proof.
  intros s H. apply Forall_forall. intros l Hl. apply nohash_not_dirline.
  apply Forall_forall. intros c Hc. destruct (split_aux_in _ _ _ _ Hl Hc) as [[]|Hs].
  unfold nohash in H. rewrite Forall_forall in H. auto.
Qed.

Lemma join_app : forall a l b, a <> [] ->
  join_lines (a ++ l :: b) = join_lines a ++ NL :: join_lines (l :: b).
Proof.
  intros a l b Ha. destruct a as [|l0 a]; [congruence|].
  simpl. rewrite flat_map_app. simpl. now rewrite <- app_assoc.
Qed.

Lemma split_nonempty : forall s, split_lines s <> [].
Proof. intros s. unfold split_lines. destruct (split_lines_aux_cons s []) as (l & ls & ->). discriminate. Qed.

(* ---- stash / restore around one directive line *)
Lemma stash_nodir : forall ls i, Forall (fun l => is_dirline l = false) ls -> stash_lines ls i = (ls, []).
Proof.
  induction 1 as [|l ls Hl Hls IH]; [reflexivity|]. rewrite stash_cons, Hl, IH. reflexivity.
Qed.

Lemma stash_one : forall l1 d l2 i, Forall (fun l => is_dirline l = false) l1 ->
  Forall (fun l => is_dirline l = false) l2 -> is_dirline d = true ->
  stash_lines (l1 ++ d :: l2) i = (l1 ++ (s_lineat ++ dec i) :: l2, [d]).
Proof.
  induction 1 as [|l l1 Hl Hl1 IH]; intros H2 Hd.
  - rewrite !app_nil_l. rewrite stash_cons, Hd, (stash_nodir l2 (i + 1) H2). reflexivity.
  - rewrite <- !app_comm_cons. rewrite stash_cons, Hl, (IH H2 Hd). reflexivity.
Qed.

Lemma restore_nodir : forall ls st, Forall (fun l => is_dirline l = false) ls -> restore_lines ls st = Ok ls.
Proof.
  induction 1 as [|l ls Hl Hls IH]; [reflexivity|]. rewrite restore_cons, Hl, IH. reflexivity.
Qed.

Lemma restore_one : forall l1 d l2, Forall (fun l => is_dirline l = false) l1 ->
  Forall (fun l => is_dirline l = false) l2 ->
  restore_lines (l1 ++ (s_lineat ++ dec 0) :: l2) [d] = Ok (l1 ++ d :: l2).
Proof.
  induction 1 as [|l l1 Hl Hl1 IH]; intros H2.
  - rewrite !app_nil_l. rewrite restore_cons, is_dirline_placeholder.
    pose proof (replace_placeholder 0 [] d [] eq_refl) as R. rewrite app_nil_l in R.
    rewrite R, (restore_nodir l2 [d] H2). reflexivity.
  - rewrite <- !app_comm_cons. rewrite restore_cons, Hl, (IH H2). reflexivity.
Qed.

(* ---- #define extraction finds nothing: every '#' is followed by 'l' *)
Fixpoint hash_ok (s : text) : bool :=
  match s with
  | [] => true
  | c :: r => (if c =? HASH then match r with d :: _ => d =? 108 | [] => false end else true) && hash_ok r
  end.

Lemma hash_ok_skip : forall p s, hash_ok s = true -> hash_ok (skip_while p s) = true.
Proof.
  induction s as [|c s IH]; intros H; [reflexivity|]. simpl.
  destruct (p c); [|assumption]. simpl in H. apply andb_true_iff in H. now apply IH.
Qed.

Lemma define_at_none : forall s, hash_ok s = true -> define_at s = None.
Proof.
  intros s H. unfold define_at. pose proof (hash_ok_skip is_space s H) as H'.
  destruct (skip_while is_space s) as [|c r]; [reflexivity|].
  destruct (c =? HASH) eqn:E; [|reflexivity].
  simpl in H'. rewrite E in H'. destruct r as [|d r0]; [discriminate|].
  apply andb_true_iff in H'. destruct H' as [Hd _]. apply N.eqb_eq in Hd. subst d. reflexivity.
Qed.

Lemma defs_id : forall f bol s acc, hash_ok s = true -> defs f bol s acc = (s, acc).
Proof.
  induction f as [|f IH]; intros bol s acc H; [reflexivity|].
  destruct s as [|c r]; [reflexivity|]. simpl defs.
  assert (D : (if bol then define_at (c :: r) else None) = None)
    by (destruct bol; [now apply define_at_none|reflexivity]).
  rewrite D. simpl in H. apply andb_true_iff in H. destruct H as [_ Hr].
  now rewrite (IH (c =? NL) r acc Hr).
Qed.

Lemma hash_ok_nohash_app : forall a b, nohash a -> hash_ok (a ++ b) = hash_ok b.
Proof.
  induction 1 as [|c a Hc Ha IH]; [reflexivity|]. simpl. apply N.eqb_neq in Hc. rewrite Hc. exact IH.
Qed.

Lemma nohash_hash_ok : forall a, nohash a -> hash_ok a = true.
Proof. intros a H. rewrite <- (app_nil_r a). now rewrite hash_ok_nohash_app. Qed.

Lemma dec_nohash : forall i, nohash (dec i).
Proof. intros i. unfold dec, nohash. induction (N.to_uint i); simpl; constructor; try assumption; discriminate. Qed.

Lemma placeholder_hash_ok : forall i rest, hash_ok rest = true -> hash_ok ((s_lineat ++ dec i) ++ rest) = true.
Proof.
  intros i rest H. rewrite <- app_assoc. unfold s_lineat. simpl app.
  change (hash_ok (35 :: 108 :: 105 :: 110 :: 101 :: 64 :: dec i ++ rest))
    with (hash_ok (dec i ++ rest)).
  now rewrite (hash_ok_nohash_app _ _ (dec_nohash i)).
Qed.

Lemma join_three : forall x y m, join_lines (split_lines x ++ m :: split_lines y) = x ++ NL :: m ++ NL :: y.
Proof.
  intros x y m. rewrite join_app by apply split_nonempty. rewrite join_split.
  change (m :: split_lines y) with ([m] ++ split_lines y).
  destruct (split_lines y) as [|l0 ls] eqn:Ey; [exfalso; eapply split_nonempty; eauto|].
  rewrite (join_app [m] l0 ls) by discriminate. rewrite <- Ey, join_split. simpl. now rewrite app_nil_r.
Qed.

(* ---- the two theorems *)

(* plain declarations pass through the whole modelled _preprocess unchanged *)
Theorem preprocess_plain : forall s, plain_text s = true -> preprocess s = Ok (s, []).
Proof.
  intros s H. destruct (plain_parts s H) as (Hh & Hs & Hn). unfold preprocess.
  rewrite (normalize_id s Hn). unfold remove_line_directives.
  rewrite (stash_nodir _ 0 (lines_nodir s Hh)), join_split, (sc_noslash s Hs).
  unfold process_defines. rewrite (defs_id _ true s [] (nohash_hash_ok s Hh)).
  unfold put_back_line_directives. rewrite (restore_nodir _ [] (lines_nodir s Hh)), join_split. reflexivity.
Qed.

(* one line directive d (any content: its file name may contain comment openers, '#', quotes) inserted between
   two lines of plain declarations comes back verbatim, at the same place, and nothing else changes *)
Theorem directive_insertion_plain : forall x d y,
  plain_text x = true -> plain_text y = true ->
  is_dirline d = true -> nlfree d -> forallb (fun c => negb (other_ws c)) d = true ->
  preprocess (x ++ NL :: d ++ NL :: y) = Ok (x ++ NL :: d ++ NL :: y, []).
Proof.
  intros x d y Hx Hy Hd Hnl Hdn.
  destruct (plain_parts x Hx) as (Hxh & Hxs & Hxn). destruct (plain_parts y Hy) as (Hyh & Hys & Hyn).
  unfold preprocess.
  assert (N0 : normalize_ws (x ++ NL :: d ++ NL :: y) = x ++ NL :: d ++ NL :: y).
  { apply normalize_id. rewrite forallb_app. simpl. rewrite forallb_app. simpl. rewrite Hxn, Hdn, Hyn. reflexivity. }
  rewrite N0. unfold remove_line_directives.
  assert (L : split_lines (x ++ NL :: d ++ NL :: y) = split_lines x ++ d :: split_lines y).
  { rewrite split_app_nl, split_app_nl, (split_nlfree d Hnl). reflexivity. }
  rewrite L, (stash_one _ d _ 0 (lines_nodir x Hxh) (lines_nodir y Hyh) Hd).
  set (ph := s_lineat ++ dec 0).
  assert (Hph : nlfree ph) by (unfold ph, nlfree; repeat (constructor; [discriminate|]); constructor).
  pose proof (join_three x y) as J.
  rewrite join_three.
  assert (S0 : Forall (fun c => c <> SLASH) (x ++ NL :: ph ++ NL :: y)).
  { apply Forall_app. split; [assumption|]. constructor; [discriminate|]. apply Forall_app. split.
    - unfold ph. apply Forall_app. split; [repeat constructor; discriminate|apply dec_noslash].
    - constructor; [discriminate|assumption]. }
  rewrite (sc_noslash _ S0).
  assert (H0 : hash_ok (x ++ NL :: ph ++ NL :: y) = true).
  { rewrite (hash_ok_nohash_app _ _ Hxh).
    change (NL :: ph ++ NL :: y) with ([NL] ++ ph ++ NL :: y).
    rewrite (hash_ok_nohash_app [NL]) by (constructor; [discriminate|constructor]).
    unfold ph. apply placeholder_hash_ok.
    change (NL :: y) with ([NL] ++ y).
    rewrite (hash_ok_nohash_app [NL]) by (constructor; [discriminate|constructor]).
    now apply nohash_hash_ok. }
  unfold process_defines. rewrite (defs_id _ true _ [] H0).
  unfold put_back_line_directives.
  assert (L2 : split_lines (x ++ NL :: ph ++ NL :: y) = split_lines x ++ ph :: split_lines y).
  { rewrite split_app_nl, split_app_nl, (split_nlfree ph Hph). reflexivity. }
  rewrite L2. unfold ph. rewrite (restore_one _ d _ (lines_nodir x Hxh) (lines_nodir y Hyh)).
  now rewrite (J d).
Qed.

(* ------------------------------------------------------------------ the composed statement is false *)
Definition w_s1 : text := [35;100;101;102;105;110;101;32;88;32].     (* "#define X " *)
Definition w_f  : text := [47;42;10;42;47].                          (* block comment with a newline *)
Definition w_s2 : text := [49;10].                                   (* "1" newline *)

Lemma w_f_filler : filler w_f.
Proof. apply (f_block [10] 1%nat). reflexivity. Qed.

Lemma w_s1_closed : closed w_s1.
Proof. repeat (apply cl_plain; [discriminate|]). constructor. Qed.

Lemma full_statement_refuted :
  ~ (forall s1 f s2, closed s1 -> filler f -> word_boundary (sc s1) (sc s2) ->
     match preprocess (s1 ++ f ++ s2), preprocess (s1 ++ s2) with
     | Ok (t1, m1), Ok (t2, m2) => words t1 = words t2 /\ m1 = m2
     | Err _, Err _ => True
     | _, _ => False
     end).
Proof.
  intros H. specialize (H w_s1 w_f w_s2 w_s1_closed w_f_filler eq_refl).
  vm_compute in H. destruct H as [H _]. discriminate H.
Qed.
