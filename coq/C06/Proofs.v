(* C06 — lemmas. Generic part (any tables) first, then the instantiation on C06/Gen.v, where the
   finite domains are enumerated completely by vm_compute and lifted with forallb_forall. *)
From Coq Require Import Ascii String ZArith NArith List Bool Lia.
Import ListNotations.
From Cffi Require Import C06.Model C06.Gen.
Open Scope Z_scope.

(* ------------------------------------------------------------------ basics *)
Lemma cstr_eqb_eq : forall a b, cstr_eqb a b = true <-> a = b.
Proof.
  induction a as [|x a IH]; destruct b as [|y b]; cbn; split; intros H; try congruence; try discriminate.
  - apply andb_true_iff in H. destruct H as [H1 H2]. apply N.eqb_eq in H1. apply IH in H2. congruence.
  - inversion H; subst. rewrite N.eqb_refl. cbn. apply IH. reflexivity.
Qed.

Lemma cstr_eqb_refl : forall a, cstr_eqb a a = true.
Proof. intros. apply cstr_eqb_eq. reflexivity. Qed.

Lemma memb_In : forall x l, memb x l = true <-> In x l.
Proof.
  intros x l. unfold memb. rewrite existsb_exists. split.
  - intros [y [Hy He]]. apply cstr_eqb_eq in He. subst. exact Hy.
  - intros H. exists x. split; [exact H | apply cstr_eqb_refl].
Qed.

Lemma subsetb_incl : forall a b, subsetb a b = true -> forall x, In x a -> In x b.
Proof.
  intros a b H x Hx. unfold subsetb in H. rewrite forallb_forall in H. apply memb_In. apply H. exact Hx.
Qed.

Lemma same_set_iff : forall a b, same_set a b = true -> forall x, In x a <-> In x b.
Proof.
  intros a b H x. unfold same_set in H. apply andb_true_iff in H. destruct H as [H1 H2].
  split; eapply subsetb_incl; eassumption.
Qed.

Lemma nodupb_NoDup : forall l, nodupb l = true -> NoDup l.
Proof.
  induction l as [|x l IH]; cbn; intros H; constructor.
  - apply andb_true_iff in H. destruct H as [H _]. intros Hin. apply memb_In in Hin.
    unfold memb in Hin. rewrite Hin in H. discriminate.
  - apply IH. apply andb_true_iff in H. tauto.
Qed.

Definition zrange (n : Z) : list Z := map Z.of_nat (seq 0 (Z.to_nat n)).

Lemma forall_zrange : forall (P : Z -> bool) n,
  forallb P (zrange n) = true -> forall i, 0 <= i < n -> P i = true.
Proof.
  intros P n H i Hi. rewrite forallb_forall in H. apply H. unfold zrange.
  apply in_map_iff. exists (Z.to_nat i). split; [lia|]. apply in_seq. lia.
Qed.

Lemma name_of_range : forall names i nm, name_of names i = Some nm -> 0 <= i < Z.of_nat (length names).
Proof.
  intros names i nm H. unfold name_of in H. destruct (Z.ltb_spec i 0); [discriminate|].
  split; [lia|]. destruct (Z.ltb_spec i (Z.of_nat (length names))) as [|Hge]; [assumption|].
  rewrite nth_overflow in H by lia. discriminate.
Qed.

Lemma assoc_In : forall B k (l : list (cstr * B)) v, assoc k l = Some v -> In (k, v) l.
Proof.
  induction l as [|[k' v'] l IH]; cbn; intros v H; [discriminate|].
  destruct (cstr_eqb k k') eqn:E.
  - apply cstr_eqb_eq in E. inversion H; subst. left. reflexivity.
  - right. apply IH. exact H.
Qed.

(* ------------------------------------------------------------------ search_standard_typename: soundness for ALL strings *)

Definition test_ok (prims : list (cstr * Z)) (names : list (option cstr)) (sfx : N * N) (t : std_test) : bool :=
  (t_size t =? t_len t + 2) && (Z.of_nat (length (t_lit t)) =? t_len t) &&
  match assoc (t_res t) prims with
  | Some i => match name_of names i with
              | Some nm => cstr_eqb nm (t_lit t ++ [fst sfx; snd sfx])
              | None => false
              end
  | None => false
  end.

Definition item_ok prims names sfx (it : std_item) : bool :=
  match it with
  | ITest t => test_ok prims names sfx t
  | ISub _ _ cases => forallb (fun c => forallb (test_ok prims names sfx) (snd c)) cases
  end.

Definition table_ok prims names (tb : std_table) : bool :=
  (2 <=? std_minsize tb) &&
  forallb (fun c => forallb (item_ok prims names (std_suffix tb)) (snd c)) (std_cases tb).

Lemma select_case_forallb : forall A (P : A -> bool) c (cases : list (N * list A)),
  forallb (fun x => forallb P (snd x)) cases = true -> forallb P (select_case c cases) = true.
Proof.
  induction cases as [|[c' body] cases IH]; cbn; intros H; [reflexivity|].
  apply andb_true_iff in H. destruct H as [H1 H2]. destruct (N.eqb c c'); auto.
Qed.

Lemma firstn_app_exact : forall (l r : cstr) n, n = length l -> firstn n (l ++ r) = l.
Proof. intros. subst. rewrite firstn_app, Nat.sub_diag, firstn_all. cbn. apply app_nil_r. Qed.

Lemma two_more : forall (p l : cstr) a b,
  length p = (length l + 2)%nat -> firstn (length l) p = l ->
  nth (length l) p 0%N = a -> nth (length l + 1) p 0%N = b -> p = l ++ [a; b].
Proof.
  intros p l a b Hlen Hf Ha Hb.
  pose proof (firstn_skipn (length l) p) as Hp. rewrite Hf in Hp.
  assert (Hs : length (skipn (length l) p) = 2%nat) by (rewrite skipn_length; lia).
  remember (skipn (length l) p) as r eqn:Er. clear Er.
  destruct r as [|x [|y [|z r]]]; cbn in Hs; try discriminate.
  subst p. rewrite app_nth2 in Ha by lia. rewrite app_nth2 in Hb by lia.
  replace (length l - length l)%nat with 0%nat in Ha by lia.
  replace (length l + 1 - length l)%nat with 1%nat in Hb by lia.
  cbn in Ha, Hb. subst. reflexivity.
Qed.

Lemma run_test_sound : forall prims names sfx p t i,
  test_ok prims names sfx t = true ->
  char_at p (Z.of_nat (length p) - 2) = fst sfx -> char_at p (Z.of_nat (length p) - 1) = snd sfx ->
  run_test prims p (Z.of_nat (length p)) t = Some i -> name_of names i = Some p.
Proof.
  intros prims names sfx p t i Hok Ha Hb Hrun.
  unfold run_test in Hrun. destruct (_ && _) eqn:Hc in Hrun; [|discriminate].
  apply andb_true_iff in Hc. destruct Hc as [Hsz Hmem]. apply Z.eqb_eq in Hsz.
  unfold test_ok in Hok. rewrite Hrun in Hok.
  apply andb_true_iff in Hok. destruct Hok as [Hok Hnm]. apply andb_true_iff in Hok.
  destruct Hok as [Hs Hl]. apply Z.eqb_eq in Hs. apply Z.eqb_eq in Hl.
  destruct (name_of names i) as [nm|]; [|discriminate]. apply cstr_eqb_eq in Hnm. subst nm. f_equal.
  unfold memcmp_eq in Hmem. apply cstr_eqb_eq in Hmem.
  rewrite <- Hl, Nat2Z.id in Hmem. rewrite (firstn_app_exact (t_lit t) [0%N]) in Hmem by reflexivity.
  symmetry. apply two_more.
  - lia.
  - exact Hmem.
  - unfold char_at in Ha. rewrite <- Ha. f_equal. lia.
  - unfold char_at in Hb. rewrite <- Hb. f_equal. lia.
Qed.

Lemma run_tests_sound : forall prims names sfx p ts i,
  forallb (test_ok prims names sfx) ts = true ->
  char_at p (Z.of_nat (length p) - 2) = fst sfx -> char_at p (Z.of_nat (length p) - 1) = snd sfx ->
  run_tests prims p (Z.of_nat (length p)) ts = Some i -> name_of names i = Some p.
Proof.
  induction ts as [|t ts IH]; cbn; intros i Hok Ha Hb Hrun; [discriminate|].
  apply andb_true_iff in Hok. destruct Hok as [H1 H2].
  destruct (run_test prims p (Z.of_nat (length p)) t) eqn:E.
  - inversion Hrun; subst. eapply run_test_sound; eassumption.
  - apply IH; assumption.
Qed.

Lemma run_items_sound : forall prims names sfx p its i,
  forallb (item_ok prims names sfx) its = true ->
  char_at p (Z.of_nat (length p) - 2) = fst sfx -> char_at p (Z.of_nat (length p) - 1) = snd sfx ->
  run_items prims p (Z.of_nat (length p)) its = Some i -> name_of names i = Some p.
Proof.
  induction its as [|it its IH]; cbn; intros i Hok Ha Hb Hrun; [discriminate|].
  apply andb_true_iff in Hok. destruct Hok as [H1 H2].
  destruct (run_item prims p (Z.of_nat (length p)) it) eqn:E.
  - inversion Hrun; subst. destruct it as [t|m pos cases]; cbn in E, H1.
    + eapply run_test_sound; eassumption.
    + destruct (Z.of_nat (length p) >=? m); [|discriminate].
      eapply run_tests_sound; try eassumption. apply select_case_forallb. exact H1.
  - apply IH; assumption.
Qed.

(* for every table that passes the (decidable) well-formedness check, and EVERY string p *)
Lemma search_std_sound : forall prims names tb p i,
  table_ok prims names tb = true -> search_std prims tb p = Some i -> name_of names i = Some p.
Proof.
  intros prims names tb p i Hok Hs. unfold search_std in Hs. cbv zeta in Hs.
  destruct (_ || _) eqn:G in Hs; [discriminate|].
  apply orb_false_iff in G. destruct G as [G Gb]. apply orb_false_iff in G. destruct G as [_ Ga].
  apply negb_false_iff, N.eqb_eq in Ga. apply negb_false_iff, N.eqb_eq in Gb.
  unfold table_ok in Hok. apply andb_true_iff in Hok. destruct Hok as [_ Hok].
  eapply run_items_sound; try eassumption. apply select_case_forallb. exact Hok.
Qed.

(* ------------------------------------------------------------------ instantiation on the regenerated tables *)

Lemma gen_table_ok : table_ok c_prim c_primitive_name c_std_typename = true.
Proof. vm_compute. reflexivity. Qed.

Lemma std_typename_sound : forall (p : cstr) i,
  search_std c_prim c_std_typename p = Some i -> name_of c_primitive_name i = Some p.
Proof. intros. eapply search_std_sound; [apply gen_table_ok | eassumption]. Qed.

Definition complete_at (i : Z) : bool :=
  match name_of c_primitive_name i with
  | Some nm => if ends_with_t nm then opt_z_eqb (search_std c_prim c_std_typename nm) (Some i) else true
  | None => true
  end.

Lemma gen_complete : forallb complete_at (zrange c_num_prim) = true.
Proof. vm_compute. reflexivity. Qed.

Lemma gen_names_len : Z.of_nat (length c_primitive_name) = c_num_prim.
Proof. vm_compute. reflexivity. Qed.

Lemma std_typename_complete : forall i nm,
  name_of c_primitive_name i = Some nm -> ends_with_t nm = true ->
  search_std c_prim c_std_typename nm = Some i.
Proof.
  intros i nm Hn He. pose proof (name_of_range _ _ _ Hn) as Hr. rewrite gen_names_len in Hr.
  pose proof (forall_zrange _ _ gen_complete i Hr) as H. unfold complete_at in H.
  rewrite Hn, He in H. destruct (search_std c_prim c_std_typename nm) as [j|]; cbn in H; [|discriminate].
  apply Z.eqb_eq in H. congruence.
Qed.

(* memory safety of the reads: memcmp stays inside the literal (+NUL) and inside p; p[POS] inside p *)
Definition test_in_bounds (t : std_test) : bool :=
  (0 <=? t_len t) && (t_len t <=? Z.of_nat (length (t_lit t)) + 1) && (t_len t <=? t_size t).

Definition reads_in_bounds (tb : std_table) : bool :=
  (0 <=? std_pos tb) && (std_pos tb <? std_minsize tb) && (2 <=? std_minsize tb) &&
  forallb (fun c => forallb (fun it => match it with
     | ITest t => test_in_bounds t
     | ISub m pos cases => (0 <=? pos) && (pos <? m) && forallb (fun c2 => forallb test_in_bounds (snd c2)) cases
     end) (snd c)) (std_cases tb).

Lemma gen_reads_in_bounds : reads_in_bounds c_std_typename = true.
Proof. vm_compute. reflexivity. Qed.

(* ---- constants *)
Lemma gen_constants_agree :
  py_prim = c_prim /\ py_num_prim = c_num_prim /\ py_unknown_prims = c_unknown_prims.
Proof. repeat split; vm_compute; reflexivity. Qed.

Lemma gen_indices_dense : map snd c_prim = zrange c_num_prim /\ NoDup (map fst c_prim).
Proof. split; [vm_compute; reflexivity | apply nodupb_NoDup; vm_compute; reflexivity]. Qed.

(* ---- name <-> index *)
Definition p2i_entry_ok (e : cstr * cstr) : bool :=
  match assoc (snd e) py_prim with
  | Some i => match name_of c_primitive_name i with Some nm => cstr_eqb nm (fst e) | None => false end
  | None => false
  end.

Lemma gen_p2i_ok : forallb p2i_entry_ok py_primitive_to_index = true.
Proof. vm_compute. reflexivity. Qed.

Lemma p2i_forward : forall name id, In (name, id) py_primitive_to_index ->
  exists i, assoc id py_prim = Some i /\ name_of c_primitive_name i = Some name.
Proof.
  intros name id H. pose proof gen_p2i_ok as G. rewrite forallb_forall in G. specialize (G _ H).
  unfold p2i_entry_ok in G. cbn [fst snd] in G.
  destruct (assoc id py_prim) as [i|]; [|discriminate]. exists i. split; [reflexivity|].
  destruct (name_of c_primitive_name i) as [nm|]; [|discriminate]. apply cstr_eqb_eq in G. congruence.
Qed.

Definition index_has_entry (i : Z) : bool :=
  match name_of c_primitive_name i with
  | Some nm => match assoc nm py_primitive_to_index with
               | Some id => opt_z_eqb (assoc id py_prim) (Some i)
               | None => false
               end
  | None => true
  end.

Lemma gen_index_has_entry : forallb index_has_entry (zrange c_num_prim) = true.
Proof. vm_compute. reflexivity. Qed.

Lemma p2i_backward : forall i name, name_of c_primitive_name i = Some name ->
  exists id, In (name, id) py_primitive_to_index /\ assoc id py_prim = Some i.
Proof.
  intros i name Hn. pose proof (name_of_range _ _ _ Hn) as Hr. rewrite gen_names_len in Hr.
  pose proof (forall_zrange _ _ gen_index_has_entry i Hr) as H. unfold index_has_entry in H. rewrite Hn in H.
  destruct (assoc name py_primitive_to_index) as [id|] eqn:E; [|discriminate].
  exists id. split; [apply assoc_In; exact E|].
  destruct (assoc id py_prim) as [j|]; cbn in H; [|discriminate]. apply Z.eqb_eq in H. congruence.
Qed.

Lemma gen_p2i_nodup : NoDup (map fst py_primitive_to_index).
Proof. apply nodupb_NoDup. vm_compute. reflexivity. Qed.

Lemma gen_void_index : assoc (s2l "VOID") c_prim = Some 0 /\ name_of c_primitive_name 0 = None.
Proof. split; vm_compute; reflexivity. Qed.

(* ---- same name set in the four tables *)
Lemma gen_same_names :
  same_set (map fst py_all_primitive_types) (map fst py_primitive_to_index) = true /\
  same_set (map fst py_all_primitive_types) (map fst c_enum_primitive_types) = true /\
  same_set (map fst py_all_primitive_types) (somes c_primitive_name) = true.
Proof. repeat split; vm_compute; reflexivity. Qed.

Lemma gen_nodups :
  NoDup (map fst py_all_primitive_types) /\ NoDup (map fst c_enum_primitive_types) /\ NoDup (somes c_primitive_name).
Proof. repeat split; apply nodupb_NoDup; vm_compute; reflexivity. Qed.

(* ---- kinds vs flags *)
Definition kind_entry_ok (e : cstr * N) : bool :=
  match assoc (fst e) c_enum_primitive_types with
  | Some fs => match kind_of_flags fs with Some k => N.eqb k (snd e) | None => false end
  | None => false
  end.

Lemma gen_kinds_ok : forallb kind_entry_ok py_all_primitive_types = true.
Proof. vm_compute. reflexivity. Qed.

Lemma kinds_agree : forall name k, In (name, k) py_all_primitive_types ->
  exists fs, assoc name c_enum_primitive_types = Some fs /\ kind_of_flags fs = Some k.
Proof.
  intros name k H. pose proof gen_kinds_ok as G. rewrite forallb_forall in G. specialize (G _ H).
  unfold kind_entry_ok in G. cbn [fst snd] in G.
  destruct (assoc name c_enum_primitive_types) as [fs|]; [|discriminate]. exists fs. split; [reflexivity|].
  destruct (kind_of_flags fs) as [k'|]; [|discriminate]. apply N.eqb_eq in G. congruence.
Qed.

(* ---- _cffi_prim_int *)
Lemma prim_int_cases_default : forall cs d size sign,
  ~ In size (map fst cs) -> prim_int_cases cs d size sign = d.
Proof.
  induction cs as [|[k [a b]] cs IH]; cbn; intros d size sign H; [reflexivity|].
  destruct (Z.eqb_spec size k); [exfalso; apply H; left; congruence|]. apply IH. tauto.
Qed.

Definition prim_int_ok (size : Z) (sign : bool) : bool :=
  match prim_int c_idents c_prim_int size sign with
  | Some i => match name_of c_primitive_name i with
              | Some nm => cstr_eqb nm (intn_name size sign) &&
                           match assoc nm c_enum_primitive_types with
                           | Some fs => Bool.eqb (has_flag CT_PRIMITIVE_SIGNED fs) sign &&
                                        Bool.eqb (has_flag CT_PRIMITIVE_UNSIGNED fs) (negb sign)
                           | None => false
                           end
              | None => false
              end
  | None => false
  end.

Lemma gen_prim_int_sizes : map fst (pim_cases c_prim_int) = [1; 2; 4; 8].
Proof. vm_compute. reflexivity. Qed.

Lemma gen_prim_int_ok : forallb (fun s => prim_int_ok s true && prim_int_ok s false) [1; 2; 4; 8] = true.
Proof. vm_compute. reflexivity. Qed.

Lemma prim_int_correct : forall size sign,
  (In size [1; 2; 4; 8] ->
     exists i fs, prim_int c_idents c_prim_int size sign = Some i /\
                  name_of c_primitive_name i = Some (intn_name size sign) /\
                  assoc (intn_name size sign) c_enum_primitive_types = Some fs /\
                  has_flag CT_PRIMITIVE_SIGNED fs = sign /\ has_flag CT_PRIMITIVE_UNSIGNED fs = negb sign) /\
  (~ In size [1; 2; 4; 8] -> prim_int c_idents c_prim_int size sign = Some (-1)).
Proof.
  intros size sign. split.
  - intros Hin. pose proof gen_prim_int_ok as G. rewrite forallb_forall in G. specialize (G _ Hin).
    apply andb_true_iff in G. destruct G as [Gt Gf].
    assert (H : prim_int_ok size sign = true) by (destruct sign; assumption). clear Gt Gf.
    unfold prim_int_ok in H.
    destruct (prim_int c_idents c_prim_int size sign) as [i|] eqn:E1; [|discriminate].
    destruct (name_of c_primitive_name i) as [nm|] eqn:E2; [|discriminate].
    apply andb_true_iff in H. destruct H as [H1 H2]. apply cstr_eqb_eq in H1. subst nm.
    destruct (assoc (intn_name size sign) c_enum_primitive_types) as [fs|] eqn:E3; [|discriminate].
    apply andb_true_iff in H2. destruct H2 as [H2 H3]. apply Bool.eqb_prop in H2. apply Bool.eqb_prop in H3.
    exists i, fs. repeat split; assumption.
  - intros Hn. unfold prim_int. rewrite prim_int_cases_default by (rewrite gen_prim_int_sizes; exact Hn).
    vm_compute. reflexivity.
Qed.

(* the C parser's index of a *_t name is the index the Python code generator emits for it *)
Lemma std_typename_matches_python : forall name,
  In name (map fst py_all_primitive_types) -> ends_with_t name = true ->
  exists id i, In (name, id) py_primitive_to_index /\ assoc id py_prim = Some i /\
               search_std c_prim c_std_typename name = Some i.
Proof.
  intros name Hin He.
  destruct gen_same_names as [S1 _]. apply (same_set_iff _ _ S1) in Hin.
  apply in_map_iff in Hin. destruct Hin as [[n id] [Hn Hin]]. cbn in Hn. subst n.
  destruct (p2i_forward _ _ Hin) as [i [Hi Hname]].
  exists id, i. repeat split; try assumption. apply std_typename_complete; assumption.
Qed.
