(* C06 x C07 — the primitive layer of the type-string parser model (coq/C07/Model.v, coq/C07/PyModel.v:
   hand-written PRIM_* constants, `standard_typenames`, `py_prims`) agrees with the tables regenerated
   from the sources in coq/C06/Gen.v.  C07's tables thereby become checked facts about the current
   parse_c_type.h / parse_c_type.c / cffi_opcode.py. *)
From Coq Require Import Ascii String ZArith NArith List Bool Lia.
Import ListNotations.
From Cffi Require Import C06.Model C06.Gen C06.Proofs.
From Cffi Require C07.Model C07.PyModel.
Local Open Scope Z_scope.

Module M7 := C07.Model.
Module P7 := C07.PyModel.

Lemma str7_eqb_eq : forall a b, M7.str_eqb a b = true -> a = b.
Proof.
  induction a as [|x a IH]; intros [|y b] H; cbn in H; try discriminate; [reflexivity|].
  apply andb_true_iff in H as [H1 H2]. apply N.eqb_eq in H1. subst. f_equal. apply IH. exact H2.
Qed.

Lemma assoc7_In {A} : forall (tbl : list (M7.str * A)) s v, M7.assoc_str tbl s = Some v -> In (s, v) tbl.
Proof.
  induction tbl as [|[k w] tbl IH]; intros s v H; cbn in H; [discriminate|].
  destruct (M7.str_eqb k s) eqn:E.
  - apply str7_eqb_eq in E. inversion H; subst. left. reflexivity.
  - right. apply IH. exact H.
Qed.

Lemma opt_z_eqb_eq a b : opt_z_eqb a b = true -> a = b.
Proof. destruct a, b; cbn; intros H; try discriminate; [apply Z.eqb_eq in H; subst|]; reflexivity. Qed.

Lemma name_of_somes : forall names i nm, name_of names i = Some nm -> In nm (somes names).
Proof.
  intros names i nm. unfold name_of. destruct (i <? 0); [discriminate|].
  generalize (Z.to_nat i). clear i. induction names as [|x names IH]; intros [|n] H; cbn in H; try discriminate.
  - subst x. left. reflexivity.
  - destruct x; [right|]; eapply IH; exact H.
Qed.

(* ---- search_standard_typename: C07's 36-row table is the regenerated switch cascade, for ALL strings *)
Lemma std7_rows_found :
  forallb (fun row => opt_z_eqb (search_std c_prim c_std_typename (fst row)) (Some (snd row)))
          M7.standard_typenames = true.
Proof. vm_compute. reflexivity. Qed.

Lemma std6_names_agree :
  forallb (fun nm => opt_z_eqb (M7.search_standard_typename nm) (search_std c_prim c_std_typename nm))
          (somes c_primitive_name) = true.
Proof. vm_compute. reflexivity. Qed.

Theorem std_typename_same : forall s,
  M7.search_standard_typename s = search_std c_prim c_std_typename s.
Proof.
  intros s. destruct (search_std c_prim c_std_typename s) as [i|] eqn:E6.
  - pose proof (std_typename_sound s i E6) as Hn. apply name_of_somes in Hn.
    pose proof (proj1 (forallb_forall _ _) std6_names_agree s Hn) as Hb. cbv beta in Hb.
    apply opt_z_eqb_eq in Hb. rewrite Hb. exact E6.
  - destruct (M7.search_standard_typename s) as [v|] eqn:E7; [|reflexivity].
    unfold M7.search_standard_typename in E7. apply assoc7_In in E7.
    pose proof (proj1 (forallb_forall _ _) std7_rows_found _ E7) as Hb. cbn [fst snd] in Hb.
    apply opt_z_eqb_eq in Hb. congruence.
Qed.

(* ---- the _CFFI_PRIM_* / PRIM_* constants used by C07.Model *)
Definition prim7 : list (cstr * Z) :=
  [ (s2l "VOID", M7.PRIM_VOID); (s2l "BOOL", M7.PRIM_BOOL); (s2l "CHAR", M7.PRIM_CHAR);
    (s2l "SCHAR", M7.PRIM_SCHAR); (s2l "UCHAR", M7.PRIM_UCHAR); (s2l "SHORT", M7.PRIM_SHORT);
    (s2l "USHORT", M7.PRIM_USHORT); (s2l "INT", M7.PRIM_INT); (s2l "UINT", M7.PRIM_UINT);
    (s2l "LONG", M7.PRIM_LONG); (s2l "ULONG", M7.PRIM_ULONG); (s2l "LONGLONG", M7.PRIM_LONGLONG);
    (s2l "ULONGLONG", M7.PRIM_ULONGLONG); (s2l "FLOAT", M7.PRIM_FLOAT); (s2l "DOUBLE", M7.PRIM_DOUBLE);
    (s2l "LONGDOUBLE", M7.PRIM_LONGDOUBLE); (s2l "FLOATCOMPLEX", M7.PRIM_FLOATCOMPLEX);
    (s2l "DOUBLECOMPLEX", M7.PRIM_DOUBLECOMPLEX) ]%string.

Definition prim_row_ok (row : cstr * Z) : bool :=
  opt_z_eqb (assoc (fst row) c_prim) (Some (snd row)) && opt_z_eqb (assoc (fst row) py_prim) (Some (snd row)).

Lemma prim7_ok_b : forallb prim_row_ok prim7 = true.
Proof. vm_compute. reflexivity. Qed.

Theorem prim_constants : forall n v, In (n, v) prim7 ->
  assoc n c_prim = Some v /\ assoc n py_prim = Some v.
Proof.
  intros n v H. pose proof (proj1 (forallb_forall _ _) prim7_ok_b _ H) as Hb.
  unfold prim_row_ok in Hb. cbn [fst snd] in Hb. apply andb_true_iff in Hb as [H1 H2].
  split; apply opt_z_eqb_eq; assumption.
Qed.

(* ---- C07.PyModel.py_prims against cffi_opcode.PRIMITIVE_TO_INDEX *)
Definition spell_word (w : P7.word) : cstr :=
  match w with
  | P7.WM P7.Msigned => s2l "signed" | P7.WM P7.Munsigned => s2l "unsigned"
  | P7.WM P7.Mshort => s2l "short" | P7.WM P7.Mlong => s2l "long"
  | P7.WB P7.Bint => s2l "int" | P7.WB P7.Bchar => s2l "char" | P7.WB P7.Bvoid => s2l "void"
  | P7.WB P7.Bbool => s2l "_Bool" | P7.WB P7.Bfloat => s2l "float" | P7.WB P7.Bdouble => s2l "double"
  | P7.WComplex => s2l "_Complex"
  end%string.

(* ' '.join(names) *)
Fixpoint spell_words (ws : list P7.word) : cstr :=
  match ws with
  | [] => []
  | [w] => spell_word w
  | w :: ws' => spell_word w ++ 32%N :: spell_words ws'
  end.

(* the index the Python side gives a primitive type NAME: `void` is model.void_type (PRIM_VOID); the two
   complex spellings are aliases in commontypes.COMMON_TYPES (src/cffi/commontypes.py:12-13, copied by hand
   here: the one part of this statement that is not regenerated); everything else goes through
   PRIMITIVE_TO_INDEX *)
Definition py_aliases : list (cstr * cstr) :=
  [ (s2l "float _Complex", s2l "_cffi_float_complex_t");
    (s2l "double _Complex", s2l "_cffi_double_complex_t") ]%string.

Definition py_index_of (name : cstr) : option Z :=
  if cstr_eqb name (s2l "void") then assoc (s2l "VOID") py_prim
  else
    let name' := match assoc name py_aliases with Some a => a | None => name end in
    match assoc name' py_primitive_to_index with
    | Some id => assoc id py_prim
    | None => None
    end.

Lemma py_prims_ok_b :
  forallb (fun row => opt_z_eqb (py_index_of (spell_words (fst row))) (Some (snd row))) P7.py_prims = true.
Proof. vm_compute. reflexivity. Qed.

Theorem py_prims_same : forall ws v, In (ws, v) P7.py_prims -> py_index_of (spell_words ws) = Some v.
Proof.
  intros ws v H. pose proof (proj1 (forallb_forall _ _) py_prims_ok_b _ H) as Hb. cbn [fst snd] in Hb.
  apply opt_z_eqb_eq. exact Hb.
Qed.

(* non-vacuity: the three routes of py_index_of all occur *)
Example py_index_examples :
  py_index_of (s2l "void") = Some 0 /\ py_index_of (s2l "unsigned long long") = Some 12 /\
  py_index_of (s2l "double _Complex") = Some 49 /\ py_index_of (s2l "unsigned") = None.
Proof. vm_compute. repeat split. Qed.
