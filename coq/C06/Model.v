(* C06 — primitive type tables: vocabulary and the hand-written interpreters that give the
   regenerated tables of C06/Gen.v their meaning.

   Gen.v (rebuilt from /repo on every run by tools/props/c06.py regen) contains only data:
     py_prim, py_num_prim ...        PRIM_* constants            src/cffi/cffi_opcode.py
     py_primitive_to_index           PRIMITIVE_TO_INDEX          src/cffi/cffi_opcode.py
     py_all_primitive_types          ALL_PRIMITIVE_TYPES         src/cffi/model.py:105
     c_prim, c_num_prim ...          _CFFI_PRIM_*                src/cffi/parse_c_type.h:33
     c_primitive_name                primitive_name[]            src/c/realize_c_type.c:140
     c_enum_primitive_types          ENUM_PRIMITIVE_TYPES        src/c/_cffi_backend.c:4691
     c_std_typename                  search_standard_typename    src/c/parse_c_type.c:487
     c_prim_int                      _cffi_prim_int              src/cffi/_cffi_include.h:372
   The functions below interpret that data exactly as the C code does. *)
From Coq Require Import Ascii String ZArith NArith List Bool.
Import ListNotations.
Open Scope Z_scope.

Definition cstr := list N.

Fixpoint s2l (s : string) : cstr :=
  match s with
  | EmptyString => []
  | String a s' => N_of_ascii a :: s2l s'
  end.

Fixpoint cstr_eqb (a b : cstr) : bool :=
  match a, b with
  | [], [] => true
  | x :: a', y :: b' => N.eqb x y && cstr_eqb a' b'
  | _, _ => false
  end.

Fixpoint assoc {B} (k : cstr) (l : list (cstr * B)) : option B :=
  match l with
  | [] => None
  | (k', v) :: l' => if cstr_eqb k k' then Some v else assoc k l'
  end.

(* ---- flags of ENUM_PRIMITIVE_TYPES (the subset of CT_* that occurs there) *)
Inductive ctflag :=
  | CT_PRIMITIVE_CHAR | CT_PRIMITIVE_SIGNED | CT_PRIMITIVE_UNSIGNED | CT_PRIMITIVE_FLOAT
  | CT_PRIMITIVE_COMPLEX | CT_IS_LONGDOUBLE | CT_IS_BOOL
  | CT_IS_SIGNED_WCHAR_IF_SIGNED.   (* (((wchar_t)-1) > 0 ? 0 : CT_IS_SIGNED_WCHAR) *)

Definition ctflag_eqb (a b : ctflag) : bool :=
  match a, b with
  | CT_PRIMITIVE_CHAR, CT_PRIMITIVE_CHAR | CT_PRIMITIVE_SIGNED, CT_PRIMITIVE_SIGNED
  | CT_PRIMITIVE_UNSIGNED, CT_PRIMITIVE_UNSIGNED | CT_PRIMITIVE_FLOAT, CT_PRIMITIVE_FLOAT
  | CT_PRIMITIVE_COMPLEX, CT_PRIMITIVE_COMPLEX | CT_IS_LONGDOUBLE, CT_IS_LONGDOUBLE
  | CT_IS_BOOL, CT_IS_BOOL | CT_IS_SIGNED_WCHAR_IF_SIGNED, CT_IS_SIGNED_WCHAR_IF_SIGNED => true
  | _, _ => false
  end.

Definition has_flag (f : ctflag) (fs : list ctflag) : bool := existsb (ctflag_eqb f) fs.

(* ---- search_standard_typename (src/c/parse_c_type.c:487)

     if (size < MIN || p[size-2] != '_' || p[size-1] != 't') return -1;
     switch (p[POS]) {
       case 'c': if (size == N && !memcmp(p, "lit", L)) return _CFFI_PRIM_X;  ...  break;
       case '_': ...tests...
                 if (size >= M) { switch (p[POS2]) { case ..: tests; break; ... } }
                 break;
       default: break;
     }
     return -1;

   The regenerator accepts exactly this shape (two switch levels, every case closed by
   `break`, i.e. no fall-through) and emits it as data. *)
Record std_test := mk_test { t_size : Z; t_lit : cstr; t_len : Z; t_res : cstr }.

Inductive std_item :=
  | ITest (t : std_test)
  | ISub (minsize pos : Z) (cases : list (N * list std_test)).

Record std_table := mk_std {
  std_minsize : Z;            (* size < MIN -> -1 *)
  std_suffix : N * N;         (* p[size-2], p[size-1] *)
  std_pos : Z;                (* switch (p[POS]) *)
  std_cases : list (N * list std_item) }.

Definition char_at (p : cstr) (i : Z) : N := nth (Z.to_nat i) p 0%N.

(* !memcmp(p, "lit", len): the literal is followed by its NUL terminator; reads stay in bounds
   when len <= |lit|+1 and len <= size (theorem C06_std_reads_in_bounds) *)
Definition memcmp_eq (p lit : cstr) (len : Z) : bool :=
  cstr_eqb (firstn (Z.to_nat len) p) (firstn (Z.to_nat len) (lit ++ [0%N])).

Definition run_test (prims : list (cstr * Z)) (p : cstr) (size : Z) (t : std_test) : option Z :=
  if (size =? t_size t) && memcmp_eq p (t_lit t) (t_len t) then assoc (t_res t) prims else None.

Fixpoint run_tests prims p size (ts : list std_test) : option Z :=
  match ts with
  | [] => None
  | t :: ts' => match run_test prims p size t with Some r => Some r | None => run_tests prims p size ts' end
  end.

Fixpoint select_case {A} (c : N) (cases : list (N * list A)) : list A :=
  match cases with
  | [] => []                                  (* default: break *)
  | (c', body) :: cases' => if N.eqb c c' then body else select_case c cases'
  end.

Definition run_item prims p size (it : std_item) : option Z :=
  match it with
  | ITest t => run_test prims p size t
  | ISub m pos cases =>
      if size >=? m then run_tests prims p size (select_case (char_at p pos) cases) else None
  end.

Fixpoint run_items prims p size (its : list std_item) : option Z :=
  match its with
  | [] => None
  | it :: its' => match run_item prims p size it with Some r => Some r | None => run_items prims p size its' end
  end.

(* None = the C function returns -1 *)
Definition search_std (prims : list (cstr * Z)) (tb : std_table) (p : cstr) : option Z :=
  let size := Z.of_nat (length p) in
  if (size <? std_minsize tb)
     || negb (N.eqb (char_at p (size - 2)) (fst (std_suffix tb)))
     || negb (N.eqb (char_at p (size - 1)) (snd (std_suffix tb)))
  then None
  else run_items prims p size (select_case (char_at p (std_pos tb)) (std_cases tb)).

(* ---- primitive_name[num] (realize_c_type.c:140); None = NULL entry or out of range *)
Definition name_of (names : list (option cstr)) (i : Z) : option cstr :=
  if i <? 0 then None else nth (Z.to_nat i) names None.

(* ---- _cffi_prim_int(size, sign) (src/cffi/_cffi_include.h:372)
     ((size) == K1 ? ((sign) ? A1 : B1) : (size) == K2 ? ... : DEFAULT) *)
Record prim_int_macro := mk_pim { pim_cases : list (Z * (cstr * cstr)); pim_default : cstr }.

Fixpoint prim_int_cases (cs : list (Z * (cstr * cstr))) (dflt : cstr) (size : Z) (sign : bool) : cstr :=
  match cs with
  | [] => dflt
  | (k, (a, b)) :: cs' => if size =? k then (if sign then a else b) else prim_int_cases cs' dflt size sign
  end.

Definition prim_int (prims : list (cstr * Z)) (m : prim_int_macro) (size : Z) (sign : bool) : option Z :=
  assoc (prim_int_cases (pim_cases m) (pim_default m) size sign) prims.

(* decimal rendering of small naturals, for "int" ++ dec(8*size) ++ "_t" *)
Definition digit (n : Z) : N := Z.to_N (48 + n).
Definition dec2 (n : Z) : cstr := if n <? 10 then [digit n] else [digit (n / 10); digit (n mod 10)].
Definition intn_name (size : Z) (sign : bool) : cstr :=
  (if sign then [] else s2l "u") ++ s2l "int" ++ dec2 (8 * size) ++ s2l "_t".

(* ---- helpers for the finite-domain theorems *)
Definition opt_z_eqb (a b : option Z) : bool :=
  match a, b with Some x, Some y => x =? y | None, None => true | _, _ => false end.

Fixpoint nodupb (l : list cstr) : bool :=
  match l with
  | [] => true
  | x :: l' => negb (existsb (cstr_eqb x) l') && nodupb l'
  end.

Definition memb (x : cstr) (l : list cstr) : bool := existsb (cstr_eqb x) l.
Definition subsetb (a b : list cstr) : bool := forallb (fun x => memb x b) a.
Definition same_set (a b : list cstr) : bool := subsetb a b && subsetb b a.

Fixpoint somes {A} (l : list (option A)) : list A :=
  match l with
  | [] => []
  | Some x :: l' => x :: somes l'
  | None :: l' => somes l'
  end.

Definition ends_with_t (s : cstr) : bool :=
  match rev s with
  | t :: u :: _ => N.eqb t 116 && N.eqb u 95
  | _ => false
  end.

(* kind letter of ALL_PRIMITIVE_TYPES  <->  flags of ENUM_PRIMITIVE_TYPES *)
Definition kind_of_flags (fs : list ctflag) : option N :=
  let c := has_flag CT_PRIMITIVE_CHAR fs in
  let s := has_flag CT_PRIMITIVE_SIGNED fs in
  let u := has_flag CT_PRIMITIVE_UNSIGNED fs in
  let f := has_flag CT_PRIMITIVE_FLOAT fs in
  let j := has_flag CT_PRIMITIVE_COMPLEX fs in
  match c, s, u, f, j with
  | true, false, false, false, false => Some 99%N     (* 'c' *)
  | false, true, false, false, false => Some 105%N    (* 'i' *)
  | false, false, true, false, false => Some 105%N    (* 'i' *)
  | false, false, false, true, false => Some 102%N    (* 'f' *)
  | false, false, false, false, true => Some 106%N    (* 'j' *)
  | _, _, _, _, _ => None
  end.
