(* C06 — Primitive type facts agree across all type tables (the compiler part of the property is
   decided on the implementation by the gcc probe of tools/props/c06.py).
   Statements only; proofs in C06/Proofs.v. All tables (named py_xxx and c_xxx) are those of C06/Gen.v, regenerated
   from /repo's sources on every run; the interpreting functions are in C06/Model.v. *)
From Coq Require Import Ascii String ZArith NArith List Bool.
Import ListNotations.
From Cffi Require Import C06.Model C06.Gen C06.Proofs C06.Compose07.
From Cffi Require C07.Model C07.PyModel.
Open Scope Z_scope.

(* PRIM_* (cffi_opcode.py) and _CFFI_PRIM_* (parse_c_type.h) are the same list of (name, value), with
   the same _NUM_PRIM and the same three "unknown" codes *)
Theorem C06_prim_constants_agree :
  py_prim = c_prim /\ py_num_prim = c_num_prim /\ py_unknown_prims = c_unknown_prims.
Proof. exact gen_constants_agree. Qed.
Print Assumptions C06_prim_constants_agree.

(* the values are exactly 0, 1, ..., _NUM_PRIM-1 in order; no constant name is defined twice;
   primitive_name[] has _NUM_PRIM entries (the assert of build_primitive_type) *)
Theorem C06_prim_indices_dense :
  map snd c_prim = zrange c_num_prim /\ NoDup (map fst c_prim) /\
  Z.of_nat (length c_primitive_name) = c_num_prim.
Proof. exact (conj (proj1 gen_indices_dense) (conj (proj2 gen_indices_dense) gen_names_len)). Qed.
Print Assumptions C06_prim_indices_dense.

(* name <-> index bijection, identical in Python and C. Domain: all entries of PRIMITIVE_TO_INDEX,
   all integers i (name_of is None outside [0, _NUM_PRIM)). *)
Theorem C06_name_index_bijection :
  (forall name id, In (name, id) py_primitive_to_index ->
     exists i, assoc id py_prim = Some i /\ name_of c_primitive_name i = Some name) /\
  (forall i name, name_of c_primitive_name i = Some name ->
     exists id, In (name, id) py_primitive_to_index /\ assoc id py_prim = Some i) /\
  NoDup (map fst py_primitive_to_index) /\
  (assoc (s2l "VOID") c_prim = Some 0 /\ name_of c_primitive_name 0 = None).
Proof. exact (conj p2i_forward (conj p2i_backward (conj gen_p2i_nodup gen_void_index))). Qed.
Print Assumptions C06_name_index_bijection.

(* the four tables list the same set of names, each once *)
Theorem C06_same_name_sets : forall n,
  (In n (map fst py_all_primitive_types) <-> In n (map fst py_primitive_to_index)) /\
  (In n (map fst py_all_primitive_types) <-> In n (map fst c_enum_primitive_types)) /\
  (In n (map fst py_all_primitive_types) <-> In n (somes c_primitive_name)).
Proof.
  intros n. destruct gen_same_names as [A [B C]].
  exact (conj (same_set_iff _ _ A n) (conj (same_set_iff _ _ B n) (same_set_iff _ _ C n))).
Qed.
Print Assumptions C06_same_name_sets.

Theorem C06_names_listed_once :
  NoDup (map fst py_all_primitive_types) /\ NoDup (map fst c_enum_primitive_types) /\ NoDup (somes c_primitive_name).
Proof. exact gen_nodups. Qed.
Print Assumptions C06_names_listed_once.

(* kind letter of model.py ('c' 'i' 'f' 'j') = the unique primary CT_PRIMITIVE_* flag of the backend *)
Theorem C06_kinds_agree_with_flags : forall name k,
  In (name, k) py_all_primitive_types ->
  exists fs, assoc name c_enum_primitive_types = Some fs /\ kind_of_flags fs = Some k.
Proof. exact kinds_agree. Qed.
Print Assumptions C06_kinds_agree_with_flags.

(* _cffi_prim_int(size, sign), for ALL integers size: for 1,2,4,8 the index of intN_t / uintN_t (N = 8*size),
   whose backend flags carry the requested signedness; for every other size _CFFI__UNKNOWN_PRIM (-1) *)
Theorem C06_prim_int_correct : forall size sign,
  (In size [1; 2; 4; 8] ->
     exists i fs, prim_int c_idents c_prim_int size sign = Some i /\
                  name_of c_primitive_name i = Some (intn_name size sign) /\
                  assoc (intn_name size sign) c_enum_primitive_types = Some fs /\
                  has_flag CT_PRIMITIVE_SIGNED fs = sign /\ has_flag CT_PRIMITIVE_UNSIGNED fs = negb sign) /\
  (~ In size [1; 2; 4; 8] -> prim_int c_idents c_prim_int size sign = Some (-1)).
Proof. exact prim_int_correct. Qed.
Print Assumptions C06_prim_int_correct.

(* search_standard_typename, for ALL strings p (any length, any bytes): a hit is the primitive of exactly
   that name *)
Theorem C06_std_typename_sound : forall (p : cstr) i,
  search_std c_prim c_std_typename p = Some i -> name_of c_primitive_name i = Some p.
Proof. exact std_typename_sound. Qed.
Print Assumptions C06_std_typename_sound.

(* ... and every primitive whose name ends in "_t" is found at its own index (all i) *)
Theorem C06_std_typename_complete : forall i nm,
  name_of c_primitive_name i = Some nm -> ends_with_t nm = true ->
  search_std c_prim c_std_typename nm = Some i.
Proof. exact std_typename_complete. Qed.
Print Assumptions C06_std_typename_complete.

(* the generic statement behind C06_std_typename_sound: it holds for every table passing table_ok *)
Theorem C06_std_typename_sound_any_table : forall prims names tb p i,
  table_ok prims names tb = true -> search_std prims tb p = Some i -> name_of names i = Some p.
Proof. exact search_std_sound. Qed.
Print Assumptions C06_std_typename_sound_any_table.

(* every memcmp of search_standard_typename reads within its literal (+NUL) and within p; p[POS] is read only
   when size > POS *)
Theorem C06_std_reads_in_bounds : reads_in_bounds c_std_typename = true.
Proof. exact gen_reads_in_bounds. Qed.
Print Assumptions C06_std_reads_in_bounds.

(* the index the C parser gives a *_t name is the one the Python code generator emits for it *)
Theorem C06_std_typename_matches_python : forall name,
  In name (map fst py_all_primitive_types) -> ends_with_t name = true ->
  exists id i, In (name, id) py_primitive_to_index /\ assoc id py_prim = Some i /\
               search_std c_prim c_std_typename name = Some i.
Proof. exact std_typename_matches_python. Qed.
Print Assumptions C06_std_typename_matches_python.

(* ---- C06 x C07: the primitive layer of the type-string parser model (coq/C07) is the regenerated one.
   C07.Model.search_standard_typename (a hand-written 36-row table used by the parser model and by every
   C07/C08/C30 theorem) returns, for ALL strings, what the regenerated switch cascade of
   search_standard_typename() returns *)
Theorem C06_C07_std_typename_same : forall s,
  C07.Model.search_standard_typename s = search_std c_prim c_std_typename s.
Proof. exact std_typename_same. Qed.
Print Assumptions C06_C07_std_typename_same.

(* the 18 PRIM_* constants C07.Model defines by hand (prim7: name, C07's value) are the _CFFI_PRIM_* of
   parse_c_type.h and the PRIM_* of cffi_opcode.py *)
Theorem C06_C07_prim_constants : forall n v, In (n, v) prim7 ->
  assoc n c_prim = Some v /\ assoc n py_prim = Some v.
Proof. exact prim_constants. Qed.
Print Assumptions C06_C07_prim_constants.

(* every row (words, index) of C07.PyModel.py_prims (the Python parser model's primitive table): the name
   ' '.join(words) has that index through cffi_opcode.PRIMITIVE_TO_INDEX / PRIM_* (void: PRIM_VOID; the two
   `_Complex` spellings through the COMMON_TYPES aliases, hand-copied in Compose07.py_aliases) *)
Theorem C06_C07_py_prims : forall ws v, In (ws, v) C07.PyModel.py_prims ->
  py_index_of (spell_words ws) = Some v.
Proof. exact py_prims_same. Qed.
Print Assumptions C06_C07_py_prims.

(* non-vacuity *)
Example C06_example_search :
  map (search_std c_prim c_std_typename)
      [s2l "uint16_t"; s2l "uint_least64_t"; s2l "_cffi_double_complex_t"; s2l "int8_t"; s2l "size_t";
       s2l "uint16_x"; s2l "uint17_t"; s2l "int_t"; s2l "xint16_t"; s2l "_t"; []]
  = [Some 20; Some 37; Some 49; Some 17; Some 28; None; None; None; None; None; None].
Proof. vm_compute. reflexivity. Qed.

Example C06_example_tables :
  assoc (s2l "long double") py_all_primitive_types = Some 102%N /\
  assoc (s2l "ssize_t") py_primitive_to_index = Some (s2l "SSIZE") /\
  name_of c_primitive_name 29 = Some (s2l "ssize_t") /\ ends_with_t (s2l "ssize_t") = true /\
  prim_int c_idents c_prim_int 4 false = Some 22 /\ intn_name 4 false = s2l "uint32_t" /\
  prim_int c_idents c_prim_int 3 true = Some (-1).
Proof. repeat split; vm_compute; reflexivity. Qed.
