(* C20 — executable model of ffi.new's allocation and initialisation.

   Code modelled (/repo/src/c/_cffi_backend.c at the pinned commit):
     direct_newp                    3845-3951  (sizing of the allocation, calloc, then the filling pass)
     convert_from_object            1644-1817  (dispatch on the ctype; primitives abstracted, see conv_prim)
     convert_array_from_object      1480-1576  (list/tuple, bytes, str, same-type cdata array)
     convert_struct_from_object     1578-1630  (both passes: optvarsize == NULL fills, != NULL sizes)
     convert_vfield_from_object     1418-1455  (flexible arrays; nested var-sized structs)
     convert_field_from_object      1385-1393, convert_from_object_bitfield 1819-1868
     add_varsize_length             1395-1412
     get_new_array_length           1345-1383
   Memory is a list of bytes; a write outside the allocation is the explicit error SegV, so
   "the sizing pass dominates every write of the filling pass" is "new never returns SegV".

   A ctype is given WITH its layout (field offsets, bit shifts, sizes) as the backend stores it
   in ct_size / ct_extra: the layout itself is C01's subject; here the harness reads it from
   typeof(T).fields and checks wf_type on it on every run.
   Abstracted: the value conversion of primitives (range checks are modelled, float encodings are
   supplied with the value; C03/C05 own those), long double / complex initialisers (never
   generated), Python object protocol corner cases (__int__, __index__, generators).
   Recursion over nested initialisers uses explicit fuel (OutOfFuel is excluded in the theorems
   by fuel > depth of the initialiser). *)
From Coq Require Import ZArith List Bool.
Import ListNotations.
From Cffi Require Import C20.Gen.      (* regenerated order fact about convert_array_from_object *)
(* The leaf stores are NOT written here: they are the functions other properties prove correct and tie
   to regenerated source text (qualified names, nothing is imported into the namespace):
     integers / _Bool   C03.Store.convert_from_object_int  (= regenerated gen_store: C03_gen_store_refines)
     bit-fields         C02.Model.bf_write                 (= regenerated gen_write: C02_gen_write_refines)
     bytes / str into character arrays, str lengths, single wide characters
                        C15.Model.convert_array, new_array_length, as_single_char16/32
                        (C15/Gen.v: regenerated from wchar_helper_3.h)
     byte encodings     C03.Mem.encode_le / decode_le *)
From Cffi Require C03.Mem C03.Store C02.Model C15.Model.
Open Scope Z_scope.

Inductive err := TypeError | ValueError | IndexError | KeyError | OverflowError
               | MemoryError
               | SegV            (* a write outside the allocated block *)
               | OutOfFuel.
Inductive res (A : Type) := Ok (a : A) | Err (e : err).
Arguments Ok {A} a.
Arguments Err {A} e.
Definition bind {A B} (r : res A) (f : A -> res B) : res B :=
  match r with Ok a => f a | Err e => Err e end.

(* ------------------------------------------------------------------ types with their layout *)

Inductive pkind := KSigned | KUnsigned | KBool | KFloat | KChar | KPtr | KOther.

Inductive ltype :=
| LPrim (k : pkind) (size : Z)
| LArr (item : ltype) (len : Z)                    (* len = -1: `T[]`, ct_size = -1 *)
| LAgg (size : Z) (var : bool)                     (* ct_size, CT_WITH_VAR_ARRAY *)
       (fields : list (ltype * Z * Z * Z * Z)).    (* ct_extra: (type, offset, bitshift, bitsize, flags) *)

Definition lfield := (ltype * Z * Z * Z * Z)%type.
Definition lf_type (f : lfield) : ltype := fst (fst (fst (fst f))).
Definition lf_off (f : lfield) : Z := snd (fst (fst (fst f))).
Definition lf_shift (f : lfield) : Z := snd (fst (fst f)).
Definition lf_bits (f : lfield) : Z := snd (fst f).
Definition lf_flags (f : lfield) : Z := snd f.

Fixpoint lsize (t : ltype) : Z :=
  match t with
  | LPrim _ s => s
  | LArr item len => if len <? 0 then -1 else len * lsize item
  | LAgg s _ _ => s
  end.

Definition is_flex (t : ltype) : bool := match t with LArr _ len => len <? 0 | _ => false end.
Definition item_of (t : ltype) : ltype := match t with LArr item _ => item | _ => t end.
Definition agg_var (t : ltype) : bool := match t with LAgg _ v _ => v | _ => false end.
Definition agg_fields (t : ltype) : list lfield := match t with LAgg _ _ fs => fs | _ => [] end.
Definition is_lagg (t : ltype) : bool := match t with LAgg _ _ _ => true | _ => false end.

(* ------------------------------------------------------------------ Python values *)

Inductive pyval :=
| VInt (z : Z)
| VFloat (enc4 enc8 : list Z)        (* a float, with its encodings as C float and double *)
| VBytes (b : list Z)
| VStr (cps : list Z)                (* code points 0..0x10FFFF, lone surrogates included *)
| VList (l : list pyval)             (* list or tuple *)
| VDict (l : list (Z * pyval))       (* key = position of the named field in ct_extra; -1: no such field *)
| VCData (same : bool) (data : list Z) (alen : Z)
                                     (* struct/array cdata; same: its ctype IS the target ctype;
                                        data: its bytes; alen: get_array_length (arrays) *)
| VPtr (addr : Z)                    (* pointer cdata of an accepted type *)
| VNone.

(* ------------------------------------------------------------------ memory *)

Definition mem := list Z.
Definition zeros (n : Z) : mem := repeat 0 (Z.to_nat n).
Definition mlen {A} (m : list A) : Z := Z.of_nat (length m).

Definition write (off : Z) (bs : list Z) (m : mem) : res mem :=
  if (off <? 0) || (mlen m <? off + mlen bs) then Err SegV
  else Ok (firstn (Z.to_nat off) m ++ bs ++ skipn (Z.to_nat off + length bs) m).

Definition read (off n : Z) (m : mem) : list Z := firstn (Z.to_nat n) (skipn (Z.to_nat off) m).

(* little-endian encodings: C03/Mem.v's *)
Definition le_bytes (n z : Z) : list Z := C03.Mem.encode_le (Z.to_nat n) z.
Definition le_decode (bs : list Z) : Z := C03.Mem.decode_le bs.

(* ------------------------------------------------------------------ adapters to the shared models
   An outcome the shared models call undefined behaviour (C03 UB, C02 BUB), or an exception class
   that cffi never raises here (C15: SystemError, BufferMisuse, ...), becomes SegV: the theorems
   "... <> Err SegV" then also say that no leaf store runs into C undefined behaviour. *)
Definition ity_of (k : pkind) (s : Z) : C03.Store.ity :=
  C03.Store.mk_ity (Z.to_nat s) (match k with KSigned => true | _ => false end)
                   (match k with KBool => true | _ => false end).
Definition of_exc (e : C03.Store.exc) : err :=
  match e with C03.Store.OverflowError => OverflowError | C03.Store.TypeError => TypeError end.
Definition of_c03 (r : C03.Store.res unit * list Z) : res (list Z) :=
  match r with
  | (C03.Store.Ok _, d) => Ok d
  | (C03.Store.Err e, _) => Err (of_exc e)
  | (C03.Store.UB, _) => Err SegV
  end.
Definition of_c02 (r : C02.Model.bres unit * list Z) : res (list Z) :=
  match r with
  | (C02.Model.BOk _, d) => Ok d
  | (C02.Model.BErr e, _) => Err (of_exc e)
  | (C02.Model.BUB, _) => Err SegV
  end.
Definition of_exn (e : C15.Spec.exn) : err :=
  match e with
  | C15.Spec.IndexError => IndexError | C15.Spec.TypeError => TypeError
  | C15.Spec.ValueError => ValueError | _ => SegV
  end.
Definition of_c15 {A} (r : C15.Spec.res A) : res A :=
  match r with C15.Spec.Ok a => Ok a | C15.Spec.Err e => Err (of_exn e) end.
(* the element type of a character array with items of `isz` bytes *)
Definition ety_of (isz : Z) : C15.Model.ety :=
  if isz =? 1 then C15.Model.E8 else if isz =? 2 then C15.Model.E16 else C15.Model.E32.

(* ------------------------------------------------------------------ primitives *)

(* convert_from_object :1719-1790 for one primitive; always `size` bytes.  `old`: the present
   content of the target (what the C03 store returns unchanged when it refuses the value) *)
Definition conv_prim (k : pkind) (s : Z) (v : pyval) (old : list Z) : res (list Z) :=
  match k, v with
  | KSigned, VInt z | KUnsigned, VInt z | KBool, VInt z =>
      of_c03 (C03.Store.convert_from_object_int (ity_of k s) z old)
  | KFloat, VFloat e4 e8 =>
      let e := if s =? 4 then e4 else e8 in
      if mlen e =? s then Ok e else Err TypeError
  | KChar, VBytes [b] => if s =? 1 then Ok (le_bytes s b) else Err TypeError
  | KChar, VStr cps =>
      if s =? 1 then Err TypeError
      else match (if s =? 2 then C15.Gen.as_single_char16 cps      (* _my_PyUnicode_AsSingleChar16 *)
                  else C15.Gen.as_single_char32 cps) with
           | Some u => Ok (le_bytes s u)
           | None => Err TypeError
           end
  | KPtr, VPtr a => Ok (le_bytes s a)
  | _, _ => Err TypeError
  end.

(* convert_from_object_bitfield :1819 (fields narrower than long long): PyLong_AsLongLong, range
   check, then read-modify-write of the whole unit — C02's bf_write on the unit's bytes *)
Definition conv_bitfield (k : pkind) (s shift bits : Z) (v : pyval) (unit_old : list Z) : res (list Z) :=
  match v with
  | VInt z => of_c02 (C02.Model.bf_write (ity_of k s) bits shift z unit_old)
  | _ => Err TypeError
  end.

Definition SSIZE_MAX := 2 ^ 63 - 1.

(* get_new_array_length 1345 (ctitem->ct_size, value): (length, was the initialiser only a length?) *)
Definition get_new_array_length (itemsize : Z) (v : pyval) : res (Z * bool) :=
  match v with
  | VList l => Ok (mlen l, false)
  | VBytes b => Ok (C15.Model.new_array_length (ety_of itemsize) (C15.Model.PBytes b), false)
  | VStr c => Ok (C15.Model.new_array_length (ety_of itemsize) (C15.Model.PStr c), false)
  | VInt z => if z <? 0 then Err ValueError
              else if SSIZE_MAX <? z then Err OverflowError else Ok (z, true)
  | _ => Err TypeError
  end.

(* add_varsize_length 1395.  The C code tests for wrap-around of Py_ssize_t with
   `size < 0 || (size - offset) / itemsize != varsizelength`; for 0 <= offset, 0 < itemsize,
   0 <= length that is `offset + itemsize*length > SSIZE_MAX` (tied by the harness with huge lengths) *)
Definition add_varsize_length (offset itemsize len opt : Z) : res Z :=
  let size := offset + itemsize * len in
  if SSIZE_MAX <? size then Err OverflowError else Ok (Z.max opt size).

(* ------------------------------------------------------------------ the two passes *)

Definition ignore_in_ctor (f : lfield) : bool := Z.odd (lf_flags f).     (* BF_IGNORE_IN_CTOR = 1 *)

Fixpoint skip_ignored (fs : list lfield) : list lfield :=
  match fs with
  | f :: fs' => if ignore_in_ctor f then skip_ignored fs' else fs
  | [] => []
  end.

Section Iterators.
  Context {S : Type}.
  (* what to do with one (field, value) pair *)
  Variable per_field : lfield -> pyval -> S -> res S.

  (* 1591-1610: positional initialisers *)
  Fixpoint struct_from_list (fs : list lfield) (l : list pyval) (s : S) : res S :=
    match l with
    | [] => Ok s
    | x :: l' =>
        match skip_ignored fs with
        | [] => Err ValueError                   (* too many initializers *)
        | f :: fs' => bind (per_field f x s) (struct_from_list fs' l')
        end
    end.

  (* 1611-1626: keyword initialisers, in the dict's order *)
  Fixpoint struct_from_dict (fs : list lfield) (kv : list (Z * pyval)) (s : S) : res S :=
    match kv with
    | [] => Ok s
    | (k, x) :: kv' =>
        match (if k <? 0 then None else nth_error fs (Z.to_nat k)) with
        | None => Err KeyError
        | Some f => bind (per_field f x s) (struct_from_dict fs kv')
        end
    end.

  Definition struct_from_object (fs : list lfield) (v : pyval) (s : S) : res S :=
    match v with
    | VList l => struct_from_list fs l s
    | VDict kv => struct_from_dict fs kv s
    | _ => Err TypeError
    end.
End Iterators.

Definition is_cdata (x : pyval) : bool := match x with VCData _ _ _ => true | _ => false end.

(* convert_vfield_from_object with optvarsize != NULL; `rec` sizes a nested var-sized struct *)
Definition size_field (rec : list lfield -> pyval -> Z -> res Z) (f : lfield) (x : pyval) (opt : Z) : res Z :=
  let ft := lf_type f in
  if is_flex ft then
    bind (get_new_array_length (lsize (item_of ft)) x) (fun lb =>
    add_varsize_length (lf_off f) (lsize (item_of ft)) (fst lb) opt)
  else if agg_var ft && negb (is_cdata x) then
    bind (rec (agg_fields ft) x (lsize ft)) (fun subsize =>
    add_varsize_length (lf_off f) 1 subsize opt)
  else Ok opt.

(* sizing pass: convert_struct_from_object(NULL, ct, init, &optvarsize) *)
Fixpoint size_struct (fuel : nat) (fs : list lfield) (v : pyval) (opt : Z) : res Z :=
  match fuel with
  | O => Err OutOfFuel
  | S fuel' => struct_from_object (size_field (size_struct fuel')) fs v opt
  end.

Definition one_byte_item (t : ltype) : bool :=
  match t with
  | LPrim KChar s | LPrim KSigned s | LPrim KUnsigned s | LPrim KBool s => s =? 1
  | _ => false
  end.
Definition wide_char_item (t : ltype) : bool :=
  match t with LPrim KChar s => negb (s =? 1) | _ => false end.
Definition is_bool_item (t : ltype) : bool := match t with LPrim KBool _ => true | _ => false end.

Fixpoint fill_items (rec : Z -> pyval -> mem -> res mem) (off isz : Z) (l : list pyval) (m : mem) : res mem :=
  match l with
  | [] => Ok m
  | x :: l' => bind (rec off x m) (fill_items rec (off + isz) isz l')
  end.

(* convert_array_from_object 1480; `rec` converts one item *)
Definition fill_array (rec : Z -> pyval -> mem -> res mem) (item : ltype) (len off : Z)
           (v : pyval) (m : mem) : res mem :=
  let isz := lsize item in
  match v with
  | VList l =>
      if (0 <=? len) && (len <? mlen l) then Err IndexError
      else fill_items rec off isz l m
  | VBytes b =>
      if one_byte_item item then
        bind (of_c15 (C15.Model.convert_array C15.Model.E8 len (C15.Model.PBytes b))) (fun src =>
        if is_bool_item item && existsb (fun c => 1 <? c) src then Err ValueError
        else write off src m)
      else Err TypeError
  | VStr c =>
      if wide_char_item item then
        bind (of_c15 (C15.Model.convert_array (ety_of isz) len (C15.Model.PStr c))) (fun us =>
        write off (flat_map (le_bytes isz) us) m)
      else Err TypeError
  | VCData true data alen =>
      (* same ctype, so get_array_length is ct_length when that is known *)
      let n := if 0 <=? len then len else alen in
      write off (firstn (Z.to_nat (n * isz)) data) m
  | _ => Err TypeError
  end.

(* convert_vfield_from_object with optvarsize == NULL, then convert_field_from_object 1385;
   `rec` is convert_from_object *)
Definition fill_field (rec : ltype -> Z -> pyval -> mem -> res mem) (off : Z)
           (f : lfield) (x : pyval) (m : mem) : res mem :=
  let ft := lf_type f in
  let go (m : mem) :=
    if 0 <=? lf_shift f then
      match ft with
      | LPrim k s =>
          if 64 <=? lf_bits f then rec ft (off + lf_off f) x m
          else
            bind (conv_bitfield k s (lf_shift f) (lf_bits f) x (read (off + lf_off f) s m))
                 (fun bs => write (off + lf_off f) bs m)
      | _ => Err TypeError
      end
    else rec ft (off + lf_off f) x m in
  if is_flex ft then
    bind (get_new_array_length (lsize (item_of ft)) x) (fun lb => if snd lb then Ok m else go m)
  else go m.

(* convert_array_from_object 1504-1524 (commit 812503f): an array item of var-sized struct type has
   room for ct_size bytes only; its initialiser is run through the sizing pass first and refused
   when it needs more *)
(* CT_WITH_VAR_ARRAY as convert_array_from_object sees it.  The flag lives in ct_flags_mut and is set
   only when the field list of the struct is loaded; out-of-line API modules load it lazily.  The
   code forces the struct (force_lazy_struct) before reading the flag — regenerated fact C20.Gen.
   Were the flag read first, a still-lazy struct would show 0: the model then takes that worst case. *)
Definition flag_visible : bool := forced_before_flag_read.

Definition item_guard (fuel : nat) (item : ltype) (x : pyval) : res unit :=
  if flag_visible && agg_var item && negb (is_cdata x) then
    bind (size_struct fuel (agg_fields item) x (lsize item)) (fun n =>
    if lsize item <? n then Err ValueError else Ok tt)
  else Ok tt.

(* filling pass: convert_from_object(data + off, t, init) *)
Fixpoint fill (fuel : nat) (t : ltype) (off : Z) (v : pyval) (m : mem) : res mem :=
  match fuel with
  | O => Err OutOfFuel
  | S fuel' =>
    match t with
    | LPrim k s => bind (conv_prim k s v (read off s m)) (fun bs => write off bs m)
    | LArr item len =>
        fill_array (fun off x m => bind (item_guard fuel' item x) (fun _ => fill fuel' item off x m))
                   item len off v m
    | LAgg size var fs =>
        match v with
        | VCData true data _ =>
            if 0 <=? size then write off (firstn (Z.to_nat size) data) m
            else Err TypeError
        | _ => struct_from_object (fill_field (fill fuel') off) fs v m
        end
    end
  end.

(* ------------------------------------------------------------------ ffi.new *)

(* what is being allocated: ffi.new("T *", init) or ffi.new("T[len]", init) / ffi.new("T[]", init) *)
Inductive newtype := NewPtr (t : ltype) | NewArr (item : ltype) (len : Z).

(* direct_newp 3845-3905: the size of the block *)
Definition alloc_size (fuel : nat) (T : newtype) (init : pyval) : res Z :=
  match T with
  | NewPtr t =>
      let datasize := lsize t in
      if datasize <? 0 then Err TypeError
      else
        let datasize := match t with LPrim KChar _ => datasize * 2 | _ => datasize end in
        if agg_var t && negb (match init with VNone => true | _ => false end) then
          size_struct fuel (agg_fields t) init datasize
        else Ok datasize
  | NewArr item len =>
      if len <? 0 then
        bind (get_new_array_length (lsize item) init) (fun lb =>
        if SSIZE_MAX <? fst lb * lsize item then Err OverflowError else Ok (fst lb * lsize item))
      else Ok (len * lsize item)
  end.

Definition new_target (T : newtype) : ltype :=
  match T with NewPtr t => t | NewArr item len => LArr item len end.

(* for `T[]` an integer initialiser is only a length (get_new_array_length sets it to None) *)
Definition new_init (T : newtype) (init : pyval) : pyval :=
  match T, init with
  | NewArr _ len, VInt _ => if len <? 0 then VNone else init
  | _, _ => init
  end.

(* blocks larger than this cannot be allocated (any bound below the address-space size would do;
   the harness only uses lengths below 2^20 or above 2^59) *)
Definition MAX_ALLOC := 2 ^ 48.

(* ffi.new(T, init): (bytes of the block = ffi.buffer(p), and its size = ffi.sizeof(p[0]) / sizeof(p)) *)
Definition new_bytes (fuel : nat) (T : newtype) (init : pyval) : res mem :=
  bind (alloc_size fuel T init) (fun n =>
  if MAX_ALLOC <? n then Err MemoryError else          (* calloc fails *)
  let m := zeros n in
  match new_init T init with
  | VNone => Ok m
  | init' => fill fuel (new_target T) 0 init' m
  end).

(* direct_newp 3905-3950: the owning object = (its block, the `length` slot of CDataObject_own_length).
   The slot exists only when dataoffset is that of own_length: a var-sized struct (3932:
   length = datasize) or `T[]` (3945: length = explicitlength). *)
Definition own_length (T : newtype) (n : Z) : option Z :=
  match T with
  | NewPtr t => if agg_var t then Some n else None
  | NewArr item len => if len <? 0 then Some (n / lsize item) else None
  end.
Definition new_object (fuel : nat) (T : newtype) (init : pyval) : res (mem * option Z) :=
  bind (alloc_size fuel T init) (fun n =>
  bind (new_bytes fuel T init) (fun m => Ok (m, own_length T n))).

(* ffi.sizeof(p[0]) for p = ffi.new("struct T *", ...) and ffi.sizeof(p) for an array:
   direct_sizeof_cdata 6651 with _cdata_var_byte_size 2197 and get_array_length 1471 *)
Definition sizeof_cdata (T : newtype) (slot : option Z) : Z :=
  match T with
  | NewArr item len =>
      (if len <? 0 then match slot with Some l => l | None => len end else len) * lsize item
  | NewPtr t =>
      match (if agg_var t then slot else None) with      (* _cdata_var_byte_size, else -1 *)
      | Some l => if l <? 0 then lsize t else l
      | None => lsize t
      end
  end.

(* the positions (in ct_extra) of the fields a positional initialiser fills, in order:
   those without BF_IGNORE_IN_CTOR *)
Fixpoint ctor_keys (b : Z) (fs : list lfield) : list Z :=
  match fs with
  | [] => []
  | f :: r => if ignore_in_ctor f then ctor_keys (b + 1) r else b :: ctor_keys (b + 1) r
  end.

(* q = ffi.new(T) [for a var-sized struct: a block of the size the initialiser needs]; q[0] = init *)
Definition assign_bytes (fuel : nat) (T : newtype) (init : pyval) (n : Z) : res mem :=
  fill fuel (new_target T) 0 init (zeros n).

(* ------------------------------------------------------------------ well-formed layouts *)

(* `has_var t`: a var-sized struct, possibly inside arrays *)
Fixpoint has_var (t : ltype) : bool :=
  match t with
  | LAgg _ v _ => v
  | LArr item _ => has_var item
  | LPrim _ _ => false
  end.

(* layout facts the filling pass relies on (C01's subject; checked on every case by the harness):
   sizes positive, every fixed-size field inside its struct, a bit-field's unit inside its struct
   and its bits inside the unit (1 <= bits, shift + bits <= 8 * size <= 64),
   a flexible array starts inside, CT_WITH_VAR_ARRAY set where a member is a var-sized struct *)
Fixpoint wf_type (t : ltype) : bool :=
  match t with
  | LPrim _ s => 0 <? s
  | LArr item len => wf_type item && (0 <? lsize item) && (-1 <=? len)
  | LAgg size var fs =>
      (0 <=? size) &&
      (fix all (fs : list (ltype * Z * Z * Z * Z)) : bool :=
         match fs with
         | [] => true
         | (ft, off, shift, bits, flags) :: fs' =>
             wf_type ft && (0 <=? off) &&
             (if is_flex ft then (off <=? size) && var && (shift <? 0)
              else off + lsize ft <=? size) &&
             (if 0 <=? shift
              then match ft with
                   | LPrim _ s => (0 <? bits) && (shift + bits <=? 8 * s) && (s <=? 8)   (* C02's placement *)
                   | _ => false
                   end
              else true) &&
             (if agg_var ft then var else true) &&
             all fs'
         end) fs
  end.

(* no array (at any depth) has var-sized structs as items.  Before commit 812503f this was the
   hypothesis under which the sizing pass dominated the filling pass (cffi accepts such types and
   used to overflow on them); with the guard above it is no longer needed. *)
Fixpoint no_var_items (t : ltype) : bool :=
  match t with
  | LPrim _ _ => true
  | LArr item _ => negb (has_var item) && no_var_items item
  | LAgg _ _ fs =>
      (fix all (fs : list (ltype * Z * Z * Z * Z)) : bool :=
         match fs with
         | [] => true
         | (ft, _, _, _, _) :: fs' => no_var_items ft && all fs'
         end) fs
  end.

(* ------------------------------------------------------------------ wire format of the correspondence check
   (monomorphic constructors; byte strings travel as (length, little-endian number)) *)
Inductive wzs := ZNil | ZCons (z : Z) (r : wzs).
Inductive wlt :=
| WLPrim (k s : Z) | WLArr (item : wlt) (len : Z) | WLAgg (size : Z) (var : bool) (fs : wlfs)
with wlfs := WFNil | WFCons (t : wlt) (off shift bits flags : Z) (r : wlfs).
Inductive wval :=
| WInt (z : Z) | WFloat (e4 e8 : Z) | WBytes (n z : Z) | WStr (c : wzs) | WList (l : wvals)
| WDict (kv : wkvs) | WCData (same : bool) (n z alen : Z) | WPtr (a : Z) | WNone
with wvals := WVNil | WVCons (v : wval) (r : wvals)
with wkvs := WKNil | WKCons (k : Z) (v : wval) (r : wkvs).

Definition kind_of (k : Z) : pkind :=
  if k =? 0 then KSigned else if k =? 1 then KUnsigned else if k =? 2 then KBool
  else if k =? 3 then KFloat else if k =? 4 then KChar else if k =? 5 then KPtr else KOther.
Fixpoint of_wzs (l : wzs) : list Z := match l with ZNil => [] | ZCons z r => z :: of_wzs r end.
Fixpoint of_wlt (t : wlt) : ltype :=
  match t with
  | WLPrim k s => LPrim (kind_of k) s
  | WLArr i n => LArr (of_wlt i) n
  | WLAgg s v fs => LAgg s v (of_wlfs fs)
  end
with of_wlfs (fs : wlfs) : list (ltype * Z * Z * Z * Z) :=
  match fs with
  | WFNil => []
  | WFCons t o sh b fl r => (of_wlt t, o, sh, b, fl) :: of_wlfs r
  end.
Fixpoint of_wval (v : wval) : pyval :=
  match v with
  | WInt z => VInt z
  | WFloat e4 e8 => VFloat (le_bytes 4 e4) (le_bytes 8 e8)
  | WBytes n z => VBytes (le_bytes n z)
  | WStr c => VStr (of_wzs c)
  | WList l => VList (of_wvals l)
  | WDict kv => VDict (of_wkvs kv)
  | WCData same n z alen => VCData same (le_bytes n z) alen
  | WPtr a => VPtr a
  | WNone => VNone
  end
with of_wvals (l : wvals) : list pyval :=
  match l with WVNil => [] | WVCons v r => of_wval v :: of_wvals r end
with of_wkvs (l : wkvs) : list (Z * pyval) :=
  match l with WKNil => [] | WKCons k v r => (k, of_wval v) :: of_wkvs r end.

(* a result on the wire: block (length, content) or an error code *)
Inductive wout := WOk (n z : Z) | WErr (code : Z).
Definition err_code (e : err) : Z :=
  match e with TypeError => 1 | ValueError => 2 | IndexError => 3 | KeyError => 4
             | OverflowError => 5 | SegV => 6 | OutOfFuel => 7 | MemoryError => 8 end.
Definition to_wout (r : res mem) : wout :=
  match r with Ok m => WOk (mlen m) (le_decode m) | Err e => WErr (err_code e) end.
Definition wout_eqb (x y : wout) : bool :=
  match x, y with
  | WOk n z, WOk n' z' => (n =? n') && (z =? z')
  | WErr c, WErr c' => c =? c'
  | _, _ => false
  end.

(* one case: what is allocated (isptr: "T *", else "T[len]"), the initialiser, the size of the block
   used for the assignment form, and the three observed outcomes:
   ffi.new(T, init);  q = <block of asize zero bytes>; q[0] = init;  wf_type on the layout *)
Inductive wcases20 :=
| C20Nil
| C20Cons (isptr : bool) (t : wlt) (len : Z) (init : wval) (asize : Z) (do_assign : bool)
          (rnew rassign : wout) (rest : wcases20).

Definition FUEL := 40%nat.
Definition newtype_of (isptr : bool) (t : wlt) (len : Z) : newtype :=
  if isptr then NewPtr (of_wlt t) else NewArr (of_wlt t) len.

(* ffi.buffer(p) of a `char *` / `wchar_t *` shows the item only, not the extra NUL slot *)
Definition observe_new (T : newtype) (r : res mem) : res mem :=
  match T, r with
  | NewPtr (LPrim KChar s), Ok m => Ok (firstn (Z.to_nat s) m)
  | _, _ => r
  end.

Fixpoint c20_mismatches (i : Z) (cs : wcases20) : list Z :=
  match cs with
  | C20Nil => []
  | C20Cons isptr t len init asize do_assign rnew rassign rest =>
      let T := newtype_of isptr t len in
      let v := of_wval init in
      let ok1 := wout_eqb (to_wout (observe_new T (new_bytes FUEL T v))) rnew in
      let ok2 := if do_assign then wout_eqb (to_wout (assign_bytes FUEL T v asize)) rassign else true in
      let ok3 := wf_type (new_target T) in
      let tl := c20_mismatches (i + 1) rest in
      if ok1 && ok2 && ok3 then tl else i :: tl
  end.
Definition c20_detail (isptr : bool) (t : wlt) (len : Z) (init : wval) (asize : Z) :=
  let T := newtype_of isptr t len in
  (to_wout (observe_new T (new_bytes FUEL T (of_wval init))), to_wout (assign_bytes FUEL T (of_wval init) asize),
   wf_type (new_target T), no_var_items (new_target T)).
