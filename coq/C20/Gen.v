(* C20 — REGENERATED on every run by tools/props/c20.py regen() from /repo/src/c/_cffi_backend.c
   (convert_array_from_object, comments stripped; fail closed -> this committed snapshot).
   Order fact extracted: in the function's text the call force_lazy_struct(ctitem) comes BEFORE
   the first read of ct_flags_mut (CT_WITH_VAR_ARRAY is only set once a struct's field list has
   been loaded; API-mode modules load field lists lazily).
     true  = the item struct is forced before its CT_WITH_VAR_ARRAY flag is read;
     false = the flag may be read while the fields are still lazy, i.e. as 0. *)
Definition forced_before_flag_read : bool := true.
