(* C20 — proofs about the model of ffi.new (C20/Model.v). *)
From Coq Require Import ZArith Lia Bool List.
Import ListNotations.
From Cffi Require C15.Model.
From Cffi Require Import C20.Model C20.Leaves.
Open Scope Z_scope.

(* ------------------------------------------------------------------ new = zero block + assignment *)

Lemma new_is_assign fuel T init :
  new_bytes fuel T init =
  bind (alloc_size fuel T init) (fun n =>
  if MAX_ALLOC <? n then Err MemoryError
  else match new_init T init with
       | VNone => Ok (zeros n)
       | i => assign_bytes fuel T i n
       end).
Proof.
  unfold new_bytes, assign_bytes. destruct (alloc_size fuel T init); cbn [bind]; [|reflexivity].
  destruct (MAX_ALLOC <? a); [reflexivity|]. destruct (new_init T init); reflexivity.
Qed.

(* for a type that is not var-sized the block does not depend on the initialiser, so
   ffi.new(T, init) is literally  p = ffi.new(T); p[0] = init *)
Definition fixed_size (T : newtype) : Prop :=
  match T with
  | NewPtr t => agg_var t = false
  | NewArr _ len => 0 <= len
  end.

Lemma alloc_fixed fuel T init : fixed_size T -> alloc_size fuel T init = alloc_size fuel T VNone.
Proof.
  destruct T as [t|item len]; cbn [fixed_size alloc_size]; intros H.
  - rewrite H. reflexivity.
  - destruct (Z.ltb_spec len 0); [lia|reflexivity].
Qed.

Lemma new_init_fixed T init : fixed_size T -> new_init T init = init.
Proof.
  destruct T as [t|item len]; cbn; intros H; [destruct init; reflexivity|].
  destruct init; try reflexivity. destruct (Z.ltb_spec len 0); [lia|reflexivity].
Qed.

Lemma new_is_literal_assign fuel T init : fixed_size T -> init <> VNone ->
  new_bytes fuel T init =
  bind (new_bytes fuel T VNone) (fun m0 => fill fuel (new_target T) 0 init m0).
Proof.
  intros HF Hn. rewrite (new_is_assign fuel T init), (new_is_assign fuel T VNone).
  rewrite (alloc_fixed fuel T init HF), (new_init_fixed T init HF), (new_init_fixed T VNone HF).
  destruct (alloc_size fuel T VNone) as [n|e]; cbn [bind]; [|reflexivity].
  destruct (MAX_ALLOC <? n); cbn [bind]; [reflexivity|].
  destruct init; try reflexivity. contradiction.
Qed.

(* ------------------------------------------------------------------ memory safety of the filling pass *)

(* the filling pass did not leave the block, the block keeps its size, and every byte outside
   [lo, hi) keeps its value (frame) *)
Definition byte (m : mem) (i : Z) : Z := nth (Z.to_nat i) m 0.
Definition safe (lo hi : Z) (r : res mem) (m : mem) : Prop :=
  r <> Err SegV /\
  forall m', r = Ok m' ->
    mlen m' = mlen m /\ forall i, 0 <= i -> i < lo \/ hi <= i -> byte m' i = byte m i.

Lemma safe_err lo hi e m : e <> SegV -> safe lo hi (Err e) m.
Proof. intros H. split; [congruence|discriminate]. Qed.

Lemma safe_ok lo hi m : safe lo hi (Ok m) m.
Proof. split; [discriminate|]. intros m' E. inversion E. split; [reflexivity|auto]. Qed.

Lemma safe_weaken lo hi lo' hi' r m : lo' <= lo -> hi <= hi' -> safe lo hi r m -> safe lo' hi' r m.
Proof.
  intros H1 H2 (Hn & Hf). split; [exact Hn|]. intros m' E. destruct (Hf m' E) as (Hl & Hb).
  split; [exact Hl|]. intros i Hi Hr. apply Hb; lia.
Qed.

Lemma safe_bind {A} lo hi (r : res A) (f : A -> res mem) m :
  (forall e, r = Err e -> e <> SegV) -> (forall a, r = Ok a -> safe lo hi (f a) m) -> safe lo hi (bind r f) m.
Proof.
  intros He Hok. destruct r as [a|e]; cbn [bind]; [apply Hok; reflexivity|].
  apply safe_err. apply He. reflexivity.
Qed.

Lemma safe_bind_mem lo hi (r : res mem) (f : mem -> res mem) m :
  safe lo hi r m -> (forall m1, mlen m1 = mlen m -> safe lo hi (f m1) m1) -> safe lo hi (bind r f) m.
Proof.
  intros (Hn & Hl) Hf. destruct r as [m1|e]; cbn [bind].
  - destruct (Hl m1 eq_refl) as (Hl1 & Hb1). destruct (Hf m1 Hl1) as (H1 & H2). split; [exact H1|].
    intros m' E. destruct (H2 m' E) as (Hl2 & Hb2). split; [lia|].
    intros i Hi Hr. rewrite Hb2, Hb1 by auto. reflexivity.
  - apply safe_err. congruence.
Qed.

Lemma mlen_app {A} (a b : list A) : mlen (a ++ b) = mlen a + mlen b.
Proof. unfold mlen. rewrite app_length. lia. Qed.

Lemma mlen_nonneg {A} (a : list A) : 0 <= mlen a.
Proof. unfold mlen. lia. Qed.

Lemma nth_firstn_lt (m : mem) k i : (i < k)%nat -> (k <= length m)%nat -> nth i (firstn k m) 0 = nth i m 0.
Proof.
  intros Hi Hk. rewrite <- (firstn_skipn k m) at 2. rewrite app_nth1; [reflexivity|].
  rewrite firstn_length. lia.
Qed.

Lemma nth_skipn_ge (m : mem) k j : (k <= length m)%nat -> nth j (skipn k m) 0 = nth (k + j) m 0.
Proof.
  intros Hk. rewrite <- (firstn_skipn k m) at 2. rewrite app_nth2; rewrite firstn_length; [|lia].
  f_equal. lia.
Qed.

Lemma write_safe off bs m : 0 <= off -> off + mlen bs <= mlen m -> safe off (off + mlen bs) (write off bs m) m.
Proof.
  intros Ho Hb. unfold write.
  destruct (Z.ltb_spec off 0); [lia|]. destruct (Z.ltb_spec (mlen m) (off + mlen bs)); [lia|]. cbn [orb].
  split; [discriminate|]. intros m' E. inversion E; subst m'. clear E. split.
  - rewrite !mlen_app. unfold mlen in *. rewrite firstn_length, skipn_length. lia.
  - intros i Hi Hr. unfold byte, mlen in *. destruct Hr as [Hr|Hr].
    + rewrite app_nth1 by (rewrite firstn_length; lia). apply nth_firstn_lt; lia.
    + rewrite app_nth2 by (rewrite firstn_length; lia). rewrite firstn_length.
      rewrite app_nth2 by lia. rewrite nth_skipn_ge by lia. f_equal. lia.
Qed.

Lemma write_safe_in lo hi off bs m :
  lo <= off -> 0 <= off -> off + mlen bs <= hi -> hi <= mlen m -> safe lo hi (write off bs m) m.
Proof. intros. apply (safe_weaken off (off + mlen bs)); [lia|lia|]. apply write_safe; lia. Qed.

Lemma firstn_mlen {A} k (d : list A) : 0 <= k -> mlen (firstn (Z.to_nat k) d) <= k.
Proof. intros. unfold mlen. rewrite firstn_length. lia. Qed.

Lemma gnal_err isz x e : get_new_array_length isz x = Err e -> e <> SegV.
Proof.
  unfold get_new_array_length. destruct x; try (intros E; inversion E; discriminate).
  destruct (z <? 0); [intros E; inversion E; discriminate|].
  destruct (SSIZE_MAX <? z); intros E; inversion E; discriminate.
Qed.

Lemma ok_pair_inj {A B} (a a' : A) (b b' : B) : @Ok (A * B) (a, b) = Ok (a', b') -> a = a' /\ b = b'.
Proof. intros H; inversion H; auto. Qed.

Lemma gnal_nonneg isz x cap b : get_new_array_length isz x = Ok (cap, b) -> 0 <= cap.
Proof.
  unfold get_new_array_length. destruct x; try discriminate; intros E.
  - destruct (Z.ltb_spec z 0); [discriminate|]. destruct (SSIZE_MAX <? z); [discriminate|]. inversion E. lia.
  - apply ok_pair_inj in E; destruct E as (E1 & E2). pose proof (new_array_length_pos (ety_of isz) (C15.Model.PBytes b0)). lia.
  - apply ok_pair_inj in E; destruct E as (E1 & E2). pose proof (new_array_length_pos (ety_of isz) (C15.Model.PStr cps)). lia.
  - inversion E. apply mlen_nonneg.
Qed.

(* items of an array, one after the other *)
Lemma fill_items_safe rec isz : 0 <= isz ->
  forall l off m, 0 <= off -> off + isz * mlen l <= mlen m ->
  (forall x off' m', 0 <= off' -> off' + isz <= mlen m' -> safe off' (off' + isz) (rec off' x m') m') ->
  safe off (off + isz * mlen l) (fill_items rec off isz l m) m.
Proof.
  intros Hi. induction l as [|x l IH]; intros off m Ho Hb Hrec; cbn [fill_items].
  - apply safe_ok.
  - assert (mlen (x :: l) = 1 + mlen l) by (unfold mlen; cbn [length]; lia).
    pose proof (mlen_nonneg l).
    apply safe_bind_mem.
    + apply (safe_weaken off (off + isz)); [lia|nia|]. apply Hrec; nia.
    + intros m1 E. apply (safe_weaken (off + isz) (off + isz + isz * mlen l)); [lia|nia|]. apply IH.
      * lia.
      * rewrite E. nia.
      * exact Hrec.
Qed.

Lemma one_byte_size item : one_byte_item item = true -> lsize item = 1.
Proof.
  destruct item as [k s| |]; try discriminate. cbn. destruct k; try discriminate; apply Z.eqb_eq.
Qed.

Lemma flat_map_le_len isz src : 0 <= isz -> mlen (flat_map (le_bytes isz) src) = isz * mlen src.
Proof.
  intros H. induction src as [|c src IH]; cbn [flat_map]; [unfold mlen; cbn; lia|].
  rewrite mlen_app, IH, le_bytes_len by lia. unfold mlen. cbn [length]. lia.
Qed.

Lemma mlen_snoc (b : list Z) : mlen (b ++ [0]) = mlen b + 1.
Proof. rewrite mlen_app. reflexivity. Qed.

(* convert_array_from_object stays inside `cap` items, where cap is the declared length, or for
   `T[]` the length get_new_array_length computes from the same initialiser *)
Lemma fill_array_safe rec item len cap off v m :
  0 < lsize item -> 0 <= off -> 0 <= cap ->
  (0 <= len -> cap = len) ->
  (len < 0 -> exists b, get_new_array_length (lsize item) v = Ok (cap, b)) ->
  off + lsize item * cap <= mlen m ->
  (forall x off' m', 0 <= off' -> off' + lsize item <= mlen m' ->
     safe off' (off' + lsize item) (rec off' x m') m') ->
  safe off (off + lsize item * cap) (fill_array rec item len off v m) m.
Proof.
  intros Hi Ho Hc Hfix Hflex Hb Hrec. unfold fill_array.
  destruct v as [z|e4 e8|b|c|l|kv|same data alen|a|]; try (apply safe_err; discriminate).
  - (* bytes *)
    destruct (one_byte_item item) eqn:H1; [|apply safe_err; discriminate].
    rewrite (one_byte_size _ H1) in *.
    apply safe_bind.
    { intros e. destruct (C15.Model.convert_array _ _ _) eqn:Ec; [discriminate|].
      cbn. intros E; inversion E. eapply c15_convert_err; exact Ec. }
    intros src Ec. destruct (C15.Model.convert_array _ _ _) as [us|e] eqn:Ecv; [|discriminate].
    cbn in Ec. inversion Ec; subst us. clear Ec.
    apply c15_convert_len in Ecv. cbv zeta in Ecv. destruct Ecv as (Hlong & Hlen).
    match goal with |- context [if ?c then Err ValueError else _] => destruct c end;
      [apply safe_err; discriminate|].
    apply write_safe_in; try lia. rewrite Hlen.
    set (n := C15.Model.new_array_length C15.Model.E8 (C15.Model.PBytes b) - 1) in *.
    assert (Hn : 0 <= n) by (pose proof (new_array_length_pos C15.Model.E8 (C15.Model.PBytes b)); lia).
    destruct (Z.eqb_spec n len) as [E|NE].
    + destruct (Z.leb_spec 0 len); [rewrite <- (Hfix ltac:(lia)) in E; lia|lia].
    + destruct (Z.leb_spec 0 len) as [Hl|Hl].
      * rewrite (Hfix Hl) in *. destruct (Z.ltb_spec len n); [discriminate|]. lia.
      * destruct (Hflex Hl) as (bb & E). unfold get_new_array_length in E. apply ok_pair_inj in E; destruct E as (E1 & E2).
        change (ety_of 1) with C15.Model.E8 in *. lia.
  - (* str *)
    destruct (wide_char_item item) eqn:H1; [|apply safe_err; discriminate].
    cbv zeta.
    apply safe_bind.
    { intros e. destruct (C15.Model.convert_array _ _ _) eqn:Ec; [discriminate|].
      cbn. intros E; inversion E. eapply c15_convert_err; exact Ec. }
    intros src Ec. destruct (C15.Model.convert_array _ _ _) as [us|e] eqn:Ecv; [|discriminate].
    cbn in Ec. inversion Ec; subst us. clear Ec.
    apply c15_convert_len in Ecv. cbv zeta in Ecv. destruct Ecv as (Hlong & Hlen).
    apply write_safe_in; try lia. rewrite flat_map_le_len by lia. rewrite Hlen.
    set (n := C15.Model.new_array_length (ety_of (lsize item)) (C15.Model.PStr c) - 1) in *.
    assert (Hn : 0 <= n) by (pose proof (new_array_length_pos (ety_of (lsize item)) (C15.Model.PStr c)); lia).
    destruct (Z.eqb_spec n len) as [E|NE].
    + destruct (Z.leb_spec 0 len); [rewrite <- (Hfix ltac:(lia)) in E; nia|lia].
    + destruct (Z.leb_spec 0 len) as [Hl|Hl].
      * rewrite (Hfix Hl) in *. destruct (Z.ltb_spec len n); [discriminate|]. nia.
      * destruct (Hflex Hl) as (bb & E). unfold get_new_array_length in E. apply ok_pair_inj in E; destruct E as (E1 & E2). nia.
  - (* list / tuple *)
    destruct ((0 <=? len) && (len <? mlen l)) eqn:Hlong; [apply safe_err; discriminate|].
    pose proof (mlen_nonneg l).
    assert (Hl : mlen l <= cap).
    { destruct (Z.leb_spec 0 len) as [Hl|Hl].
      - rewrite (Hfix Hl) in *. destruct (Z.ltb_spec len (mlen l)); [discriminate|]. lia.
      - destruct (Hflex Hl) as (bb & E). cbn in E. inversion E. lia. }
    apply (safe_weaken off (off + lsize item * mlen l)); [lia|nia|].
    apply fill_items_safe; try lia; [nia|exact Hrec].
  - (* cdata *)
    destruct same; [|apply safe_err; discriminate].
    destruct (Z.leb_spec 0 len) as [Hl|Hl].
    + apply write_safe_in; try lia. rewrite (Hfix Hl) in *.
      pose proof (firstn_mlen (len * lsize item) data ltac:(nia)). nia.
    + destruct (Hflex Hl) as (bb & E). discriminate E.
Qed.

(* ------------------------------------------------------------------ well-formedness, unpacked *)

Definition field_wf (size : Z) (var : bool) (f : lfield) : Prop :=
  wf_type (lf_type f) = true /\ 0 <= lf_off f /\
  (if is_flex (lf_type f) then lf_off f <= size /\ var = true /\ lf_shift f < 0
   else lf_off f + lsize (lf_type f) <= size) /\
  (0 <= lf_shift f -> exists k s, lf_type f = LPrim k s /\
                       0 < lf_bits f /\ lf_shift f + lf_bits f <= 8 * s /\ s <= 8) /\
  (agg_var (lf_type f) = true -> var = true).

Lemma wf_fields size var (fs : list (ltype * Z * Z * Z * Z)) :
  (fix all (fs : list (ltype * Z * Z * Z * Z)) : bool :=
     match fs with
     | [] => true
     | (ft, off, shift, bits, flags) :: fs' =>
         wf_type ft && (0 <=? off) &&
         (if is_flex ft then (off <=? size) && var && (shift <? 0)
          else off + lsize ft <=? size) &&
         (if 0 <=? shift
          then match ft with
               | LPrim _ s => (0 <? bits) && (shift + bits <=? 8 * s) && (s <=? 8)
               | _ => false
               end
          else true) &&
         (if agg_var ft then var else true) &&
         all fs'
     end) fs = true ->
  Forall (field_wf size var) fs.
Proof.
  induction fs as [|[[[[ft off] shift] bits] flags] fs IH]; intros H; [constructor|].
  rewrite !andb_true_iff in H. destruct H as (((((H1 & H2) & H3) & H4) & H5) & H6).
  constructor; [|apply IH; exact H6].
  unfold field_wf, lf_type, lf_off, lf_shift, lf_bits; cbn [fst snd].
  split; [exact H1|]. split; [apply Z.leb_le; exact H2|]. split; [|split].
  - destruct (is_flex ft).
    + rewrite !andb_true_iff in H3. destruct H3 as ((A & B) & C).
      split; [apply Z.leb_le; exact A|]. split; [exact B|apply Z.ltb_lt; exact C].
    + apply Z.leb_le. exact H3.
  - intros Hs. destruct (Z.leb_spec 0 shift); [|lia]. destruct ft as [k s| |]; try discriminate.
    rewrite !andb_true_iff in H4. destruct H4 as ((A & B) & C).
    exists k, s. repeat split; [apply Z.ltb_lt; exact A|apply Z.leb_le; exact B|apply Z.leb_le; exact C].
  - intros Hv. rewrite Hv in H5. exact H5.
Qed.

Lemma nvi_fields (fs : list (ltype * Z * Z * Z * Z)) :
  (fix all (fs : list (ltype * Z * Z * Z * Z)) : bool :=
     match fs with
     | [] => true
     | (ft, _, _, _, _) :: fs' => no_var_items ft && all fs'
     end) fs = true ->
  Forall (fun f => no_var_items (lf_type f) = true) fs.
Proof.
  induction fs as [|[[[[ft off] shift] bits] flags] fs IH]; intros H; [constructor|].
  rewrite andb_true_iff in H. destruct H. constructor; [assumption|apply IH; assumption].
Qed.

Lemma wf_nonflex_size t : wf_type t = true -> is_flex t = false -> 0 <= lsize t.
Proof.
  destruct t as [k s|item len|size var fs]; cbn [wf_type is_flex lsize]; intros H F.
  - apply Z.ltb_lt in H. lia.
  - rewrite F. rewrite !andb_true_iff in H. destruct H as ((_ & A) & _). apply Z.ltb_lt in A.
    apply Z.ltb_ge in F. nia.
  - rewrite andb_true_iff in H. destruct H as (A & _). apply Z.leb_le. exact A.
Qed.

(* ------------------------------------------------------------------ what the sizing pass promises *)

Definition need (fuel : nat) (t : ltype) (v : pyval) : res Z :=
  match t with
  | LAgg size true fs => if is_cdata v then Ok size else size_struct fuel fs v size
  | _ => Ok (lsize t)
  end.

Lemma need_nonvar fuel t v : agg_var t = false -> need fuel t v = Ok (lsize t).
Proof. destruct t as [| |size var fs]; try reflexivity. cbn. intros ->. reflexivity. Qed.

Definition P (fuel : nat) : Prop := forall t off v m n,
  wf_type t = true -> 0 <= lsize t -> 0 <= off ->
  need fuel t v = Ok n -> off + n <= mlen m -> safe off (off + n) (fill fuel t off v m) m.

Lemma add_varsize_ok off isz len o o' :
  add_varsize_length off isz len o = Ok o' -> o <= o' /\ off + isz * len <= o'.
Proof.
  unfold add_varsize_length. destruct (SSIZE_MAX <? off + isz * len); [discriminate|].
  intros E. inversion E. lia.
Qed.

Lemma list_mono (G : lfield -> pyval -> Z -> res Z) :
  (forall f x o o2, G f x o = Ok o2 -> o <= o2) ->
  forall l fs o n, struct_from_list G fs l o = Ok n -> o <= n.
Proof.
  intros HG. induction l as [|x l IH]; intros fs o n; cbn [struct_from_list].
  - intros E. inversion E. lia.
  - destruct (skip_ignored fs) as [|f fs2]; [discriminate|].
    destruct (G f x o) as [o2|] eqn:E; cbn [bind]; [|discriminate].
    intros Hs. apply HG in E. apply IH in Hs. lia.
Qed.

Lemma dict_mono (G : lfield -> pyval -> Z -> res Z) fs :
  (forall f x o o2, G f x o = Ok o2 -> o <= o2) ->
  forall kv o n, struct_from_dict G fs kv o = Ok n -> o <= n.
Proof.
  intros HG. induction kv as [|[k x] kv IH]; intros o n; cbn [struct_from_dict].
  - intros E. inversion E. lia.
  - destruct (if k <? 0 then None else nth_error fs (Z.to_nat k)) as [f|]; [|discriminate].
    destruct (G f x o) as [o2|] eqn:E; cbn [bind]; [|discriminate].
    intros Hs. apply HG in E. apply IH in Hs. lia.
Qed.

Lemma list_noseg (G : lfield -> pyval -> Z -> res Z) :
  (forall f x o, G f x o <> Err SegV) ->
  forall l fs o, struct_from_list G fs l o <> Err SegV.
Proof.
  intros HG. induction l as [|x l IH]; intros fs o; cbn [struct_from_list]; [discriminate|].
  destruct (skip_ignored fs) as [|f fs2]; [discriminate|].
  pose proof (HG f x o). destruct (G f x o) as [o2|e]; cbn [bind]; [apply IH|congruence].
Qed.

Lemma dict_noseg (G : lfield -> pyval -> Z -> res Z) fs :
  (forall f x o, G f x o <> Err SegV) ->
  forall kv o, struct_from_dict G fs kv o <> Err SegV.
Proof.
  intros HG. induction kv as [|[k x] kv IH]; intros o; cbn [struct_from_dict]; [discriminate|].
  destruct (if k <? 0 then None else nth_error fs (Z.to_nat k)) as [f|]; [|discriminate].
  pose proof (HG f x o). destruct (G f x o) as [o2|e]; cbn [bind]; [apply IH|congruence].
Qed.

Lemma add_varsize_noseg off isz len o : add_varsize_length off isz len o <> Err SegV.
Proof. unfold add_varsize_length. destruct (SSIZE_MAX <? off + isz * len); discriminate. Qed.

Lemma size_field_mono rec fld x o o2 : size_field rec fld x o = Ok o2 -> o <= o2.
Proof.
  unfold size_field. destruct (is_flex (lf_type fld)).
  - destruct (get_new_array_length _ x); cbn [bind]; [|discriminate].
    intros E. apply add_varsize_ok in E. lia.
  - destruct (agg_var (lf_type fld) && negb (is_cdata x)).
    + destruct (rec _ x _); cbn [bind]; [|discriminate].
      intros E. apply add_varsize_ok in E. lia.
    + intros E. inversion E. lia.
Qed.

Lemma size_struct_lower fuel fs v opt n : size_struct fuel fs v opt = Ok n -> opt <= n.
Proof.
  destruct fuel as [|f]; cbn [size_struct]; [discriminate|].
  destruct v; try discriminate; cbn [struct_from_object].
  - apply list_mono. intros fld x o o2. apply size_field_mono.
  - apply dict_mono. intros fld x o o2. apply size_field_mono.
Qed.

(* the sizing pass writes nothing *)
Lemma size_struct_noseg fuel : forall fs v opt, size_struct fuel fs v opt <> Err SegV.
Proof.
  induction fuel as [|f IH]; intros fs v opt; cbn [size_struct]; [discriminate|].
  assert (HG : forall fld x o, size_field (size_struct f) fld x o <> Err SegV).
  { intros fld x o. unfold size_field. destruct (is_flex (lf_type fld)).
    - pose proof (gnal_err (lsize (item_of (lf_type fld))) x). destruct (get_new_array_length _ x) as [lb|e]; cbn [bind];
        [apply add_varsize_noseg|]. intros E. inversion E. subst e. exact (H SegV eq_refl eq_refl).
    - destruct (agg_var (lf_type fld) && negb (is_cdata x)); [|discriminate].
      pose proof (IH (agg_fields (lf_type fld)) x (lsize (lf_type fld))).
      destruct (size_struct f _ x _); cbn [bind]; [apply add_varsize_noseg|congruence]. }
  destruct v; try discriminate; cbn [struct_from_object].
  - apply list_noseg. exact HG.
  - apply dict_noseg. exact HG.
Qed.


(* an array item behind the guard of convert_array_from_object: the sizing pass of the item's own
   initialiser must not ask for more than ct_size, which is exactly what the item has *)
Lemma guarded_item_safe f (IH : P f) item x off m :
  wf_type item = true -> 0 < lsize item -> 0 <= off -> off + lsize item <= mlen m ->
  safe off (off + lsize item) (bind (item_guard f item x) (fun _ => fill f item off x m)) m.
Proof.
  intros Hwf Hsz Ho Hb. unfold item_guard.
  (* this is where the order fact is used: the flag the guard reads is the real one *)
  change flag_visible with true. cbn [andb].
  destruct (agg_var item && negb (is_cdata x)) eqn:Eg; cbn [bind].
  - rewrite andb_true_iff, negb_true_iff in Eg. destruct Eg as (Ev & Ec).
    destruct item as [| |size var fs]; try discriminate. cbn in Ev. subst var. cbn [agg_fields lsize] in *.
    pose proof (size_struct_noseg f fs x size) as Hns.
    destruct (size_struct f fs x size) as [n|e] eqn:Es; cbn [bind]; [|apply safe_err; congruence].
    destruct (Z.ltb_spec size n); cbn [bind]; [apply safe_err; discriminate|].
    apply (safe_weaken off (off + n)); [lia|lia|].
    apply (IH (LAgg size true fs) off x m n); auto; try (cbn; lia).
    cbn [need]. rewrite Ec. exact Es.
  - apply (IH item off x m (lsize item)); auto; try lia.
    destruct item as [| |size var fs]; try reflexivity. cbn [need lsize].
    destruct var; [|reflexivity]. cbn in Eg. rewrite negb_false_iff in Eg. rewrite Eg. reflexivity.
Qed.

(* one field, given safety of the conversions at smaller fuel *)
Lemma fill_field_safe f (IHf : forall f', (f' <= f)%nat -> P f') size var off m fld x :
  field_wf size var fld -> 0 <= off ->
  (is_flex (lf_type fld) = true -> forall cap b,
     get_new_array_length (lsize (item_of (lf_type fld))) x = Ok (cap, b) -> 0 <= cap ->
     off + lf_off fld + lsize (item_of (lf_type fld)) * cap <= mlen m ->
     safe (off + lf_off fld) (off + lf_off fld + lsize (item_of (lf_type fld)) * cap)
          (fill_field (fill f) off fld x m) m) /\
  (is_flex (lf_type fld) = false -> forall n, need f (lf_type fld) x = Ok n ->
     off + lf_off fld + n <= mlen m ->
     safe (off + lf_off fld) (off + lf_off fld + n) (fill_field (fill f) off fld x m) m).
Proof.
  intros (Hwf & Hoff & Hpl & Hbf & Hv) Ho. unfold fill_field. split.
  - intros Hfl cap b Hg Hcap Hb. rewrite Hfl in *. destruct Hpl as (_ & _ & Hsh).
    rewrite Hg. cbn [bind snd]. destruct b; [apply safe_ok|].
    destruct (Z.leb_spec 0 (lf_shift fld)); [lia|].
    destruct (lf_type fld) as [|item len|] eqn:Et; try discriminate. cbn [is_flex] in Hfl.
    apply Z.ltb_lt in Hfl. cbn [item_of] in Hb.
    cbn [wf_type] in Hwf. rewrite !andb_true_iff in Hwf. destruct Hwf as ((Hwi & Hsz) & _).
    apply Z.ltb_lt in Hsz.
    destruct f as [|f1]; [apply safe_err; discriminate|]. cbn [fill].
    apply (fill_array_safe _ item len cap); try lia; eauto.
    intros x' off' m' Ho' Hb'. apply guarded_item_safe; auto; apply IHf; lia.
  - intros Hfl n Hn Hb. rewrite Hfl in *.
    assert (Hsz : 0 <= lsize (lf_type fld)) by (apply wf_nonflex_size; assumption).
    destruct (Z.leb_spec 0 (lf_shift fld)) as [Hs|Hs].
    + destruct (Hbf Hs) as (k & s & Et & Hb0 & Hfit & Hs8). rewrite Et in *. cbn [need lsize] in Hn. inversion Hn; subst n.
      cbn [wf_type] in Hwf. apply Z.ltb_lt in Hwf.
      destruct (Z.leb_spec 64 (lf_bits fld)).
      * apply (IHf f ltac:(lia) (LPrim k s) _ x m s); auto; try lia. cbn. apply Z.ltb_lt. exact Hwf.
      * apply safe_bind.
        -- intros e. apply conv_bitfield_err; lia.
        -- intros bs E. apply conv_bitfield_len in E; [|lia|lia|lia].
           apply write_safe_in; lia.
    + apply (IHf f ltac:(lia) (lf_type fld) _ x m n); auto; lia.
Qed.

(* ------------------------------------------------------------------ the two loops of convert_struct_from_object *)

Lemma skip_incl fs : incl (skip_ignored fs) fs.
Proof.
  induction fs as [|f fs IH]; cbn [skip_ignored]; [apply incl_refl|].
  destruct (ignore_in_ctor f); [apply incl_tl; exact IH|apply incl_refl].
Qed.

Section Loops.
  Variable fs0 : list lfield.
  Variable F : lfield -> pyval -> mem -> res mem.
  Variable m0 : mem.
  Variables (lo hi : Z).

  (* every field's conversion is safe whatever the value: fixed-size structs *)
  Hypothesis Fsafe : forall f x m', In f fs0 -> mlen m' = mlen m0 -> safe lo hi (F f x m') m'.

  Lemma simple_list l : forall fs m', incl fs fs0 -> mlen m' = mlen m0 ->
    safe lo hi (struct_from_list F fs l m') m'.
  Proof.
    induction l as [|x l IH]; intros fs m' Hi Hm; cbn [struct_from_list]; [apply safe_ok|].
    pose proof (skip_incl fs) as Hs. destruct (skip_ignored fs) as [|f fs']; [apply safe_err; discriminate|].
    assert (In f fs0) by (apply Hi, Hs; left; reflexivity).
    apply safe_bind_mem; [apply Fsafe; assumption|].
    intros m1 E. apply IH; [|lia]. intros g Hg. apply Hi, Hs. right. exact Hg.
  Qed.

  Lemma simple_dict kv : forall m', mlen m' = mlen m0 -> safe lo hi (struct_from_dict F fs0 kv m') m'.
  Proof.
    induction kv as [|[k x] kv IH]; intros m' Hm; cbn [struct_from_dict]; [apply safe_ok|].
    destruct (if k <? 0 then None else nth_error fs0 (Z.to_nat k)) as [f|] eqn:E;
      [|apply safe_err; discriminate].
    assert (In f fs0) by (destruct (k <? 0); [discriminate|eapply nth_error_In; exact E]).
    apply safe_bind_mem; [apply Fsafe; assumption|].
    intros m1 E1. apply IH. lia.
  Qed.
End Loops.

Section JointLoops.
  Variable fs0 : list lfield.
  Variable G : lfield -> pyval -> Z -> res Z.              (* sizing pass, per field *)
  Variable F : lfield -> pyval -> mem -> res mem.          (* filling pass, per field *)
  Variable m0 : mem.
  Variables (off lob : Z).
  Variables (lo hi : Z).

  (* the sizing of a field only raises the size, and a block of at least that size makes the
     filling of the same field with the same value safe *)
  Hypothesis GF : forall f x o o' m', In f fs0 -> lob <= o -> G f x o = Ok o' ->
    o <= o' /\ (off + o' <= hi -> mlen m' = mlen m0 -> safe lo hi (F f x m') m').

  Lemma joint_list l : forall fs opt m' n, incl fs fs0 -> lob <= opt -> mlen m' = mlen m0 ->
    struct_from_list G fs l opt = Ok n -> off + n <= hi ->
    opt <= n /\ safe lo hi (struct_from_list F fs l m') m'.
  Proof.
    induction l as [|x l IH]; intros fs opt m' n Hi Hlo Hm Hs Hb; cbn [struct_from_list] in *.
    - inversion Hs. split; [lia|apply safe_ok].
    - pose proof (skip_incl fs) as Hsk. destruct (skip_ignored fs) as [|f fs']; [discriminate|].
      assert (Hin : In f fs0) by (apply Hi, Hsk; left; reflexivity).
      destruct (G f x opt) as [o'|] eqn:Eg; cbn [bind] in Hs; [|discriminate].
      destruct (GF f x opt o' m' Hin Hlo Eg) as (Hle & Hsafe).
      assert (Hi' : incl fs' fs0) by (intros g Hg; apply Hi, Hsk; right; exact Hg).
      assert (Hrest : forall m1, mlen m1 = mlen m0 -> o' <= n /\ safe lo hi (struct_from_list F fs' l m1) m1)
        by (intros m1 E1; apply (IH fs' o' m1 n); auto; lia).
      destruct (Hrest m' Hm) as (Hon & _). split; [lia|].
      apply safe_bind_mem; [apply Hsafe; lia|].
      intros m1 E1. apply Hrest. lia.
  Qed.

  Lemma joint_dict kv : forall opt m' n, lob <= opt -> mlen m' = mlen m0 ->
    struct_from_dict G fs0 kv opt = Ok n -> off + n <= hi ->
    opt <= n /\ safe lo hi (struct_from_dict F fs0 kv m') m'.
  Proof.
    induction kv as [|[k x] kv IH]; intros opt m' n Hlo Hm Hs Hb; cbn [struct_from_dict] in *.
    - inversion Hs. split; [lia|apply safe_ok].
    - destruct (if k <? 0 then None else nth_error fs0 (Z.to_nat k)) as [f|] eqn:E; [|discriminate].
      assert (Hin : In f fs0) by (destruct (k <? 0); [discriminate|eapply nth_error_In; exact E]).
      destruct (G f x opt) as [o'|] eqn:Eg; cbn [bind] in Hs; [|discriminate].
      destruct (GF f x opt o' m' Hin Hlo Eg) as (Hle & Hsafe).
      assert (Hrest : forall m1, mlen m1 = mlen m0 -> o' <= n /\ safe lo hi (struct_from_dict F fs0 kv m1) m1)
        by (intros m1 E1; apply (IH o' m1 n); auto; lia).
      destruct (Hrest m' Hm) as (Hon & _). split; [lia|].
      apply safe_bind_mem; [apply Hsafe; lia|].
      intros m1 E1. apply Hrest. lia.
  Qed.
End JointLoops.

(* ------------------------------------------------------------------ the induction *)

(* the per-field obligations of the joint loops, for a var-sized struct *)
Lemma var_field_step f (IHf : forall f', (f' <= f)%nat -> P f') size fs off (m : mem) n :
  (forall x, In x fs -> field_wf size true x) -> 0 <= off -> size <= n -> off + n <= mlen m ->
  forall fld x o o2 m', In fld fs -> size <= o ->
    size_field (size_struct f) fld x o = Ok o2 ->
    o <= o2 /\ (off + o2 <= off + n -> mlen m' = mlen m ->
               safe off (off + n) (fill_field (fill f) off fld x m') m').
Proof.
  intros Hfs Ho Hsn Hb fld x o o2 m' Hin Hlo E.
  destruct (fill_field_safe f IHf size true off m' fld x (Hfs fld Hin) Ho) as (S1 & S2).
  pose proof (Hfs fld Hin) as (_ & Hoff & Hpl & _ & _).
  unfold size_field in E. destruct (is_flex (lf_type fld)) eqn:Efl.
  - destruct (get_new_array_length _ x) as [[cap b]|] eqn:Eg; cbn [bind fst] in E; [|discriminate].
    apply add_varsize_ok in E. split; [lia|]. intros Hb2 Hm2.
    eapply safe_weaken; [| |apply (S1 eq_refl cap b eq_refl)]; try lia.
    eapply gnal_nonneg; exact Eg.
  - destruct (agg_var (lf_type fld) && negb (is_cdata x)) eqn:Eav.
    + destruct (size_struct f (agg_fields (lf_type fld)) x (lsize (lf_type fld))) as [sub|] eqn:Es;
        cbn [bind] in E; [|discriminate].
      apply add_varsize_ok in E. split; [lia|]. intros Hb2 Hm2.
      eapply safe_weaken; [| |apply (S2 eq_refl sub)]; try lia.
      rewrite andb_true_iff, negb_true_iff in Eav. destruct Eav as (Eav & Ecd).
      destruct (lf_type fld) as [| |s2 v2 fs2]; try discriminate. cbn in Eav. subst v2.
      cbn [need]. rewrite Ecd. exact Es.
    + inversion E; subst o2. split; [lia|]. intros Hb2 Hm2.
      eapply safe_weaken; [| |apply (S2 eq_refl (lsize (lf_type fld)))]; try lia.
      destruct (lf_type fld) as [| |s2 v2 fs2]; try reflexivity.
      cbn [need lsize]. destruct v2; [|reflexivity]. cbn in Eav. rewrite negb_false_iff in Eav.
      rewrite Eav. reflexivity.
Qed.

Lemma fixed_field_step f (IHf : forall f', (f' <= f)%nat -> P f') size fs off (m : mem) :
  (forall x, In x fs -> field_wf size false x) -> 0 <= off -> off + size <= mlen m ->
  forall fld x m', In fld fs -> mlen m' = mlen m ->
    safe off (off + size) (fill_field (fill f) off fld x m') m'.
Proof.
  intros Hfs Ho Hb fld x m' Hin Hm'. pose proof (Hfs fld Hin) as Hw.
  pose proof Hw as (_ & Hoff & Hpl & _ & Hhv).
  destruct (fill_field_safe f IHf size false off m' fld x Hw Ho) as (_ & S2).
  destruct (is_flex (lf_type fld)) eqn:Efl; [destruct Hpl as (_ & Hc & _); discriminate|].
  eapply safe_weaken; [| |apply (S2 eq_refl (lsize (lf_type fld)))]; try lia.
  apply need_nonvar. destruct (agg_var (lf_type fld)); [discriminate (Hhv eq_refl)|reflexivity].
Qed.

Lemma P_all : forall N fuel, (fuel <= N)%nat -> P fuel.
Proof.
  induction N as [|N IHN]; intros fuel Hf.
  - assert (fuel = 0%nat) as -> by lia. intros t off v m n _ _ _ _ _. apply safe_err. discriminate.
  - destruct fuel as [|f]; [intros t off v m n _ _ _ _ _; apply safe_err; discriminate|].
    assert (IHf : forall f', (f' <= f)%nat -> P f') by (intros; apply IHN; lia).
    intros t off v m n Hwf Hsz Ho Hneed Hb.
    destruct t as [k s|item len|size var fs]; cbn [fill].
    + (* primitive *)
      cbn in Hneed. inversion Hneed; subst n. cbn [wf_type] in Hwf. apply Z.ltb_lt in Hwf.
      apply safe_bind; [intros e; apply conv_prim_err|].
      intros bs E. pose proof (conv_prim_len _ _ _ _ _ Hwf E). apply write_safe_in; lia.
    + (* array of known length *)
      cbn [lsize] in Hsz. destruct (Z.ltb_spec len 0); [lia|].
      cbn [need lsize] in Hneed. destruct (Z.ltb_spec len 0); [lia|]. inversion Hneed; subst n.
      cbn [wf_type] in Hwf. rewrite !andb_true_iff in Hwf. destruct Hwf as ((Hwi & Hisz) & _).
      apply Z.ltb_lt in Hisz.
      eapply safe_weaken; [| |apply (fill_array_safe _ item len len)]; try lia.
      intros x' off' m' Ho' Hb'. apply guarded_item_safe; auto; apply IHf; lia.
    + (* struct / union *)
      cbn [wf_type] in Hwf. rewrite andb_true_iff in Hwf. destruct Hwf as (Hs0 & Hfs).
      apply Z.leb_le in Hs0. apply wf_fields in Hfs.
      rewrite Forall_forall in Hfs.
      assert (Hsize_n : size <= n).
      { cbn [need] in Hneed. destruct var; [|inversion Hneed; cbn; lia].
        destruct (is_cdata v); [inversion Hneed; lia|].
        eapply size_struct_lower. exact Hneed. }
      destruct v as [z|e4 e8|b|c|l|kv|same data alen|a|];
        try (cbn [struct_from_object]; apply safe_err; discriminate).
      * (* positional *)
        cbn [struct_from_object].
        destruct var.
        -- cbn [need is_cdata size_struct struct_from_object] in Hneed.
           refine (proj2 (joint_list fs (size_field (size_struct f)) (fill_field (fill f) off) m off size
                            off (off + n) _ l fs size m n (incl_refl _) (Z.le_refl _) eq_refl Hneed (Z.le_refl _))).
           intros fld x o o2 m' Hin Hlo E.
           apply (var_field_step f IHf size fs off m n); auto.
        -- cbn [need lsize] in Hneed. inversion Hneed; subst n.
           apply (simple_list fs (fill_field (fill f) off) m); [|apply incl_refl|reflexivity].
           intros fld x m' Hin Hm'. apply (fixed_field_step f IHf size fs off m); auto.
      * (* by name *)
        cbn [struct_from_object].
        destruct var.
        -- cbn [need is_cdata size_struct struct_from_object] in Hneed.
           refine (proj2 (joint_dict fs (size_field (size_struct f)) (fill_field (fill f) off) m off size
                            off (off + n) _ kv size m n (Z.le_refl _) eq_refl Hneed (Z.le_refl _))).
           intros fld x o o2 m' Hin Hlo E.
           apply (var_field_step f IHf size fs off m n); auto.
        -- cbn [need lsize] in Hneed. inversion Hneed; subst n.
           apply (simple_dict fs (fill_field (fill f) off) m); [|reflexivity].
           intros fld x m' Hin Hm'. apply (fixed_field_step f IHf size fs off m); auto.
      * (* same-type struct cdata: memcpy of ct_size bytes *)
        destruct same; [|cbn [struct_from_object]; apply safe_err; discriminate].
        destruct (Z.leb_spec 0 size); [|apply safe_err; discriminate].
        pose proof (firstn_mlen size data ltac:(lia)). apply write_safe_in; lia.
Qed.

(* ------------------------------------------------------------------ ffi.new never writes outside its block *)

Lemma mlen_zeros n : mlen (zeros n) = Z.max 0 n.
Proof. unfold mlen, zeros. rewrite repeat_length. lia. Qed.

(* ffi.new("T *", init) never writes outside the block it allocated *)
Theorem new_ptr_safe fuel t init : wf_type t = true ->
  new_bytes fuel (NewPtr t) init <> Err SegV.
Proof.
  intros Hwf. unfold new_bytes. cbn [alloc_size new_init new_target].
  destruct (Z.ltb_spec (lsize t) 0) as [|Hsz]; [cbn; discriminate|].
  set (datasize := match t with LPrim KChar _ => lsize t * 2 | _ => lsize t end).
  assert (Hds : lsize t <= datasize) by (subst datasize; destruct t as [[] ?| |]; lia).
  replace (match init with VInt _ => init | _ => init end) with init by (destruct init; reflexivity).
  destruct (agg_var t && negb (match init with VNone => true | _ => false end)) eqn:Ev.
  - rewrite andb_true_iff, negb_true_iff in Ev. destruct Ev as (Ev & Hinit).
    destruct t as [| |size var fs]; try discriminate. cbn in Ev. subst var. cbn [agg_fields lsize] in *.
    subst datasize.
    pose proof (size_struct_noseg fuel fs init size) as Hns.
    destruct (size_struct fuel fs init size) as [n|e] eqn:Es; cbn [bind]; [|congruence].
    destruct (MAX_ALLOC <? n); [discriminate|].
    pose proof (size_struct_lower _ _ _ _ _ Es).
    assert (Hsafe : safe 0 (0 + n) (fill fuel (LAgg size true fs) 0 init (zeros n)) (zeros n)).
    { apply (P_all fuel fuel (le_n _) _ 0 init (zeros n) n); auto; try lia.
      - cbn [need]. destruct (is_cdata init) eqn:Ec; [|exact Es].
        destruct init; try discriminate. destruct fuel; cbn in Es; discriminate.
      - rewrite mlen_zeros. lia. }
    destruct init; try (exact (proj1 Hsafe)). discriminate.
  - cbn [bind]. destruct (MAX_ALLOC <? datasize); [discriminate|].
    destruct (match init with VNone => true | _ => false end) eqn:Hnone;
      [destruct init; try discriminate Hnone; discriminate|].
    assert (Hhv : agg_var t = false) by (destruct (agg_var t); [discriminate Ev|reflexivity]).
    assert (Hsafe : safe 0 (0 + lsize t) (fill fuel t 0 init (zeros datasize)) (zeros datasize)).
    { apply (P_all fuel fuel (le_n _) t 0 init (zeros datasize) (lsize t)); auto; try lia.
      - apply need_nonvar. exact Hhv.
      - rewrite mlen_zeros. lia. }
    destruct init; try (exact (proj1 Hsafe)). discriminate.
Qed.

(* ffi.new("T[len]", init) and ffi.new("T[]", init) *)
Theorem new_arr_safe fuel item len init :
  wf_type (LArr item len) = true ->
  new_bytes fuel (NewArr item len) init <> Err SegV.
Proof.
  intros Hwf. unfold new_bytes. cbn [alloc_size new_init new_target].
  pose proof Hwf as Hwf2. cbn [wf_type] in Hwf2. rewrite !andb_true_iff in Hwf2.
  destruct Hwf2 as ((Hwi & Hisz) & Hlen). apply Z.ltb_lt in Hisz.
  destruct (Z.ltb_spec len 0) as [Hneg|Hpos].
  - pose proof (gnal_err (lsize item) init) as Hge.
    destruct (get_new_array_length (lsize item) init) as [[cap b]|e] eqn:Eg; cbn [bind fst];
      [|intros E; inversion E; subst e; exact (Hge SegV eq_refl eq_refl)].
    destruct (SSIZE_MAX <? cap * lsize item); [discriminate|]. cbn [bind].
    destruct (MAX_ALLOC <? cap * lsize item); [discriminate|].
    pose proof (gnal_nonneg _ _ _ _ Eg) as Hcap.
    assert (Hsafe : safe 0 (0 + lsize item * cap) (fill fuel (LArr item len) 0 init (zeros (cap * lsize item))) (zeros (cap * lsize item))).
    { destruct fuel as [|f]; [apply safe_err; discriminate|]. cbn [fill].
      apply (fill_array_safe _ item len cap); try lia; eauto.
      - rewrite mlen_zeros. nia.
      - intros x off2 m2 Ho2 Hb2. apply guarded_item_safe; auto. apply (P_all f f (le_n _)). }
    destruct init; try (exact (proj1 Hsafe)); discriminate.
  - cbn [bind]. destruct (MAX_ALLOC <? len * lsize item); [discriminate|].
    assert (Hsafe : safe 0 (0 + len * lsize item) (fill fuel (LArr item len) 0 init (zeros (len * lsize item))) (zeros (len * lsize item))).
    { apply (P_all fuel fuel (le_n _) (LArr item len) 0 init _ (len * lsize item)); auto; try lia.
      - cbn [lsize]. destruct (Z.ltb_spec len 0); [lia|nia].
      - cbn [need lsize]. destruct (Z.ltb_spec len 0); [lia|reflexivity].
      - rewrite mlen_zeros. nia. }
    destruct init; try (exact (proj1 Hsafe)); discriminate.
Qed.

Theorem sizing_dominates fuel T init :
  wf_type (new_target T) = true -> new_bytes fuel T init <> Err SegV.
Proof.
  destruct T as [t|item len]; cbn [new_target]; [apply new_ptr_safe|apply new_arr_safe].
Qed.

(* an assignment into a block that is large enough for the type stays inside it and keeps its
   size: the frame half of "zero except where init writes" (for types that are not var-sized) *)
Theorem assign_safe fuel t off init m :
  wf_type t = true -> agg_var t = false -> 0 <= lsize t ->
  0 <= off -> off + lsize t <= mlen m ->
  safe off (off + lsize t) (fill fuel t off init m) m.
Proof.
  intros. apply (P_all fuel fuel (le_n _) t off init m (lsize t)); auto. apply need_nonvar. assumption.
Qed.

(* ------------------------------------------------------------------ frame: what an initialiser does not name stays as it was *)

Definition lookup_field (fs : list lfield) (k : Z) : option lfield :=
  if k <? 0 then None else nth_error fs (Z.to_nat k).

Section DictFrame.
  Variable fs0 : list lfield.
  Variable F : lfield -> pyval -> mem -> res mem.
  Variable m0 : mem.
  Variable off : Z.
  Hypothesis Fext : forall f x m', In f fs0 -> mlen m' = mlen m0 ->
    safe (off + lf_off f) (off + lf_off f + lsize (lf_type f)) (F f x m') m'.

  Lemma dict_frame kv : forall m' m'', mlen m' = mlen m0 ->
    struct_from_dict F fs0 kv m' = Ok m'' ->
    mlen m'' = mlen m0 /\
    forall i, 0 <= i ->
      (forall k x f, In (k, x) kv -> lookup_field fs0 k = Some f ->
         i < off + lf_off f \/ off + lf_off f + lsize (lf_type f) <= i) ->
      byte m'' i = byte m' i.
  Proof.
    induction kv as [|[k x] kv IH]; intros m' m'' Hm; cbn [struct_from_dict].
    - intros E. inversion E. subst m''. auto.
    - fold (lookup_field fs0 k). destruct (lookup_field fs0 k) as [f|] eqn:El; [|discriminate].
      assert (Hin : In f fs0).
      { unfold lookup_field in El. destruct (k <? 0); [discriminate|]. eapply nth_error_In; exact El. }
      destruct (Fext f x m' Hin Hm) as (_ & Hs).
      destruct (F f x m') as [m1|e]; cbn [bind]; [|discriminate].
      destruct (Hs m1 eq_refl) as (Hl1 & Hb1). intros E.
      destruct (IH m1 m'' ltac:(lia) E) as (Hl2 & Hb2). split; [exact Hl2|].
      intros i Hi Hout. rewrite Hb2.
      + apply Hb1; [exact Hi|]. apply (Hout k x f); [left; reflexivity|exact El].
      + exact Hi.
      + intros k2 x2 f2 Hin2 El2. apply (Hout k2 x2 f2); [right; exact Hin2|exact El2].
  Qed.
End DictFrame.

Lemma byte_zeros n i : byte (zeros n) i = 0.
Proof.
  unfold byte, zeros. destruct (Nat.lt_ge_cases (Z.to_nat i) (Z.to_nat n)).
  - apply nth_repeat.
  - apply nth_overflow. rewrite repeat_length. lia.
Qed.

(* ffi.new("struct T *", {name: value, ...}) on a fixed-size struct: every byte that is not inside
   a named member (for a bit-field: inside its storage unit) is zero *)
Theorem new_dict_unnamed_zero fuel size fs kv m :
  wf_type (LAgg size false fs) = true ->
  new_bytes fuel (NewPtr (LAgg size false fs)) (VDict kv) = Ok m ->
  mlen m = size /\
  forall i, 0 <= i ->
    (forall k x f, In (k, x) kv -> lookup_field fs k = Some f ->
       i < lf_off f \/ lf_off f + lsize (lf_type f) <= i) ->
    byte m i = 0.
Proof.
  intros Hwf. unfold new_bytes. cbn [alloc_size lsize agg_var andb bind new_init new_target].
  pose proof Hwf as Hwf2. cbn [wf_type] in Hwf2. rewrite andb_true_iff in Hwf2. destruct Hwf2 as (Hs0 & Hfs).
  apply Z.leb_le in Hs0. apply wf_fields in Hfs. rewrite Forall_forall in Hfs.
  destruct (Z.ltb_spec size 0); [lia|]. cbn [bind].
  destruct (MAX_ALLOC <? size); [discriminate|].
  destruct fuel as [|f]; [discriminate|]. cbn [fill struct_from_object]. intros E.
  assert (Hz : mlen (zeros size) = size) by (rewrite mlen_zeros; lia).
  destruct (dict_frame fs (fill_field (fill f) 0) (zeros size) 0) with (kv := kv) (m' := zeros size) (m'' := m)
    as (Hl & Hb); auto.
  - intros fld x m' Hin Hm'. pose proof (Hfs fld Hin) as Hw. pose proof Hw as (_ & Hoff & Hpl & _ & Hhv).
    destruct (fill_field_safe f (fun f' _ => P_all f' f' (le_n _)) size false 0 m' fld x Hw (Z.le_refl _)) as (_ & S2).
    destruct (is_flex (lf_type fld)) eqn:Efl; [destruct Hpl as (_ & Hc & _); discriminate|].
    apply (S2 eq_refl (lsize (lf_type fld))); [|lia].
    apply need_nonvar. destruct (agg_var (lf_type fld)); [discriminate (Hhv eq_refl)|reflexivity].
  - split; [lia|]. intros i Hi Hout. rewrite Hb; [apply byte_zeros|exact Hi|].
    intros k x fld Hin El. specialize (Hout k x fld Hin El). lia.
Qed.

(* ------------------------------------------------------------------ positional = keyword over the leading fields *)

Section Positional.
  Context {St : Type}.
  Variable F : lfield -> pyval -> St -> res St.
  Variable fs0 : list lfield.

  (* fs is the suffix of fs0 that starts at position b *)
  Definition suffix_at (b : Z) (fs : list lfield) : Prop :=
    0 <= b /\ forall j, nth_error fs0 (Z.to_nat b + j) = nth_error fs j.

  Lemma suffix_tail b f r : suffix_at b (f :: r) -> suffix_at (b + 1) r.
  Proof.
    intros (Hb & H). split; [lia|]. intros j. replace (Z.to_nat (b + 1) + j)%nat with (Z.to_nat b + S j)%nat by lia.
    rewrite H. reflexivity.
  Qed.

  Lemma suffix_head b f r : suffix_at b (f :: r) -> (if b <? 0 then None else nth_error fs0 (Z.to_nat b)) = Some f.
  Proof.
    intros (Hb & H). destruct (Z.ltb_spec b 0); [lia|]. specialize (H 0%nat). rewrite Nat.add_0_r in H. exact H.
  Qed.

  Lemma list_is_dict l : forall fs b s, suffix_at b fs ->
    (length l <= length (ctor_keys b fs))%nat ->
    struct_from_list F fs l s = struct_from_dict F fs0 (combine (ctor_keys b fs) l) s.
  Proof.
    induction l as [|x l IH]; intros fs b s Hsuf Hlen.
    - destruct (ctor_keys b fs); reflexivity.
    - revert b Hsuf Hlen. induction fs as [|f r IHfs]; intros b Hsuf Hlen; [cbn in Hlen; lia|].
      cbn [struct_from_list skip_ignored ctor_keys] in *.
      destruct (ignore_in_ctor f) eqn:Ei.
      + exact (IHfs (b + 1) (suffix_tail _ _ _ Hsuf) Hlen).
      + cbn [combine struct_from_dict]. rewrite (suffix_head _ _ _ Hsuf).
        destruct (F f x s) as [s1|e]; cbn [bind]; [|reflexivity].
        apply IH; [eapply suffix_tail; exact Hsuf|cbn [length] in Hlen; lia].
  Qed.

  (* more items than constructor fields: never accepted *)
  Lemma list_too_long l : forall fs b s r, (length (ctor_keys b fs) < length l)%nat ->
    struct_from_list F fs l s <> Ok r.
  Proof.
    induction l as [|x l IH]; intros fs b s r Hlen; [cbn in Hlen; lia|].
    revert b Hlen. induction fs as [|f rr IHfs]; intros b Hlen; [cbn; discriminate|].
    cbn [struct_from_list skip_ignored ctor_keys] in *. destruct (ignore_in_ctor f) eqn:Ei.
    - apply (IHfs (b + 1)). exact Hlen.
    - destruct (F f x s) as [s1|e]; cbn [bind]; [|discriminate].
      apply (IH rr (b + 1)). cbn [length] in Hlen. lia.
  Qed.
End Positional.

Lemma suffix_at_0 fs : suffix_at fs 0 fs.
Proof. split; [lia|]. intros j. reflexivity. Qed.

Lemma size_struct_list_dict fuel fs l opt :
  (length l <= length (ctor_keys 0 fs))%nat ->
  size_struct fuel fs (VList l) opt = size_struct fuel fs (VDict (combine (ctor_keys 0 fs) l)) opt.
Proof.
  intros H. destruct fuel as [|f]; [reflexivity|]. cbn [size_struct struct_from_object].
  apply list_is_dict; [apply suffix_at_0|exact H].
Qed.

Lemma fill_list_dict fuel size var fs off l m :
  (length l <= length (ctor_keys 0 fs))%nat ->
  fill fuel (LAgg size var fs) off (VList l) m =
  fill fuel (LAgg size var fs) off (VDict (combine (ctor_keys 0 fs) l)) m.
Proof.
  intros H. destruct fuel as [|f]; [reflexivity|]. cbn [fill struct_from_object].
  apply list_is_dict; [apply suffix_at_0|exact H].
Qed.

(* ffi.new("struct T *", [v1, .., vk]) = ffi.new("struct T *", {field_1: v1, .., field_k: vk}) where
   field_1.. are the leading fields without BF_IGNORE_IN_CTOR — structs and unions, var-sized or not *)
Theorem positional_is_keyword fuel size var fs l :
  (length l <= length (ctor_keys 0 fs))%nat ->
  new_bytes fuel (NewPtr (LAgg size var fs)) (VList l) =
  new_bytes fuel (NewPtr (LAgg size var fs)) (VDict (combine (ctor_keys 0 fs) l)).
Proof.
  intros H. unfold new_bytes. cbn [alloc_size new_init new_target lsize agg_var agg_fields].
  destruct (size <? 0); [reflexivity|]. destruct var; cbn [andb negb].
  - rewrite (size_struct_list_dict fuel fs l size H).
    destruct (size_struct fuel fs _ size) as [n|e]; cbn [bind]; [|reflexivity].
    destruct (MAX_ALLOC <? n); [reflexivity|]. apply fill_list_dict. exact H.
  - cbn [bind]. destruct (MAX_ALLOC <? size); [reflexivity|]. apply fill_list_dict. exact H.
Qed.

Theorem positional_too_long fuel size var fs l m :
  (length (ctor_keys 0 fs) < length l)%nat ->
  new_bytes fuel (NewPtr (LAgg size var fs)) (VList l) <> Ok m.
Proof.
  intros H. unfold new_bytes. cbn [alloc_size new_init new_target lsize agg_var agg_fields].
  destruct (size <? 0); [cbn; discriminate|]. destruct var; cbn [andb negb].
  - destruct fuel as [|f]; [cbn; discriminate|]. cbn [size_struct struct_from_object].
    pose proof (list_too_long (size_field (size_struct f)) l fs 0 size) as Hn.
    destruct (struct_from_list (size_field (size_struct f)) fs l size) as [n|e]; cbn [bind]; [|discriminate].
    exfalso. exact (Hn n H eq_refl).
  - cbn [bind]. destruct (MAX_ALLOC <? size); [discriminate|].
    destruct fuel as [|f]; [discriminate|]. cbn [fill struct_from_object].
    apply (list_too_long _ l fs 0). exact H.
Qed.

(* a union: only its first member is a constructor field *)
Lemma union_keys f0 rest b :
  ignore_in_ctor f0 = false -> Forall (fun f => ignore_in_ctor f = true) rest ->
  ctor_keys b (f0 :: rest) = [b].
Proof.
  intros H0 Hr. cbn [ctor_keys]. rewrite H0. f_equal.
  revert b. induction Hr as [|f r Hf Hr IH]; intros b; [reflexivity|]. cbn [ctor_keys]. rewrite Hf. apply IH.
Qed.

(* ------------------------------------------------------------------ the block has the size direct_newp computed *)

Lemma alloc_fill_safe fuel T init n :
  wf_type (new_target T) = true -> alloc_size fuel T init = Ok n ->
  0 <= n /\
  (new_init T init <> VNone ->
   safe 0 n (fill fuel (new_target T) 0 (new_init T init) (zeros n)) (zeros n)).
Proof.
  intros Hwf Ha. destruct T as [t|item len]; cbn [new_target alloc_size new_init] in *.
  - destruct (Z.ltb_spec (lsize t) 0) as [|Hsz]; [discriminate|].
    set (datasize := match t with LPrim KChar _ => lsize t * 2 | _ => lsize t end) in *.
    assert (Hds : lsize t <= datasize) by (subst datasize; destruct t as [[] ?| |]; lia).
    replace (match init with VInt _ => init | _ => init end) with init by (destruct init; reflexivity).
    destruct (agg_var t && negb (match init with VNone => true | _ => false end)) eqn:Ev.
    + rewrite andb_true_iff, negb_true_iff in Ev. destruct Ev as (Ev & Hinit).
      destruct t as [| |size var fs]; try discriminate. cbn in Ev. subst var. cbn [agg_fields lsize] in *.
      subst datasize. pose proof (size_struct_lower _ _ _ _ _ Ha). split; [lia|]. intros _.
      change n with (0 + n) at 1.
      apply (P_all fuel fuel (le_n _) _ 0 init (zeros n) n); auto; try lia.
      * cbn [need]. destruct (is_cdata init) eqn:Ec; [|exact Ha].
        destruct init; try discriminate. destruct fuel; cbn in Ha; discriminate.
      * rewrite mlen_zeros. lia.
    + inversion Ha; subst n. split; [lia|]. intros Hnn.
      assert (Hhv : agg_var t = false).
      { destruct (agg_var t); [|reflexivity]. cbn in Ev. rewrite negb_false_iff in Ev.
        destruct init; try discriminate Ev. contradiction. }
      apply (safe_weaken 0 (0 + lsize t)); [lia|lia|].
      apply (P_all fuel fuel (le_n _) t 0 init (zeros datasize) (lsize t)); auto; try lia.
      * apply need_nonvar. exact Hhv.
      * rewrite mlen_zeros. lia.
  - pose proof Hwf as Hwf2. cbn [wf_type] in Hwf2. rewrite !andb_true_iff in Hwf2.
    destruct Hwf2 as ((Hwi & Hisz) & Hlen). apply Z.ltb_lt in Hisz.
    destruct (Z.ltb_spec len 0) as [Hneg|Hpos].
    + destruct (get_new_array_length (lsize item) init) as [[cap b]|e] eqn:Eg; cbn [bind fst] in Ha; [|discriminate].
      destruct (SSIZE_MAX <? cap * lsize item); [discriminate|]. inversion Ha; subst n.
      pose proof (gnal_nonneg _ _ _ _ Eg) as Hcap. split; [nia|]. intros Hnn.
      assert (Hi : (match init with VInt _ => VNone | _ => init end) = init)
        by (destruct init; try reflexivity; contradiction).
      rewrite Hi in *.
      destruct fuel as [|f]; [apply safe_err; discriminate|]. cbn [fill].
      apply (safe_weaken 0 (0 + lsize item * cap)); [lia|lia|].
      apply (fill_array_safe _ item len cap); try lia; eauto.
      * rewrite mlen_zeros. nia.
      * intros x off2 m2 Ho2 Hb2. apply guarded_item_safe; auto. apply (P_all f f (le_n _)).
    + inversion Ha; subst n. split; [nia|]. intros Hnn.
      replace (match init with VInt _ => init | _ => init end) with init by (destruct init; reflexivity).
      change (len * lsize item) with (0 + len * lsize item) at 1.
      apply (P_all fuel fuel (le_n _) (LArr item len) 0 init _ (len * lsize item)); auto; try lia.
      * cbn [lsize]. destruct (Z.ltb_spec len 0); [lia|nia].
      * cbn [need lsize]. destruct (Z.ltb_spec len 0); [lia|reflexivity].
      * rewrite mlen_zeros. nia.
Qed.

Theorem new_block_len fuel T init n m :
  wf_type (new_target T) = true -> alloc_size fuel T init = Ok n ->
  new_bytes fuel T init = Ok m -> mlen m = n.
Proof.
  intros Hwf Ha Hn. destruct (alloc_fill_safe fuel T init n Hwf Ha) as (Hnn & Hs).
  unfold new_bytes in Hn. rewrite Ha in Hn. cbn [bind] in Hn.
  destruct (MAX_ALLOC <? n); [discriminate|].
  destruct (new_init T init) eqn:Ei;
    try (destruct (Hs ltac:(discriminate)) as (_ & Hl); destruct (Hl m Hn) as (Hlen & _);
         rewrite Hlen, mlen_zeros; lia).
  inversion Hn. rewrite mlen_zeros. lia.
Qed.

(* ffi.sizeof(p[0]) (var-sized struct: the stored length; otherwise ct_size) and ffi.sizeof(p) of
   an array are the size direct_newp computed, which is the size of the block *)
Theorem sizeof_is_alloc_size fuel T init m slot :
  wf_type (new_target T) = true ->
  (forall k s, T <> NewPtr (LPrim k s)) ->        (* p[0] of a primitive pointer is not a cdata *)
  new_object fuel T init = Ok (m, slot) ->
  alloc_size fuel T init = Ok (sizeof_cdata T slot) /\ mlen m = sizeof_cdata T slot.
Proof.
  intros Hwf Hnp. unfold new_object.
  destruct (alloc_size fuel T init) as [n|e] eqn:Ha; cbn [bind]; [|discriminate].
  destruct (new_bytes fuel T init) as [m1|e] eqn:Hn; cbn [bind]; [|discriminate].
  intros E. inversion E; subst m1 slot. clear E.
  pose proof (new_block_len _ _ _ _ _ Hwf Ha Hn) as Hl.
  destruct (alloc_fill_safe fuel T init n Hwf Ha) as (Hnn & _).
  assert (Hs : sizeof_cdata T (own_length T n) = n); [|rewrite Hs; auto].
  destruct T as [t|item len]; cbn [sizeof_cdata own_length].
  - destruct (agg_var t) eqn:Ev.
    + destruct (Z.ltb_spec n 0); [lia|reflexivity].
    + cbn [alloc_size] in Ha. destruct (lsize t <? 0); [discriminate|]. rewrite Ev in Ha. cbn [andb] in Ha.
      destruct t as [k s| |]; [exfalso; eapply Hnp; reflexivity| |]; inversion Ha; reflexivity.
  - cbn [new_target wf_type] in Hwf. rewrite !andb_true_iff in Hwf. destruct Hwf as ((_ & Hisz) & _).
    apply Z.ltb_lt in Hisz. cbn [alloc_size] in Ha. destruct (Z.ltb_spec len 0).
    + destruct (get_new_array_length (lsize item) init) as [[cap b]|]; cbn [bind fst] in Ha; [|discriminate].
      destruct (SSIZE_MAX <? cap * lsize item); [discriminate|]. inversion Ha; subst n.
      rewrite Z.div_mul by lia. reflexivity.
    + inversion Ha. reflexivity.
Qed.

(* array sequences fill the leading items: k items given, everything from item k on stays zero *)
Theorem array_sequence_leading fuel item len l m :
  wf_type (LArr item len) = true -> 0 <= len ->
  new_bytes fuel (NewArr item len) (VList l) = Ok m ->
  mlen l <= len /\ mlen m = len * lsize item /\
  forall i, mlen l * lsize item <= i -> byte m i = 0.
Proof.
  intros Hwf Hlen Hn.
  assert (Ha : alloc_size fuel (NewArr item len) (VList l) = Ok (len * lsize item))
    by (cbn [alloc_size]; destruct (Z.ltb_spec len 0); [lia|reflexivity]).
  pose proof (new_block_len fuel (NewArr item len) _ _ _ Hwf Ha Hn) as Hl.
  pose proof Hwf as Hwf2. cbn [wf_type] in Hwf2. rewrite !andb_true_iff in Hwf2.
  destruct Hwf2 as ((Hwi & Hisz) & _). apply Z.ltb_lt in Hisz.
  unfold new_bytes in Hn. rewrite Ha in Hn. cbn [bind new_init new_target] in Hn.
  destruct (Z.ltb_spec len 0); [lia|].
  destruct (MAX_ALLOC <? len * lsize item); [discriminate|].
  destruct fuel as [|f]; [discriminate|]. cbn [fill fill_array] in Hn.
  destruct ((0 <=? len) && (len <? mlen l)) eqn:Hlong; [discriminate|].
  assert (Hk : mlen l <= len).
  { destruct (Z.leb_spec 0 len); [|lia]. destruct (Z.ltb_spec len (mlen l)); [discriminate|lia]. }
  split; [exact Hk|]. split; [exact Hl|].
  pose proof (mlen_nonneg l).
  destruct (fill_items_safe
              (fun off x m => bind (item_guard f item x) (fun _ => fill f item off x m))
              (lsize item) ltac:(lia) l 0 (zeros (len * lsize item)) ltac:(lia)) as (_ & Hfr).
  - rewrite mlen_zeros. nia.
  - intros x off2 m2 Ho2 Hb2. apply guarded_item_safe; auto. apply (P_all f f (le_n _)).
  - destruct (Hfr m Hn) as (_ & Hb). intros i Hi. rewrite Hb; [apply byte_zeros|nia|right; lia].
Qed.
