(* C20 — ffi.new zero-fills and initializes exactly like assignment; flexible-array sizing.
   Statements only; proofs in C20/Proofs.v.  Model: C20/Model.v. *)
From Coq Require Import ZArith List Bool Lia.
Import ListNotations.
From Cffi Require C03.Mem C03.Store C03.StoreProofs C02.Model C02.Proofs C15.Model.
From Cffi Require Import C20.Model C20.Leaves C20.Proofs.
Open Scope Z_scope.

(* ffi.new(T, init) = a zero block of the size computed by the sizing pass, then the same
   convert_from_object that an assignment performs.
   NOTE (reviewer's remark, accepted): this is the unfolding of new_bytes — the model has ONE `fill`,
   used by both forms, because direct_newp and cdata_ass_sub literally call the same C function
   convert_from_object.  It carries no information beyond that modelling decision; what ties
   "p = ffi.new(T, init)" to "p = ffi.new(T); p[0] = init" is the correspondence run on the real code
   (bytes of both forms compared on every generated case, tools/props/c20.py). *)
Theorem C20_new_is_assign : forall fuel T init,
  new_bytes fuel T init =
  bind (alloc_size fuel T init) (fun n =>
  if MAX_ALLOC <? n then Err MemoryError
  else match new_init T init with
       | VNone => Ok (zeros n)
       | i => assign_bytes fuel T i n
       end).
Proof. exact new_is_assign. Qed.
Print Assumptions C20_new_is_assign.

(* for types that are not var-sized: p = ffi.new(T, init) is p = ffi.new(T); p[0] = init *)
Theorem C20_new_is_literal_assign : forall fuel T init, fixed_size T -> init <> VNone ->
  new_bytes fuel T init =
  bind (new_bytes fuel T VNone) (fun m0 => fill fuel (new_target T) 0 init m0).
Proof. exact new_is_literal_assign. Qed.
Print Assumptions C20_new_is_literal_assign.

(* Memory safety of ffi.new, all nesting depths: for every type whose layout is well formed
   (wf_type: fields inside their struct, bit-field units inside, flexible arrays flagged), every
   initialiser (lists, tuples, dicts, bytes, str counted in units of the item type, cdata,
   lengths; valid or not) and any fuel, no byte is written outside the block whose size the
   sizing pass computed (a write outside it is the model's SegV) — and no leaf store runs into C
   undefined behaviour (C03's UB / C02's BUB outcomes are mapped to SegV as well; wf_type contains
   C02's placement condition for bit-fields). *)
Theorem C20_sizing_dominates : forall fuel T init,
  wf_type (new_target T) = true -> new_bytes fuel T init <> Err SegV.
Proof. exact sizing_dominates. Qed.
Print Assumptions C20_sizing_dominates.

(* Frame, the invariant behind it (usable for assignments too): converting any initialiser into a
   fixed-size type at offset off changes no byte outside [off, off + sizeof), never leaves the
   block and keeps its length, whenever that range lies inside the block: a nested initialiser
   cannot spill over into neighbouring members *)
Theorem C20_assign_stays_inside : forall fuel t off init m,
  wf_type t = true -> agg_var t = false -> 0 <= lsize t ->
  0 <= off -> off + lsize t <= mlen m ->
  fill fuel t off init m <> Err SegV /\
  forall m', fill fuel t off init m = Ok m' ->
    mlen m' = mlen m /\
    forall i, 0 <= i -> i < off \/ off + lsize t <= i -> byte m' i = byte m i.
Proof. exact assign_safe. Qed.
Print Assumptions C20_assign_stays_inside.

(* general form: a block as large as the sizing pass asks for (need) is enough for the filling
   pass, at every offset and nesting depth, and nothing outside [off, off + need) changes *)
Theorem C20_need_is_enough : forall fuel t off v m n,
  wf_type t = true -> 0 <= lsize t -> 0 <= off ->
  need fuel t v = Ok n -> off + n <= mlen m ->
  fill fuel t off v m <> Err SegV /\
  forall m', fill fuel t off v m = Ok m' ->
    mlen m' = mlen m /\
    forall i, 0 <= i -> i < off \/ off + n <= i -> byte m' i = byte m i.
Proof. intros fuel. exact (P_all fuel fuel (le_n _)). Qed.
Print Assumptions C20_need_is_enough.

(* "memory that is zero except where init writes", for keyword initialisers of fixed-size
   structs/unions: the block has exactly sizeof bytes and every byte that does not belong to a
   member named in the dict (for a bit-field: to its storage unit) is zero.
   (Positional initialisers are tied to keyword ones on the implementation: tools/props/c20.py
   compares ffi.new(T, [v1..vk]) with ffi.new(T, {name1: v1, ...}) over the leading
   constructor-eligible fields; no theorem.) *)
Theorem C20_unnamed_bytes_are_zero : forall fuel size fs kv m,
  wf_type (LAgg size false fs) = true ->
  new_bytes fuel (NewPtr (LAgg size false fs)) (VDict kv) = Ok m ->
  mlen m = size /\
  forall i, 0 <= i ->
    (forall k x f, In (k, x) kv -> lookup_field fs k = Some f ->
       i < lf_off f \/ lf_off f + lsize (lf_type f) <= i) ->
    byte m i = 0.
Proof. exact new_dict_unnamed_zero. Qed.
Print Assumptions C20_unnamed_bytes_are_zero.

(* History.  Before /repo commit 812503f the model had no item_guard and this file contained
     C20_sizing_dominates_refuted : exists T init, wf_type (new_target T) = true /\
                                    new_bytes FUEL T init = Err SegV
   with witness  struct V { int n; int a[]; };  ffi.new("struct V[1]", [[1, [1,2,3]]]):
   an array of var-sized structs was filled item by item, flexible parts included, but sized as
   len * sizeof.  Replayed on the real code under ASan (heap-buffer-overflow), reported as finding
   array_of_varsize_struct, repaired by the guard in convert_array_from_object that item_guard
   models.  The witnesses now raise ValueError: *)
Definition t_int := LPrim KSigned 4.
Definition t_V := LAgg 4 true [(t_int, 0, -1, -1, 0); (LArr t_int (-1), 4, -2, -1, 0)].
Example C20_former_overflow_is_refused :
  wf_type (LArr t_V 1) = true /\
  new_bytes FUEL (NewArr t_V 1) (VList [VList [VInt 1; VList [VInt 1; VInt 2; VInt 3]]]) = Err ValueError /\
  (* initialisers that fit are accepted *)
  new_bytes FUEL (NewArr t_V 2) (VList [VList [VInt 1]; VList [VInt 2; VInt 0]]) = Ok [1;0;0;0; 2;0;0;0].
Proof. repeat split; vm_compute; reflexivity. Qed.

(* the same through a struct member:  struct W { struct V arr[2]; } *)
Definition t_W := LAgg 8 false [(LArr t_V 2, 0, -1, -1, 0)].
Example C20_former_overflow_member :
  wf_type t_W = true /\ no_var_items t_W = false /\ new_bytes FUEL (NewPtr t_W)
    (VList [VList [VList [VInt 1; VList [VInt 1; VInt 2; VInt 3]]; VList [VInt 2]]]) = Err ValueError.
Proof. repeat split; vm_compute; reflexivity. Qed.

(* ---- non-vacuity: a var-sized struct nested in a struct, initialised three levels deep
   struct V { int n; int a[]; };  struct X { int k; struct V v; };
   ffi.new("struct X *", [5, [1, [7, 8, 9]]])  ->  20 bytes *)
Definition t_X := LAgg 8 true [(t_int, 0, -1, -1, 0); (t_V, 4, -1, -1, 0)].
Example C20_example_nested :
  wf_type t_X = true /\ no_var_items t_X = true /\ alloc_size FUEL (NewPtr t_X) (VList [VInt 5; VList [VInt 1; VList [VInt 7; VInt 8; VInt 9]]]) = Ok 20 /\ new_bytes FUEL (NewPtr t_X) (VList [VInt 5; VList [VInt 1; VList [VInt 7; VInt 8; VInt 9]]])
  = Ok [5;0;0;0; 1;0;0;0; 7;0;0;0; 8;0;0;0; 9;0;0;0] /\ (* a length instead of items: sized, left zero *)
  new_bytes FUEL (NewPtr t_X) (VDict [(1, VDict [(1, VInt 3)])]) = Ok (zeros 20) /\ (* errors are explicit results *)
  new_bytes FUEL (NewPtr t_X) (VList [VInt 5; VList [VInt 1; VInt (-1)]]) = Err ValueError /\ new_bytes FUEL (NewPtr t_X) (VList [VInt 5; VList []; VInt 2]) = Err ValueError /\ new_bytes FUEL (NewPtr t_X) (VDict [(7, VInt 0)]) = Err KeyError /\ new_bytes FUEL (NewPtr t_X) (VList [VInt (2 ^ 31)]) = Err OverflowError.
Proof. repeat split; vm_compute; reflexivity. Qed.

(* a union sequence sets the first member only; bit-field store is a read-modify-write *)
Definition t_U := LAgg 4 false [(t_int, 0, -1, -1, 0); (LPrim KChar 1, 0, -1, -1, 1)].
Definition t_B := LAgg 4 false [(t_int, 0, 0, 3, 0); (t_int, 0, 3, 5, 0)].
Example C20_example_union_bitfield :
  new_bytes FUEL (NewPtr t_U) (VList [VInt 258]) = Ok [2; 1; 0; 0] /\ new_bytes FUEL (NewPtr t_U) (VList [VInt 1; VBytes [65]]) = Err ValueError /\ new_bytes FUEL (NewPtr t_B) (VList [VInt (-1); VInt 9]) = Ok [79; 0; 0; 0].
Proof. repeat split; vm_compute; reflexivity. Qed.

(* flexible character arrays are sized in UNITS of the item type, not in code points:
   struct S { int n; char16_t s[]; };  ffi.new("struct S *", [1, "a\U0001F600"])  needs 4 + 2*(1+2+1) bytes *)
Definition t_S16 := LAgg 4 true [(t_int, 0, -1, -1, 0); (LArr (LPrim KChar 2) (-1), 4, -2, -1, 0)].
Example C20_example_utf16 :
  wf_type t_S16 = true /\
  new_bytes FUEL (NewPtr t_S16) (VList [VInt 1; VStr [97; 128512]])
  = Ok [1;0;0;0; 97;0; 61;216; 0;222; 0;0].
Proof. repeat split; vm_compute; reflexivity. Qed.

(* ---- "sequence initializers fill leading elements or fields in order, dict initializers set the
   named fields, and union sequences set the first member"

   ctor_keys 0 fs = the positions (in ct_extra, the keys of a model dict) of the fields without
   BF_IGNORE_IN_CTOR, in order.  A positional initialiser with at most that many items IS the
   keyword initialiser naming the leading ones — same bytes, same size, same error: structs and
   unions, fixed or var-sized (both passes of convert_struct_from_object skip as the code does). *)
Theorem C20_positional_is_keyword : forall fuel size var fs vs,
  (length vs <= length (ctor_keys 0 fs))%nat ->
  new_bytes fuel (NewPtr (LAgg size var fs)) (VList vs) =
  new_bytes fuel (NewPtr (LAgg size var fs)) (VDict (combine (ctor_keys 0 fs) vs)).
Proof. exact positional_is_keyword. Qed.
Print Assumptions C20_positional_is_keyword.

(* more items than constructor fields are never accepted (ValueError "too many initializers",
   unless an earlier item already failed) *)
Theorem C20_positional_too_long : forall fuel size var fs vs m,
  (length (ctor_keys 0 fs) < length vs)%nat ->
  new_bytes fuel (NewPtr (LAgg size var fs)) (VList vs) <> Ok m.
Proof. exact positional_too_long. Qed.
Print Assumptions C20_positional_too_long.

(* union: every member but the first carries BF_IGNORE_IN_CTOR, so a sequence has exactly one
   constructor field — [v] sets the first member, anything longer is refused *)
Theorem C20_union_sequence_first_member : forall fuel size var f0 rest v,
  ignore_in_ctor f0 = false -> Forall (fun f => ignore_in_ctor f = true) rest ->
  new_bytes fuel (NewPtr (LAgg size var (f0 :: rest))) (VList [v]) =
  new_bytes fuel (NewPtr (LAgg size var (f0 :: rest))) (VDict [(0, v)]) /\
  forall v2 vs m, new_bytes fuel (NewPtr (LAgg size var (f0 :: rest))) (VList (v :: v2 :: vs)) <> Ok m.
Proof.
  intros fuel size var f0 rest v H0 Hr. pose proof (union_keys f0 rest 0 H0 Hr) as Hk. split.
  - rewrite positional_is_keyword by (rewrite Hk; cbn; lia). rewrite Hk. reflexivity.
  - intros v2 vs m. apply positional_too_long. rewrite Hk. cbn. lia.
Qed.
Print Assumptions C20_union_sequence_first_member.

(* array sequences fill the leading items: with k items given, the block has len*sizeof(item)
   bytes and every byte from item k on is zero (items 0..k-1 are converted one after the other at
   off + j*sizeof(item): fill_items) *)
Theorem C20_array_sequence_leading : forall fuel item len vs m,
  wf_type (LArr item len) = true -> 0 <= len ->
  new_bytes fuel (NewArr item len) (VList vs) = Ok m ->
  mlen vs <= len /\ mlen m = len * lsize item /\
  forall i, mlen vs * lsize item <= i -> byte m i = 0.
Proof. exact array_sequence_leading. Qed.
Print Assumptions C20_array_sequence_leading.

(* ---- "ffi.sizeof(p[0]) reports that allocated size"
   new_object = (block, the length slot direct_newp stores for var-sized structs and T[]);
   sizeof_cdata = direct_sizeof_cdata / _cdata_var_byte_size.  The reported size is the size the
   sizing pass computed AND the real size of the block, for structs ending in a flexible array as
   for everything else. *)
Theorem C20_sizeof_is_alloc_size : forall fuel T init m slot,
  wf_type (new_target T) = true ->
  (forall k s, T <> NewPtr (LPrim k s)) ->
  new_object fuel T init = Ok (m, slot) ->
  alloc_size fuel T init = Ok (sizeof_cdata T slot) /\ mlen m = sizeof_cdata T slot.
Proof. exact sizeof_is_alloc_size. Qed.
Print Assumptions C20_sizeof_is_alloc_size.

Example C20_example_sizeof :
  new_object FUEL (NewPtr t_X) (VList [VInt 5; VList [VInt 1; VList [VInt 7; VInt 8; VInt 9]]])
  = Ok ([5;0;0;0; 1;0;0;0; 7;0;0;0; 8;0;0;0; 9;0;0;0], Some 20) /\
  sizeof_cdata (NewPtr t_X) (Some 20) = 20 /\
  ctor_keys 0 (agg_fields t_U) = [0] /\ ctor_keys 0 (agg_fields t_X) = [0; 1].
Proof. repeat split; vm_compute; reflexivity. Qed.

(* ---- "which values are written": the leaves of the filling pass are not C20's own.
   Model.v calls the functions that C03, C02 and C15 prove correct and tie to regenerated source:
     C03.Store.convert_from_object_int  (C03_gen_store_refines: = the regenerated statement lists)
     C02.Model.bf_write                 (C02_gen_write_refines: = the regenerated mask/shift program)
     C15.Model.convert_array / new_array_length / as_single_char16,32   (C15/Gen.v, regenerated)
   The first theorem of each group is the identification (by construction of the model: it is what
   makes the C20 correspondence run exercise those models); the others are what follows for ffi.new. *)
Theorem C20_prim_is_C03 : forall k s z old, int_kind k = true ->
  conv_prim k s (VInt z) old = of_c03 (C03.Store.convert_from_object_int (ity_of k s) z old).
Proof. exact conv_prim_int. Qed.
Print Assumptions C20_prim_is_C03.

(* closed form (what C20's private copy used to define): accepted iff in C03's range, then the
   little-endian bytes; otherwise OverflowError *)
Theorem C20_prim_closed_form : forall k s z old, int_kind k = true -> 1 <= s <= 8 ->
  conv_prim k s (VInt z) old =
  if C03.Store.in_range (ity_of k s) z then Ok (le_bytes s (z mod 2 ^ 64)) else Err OverflowError.
Proof. exact prim_closed_form. Qed.
Print Assumptions C20_prim_closed_form.

Theorem C20_prim_reads_back : forall k s z old bs, int_kind k = true -> 1 <= s <= 8 ->
  conv_prim k s (VInt z) old = Ok bs ->
  C03.Store.in_range (ity_of k s) z = true /\ C03.Store.read_int (ity_of k s) bs = z.
Proof. exact prim_roundtrip. Qed.
Print Assumptions C20_prim_reads_back.

Theorem C20_bitfield_is_C02 : forall k s sh w z old,
  conv_bitfield k s sh w (VInt z) old = of_c02 (C02.Model.bf_write (ity_of k s) w sh z old).
Proof. exact bitfield_is_c02. Qed.
Print Assumptions C20_bitfield_is_C02.

(* wf_type's bit-field clause (checked on every layout the harness reads) is C02's placement *)
Theorem C20_wf_bitfield_is_placement : forall k s sh w,
  0 < s -> ((0 <? w) && (sh + w <=? 8 * s) && (s <=? 8)) = true -> 0 <= sh -> (k = KBool -> s = 1) ->
  C02.Proofs.placement (ity_of k s) w sh.
Proof. exact wf_bitfield_placement. Qed.
Print Assumptions C20_wf_bitfield_is_placement.

(* a bit-field initialiser that is accepted reads back (C02's bf_read) as z, and every bit of the
   storage unit outside [sh, sh+w) keeps its value *)
Theorem C20_bitfield_reads_back : forall k s sh w z old bs,
  C02.Proofs.placement (ity_of k s) w sh -> C02.Proofs.unit_ok (ity_of k s) old ->
  conv_bitfield k s sh w (VInt z) old = Ok bs ->
  C02.Model.bf_read (ity_of k s) w sh bs =
    C02.Model.BOk (if C03.Store.isigned (ity_of k s) && (w =? 1) && (z =? 1) then -1 else z) /\
  forall i, 0 <= i -> ~ (sh <= i < sh + w) ->
    Z.testbit (C03.Mem.read_raw_unsigned bs) i = Z.testbit (C03.Mem.read_raw_unsigned old) i.
Proof. exact bitfield_roundtrip. Qed.
Print Assumptions C20_bitfield_reads_back.

Theorem C20_char_array_is_C15 : forall fuel s len off c m,
  fill (S fuel) (LArr (LPrim KChar s) len) off (VStr c) m =
  if s =? 1 then Err TypeError
  else bind (of_c15 (C15.Model.convert_array (ety_of s) len (C15.Model.PStr c)))
            (fun us => write off (flat_map (le_bytes s) us) m).
Proof. exact char_array_is_c15_str. Qed.
Print Assumptions C20_char_array_is_C15.

Theorem C20_byte_array_is_C15 : forall fuel k s len off b m,
  k = KChar \/ k = KSigned \/ k = KUnsigned ->
  fill (S fuel) (LArr (LPrim k s) len) off (VBytes b) m =
  if s =? 1 then bind (of_c15 (C15.Model.convert_array C15.Model.E8 len (C15.Model.PBytes b)))
                      (fun src => write off src m)
  else Err TypeError.
Proof. exact char_array_is_c15_bytes. Qed.
Print Assumptions C20_byte_array_is_C15.

(* the units C15 stores: as many as C15's new_array_length says (minus the terminator when the units
   fill the array exactly), never more than the declared length; only Index/Type/ValueError *)
Theorem C20_char_array_units : forall t len v us,
  C15.Model.convert_array t len v = C15.Spec.Ok us ->
  let n := C15.Model.new_array_length t v - 1 in
  ((0 <=? len) && (len <? n)) = false /\ mlen us = if n =? len then n else n + 1.
Proof. exact c15_convert_len. Qed.
Print Assumptions C20_char_array_units.

Example C20_example_leaves :
  (* a code point above 0x10FFFF cannot be stored in a char16_t array (C15's as_char16) *)
  new_bytes FUEL (NewArr (LPrim KChar 2) 4) (VStr [1114112]) = Err ValueError /\
  new_bytes FUEL (NewArr (LPrim KChar 2) (-1)) (VStr [97; 128512]) = Ok [97;0; 61;216; 0;222; 0;0] /\
  new_bytes FUEL (NewArr (LPrim KChar 4) 2) (VStr [97; 128512]) = Ok [97;0;0;0; 0;246;1;0] /\
  new_bytes FUEL (NewPtr (LPrim KBool 1)) (VInt 2) = Err OverflowError /\
  new_bytes FUEL (NewPtr (LPrim KSigned 2)) (VInt (-2)) = Ok [254; 255] /\
  new_bytes FUEL (NewPtr (LPrim KUnsigned 8)) (VInt (2 ^ 64)) = Err OverflowError /\
  (* a bit-field outside its unit is not a well-formed layout *)
  wf_type (LAgg 4 false [(t_int, 0, 30, 5, 0)]) = false /\ wf_type t_B = true.
Proof. repeat split; vm_compute; reflexivity. Qed.
