(* C20 — ffi.new zero-fills and initializes exactly like assignment; flexible-array sizing.
   Statements only; proofs in C20/Proofs.v.  Model: C20/Model.v. *)
From Coq Require Import ZArith List Bool Lia.
Import ListNotations.
From Cffi Require Import C20.Model C20.Proofs.
Open Scope Z_scope.

(* ffi.new(T, init) = a zero block of the size computed by the sizing pass, then the same
   convert_from_object that an assignment performs.
   NOTE (reviewer's remark, accepted): this is the unfolding of new_bytes — the model has ONE `fill`,
   used by both forms, because direct_newp and cdata_ass_sub literally call the same C function
   convert_from_object.  It carries no information beyond that modelling decision; what ties
   "p = ffi.new(T, init)" to "p = ffi.new(T); p[0] = init" is the correspondence run on the real code
   (bytes of both forms compared on every generated case, tools/props/c20.py). *)
Theorem C20_new_is_assign : forall fuel T init,
  new_bytes fuel T init =
  bind (alloc_size fuel T init) (fun n =>
  if MAX_ALLOC <? n then Err MemoryError
  else match new_init T init with
       | VNone => Ok (zeros n)
       | i => assign_bytes fuel T i n
       end).
Proof. exact new_is_assign. Qed.
Print Assumptions C20_new_is_assign.

(* for types that are not var-sized: p = ffi.new(T, init) is p = ffi.new(T); p[0] = init *)
Theorem C20_new_is_literal_assign : forall fuel T init, fixed_size T -> init <> VNone ->
  new_bytes fuel T init =
  bind (new_bytes fuel T VNone) (fun m0 => fill fuel (new_target T) 0 init m0).
Proof. exact new_is_literal_assign. Qed.
Print Assumptions C20_new_is_literal_assign.

(* Memory safety of ffi.new, all nesting depths: for every type whose layout is well formed
   (wf_type: fields inside their struct, bit-field units inside, flexible arrays flagged), every
   initialiser (lists, tuples, dicts, bytes, str counted in units of the item type, cdata,
   lengths; valid or not) and any fuel, no byte is written outside the block whose size the
   sizing pass computed (a write outside it is the model's SegV). *)
Theorem C20_sizing_dominates : forall fuel T init,
  wf_type (new_target T) = true -> new_bytes fuel T init <> Err SegV.
Proof. exact sizing_dominates. Qed.
Print Assumptions C20_sizing_dominates.

(* Frame, the invariant behind it (usable for assignments too): converting any initialiser into a
   fixed-size type at offset off changes no byte outside [off, off + sizeof), never leaves the
   block and keeps its length, whenever that range lies inside the block: a nested initialiser
   cannot spill over into neighbouring members *)
Theorem C20_assign_stays_inside : forall fuel t off init m,
  wf_type t = true -> agg_var t = false -> 0 <= lsize t ->
  0 <= off -> off + lsize t <= mlen m ->
  fill fuel t off init m <> Err SegV /\
  forall m', fill fuel t off init m = Ok m' ->
    mlen m' = mlen m /\
    forall i, 0 <= i -> i < off \/ off + lsize t <= i -> byte m' i = byte m i.
Proof. exact assign_safe. Qed.
Print Assumptions C20_assign_stays_inside.

(* general form: a block as large as the sizing pass asks for (need) is enough for the filling
   pass, at every offset and nesting depth, and nothing outside [off, off + need) changes *)
Theorem C20_need_is_enough : forall fuel t off v m n,
  wf_type t = true -> 0 <= lsize t -> 0 <= off ->
  need fuel t v = Ok n -> off + n <= mlen m ->
  fill fuel t off v m <> Err SegV /\
  forall m', fill fuel t off v m = Ok m' ->
    mlen m' = mlen m /\
    forall i, 0 <= i -> i < off \/ off + n <= i -> byte m' i = byte m i.
Proof. intros fuel. exact (P_all fuel fuel (le_n _)). Qed.
Print Assumptions C20_need_is_enough.

(* "memory that is zero except where init writes", for keyword initialisers of fixed-size
   structs/unions: the block has exactly sizeof bytes and every byte that does not belong to a
   member named in the dict (for a bit-field: to its storage unit) is zero.
   (Positional initialisers are tied to keyword ones on the implementation: tools/props/c20.py
   compares ffi.new(T, [v1..vk]) with ffi.new(T, {name1: v1, ...}) over the leading
   constructor-eligible fields; no theorem.) *)
Theorem C20_unnamed_bytes_are_zero : forall fuel size fs kv m,
  wf_type (LAgg size false fs) = true ->
  new_bytes fuel (NewPtr (LAgg size false fs)) (VDict kv) = Ok m ->
  mlen m = size /\
  forall i, 0 <= i ->
    (forall k x f, In (k, x) kv -> lookup_field fs k = Some f ->
       i < lf_off f \/ lf_off f + lsize (lf_type f) <= i) ->
    byte m i = 0.
Proof. exact new_dict_unnamed_zero. Qed.
Print Assumptions C20_unnamed_bytes_are_zero.

(* History.  Before /repo commit 812503f the model had no item_guard and this file contained
     C20_sizing_dominates_refuted : exists T init, wf_type (new_target T) = true /\
                                    new_bytes FUEL T init = Err SegV
   with witness  struct V { int n; int a[]; };  ffi.new("struct V[1]", [[1, [1,2,3]]]):
   an array of var-sized structs was filled item by item, flexible parts included, but sized as
   len * sizeof.  Replayed on the real code under ASan (heap-buffer-overflow), reported as finding
   array_of_varsize_struct, repaired by the guard in convert_array_from_object that item_guard
   models.  The witnesses now raise ValueError: *)
Definition t_int := LPrim KSigned 4.
Definition t_V := LAgg 4 true [(t_int, 0, -1, -1, 0); (LArr t_int (-1), 4, -2, -1, 0)].
Example C20_former_overflow_is_refused :
  wf_type (LArr t_V 1) = true /\
  new_bytes FUEL (NewArr t_V 1) (VList [VList [VInt 1; VList [VInt 1; VInt 2; VInt 3]]]) = Err ValueError /\
  (* initialisers that fit are accepted *)
  new_bytes FUEL (NewArr t_V 2) (VList [VList [VInt 1]; VList [VInt 2; VInt 0]]) = Ok [1;0;0;0; 2;0;0;0].
Proof. repeat split; vm_compute; reflexivity. Qed.

(* the same through a struct member:  struct W { struct V arr[2]; } *)
Definition t_W := LAgg 8 false [(LArr t_V 2, 0, -1, -1, 0)].
Example C20_former_overflow_member :
  wf_type t_W = true /\ no_var_items t_W = false /\ new_bytes FUEL (NewPtr t_W)
    (VList [VList [VList [VInt 1; VList [VInt 1; VInt 2; VInt 3]]; VList [VInt 2]]]) = Err ValueError.
Proof. repeat split; vm_compute; reflexivity. Qed.

(* ---- non-vacuity: a var-sized struct nested in a struct, initialised three levels deep
   struct V { int n; int a[]; };  struct X { int k; struct V v; };
   ffi.new("struct X *", [5, [1, [7, 8, 9]]])  ->  20 bytes *)
Definition t_X := LAgg 8 true [(t_int, 0, -1, -1, 0); (t_V, 4, -1, -1, 0)].
Example C20_example_nested :
  wf_type t_X = true /\ no_var_items t_X = true /\ alloc_size FUEL (NewPtr t_X) (VList [VInt 5; VList [VInt 1; VList [VInt 7; VInt 8; VInt 9]]]) = Ok 20 /\ new_bytes FUEL (NewPtr t_X) (VList [VInt 5; VList [VInt 1; VList [VInt 7; VInt 8; VInt 9]]])
  = Ok [5;0;0;0; 1;0;0;0; 7;0;0;0; 8;0;0;0; 9;0;0;0] /\ (* a length instead of items: sized, left zero *)
  new_bytes FUEL (NewPtr t_X) (VDict [(1, VDict [(1, VInt 3)])]) = Ok (zeros 20) /\ (* errors are explicit results *)
  new_bytes FUEL (NewPtr t_X) (VList [VInt 5; VList [VInt 1; VInt (-1)]]) = Err ValueError /\ new_bytes FUEL (NewPtr t_X) (VList [VInt 5; VList []; VInt 2]) = Err ValueError /\ new_bytes FUEL (NewPtr t_X) (VDict [(7, VInt 0)]) = Err KeyError /\ new_bytes FUEL (NewPtr t_X) (VList [VInt (2 ^ 31)]) = Err OverflowError.
Proof. repeat split; vm_compute; reflexivity. Qed.

(* a union sequence sets the first member only; bit-field store is a read-modify-write *)
Definition t_U := LAgg 4 false [(t_int, 0, -1, -1, 0); (LPrim KChar 1, 0, -1, -1, 1)].
Definition t_B := LAgg 4 false [(t_int, 0, 0, 3, 0); (t_int, 0, 3, 5, 0)].
Example C20_example_union_bitfield :
  new_bytes FUEL (NewPtr t_U) (VList [VInt 258]) = Ok [2; 1; 0; 0] /\ new_bytes FUEL (NewPtr t_U) (VList [VInt 1; VBytes [65]]) = Err ValueError /\ new_bytes FUEL (NewPtr t_B) (VList [VInt (-1); VInt 9]) = Ok [79; 0; 0; 0].
Proof. repeat split; vm_compute; reflexivity. Qed.

(* flexible character arrays are sized in UNITS of the item type, not in code points:
   struct S { int n; char16_t s[]; };  ffi.new("struct S *", [1, "a\U0001F600"])  needs 4 + 2*(1+2+1) bytes *)
Definition t_S16 := LAgg 4 true [(t_int, 0, -1, -1, 0); (LArr (LPrim KChar 2) (-1), 4, -2, -1, 0)].
Example C20_example_utf16 :
  wf_type t_S16 = true /\
  new_bytes FUEL (NewPtr t_S16) (VList [VInt 1; VStr [97; 128512]])
  = Ok [1;0;0;0; 97;0; 61;216; 0;222; 0;0].
Proof. repeat split; vm_compute; reflexivity. Qed.
