(* C20 — ffi.new zero-fills and initializes exactly like assignment; flexible-array sizing.
   Statements only; proofs in C20/Proofs.v.  Model: C20/Model.v. *)
From Coq Require Import ZArith List Bool Lia.
Import ListNotations.
From Cffi Require Import C20.Model C20.Proofs.
Open Scope Z_scope.

(* ffi.new(T, init) = a zero block of the size computed by the sizing pass, then the same
   convert_from_object that an assignment performs *)
Theorem C20_new_is_assign : forall fuel T init,
  new_bytes fuel T init =
  bind (alloc_size fuel T init) (fun n =>
  if MAX_ALLOC <? n then Err MemoryError
  else match new_init T init with
       | VNone => Ok (zeros n)
       | i => assign_bytes fuel T i n
       end).
Proof. exact new_is_assign. Qed.
Print Assumptions C20_new_is_assign.

(* for types that are not var-sized: p = ffi.new(T, init) is p = ffi.new(T); p[0] = init *)
Theorem C20_new_is_literal_assign : forall fuel T init, fixed_size T -> init <> VNone ->
  new_bytes fuel T init =
  bind (new_bytes fuel T VNone) (fun m0 => fill fuel (new_target T) 0 init m0).
Proof. exact new_is_literal_assign. Qed.
Print Assumptions C20_new_is_literal_assign.

(* The sizing pass does NOT dominate the filling pass for every type cffi accepts: an array of
   var-sized structs is filled item by item, flexible parts included, but sized as len*sizeof.
   struct V { int n; int a[]; };  ffi.new("struct V[1]", [[1, [1,2,3]]])  writes 16 bytes into 4+... *)
Definition t_int := LPrim KSigned 4.
Definition t_V := LAgg 4 true [(t_int, 0, -1, -1, 0); (LArr t_int (-1), 4, -2, -1, 0)].
Theorem C20_sizing_dominates_refuted :
  exists T init, wf_type (new_target T) = true /\ new_bytes FUEL T init = Err SegV.
Proof.
  exists (NewArr t_V 1), (VList [VList [VInt 1; VList [VInt 1; VInt 2; VInt 3]]]).
  split; vm_compute; reflexivity.
Qed.
Print Assumptions C20_sizing_dominates_refuted.
