(* C20 — what the filling pass needs from the shared leaf models (C03 integer store, C02 bit-field
   write, C15 character arrays), and the bridge theorems: C20's leaves ARE those functions, with
   their closed forms (what C20/Model.v used to define privately) as consequences. *)
From Coq Require Import ZArith Lia Bool List.
Import ListNotations.
From Cffi Require C03.Mem C03.MemProofs C03.Store C03.StoreProofs C02.Spec C02.Model C02.Proofs C15.Model.
From Cffi Require Import C20.Model.
Open Scope Z_scope.

Lemma le_bytes_len n z : 0 <= n -> mlen (le_bytes n z) = n.
Proof. intros. unfold le_bytes, mlen. rewrite C03.MemProofs.length_encode_le. lia. Qed.

(* ------------------------------------------------------------------ C03: integer store *)

(* whatever the type and the value: either accepted, and the target holds isize bytes, or refused
   with a Python exception and the target unchanged; never UB *)
Lemma c03_store_shape T z old :
  (exists d, C03.Store.convert_from_object_int T z old = (C03.Store.Ok tt, d) /\ length d = C03.Store.isize T) \/
  (exists e, C03.Store.convert_from_object_int T z old = (C03.Store.Err e, old)).
Proof.
  unfold C03.Store.convert_from_object_int, C03.Store.as_longlong, C03.Store.as_ulonglong_strict.
  repeat match goal with
         | |- context [if ?c then _ else _] => destruct c
         end;
    try (right; eexists; reflexivity);
    left; eexists; (split; [reflexivity|apply C03.MemProofs.write_raw_length]).
Qed.

Lemma of_c03_len T z old bs : of_c03 (C03.Store.convert_from_object_int T z old) = Ok bs ->
  length bs = C03.Store.isize T.
Proof.
  destruct (c03_store_shape T z old) as [(d & E & L)|(e & E)]; rewrite E; cbn; intros H; inversion H.
  subst. exact L.
Qed.

Lemma of_c03_err T z old e : of_c03 (C03.Store.convert_from_object_int T z old) = Err e -> e <> SegV.
Proof.
  destruct (c03_store_shape T z old) as [(d & E & L)|(e' & E)]; rewrite E; cbn; intros H; inversion H.
  destruct e'; discriminate.
Qed.

Definition int_kind (k : pkind) : bool :=
  match k with KSigned | KUnsigned | KBool => true | _ => false end.

Lemma conv_prim_int k s z old : int_kind k = true ->
  conv_prim k s (VInt z) old = of_c03 (C03.Store.convert_from_object_int (ity_of k s) z old).
Proof. destruct k; try discriminate; reflexivity. Qed.

Lemma conv_prim_len k s v old bs : 0 < s -> conv_prim k s v old = Ok bs -> mlen bs = s.
Proof.
  intros Hs. destruct (int_kind k) eqn:Hk.
  - destruct v; try (destruct k; discriminate).
    rewrite conv_prim_int by exact Hk. intros E. apply of_c03_len in E. unfold mlen. rewrite E. cbn. lia.
  - unfold conv_prim. destruct k; try discriminate; destruct v; try discriminate;
    repeat match goal with
           | |- context [match ?l with [] => _ | _ :: _ => _ end] => destruct l
           | |- context [if ?c then _ else _] => destruct c eqn:?
           | |- context [match ?o with Some _ => _ | None => _ end] => destruct o
           end; try discriminate; intros E; inversion E;
    try (apply le_bytes_len; lia); try (subst bs; apply Z.eqb_eq; assumption).
Qed.

Lemma conv_prim_err k s v old e : conv_prim k s v old = Err e -> e <> SegV.
Proof.
  destruct (int_kind k) eqn:Hk.
  - destruct v; try (destruct k; cbn; intros E; inversion E; discriminate).
    rewrite conv_prim_int by exact Hk. apply of_c03_err.
  - unfold conv_prim. destruct k; try discriminate; destruct v; try (intros E; inversion E; discriminate);
    repeat match goal with
           | |- context [match ?l with [] => _ | _ :: _ => _ end] => destruct l
           | |- context [if ?c then _ else _] => destruct c
           | |- context [match ?o with Some _ => _ | None => _ end] => destruct o
           end; intros E; inversion E; discriminate.
Qed.

(* ------------------------------------------------------------------ C02: bit-field write *)

(* for a field narrower than long long whose bits lie inside a unit of at most 8 bytes: accepted and
   the unit holds isize bytes, or refused with the unit unchanged; never UB (whatever the unit holds) *)
Lemma c02_write_shape T w sh z old : 1 <= w < 64 -> 0 <= sh < 64 ->
  (exists d, C02.Model.bf_write T w sh z old = (C02.Model.BOk tt, d) /\ length d = C03.Store.isize T) \/
  (exists e, C02.Model.bf_write T w sh z old = (C02.Model.BErr e, old)).
Proof.
  intros Hw Hsh. unfold C02.Model.bf_write.
  destruct (Z.leb_spec 64 w); [lia|].
  unfold C03.Store.as_longlong. destruct (_ && _); [|right; eexists; reflexivity].
  rewrite C02.Proofs.bounds_eq by lia.
  destruct (_ || _); [right; eexists; reflexivity|].
  unfold C02.Model.shl_u64, C02.Model.count_ok.
  destruct (Z.leb_spec 0 w); [|lia]. destruct (Z.ltb_spec w 64); [|lia].
  destruct (Z.leb_spec 0 sh); [|lia]. destruct (Z.ltb_spec sh 64); [|lia]. cbn [andb].
  left. eexists. split; [reflexivity|apply C03.MemProofs.write_raw_length].
Qed.

Lemma conv_bitfield_len k s sh b v old bs : 0 < s -> 1 <= b < 64 -> 0 <= sh < 64 ->
  conv_bitfield k s sh b v old = Ok bs -> mlen bs = s.
Proof.
  intros Hs Hb Hsh. unfold conv_bitfield. destruct v; try discriminate.
  destruct (c02_write_shape (ity_of k s) b sh z old Hb Hsh) as [(d & E & L)|(e & E)]; rewrite E; cbn;
    intros H; inversion H. subst. unfold mlen. rewrite L. cbn. lia.
Qed.

Lemma conv_bitfield_err k s sh b v old e : 1 <= b < 64 -> 0 <= sh < 64 ->
  conv_bitfield k s sh b v old = Err e -> e <> SegV.
Proof.
  intros Hb Hsh. unfold conv_bitfield. destruct v; try (intros E; inversion E; discriminate).
  destruct (c02_write_shape (ity_of k s) b sh z old Hb Hsh) as [(d & E & L)|(e' & E)]; rewrite E; cbn;
    intros H; inversion H. destruct e'; discriminate.
Qed.

(* ------------------------------------------------------------------ C15: bytes / str into character arrays *)

Lemma sz16_count_zero s : existsb (fun c => 65535 <? c) s = false -> C15.Gen.sz16_count s = 0.
Proof.
  induction s as [|c r IH]; cbn [existsb C15.Gen.sz16_count]; [reflexivity|].
  unfold C15.Gen.sz16_astral_test. intros H. apply orb_false_iff in H. destruct H as (H1 & H2).
  change (0xFFFF) with 65535. rewrite H1, (IH H2). reflexivity.
Qed.

Lemma size16_unfold s : C15.Gen.size16 s = C15.Spec.zlen s + C15.Gen.sz16_count s.
Proof.
  unfold C15.Gen.size16, C15.Spec.PyUnicode_KIND. change (0xFFFF) with 65535.
  destruct (existsb (fun c => 65535 <? c) s) eqn:E.
  - reflexivity.
  - rewrite (sz16_count_zero s E).
    destruct (existsb (fun c : Z => 255 <? c) s);
      [change (C15.Spec.PyUnicode_2BYTE_KIND =? C15.Spec.PyUnicode_4BYTE_KIND) with false
      |change (C15.Spec.PyUnicode_1BYTE_KIND =? C15.Spec.PyUnicode_4BYTE_KIND) with false]; cbv iota; lia.
Qed.

Lemma zlen_cons a (l : list Z) : C15.Spec.zlen (a :: l) = 1 + C15.Spec.zlen l.
Proof. unfold C15.Spec.zlen. cbn [length]. lia. Qed.

Lemma as_char16_loop_len s us : C15.Gen.as_char16_loop s = C15.Spec.Ok us ->
  C15.Spec.zlen us = C15.Gen.size16 s.
Proof.
  rewrite size16_unfold. revert us. induction s as [|c r IH]; intros us; cbn [C15.Gen.as_char16_loop C15.Gen.sz16_count].
  - intros E. inversion E. reflexivity.
  - unfold C15.Gen.sz16_astral_test, C15.Gen.ac16_astral_test.
    destruct (0xFFFF <? c).
    + destruct (C15.Gen.ac16_range_test c); [discriminate|].
      destruct (C15.Gen.as_char16_loop r) as [us'|e]; [|discriminate].
      intros E. inversion E. rewrite !zlen_cons, (IH us' eq_refl). lia.
    + destruct (C15.Gen.as_char16_loop r) as [us'|e]; [|discriminate].
      intros E. inversion E. rewrite !zlen_cons, (IH us' eq_refl). lia.
Qed.

Lemma as_char16_loop_err s e : C15.Gen.as_char16_loop s = C15.Spec.Err e -> e = C15.Spec.ValueError.
Proof.
  induction s as [|c r IH]; cbn [C15.Gen.as_char16_loop]; [discriminate|].
  destruct (C15.Gen.ac16_astral_test c).
  - destruct (C15.Gen.ac16_range_test c); [intros E; inversion E; reflexivity|].
    destruct (C15.Gen.as_char16_loop r); [discriminate|]. intros E; inversion E; subst. apply IH. reflexivity.
  - destruct (C15.Gen.as_char16_loop r); [discriminate|]. intros E; inversion E; subst. apply IH. reflexivity.
Qed.

Lemma zlen_snoc (l : list Z) : C15.Spec.zlen (l ++ [0]) = C15.Spec.zlen l + 1.
Proof. unfold C15.Spec.zlen. rewrite app_length. cbn. lia. Qed.

(* the number of units convert_array stores: the units of the initialiser, plus the terminator unless
   they fill the array exactly; and more units than the declared length are refused *)
Lemma c15_convert_len t len v us :
  C15.Model.convert_array t len v = C15.Spec.Ok us ->
  let n := C15.Model.new_array_length t v - 1 in
  ((0 <=? len) && (len <? n)) = false /\ mlen us = if n =? len then n else n + 1.
Proof.
  unfold C15.Model.convert_array, C15.Model.new_array_length.
  destruct t, v as [bs|s]; try discriminate; cbv zeta.
  - replace (C15.Spec.zlen bs + 1 - 1) with (C15.Spec.zlen bs) by lia.
    destruct (_ && _); [discriminate|]. intros E; inversion E. split; [reflexivity|].
    destruct (Z.eqb_spec (C15.Spec.zlen bs) len); cbn [negb]; [reflexivity|]. apply zlen_snoc.
  - replace (C15.Gen.size16 s + 1 - 1) with (C15.Gen.size16 s) by lia.
    destruct (_ && _); [discriminate|]. unfold C15.Gen.as_char16.
    destruct (C15.Gen.as_char16_loop s) as [us0|e] eqn:El; [|discriminate].
    apply as_char16_loop_len in El. intros E; inversion E. split; [reflexivity|]. rewrite El.
    destruct (Z.eqb_spec (C15.Gen.size16 s) len); cbn [negb].
    + destruct (Z.ltb_spec (C15.Gen.size16 s) (C15.Gen.size16 s)); [lia|]. exact El.
    + destruct (Z.ltb_spec (C15.Gen.size16 s) (C15.Gen.size16 s + 1)); [|lia].
      change (mlen (us0 ++ [0])) with (C15.Spec.zlen (us0 ++ [0])). rewrite zlen_snoc. lia.
  - unfold C15.Gen.size32. replace (C15.Spec.zlen s + 1 - 1) with (C15.Spec.zlen s) by lia.
    destruct (_ && _); [discriminate|]. unfold C15.Gen.as_char32, C15.Spec.PyUnicode_AsUCS4.
    destruct (Z.eqb_spec (C15.Spec.zlen s) len); cbn [negb].
    + destruct (Z.ltb_spec (C15.Spec.zlen s) (C15.Spec.zlen s)); [lia|].
      destruct (Z.ltb_spec (C15.Spec.zlen s) (C15.Spec.zlen s + 0)); [lia|].
      intros E; inversion E. split; reflexivity.
    + destruct (Z.ltb_spec (C15.Spec.zlen s) (C15.Spec.zlen s + 1)); [|lia].
      destruct (Z.ltb_spec (C15.Spec.zlen s + 1) (C15.Spec.zlen s + 1)); [lia|].
      intros E; inversion E. split; [reflexivity|]. apply zlen_snoc.
Qed.

(* only IndexError, TypeError, ValueError *)
Lemma c15_convert_err t len v e :
  C15.Model.convert_array t len v = C15.Spec.Err e -> of_exn e <> SegV.
Proof.
  unfold C15.Model.convert_array.
  destruct t, v as [bs|s]; try (intros E; inversion E; discriminate); cbv zeta.
  - destruct (_ && _); intros E; inversion E; discriminate.
  - destruct (_ && _); [intros E; inversion E; discriminate|]. unfold C15.Gen.as_char16.
    destruct (C15.Gen.as_char16_loop s) as [us0|e0] eqn:El; [discriminate|].
    apply as_char16_loop_err in El. intros E; inversion E; subst. discriminate.
  - destruct (_ && _); [intros E; inversion E; discriminate|].
    unfold C15.Gen.as_char32, C15.Gen.size32, C15.Spec.PyUnicode_AsUCS4.
    destruct (Z.eqb_spec (C15.Spec.zlen s) len); cbn [negb].
    + destruct (Z.ltb_spec (C15.Spec.zlen s) (C15.Spec.zlen s)); [lia|].
      destruct (Z.ltb_spec (C15.Spec.zlen s) (C15.Spec.zlen s + 0)); [lia|discriminate].
    + destruct (Z.ltb_spec (C15.Spec.zlen s) (C15.Spec.zlen s + 1)); [|lia].
      destruct (Z.ltb_spec (C15.Spec.zlen s + 1) (C15.Spec.zlen s + 1)); [lia|discriminate].
Qed.

Lemma new_array_length_pos t v : 1 <= C15.Model.new_array_length t v.
Proof.
  unfold C15.Model.new_array_length. destruct v as [bs|s].
  - unfold C15.Spec.zlen. lia.
  - destruct t; try (unfold C15.Gen.size32, C15.Spec.zlen; lia).
    rewrite size16_unfold. assert (0 <= C15.Gen.sz16_count s).
    { induction s as [|c r IH]; cbn [C15.Gen.sz16_count]; [lia|]. destruct (C15.Gen.sz16_astral_test c); lia. }
    unfold C15.Spec.zlen. lia.
Qed.

(* ------------------------------------------------------------------ bridge theorems *)

Lemma ity_of_wf k s : 1 <= s <= 8 -> C03.StoreProofs.wf_ity (ity_of k s).
Proof.
  intros H. split; cbn [ity_of C03.Store.isize C03.Store.ibool C03.Store.isigned]; [lia|].
  destruct k; try discriminate; reflexivity.
Qed.

(* integer / _Bool primitives: the closed form the private copy used to spell out — accepted iff in
   the type's range (C03.in_range), then the little-endian bytes; else OverflowError *)
Lemma prim_closed_form k s z old : int_kind k = true -> 1 <= s <= 8 ->
  conv_prim k s (VInt z) old =
  if C03.Store.in_range (ity_of k s) z then Ok (le_bytes s (z mod 2 ^ 64)) else Err OverflowError.
Proof.
  intros Hk Hs. rewrite conv_prim_int by exact Hk.
  rewrite C03.StoreProofs.store_exact by (apply ity_of_wf; exact Hs).
  destruct (C03.Store.in_range (ity_of k s) z); reflexivity.
Qed.

(* ... and what is stored reads back as z (convert_to_object's integer branch) *)
Lemma prim_roundtrip k s z old bs : int_kind k = true -> 1 <= s <= 8 ->
  conv_prim k s (VInt z) old = Ok bs ->
  C03.Store.in_range (ity_of k s) z = true /\ C03.Store.read_int (ity_of k s) bs = z.
Proof.
  intros Hk Hs. rewrite conv_prim_int by exact Hk.
  rewrite C03.StoreProofs.store_exact by (apply ity_of_wf; exact Hs).
  destruct (C03.Store.in_range (ity_of k s) z) eqn:Hr; cbn; intros E; inversion E.
  split; [reflexivity|]. apply C03.StoreProofs.read_encode; [apply ity_of_wf; exact Hs|exact Hr].
Qed.

Lemma bitfield_is_c02 k s sh w z old :
  conv_bitfield k s sh w (VInt z) old = of_c02 (C02.Model.bf_write (ity_of k s) w sh z old).
Proof. reflexivity. Qed.

(* a bit-field store that succeeds reads back as z (-1 for the signed 1-bit field given 1) and leaves
   every bit of the unit outside [sh, sh+w) as it was: C02's theorems, on C20's leaf *)
Lemma bitfield_roundtrip k s sh w z old bs :
  C02.Proofs.placement (ity_of k s) w sh -> C02.Proofs.unit_ok (ity_of k s) old ->
  conv_bitfield k s sh w (VInt z) old = Ok bs ->
  C02.Model.bf_read (ity_of k s) w sh bs =
    C02.Model.BOk (if C03.Store.isigned (ity_of k s) && (w =? 1) && (z =? 1) then -1 else z) /\
  forall i, 0 <= i -> ~ (sh <= i < sh + w) ->
    Z.testbit (C03.Mem.read_raw_unsigned bs) i = Z.testbit (C03.Mem.read_raw_unsigned old) i.
Proof.
  intros Hp Hu. rewrite bitfield_is_c02.
  destruct (C02.Model.bf_write (ity_of k s) w sh z old) as [[[]|e|] d] eqn:E; cbn; intros H; inversion H; subst d.
  split.
  - exact (C02.Proofs.roundtrip _ _ _ _ _ _ Hp Hu E).
  - exact (proj2 (C02.Proofs.isolated _ _ _ _ _ _ Hp Hu E)).
Qed.

(* wf_type's bit-field clause is C02's placement *)
Lemma wf_bitfield_placement k s sh w :
  0 < s -> ((0 <? w) && (sh + w <=? 8 * s) && (s <=? 8)) = true -> 0 <= sh ->
  (k = KBool -> s = 1) ->
  C02.Proofs.placement (ity_of k s) w sh.
Proof.
  intros Hs H Hsh Hb. rewrite !andb_true_iff in H. destruct H as ((A & B) & C).
  apply Z.ltb_lt in A. apply Z.leb_le in B. apply Z.leb_le in C.
  constructor; cbn [ity_of C03.Store.isize C03.Store.ibool C03.Store.isigned]; try lia.
  intros Hk. destruct k; try discriminate. split; [|reflexivity]. rewrite (Hb eq_refl). reflexivity.
Qed.

(* character arrays: bytes / str initialisers go through C15's convert_array (regenerated helpers
   of wchar_helper_3.h), units then stored little-endian *)
Lemma char_array_is_c15_str fuel s len off c m :
  fill (S fuel) (LArr (LPrim KChar s) len) off (VStr c) m =
  if s =? 1 then Err TypeError
  else bind (of_c15 (C15.Model.convert_array (ety_of s) len (C15.Model.PStr c)))
            (fun us => write off (flat_map (le_bytes s) us) m).
Proof. cbn [fill fill_array wide_char_item lsize]. destruct (s =? 1); reflexivity. Qed.

Lemma char_array_is_c15_bytes fuel k s len off b m :
  k = KChar \/ k = KSigned \/ k = KUnsigned ->
  fill (S fuel) (LArr (LPrim k s) len) off (VBytes b) m =
  if s =? 1 then bind (of_c15 (C15.Model.convert_array C15.Model.E8 len (C15.Model.PBytes b)))
                      (fun src => write off src m)
  else Err TypeError.
Proof.
  intros [->|[->| ->]]; cbn [fill fill_array one_byte_item is_bool_item lsize andb];
    destruct (s =? 1); reflexivity.
Qed.

(* ffi.new("T[]", str/bytes) allocates C15's new_array_length units *)
Lemma open_char_array_size fuel s v pv :
  (v = VStr pv /\ 0 <= 0) \/ v = VBytes pv ->
  alloc_size fuel (NewArr (LPrim KChar s) (-1)) v =
  let n := C15.Model.new_array_length (ety_of s)
             (match v with VStr c => C15.Model.PStr c | _ => C15.Model.PBytes pv end) in
  if SSIZE_MAX <? n * s then Err OverflowError else Ok (n * s).
Proof. intros [(-> & _)| ->]; reflexivity. Qed.
