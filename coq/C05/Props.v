(* C05 — Floating-point and complex stores round-trip with C conversion semantics.
   Statements only; proofs are in C05/Proofs.v.

   Reading: "the IEEE-754 value C obtains by converting that double to the target type" is the
   IEEE-754 conversion binary64 -> binary32 in round-to-nearest-even (Flocq's `round radix2
   (FLT_exp (-149) 24) ZnearestE`), overflow to infinity, NaN to NaN, zeros and infinities kept
   with their sign.  The model functions (C05/Model.v: narrow, widen, write_raw_float_data ...)
   are the ones evaluated by the correspondence check against the implementation and against gcc.
   Print Assumptions lists the stdlib real-number axioms (through Flocq) — expected. *)
From Coq Require Import ZArith List Bool Reals.
From Flocq Require Import Core.Core IEEE754.BinarySingleNaN IEEE754.Binary IEEE754.Bits.
From Cffi Require Import C05.Model C05.Proofs.
Import ListNotations.
Open Scope Z_scope.

(* (float)x is round-to-nearest-even of the real value of x, for EVERY finite binary64 x
   (zeros and subnormals included); when the rounded value does not fit, infinity of the sign *)
Theorem C05_narrow_is_round_to_nearest_even : forall x : binary64,
  Binary.is_finite 53 1024 x = true ->
  let r := round radix2 (FLT_exp (-149) 24) ZnearestE (Binary.B2R 53 1024 x) in
  if Rlt_bool (Rabs r) (bpow radix2 128) then
    Binary.B2R 24 128 (narrow x) = r /\
    Binary.is_finite 24 128 (narrow x) = true /\
    Binary.Bsign 24 128 (narrow x) = Binary.Bsign 53 1024 x
  else
    narrow x = B754_infinity 24 128 (Binary.Bsign 53 1024 x).
Proof. exact narrow_finite_correct. Qed.
Print Assumptions C05_narrow_is_round_to_nearest_even.

(* where the overflow happens: from 2^128 - 2^103 (the tie between FLT_MAX and 2^128, which is the double
   0x47effffff0000000) upwards — and only there — the result is infinity; up to the preceding double (0x47efffffefffffff, proved to be
   its binary64 predecessor) it is finite and correctly rounded *)
Theorem C05_overflow_threshold :
  (* iff: a finite double overflows exactly from the threshold upwards ... *)
  (forall x : binary64,
   Binary.is_finite 53 1024 x = true ->
   (Binary.is_finite 24 128 (narrow x) = false <->
    (Binary.B2R 53 1024 (b64_of_bits 0x47effffff0000000) <= Rabs (Binary.B2R 53 1024 x))%R)) /\
  (* ... where the result is the infinity of its sign ... *)
  (forall x : binary64,
   Binary.is_finite 53 1024 x = true ->
   (Binary.B2R 53 1024 (b64_of_bits 0x47effffff0000000) <= Rabs (Binary.B2R 53 1024 x))%R ->
   narrow x = B754_infinity 24 128 (Binary.Bsign 53 1024 x)) /\
  (* ... below it the result is finite and correctly rounded ... *)
  (forall x : binary64,
   Binary.is_finite 53 1024 x = true ->
   (Rabs (Binary.B2R 53 1024 x) <= Binary.B2R 53 1024 (b64_of_bits 0x47efffffefffffff))%R ->
   Binary.is_finite 24 128 (narrow x) = true /\
   Binary.B2R 24 128 (narrow x) =
     round radix2 (FLT_exp (-149) 24) ZnearestE (Binary.B2R 53 1024 x)) /\
  (* ... and the two cases are exhaustive: 0x47efffffefffffff is the binary64 predecessor of the threshold
     (Flocq's pred), so no double lies strictly between them *)
  (Binary.B2R 53 1024 (b64_of_bits 0x47efffffefffffff) =
     pred radix2 (FLT_exp (-1074) 53) (Binary.B2R 53 1024 (b64_of_bits 0x47effffff0000000)) /\
   forall x : binary64,
     (Rabs (Binary.B2R 53 1024 x) < Binary.B2R 53 1024 (b64_of_bits 0x47effffff0000000))%R ->
     (Rabs (Binary.B2R 53 1024 x) <= Binary.B2R 53 1024 (b64_of_bits 0x47efffffefffffff))%R).
Proof.
  exact (conj narrow_overflow_iff (conj narrow_overflow (conj narrow_no_overflow
          (conj B2R_thr_lo_is_pred below_thr_hi_le_thr_lo)))).
Qed.
Print Assumptions C05_overflow_threshold.

(* classes: signed zeros and infinities are kept, NaN stays NaN and nothing else becomes NaN,
   in both directions (store: double -> float, read: float -> double) *)
Theorem C05_classes_preserved :
  ((forall s, narrow (B754_zero 53 1024 s) = B754_zero 24 128 s) /\
   (forall s, narrow (B754_infinity 53 1024 s) = B754_infinity 24 128 s) /\
   (forall x, Binary.is_nan 24 128 (narrow x) = Binary.is_nan 53 1024 x)) /\
  ((forall s, widen (B754_zero 24 128 s) = B754_zero 53 1024 s) /\
   (forall s, widen (B754_infinity 24 128 s) = B754_infinity 53 1024 s) /\
   (forall x, Binary.is_nan 53 1024 (widen x) = Binary.is_nan 24 128 x)).
Proof. exact (conj narrow_classes widen_classes). Qed.
Print Assumptions C05_classes_preserved.

(* reading a float (float -> double) is exact; "and reading returns it" is stable: storing what was read gives
   back the same float for every non-NaN binary32 (subnormals, zeros, infinities included), also on the
   2^32 - 2^24 + 2 non-NaN bit patterns *)
Theorem C05_read_is_exact_and_stable :
  (forall x : binary32,
   Binary.is_finite 24 128 x = true ->
   Binary.B2R 53 1024 (widen x) = Binary.B2R 24 128 x /\
   Binary.is_finite 53 1024 (widen x) = true /\
   Binary.Bsign 53 1024 (widen x) = Binary.Bsign 24 128 x) /\
  (forall x : binary32,
   Binary.is_nan 24 128 x = false -> narrow (widen x) = x) /\
  (forall f : Z,
   0 <= f < 2 ^ 32 -> is_nan32_bits f = false -> narrow_bits (widen_bits f) = f).
Proof. exact (conj widen_finite_correct (conj narrow_widen narrow_widen_bits_concrete)). Qed.
Print Assumptions C05_read_is_exact_and_stable.

(* a double that already holds a binary32 value is stored unchanged *)
Theorem C05_representable_unchanged : forall x : binary64,
  Binary.is_finite 53 1024 x = true ->
  generic_format radix2 (FLT_exp (-149) 24) (Binary.B2R 53 1024 x) ->
  (Rabs (Binary.B2R 53 1024 x) < bpow radix2 128)%R ->
  Binary.B2R 24 128 (narrow x) = Binary.B2R 53 1024 x /\
  Binary.is_finite 24 128 (narrow x) = true /\
  Binary.Bsign 24 128 (narrow x) = Binary.Bsign 53 1024 x.
Proof. exact narrow_representable. Qed.
Print Assumptions C05_representable_unchanged.

(* the bytes: after write_raw_float_data(float) the 4 bytes hold (float)d, and read_raw_float_data
   returns exactly that float as a double; for double the 8 bytes are the pattern itself *)
Theorem C05_store_then_read : forall d rest, 0 <= d < 2 ^ 64 ->
  (let mem := write_raw_float_data F32 d ++ rest in
   b32_of_bits (decode_le (firstn 4 mem)) = narrow (b64_of_bits d) /\
   b64_of_bits (read_raw_float_data F32 mem) = widen (narrow (b64_of_bits d))) /\
  (let mem := write_raw_float_data F64 d ++ rest in
   decode_le (firstn 8 mem) = d /\ read_raw_float_data F64 mem = d).
Proof. exact (fun d rest H => conj (float_store_read d rest H) (double_store_read d rest H)). Qed.
Print Assumptions C05_store_then_read.

(* complex: real part at offset 0, imaginary part at offset sizeof(type), each stored exactly as a float store
   of that component (store and cast paths), and both parts read back as the float read would *)
Theorem C05_complex_componentwise :
  (forall k v mem,
   store_complex k v = Ok mem ->
   exists re im, PyComplex_AsCComplex v = Ok (re, im) /\
     firstn (fsize k) mem = write_raw_float_data k re /\
     skipn (fsize k) mem = write_raw_float_data k im /\
     store_float k (PyFloat re) = Ok (firstn (fsize k) mem) /\
     store_float k (PyFloat im) = Ok (skipn (fsize k) mem)) /\
  (forall k v mem,
   cast_complex k v = Ok mem ->
   exists re im,
     firstn (fsize k) mem = write_raw_float_data k re /\
     skipn (fsize k) mem = write_raw_float_data k im /\
     match check_bytes_for_float_compatible v with
     | Some (Some d) => re = d /\ im = pos_zero
     | _ => PyComplex_AsCComplex v = Ok (re, im)
     end) /\
  (forall k re im, 0 <= re < 2 ^ 64 -> 0 <= im < 2 ^ 64 ->
   read_raw_complex_data k (write_raw_complex_data k re im) =
   (read_raw_float_data k (write_raw_float_data k re), read_raw_float_data k (write_raw_float_data k im))).
Proof. exact (conj store_complex_componentwise (conj cast_complex_componentwise read_write_raw_complex)). Qed.
Print Assumptions C05_complex_componentwise.

(* ffi.cast and a store agree on floats, objects with __float__ and ints; a 1-char bytes/str is accepted by the
   cast only and contributes its ordinal exactly; a Python int is correctly rounded (OverflowError exactly when
   the rounded value is out of range) *)
Theorem C05_python_value_conversions :
  (forall k v,
   match v with
   | PyBytes _ | PyStr _ => store_float k v = Err TypeError
   | _ => cast_float k v = store_float k v
   end) /\
  (forall n : Z, 0 <= n < 2 ^ 24 ->
   cast_float F64 (PyStr [n]) = Ok (write_raw_float_data F64 (double_of_ordinal n)) /\
   cast_float F32 (PyStr [n]) = Ok (write_raw_float_data F32 (double_of_ordinal n)) /\
   Binary.B2R 53 1024 (b64_of_bits (double_of_ordinal n)) = IZR n /\
   Binary.B2R 24 128 (narrow (b64_of_bits (double_of_ordinal n))) = IZR n) /\
  (forall n : Z,
   let r := round radix2 (FLT_exp (-1074) 53) ZnearestE (IZR n) in
   if Rlt_bool (Rabs r) (bpow radix2 1024) then
     exists d, int_to_double n = Some d /\ 0 <= d < 2 ^ 64 /\
               Binary.B2R 53 1024 (b64_of_bits d) = r /\ Binary.is_finite 53 1024 (b64_of_bits d) = true
   else int_to_double n = None).
Proof. exact (conj cast_float_vs_store (conj char_ordinal_exact int_to_double_correct)). Qed.
Print Assumptions C05_python_value_conversions.

(* long double: read then write (convert_to_object, convert_from_object from a long double cdata,
   do_cast long double -> long double) keeps the 10 value bytes, whatever the 6 padding bytes *)
Theorem C05_longdouble_copy_keeps_value_bytes : forall src pad,
  Forall is_byte src -> (10 <= length src)%nat ->
  firstn 10 (longdouble_copy src pad) = firstn 10 src.
Proof. exact longdouble_copy_value_bytes. Qed.
Print Assumptions C05_longdouble_copy_keeps_value_bytes.

(* ---- non-vacuity / concrete values (struct.pack('<d', x) patterns in, struct.pack('<f') patterns out) *)
Example C05_examples :
  map narrow_bits
    [ 0x3ff0000000000000        (* 1.0 *)
    ; 0x3ff0000010000000        (* 1 + 2^-24 : tie, to even (down) *)
    ; 0x3ff0000030000000        (* 1 + 3*2^-24 : tie, to even (up) *)
    ; 0x3ff0000010000001        (* just above the tie *)
    ; 0x47efffffefffffff        (* largest double that rounds to FLT_MAX *)
    ; 0x47effffff0000000        (* smallest double that overflows *)
    ; 0xc7effffff0000000
    ; 0x36a0000000000000        (* 2^-149 : smallest float subnormal *)
    ; 0x3690000000000000        (* 2^-150 : tie with 0, to even = 0 *)
    ; 0x3690000000000001        (* just above: rounds to 2^-149 *)
    ; 0x380fffffffffffff        (* just below FLT_MIN: rounds up to the normal range *)
    ; 0x0000000000000001        (* smallest double subnormal *)
    ; 0x8000000000000000        (* -0.0 *)
    ; 0x7ff0000000000000; 0xfff0000000000000
    ; 0x7ff0000000000001; 0xfff8000000000000 ]  (* NaNs: signalling, quiet negative *)
  = [ 0x3f800000; 0x3f800000; 0x3f800002; 0x3f800001; 0x7f7fffff; 0x7f800000; 0xff800000;
      0x00000001; 0x00000000; 0x00000001; 0x00800000; 0x00000000; 0x80000000;
      0x7f800000; 0xff800000; 0x7fc00000; 0x7fc00000 ].
Proof. vm_compute. reflexivity. Qed.

Example C05_example_paths :
  observe TFloat Store (PyFloat 0x3ff0000010000001) = Ok ([0x3f800001], [0x3ff0000020000000]) /\
  observe TFloatComplex Store (PyFloat 0xbff0000000000000) = Ok ([0xbf800000; 0], [0xbff0000000000000; 0]) /\
  observe TDoubleComplex Cast (PyComplex 0x7ff0000000000000 0x8000000000000000)
     = Ok ([0x7ff0000000000000; 0x8000000000000000], [0x7ff0000000000000; 0x8000000000000000]) /\
  observe TFloat Cast (PyStr [0x10FFFF]) = Ok ([0x4987fff8], [0x4130ffff00000000]) /\
  observe TFloat Store (PyStr [65]) = Err TypeError /\
  observe TDouble Cast (PyBytes [65; 66]) = Err TypeError /\
  observe TDouble Store (PyInt (2 ^ 1024)) = Err OverflowError /\
  observe TDouble Store (PyInt (2 ^ 53 + 1)) = Ok ([0x4340000000000000], [0x4340000000000000]) /\
  observe TFloat Store (PyComplex 0 0) = Err TypeError.
Proof. vm_compute. repeat split. Qed.

Example C05_example_longdouble :
  firstn 10 (longdouble_copy [0;0;0;0;0;0;0;128;255;63; 1;2;3;4;5;6] [9;9;9;9;9;9])
  = [0;0;0;0;0;0;0;128;255;63].
Proof. vm_compute. reflexivity. Qed.
