(* C05 — Floating-point and complex stores round-trip with C conversion semantics.
   Statements only; proofs are in C05/Proofs.v.

   Reading: "the IEEE-754 value C obtains by converting that double to the target type" is the
   IEEE-754 conversion binary64 -> binary32 in round-to-nearest-even (Flocq's `round radix2
   (FLT_exp (-149) 24) ZnearestE`), overflow to infinity, NaN to NaN, zeros and infinities kept
   with their sign.  The model functions (C05/Model.v: narrow, widen, write_raw_float_data ...)
   are the ones evaluated by the correspondence check against the implementation and against gcc.
   Print Assumptions lists the stdlib real-number axioms (through Flocq) — expected. *)
From Coq Require Import String ZArith List Bool Reals.
From Flocq Require Import Core.Core IEEE754.BinarySingleNaN IEEE754.Binary IEEE754.Bits.
From Cffi Require Import C03.Mem C05.Model C05.Proofs C05.XModel C05.XProofs C05.IR C05.Gen C05.Interp C05.GenProofs.
Import ListNotations.
Open Scope list_scope.
Open Scope Z_scope.

(* (float)x is round-to-nearest-even of the real value of x, for EVERY finite binary64 x
   (zeros and subnormals included); when the rounded value does not fit, infinity of the sign *)
Theorem C05_narrow_is_round_to_nearest_even : forall x : binary64,
  Binary.is_finite 53 1024 x = true ->
  let r := round radix2 (FLT_exp (-149) 24) ZnearestE (Binary.B2R 53 1024 x) in
  if Rlt_bool (Rabs r) (bpow radix2 128) then
    Binary.B2R 24 128 (narrow x) = r /\
    Binary.is_finite 24 128 (narrow x) = true /\
    Binary.Bsign 24 128 (narrow x) = Binary.Bsign 53 1024 x
  else
    narrow x = B754_infinity 24 128 (Binary.Bsign 53 1024 x).
Proof. exact narrow_finite_correct. Qed.
Print Assumptions C05_narrow_is_round_to_nearest_even.

(* where the overflow happens: from 2^128 - 2^103 (the tie between FLT_MAX and 2^128, which is the double
   0x47effffff0000000) upwards — and only there — the result is infinity; up to the preceding double (0x47efffffefffffff, proved to be
   its binary64 predecessor) it is finite and correctly rounded *)
Theorem C05_overflow_threshold :
  (* iff: a finite double overflows exactly from the threshold upwards ... *)
  (forall x : binary64,
   Binary.is_finite 53 1024 x = true ->
   (Binary.is_finite 24 128 (narrow x) = false <->
    (Binary.B2R 53 1024 (b64_of_bits 0x47effffff0000000) <= Rabs (Binary.B2R 53 1024 x))%R)) /\
  (* ... where the result is the infinity of its sign ... *)
  (forall x : binary64,
   Binary.is_finite 53 1024 x = true ->
   (Binary.B2R 53 1024 (b64_of_bits 0x47effffff0000000) <= Rabs (Binary.B2R 53 1024 x))%R ->
   narrow x = B754_infinity 24 128 (Binary.Bsign 53 1024 x)) /\
  (* ... below it the result is finite and correctly rounded ... *)
  (forall x : binary64,
   Binary.is_finite 53 1024 x = true ->
   (Rabs (Binary.B2R 53 1024 x) <= Binary.B2R 53 1024 (b64_of_bits 0x47efffffefffffff))%R ->
   Binary.is_finite 24 128 (narrow x) = true /\
   Binary.B2R 24 128 (narrow x) =
     round radix2 (FLT_exp (-149) 24) ZnearestE (Binary.B2R 53 1024 x)) /\
  (* ... and the two cases are exhaustive: 0x47efffffefffffff is the binary64 predecessor of the threshold
     (Flocq's pred), so no double lies strictly between them *)
  (Binary.B2R 53 1024 (b64_of_bits 0x47efffffefffffff) =
     pred radix2 (FLT_exp (-1074) 53) (Binary.B2R 53 1024 (b64_of_bits 0x47effffff0000000)) /\
   forall x : binary64,
     (Rabs (Binary.B2R 53 1024 x) < Binary.B2R 53 1024 (b64_of_bits 0x47effffff0000000))%R ->
     (Rabs (Binary.B2R 53 1024 x) <= Binary.B2R 53 1024 (b64_of_bits 0x47efffffefffffff))%R).
Proof.
  exact (conj narrow_overflow_iff (conj narrow_overflow (conj narrow_no_overflow
          (conj B2R_thr_lo_is_pred below_thr_hi_le_thr_lo)))).
Qed.
Print Assumptions C05_overflow_threshold.

(* classes: signed zeros and infinities are kept, NaN stays NaN and nothing else becomes NaN,
   in both directions (store: double -> float, read: float -> double) *)
Theorem C05_classes_preserved :
  ((forall s, narrow (B754_zero 53 1024 s) = B754_zero 24 128 s) /\
   (forall s, narrow (B754_infinity 53 1024 s) = B754_infinity 24 128 s) /\
   (forall x, Binary.is_nan 24 128 (narrow x) = Binary.is_nan 53 1024 x)) /\
  ((forall s, widen (B754_zero 24 128 s) = B754_zero 53 1024 s) /\
   (forall s, widen (B754_infinity 24 128 s) = B754_infinity 53 1024 s) /\
   (forall x, Binary.is_nan 53 1024 (widen x) = Binary.is_nan 24 128 x)).
Proof. exact (conj narrow_classes widen_classes). Qed.
Print Assumptions C05_classes_preserved.

(* reading a float (float -> double) is exact; "and reading returns it" is stable: storing what was read gives
   back the same float for every non-NaN binary32 (subnormals, zeros, infinities included), also on the
   2^32 - 2^24 + 2 non-NaN bit patterns *)
Theorem C05_read_is_exact_and_stable :
  (forall x : binary32,
   Binary.is_finite 24 128 x = true ->
   Binary.B2R 53 1024 (widen x) = Binary.B2R 24 128 x /\
   Binary.is_finite 53 1024 (widen x) = true /\
   Binary.Bsign 53 1024 (widen x) = Binary.Bsign 24 128 x) /\
  (forall x : binary32,
   Binary.is_nan 24 128 x = false -> narrow (widen x) = x) /\
  (forall f : Z,
   0 <= f < 2 ^ 32 -> is_nan32_bits f = false -> narrow_bits (widen_bits f) = f).
Proof. exact (conj widen_finite_correct (conj narrow_widen narrow_widen_bits_concrete)). Qed.
Print Assumptions C05_read_is_exact_and_stable.

(* a double that already holds a binary32 value is stored unchanged *)
Theorem C05_representable_unchanged : forall x : binary64,
  Binary.is_finite 53 1024 x = true ->
  generic_format radix2 (FLT_exp (-149) 24) (Binary.B2R 53 1024 x) ->
  (Rabs (Binary.B2R 53 1024 x) < bpow radix2 128)%R ->
  Binary.B2R 24 128 (narrow x) = Binary.B2R 53 1024 x /\
  Binary.is_finite 24 128 (narrow x) = true /\
  Binary.Bsign 24 128 (narrow x) = Binary.Bsign 53 1024 x.
Proof. exact narrow_representable. Qed.
Print Assumptions C05_representable_unchanged.

(* the bytes: after write_raw_float_data(float) the 4 bytes hold (float)d, and read_raw_float_data
   returns exactly that float as a double; for double the 8 bytes are the pattern itself *)
Theorem C05_store_then_read : forall d rest, 0 <= d < 2 ^ 64 ->
  (let mem := write_raw_float_data F32 d ++ rest in
   b32_of_bits (decode_le (firstn 4 mem)) = narrow (b64_of_bits d) /\
   b64_of_bits (read_raw_float_data F32 mem) = widen (narrow (b64_of_bits d))) /\
  (let mem := write_raw_float_data F64 d ++ rest in
   decode_le (firstn 8 mem) = d /\ read_raw_float_data F64 mem = d).
Proof. exact (fun d rest H => conj (float_store_read d rest H) (double_store_read d rest H)). Qed.
Print Assumptions C05_store_then_read.

(* complex: real part at offset 0, imaginary part at offset sizeof(type), each stored exactly as a float store
   of that component (store and cast paths), and both parts read back as the float read would *)
Theorem C05_complex_componentwise :
  (forall k v mem,
   store_complex k v = Ok mem ->
   exists re im, PyComplex_AsCComplex v = Ok (re, im) /\
     firstn (fsize k) mem = write_raw_float_data k re /\
     skipn (fsize k) mem = write_raw_float_data k im /\
     store_float k (PyFloat re) = Ok (firstn (fsize k) mem) /\
     store_float k (PyFloat im) = Ok (skipn (fsize k) mem)) /\
  (forall k v mem,
   cast_complex k v = Ok mem ->
   exists re im,
     firstn (fsize k) mem = write_raw_float_data k re /\
     skipn (fsize k) mem = write_raw_float_data k im /\
     match check_bytes_for_float_compatible v with
     | Some (Some d) => re = d /\ im = pos_zero
     | _ => PyComplex_AsCComplex v = Ok (re, im)
     end) /\
  (forall k re im, 0 <= re < 2 ^ 64 -> 0 <= im < 2 ^ 64 ->
   read_raw_complex_data k (write_raw_complex_data k re im) =
   (read_raw_float_data k (write_raw_float_data k re), read_raw_float_data k (write_raw_float_data k im))).
Proof. exact (conj store_complex_componentwise (conj cast_complex_componentwise read_write_raw_complex)). Qed.
Print Assumptions C05_complex_componentwise.

(* ffi.cast and a store agree on floats, objects with __float__ and ints; a 1-char bytes/str is accepted by the
   cast only and contributes its ordinal exactly; a Python int is correctly rounded (OverflowError exactly when
   the rounded value is out of range) *)
Theorem C05_python_value_conversions :
  (forall k v,
   match v with
   | PyBytes _ | PyStr _ => store_float k v = Err TypeError
   | _ => cast_float k v = store_float k v
   end) /\
  (forall n : Z, 0 <= n < 2 ^ 24 ->
   cast_float F64 (PyStr [n]) = Ok (write_raw_float_data F64 (double_of_ordinal n)) /\
   cast_float F32 (PyStr [n]) = Ok (write_raw_float_data F32 (double_of_ordinal n)) /\
   Binary.B2R 53 1024 (b64_of_bits (double_of_ordinal n)) = IZR n /\
   Binary.B2R 24 128 (narrow (b64_of_bits (double_of_ordinal n))) = IZR n) /\
  (forall n : Z,
   let r := round radix2 (FLT_exp (-1074) 53) ZnearestE (IZR n) in
   if Rlt_bool (Rabs r) (bpow radix2 1024) then
     exists d, int_to_double n = Some d /\ 0 <= d < 2 ^ 64 /\
               Binary.B2R 53 1024 (b64_of_bits d) = r /\ Binary.is_finite 53 1024 (b64_of_bits d) = true
   else int_to_double n = None).
Proof. exact (conj cast_float_vs_store (conj char_ordinal_exact int_to_double_correct)). Qed.
Print Assumptions C05_python_value_conversions.

(* long double: read then write (convert_to_object, convert_from_object from a long double cdata,
   do_cast long double -> long double) keeps the 10 value bytes, whatever the 6 padding bytes *)
Theorem C05_longdouble_copy_keeps_value_bytes : forall src pad,
  Forall is_byte src -> (10 <= length src)%nat ->
  firstn 10 (longdouble_copy src pad) = firstn 10 src.
Proof. exact longdouble_copy_value_bytes. Qed.
Print Assumptions C05_longdouble_copy_keeps_value_bytes.

(* ---- the regenerated code.  C05/Gen.v holds, regenerated from src/c/_cffi_backend.c on every run, the statement
   lists of the macros _write_raw_data / _write_raw_complex_data / _read_raw_data, the types they are
   instantiated with in read/write_raw_{float,longdouble,complex}_data, the branch order and return codes of
   check_bytes_for_float_compatible, and the statements of the float and complex branches of convert_from_object
   and do_cast.  C05/Interp.v executes them (Some = every statement had a meaning).  Executed on a fresh object,
   they ARE the Model.v functions all theorems above speak about: *)
Theorem C05_gen_store_refines :
  (forall k v, gen_store_float k v = Some (store_float k v)) /\
  (forall k v, gen_store_complex k v = Some (store_complex k v)) /\
  (forall k v, gen_cast_float k v = Some (cast_float k v)) /\
  (forall k v, gen_cast_complex k v = Some (cast_complex k v)).
Proof.
  exact (conj gen_store_float_refines (conj gen_store_complex_refines
          (conj gen_cast_float_refines gen_cast_complex_refines))).
Qed.
Print Assumptions C05_gen_store_refines.

(* ... and at any offset of any memory, for every target (float, double, long double), every source (Python
   object or primitive cdata: the long double -> long double special case, cdata_float, do_cast's
   convert_to_object prologue) and any long double padding, they are the extended hand model C05/XModel.v,
   which on Python-object sources and float/double targets is Model.v's result placed at that offset *)
Theorem C05_gen_at_refines :
  (forall t pad init off mem, gen_store_float_at t pad init off mem = Some (xstore_float_at t pad init off mem)) /\
  (forall k init off mem, (off + fsize k <= length mem)%nat ->
     gen_store_complex_at k init off mem = Some (xstore_complex_at k init off mem)) /\
  (forall t pad ob off mem, gen_cast_float_at t pad ob off mem = Some (xcast_float_at t pad ob off mem)) /\
  (forall k ob off mem, (off + fsize k <= length mem)%nat ->
     gen_cast_complex_at k ob off mem = Some (xcast_complex_at k ob off mem)) /\
  (forall k pad v off mem,
     xstore_float_at (TK k) pad (XPy v) off mem = place (store_float k v) off mem /\
     xstore_complex_at k (XPy v) off mem = place (store_complex k v) off mem /\
     xcast_float_at (TK k) pad (XPy v) off mem = place (cast_float k v) off mem /\
     xcast_complex_at k (XPy v) off mem = place (cast_complex k v) off mem).
Proof.
  exact (conj gen_store_float_at_ok (conj gen_store_complex_at_ok (conj gen_cast_float_at_ok
          (conj gen_cast_complex_at_ok
            (fun k pad v off mem => conj (xstore_float_at_model k pad v off mem)
               (conj (xstore_complex_at_model k v off mem)
                 (conj (xcast_float_at_model k pad v off mem) (xcast_complex_at_model k v off mem)))))))).
Qed.
Print Assumptions C05_gen_at_refines.

(* the raw-data layer: the macros, instantiated with the types and in the order found in the source, are the
   hand functions write_raw_float_data / read_raw_float_data / ..._complex_data / ..._longdouble_data of Model.v;
   in particular the real part is copied to target + 0 and the imaginary part to target + sizeof(type)
   (stated on the regenerated macro body itself), and check_bytes_for_float_compatible returns -1 / 0 / 1 as
   Model.v's None / Some None / Some (Some ordinal) *)
Theorem C05_gen_raw_data_refines :
  (forall k src off mem,
     gen_write_raw_float_data (fsize k) src off mem = Some (splice off (write_raw_float_data k src) mem)) /\
  (forall v pad off mem,
     gen_write_raw_longdouble_data v pad off mem = Some (splice off (write_raw_longdouble_data v pad) mem)) /\
  (forall k re im off mem, (off + fsize k <= length mem)%nat ->
     gen_write_raw_complex_data (2 * fsize k) (re, im) off mem
     = Some (splice off (write_raw_float_data k re ++ write_raw_float_data k im) mem)) /\
  (forall k target, gen_read_raw_float_data (fsize k) target = Some (read_raw_float_data k target)) /\
  (forall target, gen_read_raw_longdouble_data target = Some (read_raw_longdouble_data target)) /\
  (forall k target, gen_read_raw_complex_data (2 * fsize k) target = Some (read_raw_complex_data k target)) /\
  (forall io, gen_check_bytes io = cb_code (x_check_bytes io)) /\
  (wm_body write_raw_complex_data_macro
     = [WDecl "r" SrcReal; WDecl "i" SrcImag; WCopy OffZero "r"; WCopy OffSizeof "i"; WReturn]
   /\ wm_mult write_raw_complex_data_macro = 2%nat
   /\ write_raw_complex_insts = [CFloat; CDouble] /\ write_raw_float_insts = [CFloat; CDouble]
   /\ read_raw_float_insts = [CFloat; CDouble])%string.
Proof.
  exact (conj gen_write_raw_float_ok (conj gen_write_raw_longdouble_ok (conj gen_write_raw_complex_ok
          (conj gen_read_raw_float_ok (conj gen_read_raw_longdouble_ok (conj gen_read_raw_complex_ok
            (conj gen_check_bytes_ok complex_layout_fact))))))).
Qed.
Print Assumptions C05_gen_raw_data_refines.

(* frame: a float store at byte offset off of a larger object (array item, struct field) keeps the length,
   changes no byte outside [off, off + size), leaves the memory unchanged when it fails, and when it succeeds
   the object holds exactly the bytes of the conversion (read back by read_raw_float_data as the stored float);
   the complex store has its two components at off and off + sizeof(type) *)
Theorem C05_store_frame :
  (forall t pad init off mem,
     length pad = 6%nat -> (off + xsize t <= length mem)%nat ->
     let r := xstore_float_at t pad init off mem in
     frame_ok off (xsize t) mem (snd r) /\
     match xstore_float_bytes t pad init with
     | Ok bs => fst r = Ok tt /\ length bs = xsize t /\ unit_at off (xsize t) (snd r) = bs
     | Err e => fst r = Err e /\ snd r = mem
     end) /\
  (forall k init off mem,
     (off + 2 * fsize k <= length mem)%nat ->
     let r := xstore_complex_at k init off mem in
     frame_ok off (2 * fsize k) mem (snd r) /\
     match x_as_complex init with
     | Ok (re, im) => fst r = Ok tt /\
         unit_at off (fsize k) (snd r) = write_raw_float_data k re /\
         unit_at (off + fsize k) (fsize k) (snd r) = write_raw_float_data k im
     | Err e => fst r = Err e /\ snd r = mem
     end) /\
  (forall k pad d off mem,
     0 <= d < 2 ^ 64 -> (off + fsize k <= length mem)%nat ->
     let r := xstore_float_at (TK k) pad (XPy (PyFloat d)) off mem in
     read_raw_float_data k (unit_at off (fsize k) (snd r))
     = match k with F32 => widen_bits (narrow_bits d) | F64 => d end).
Proof. exact (conj xstore_float_frame (conj xstore_complex_frame xstore_float_read_back)). Qed.
Print Assumptions C05_store_frame.

(* (long double)d is exact for every finite binary64 d (x87 double-extended = Flocq precision 64, emax 16384),
   keeps zeros and infinities with their sign, NaN stays NaN *)
Theorem C05_double_to_longdouble_exact :
  (forall x : binary64,
   Binary.is_finite 53 1024 x = true ->
   Binary.B2R 64 16384 (widen_ld x) = Binary.B2R 53 1024 x /\
   Binary.is_finite 64 16384 (widen_ld x) = true /\
   Binary.Bsign 64 16384 (widen_ld x) = Binary.Bsign 53 1024 x) /\
  ((forall s, widen_ld (B754_zero 53 1024 s) = B754_zero 64 16384 s) /\
   (forall s, widen_ld (B754_infinity 53 1024 s) = B754_infinity 64 16384 s) /\
   (forall x, Binary.is_nan 64 16384 (widen_ld x) = Binary.is_nan 53 1024 x)).
Proof. exact (conj widen_ld_finite_correct widen_ld_classes). Qed.
Print Assumptions C05_double_to_longdouble_exact.

(* ---- non-vacuity / concrete values (struct.pack('<d', x) patterns in, struct.pack('<f') patterns out) *)
Example C05_examples :
  map narrow_bits
    [ 0x3ff0000000000000        (* 1.0 *)
    ; 0x3ff0000010000000        (* 1 + 2^-24 : tie, to even (down) *)
    ; 0x3ff0000030000000        (* 1 + 3*2^-24 : tie, to even (up) *)
    ; 0x3ff0000010000001        (* just above the tie *)
    ; 0x47efffffefffffff        (* largest double that rounds to FLT_MAX *)
    ; 0x47effffff0000000        (* smallest double that overflows *)
    ; 0xc7effffff0000000
    ; 0x36a0000000000000        (* 2^-149 : smallest float subnormal *)
    ; 0x3690000000000000        (* 2^-150 : tie with 0, to even = 0 *)
    ; 0x3690000000000001        (* just above: rounds to 2^-149 *)
    ; 0x380fffffffffffff        (* just below FLT_MIN: rounds up to the normal range *)
    ; 0x0000000000000001        (* smallest double subnormal *)
    ; 0x8000000000000000        (* -0.0 *)
    ; 0x7ff0000000000000; 0xfff0000000000000
    ; 0x7ff0000000000001; 0xfff8000000000000 ]  (* NaNs: signalling, quiet negative *)
  = [ 0x3f800000; 0x3f800000; 0x3f800002; 0x3f800001; 0x7f7fffff; 0x7f800000; 0xff800000;
      0x00000001; 0x00000000; 0x00000001; 0x00800000; 0x00000000; 0x80000000;
      0x7f800000; 0xff800000; 0x7fc00000; 0x7fc00000 ].
Proof. vm_compute. reflexivity. Qed.

Example C05_example_paths :
  observe TFloat Store (PyFloat 0x3ff0000010000001) = Ok ([0x3f800001], [0x3ff0000020000000]) /\
  observe TFloatComplex Store (PyFloat 0xbff0000000000000) = Ok ([0xbf800000; 0], [0xbff0000000000000; 0]) /\
  observe TDoubleComplex Cast (PyComplex 0x7ff0000000000000 0x8000000000000000)
     = Ok ([0x7ff0000000000000; 0x8000000000000000], [0x7ff0000000000000; 0x8000000000000000]) /\
  observe TFloat Cast (PyStr [0x10FFFF]) = Ok ([0x4987fff8], [0x4130ffff00000000]) /\
  observe TFloat Store (PyStr [65]) = Err TypeError /\
  observe TDouble Cast (PyBytes [65; 66]) = Err TypeError /\
  observe TDouble Store (PyInt (2 ^ 1024)) = Err OverflowError /\
  observe TDouble Store (PyInt (2 ^ 53 + 1)) = Ok ([0x4340000000000000], [0x4340000000000000]) /\
  observe TFloat Store (PyComplex 0 0) = Err TypeError.
Proof. vm_compute. repeat split. Qed.

Example C05_example_longdouble :
  firstn 10 (longdouble_copy [0;0;0;0;0;0;0;128;255;63; 1;2;3;4;5;6] [9;9;9;9;9;9])
  = [0;0;0;0;0;0;0;128;255;63].
Proof. vm_compute. reflexivity. Qed.

(* cdata sources and the long double target (x87 patterns: 1.0L = 0x3fff8000000000000000) *)
Example C05_example_xpaths :
  xobserve (XF TLD) Cast (XCData (CDFloat F32 0x3f800000)) = Ok [0x3fff8000000000000000] /\
  xobserve (XF TLD) Store (XPy (PyFloat 0xc00921fb54442d18)) = Ok [0xc000c90fdaa22168c000] /\
  xobserve (XF (TK F32)) Cast (XCData (CDWChar 65)) = Ok [0x42820000] /\
  xobserve (XF (TK F32)) Store (XCData (CDInt 65)) = Err TypeError /\
  xobserve (XF (TK F64)) Cast (XCData CDOther) = Err TypeError /\
  xobserve (XC F32) Cast (XCData (CDComplex F64 0x3ff0000000000000 0x4000000000000000)) = Ok [0x3f800000; 0x40000000] /\
  map ld_to_double [0x3fff8000000000000401; 0x3fff8000000000000400; 0x3fff8000000000000c00]
    = [0x3ff0000000000001; 0x3ff0000000000000; 0x3ff0000000000002].
Proof. vm_compute. repeat split. Qed.

(* the proofs above depend on what is in Gen.v: with `double lvalue` instead of `long double lvalue` in the long
   double -> long double block (seeded defect C05) the executed program stores other bytes for 1 + 2^-63 *)
Example C05_gen_lvalue_type_matters :
  let src := XCData (CDLongDouble [1;0;0;0;0;0;0;128;255;63; 0;0;0;0;0;0]) in
  let bad := map (fun gs => match gs with (g, SLongDoubleCopy _) => (g, SLongDoubleCopy CDouble) | _ => gs end)
                 store_float_prog in
  exec_f (XF TLD) [0;0;0;0;0;0] src 0 bad (store_state src) (repeat 0 16)
    = Some (Ok tt, [0;0;0;0;0;0;0;128;255;63; 0;0;0;0;0;0]) /\
  gen_store_float_at TLD [0;0;0;0;0;0] src 0 (repeat 0 16)
    = Some (Ok tt, [1;0;0;0;0;0;0;128;255;63; 0;0;0;0;0;0]).
Proof. vm_compute. split; reflexivity. Qed.
