(* C05 — floating-point and complex stores: model of the float paths of src/c/_cffi_backend.c.

   Code modelled (all in src/c/_cffi_backend.c):
     _write_raw_data(type)         :960   type r = (type)source; memcpy(target, &r, sizeof(type))
     _read_raw_data(type)          :917   type r; memcpy(&r, target, sizeof(type)); return r
     read_raw_float_data           :981   float -> double (exact) | double
     read_raw_longdouble_data      :990   long double (x87 load of the 10 value bytes)
     read_raw_complex_data         :998   two floats widened | two doubles
     write_raw_float_data          :1019  (float)source | (double)source
     write_raw_longdouble_data     :1027  x87 store
     write_raw_complex_data        :1045  (type)source.real at +0, (type)source.imag at +sizeof(type)
     convert_from_object           :1740  float branch:   PyFloat_AsDouble(init) -> write_raw_float_data
                                   :1796  complex branch: PyComplex_AsCComplex(init) -> write_raw_complex_data
     check_bytes_for_float_compatible :4084   1-char bytes / str -> ordinal as double
     do_cast                       :4158  float branch, :4210 complex branch

   The C conversions `(float)d` (binary64 -> binary32) and `(double)f` are modelled by the IEEE-754
   specification as formalised in Flocq 4.1 (IEEE754.Binary, mode_NE = round to nearest, ties to even).
   A Python float is represented by its 64-bit pattern (what struct.pack('<d', x) shows); memory
   by lists of bytes (Z in 0..255, little endian).  Every definition here is executable with
   vm_compute: the correspondence check evaluates these very definitions on the harness inputs. *)
From Coq Require Import ZArith List Bool.
From Flocq Require Import Core.Zaux Core.FLX IEEE754.BinarySingleNaN IEEE754.Binary IEEE754.Bits.
Import ListNotations.
Open Scope Z_scope.

(* ---- binary32 / binary64 parameters (binary32 := binary_float 24 128, binary64 := binary_float 53 1024) *)
Definition Hprec32 : Prec_gt_0 24 := eq_refl.
Definition Hmax32 : Prec_lt_emax 24 128 := eq_refl.
Definition Hprec64 : Prec_gt_0 53 := eq_refl.
Definition Hmax64 : Prec_lt_emax 53 1024 := eq_refl.

(* the quiet NaN the model produces (only its class is compared with the implementation) *)
Definition qnan32 : binary32 := B754_nan 24 128 false 4194304 (eq_refl true).
Definition qnan64 : binary64 := B754_nan 53 1024 false 2251799813685248 (eq_refl true).

(* (float)d : the value is rounded to nearest-even into binary32; overflow gives infinity *)
Definition narrow (x : binary64) : binary32 :=
  match x with
  | B754_zero _ _ s => B754_zero 24 128 s
  | B754_infinity _ _ s => B754_infinity 24 128 s
  | B754_nan _ _ _ _ _ => qnan32
  | B754_finite _ _ s m e _ =>
      Binary.binary_normalize 24 128 Hprec32 Hmax32 mode_NE (cond_Zopp s (Zpos m)) e s
  end.

(* (double)f : every binary32 value is a binary64 value *)
Definition widen (x : binary32) : binary64 :=
  match x with
  | B754_zero _ _ s => B754_zero 53 1024 s
  | B754_infinity _ _ s => B754_infinity 53 1024 s
  | B754_nan _ _ _ _ _ => qnan64
  | B754_finite _ _ s m e _ =>
      Binary.binary_normalize 53 1024 Hprec64 Hmax64 mode_NE (cond_Zopp s (Zpos m)) e s
  end.

(* the same on bit patterns *)
Definition narrow_bits (d : Z) : Z := bits_of_b32 (narrow (b64_of_bits d)).
Definition widen_bits (f : Z) : Z := bits_of_b64 (widen (b32_of_bits f)).

(* Python int -> C double (PyLong_AsDouble): round to nearest even; None = OverflowError *)
Definition int_to_double (n : Z) : option Z :=
  let d := Binary.binary_normalize 53 1024 Hprec64 Hmax64 mode_NE n 0 false in
  if Binary.is_finite 53 1024 d then Some (bits_of_b64 d) else None.

(* *out_value = ordinal  (unsigned char / cffi_char32_t -> double) *)
Definition double_of_ordinal (n : Z) : Z :=
  bits_of_b64 (Binary.binary_normalize 53 1024 Hprec64 Hmax64 mode_NE n 0 false).

(* ---- memory *)
Fixpoint encode_le (n : nat) (z : Z) : list Z :=
  match n with
  | O => []
  | S n' => (z mod 256) :: encode_le n' (z / 256)
  end.

Fixpoint decode_le (bs : list Z) : Z :=
  match bs with
  | [] => 0
  | b :: r => b + 256 * decode_le r
  end.

Definition is_byte (b : Z) := 0 <= b < 256.

(* ---- raw float data *)
Inductive fkind := F32 | F64.           (* ct_size 4 | 8 *)
Definition fsize (k : fkind) : nat := match k with F32 => 4%nat | F64 => 8%nat end.

(* write_raw_float_data(target, source, size) : the bytes stored *)
Definition write_raw_float_data (k : fkind) (source : Z) : list Z :=
  match k with
  | F32 => encode_le 4 (narrow_bits source)
  | F64 => encode_le 8 source
  end.

(* read_raw_float_data(target, size) : the double returned *)
Definition read_raw_float_data (k : fkind) (target : list Z) : Z :=
  match k with
  | F32 => widen_bits (decode_le (firstn 4 target))
  | F64 => decode_le (firstn 8 target)
  end.

Definition write_raw_complex_data (k : fkind) (re im : Z) : list Z :=
  write_raw_float_data k re ++ write_raw_float_data k im.

Definition read_raw_complex_data (k : fkind) (target : list Z) : Z * Z :=
  (read_raw_float_data k target, read_raw_float_data k (skipn (fsize k) target)).

(* ---- long double (x86-64: 16 bytes, of which 10 hold the value).  The load/store pair moves the
   80-bit register image; the 6 remaining bytes written by memcpy come from a stack temporary and
   are indeterminate (parameter [pad]). *)
Definition ld_value_bytes : nat := 10.
Definition read_raw_longdouble_data (target : list Z) : Z := decode_le (firstn ld_value_bytes target).
Definition write_raw_longdouble_data (v : Z) (pad : list Z) : list Z := encode_le ld_value_bytes v ++ pad.
(* convert_from_object :1742 / do_cast :4182 / convert_to_object :1155 : read then write *)
Definition longdouble_copy (src pad : list Z) : list Z :=
  write_raw_longdouble_data (read_raw_longdouble_data src) pad.

(* ---- Python values the float paths distinguish *)
Inductive pyval :=
  | PyFloat (bits : Z)          (* float, by its binary64 pattern *)
  | PyHasFloat (bits : Z)       (* object whose __float__ returns that float *)
  | PyInt (n : Z)
  | PyComplex (re im : Z)       (* complex, two binary64 patterns *)
  | PyHasComplex (re im : Z)    (* object whose __complex__ returns that complex (and no __float__) *)
  | PyBytes (bs : list Z)
  | PyStr (cps : list Z)
  | PyOther.                    (* None, list, ... *)

Inductive exc := TypeError | OverflowError.
Inductive result (A : Type) := Ok (a : A) | Err (e : exc).
Arguments Ok {A}. Arguments Err {A}.

Definition PyFloat_AsDouble (v : pyval) : result Z :=
  match v with
  | PyFloat b | PyHasFloat b => Ok b
  | PyInt n => match int_to_double n with Some b => Ok b | None => Err OverflowError end
  | _ => Err TypeError
  end.

Definition pos_zero : Z := 0.

Definition PyComplex_AsCComplex (v : pyval) : result (Z * Z) :=
  match v with
  | PyComplex re im | PyHasComplex re im => Ok (re, im)
  | _ => match PyFloat_AsDouble v with Ok b => Ok (b, pos_zero) | Err e => Err e end
  end.

(* returns -1 if cannot cast (None), 0 if we don't get a value (Some None), 1 if we do *)
Definition check_bytes_for_float_compatible (v : pyval) : option (option Z) :=
  match v with
  | PyBytes [b] => Some (Some (double_of_ordinal b))
  | PyBytes _ => None
  | PyStr [c] => Some (Some (double_of_ordinal c))
  | PyStr _ => None
  | _ => Some None
  end.

(* convert_from_object, float branch (ffi.new initializer, item/field assignment, call argument) *)
Definition store_float (k : fkind) (init : pyval) : result (list Z) :=
  match PyFloat_AsDouble init with
  | Ok value => Ok (write_raw_float_data k value)
  | Err e => Err e
  end.

(* convert_from_object, complex branch *)
Definition store_complex (k : fkind) (init : pyval) : result (list Z) :=
  match PyComplex_AsCComplex init with
  | Ok (re, im) => Ok (write_raw_complex_data k re im)
  | Err e => Err e
  end.

(* do_cast, float branch (ob not a cdata) *)
Definition cast_float (k : fkind) (ob : pyval) : result (list Z) :=
  match check_bytes_for_float_compatible ob with
  | None => Err TypeError
  | Some (Some value) => Ok (write_raw_float_data k value)
  | Some None =>
      match PyFloat_AsDouble ob with
      | Ok value => Ok (write_raw_float_data k value)
      | Err e => Err e
      end
  end.

(* do_cast, complex branch *)
Definition cast_complex (k : fkind) (ob : pyval) : result (list Z) :=
  match check_bytes_for_float_compatible ob with
  | None => Err TypeError
  | Some (Some re) => Ok (write_raw_complex_data k re pos_zero)
  | Some None =>
      match PyComplex_AsCComplex ob with
      | Ok (re, im) => Ok (write_raw_complex_data k re im)
      | Err e => Err e
      end
  end.

(* ---- entry point for the correspondence check *)
Inductive target := TFloat | TDouble | TFloatComplex | TDoubleComplex.
Inductive path := Store | Cast.

Definition run (t : target) (p : path) (v : pyval) : result (list Z) :=
  match t, p with
  | TFloat, Store => store_float F32 v
  | TDouble, Store => store_float F64 v
  | TFloatComplex, Store => store_complex F32 v
  | TDoubleComplex, Store => store_complex F64 v
  | TFloat, Cast => cast_float F32 v
  | TDouble, Cast => cast_float F64 v
  | TFloatComplex, Cast => cast_complex F32 v
  | TDoubleComplex, Cast => cast_complex F64 v
  end.

(* what float(p[0]) / complex(p[0]) returns after the store: list of binary64 patterns *)
Definition read_back (t : target) (mem : list Z) : list Z :=
  match t with
  | TFloat => [read_raw_float_data F32 mem]
  | TDouble => [read_raw_float_data F64 mem]
  | TFloatComplex => let '(a, b) := read_raw_complex_data F32 mem in [a; b]
  | TDoubleComplex => let '(a, b) := read_raw_complex_data F64 mem in [a; b]
  end.

(* NaNs are compared by class: canonical patterns *)
Definition is_nan32_bits (f : Z) : bool := ((f / 8388608) mod 256 =? 255) && negb (f mod 8388608 =? 0).
Definition is_nan64_bits (d : Z) : bool := ((d / 4503599627370496) mod 2048 =? 2047) && negb (d mod 4503599627370496 =? 0).
Definition canon32 (f : Z) : Z := if is_nan32_bits f then 2143289344 else f.
Definition canon64 (d : Z) : Z := if is_nan64_bits d then 9221120237041090560 else d.

Fixpoint chunks (n : nat) (fuel : nat) (bs : list Z) : list (list Z) :=
  match fuel with
  | O => []
  | S f => match bs with [] => [] | _ => firstn n bs :: chunks n f (skipn n bs) end
  end.

(* stored bytes -> list of canonical component patterns *)
Definition canon_mem (t : target) (mem : list Z) : list Z :=
  match t with
  | TFloat | TFloatComplex => map (fun c => canon32 (decode_le c)) (chunks 4 4 mem)
  | TDouble | TDoubleComplex => map (fun c => canon64 (decode_le c)) (chunks 8 4 mem)
  end.

(* result of a case: Some (stored components, components read back) | None on error, with class *)
Definition observe (t : target) (p : path) (v : pyval) : result (list Z * list Z) :=
  match run t p v with
  | Ok mem => Ok (canon_mem t mem, map canon64 (read_back t mem))
  | Err e => Err e
  end.

Definition exc_eqb (a b : exc) : bool :=
  match a, b with TypeError, TypeError | OverflowError, OverflowError => true | _, _ => false end.
