(* C05 — proofs about the extended hand model C05/XModel.v: the frame of a store at an offset of a
   larger memory, and exactness of (long double)d. *)
From Coq Require Import ZArith List Bool Reals Lia.
From Flocq Require Import Core.Core IEEE754.BinarySingleNaN IEEE754.Binary IEEE754.Bits.
From Cffi Require Import C03.Mem C03.MemProofs C05.Model C05.Proofs C05.XModel.
Import ListNotations.
Open Scope Z_scope.

Notation fexp64 := (FLT_exp (-1074) 53).
Notation fexp_x87 := (FLT_exp (-16445) 64).

(* ---- (long double)d is exact: every binary64 value is an x87 double-extended value *)
Lemma format64_format_x87 : forall x : R,
  generic_format radix2 fexp64 x -> generic_format radix2 fexp_x87 x.
Proof.
intros x Hx.
apply generic_format_FLT.
apply FLT_format_generic in Hx; [|reflexivity].
destruct Hx as [f H1 H2 H3].
exists f; auto.
- eapply Z.lt_le_trans. apply H2. now apply (Zpower_le radix2).
- lia.
Qed.

Lemma widen_ld_finite_correct : forall x : binary64,
  Binary.is_finite 53 1024 x = true ->
  Binary.B2R 64 16384 (widen_ld x) = Binary.B2R 53 1024 x /\
  Binary.is_finite 64 16384 (widen_ld x) = true /\
  Binary.Bsign 64 16384 (widen_ld x) = Binary.Bsign 53 1024 x.
Proof.
intros [s|s|s pl H|s m e H] Hf; try discriminate Hf; cbn [widen_ld Binary.B2R Binary.Bsign].
- now repeat split.
- generalize (Binary.binary_normalize_correct 64 16384 Hprec_x87 Hmax_x87 mode_NE (cond_Zopp s (Zpos m)) e s).
  cbn [round_mode].
  change (SpecFloat.fexp 64 16384) with fexp_x87.
  assert (G : generic_format radix2 fexp_x87 (F2R (Float radix2 (cond_Zopp s (Zpos m)) e))).
  { apply format64_format_x87.
    apply (Binary.generic_format_B2R 53 1024 (B754_finite 53 1024 s m e H)). }
  rewrite round_generic by (auto with typeclass_instances).
  rewrite Rlt_bool_true.
  + rewrite Rcompare_F2R_sign. auto.
  + eapply Rlt_trans.
    apply (Binary.abs_B2R_lt_emax 53 1024 (B754_finite 53 1024 s m e H)).
    now apply bpow_lt.
Qed.

Lemma widen_ld_classes :
  (forall s, widen_ld (B754_zero 53 1024 s) = B754_zero 64 16384 s) /\
  (forall s, widen_ld (B754_infinity 53 1024 s) = B754_infinity 64 16384 s) /\
  (forall x, Binary.is_nan 64 16384 (widen_ld x) = Binary.is_nan 53 1024 x).
Proof.
repeat split. intros [s|s|s pl H|s m e H]; try reflexivity.
cbn [widen_ld Binary.is_nan].
apply Binary.is_nan_BSN2B'.
Qed.

(* ---- frame *)
Lemma model_encode_is_mem : forall n z, Model.encode_le n z = Mem.encode_le n z.
Proof. induction n; intros; cbn [Model.encode_le Mem.encode_le]; [reflexivity|now rewrite IHn]. Qed.

Lemma xwrite_float_len : forall t v pad, length pad = 6%nat -> length (xwrite_float t v pad) = xsize t.
Proof.
intros [k|] v pad Hp; cbn [xwrite_float xsize].
- apply write_raw_float_length.
- unfold write_raw_longdouble_data. rewrite app_length, encode_length, Hp. reflexivity.
Qed.

Lemma longdouble_copy_len : forall bs pad, length pad = 6%nat -> length (longdouble_copy bs pad) = 16%nat.
Proof.
intros. unfold longdouble_copy, write_raw_longdouble_data. rewrite app_length, encode_length, H. reflexivity.
Qed.

Definition frame_ok (off size : nat) (mem mem' : list Z) : Prop :=
  length mem' = length mem /\
  forall j d, (j < off \/ off + size <= j)%nat -> nth j mem' d = nth j mem d.

Lemma splice_frame : forall off bs mem, (off + length bs <= length mem)%nat ->
  frame_ok off (length bs) mem (splice off bs mem) /\ unit_at off (length bs) (splice off bs mem) = bs.
Proof.
intros off bs mem H. repeat split.
- now apply splice_length.
- intros j d Hj. now apply nth_splice_outside.
- now apply unit_at_splice.
Qed.

Lemma frame_refl : forall off size mem, frame_ok off size mem mem.
Proof. intros; split; auto. Qed.

(* what the float store leaves at data[0 .. size) when it succeeds *)
Definition xstore_float_bytes (t : ftarget) (pad : list Z) (init : xval) : result (list Z) :=
  match is_ld_copy t init with
  | Some bs => Ok (longdouble_copy bs pad)
  | None => match x_as_double init with Ok value => Ok (xwrite_float t value pad) | Err e => Err e end
  end.

Lemma xstore_float_frame : forall t pad init off mem,
  length pad = 6%nat -> (off + xsize t <= length mem)%nat ->
  let r := xstore_float_at t pad init off mem in
  frame_ok off (xsize t) mem (snd r) /\
  match xstore_float_bytes t pad init with
  | Ok bs => fst r = Ok tt /\ length bs = xsize t /\ unit_at off (xsize t) (snd r) = bs
  | Err e => fst r = Err e /\ snd r = mem
  end.
Proof.
intros t pad init off mem Hp H. unfold xstore_float_at, xstore_float_bytes.
destruct (is_ld_copy t init) as [bs|] eqn:E.
- assert (t = TLD) as -> by (destruct t; [discriminate|reflexivity]).
  cbn [fst snd xsize] in *.
  pose proof (longdouble_copy_len bs pad Hp) as L.
  destruct (splice_frame off (longdouble_copy bs pad) mem) as [F U]; rewrite ?L; auto.
  rewrite L in F, U. auto.
- destruct (x_as_double init) as [v|e]; cbn [fst snd].
  + pose proof (xwrite_float_len t v pad Hp) as L.
    destruct (splice_frame off (xwrite_float t v pad) mem) as [F U]; rewrite ?L; auto.
    rewrite L in F, U. auto.
  + split; [apply frame_refl|auto].
Qed.

Lemma xstore_complex_frame : forall k init off mem,
  (off + 2 * fsize k <= length mem)%nat ->
  let r := xstore_complex_at k init off mem in
  frame_ok off (2 * fsize k) mem (snd r) /\
  match x_as_complex init with
  | Ok (re, im) => fst r = Ok tt /\
      unit_at off (fsize k) (snd r) = write_raw_float_data k re /\
      unit_at (off + fsize k) (fsize k) (snd r) = write_raw_float_data k im
  | Err e => fst r = Err e /\ snd r = mem
  end.
Proof.
intros k init off mem H. unfold xstore_complex_at.
destruct (x_as_complex init) as [[re im]|e]; cbn [fst snd].
- assert (L : length (write_raw_complex_data k re im) = (2 * fsize k)%nat).
  { unfold write_raw_complex_data. rewrite app_length, !write_raw_float_length. lia. }
  destruct (splice_frame off (write_raw_complex_data k re im) mem) as [F U]; rewrite ?L; auto.
  rewrite L in F, U. split; [exact F|]. split; [reflexivity|].
  unfold unit_at in *. unfold write_raw_complex_data in *.
  pose proof (write_raw_float_length k re) as Lr. pose proof (write_raw_float_length k im) as Li.
  split.
  + apply (f_equal (firstn (fsize k))) in U. rewrite firstn_firstn in U.
    replace (Nat.min (fsize k) (2 * fsize k)) with (fsize k) in U by lia.
    rewrite U. rewrite <- Lr at 1. now rewrite firstn_app, Nat.sub_diag, firstn_all, firstn_O, app_nil_r.
  + apply (f_equal (skipn (fsize k))) in U.
    rewrite skipn_plus. rewrite skipn_firstn_comm in U.
    replace (2 * fsize k - fsize k)%nat with (fsize k) in U by lia.
    rewrite U. rewrite <- Lr at 1. now rewrite skipn_app, Nat.sub_diag, skipn_all.
- split; [apply frame_refl|auto].
Qed.

(* reading back through read_raw_float_data at that offset *)
Lemma xstore_float_read_back : forall k pad d off mem,
  0 <= d < 2 ^ 64 -> (off + fsize k <= length mem)%nat ->
  let r := xstore_float_at (TK k) pad (XPy (PyFloat d)) off mem in
  read_raw_float_data k (unit_at off (fsize k) (snd r))
  = match k with F32 => widen_bits (narrow_bits d) | F64 => d end.
Proof.
intros k pad d off mem Hd H. cbn [xstore_float_at is_ld_copy x_as_double PyFloat_AsDouble xwrite_float snd].
pose proof (write_raw_float_length k d) as L.
rewrite <- L at 1. rewrite unit_at_splice by (rewrite L; exact H).
rewrite <- (app_nil_r (write_raw_float_data k d)). now apply read_write_raw_float.
Qed.
