(* C05 — vocabulary of the facts regenerated from src/c/_cffi_backend.c by tools/props/c05_regen.py
   (C05/Gen.v) and executed by C05/Interp.v.  Three layers:
     1. the raw-data macros  _write_raw_data / _write_raw_complex_data / _read_raw_data  (statement lists)
        and the functions instantiating them (which C types, in which order);
     2. check_bytes_for_float_compatible (branch order and return codes);
     3. the float and complex branches of convert_from_object and of do_cast (guarded statement lists). *)
From Coq Require Import ZArith String List.

Inductive cfty := CFloat | CDouble | CLongDouble.      (* the C types float / double / long double *)

(* which part of `source` a local is initialised from:  source | source.real | source.imag *)
Inductive srcsel := SrcWhole | SrcReal | SrcImag.
(* target | target + sizeof(type) *)
Inductive woff := OffZero | OffSizeof.

(* body of `if (size == MULT*sizeof(type)) { ... }` in _write_raw_data / _write_raw_complex_data *)
Inductive wstmt :=
| WDecl (x : string) (s : srcsel)        (* type x = (type)source[.real|.imag]; *)
| WCopy (o : woff) (x : string)          (* _cffi_memcpy(target[+sizeof(type)], &x, sizeof(type)); *)
| WReturn.                               (* return; *)
Record wmacro := mk_wmacro { wm_mult : nat; wm_body : list wstmt }.

(* reading: _read_raw_data(type) and the two blocks of read_raw_complex_data *)
Inductive rstmt :=
| RCopyIn (x : string) (o : woff)        (* memcpy(&x, target[+sizeof(T)], sizeof(T)); *)
| RSetField (f : srcsel) (x : string)    (* r.real = x;  /  r.imag = x; *)
| RCopyWhole                             (* memcpy(&r, target, 2*sizeof(T));   (r : Py_complex) *)
| RReturn (x : string).                  (* return x; *)
Record rblock := mk_rblock { rb_ty : cfty; rb_mult : nat; rb_body : list rstmt }.

(* check_bytes_for_float_compatible: the type tests, in order *)
Inductive cb_branch := CBBytes | CBUnicode.

(* value = PyFloat_AsDouble(x)  /  value = PyComplex_AsCComplex(x) *)
Inductive conv := ConvFloat | ConvComplex.
(* if (value == -1.0 && PyErr_Occurred()) return ERR;   /   if (PyErr_Occurred()) return ERR; *)
Inductive errtest := ErrMinus1AndOccurred | ErrOccurred.

(* `if (res == K) { A } else { B }` is flattened: A's statements under GResEq K, B's under GResNe K *)
Inductive guard := GAlways | GResEq (k : Z) | GResNe (k : Z).

Inductive fstmt :=
| SSource                                (* do_cast: if (CData_Check(ob)) { if (!(... & CT_PRIMITIVE_ANY)) goto cannot_cast;
                                                     io = convert_to_object(cdsrc->c_data, cdsrc->c_type); ... } else { io = ob; } *)
| SCheckBytes (f : srcsel)               (* res = check_bytes_for_float_compatible(io, &value[.real]); *)
| SCannotCastIf (k : Z)                  (* if (res == k) goto cannot_cast; *)
| SLongDoubleCopy (lty : cfty)           (* if ((ct->ct_flags & CT_IS_LONGDOUBLE) && CData_Check(x) && x is a long double cdata)
                                            { LTY lvalue; lvalue = read_raw_longdouble_data(x->c_data);
                                              [cd = _new_casted_primitive(ct);] write_raw_longdouble_data(dst, lvalue); return; } *)
| SConv (c : conv)                       (* value = PyFloat_AsDouble(x); / value = PyComplex_AsCComplex(x); *)
| SSetImagZero                           (* value.imag = 0.0; *)
| SErrCheck (t : errtest)
| SAlloc                                 (* cd = _new_casted_primitive(ct); *)
| SWriteFloat (castty : cfty)            (* if (!(ct->ct_flags & CT_IS_LONGDOUBLE)) write_raw_float_data(dst, value, ct->ct_size);
                                            else write_raw_longdouble_data(dst, (CASTTY)value); *)
| SWriteComplex                          (* write_raw_complex_data(dst, value, ct->ct_size); *)
| SReturn.                               (* return 0; / return the new cdata; *)
