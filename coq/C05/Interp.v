(* C05 — the float paths of src/c/_cffi_backend.c as they stand in the source: the statements regenerated
   into C05/Gen.v are executed here.  Hand-written: the meaning of each statement form (below), the C
   conversions between float / double / long double (cconv: C05/Model.v narrow/widen, C05/XModel.v x87),
   and the Python-level callees PyFloat_AsDouble / PyComplex_AsCComplex / convert_to_object
   (XModel.x_as_double / x_as_complex / x_to_object).  C05/GenProofs.v shows that executing the
   regenerated statements equals the hand model C05/XModel.v, hence C05/Model.v. *)
From Coq Require Import ZArith List Bool String.
From Cffi Require Import C03.Mem C05.Model C05.XModel C05.IR C05.Gen.
Import ListNotations.
Open Scope string_scope.
Open Scope Z_scope.

(* ---- C types *)
Definition csizeof (T : cfty) : nat := match T with CFloat => 4 | CDouble => 8 | CLongDouble => 16 end%nat.
Definition cvalue_bytes (T : cfty) : nat := match T with CFloat => 4 | CDouble => 8 | CLongDouble => 10 end%nat.
(* object representation of a value (given by its bit pattern); pad = the 6 bytes of a long double that
   hold no value (whatever the stack temporary `r` contained) *)
Definition cencode (T : cfty) (x : Z) (pad : list Z) : list Z :=
  match T with
  | CLongDouble => Model.encode_le 10 x ++ pad
  | _ => Model.encode_le (csizeof T) x
  end.
Definition cdecode (T : cfty) (bs : list Z) : Z := Model.decode_le (firstn (cvalue_bytes T) bs).

(* (B)x for x of type A, on bit patterns *)
Definition cconv (A B : cfty) (x : Z) : Z :=
  match A, B with
  | CFloat, CFloat | CDouble, CDouble | CLongDouble, CLongDouble => x
  | CDouble, CFloat => narrow_bits x
  | CFloat, CDouble => widen_bits x
  | CDouble, CLongDouble => double_to_ld x
  | CLongDouble, CDouble => ld_to_double x
  | CFloat, CLongDouble => double_to_ld (widen_bits x)
  | CLongDouble, CFloat => ld_to_float x
  end.

Fixpoint lookup (x : string) (env : list (string * Z)) : option Z :=
  match env with
  | [] => None
  | (y, v) :: r => if String.eqb x y then Some v else lookup x r
  end.

Definition sel (s : srcsel) (source : Z * Z) : Z :=
  match s with SrcWhole | SrcReal => fst source | SrcImag => snd source end.
Definition woffset (off : nat) (T : cfty) (o : woff) : nat :=
  match o with OffZero => off | OffSizeof => (off + csizeof T)%nat end.

(* ---- _write_raw_data(type) / _write_raw_complex_data(type), instantiated with T; `source` has type srcT
   (for Py_complex: the two double fields) *)
Fixpoint exec_w (T srcT : cfty) (pad : list Z) (source : Z * Z) (off : nat)
         (p : list wstmt) (env : list (string * Z)) (mem : list Z) : option (list Z) :=
  match p with
  | [] => None
  | WDecl x s :: r => exec_w T srcT pad source off r ((x, cconv srcT T (sel s source)) :: env) mem
  | WCopy o x :: r =>
      match lookup x env with
      | Some v => exec_w T srcT pad source off r env (splice (woffset off T o) (cencode T v pad) mem)
      | None => None
      end
  | WReturn :: _ => Some mem
  end.

(* the functions: MACRO(T1); MACRO(T2); ...; Py_FatalError()  (None) *)
Fixpoint exec_winsts (m : wmacro) (insts : list cfty) (srcT : cfty) (pad : list Z) (source : Z * Z)
         (size : nat) (off : nat) (mem : list Z) : option (list Z) :=
  match insts with
  | [] => None
  | T :: r =>
      if Nat.eqb size (wm_mult m * csizeof T) then exec_w T srcT pad source off (wm_body m) [] mem
      else exec_winsts m r srcT pad source size off mem
  end.

Definition gen_write_raw_float_data (size : nat) (source : Z) (off : nat) (mem : list Z) : option (list Z) :=
  exec_winsts write_raw_data_macro write_raw_float_insts write_raw_float_src [] (source, 0) size off mem.
(* int size = sizeof(long double); *)
Definition gen_write_raw_longdouble_data (source : Z) (pad : list Z) (off : nat) (mem : list Z) : option (list Z) :=
  exec_winsts write_raw_data_macro write_raw_longdouble_insts write_raw_longdouble_src pad (source, 0)
              (csizeof CLongDouble) off mem.
Definition gen_write_raw_complex_data (size : nat) (source : Z * Z) (off : nat) (mem : list Z) : option (list Z) :=
  exec_winsts write_raw_complex_data_macro write_raw_complex_insts CDouble [] source size off mem.

(* ---- _read_raw_data(type) *)
Fixpoint exec_r (T retT : cfty) (p : list rstmt) (env : list (string * Z)) (target : list Z) : option Z :=
  match p with
  | RCopyIn x OffZero :: r => exec_r T retT r ((x, cdecode T target) :: env) target
  | RReturn x :: _ => option_map (cconv T retT) (lookup x env)
  | _ => None
  end.
Fixpoint exec_rinsts (insts : list cfty) (retT : cfty) (size : nat) (target : list Z) : option Z :=
  match insts with
  | [] => None
  | T :: r => if Nat.eqb size (csizeof T) then exec_r T retT read_raw_data_macro [] target
              else exec_rinsts r retT size target
  end.
Definition gen_read_raw_float_data (size : nat) (target : list Z) : option Z :=
  exec_rinsts read_raw_float_insts read_raw_float_ret size target.
Definition gen_read_raw_longdouble_data (target : list Z) : option Z :=
  exec_rinsts read_raw_longdouble_insts read_raw_longdouble_ret (csizeof CLongDouble) target.

(* ---- read_raw_complex_data: Py_complex r = {0.0, 0.0}; blocks *)
Fixpoint exec_rc (T : cfty) (p : list rstmt) (env : list (string * Z)) (r : Z * Z) (target : list Z)
  : option (Z * Z) :=
  match p with
  | RCopyIn x o :: rest => exec_rc T rest ((x, cdecode T (skipn (woffset 0 T o) target)) :: env) r target
  | RSetField SrcReal x :: rest =>
      match lookup x env with Some v => exec_rc T rest env (cconv T CDouble v, snd r) target | None => None end
  | RSetField SrcImag x :: rest =>
      match lookup x env with Some v => exec_rc T rest env (fst r, cconv T CDouble v) target | None => None end
  | RCopyWhole :: rest =>
      match T with
      | CDouble => exec_rc T rest env (cdecode CDouble target, cdecode CDouble (skipn 8 target)) target
      | _ => None
      end
  | RReturn x :: _ => if String.eqb x "r" then Some r else None
  | _ => None
  end.
Fixpoint exec_rcblocks (bl : list rblock) (size : nat) (target : list Z) : option (Z * Z) :=
  match bl with
  | [] => None
  | b :: r => if Nat.eqb size (rb_mult b * csizeof (rb_ty b)) then exec_rc (rb_ty b) (rb_body b) [] (0, 0) target
              else exec_rcblocks r size target
  end.
Definition gen_read_raw_complex_data (size : nat) (target : list Z) : option (Z * Z) :=
  exec_rcblocks read_raw_complex_blocks size target.

(* ---- check_bytes_for_float_compatible(io, &out): (return code, *out_value) *)
Definition cb_test (b : cb_branch) (v : pyval) : option (option Z) :=    (* None: the type test is false; Some None: goto error *)
  match b, v with
  | CBBytes, PyBytes [c] => Some (Some (double_of_ordinal c))
  | CBBytes, PyBytes _ => Some None
  | CBUnicode, PyStr [c] => Some (Some (double_of_ordinal c))
  | CBUnicode, PyStr _ => Some None
  | _, _ => None
  end.
Definition cb_ret (b : cb_branch) : Z :=
  match b with CBBytes => check_bytes_ret_bytes | CBUnicode => check_bytes_ret_unicode end.
Fixpoint exec_cb (order : list cb_branch) (v : pyval) : Z * Z :=
  match order with
  | [] => (check_bytes_ret_none, 0)
  | b :: r =>
      match cb_test b v with
      | None => exec_cb r v
      | Some None => (check_bytes_ret_error, 0)
      | Some (Some x) => (cb_ret b, x)
      end
  end.
Definition gen_check_bytes (io : xval) : Z * Z :=
  match io with
  | XPy p => exec_cb check_bytes_order p
  | XCData _ => (check_bytes_ret_none, 0)
  end.

(* ---- the float / complex branches of convert_from_object and do_cast *)
Definition minus_one : Z := 0xbff0000000000000.        (* -1.0 *)

Record fstate := mk_fstate {
  f_io : option xval;       (* `init`, resp. `io` once SSource has run *)
  f_res : Z;                (* res *)
  f_val : Z * Z;            (* value  (double: first component; Py_complex: both) *)
  f_err : option exc;       (* pending Python exception *)
  f_alloc : bool }.         (* the destination exists (store: data; cast: cd after SAlloc) *)

Definition guard_on (s : fstate) (g : guard) : bool :=
  match g with GAlways => true | GResEq k => f_res s =? k | GResNe k => negb (f_res s =? k) end.

Definition target_is_ld (t : xtarget) : bool := match t with XF TLD => true | _ => false end.

Definition set_io s io := mk_fstate (Some io) (f_res s) (f_val s) (f_err s) (f_alloc s).
Definition set_res s r v := mk_fstate (f_io s) r v (f_err s) (f_alloc s).
Definition set_val s v e := mk_fstate (f_io s) (f_res s) v e (f_alloc s).
Definition set_alloc s := mk_fstate (f_io s) (f_res s) (f_val s) (f_err s) true.

Definition ok_or_stuck (m : option (list Z)) (k : list Z -> option (result unit * list Z))
  : option (result unit * list Z) :=
  match m with Some mem' => k mem' | None => None end.

(* None = the program does something this interpreter gives no meaning to (the proofs then fail) *)
Fixpoint exec_f (t : xtarget) (pad : list Z) (ob : xval) (off : nat) (p : list (guard * fstmt))
         (s : fstate) (mem : list Z) : option (result unit * list Z) :=
  match p with
  | [] => None
  | (g, st) :: r =>
      if negb (guard_on s g) then exec_f t pad ob off r s mem
      else
        match st with
        | SSource =>
            match x_to_object ob with
            | None => Some (Err TypeError, mem)                      (* goto cannot_cast *)
            | Some io => exec_f t pad ob off r (set_io s io) mem
            end
        | SCheckBytes f =>
            match f_io s, f with
            | Some io, (SrcWhole | SrcReal) =>
                let '(res, out) := gen_check_bytes io in
                exec_f t pad ob off r (set_res s res (out, snd (f_val s))) mem
            | _, _ => None
            end
        | SCannotCastIf k =>
            if f_res s =? k then Some (Err TypeError, mem) else exec_f t pad ob off r s mem
        | SLongDoubleCopy lty =>
            match f_io s with
            | Some io =>
                match (if target_is_ld t then io else XPy PyOther) with
                | XCData (CDLongDouble bs) =>
                    match gen_read_raw_longdouble_data bs with
                    | Some rd =>
                        let lvalue := cconv read_raw_longdouble_ret lty rd in
                        ok_or_stuck (gen_write_raw_longdouble_data (cconv lty write_raw_longdouble_src lvalue) pad off mem)
                                    (fun mem' => Some (Ok tt, mem'))
                    | None => None
                    end
                | _ => exec_f t pad ob off r s mem
                end
            | None => None
            end
        | SConv c =>
            match f_io s, c, t with
            | Some io, ConvFloat, XF _ =>
                match x_as_double io with
                | Ok v => exec_f t pad ob off r (set_val s (v, snd (f_val s)) None) mem
                | Err e => exec_f t pad ob off r (set_val s (minus_one, snd (f_val s)) (Some e)) mem
                end
            | Some io, ConvComplex, XC _ =>
                match x_as_complex io with
                | Ok v => exec_f t pad ob off r (set_val s v None) mem
                | Err e => exec_f t pad ob off r (set_val s (minus_one, 0) (Some e)) mem
                end
            | _, _, _ => None
            end
        | SSetImagZero => exec_f t pad ob off r (set_val s (fst (f_val s), pos_zero) (f_err s)) mem
        | SErrCheck ErrMinus1AndOccurred =>
            match f_err s with
            | Some e => if fst (f_val s) =? minus_one then Some (Err e, mem) else None
            | None => exec_f t pad ob off r s mem
            end
        | SErrCheck ErrOccurred =>
            match f_err s with
            | Some e => Some (Err e, mem)
            | None => exec_f t pad ob off r s mem
            end
        | SAlloc => exec_f t pad ob off r (set_alloc s) mem
        | SWriteFloat castty =>
            match t, f_err s, f_alloc s with
            | XF ft, None, true =>
                ok_or_stuck
                  (if negb (target_is_ld t) then gen_write_raw_float_data (xsize ft) (fst (f_val s)) off mem
                   else gen_write_raw_longdouble_data
                          (cconv castty write_raw_longdouble_src (cconv CDouble castty (fst (f_val s)))) pad off mem)
                  (fun mem' => exec_f t pad ob off r s mem')
            | _, _, _ => None
            end
        | SWriteComplex =>
            match t, f_err s, f_alloc s with
            | XC k, None, true =>
                ok_or_stuck (gen_write_raw_complex_data (2 * fsize k) (f_val s) off mem)
                            (fun mem' => exec_f t pad ob off r s mem')
            | _, _, _ => None
            end
        | SReturn => match f_err s with None => Some (Ok tt, mem) | Some _ => None end
        end
  end.

Definition store_state (init : xval) : fstate := mk_fstate (Some init) 0 (0, 0) None true.
Definition cast_state : fstate := mk_fstate None 0 (0, 0) None false.

Definition gen_store_float_at (t : ftarget) (pad : list Z) (init : xval) (off : nat) (mem : list Z) :=
  exec_f (XF t) pad init off store_float_prog (store_state init) mem.
Definition gen_store_complex_at (k : fkind) (init : xval) (off : nat) (mem : list Z) :=
  exec_f (XC k) [] init off store_complex_prog (store_state init) mem.
Definition gen_cast_float_at (t : ftarget) (pad : list Z) (ob : xval) (off : nat) (mem : list Z) :=
  exec_f (XF t) pad ob off cast_float_prog cast_state mem.
Definition gen_cast_complex_at (k : fkind) (ob : xval) (off : nat) (mem : list Z) :=
  exec_f (XC k) [] ob off cast_complex_prog cast_state mem.

(* the Model.v view: Python-object sources, float/double targets, the bytes of a fresh object *)
Definition bytes_of (size : nat) (r : option (result unit * list Z)) : option (result (list Z)) :=
  match r with
  | Some (Ok _, mem) => Some (Ok mem)
  | Some (Err e, _) => Some (Err e)
  | None => None
  end.
Definition gen_store_float (k : fkind) (v : pyval) : option (result (list Z)) :=
  bytes_of (fsize k) (gen_store_float_at (TK k) [] (XPy v) 0 (repeat 0 (fsize k))).
Definition gen_store_complex (k : fkind) (v : pyval) : option (result (list Z)) :=
  bytes_of (2 * fsize k) (gen_store_complex_at k (XPy v) 0 (repeat 0 (2 * fsize k))).
Definition gen_cast_float (k : fkind) (v : pyval) : option (result (list Z)) :=
  bytes_of (fsize k) (gen_cast_float_at (TK k) [] (XPy v) 0 (repeat 0 (fsize k))).
Definition gen_cast_complex (k : fkind) (v : pyval) : option (result (list Z)) :=
  bytes_of (2 * fsize k) (gen_cast_complex_at k (XPy v) 0 (repeat 0 (2 * fsize k))).
