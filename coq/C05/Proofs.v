(* C05 — proofs about C05/Model.v.  Real-number reasoning uses Flocq 4.1 (hence the stdlib
   real-number axioms appear under Print Assumptions). *)
From Coq Require Import ZArith List Bool Reals Lia Psatz.
From Flocq Require Import Core.Core IEEE754.BinarySingleNaN IEEE754.Binary IEEE754.Bits.
From Cffi Require Import C05.Model.
Import ListNotations.
Open Scope Z_scope.

(* ------------------------------------------------------------------ *)

Notation fexp32 := (FLT_exp (-149) 24).
Notation fexp64 := (FLT_exp (-1074) 53).
Notation rne32 := (round radix2 fexp32 ZnearestE).
Notation rne64 := (round radix2 fexp64 ZnearestE).

(* sign of the real value of a finite float *)
Lemma Rlt_bool_F2R_sign : forall s m e,
  Rlt_bool (F2R (Float radix2 (cond_Zopp s (Zpos m)) e)) 0 = s.
Proof.
intros [|] m e; simpl.
- apply Rlt_bool_true. now apply F2R_lt_0.
- apply Rlt_bool_false. now apply F2R_ge_0.
Qed.

Lemma Rcompare_F2R_sign : forall (s sz : bool) m e,
  match Rcompare (F2R (Float radix2 (cond_Zopp s (Zpos m)) e)) 0 with
  | Eq => sz | Lt => true | Gt => false end = s.
Proof.
intros [|] sz m e; simpl.
- rewrite Rcompare_Lt; auto. now apply F2R_lt_0.
- rewrite Rcompare_Gt; auto. now apply F2R_gt_0.
Qed.

(* narrow = round to nearest even, for every finite (incl. zero) binary64 *)
Lemma narrow_finite_correct : forall x : binary64,
  Binary.is_finite 53 1024 x = true ->
  let r := rne32 (Binary.B2R 53 1024 x) in
  if Rlt_bool (Rabs r) (bpow radix2 128) then
    Binary.B2R 24 128 (narrow x) = r /\
    Binary.is_finite 24 128 (narrow x) = true /\
    Binary.Bsign 24 128 (narrow x) = Binary.Bsign 53 1024 x
  else
    narrow x = B754_infinity 24 128 (Binary.Bsign 53 1024 x).
Proof.
intros [s|s|s pl H|s m e H] Hf; try discriminate Hf; cbn [narrow Binary.B2R Binary.Bsign].
- rewrite round_0 by auto with typeclass_instances.
  rewrite Rabs_R0, Rlt_bool_true by apply bpow_gt_0.
  now repeat split.
- generalize (Binary.binary_normalize_correct 24 128 Hprec32 Hmax32 mode_NE (cond_Zopp s (Zpos m)) e s).
  cbn [round_mode].
  change (SpecFloat.fexp 24 128) with fexp32.
  destruct Rlt_bool.
  + rewrite Rcompare_F2R_sign. auto.
  + rewrite Rlt_bool_F2R_sign. intros HH.
    apply Binary.B2FF_inj. rewrite HH. reflexivity.
Qed.

(* ------------------------------------------------------------------ *)

(* every binary32 value is in the binary64 format *)
Lemma format32_format64 : forall x : R,
  generic_format radix2 fexp32 x -> generic_format radix2 fexp64 x.
Proof.
intros x Hx.
apply generic_format_FLT.
apply FLT_format_generic in Hx; [|reflexivity].
destruct Hx as [f H1 H2 H3].
exists f; auto.
- eapply Z.lt_le_trans. apply H2. now apply (Zpower_le radix2).
- lia.
Qed.

Lemma widen_finite_correct : forall x : binary32,
  Binary.is_finite 24 128 x = true ->
  Binary.B2R 53 1024 (widen x) = Binary.B2R 24 128 x /\
  Binary.is_finite 53 1024 (widen x) = true /\
  Binary.Bsign 53 1024 (widen x) = Binary.Bsign 24 128 x.
Proof.
intros [s|s|s pl H|s m e H] Hf; try discriminate Hf; cbn [widen Binary.B2R Binary.Bsign].
- now repeat split.
- generalize (Binary.binary_normalize_correct 53 1024 Hprec64 Hmax64 mode_NE (cond_Zopp s (Zpos m)) e s).
  cbn [round_mode].
  change (SpecFloat.fexp 53 1024) with fexp64.
  assert (G : generic_format radix2 fexp64 (F2R (Float radix2 (cond_Zopp s (Zpos m)) e))).
  { apply format32_format64.
    apply (Binary.generic_format_B2R 24 128 (B754_finite 24 128 s m e H)). }
  rewrite round_generic by (auto with typeclass_instances).
  rewrite Rlt_bool_true.
  + rewrite Rcompare_F2R_sign. auto.
  + eapply Rlt_trans.
    apply (Binary.abs_B2R_lt_emax 24 128 (B754_finite 24 128 s m e H)).
    now apply bpow_lt.
Qed.

Lemma narrow_widen : forall x : binary32,
  Binary.is_nan 24 128 x = false -> narrow (widen x) = x.
Proof.
intros x Hn.
destruct (Binary.is_finite 24 128 x) eqn:Hf.
2: { destruct x; try discriminate; reflexivity. }
destruct (widen_finite_correct x Hf) as (R1 & F1 & S1).
generalize (narrow_finite_correct (widen x) F1). cbn zeta.
rewrite R1.
rewrite round_generic; [|auto with typeclass_instances|apply (Binary.generic_format_B2R 24 128 x)].
rewrite Rlt_bool_true by apply (Binary.abs_B2R_lt_emax 24 128 x).
intros (R2 & F2 & S2).
apply Binary.B2R_Bsign_inj; auto. congruence.
Qed.

(* ------------------------------------------------------------------ *)

(* ---- classes *)
Lemma narrow_classes :
  (forall s, narrow (B754_zero 53 1024 s) = B754_zero 24 128 s) /\
  (forall s, narrow (B754_infinity 53 1024 s) = B754_infinity 24 128 s) /\
  (forall x, Binary.is_nan 24 128 (narrow x) = Binary.is_nan 53 1024 x).
Proof.
repeat split; intros.
destruct x as [s|s|s pl H|s m e H]; try reflexivity.
cbn [narrow Binary.is_nan].
apply Binary.is_nan_BSN2B'.
Qed.

Lemma widen_classes :
  (forall s, widen (B754_zero 24 128 s) = B754_zero 53 1024 s) /\
  (forall s, widen (B754_infinity 24 128 s) = B754_infinity 53 1024 s) /\
  (forall x, Binary.is_nan 53 1024 (widen x) = Binary.is_nan 24 128 x).
Proof.
repeat split; intros.
destruct x as [s|s|s pl H|s m e H]; try reflexivity.
cbn [widen Binary.is_nan].
apply Binary.is_nan_BSN2B'.
Qed.

(* a double that already holds a binary32 value is stored unchanged *)
Lemma narrow_representable : forall x : binary64,
  Binary.is_finite 53 1024 x = true ->
  generic_format radix2 fexp32 (Binary.B2R 53 1024 x) ->
  (Rabs (Binary.B2R 53 1024 x) < bpow radix2 128)%R ->
  Binary.B2R 24 128 (narrow x) = Binary.B2R 53 1024 x /\
  Binary.is_finite 24 128 (narrow x) = true /\
  Binary.Bsign 24 128 (narrow x) = Binary.Bsign 53 1024 x.
Proof.
intros x Hf G Hlt.
generalize (narrow_finite_correct x Hf). cbn zeta.
rewrite round_generic by (auto with typeclass_instances).
now rewrite Rlt_bool_true.
Qed.

(* reading returns the stored value: the double read back has the real value of the stored float *)
Lemma widen_narrow_value : forall x : binary64,
  Binary.is_finite 24 128 (narrow x) = true ->
  Binary.B2R 53 1024 (widen (narrow x)) = Binary.B2R 24 128 (narrow x) /\
  Binary.Bsign 53 1024 (widen (narrow x)) = Binary.Bsign 24 128 (narrow x).
Proof.
intros x Hf. destruct (widen_finite_correct _ Hf) as (A & B & C). auto.
Qed.

(* storing again what was read back changes nothing *)
Lemma narrow_widen_narrow : forall x : binary64,
  Binary.is_nan 53 1024 x = false -> narrow (widen (narrow x)) = narrow x.
Proof.
intros x Hn. apply narrow_widen.
destruct narrow_classes as (_ & _ & H). now rewrite H.
Qed.

(* ---- bit patterns *)
Lemma narrow_widen_bits : forall f : Z,
  0 <= f < 2 ^ 32 ->
  Binary.is_nan 24 128 (b32_of_bits f) = false ->
  narrow_bits (widen_bits f) = f.
Proof.
intros f Hr Hn. unfold narrow_bits, widen_bits, b64_of_bits, bits_of_b64.
rewrite binary_float_of_bits_of_binary_float.
rewrite narrow_widen by exact Hn.
apply bits_of_binary_float_of_bits. exact Hr.
Qed.

Lemma narrow_bits_range : forall d, 0 <= narrow_bits d < 2 ^ 32.
Proof. intros. apply (bits_of_binary_float_range 23 8); reflexivity. Qed.

Lemma widen_bits_range : forall f, 0 <= widen_bits f < 2 ^ 64.
Proof. intros. apply (bits_of_binary_float_range 52 11); reflexivity. Qed.

(* ---- memory *)
Lemma decode_encode : forall n z, 0 <= z < 256 ^ Z.of_nat n -> decode_le (encode_le n z) = z.
Proof.
induction n; intros z Hz.
- change (256 ^ Z.of_nat 0) with 1 in Hz. cbn. lia.
- cbn [encode_le decode_le]. rewrite IHn.
  + pose proof (Z.div_mod z 256). lia.
  + rewrite Nat2Z.inj_succ, Z.pow_succ_r in Hz by lia.
    split. apply Z.div_pos; lia. apply Z.div_lt_upper_bound; lia.
Qed.

Lemma encode_decode : forall bs, Forall is_byte bs -> encode_le (length bs) (decode_le bs) = bs.
Proof.
induction 1 as [|b bs Hb H IH]; cbn [length encode_le decode_le]; auto.
unfold is_byte in Hb.
replace ((b + 256 * decode_le bs) mod 256) with b.
replace ((b + 256 * decode_le bs) / 256) with (decode_le bs).
now rewrite IH.
- rewrite Z.mul_comm, Z.div_add by lia. rewrite Z.div_small; lia.
- rewrite Z.mul_comm, Z.mod_add by lia. rewrite Z.mod_small; lia.
Qed.

Lemma encode_length : forall n z, length (encode_le n z) = n.
Proof. induction n; intros; cbn; auto. Qed.

Lemma firstn_encode_app : forall n z l, firstn n (encode_le n z ++ l) = encode_le n z.
Proof.
intros. rewrite firstn_app, encode_length, Nat.sub_diag, firstn_O, app_nil_r.
rewrite <- (encode_length n z) at 1. apply firstn_all.
Qed.

Lemma skipn_encode_app : forall n z l, skipn n (encode_le n z ++ l) = l.
Proof.
intros. rewrite skipn_app, encode_length, Nat.sub_diag. cbn [skipn].
rewrite <- (encode_length n z) at 1. now rewrite skipn_all.
Qed.

(* read after write, raw float data *)
Lemma read_write_raw_float : forall k d rest, 0 <= d < 2 ^ 64 ->
  read_raw_float_data k (write_raw_float_data k d ++ rest) =
  match k with F32 => widen_bits (narrow_bits d) | F64 => d end.
Proof.
intros [|] d rest Hd; unfold read_raw_float_data, write_raw_float_data.
- rewrite firstn_encode_app, decode_encode; auto. apply narrow_bits_range.
- rewrite firstn_encode_app, decode_encode; auto.
Qed.

Lemma read_write_raw_complex : forall k re im, 0 <= re < 2 ^ 64 -> 0 <= im < 2 ^ 64 ->
  read_raw_complex_data k (write_raw_complex_data k re im) =
  (read_raw_float_data k (write_raw_float_data k re), read_raw_float_data k (write_raw_float_data k im)).
Proof.
intros k re im Hre Him. unfold read_raw_complex_data, write_raw_complex_data.
f_equal.
- rewrite read_write_raw_float by auto. rewrite <- (app_nil_r (write_raw_float_data k re)).
  now rewrite read_write_raw_float.
- destruct k; unfold write_raw_float_data, fsize; now rewrite skipn_encode_app.
Qed.

(* long double: copy keeps the 10 value bytes *)
Lemma longdouble_copy_value_bytes : forall src pad,
  Forall is_byte src -> (10 <= length src)%nat ->
  firstn 10 (longdouble_copy src pad) = firstn 10 src.
Proof.
intros src pad Hb Hl. unfold longdouble_copy, write_raw_longdouble_data, read_raw_longdouble_data, ld_value_bytes.
rewrite firstn_encode_app.
assert (L : length (firstn 10 src) = 10%nat) by (rewrite firstn_length; lia).
rewrite <- L at 1. apply encode_decode.
clear -Hb. revert src Hb. generalize 10%nat. induction n; intros [|b src] Hb; cbn [firstn]; auto.
inversion Hb; subst. constructor; auto.
Qed.

(* ------------------------------------------------------------------ *)

Lemma F2R_exp0 : forall n : Z, F2R (Float radix2 n 0) = IZR n.
Proof. intros. unfold F2R. cbn. ring. Qed.

(* Python int -> double: correctly rounded, OverflowError exactly when the rounded value is out of range *)
Lemma int_to_double_correct : forall n : Z,
  let r := rne64 (IZR n) in
  if Rlt_bool (Rabs r) (bpow radix2 1024) then
    exists d, int_to_double n = Some d /\ 0 <= d < 2 ^ 64 /\
              Binary.B2R 53 1024 (b64_of_bits d) = r /\ Binary.is_finite 53 1024 (b64_of_bits d) = true
  else int_to_double n = None.
Proof.
intros n. cbn zeta. unfold int_to_double.
generalize (Binary.binary_normalize_correct 53 1024 Hprec64 Hmax64 mode_NE n 0 false).
cbn [round_mode]. change (SpecFloat.fexp 53 1024) with fexp64. rewrite F2R_exp0.
destruct Rlt_bool.
- intros (R1 & F1 & _). rewrite F1. eexists; split; [reflexivity|].
  split. apply (bits_of_binary_float_range 52 11); reflexivity.
  unfold b64_of_bits, bits_of_b64. rewrite binary_float_of_bits_of_binary_float. auto.
- intros HH.
  replace (Binary.is_finite 53 1024 _) with false; auto.
  rewrite <- Binary.is_finite_B2FF, HH. reflexivity.
Qed.

Lemma integer_format64 : forall n : Z, Z.abs n < 2 ^ 53 -> generic_format radix2 fexp64 (IZR n).
Proof.
intros n Hn. apply generic_format_FLT. exists (Float radix2 n 0).
- now rewrite F2R_exp0.
- exact Hn.
- cbn. lia.
Qed.

Lemma integer_format32 : forall n : Z, Z.abs n < 2 ^ 24 -> generic_format radix2 fexp32 (IZR n).
Proof.
intros n Hn. apply generic_format_FLT. exists (Float radix2 n 0).
- now rewrite F2R_exp0.
- exact Hn.
- cbn. lia.
Qed.

(* the ordinal of a 1-char bytes/str becomes exactly that number *)
Lemma double_of_ordinal_exact : forall n : Z, 0 <= n < 2 ^ 53 ->
  Binary.B2R 53 1024 (b64_of_bits (double_of_ordinal n)) = IZR n /\
  Binary.is_finite 53 1024 (b64_of_bits (double_of_ordinal n)) = true /\
  0 <= double_of_ordinal n < 2 ^ 64.
Proof.
intros n Hn. unfold double_of_ordinal.
unfold b64_of_bits, bits_of_b64. rewrite binary_float_of_bits_of_binary_float.
generalize (Binary.binary_normalize_correct 53 1024 Hprec64 Hmax64 mode_NE n 0 false).
cbn [round_mode]. change (SpecFloat.fexp 53 1024) with fexp64. rewrite F2R_exp0.
rewrite round_generic; [|auto with typeclass_instances|apply integer_format64; lia].
rewrite Rlt_bool_true.
- intros (A & B & _). repeat split; auto; apply (bits_of_binary_float_range 52 11); reflexivity.
- rewrite <- abs_IZR. change (bpow radix2 1024) with (IZR (2 ^ 1024)). apply IZR_lt.
  apply Z.lt_trans with (2 ^ 53); [lia|reflexivity].
Qed.

(* ... and a float cast of it is still exact when it fits 24 bits (all code points do) *)
Lemma float_of_ordinal_exact : forall n : Z, 0 <= n < 2 ^ 24 ->
  Binary.B2R 24 128 (narrow (b64_of_bits (double_of_ordinal n))) = IZR n.
Proof.
intros n Hn.
destruct (double_of_ordinal_exact n) as (A & B & _); [lia|].
destruct (narrow_representable _ B) as (C & _).
- rewrite A. apply integer_format32. lia.
- rewrite A, <- abs_IZR. change (bpow radix2 128) with (IZR (2 ^ 128)). apply IZR_lt.
  apply Z.lt_trans with (2 ^ 24); [lia|reflexivity].
- now rewrite C.
Qed.

(* ------------------------------------------------------------------ *)

Local Instance P24 : Prec_gt_0 24 := Hprec32.
Local Instance V32 : Valid_exp fexp32 := FLT_exp_valid (-149) 24.

(* the two adjacent doubles around the overflow threshold of (float) *)
Definition thr_hi : binary64 := b64_of_bits 0x47effffff0000000.   (* 2^128 - 2^103 : the midpoint, a tie *)
Definition thr_lo : binary64 := b64_of_bits 0x47efffffefffffff.   (* its predecessor in binary64 *)

Lemma rne32_abs : forall x : R, rne32 (Rabs x) = Rabs (rne32 x).
Proof.
intros.
assert (P : Prec_gt_0 24) by reflexivity.
apply (@round_NE_abs radix2 fexp32 (@FLT_exp_valid (-149) 24 P)).
Qed.

Lemma thr_hi_pos : (0 < Binary.B2R 53 1024 thr_hi)%R.
Proof.
assert (G : forall x : binary64, Binary.is_finite_strict 53 1024 x = true ->
            Binary.Bsign 53 1024 x = false -> (0 < Binary.B2R 53 1024 x)%R).
{ intros [s|s|s pl H|s m e H] A B; try discriminate A. cbn in B. subst s.
  cbn [Binary.B2R cond_Zopp]. now apply F2R_gt_0. }
apply G; vm_compute; reflexivity.
Qed.

Lemma narrow_thr_hi_inf : Binary.is_finite 24 128 (narrow thr_hi) = false.
Proof. vm_compute. reflexivity. Qed.
Lemma narrow_thr_lo_fin : Binary.is_finite 24 128 (narrow thr_lo) = true.
Proof. vm_compute. reflexivity. Qed.
Lemma thr_hi_finite : Binary.is_finite 53 1024 thr_hi = true.
Proof. vm_compute. reflexivity. Qed.
Lemma thr_lo_finite : Binary.is_finite 53 1024 thr_lo = true.
Proof. vm_compute. reflexivity. Qed.

Lemma round_thr_hi : (bpow radix2 128 <= rne32 (Binary.B2R 53 1024 thr_hi))%R.
Proof.
generalize (narrow_finite_correct thr_hi thr_hi_finite). cbn zeta.
case Rlt_bool_spec.
- intros _ (_ & F & _). rewrite narrow_thr_hi_inf in F. discriminate F.
- intros H _. rewrite Rabs_pos_eq in H; auto.
  rewrite <- (round_0 radix2 fexp32 ZnearestE).
  apply round_le; auto with typeclass_instances. apply Rlt_le, thr_hi_pos.
Qed.

Lemma round_thr_lo : (rne32 (Binary.B2R 53 1024 thr_lo) < bpow radix2 128)%R.
Proof.
generalize (narrow_finite_correct thr_lo thr_lo_finite). cbn zeta.
case Rlt_bool_spec.
- intros H _. eapply Rle_lt_trans; [apply RRle_abs|exact H].
- intros _ F. apply (f_equal (Binary.is_finite 24 128)) in F. rewrite narrow_thr_lo_fin in F. discriminate F.
Qed.

(* overflow: at or above the midpoint between FLT_MAX and 2^128 the store gives infinity;
   up to the preceding double it stays finite *)
Lemma narrow_overflow : forall x : binary64,
  Binary.is_finite 53 1024 x = true ->
  (Binary.B2R 53 1024 thr_hi <= Rabs (Binary.B2R 53 1024 x))%R ->
  narrow x = B754_infinity 24 128 (Binary.Bsign 53 1024 x).
Proof.
intros x Hf Hx.
generalize (narrow_finite_correct x Hf). cbn zeta.
rewrite Rlt_bool_false; auto.
rewrite <- rne32_abs.
eapply Rle_trans. apply round_thr_hi.
apply round_le; auto with typeclass_instances.
Qed.

Lemma narrow_no_overflow : forall x : binary64,
  Binary.is_finite 53 1024 x = true ->
  (Rabs (Binary.B2R 53 1024 x) <= Binary.B2R 53 1024 thr_lo)%R ->
  Binary.is_finite 24 128 (narrow x) = true /\
  Binary.B2R 24 128 (narrow x) = rne32 (Binary.B2R 53 1024 x).
Proof.
intros x Hf Hx.
generalize (narrow_finite_correct x Hf). cbn zeta.
rewrite Rlt_bool_true. tauto.
rewrite <- rne32_abs.
eapply Rle_lt_trans. 2: apply round_thr_lo.
apply round_le; auto with typeclass_instances.
Qed.

Lemma thr_adjacent : bits_of_b64 thr_hi = bits_of_b64 thr_lo + 1.
Proof. vm_compute. reflexivity. Qed.

(* ------------------------------------------------------------------ *)

Lemma Zeq_bool_eqb : forall a b, Zeq_bool a b = (a =? b).
Proof. intros. unfold Zeq_bool. rewrite Z.eqb_compare. now destruct (a ?= b). Qed.

Lemma is_nan_of_bits_gen : forall mw ew (Hmw : 0 < mw) (Hew : 0 < ew) Hmax x,
  Binary.is_nan _ _ (binary_float_of_bits mw ew Hmw Hew Hmax x) =
  ((x / 2 ^ mw) mod 2 ^ ew =? 2 ^ ew - 1) && negb (x mod 2 ^ mw =? 0).
Proof.
intros mw ew Hmw Hew Hmax x.
unfold binary_float_of_bits. rewrite Binary.is_nan_FF2B.
unfold binary_float_of_bits_aux, split_bits.
assert (0 < 2 ^ mw) by (apply Z.pow_pos_nonneg; lia).
assert (0 < 2 ^ ew) by (apply Z.pow_pos_nonneg; lia).
assert (1 < 2 ^ ew) by (apply Z.pow_gt_1; lia).
pose proof (Z.mod_pos_bound x (2 ^ mw) ltac:(lia)) as Hm.
set (m := x mod 2 ^ mw) in *.
set (e := (x / 2 ^ mw) mod 2 ^ ew) in *.
rewrite !Zeq_bool_eqb.
destruct (e =? 0) eqn:E0.
- apply Z.eqb_eq in E0. replace (e =? 2 ^ ew - 1) with false by (symmetry; apply Z.eqb_neq; lia).
  destruct m; try reflexivity. exfalso; lia.
- destruct (e =? 2 ^ ew - 1) eqn:E1.
  + destruct m; reflexivity.
  + destruct (m + 2 ^ mw) eqn:E2; try reflexivity; exfalso; lia.
Qed.

Lemma is_nan32_bits_correct : forall f, Binary.is_nan 24 128 (b32_of_bits f) = is_nan32_bits f.
Proof. intros. unfold b32_of_bits. apply (is_nan_of_bits_gen 23 8). Qed.

Lemma is_nan64_bits_correct : forall d, Binary.is_nan 53 1024 (b64_of_bits d) = is_nan64_bits d.
Proof. intros. unfold b64_of_bits. apply (is_nan_of_bits_gen 52 11). Qed.

(* ------------------------------------------------------------------ *)
(* the float in memory after a float store is the C conversion of the Python float, and the
   Python float read back is that float, exactly *)
Lemma float_store_read : forall d rest, 0 <= d < 2 ^ 64 ->
  let mem := write_raw_float_data F32 d ++ rest in
  b32_of_bits (decode_le (firstn 4 mem)) = narrow (b64_of_bits d) /\
  b64_of_bits (read_raw_float_data F32 mem) = widen (narrow (b64_of_bits d)).
Proof.
intros d rest Hd mem. unfold mem, read_raw_float_data, write_raw_float_data.
rewrite firstn_encode_app, decode_encode by apply narrow_bits_range.
unfold widen_bits, narrow_bits, b32_of_bits, bits_of_b32, b64_of_bits, bits_of_b64.
rewrite !binary_float_of_bits_of_binary_float. auto.
Qed.

Lemma double_store_read : forall d rest, 0 <= d < 2 ^ 64 ->
  let mem := write_raw_float_data F64 d ++ rest in
  decode_le (firstn 8 mem) = d /\ read_raw_float_data F64 mem = d.
Proof.
intros d rest Hd mem. unfold mem, read_raw_float_data, write_raw_float_data.
rewrite firstn_encode_app, decode_encode; auto.
Qed.

Lemma write_raw_float_length : forall k d, length (write_raw_float_data k d) = fsize k.
Proof. intros [|] d; apply encode_length. Qed.

(* complex stores: each part is stored exactly as a float store of that part would store it *)
Lemma store_complex_componentwise : forall k v mem,
  store_complex k v = Ok mem ->
  exists re im, PyComplex_AsCComplex v = Ok (re, im) /\
    firstn (fsize k) mem = write_raw_float_data k re /\
    skipn (fsize k) mem = write_raw_float_data k im /\
    store_float k (PyFloat re) = Ok (firstn (fsize k) mem) /\
    store_float k (PyFloat im) = Ok (skipn (fsize k) mem).
Proof.
intros k v mem. unfold store_complex.
destruct (PyComplex_AsCComplex v) as [[re im]|e]; [|discriminate].
intros H. injection H as <-. exists re, im. unfold write_raw_complex_data.
assert (A : firstn (fsize k) (write_raw_float_data k re ++ write_raw_float_data k im) = write_raw_float_data k re).
{ rewrite <- (write_raw_float_length k re) at 1. rewrite firstn_app, Nat.sub_diag, firstn_O, app_nil_r. apply firstn_all. }
assert (B : skipn (fsize k) (write_raw_float_data k re ++ write_raw_float_data k im) = write_raw_float_data k im).
{ rewrite <- (write_raw_float_length k re) at 1. rewrite skipn_app, Nat.sub_diag, skipn_all. reflexivity. }
rewrite A, B. unfold store_float. cbn. auto.
Qed.

Lemma cast_complex_componentwise : forall k v mem,
  cast_complex k v = Ok mem ->
  exists re im,
    firstn (fsize k) mem = write_raw_float_data k re /\
    skipn (fsize k) mem = write_raw_float_data k im /\
    match check_bytes_for_float_compatible v with
    | Some (Some d) => re = d /\ im = pos_zero
    | _ => PyComplex_AsCComplex v = Ok (re, im)
    end.
Proof.
intros k v mem. unfold cast_complex.
assert (G : forall re im, firstn (fsize k) (write_raw_complex_data k re im) = write_raw_float_data k re /\
                          skipn (fsize k) (write_raw_complex_data k re im) = write_raw_float_data k im).
{ intros. unfold write_raw_complex_data. split.
  - rewrite <- (write_raw_float_length k re) at 1. rewrite firstn_app, Nat.sub_diag, firstn_O, app_nil_r. apply firstn_all.
  - rewrite <- (write_raw_float_length k re) at 1. rewrite skipn_app, Nat.sub_diag, skipn_all. reflexivity. }
destruct (check_bytes_for_float_compatible v) as [[d|]|]; try discriminate.
- intros H. injection H as <-. exists d, pos_zero. destruct (G d pos_zero). auto.
- destruct (PyComplex_AsCComplex v) as [[re im]|e]; [|discriminate].
  intros H. injection H as <-. exists re, im. destruct (G re im). auto.
Qed.

(* ffi.cast and a store agree on everything that is not bytes/str; bytes/str are refused by a store *)
Lemma cast_float_vs_store : forall k v,
  match v with
  | PyBytes _ | PyStr _ => store_float k v = Err TypeError
  | _ => cast_float k v = store_float k v
  end.
Proof. intros k [b|b|n|re im|re im|bs|cps|]; reflexivity. Qed.

Lemma cast_float_char : forall k c,
  cast_float k (PyBytes [c]) = Ok (write_raw_float_data k (double_of_ordinal c)) /\
  cast_float k (PyStr [c]) = Ok (write_raw_float_data k (double_of_ordinal c)).
Proof. intros; split; reflexivity. Qed.

Lemma narrow_widen_bits_concrete : forall f : Z,
  0 <= f < 2 ^ 32 -> is_nan32_bits f = false -> narrow_bits (widen_bits f) = f.
Proof. intros f Hf Hn. apply narrow_widen_bits; auto. now rewrite is_nan32_bits_correct. Qed.

Lemma char_ordinal_exact : forall n : Z, 0 <= n < 2 ^ 24 ->
  cast_float F64 (PyStr [n]) = Ok (write_raw_float_data F64 (double_of_ordinal n)) /\
  cast_float F32 (PyStr [n]) = Ok (write_raw_float_data F32 (double_of_ordinal n)) /\
  Binary.B2R 53 1024 (b64_of_bits (double_of_ordinal n)) = IZR n /\
  Binary.B2R 24 128 (narrow (b64_of_bits (double_of_ordinal n))) = IZR n.
Proof.
intros n Hn. repeat split; try reflexivity.
- apply double_of_ordinal_exact. split; [apply Hn|]. apply Z.lt_trans with (2 ^ 24); [apply Hn|reflexivity].
- now apply float_of_ordinal_exact.
Qed.

(* ------------------------------------------------------------------ *)
(* the two threshold doubles are adjacent: no binary64 lies strictly between them *)

Lemma pred_thr_hi_bits :
  bits_of_b64 (Binary.Bpred 53 1024 Hprec64 Hmax64 thr_hi) = bits_of_b64 thr_lo.
Proof. vm_compute. reflexivity. Qed.

Lemma pred_thr_hi : Binary.Bpred 53 1024 Hprec64 Hmax64 thr_hi = thr_lo.
Proof.
rewrite <- (binary_float_of_bits_of_binary_float 52 11 eq_refl eq_refl eq_refl (Binary.Bpred 53 1024 Hprec64 Hmax64 thr_hi)).
rewrite <- (binary_float_of_bits_of_binary_float 52 11 eq_refl eq_refl eq_refl thr_lo).
apply f_equal. exact pred_thr_hi_bits.
Qed.

Local Instance P53 : Prec_gt_0 53 := Hprec64.
Local Instance V64 : Valid_exp fexp64 := FLT_exp_valid (-1074) 53.

Lemma B2R_thr_lo_is_pred : Binary.B2R 53 1024 thr_lo = pred radix2 fexp64 (Binary.B2R 53 1024 thr_hi).
Proof.
rewrite <- pred_thr_hi.
generalize (Binary.Bpred_correct 53 1024 Hprec64 Hmax64 thr_hi thr_hi_finite).
change (SpecFloat.fexp 53 1024) with fexp64.
rewrite Rlt_bool_true; [tauto|].
apply Rlt_le_trans with 0%R.
- rewrite <- Ropp_0. apply Ropp_lt_contravar, bpow_gt_0.
- apply (@pred_ge_0 radix2 fexp64 V64).
  + apply thr_hi_pos.
  + apply (Binary.generic_format_B2R 53 1024 thr_hi).
Qed.

(* no binary64 lies strictly between thr_lo and thr_hi *)
Lemma below_thr_hi_le_thr_lo : forall x : binary64,
  (Rabs (Binary.B2R 53 1024 x) < Binary.B2R 53 1024 thr_hi)%R ->
  (Rabs (Binary.B2R 53 1024 x) <= Binary.B2R 53 1024 thr_lo)%R.
Proof.
intros x H. rewrite B2R_thr_lo_is_pred.
apply (@pred_ge_gt radix2 fexp64 V64); auto.
- apply generic_format_abs. apply (Binary.generic_format_B2R 53 1024 x).
- apply (Binary.generic_format_B2R 53 1024 thr_hi).
Qed.

(* the overflow threshold, as an iff *)
Lemma narrow_overflow_iff : forall x : binary64,
  Binary.is_finite 53 1024 x = true ->
  (Binary.is_finite 24 128 (narrow x) = false <->
   (Binary.B2R 53 1024 thr_hi <= Rabs (Binary.B2R 53 1024 x))%R).
Proof.
intros x Hf. split.
- intros Hinf. destruct (Rle_or_lt (Binary.B2R 53 1024 thr_hi) (Rabs (Binary.B2R 53 1024 x))) as [H|H]; auto.
  exfalso. apply below_thr_hi_le_thr_lo in H.
  destruct (narrow_no_overflow x Hf H) as [F _]. congruence.
- intros H. rewrite (narrow_overflow x Hf H). reflexivity.
Qed.
