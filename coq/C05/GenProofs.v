(* C05 — executing the regenerated statements (C05/Gen.v through C05/Interp.v) equals the hand models
   C05/XModel.v and C05/Model.v, for every target, source, offset and memory. *)
From Coq Require Import String ZArith List Bool Lia.
From Cffi Require Import C03.Mem C03.MemProofs C05.Model C05.XModel C05.IR C05.Gen C05.Interp.
Import ListNotations.
Open Scope list_scope.
Open Scope Z_scope.

(* ---- lists *)
Lemma splice_adjacent : forall off (a b mem : list Z),
  (off + length a <= length mem)%nat ->
  splice (off + length a) b (splice off a mem) = splice off (a ++ b) mem.
Proof.
  intros off a b mem H. unfold splice.
  assert (Hf : length (firstn off mem) = off) by (rewrite firstn_length; lia).
  set (p := firstn off mem) in *.
  set (r := skipn (off + length a) mem).
  assert (E1 : firstn (off + length a) (p ++ a ++ r) = p ++ a).
  { rewrite app_assoc. replace (off + length a)%nat with (length (p ++ a) + 0)%nat by (rewrite app_length; lia).
    rewrite firstn_app_2. cbn. apply app_nil_r. }
  assert (E2 : skipn (off + length a + length b) (p ++ a ++ r) = skipn (length b) r).
  { rewrite app_assoc. replace (off + length a + length b)%nat with (length (p ++ a) + length b)%nat by (rewrite app_length; lia).
    rewrite skipn_app. rewrite skipn_all2 by lia.
    replace (length (p ++ a) + length b - length (p ++ a))%nat with (length b) by lia. reflexivity. }
  rewrite E1, E2. unfold r. rewrite <- skipn_plus, app_length.
  replace (off + length a + length b)%nat with (off + (length a + length b))%nat by lia.
  now rewrite <- !app_assoc.
Qed.

Lemma splice_whole : forall (bs mem : list Z), length bs = length mem -> splice 0 bs mem = bs.
Proof.
  intros bs mem H. unfold splice. cbn [firstn app plus]. rewrite H, skipn_all. apply app_nil_r.
Qed.

Lemma model_encode_length : forall n z, length (Model.encode_le n z) = n.
Proof. induction n; intros; cbn [Model.encode_le length]; [reflexivity|now rewrite IHn]. Qed.

Lemma write_raw_float_len : forall k d, length (write_raw_float_data k d) = fsize k.
Proof. intros [|] d; apply model_encode_length. Qed.

Lemma write_raw_complex_len : forall k re im, length (write_raw_complex_data k re im) = (2 * fsize k)%nat.
Proof. intros k re im. unfold write_raw_complex_data. rewrite app_length, !write_raw_float_len. lia. Qed.

(* nothing below may compute inside the IEEE conversions *)
Local Opaque narrow_bits widen_bits double_to_ld ld_to_double ld_to_float int_to_double double_of_ordinal
      Model.encode_le Model.decode_le splice.

(* ---- raw data: the macros instantiated as in the source are the hand functions of Model.v *)
Lemma gen_write_raw_float_ok : forall k src off mem,
  gen_write_raw_float_data (fsize k) src off mem = Some (splice off (write_raw_float_data k src) mem).
Proof. intros [|] src off mem; reflexivity. Qed.

Lemma gen_write_raw_longdouble_ok : forall v pad off mem,
  gen_write_raw_longdouble_data v pad off mem = Some (splice off (write_raw_longdouble_data v pad) mem).
Proof. intros; reflexivity. Qed.

Lemma gen_write_raw_complex_ok : forall k re im off mem,
  (off + fsize k <= length mem)%nat ->
  gen_write_raw_complex_data (2 * fsize k) (re, im) off mem
  = Some (splice off (write_raw_complex_data k re im) mem).
Proof.
  intros k re im off mem H. unfold write_raw_complex_data.
  rewrite <- splice_adjacent by (rewrite write_raw_float_len; exact H).
  rewrite write_raw_float_len.
  destruct k; reflexivity.
Qed.

Lemma gen_read_raw_float_ok : forall k target,
  gen_read_raw_float_data (fsize k) target = Some (read_raw_float_data k target).
Proof. intros [|] target; reflexivity. Qed.

Lemma gen_read_raw_longdouble_ok : forall target,
  gen_read_raw_longdouble_data target = Some (read_raw_longdouble_data target).
Proof. intros; reflexivity. Qed.

Lemma gen_read_raw_complex_ok : forall k target,
  gen_read_raw_complex_data (2 * fsize k) target = Some (read_raw_complex_data k target).
Proof. intros [|] target; reflexivity. Qed.

(* the layout facts, stated on the regenerated macro itself *)
Lemma complex_layout_fact :
  wm_body write_raw_complex_data_macro
  = [WDecl "r" SrcReal; WDecl "i" SrcImag; WCopy OffZero "r"; WCopy OffSizeof "i"; WReturn]
  /\ wm_mult write_raw_complex_data_macro = 2%nat
  /\ write_raw_complex_insts = [CFloat; CDouble] /\ write_raw_float_insts = [CFloat; CDouble]
  /\ read_raw_float_insts = [CFloat; CDouble].
Proof. repeat split. Qed.

(* ---- check_bytes_for_float_compatible *)
Definition cb_code (r : option (option Z)) : Z * Z :=
  match r with None => (-1, 0) | Some None => (0, 0) | Some (Some x) => (1, x) end.

Lemma gen_check_bytes_ok : forall io, gen_check_bytes io = cb_code (x_check_bytes io).
Proof.
  intros [p|c]; [|reflexivity].
  destruct p as [b|b|n|re im|re im|bs|cps|]; try reflexivity.
  - destruct bs as [|b [|b' bs]]; reflexivity.
  - destruct cps as [|c [|c' cps]]; reflexivity.
Qed.

Local Opaque gen_check_bytes gen_write_raw_float_data gen_write_raw_longdouble_data gen_write_raw_complex_data
      gen_read_raw_longdouble_data x_as_double x_as_complex x_to_object x_check_bytes.

Ltac unfold_gen :=
  unfold gen_store_float_at, gen_store_complex_at, gen_cast_float_at, gen_cast_complex_at,
         store_float_prog, store_complex_prog, cast_float_prog, cast_complex_prog, store_state, cast_state.

(* ---- convert_from_object, float branch *)
Lemma gen_store_float_at_ok : forall t pad init off mem,
  gen_store_float_at t pad init off mem = Some (xstore_float_at t pad init off mem).
Proof.
  intros t pad init off mem. unfold_gen. unfold xstore_float_at.
  destruct t as [k|].
  - (* float / double target: the long double block is skipped *)
    cbn [exec_f guard_on negb f_io target_is_ld is_ld_copy set_val f_val f_err f_alloc fst snd].
    destruct (x_as_double init) as [v|e].
    + cbn [exec_f guard_on negb f_io target_is_ld set_val f_val f_err f_alloc fst snd xsize ok_or_stuck].
      rewrite gen_write_raw_float_ok. reflexivity.
    + cbn [exec_f guard_on negb f_io target_is_ld set_val f_val f_err f_alloc fst snd]. reflexivity.
  - destruct init as [p|c].
    + cbn [exec_f guard_on negb f_io target_is_ld is_ld_copy set_val f_val f_err f_alloc fst snd].
      destruct (x_as_double (XPy p)) as [v|e].
      * cbn [exec_f guard_on negb f_io target_is_ld set_val f_val f_err f_alloc fst snd xsize ok_or_stuck cconv].
        rewrite gen_write_raw_longdouble_ok. reflexivity.
      * reflexivity.
    + destruct c as [k b|bs|n|b|c|k re im|];
        cbn [exec_f guard_on negb f_io target_is_ld is_ld_copy set_val f_val f_err f_alloc fst snd].
      2: { rewrite gen_read_raw_longdouble_ok. cbn [cconv ok_or_stuck]. rewrite gen_write_raw_longdouble_ok. reflexivity. }
      all: match goal with |- context [x_as_double ?x] => destruct (x_as_double x) as [v|e] end;
           cbn [exec_f guard_on negb f_io target_is_ld set_val f_val f_err f_alloc fst snd xsize ok_or_stuck cconv];
           try rewrite gen_write_raw_longdouble_ok; reflexivity.
Qed.

Ltac run_f := cbn [exec_f guard_on negb f_io f_res target_is_ld is_ld_copy set_val set_io set_res set_alloc
                   f_val f_err f_alloc fst snd xsize ok_or_stuck cconv cb_code Z.eqb Pos.eqb Z.opp].

(* ---- convert_from_object, complex branch *)
Lemma gen_store_complex_at_ok : forall k init off mem,
  (off + fsize k <= length mem)%nat ->
  gen_store_complex_at k init off mem = Some (xstore_complex_at k init off mem).
Proof.
  intros k init off mem H. unfold_gen. unfold xstore_complex_at. run_f.
  destruct (x_as_complex init) as [[re im]|e]; run_f; [|reflexivity].
  rewrite gen_write_raw_complex_ok by exact H. reflexivity.
Qed.

(* ---- do_cast, float branch *)
Lemma gen_cast_float_at_ok : forall t pad ob off mem,
  gen_cast_float_at t pad ob off mem = Some (xcast_float_at t pad ob off mem).
Proof.
  intros t pad ob off mem. unfold_gen. unfold xcast_float_at. run_f.
  destruct (x_to_object ob) as [io|]; [|reflexivity]. run_f.
  rewrite gen_check_bytes_ok.
  destruct (x_check_bytes io) as [[value|]|]; run_f; [| |reflexivity].
  - (* the value came from a 1-character bytes/str *)
    destruct t as [k|]; run_f.
    + rewrite gen_write_raw_float_ok. reflexivity.
    + rewrite gen_write_raw_longdouble_ok. reflexivity.
  - destruct t as [k|].
    + run_f. destruct (x_as_double io) as [v|e]; run_f; [|reflexivity].
      rewrite gen_write_raw_float_ok. reflexivity.
    + destruct io as [p|c].
      * run_f. destruct (x_as_double (XPy p)) as [v|e]; run_f; [|reflexivity].
        rewrite gen_write_raw_longdouble_ok. reflexivity.
      * destruct c as [k b|bs|n|b|c|k re im|]; run_f.
        2: { rewrite gen_read_raw_longdouble_ok. run_f. rewrite gen_write_raw_longdouble_ok. reflexivity. }
        all: match goal with |- context [x_as_double ?x] => destruct (x_as_double x) as [v|e] end;
             run_f; try rewrite gen_write_raw_longdouble_ok; reflexivity.
Qed.

(* ---- do_cast, complex branch *)
Lemma gen_cast_complex_at_ok : forall k ob off mem,
  (off + fsize k <= length mem)%nat ->
  gen_cast_complex_at k ob off mem = Some (xcast_complex_at k ob off mem).
Proof.
  intros k ob off mem H. unfold_gen. unfold xcast_complex_at. run_f.
  destruct (x_to_object ob) as [io|]; [|reflexivity]. run_f.
  rewrite gen_check_bytes_ok.
  destruct (x_check_bytes io) as [[re|]|]; run_f; [| |reflexivity].
  - rewrite gen_write_raw_complex_ok by exact H. reflexivity.
  - destruct (x_as_complex io) as [[re im]|e]; run_f; [|reflexivity].
    rewrite gen_write_raw_complex_ok by exact H. reflexivity.
Qed.

(* ---- the extended model on Python-object sources and float/double targets is Model.v placed in memory *)
Local Transparent x_as_double x_as_complex x_to_object x_check_bytes.

Lemma xstore_float_at_model : forall k pad v off mem,
  xstore_float_at (TK k) pad (XPy v) off mem = place (store_float k v) off mem.
Proof.
  intros. unfold xstore_float_at, store_float, place. cbn [is_ld_copy x_as_double xwrite_float].
  destruct (PyFloat_AsDouble v); reflexivity.
Qed.

Lemma xstore_complex_at_model : forall k v off mem,
  xstore_complex_at k (XPy v) off mem = place (store_complex k v) off mem.
Proof.
  intros. unfold xstore_complex_at, store_complex, place. cbn [x_as_complex].
  destruct (PyComplex_AsCComplex v) as [[re im]|e]; reflexivity.
Qed.

Lemma xcast_float_at_model : forall k pad v off mem,
  xcast_float_at (TK k) pad (XPy v) off mem = place (cast_float k v) off mem.
Proof.
  intros. unfold xcast_float_at, cast_float, place. cbn [x_to_object x_check_bytes is_ld_copy x_as_double xwrite_float].
  destruct (check_bytes_for_float_compatible v) as [[x|]|]; try reflexivity.
  destruct (PyFloat_AsDouble v); reflexivity.
Qed.

Lemma xcast_complex_at_model : forall k v off mem,
  xcast_complex_at k (XPy v) off mem = place (cast_complex k v) off mem.
Proof.
  intros. unfold xcast_complex_at, cast_complex, place. cbn [x_to_object x_check_bytes x_as_complex].
  destruct (check_bytes_for_float_compatible v) as [[x|]|]; try reflexivity.
  destruct (PyComplex_AsCComplex v) as [[re im]|e]; reflexivity.
Qed.

(* ---- the statements as named in the review: the regenerated code IS the Model.v function *)
Lemma bytes_of_place : forall n r, (match r with Ok bs => length bs = n | Err _ => True end) ->
  bytes_of n (Some (place r 0 (repeat 0 n))) = Some r.
Proof.
  intros n [bs|e] H; cbn [place bytes_of]; [|reflexivity].
  rewrite splice_whole by (rewrite repeat_length; exact H). reflexivity.
Qed.

Lemma gen_store_float_refines : forall k v, gen_store_float k v = Some (store_float k v).
Proof.
  intros. unfold gen_store_float. rewrite gen_store_float_at_ok, xstore_float_at_model.
  apply bytes_of_place. unfold store_float. destruct (PyFloat_AsDouble v); [apply write_raw_float_len|exact I].
Qed.

Lemma gen_store_complex_refines : forall k v, gen_store_complex k v = Some (store_complex k v).
Proof.
  intros. unfold gen_store_complex.
  rewrite gen_store_complex_at_ok by (rewrite repeat_length; lia).
  rewrite xstore_complex_at_model.
  apply bytes_of_place. unfold store_complex.
  destruct (PyComplex_AsCComplex v) as [[re im]|e]; [apply write_raw_complex_len|exact I].
Qed.

Lemma gen_cast_float_refines : forall k v, gen_cast_float k v = Some (cast_float k v).
Proof.
  intros. unfold gen_cast_float. rewrite gen_cast_float_at_ok, xcast_float_at_model.
  apply bytes_of_place. unfold cast_float.
  destruct (check_bytes_for_float_compatible v) as [[x|]|]; [apply write_raw_float_len| |exact I].
  destruct (PyFloat_AsDouble v); [apply write_raw_float_len|exact I].
Qed.

Lemma gen_cast_complex_refines : forall k v, gen_cast_complex k v = Some (cast_complex k v).
Proof.
  intros. unfold gen_cast_complex.
  rewrite gen_cast_complex_at_ok by (rewrite repeat_length; lia).
  rewrite xcast_complex_at_model.
  apply bytes_of_place. unfold cast_complex.
  destruct (check_bytes_for_float_compatible v) as [[x|]|]; [apply write_raw_complex_len| |exact I].
  destruct (PyComplex_AsCComplex v) as [[re im]|e]; [apply write_raw_complex_len|exact I].
Qed.
