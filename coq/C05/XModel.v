(* C05 — extended hand model of the float paths of src/c/_cffi_backend.c: the same code as C05/Model.v
   (convert_from_object float/complex branches, do_cast float/complex branches), now
     * writing at a byte offset of a larger memory (C03.Mem.splice), with the memory returned also on
       failure ("a failing store leaves the target unchanged" becomes expressible);
     * with the long double target (x87 80-bit extended, 16 bytes of which 10 hold the value): the
       conversions (long double)d and (double)ld are Flocq roundings at precision 64 / emax 16384;
     * with primitive cdata sources: the long double -> long double special case of both functions, the
       cdata_float path of PyFloat_AsDouble (:2372), and do_cast's `io = convert_to_object(cdsrc)` (:4212).
   On (F32|F64) targets and Python-object sources it coincides with C05/Model.v (XProofs.v).
   C05/Interp.v executes the regenerated statements; C05/GenProofs.v proves them equal to this model. *)
From Coq Require Import ZArith List Bool.
From Flocq Require Import Core.Zaux Core.FLX IEEE754.BinarySingleNaN IEEE754.Binary IEEE754.Bits.
From Cffi Require Import C03.Mem C05.Model.
Import ListNotations.
Open Scope Z_scope.

(* ---- x87 double-extended: sign(1) | exponent(15, bias 16383) | mantissa(64, explicit integer bit) *)
Definition Hprec_x87 : Prec_gt_0 64 := eq_refl.
Definition Hmax_x87 : Prec_lt_emax 64 16384 := eq_refl.
Definition x87 := binary_float 64 16384.
Definition qnan_x87 : x87 := B754_nan 64 16384 false 4611686018427387904 (eq_refl true).

(* (long double)d *)
Definition widen_ld (x : binary64) : x87 :=
  match x with
  | B754_zero _ _ s => B754_zero 64 16384 s
  | B754_infinity _ _ s => B754_infinity 64 16384 s
  | B754_nan _ _ _ _ _ => qnan_x87
  | B754_finite _ _ s m e _ =>
      Binary.binary_normalize 64 16384 Hprec_x87 Hmax_x87 mode_NE (cond_Zopp s (Zpos m)) e s
  end.

Definition sign79 (s : bool) : Z := if s then 2 ^ 79 else 0.
Definition bits_of_x87 (x : x87) : Z :=
  match x with
  | B754_zero _ _ s => sign79 s
  | B754_infinity _ _ s => sign79 s + 32767 * 2 ^ 64 + 2 ^ 63
  | B754_nan _ _ s pl _ => sign79 s + 32767 * 2 ^ 64 + 2 ^ 63 + Zpos pl
  | B754_finite _ _ s m e _ =>
      sign79 s + (if Zpos m <? 2 ^ 63 then Zpos m            (* denormal: exponent field 0 *)
                  else (e + 16446) * 2 ^ 64 + Zpos m)        (* m * 2^e = (m / 2^63) * 2^(e + 63) *)
  end.
Definition double_to_ld (d : Z) : Z := bits_of_x87 (widen_ld (b64_of_bits d)).

(* (double)ld and (float)ld, from the 80-bit pattern: one rounding of mantissa * 2^(max(e,1) - 16446) *)
Definition ld_fields (v : Z) : bool * Z * Z := (Z.testbit v 79, (v / 2 ^ 64) mod 2 ^ 15, v mod 2 ^ 64).
Definition ld_to_double (v : Z) : Z :=
  let '(s, e, m) := ld_fields v in
  if e =? 32767 then
    (if m mod 2 ^ 63 =? 0 then bits_of_b64 (B754_infinity 53 1024 s) else bits_of_b64 qnan64)
  else bits_of_b64 (Binary.binary_normalize 53 1024 Hprec64 Hmax64 mode_NE (cond_Zopp s m) (Z.max e 1 - 16446) s).
Definition ld_to_float (v : Z) : Z :=
  let '(s, e, m) := ld_fields v in
  if e =? 32767 then
    (if m mod 2 ^ 63 =? 0 then bits_of_b32 (B754_infinity 24 128 s) else bits_of_b32 qnan32)
  else bits_of_b32 (Binary.binary_normalize 24 128 Hprec32 Hmax32 mode_NE (cond_Zopp s m) (Z.max e 1 - 16446) s).

(* ---- targets and sources *)
Inductive ftarget := TK (k : fkind) | TLD.               (* float | double | long double *)
Definition xsize (t : ftarget) : nat := match t with TK k => fsize k | TLD => 16%nat end.

(* a cdata given as the source of a store or cast, by what it holds *)
Inductive cdsrc :=
  | CDFloat (k : fkind) (bits : Z)          (* <cdata 'float'> / <cdata 'double'>, the stored pattern *)
  | CDLongDouble (bs : list Z)              (* <cdata 'long double'>, its 16 bytes *)
  | CDInt (n : Z)                           (* any integer cdata, the value it holds (bool cdata: 0 / 1) *)
  | CDChar (b : Z)                          (* <cdata 'char'> *)
  | CDWChar (c : Z)                         (* wchar_t / char16_t / char32_t cdata *)
  | CDComplex (k : fkind) (re im : Z)       (* float _Complex / double _Complex cdata *)
  | CDOther.                                (* pointer, struct, array, function: not CT_PRIMITIVE_ANY *)
Inductive xval := XPy (v : pyval) | XCData (c : cdsrc).

(* read_raw_float_data on the cdata's own storage *)
Definition read_bits (k : fkind) (bits : Z) : Z := match k with F32 => widen_bits bits | F64 => bits end.

(* PyFloat_AsDouble(x): Python objects as in Model.v; a cdata goes through nb_float = cdata_float (:2372),
   which supports CT_PRIMITIVE_FLOAT only *)
Definition x_as_double (x : xval) : result Z :=
  match x with
  | XPy p => PyFloat_AsDouble p
  | XCData (CDFloat k b) => Ok (read_bits k b)
  | XCData (CDLongDouble bs) => Ok (ld_to_double (read_raw_longdouble_data bs))
  | XCData _ => Err TypeError
  end.

(* PyComplex_AsCComplex(x): a cdata has a __complex__ method (cdata_complex :3319) that supports
   CT_PRIMITIVE_COMPLEX only and raises TypeError otherwise (no fallback to __float__ then) *)
Definition x_as_complex (x : xval) : result (Z * Z) :=
  match x with
  | XPy p => PyComplex_AsCComplex p
  | XCData (CDComplex k re im) => Ok (read_bits k re, read_bits k im)
  | XCData _ => Err TypeError
  end.

(* do_cast :4207-4220: a cdata source must be CT_PRIMITIVE_ANY (None = goto cannot_cast) and is replaced
   by convert_to_object(cdsrc) (:1113-1176): int -> int, float/double -> float, char -> bytes of length 1,
   wide char -> str of length 1, complex -> complex, long double -> a new long double cdata *)
Definition x_to_object (ob : xval) : option xval :=
  match ob with
  | XPy p => Some (XPy p)
  | XCData (CDFloat k b) => Some (XPy (PyFloat (read_bits k b)))
  | XCData (CDLongDouble bs) => Some (XCData (CDLongDouble bs))
  | XCData (CDInt n) => Some (XPy (PyInt n))
  | XCData (CDChar b) => Some (XPy (PyBytes [b]))
  | XCData (CDWChar c) => Some (XPy (PyStr [c]))
  | XCData (CDComplex k re im) => Some (XPy (PyComplex (read_bits k re) (read_bits k im)))
  | XCData CDOther => None
  end.

Definition x_check_bytes (io : xval) : option (option Z) :=
  match io with
  | XPy p => check_bytes_for_float_compatible p
  | XCData _ => Some None
  end.

(* ---- the bytes written for a double `value` into a target of kind t *)
Definition xwrite_float (t : ftarget) (value : Z) (pad : list Z) : list Z :=
  match t with
  | TK k => write_raw_float_data k value
  | TLD => write_raw_longdouble_data (double_to_ld value) pad
  end.

Definition is_ld_copy (t : ftarget) (x : xval) : option (list Z) :=
  match t, x with
  | TLD, XCData (CDLongDouble bs) => Some bs
  | _, _ => None
  end.

(* convert_from_object(data = mem + off, ct, init), CT_PRIMITIVE_FLOAT branch (:1769-1789) *)
Definition xstore_float_at (t : ftarget) (pad : list Z) (init : xval) (off : nat) (mem : list Z)
  : result unit * list Z :=
  match is_ld_copy t init with
  | Some bs => (Ok tt, splice off (longdouble_copy bs pad) mem)
  | None =>
      match x_as_double init with
      | Ok value => (Ok tt, splice off (xwrite_float t value pad) mem)
      | Err e => (Err e, mem)
      end
  end.

(* convert_from_object, CT_PRIMITIVE_COMPLEX branch (:1824-1830) *)
Definition xstore_complex_at (k : fkind) (init : xval) (off : nat) (mem : list Z) : result unit * list Z :=
  match x_as_complex init with
  | Ok (re, im) => (Ok tt, splice off (write_raw_complex_data k re im) mem)
  | Err e => (Err e, mem)
  end.

(* do_cast, CT_PRIMITIVE_FLOAT branch (:4203-4257); mem + off is the new cdata's storage *)
Definition xcast_float_at (t : ftarget) (pad : list Z) (ob : xval) (off : nat) (mem : list Z)
  : result unit * list Z :=
  match x_to_object ob with
  | None => (Err TypeError, mem)
  | Some io =>
      match x_check_bytes io with
      | None => (Err TypeError, mem)
      | Some (Some value) => (Ok tt, splice off (xwrite_float t value pad) mem)
      | Some None =>
          match is_ld_copy t io with
          | Some bs => (Ok tt, splice off (longdouble_copy bs pad) mem)
          | None =>
              match x_as_double io with
              | Ok value => (Ok tt, splice off (xwrite_float t value pad) mem)
              | Err e => (Err e, mem)
              end
          end
      end
  end.

(* do_cast, CT_PRIMITIVE_COMPLEX branch (:4258-4297) *)
Definition xcast_complex_at (k : fkind) (ob : xval) (off : nat) (mem : list Z) : result unit * list Z :=
  match x_to_object ob with
  | None => (Err TypeError, mem)
  | Some io =>
      match x_check_bytes io with
      | None => (Err TypeError, mem)
      | Some (Some re) => (Ok tt, splice off (write_raw_complex_data k re pos_zero) mem)
      | Some None =>
          match x_as_complex io with
          | Ok (re, im) => (Ok tt, splice off (write_raw_complex_data k re im) mem)
          | Err e => (Err e, mem)
          end
      end
  end.

(* the Model.v functions, placed in memory: what the four functions above are on Python-object sources *)
Definition place (r : result (list Z)) (off : nat) (mem : list Z) : result unit * list Z :=
  match r with
  | Ok bs => (Ok tt, splice off bs mem)
  | Err e => (Err e, mem)
  end.

(* ---- entry point of the correspondence check for cdata sources and the long double target:
   stored value bytes (10 for long double) as one little-endian number per component *)
Inductive xtarget := XF (t : ftarget) | XC (k : fkind).
Definition xtotal (t : xtarget) : nat := match t with XF t => xsize t | XC k => (2 * fsize k)%nat end.
Definition xrun (t : xtarget) (p : path) (pad : list Z) (v : xval) : result unit * list Z :=
  let mem := repeat 0 (xtotal t) in
  match t, p with
  | XF t, Store => xstore_float_at t pad v 0 mem
  | XF t, Cast => xcast_float_at t pad v 0 mem
  | XC k, Store => xstore_complex_at k v 0 mem
  | XC k, Cast => xcast_complex_at k v 0 mem
  end.
Definition xcanon (t : xtarget) (mem : list Z) : list Z :=
  match t with
  | XF (TK F32) => canon_mem TFloat mem
  | XF (TK F64) => canon_mem TDouble mem
  | XF TLD => [decode_le (firstn 10 mem)]
  | XC F32 => canon_mem TFloatComplex mem
  | XC F64 => canon_mem TDoubleComplex mem
  end.
Definition xobserve (t : xtarget) (p : path) (v : xval) : result (list Z) :=
  match xrun t p [0; 0; 0; 0; 0; 0] v with
  | (Ok _, mem) => Ok (xcanon t mem)
  | (Err e, _) => Err e
  end.
