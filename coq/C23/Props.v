(* C23 — generated source is deterministic, idempotent and replaced atomically.  Statements only.
   `the_holes` is regenerated from recompiler._make_c_or_py_source on every run (C23/Gen.v);
   write_trace, run, mutating, universal_nl: C23/Model.v.

   This file covers the write path (idempotence, atomic replacement).  The determinism half of the
   property (same text across processes / hash seeds / calls) is established by sampling in
   tools/props/c23.py — label partial.

   Reading recorded (DESIGN Appendix B): crash points are the I/O steps of the path taken on POSIX
   (the first rename succeeds); a failing first rename is a fault outside the quantifier
   (C23_fallback_not_atomic shows what happens then). *)
From Coq Require Import List NArith ZArith Bool.
Import ListNotations.
From Cffi Require Import C35.PyStr C35.Model C23.Model C23.Gen C23.Proofs.
Open Scope N_scope.

(* regenerating into a file whose content is already identical: no mutating operation at all
   (so mtime and inode are preserved), and "not updated" is reported — for content without '\r' *)
Theorem C23_uptodate : forall rename_ok c, no_cr c ->
  snd (write_trace the_holes rename_ok (Some c) c) = false /\
  filter mutating (fst (write_trace the_holes rename_ok (Some c) c)) = [].
Proof. exact uptodate. Qed.
Print Assumptions C23_uptodate.

(* the full statement (any content) is false: a '\r' makes every run rewrite the file *)
Theorem C23_uptodate_refuted : forall rename_ok c, In 13 c ->
  snd (write_trace the_holes rename_ok (Some c) c) = true /\
  filter mutating (fst (write_trace the_holes rename_ok (Some c) c)) <> [].
Proof. exact uptodate_refuted. Qed.
Print Assumptions C23_uptodate_refuted.

(* "not updated" is reported only if the target's text already is the generated text *)
Theorem C23_not_updated_means_same : forall rename_ok old new,
  snd (write_trace the_holes rename_ok old new) = false -> exists c, old = Some c /\ universal_nl c = new.
Proof. exact not_updated_means_same. Qed.
Print Assumptions C23_not_updated_means_same.

(* every crash point: after any prefix of the operations the target holds the complete old content
   (or is absent as before) or the complete new content *)
Theorem C23_atomic : forall old new k,
  let s := run (firstn k (fst (write_trace the_holes true old new))) (fs0 old) in
  f_target s = old \/ f_target s = Some new.
Proof. exact atomic. Qed.
Print Assumptions C23_atomic.

(* completion: updated => target = new text, temporary gone; not updated => file system unchanged *)
Theorem C23_final_state : forall old new,
  let s := run (fst (write_trace the_holes true old new)) (fs0 old) in
  (snd (write_trace the_holes true old new) = true -> f_target s = Some new /\ f_tmp s = None) /\
  (snd (write_trace the_holes true old new) = false -> s = fs0 old).
Proof. exact final_state. Qed.
Print Assumptions C23_final_state.

(* outside the quantifier: if the first rename fails the unlink/rename fallback loses atomicity *)
Theorem C23_fallback_not_atomic : exists old new k,
  let s := run (firstn k (fst (write_trace the_holes false old new))) (fs0 old) in
  f_target s <> old /\ f_target s <> Some new.
Proof. exact fallback_not_atomic. Qed.
Print Assumptions C23_fallback_not_atomic.

(* non-vacuity: old "ab\n", new "ac\n": the seven operations and the states they go through *)
Example C23_example :
  write_trace the_holes true (Some [97;98;10]) [97;99;10] =
  ([OOpenRead Target; ORead Target 4; OClose Target; OOpenWrite Tmp; OWrite Tmp [97;99;10]; OClose Tmp;
    ORename Tmp Target], true) /\
  map (fun k => f_target (run (firstn k (fst (write_trace the_holes true (Some [97;98;10]) [97;99;10])))
                              (fs0 (Some [97;98;10])))) (seq 0 8) =
  [Some [97;98;10]; Some [97;98;10]; Some [97;98;10]; Some [97;98;10]; Some [97;98;10]; Some [97;98;10];
   Some [97;98;10]; Some [97;99;10]].
Proof. vm_compute. split; reflexivity. Qed.

Example C23_example_uptodate :
  write_trace the_holes true (Some [97;10]) [97;10] = ([OOpenRead Target; ORead Target 3; OClose Target], false).
Proof. vm_compute. reflexivity. Qed.
