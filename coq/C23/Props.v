(* C23 — generated source is deterministic, idempotent and replaced atomically.  Statements only.
   `the_holes` is regenerated from recompiler._make_c_or_py_source on every run (C23/Gen.v);
   write_trace, run, mutating, universal_nl: C23/Model.v;  sort_by: C23/Order.v.

   What is PROVED here, clause by clause of the property statement:
     "Regenerating into a file whose content is already identical leaves it untouched (mtime preserved) and
      reports it as not updated"        C23_uptodate (content without '\r'), C23_not_updated_means_same;
                                        false for content with '\r': C23_uptodate_refuted (known finding)
     "otherwise, at any crash point during regeneration, the target path holds either the complete old
      content or the complete new content"   C23_atomic (every prefix of the operation trace), C23_final_state
     "The text written ... is a function of the cdef declarations, module name and C source only: identical
      across processes, hash seeds and repeated calls"
        Proved, about a model whose site list is REGENERATED from the source on every run (Gen.v `audit_sites`:
        every use of a set-valued expression — tracked by provenance through assignments, results and arguments —,
        every dict iteration and every process-dependent call in recompiler.py, cffi_opcode.py, model.py,
        cparser.py):
          C23_audit_sites_ok                    every site falls in a class covered by one of the theorems below;
                                                an unsorted iteration over a set, sorted() of a set with a key, a
                                                set escaping to unknown code, id()/time()/... break THIS obligation
          C23_fold_order_independent            membership / len / any / all / add / update / set algebra: a
                                                commutative step does not see the order
          C23_sorted_emission_order             sorted(set): the same list for every delivery order
          C23_singleton_order_independent       a set that never holds more than one element
          C23_dict_order_is_insertion_order     dicts: order of first insertion (language guarantee, 3.7+)
          C23_emit_independent_of_set_order     composite: an emitter that looks at its sets only through such
                                                consumers ends in the same state (text) whatever order the hash
                                                seed / addresses make each set deliver its elements in.
        NOT proved: that recompiler.py IS such an emitter (the audit is syntactic, name-based, and trusts that
        sets only arise from set constructors in these four files; dict insertion order is deterministic because
        the program is, by induction on the run — argued, not mechanised).  The check therefore also samples:
        emitted bytes across 4 PYTHONHASHSEED values, repeated calls and fresh FFI objects, on cdefs that reach
        every audited site that emission can reach (sites hit are listed in the evidence).
     whole function, file-like targets        C23_filelike_same_text (make_source)
   The skeleton of write_trace is hand-written; it is tied to the code by comparing the real I/O-call trace
   with it on every run, and its decisive parts are re-extracted from the source (Gen.v).

   Reading recorded (DESIGN Appendix B): crash points are the I/O steps of the path taken on POSIX
   (the first rename succeeds); a failing first rename is a fault outside the quantifier
   (C23_fallback_not_atomic shows what happens then). *)
From Coq Require Import List NArith ZArith Bool.
Import ListNotations.
From Coq Require Import Permutation Sorted.
From Cffi Require Import C25.Model C25.Proofs C35.PyStr C35.Model C23.Model C23.AuditModel C23.Gen C23.Proofs C23.Order C23.AuditProofs.
Open Scope N_scope.

(* regenerating into a file whose content is already identical: no mutating operation at all
   (so mtime and inode are preserved), and "not updated" is reported — for content without '\r' *)
Theorem C23_uptodate : forall rename_ok c, no_cr c ->
  snd (write_trace the_holes rename_ok (Some c) c) = false /\
  filter mutating (fst (write_trace the_holes rename_ok (Some c) c)) = [].
Proof. exact uptodate. Qed.
Print Assumptions C23_uptodate.

(* the full statement (any content) is false: a '\r' makes every run rewrite the file *)
Theorem C23_uptodate_refuted : forall rename_ok c, In 13 c ->
  snd (write_trace the_holes rename_ok (Some c) c) = true /\
  filter mutating (fst (write_trace the_holes rename_ok (Some c) c)) <> [].
Proof. exact uptodate_refuted. Qed.
Print Assumptions C23_uptodate_refuted.

(* "not updated" is reported only if the target's text already is the generated text *)
Theorem C23_not_updated_means_same : forall rename_ok old new,
  snd (write_trace the_holes rename_ok old new) = false -> exists c, old = Some c /\ universal_nl c = new.
Proof. exact not_updated_means_same. Qed.
Print Assumptions C23_not_updated_means_same.

(* every crash point: after any prefix of the operations the target holds the complete old content
   (or is absent as before) or the complete new content *)
Theorem C23_atomic : forall old new k,
  let s := run (firstn k (fst (write_trace the_holes true old new))) (fs0 old) in
  f_target s = old \/ f_target s = Some new.
Proof. exact atomic. Qed.
Print Assumptions C23_atomic.

(* completion: updated => target = new text, temporary gone; not updated => file system unchanged *)
Theorem C23_final_state : forall old new,
  let s := run (fst (write_trace the_holes true old new)) (fs0 old) in
  (snd (write_trace the_holes true old new) = true -> f_target s = Some new /\ f_tmp s = None) /\
  (snd (write_trace the_holes true old new) = false -> s = fs0 old).
Proof. exact final_state. Qed.
Print Assumptions C23_final_state.

(* the WHOLE function (Model.make_source; its control skeleton — verbose message, Recompiler construction,
   collect_type_table then collect_step_tables, the _is_file_like branch, NativeIO buffer, try block — is pinned
   against the source on every run and the receivers/arguments/results are regenerated holes).  `gen a` is the text
   recompiler.write_source_to_f(_, a) writes.  A file-like target (what cffi-gen-src and emit_c_code(StringIO)
   use) gets exactly the text that a path target is compared with and, when updated, ends up holding; no file
   operation happens and True is returned *)
Theorem C23_filelike_same_text : forall gen rename_ok old,
  make_source the_holes gen true rename_ok old = Some ([], Some (gen GPreamble), true) /\
  make_source the_holes gen false rename_ok old =
    Some (fst (write_trace the_holes rename_ok old (gen GPreamble)), None,
          snd (write_trace the_holes rename_ok old (gen GPreamble))) /\
  (snd (write_trace the_holes true old (gen GPreamble)) = true ->
   f_target (run (fst (write_trace the_holes true old (gen GPreamble))) (fs0 old)) = Some (gen GPreamble)).
Proof. exact filelike_same_text. Qed.
Print Assumptions C23_filelike_same_text.

(* outside the quantifier: if the first rename fails the unlink/rename fallback loses atomicity *)
Theorem C23_fallback_not_atomic : exists old new k,
  let s := run (firstn k (fst (write_trace the_holes false old new))) (fs0 old) in
  f_target s <> old /\ f_target s <> Some new.
Proof. exact fallback_not_atomic. Qed.
Print Assumptions C23_fallback_not_atomic.

(* determinism, the proved part: sorted(items, key=key) with pairwise distinct keys is the same list for
   every order in which the items are delivered — the items in strictly increasing key order *)
Theorem C23_sorted_emission_order : forall (A : Type) (key : A -> cstr) (l l' : list A),
  NoDup (map key l) -> Permutation l l' ->
  sort_by A key l = sort_by A key l' /\
  Permutation (sort_by A key l) l /\ StronglySorted (klt A key) (sort_by A key l).
Proof.
  intros A key l l' N P. split; [apply sort_by_perm_invariant; auto | apply sort_by_spec; auto].
Qed.
Print Assumptions C23_sorted_emission_order.

(* the regenerated audit: every site is covered by one of the theorems below *)
Theorem C23_audit_sites_ok : forallb site_ok audit_sites = true.
Proof. vm_compute. reflexivity. Qed.
Print Assumptions C23_audit_sites_ok.

(* regenerated fact (tools/props/c23_audit.py class_state): no class of recompiler.py / cffi_opcode.py / model.py /
   cparser.py / api.py binds a mutable container in its class body (constant ALL_CAPS tables that nothing mutates
   excepted) — the mutable state of Parser, FFI, Recompiler and the model types is created per instance, so one
   FFI's cdef()/include() cannot change what another FFI object generates.  A class-level `x = set()` / `{}` / `[]`
   breaks THIS obligation (and the several-FFIs-in-one-process stream of the check shows the differing text). *)
Theorem C23_state_is_per_instance : class_level_mutable_state = [].
Proof. reflexivity. Qed.
Print Assumptions C23_state_is_per_instance.

Theorem C23_fold_order_independent : forall (S A : Type) (f : S -> A -> S),
  (forall st x y, f (f st x) y = f (f st y) x) ->
  forall l l', Permutation l l' -> forall st, fold_left f l st = fold_left f l' st.
Proof. intros S A f. exact (fold_order_independent f). Qed.
Print Assumptions C23_fold_order_independent.

Theorem C23_singleton_order_independent : forall (A : Type) (l l' : list A),
  Permutation l l' -> (length l <= 1)%nat -> l = l'.
Proof. intros A. exact (@singleton_order_independent A). Qed.
Print Assumptions C23_singleton_order_independent.

Theorem C23_dict_order_is_insertion_order : forall ins, NoDup (dict_order ins) /\
  (forall k, In k (dict_order ins) -> In k ins).
Proof.
  intros ins. split; [apply dict_order_nodup|]. intros k H. apply dict_order_acc_in in H. tauto.
Qed.
Print Assumptions C23_dict_order_is_insertion_order.

(* composite: for any state type, any program of audited looks at sets and any two ways the sets may deliver their
   elements (fair oracles: permutations), the run ends in the same state *)
Theorem C23_emit_independent_of_set_order : forall (St : Type) (prog : list (step St)) (o o' : oracle) st,
  Forall (step_ok St) prog -> fair o -> fair o' -> run_emitter St o 0 prog st = run_emitter St o' 0 prog st.
Proof. intros St prog o o' st. apply run_oracle_independent. Qed.
Print Assumptions C23_emit_independent_of_set_order.

Example C23_example_filelike :
  make_source the_holes (fun a => match a with GPreamble => [97;10] | GNone => [98] end) true true (Some [120]) =
  Some ([], Some [97;10], true).
Proof. vm_compute. reflexivity. Qed.

(* non-vacuity: old "ab\n", new "ac\n": the seven operations and the states they go through *)
Example C23_example :
  write_trace the_holes true (Some [97;98;10]) [97;99;10] =
  ([OOpenRead Target; ORead Target 4; OClose Target; OOpenWrite Tmp; OWrite Tmp [97;99;10]; OClose Tmp;
    ORename Tmp Target], true) /\
  map (fun k => f_target (run (firstn k (fst (write_trace the_holes true (Some [97;98;10]) [97;99;10])))
                              (fs0 (Some [97;98;10])))) (seq 0 8) =
  [Some [97;98;10]; Some [97;98;10]; Some [97;98;10]; Some [97;98;10]; Some [97;98;10]; Some [97;98;10];
   Some [97;98;10]; Some [97;99;10]].
Proof. vm_compute. split; reflexivity. Qed.

Example C23_example_uptodate :
  write_trace the_holes true (Some [97;10]) [97;10] = ([OOpenRead Target; ORead Target 3; OClose Target], false).
Proof. vm_compute. reflexivity. Qed.

(* a two-look emitter (sorted local variables, then the singleton free line) under two delivery orders *)
Example C23_example_emitter :
  let prog := [mk_step (list cstr) (fun _ => [[98]; [97]; [99]]) (CSorted _ (fun st l => st ++ l));
               mk_step (list cstr) (fun _ => [[102]]) (CSingleton _ (fun st l => st ++ l))] in
  run_emitter (list cstr) (fun _ l => l) 0 prog [] = [[97]; [98]; [99]; [102]] /\
  run_emitter (list cstr) (fun _ l => rev l) 0 prog [] = [[97]; [98]; [99]; [102]].
Proof. vm_compute. split; reflexivity. Qed.

(* three declarations delivered in two different orders are emitted in the same order *)
Example C23_example_order :
  sort_by (list N * nat) fst [([98], 1%nat); ([97;98], 2%nat); ([97], 3%nat)] =
  sort_by (list N * nat) fst [([97], 3%nat); ([98], 1%nat); ([97;98], 2%nat)].
Proof. vm_compute. reflexivity. Qed.
