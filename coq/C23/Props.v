(* C23 — generated source is deterministic, idempotent and replaced atomically.  Statements only.
   `the_holes` is regenerated from recompiler._make_c_or_py_source on every run (C23/Gen.v);
   write_trace, run, mutating, universal_nl: C23/Model.v;  sort_by: C23/Order.v.

   What is PROVED here, clause by clause of the property statement:
     "Regenerating into a file whose content is already identical leaves it untouched (mtime preserved) and
      reports it as not updated"        C23_uptodate (content without '\r'), C23_not_updated_means_same;
                                        false for content with '\r': C23_uptodate_refuted (known finding)
     "otherwise, at any crash point during regeneration, the target path holds either the complete old
      content or the complete new content"   C23_atomic (every prefix of the operation trace), C23_final_state
     "The text written ... is a function of the cdef declarations, module name and C source only: identical
      across processes, hash seeds and repeated calls"
                                        NOT proved as such.  Proved: C23_sorted_emission_order — a list obtained
                                        by sorted(items, key) with keys distinct does not depend on the order in
                                        which a set/dict delivered the items (the only way the hash seed can
                                        reach the emitter).  Decided by the check only: that recompiler.py
                                        iterates its hash-ordered containers exclusively through sorted(...)
                                        (source audit, every run) and that the emitted bytes coincide across 4
                                        PYTHONHASHSEED values, repeated calls and fresh FFI objects (sampling).
   The skeleton of write_trace is hand-written; it is tied to the code by comparing the real I/O-call trace
   with it on every run, and its decisive parts are re-extracted from the source (Gen.v).

   Reading recorded (DESIGN Appendix B): crash points are the I/O steps of the path taken on POSIX
   (the first rename succeeds); a failing first rename is a fault outside the quantifier
   (C23_fallback_not_atomic shows what happens then). *)
From Coq Require Import List NArith ZArith Bool.
Import ListNotations.
From Coq Require Import Permutation Sorted.
From Cffi Require Import C25.Model C25.Proofs C35.PyStr C35.Model C23.Model C23.Gen C23.Proofs C23.Order.
Open Scope N_scope.

(* regenerating into a file whose content is already identical: no mutating operation at all
   (so mtime and inode are preserved), and "not updated" is reported — for content without '\r' *)
Theorem C23_uptodate : forall rename_ok c, no_cr c ->
  snd (write_trace the_holes rename_ok (Some c) c) = false /\
  filter mutating (fst (write_trace the_holes rename_ok (Some c) c)) = [].
Proof. exact uptodate. Qed.
Print Assumptions C23_uptodate.

(* the full statement (any content) is false: a '\r' makes every run rewrite the file *)
Theorem C23_uptodate_refuted : forall rename_ok c, In 13 c ->
  snd (write_trace the_holes rename_ok (Some c) c) = true /\
  filter mutating (fst (write_trace the_holes rename_ok (Some c) c)) <> [].
Proof. exact uptodate_refuted. Qed.
Print Assumptions C23_uptodate_refuted.

(* "not updated" is reported only if the target's text already is the generated text *)
Theorem C23_not_updated_means_same : forall rename_ok old new,
  snd (write_trace the_holes rename_ok old new) = false -> exists c, old = Some c /\ universal_nl c = new.
Proof. exact not_updated_means_same. Qed.
Print Assumptions C23_not_updated_means_same.

(* every crash point: after any prefix of the operations the target holds the complete old content
   (or is absent as before) or the complete new content *)
Theorem C23_atomic : forall old new k,
  let s := run (firstn k (fst (write_trace the_holes true old new))) (fs0 old) in
  f_target s = old \/ f_target s = Some new.
Proof. exact atomic. Qed.
Print Assumptions C23_atomic.

(* completion: updated => target = new text, temporary gone; not updated => file system unchanged *)
Theorem C23_final_state : forall old new,
  let s := run (fst (write_trace the_holes true old new)) (fs0 old) in
  (snd (write_trace the_holes true old new) = true -> f_target s = Some new /\ f_tmp s = None) /\
  (snd (write_trace the_holes true old new) = false -> s = fs0 old).
Proof. exact final_state. Qed.
Print Assumptions C23_final_state.

(* outside the quantifier: if the first rename fails the unlink/rename fallback loses atomicity *)
Theorem C23_fallback_not_atomic : exists old new k,
  let s := run (firstn k (fst (write_trace the_holes false old new))) (fs0 old) in
  f_target s <> old /\ f_target s <> Some new.
Proof. exact fallback_not_atomic. Qed.
Print Assumptions C23_fallback_not_atomic.

(* determinism, the proved part: sorted(items, key=key) with pairwise distinct keys is the same list for
   every order in which the items are delivered — the items in strictly increasing key order *)
Theorem C23_sorted_emission_order : forall (A : Type) (key : A -> cstr) (l l' : list A),
  NoDup (map key l) -> Permutation l l' ->
  sort_by A key l = sort_by A key l' /\
  Permutation (sort_by A key l) l /\ StronglySorted (klt A key) (sort_by A key l).
Proof.
  intros A key l l' N P. split; [apply sort_by_perm_invariant; auto | apply sort_by_spec; auto].
Qed.
Print Assumptions C23_sorted_emission_order.

(* non-vacuity: old "ab\n", new "ac\n": the seven operations and the states they go through *)
Example C23_example :
  write_trace the_holes true (Some [97;98;10]) [97;99;10] =
  ([OOpenRead Target; ORead Target 4; OClose Target; OOpenWrite Tmp; OWrite Tmp [97;99;10]; OClose Tmp;
    ORename Tmp Target], true) /\
  map (fun k => f_target (run (firstn k (fst (write_trace the_holes true (Some [97;98;10]) [97;99;10])))
                              (fs0 (Some [97;98;10])))) (seq 0 8) =
  [Some [97;98;10]; Some [97;98;10]; Some [97;98;10]; Some [97;98;10]; Some [97;98;10]; Some [97;98;10];
   Some [97;98;10]; Some [97;99;10]].
Proof. vm_compute. split; reflexivity. Qed.

Example C23_example_uptodate :
  write_trace the_holes true (Some [97;10]) [97;10] = ([OOpenRead Target; ORead Target 3; OClose Target], false).
Proof. vm_compute. reflexivity. Qed.

(* three declarations delivered in two different orders are emitted in the same order *)
Example C23_example_order :
  sort_by (list N * nat) fst [([98], 1%nat); ([97;98], 2%nat); ([97], 3%nat)] =
  sort_by (list N * nat) fst [([97], 3%nat); ([98], 1%nat); ([97;98], 2%nat)].
Proof. vm_compute. reflexivity. Qed.
