(* C23 — vocabulary of the regenerated iteration audit (coq/C23/Gen.v: `audit_sites`, produced by
   tools/props/c23_audit.py from recompiler.py, cffi_opcode.py, model.py, cparser.py on every run) and the abstract
   emitter over which the composite determinism theorem is stated.  Definitions only.

   In CPython >= 3.7 the iteration order of a dict is its insertion order; the containers whose iteration order
   can depend on the hash seed or on object addresses are sets.  A site is one syntactic use of a set-valued
   expression (tracked by provenance through assignments, results and arguments), one iteration over a dict, or
   one call whose result differs between processes. *)
From Coq Require Import List NArith Bool Permutation.
Import ListNotations.
From Cffi Require Import C25.Model C23.Order.

Inductive srcfile := Recompiler | Opcode | ModelPy | CParser | ApiPy.
Inductive container := CSet | CDict | COther.

Inductive use :=
| UAssigned | UReturned | UPassed        (* flows on: the receiving name / callers / parameter are audited in turn *)
| UMembership | UCommutative | UMutated | USetBuild
                                         (* in / not in, len, bool, any/all/min/max, ==, add/discard/update, set algebra *)
| USortedIdentity                        (* sorted(s): the elements of a set are pairwise distinct *)
| USortedKey                             (* sorted(s, key=...): injectivity of the key is not known *)
| USortedStable                          (* sorted(d...) over a dict: deterministic input, stable sort *)
| UIteratedSingleton                     (* iterated, but at most one distinct constant is ever added *)
| UIterated                              (* iterated in hash order *)
| UDictIter                              (* iteration over a dict: insertion order *)
| UNondetAllowed | UNondetCall           (* getpid/hash/...: listed as not reaching the text / not listed *)
| UEscapes.                              (* a use the audit does not know *)

Record site := mk_site { s_file : srcfile; s_line : N; s_container : container; s_use : use }.

(* which theorem covers a site *)
Inductive justification :=
| JTracked          (* no observation here: the value is audited where it arrives *)
| JCommutativeFold  (* C23_fold_order_independent *)
| JSorted           (* C23_sorted_emission_order *)
| JSingleton        (* C23_singleton_order_independent *)
| JInsertionOrder   (* dict: order = order of first insertion, a function of the (deterministic) insertions *)
| JNotInText        (* recorded exception: the value does not reach the emitted text *)
| JNone.            (* nothing covers it *)

Definition justify (c : container) (u : use) : justification :=
  match c, u with
  | _, UNondetCall | _, UEscapes => JNone
  | _, UNondetAllowed => JNotInText
  | CSet, (UAssigned | UReturned | UPassed) => JTracked
  | CSet, (UMembership | UCommutative | UMutated | USetBuild) => JCommutativeFold
  | CSet, USortedIdentity => JSorted
  | CSet, UIteratedSingleton => JSingleton
  | CSet, (USortedKey | UIterated | USortedStable | UDictIter) => JNone
  | (CDict | COther), (USortedStable | UDictIter | USortedIdentity | USortedKey) => JInsertionOrder
  | (CDict | COther), _ => JTracked
  end.

Definition site_ok (s : site) : bool :=
  match justify (s_container s) (s_use s) with JNone => false | _ => true end.

(* ------------------------------------------------------------------ the abstract emitter
   State St carries the declarations and the text produced so far.  The program is a list of steps; each step
   looks at one set (its elements, `contents`, in some canonical enumeration) in the order an oracle delivers
   them, through a consumer of one of the audited classes; everything deterministic between two such looks is
   part of the consumer's continuation. *)
Section Emitter.
Variable St : Type.

Inductive consumer :=
| CFold (f : St -> cstr -> St)                  (* for x in s: st = f st x, with f commutative: add, any, len ... *)
| CSorted (k : St -> list cstr -> St)           (* k st (sorted(s)) *)
| CSingleton (k : St -> list cstr -> St).       (* k st (list(s)) with len(s) <= 1 *)

Record step := mk_step { contents : St -> list cstr; consumer_of : consumer }.

Definition consume (c : consumer) (st : St) (delivered : list cstr) : St :=
  match c with
  | CFold f => fold_left f delivered st
  | CSorted k => k st (sort_by cstr (fun x => x) delivered)
  | CSingleton k => k st delivered
  end.

Definition step_ok (s : step) : Prop :=
  match consumer_of s with
  | CFold f => forall st x y, f (f st x) y = f (f st y) x
  | CSorted _ => forall st, NoDup (contents s st)
  | CSingleton _ => forall st, (length (contents s st) <= 1)%nat
  end.

(* the hash seed / the addresses: at the i-th look, a set holding l is delivered in the order o i l *)
Definition oracle := nat -> list cstr -> list cstr.
Definition fair (o : oracle) := forall i l, Permutation (o i l) l.

Fixpoint run_emitter (o : oracle) (i : nat) (prog : list step) (st : St) : St :=
  match prog with
  | [] => st
  | s :: p => run_emitter o (S i) p (consume (consumer_of s) st (o i (contents s st)))
  end.
End Emitter.
