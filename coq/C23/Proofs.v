(* C23 — proofs about the write path with the holes regenerated from the source (C23/Gen.v) *)
From Coq Require Import List NArith ZArith Bool Lia.
Import ListNotations.
From Cffi Require Import C35.PyStr C35.Model C35.Lemmas C23.Model C23.Gen.
Open Scope N_scope.

Lemma universal_nl_id c : no_cr c -> universal_nl c = c.
Proof.
  induction 1 as [|x l Hx Hl IH]; cbn; auto.
  destruct (x =? 13) eqn:E; [apply N.eqb_eq in E; congruence|]. rewrite IH. auto.
Qed.

Lemma universal_nl_no_cr : forall n s, (length s <= n)%nat -> no_cr (universal_nl s).
Proof.
  induction n as [|n IH]; intros s L.
  - destruct s; [constructor|cbn in L; lia].
  - destruct s as [|c r]; [constructor|]. cbn in L. cbn [universal_nl].
    destruct (c =? 13) eqn:E.
    + destruct r as [|d r'].
      * repeat constructor. discriminate.
      * destruct (d =? 10); constructor; try discriminate; apply IH; cbn in *; lia.
    + apply N.eqb_neq in E. constructor; auto. apply IH. lia.
Qed.

Lemma firstn_len_plus1 {A} (l : list A) : firstn (Z.to_nat (py_len l + 1)) l = l.
Proof. apply firstn_all2. unfold py_len. lia. Qed.

Lemma firstn_eq_len {A} (l m : list A) : firstn (S (length m)) l = m -> l = m.
Proof.
  revert l. induction m as [|a m IH]; intros l H.
  - destruct l; [auto|cbn in H; discriminate].
  - destruct l as [|b l]; [cbn in H; discriminate|].
    change (firstn (S (length (a :: m))) (b :: l)) with (b :: firstn (S (length m)) l) in H.
    injection H as -> H. f_equal. apply IH. auto.
Qed.

Definition trace_of (rename_ok : bool) old new := fst (write_trace the_holes rename_ok old new).
Definition result_of (rename_ok : bool) old new := snd (write_trace the_holes rename_ok old new).

(* regenerating identical content: nothing is modified, "not updated" is reported *)
Theorem uptodate : forall rename_ok c, no_cr c ->
  result_of rename_ok (Some c) c = false /\ filter mutating (trace_of rename_ok (Some c) c) = [].
Proof.
  intros rename_ok c H. unfold result_of, trace_of, write_trace, the_holes. cbn.
  unfold py_read_text.
  assert ((py_len c + 1 <? 0)%Z = false) as -> by (unfold py_len; lia).
  rewrite (universal_nl_id _ H), firstn_len_plus1, str_eqb_refl. cbn. auto.
Qed.

(* "not updated" is only ever reported when the file's text is the generated text *)
Theorem not_updated_means_same : forall rename_ok old new, result_of rename_ok old new = false ->
  exists c, old = Some c /\ universal_nl c = new.
Proof.
  intros rename_ok old new. unfold result_of, write_trace, the_holes. cbn.
  destruct old as [c|]; cbn; [|discriminate].
  destruct (negb (str_eqb (py_read_text c (py_len new + 1)) new)) eqn:E; cbn; [discriminate|].
  intros _. exists c. split; auto.
  apply negb_false_iff, str_eqb_eq in E. unfold py_read_text in E.
  assert ((py_len new + 1 <? 0)%Z = false) as X by (unfold py_len; lia). rewrite X in E.
  apply firstn_eq_len. replace (S (length new)) with (Z.to_nat (py_len new + 1)) by (unfold py_len; lia). auto.
Qed.

(* at every crash point of the POSIX path the target holds the old or the new content *)
Theorem atomic : forall old new k,
  let s := run (firstn k (trace_of true old new)) (fs0 old) in
  f_target s = old \/ f_target s = Some new.
Proof.
  intros old new k. unfold trace_of, write_trace, the_holes. cbn.
  destruct old as [c|]; cbn.
  - destruct (negb (str_eqb (py_read_text c (py_len new + 1)) new)); cbn;
      do 8 (destruct k as [|k]; [cbn; auto|]); cbn; auto; destruct k; cbn; auto.
  - do 6 (destruct k as [|k]; [cbn; auto|]); cbn; auto; destruct k; cbn; auto.
Qed.

(* when the run completes: updated => the target is the new text and no temporary file is left;
   not updated => nothing changed *)
Theorem final_state : forall old new,
  let s := run (trace_of true old new) (fs0 old) in
  (result_of true old new = true -> f_target s = Some new /\ f_tmp s = None) /\
  (result_of true old new = false -> s = fs0 old).
Proof.
  intros old new. unfold trace_of, result_of, write_trace, the_holes. cbn.
  destruct old as [c|]; cbn.
  - destruct (negb (str_eqb (py_read_text c (py_len new + 1)) new)); cbn; split; auto; discriminate.
  - split; auto. discriminate.
Qed.

(* a '\r' anywhere in the content defeats the up-to-date test: the file is rewritten every time *)
Theorem uptodate_refuted : forall rename_ok c, In 13 c ->
  result_of rename_ok (Some c) c = true /\ filter mutating (trace_of rename_ok (Some c) c) <> [].
Proof.
  intros rename_ok c H. unfold result_of, trace_of, write_trace, the_holes. cbn.
  assert (str_eqb (py_read_text c (py_len c + 1)) c = false) as ->.
  { destruct (str_eqb (py_read_text c (py_len c + 1)) c) eqn:E; auto. exfalso.
    apply str_eqb_eq in E. unfold py_read_text in E.
    assert ((py_len c + 1 <? 0)%Z = false) as X by (unfold py_len; lia). rewrite X in E.
    replace (Z.to_nat (py_len c + 1)) with (S (length c)) in E by (unfold py_len; lia).
    apply firstn_eq_len in E.
    pose proof (universal_nl_no_cr (length c) c (le_n _)) as N. rewrite E in N.
    unfold no_cr in N. rewrite Forall_forall in N. apply (N 13 H). reflexivity. }
  cbn. split; auto. destruct rename_ok; cbn; discriminate.
Qed.

(* the fallback (first rename fails: not POSIX) is not atomic: after the unlink the target is gone *)
Theorem fallback_not_atomic : exists old new k,
  let s := run (firstn k (trace_of false old new)) (fs0 old) in
  f_target s <> old /\ f_target s <> Some new.
Proof.
  exists (Some [97]), [98], 8%nat. vm_compute. split; discriminate.
Qed.

(* the whole function (recompiler.py:1433-1462): a file-like target receives, without any file operation, exactly
   the text that the path branch compares/writes, and "updated" is reported; for a path target the function is
   write_trace on that same text, so that after an update the target file holds what the file-like target got *)
Theorem filelike_same_text : forall gen rename_ok old,
  make_source the_holes gen true rename_ok old = Some ([], Some (gen GPreamble), true) /\
  make_source the_holes gen false rename_ok old =
    Some (trace_of rename_ok old (gen GPreamble), None, result_of rename_ok old (gen GPreamble)) /\
  (result_of true old (gen GPreamble) = true ->
   f_target (run (trace_of true old (gen GPreamble)) (fs0 old)) = Some (gen GPreamble)).
Proof.
  intros gen rename_ok old. split; [reflexivity|]. split; [reflexivity|].
  intros H. exact (proj1 (proj1 (final_state old (gen GPreamble)) H)).
Qed.
