(* C23 — determinism, the part that is proved: sorting by a key that is injective on the items gives a list that
   does not depend on the order in which the items were delivered (set / dict iteration order, hence hash seed).
   `sort_by key` is Python's sorted(items, key=key) for str keys (insertion sort by code-point order is the
   specification of a stable sort by a total order; the order on keys is C25's `lex`).

   The emitter (recompiler.py) iterates its hash-ordered containers only through sorted(...): that is audited
   on the source by tools/props/c23.py (iteration audit) on every run; that the emitted text is then the same
   in every process is established by sampling. *)
From Coq Require Import List NArith Bool Permutation Sorted.
Import ListNotations.
From Cffi Require Import C25.Model C25.Proofs.

Section SortBy.
Variable A : Type.
Variable key : A -> cstr.

Fixpoint insert_by (x : A) (l : list A) : list A :=
  match l with
  | [] => [x]
  | y :: l' => if leb_lex (key x) (key y) then x :: l else y :: insert_by x l'
  end.

Definition sort_by (l : list A) : list A := fold_right insert_by [] l.

Definition klt (a b : A) := lt_lex (key a) (key b).

Lemma insert_by_perm x l : Permutation (insert_by x l) (x :: l).
Proof.
  induction l as [|y l IH]; cbn; auto.
  destruct (leb_lex (key x) (key y)); auto.
  eapply perm_trans; [apply perm_skip, IH|]. apply perm_swap.
Qed.

Lemma sort_by_perm l : Permutation (sort_by l) l.
Proof.
  induction l as [|x l IH]; cbn; auto.
  eapply perm_trans; [apply insert_by_perm|]. apply perm_skip, IH.
Qed.

Lemma insert_by_sorted x l :
  StronglySorted klt l -> ~ In (key x) (map key l) -> StronglySorted klt (insert_by x l).
Proof.
  induction l as [|y l IH]; intros Hs Hn; cbn.
  - constructor; constructor.
  - inversion Hs as [|? ? Hs' Hall]; subst.
    unfold leb_lex. destruct (lex (key x) (key y)) eqn:E.
    + apply lex_eq in E. exfalso. apply Hn. left. auto.
    + constructor; auto. constructor; auto.
      rewrite Forall_forall in *. intros z Hz. unfold klt, lt_lex in *.
      eapply lex_trans; [exact E|]. apply Hall, Hz.
    + constructor.
      * apply IH; auto. intros Hin. apply Hn. right; exact Hin.
      * rewrite Forall_forall in *. intros z Hz.
        assert (Hz' : In z (x :: l)) by (eapply Permutation_in; [apply insert_by_perm|exact Hz]).
        destruct Hz' as [<-|Hz'].
        -- unfold klt, lt_lex. rewrite lex_antisym, E. reflexivity.
        -- apply Hall, Hz'.
Qed.

Lemma sort_by_sorted l : NoDup (map key l) -> StronglySorted klt (sort_by l).
Proof.
  induction l as [|x l IH]; intros Hnd; cbn.
  - constructor.
  - inversion Hnd; subst. apply insert_by_sorted; auto.
    intros Hin. apply H1. eapply Permutation_in; [|exact Hin].
    apply Permutation_map, sort_by_perm.
Qed.

Lemma keyed_sorted_unique : forall l l', StronglySorted klt l -> StronglySorted klt l' ->
  Permutation l l' -> l = l'.
Proof.
  induction l as [|a l IH]; intros l' S S' P.
  - apply Permutation_nil in P. auto.
  - destruct l' as [|a' l']; [apply Permutation_sym, Permutation_nil in P; discriminate|].
    inversion S as [|? ? Sl Fa]; inversion S' as [|? ? Sl' Fa']; subst.
    assert (In a (a' :: l')) as I1 by (eapply Permutation_in; eauto; left; auto).
    assert (In a' (a :: l)) as I2 by (eapply Permutation_in; [apply Permutation_sym; eauto|left; auto]).
    assert (a = a') as ->.
    { destruct I1 as [|I1]; [congruence|]. destruct I2 as [|I2]; [congruence|]. exfalso.
      rewrite Forall_forall in Fa, Fa'. apply Fa in I2. apply Fa' in I1. unfold klt, lt_lex in *.
      rewrite lex_antisym, I1 in I2. discriminate. }
    f_equal. apply IH; auto. eapply Permutation_cons_inv; eauto.
Qed.

(* whatever order the items arrive in, sorted(items, key=key) is the same list *)
Theorem sort_by_perm_invariant : forall l l', NoDup (map key l) -> Permutation l l' ->
  sort_by l = sort_by l'.
Proof.
  intros l l' N P. apply keyed_sorted_unique.
  - apply sort_by_sorted; auto.
  - apply sort_by_sorted. eapply Permutation_NoDup; [apply Permutation_map; eauto|auto].
  - eapply perm_trans; [apply sort_by_perm|]. eapply perm_trans; [exact P|].
    apply Permutation_sym, sort_by_perm.
Qed.

(* ... and it is the items in strictly increasing key order *)
Theorem sort_by_spec : forall l, NoDup (map key l) ->
  Permutation (sort_by l) l /\ StronglySorted klt (sort_by l).
Proof. intros l N. split; [apply sort_by_perm | apply sort_by_sorted; auto]. Qed.
End SortBy.
