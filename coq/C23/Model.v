(* C23 — model of recompiler._make_c_or_py_source (src/cffi/recompiler.py:1433-1462): the whole function
   (`make_source`: the file-like branch :1440-1442 and the path branch) and, for a path target, the trace of
   filesystem operations of :1446-1462 over a two-file model file system (`write_trace`).  Definitions only.

       if verbose and not _is_file_like(target_file): print("generating ...")      (no file operation; pinned)
       recompiler = Recompiler(ffi, module_name, target_is_python=(preamble is None))
       recompiler.collect_type_table(); recompiler.collect_step_tables()           (pinned, in this order)
       if _is_file_like(target_file):
           recompiler.write_source_to_f(target_file, preamble)       h_fl_sink, h_fl_arg
           return True                                               h_fl_result
       f = NativeIO()
       recompiler.write_source_to_f(f, preamble)                     h_buf_sink, h_buf_arg
       output = f.getvalue()

       try:
           with open(target_file, 'r') as f1:                 OOpenRead / ORead / OClose
               if f1.read(len(output) + 1) != output:
                   raise OSError
           return False     # already up-to-date
       except OSError:
           tmp_file = '%s.~%d' % (target_file, os.getpid())
           with open(tmp_file, 'w') as f1:                    OOpenWrite
               f1.write(output)                               OWrite / OClose
           try:
               os.rename(tmp_file, target_file)               ORename
           except OSError:
               os.unlink(target_file)                         OUnlink      (only if the rename failed)
               os.rename(tmp_file, target_file)               ORename
           return True

   The parts that decide the property — which path is read, the comparison, which path is written,
   what is written, the rename arguments, the fallback, the two results — are holes filled from the
   current source by tools/props/c23.py into coq/C23/Gen.v (record `holes`); the skeleton below is
   checked against the AST's shape by the same driver.

   File contents are texts (code points): the files are opened in text mode; on POSIX writing does
   not translate newlines, reading translates "\r\n" and "\r" to "\n" (universal newlines).
   Assumed: the old content is decodable in the locale encoding; rename(2) replaces atomically. *)
From Coq Require Import List NArith ZArith Bool.
Import ListNotations.
From Cffi Require Import C35.PyStr C35.Model.
Open Scope N_scope.

Inductive path := Target | Tmp.

Inductive op :=
| OOpenRead (p : path)              (* open(p, 'r'): OSError when p does not exist *)
| ORead (p : path) (n : Z)          (* f.read(n) *)
| OClose (p : path)
| OOpenWrite (p : path)             (* open(p, 'w'): creates or truncates p *)
| OWrite (p : path) (data : str)
| ORename (src dst : path)          (* succeeds: dst atomically becomes src's file *)
| ORenameFails (src dst : path)     (* raises OSError, no effect *)
| OUnlink (p : path).

Record fs := { f_target : option str; f_tmp : option str }.

Definition get (p : path) (s : fs) : option str :=
  match p with Target => f_target s | Tmp => f_tmp s end.
Definition set (p : path) (c : option str) (s : fs) : fs :=
  match p with
  | Target => {| f_target := c; f_tmp := f_tmp s |}
  | Tmp => {| f_target := f_target s; f_tmp := c |}
  end.

Definition path_eqb (a b : path) : bool :=
  match a, b with Target, Target | Tmp, Tmp => true | _, _ => false end.

Definition step (s : fs) (o : op) : fs :=
  match o with
  | OOpenWrite p => set p (Some []) s
  | OWrite p d => set p (Some (match get p s with Some c => c ++ d | None => d end)) s
  | ORename a b => if path_eqb a b then s else set a None (set b (get a s) s)
  | OUnlink p => set p None s
  | OOpenRead _ | ORead _ _ | OClose _ | ORenameFails _ _ => s
  end.

Definition run (t : list op) (s : fs) : fs := fold_left step t s.

Definition mutating (o : op) : bool :=
  match o with
  | OOpenWrite _ | OWrite _ _ | ORename _ _ | OUnlink _ => true
  | OOpenRead _ | ORead _ _ | OClose _ | ORenameFails _ _ => false
  end.

(* text-mode read with universal newlines *)
Fixpoint universal_nl (s : str) : str :=
  match s with
  | [] => []
  | c :: r =>
      if c =? 13 then
        match r with
        | d :: r' => if d =? 10 then 10 :: universal_nl r' else 10 :: universal_nl r
        | [] => [10]
        end
      else c :: universal_nl r
  end.

Definition py_read_text (content : str) (n : Z) : str :=
  if (n <? 0)%Z then universal_nl content else firstn (Z.to_nat n) (universal_nl content).

(* who receives the text of recompiler.write_source_to_f(sink, arg): the caller's target object, or the local
   NativeIO buffer `f` whose value becomes `output`; arg: `preamble` or the constant None *)
Inductive sink := SinkTarget | SinkBuffer.
Inductive genarg := GPreamble | GNone.

(* the holes *)
Record holes := {
  h_read_path : path;                       (* open(<this>, 'r') *)
  h_read_extra : Z;                         (* f1.read(len(output) + <this>) *)
  h_differs : str -> str -> bool;           (* the test that raises OSError: got != output *)
  h_result_uptodate : bool;                 (* return False *)
  h_write_path : path;                      (* open(<this>, 'w') *)
  h_written : str -> str;                   (* f1.write(<this> output) *)
  h_rename : path * path;                   (* os.rename(src, dst) *)
  h_fallback_unlink : path;                 (* os.unlink(<this>) *)
  h_fallback_rename : path * path;
  h_result_written : bool;                  (* return True *)
  (* the statements before the try block (recompiler.py:1440-1445) *)
  h_fl_sink : sink;                         (* file-like branch: recompiler.write_source_to_f(<this>, _) *)
  h_fl_arg : genarg;                        (*                   recompiler.write_source_to_f(_, <this>) *)
  h_fl_result : bool;                       (*                   return True *)
  h_buf_sink : sink;                        (* path branch: f = NativeIO(); recompiler.write_source_to_f(<this>, _) *)
  h_buf_arg : genarg                        (*              recompiler.write_source_to_f(_, <this>); output = f.getvalue() *)
}.

Definition fs0 (old : option str) : fs := {| f_target := old; f_tmp := None |}.

(* the trace and the result for a target holding `old` and freshly generated text `new`;
   rename_ok = the first os.rename succeeds (POSIX) *)
Definition write_trace (h : holes) (rename_ok : bool) (old : option str) (new : str) : list op * bool :=
  let n := (py_len new + h_read_extra h)%Z in
  let '(t_read, raised) :=
    match get (h_read_path h) (fs0 old) with
    | None => ([OOpenRead (h_read_path h)], true)
    | Some c => ([OOpenRead (h_read_path h); ORead (h_read_path h) n; OClose (h_read_path h)],
                 h_differs h (py_read_text c n) new)
    end in
  if raised then
    (t_read ++ [OOpenWrite (h_write_path h); OWrite (h_write_path h) (h_written h new); OClose (h_write_path h)]
            ++ (if rename_ok then [ORename (fst (h_rename h)) (snd (h_rename h))]
                else [ORenameFails (fst (h_rename h)) (snd (h_rename h));
                      OUnlink (h_fallback_unlink h);
                      ORename (fst (h_fallback_rename h)) (snd (h_fallback_rename h))]),
     h_result_written h)
  else (t_read, h_result_uptodate h).

Definition no_cr (s : str) := Forall (fun c => c <> 13) s.

(* the whole function.  `gen a` = the concatenation of the chunks that recompiler.write_source_to_f(_, a) writes,
   for the Recompiler object after collect_type_table(); collect_step_tables() — the same object in both branches
   (the control skeleton, checked against the source on every run, has no statement in between that could
   change it).  Result: None = raises (a path handed to write_source_to_f: str has no .write; or a file-like
   target never written to while the buffer is), else (file operations, the text the file-like target
   received, return value). *)
Definition make_source (h : holes) (gen : genarg -> str) (filelike rename_ok : bool) (old : option str)
  : option (list op * option str * bool) :=
  if filelike then
    match h_fl_sink h with
    | SinkTarget => Some ([], Some (gen (h_fl_arg h)), h_fl_result h)
    | SinkBuffer => None                          (* `f` is not bound yet: UnboundLocalError *)
    end
  else
    match h_buf_sink h with
    | SinkBuffer => let tr := write_trace h rename_ok old (gen (h_buf_arg h)) in Some (fst tr, None, snd tr)
    | SinkTarget => None                          (* 'path'.write: AttributeError *)
    end.
