(* C23 — the theorems the iteration audit relies on, one per class of site, and their composition *)
From Coq Require Import List NArith Bool Permutation Lia.
Import ListNotations.
From Cffi Require Import C25.Model C23.Order C23.AuditModel.

(* a loop whose step commutes does not see the order of the elements *)
Theorem fold_order_independent {S A} (f : S -> A -> S) :
  (forall st x y, f (f st x) y = f (f st y) x) ->
  forall l l', Permutation l l' -> forall st, fold_left f l st = fold_left f l' st.
Proof.
  intros C l l' P. induction P; intros st; cbn; auto.
  - rewrite C. reflexivity.
  - rewrite IHP1. apply IHP2.
Qed.

Theorem singleton_order_independent {A} (l l' : list A) :
  Permutation l l' -> (length l <= 1)%nat -> l = l'.
Proof.
  intros P L. destruct l as [|a [|b l]]; cbn in L; try lia.
  - apply Permutation_nil in P. auto.
  - apply Permutation_length_1_inv in P. auto.
Qed.

(* a dict as the sequence of its keys in order of first insertion: the order is a function of the sequence of
   insertions alone (this is what "insertion-ordered" means; no hash enters) *)
Fixpoint dict_order_acc (seen : list cstr) (ins : list cstr) : list cstr :=
  match ins with
  | [] => []
  | k :: r => if existsb (fun x => match lex x k with Eq => true | _ => false end) seen
              then dict_order_acc seen r else k :: dict_order_acc (k :: seen) r
  end.
Definition dict_order (ins : list cstr) := dict_order_acc [] ins.

Lemma dict_order_acc_in seen ins k : In k (dict_order_acc seen ins) -> In k ins /\ ~ In k seen.
Proof.
  revert seen. induction ins as [|a r IH]; cbn; intros seen H; [tauto|].
  destruct (existsb _ seen) eqn:E.
  - apply IH in H. tauto.
  - destruct H as [<-|H].
    + split; auto. intros I. assert (existsb (fun x => match lex x a with Eq => true | _ => false end) seen = true); [|congruence].
      apply existsb_exists. exists a. split; auto. rewrite C25.Proofs.lex_refl. auto.
    + apply IH in H. cbn in H. tauto.
Qed.

Theorem dict_order_nodup ins : NoDup (dict_order ins).
Proof.
  unfold dict_order. generalize (@nil cstr). induction ins as [|a r IH]; intros seen; cbn; [constructor|].
  destruct (existsb _ seen); auto. constructor; auto.
  intros H. apply dict_order_acc_in in H. cbn in H. tauto.
Qed.

Section Emitter.
Variable St : Type.

Lemma consume_perm (s : step St) st d d' : step_ok St s ->
  Permutation d (contents St s st) -> Permutation d' (contents St s st) ->
  consume St (consumer_of St s) st d = consume St (consumer_of St s) st d'.
Proof.
  unfold step_ok. intros OK P P'.
  assert (Permutation d d') as PP by (eapply perm_trans; [exact P|apply Permutation_sym; exact P']).
  destruct (consumer_of St s) as [f|k|k]; cbn.
  - apply fold_order_independent; auto.
  - f_equal. apply sort_by_perm_invariant; auto. rewrite map_id.
    eapply Permutation_NoDup; [apply Permutation_sym; exact P|apply OK].
  - f_equal. apply singleton_order_independent; auto.
    rewrite (Permutation_length P). apply OK.
Qed.

(* composite: whatever order each set is delivered in, at each of its looks, the final state (the text) is the same *)
Theorem run_oracle_independent : forall (prog : list (step St)) (o o' : oracle) i st,
  Forall (step_ok St) prog -> fair o -> fair o' -> run_emitter St o i prog st = run_emitter St o' i prog st.
Proof.
  induction prog as [|s p IH]; intros o o' i st OK F F'; cbn; auto.
  inversion OK; subst.
  rewrite (consume_perm s st (o i (contents St s st)) (o' i (contents St s st))); auto.
Qed.
End Emitter.
