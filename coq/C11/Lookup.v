(* C11 x C25 — the out-of-line module EXPOSES the declared names: lookup by the (regenerated) binary search of
   parse_c_type.c in the decoded `_globals` / `_typenames` tables of an emitted module returns the emitted record.

     recompiler.collect_step_tables:  lst.sort(key=lambda entry: entry.name)         (sort_records)
     write_py_source_to_f:            b'<type_op><name>' per entry                     (encode_global, C11/Proofs.v)
     ffiobj_init:                     nglobs[i].type_op = cdl_opcode(g); .name = g+4   (decode_global, C11/Model.v)
     search_in_globals:               MAKE_SEARCH_FUNC(globals)                        (C25.Gen.gen_search_in, regenerated)

   Names are byte strings: C11 holds them as list Z, C25 as list N (nkey is the bridge). *)
From Coq Require Import ZArith NArith List Bool Lia Permutation.
Import ListNotations.
From Cffi Require Import C11.Model C11.Gen C11.Proofs.
From Cffi Require C25.Model C25.Gen C25.Proofs C25.GenProofs.
Open Scope Z_scope.

Definition nkey (name : list Z) : C25.Model.cstr := map Z.to_N name.
Definition bytes_pos (name : list Z) : Prop := Forall (fun c => 0 < c) name.

(* ---- a stable insertion sort of records on the byte order of a key: the specification of
        lst.sort(key=lambda entry: entry.name) ---- *)
Section Sort.
  Context {A : Type} (key : A -> C25.Model.cstr).
  Fixpoint insert_rec (x : A) (l : list A) : list A :=
    match l with
    | [] => [x]
    | y :: l' => if C25.Model.leb_lex (key x) (key y) then x :: l else y :: insert_rec x l'
    end.
  Definition sort_records (l : list A) : list A := fold_right insert_rec [] l.

  Lemma insert_rec_keys : forall x l, map key (insert_rec x l) = C25.Model.insert_sorted (key x) (map key l).
  Proof.
    induction l as [|y l IH]; cbn [insert_rec map C25.Model.insert_sorted]; [reflexivity|].
    destruct (C25.Model.leb_lex (key x) (key y)); cbn [map]; [reflexivity|]. rewrite IH. reflexivity.
  Qed.

  Lemma sort_records_keys : forall l, map key (sort_records l) = C25.Model.py_sorted (map key l).
  Proof.
    induction l as [|x l IH]; [reflexivity|].
    unfold sort_records, C25.Model.py_sorted in *. cbn [fold_right map]. rewrite insert_rec_keys, IH. reflexivity.
  Qed.

  Lemma insert_rec_perm : forall x l, Permutation (insert_rec x l) (x :: l).
  Proof.
    induction l as [|y l IH]; cbn [insert_rec]; auto.
    destruct (C25.Model.leb_lex (key x) (key y)); auto.
    eapply perm_trans; [apply perm_skip, IH|apply perm_swap].
  Qed.

  Lemma sort_records_perm : forall l, Permutation (sort_records l) l.
  Proof.
    induction l as [|x l IH]; cbn; auto.
    eapply perm_trans; [apply insert_rec_perm|]. apply perm_skip, IH.
  Qed.
End Sort.

Lemma nkey_inj : forall a b, Forall (fun c => 0 < c) a -> Forall (fun c => 0 < c) b -> nkey a = nkey b -> a = b.
Proof.
  induction a as [|x a IH]; destruct b as [|y b]; cbn; intros Ha Hb E; try discriminate; [reflexivity|].
  inversion Ha; inversion Hb; subst. inversion E. f_equal; [lia|]. apply IH; assumption.
Qed.

Lemma nkey_nulfree : forall a, bytes_pos a -> C25.Model.nulfree (nkey a).
Proof.
  intros a H. unfold C25.Model.nulfree, nkey. induction H as [|c a Hc Ha IH]; cbn [map]; constructor; [lia|exact IH].
Qed.

Lemma NoDup_map_inj_in : forall {A B} (f : A -> B) l x y,
  NoDup (map f l) -> In x l -> In y l -> f x = f y -> x = y.
Proof.
  induction l as [|a l IH]; cbn; intros x y Hnd Hx Hy E; [contradiction|].
  inversion Hnd as [|? ? Hnot Hnd']; subst.
  destruct Hx as [->|Hx], Hy as [->|Hy]; auto.
  - exfalso. apply Hnot. rewrite E. apply in_map, Hy.
  - exfalso. apply Hnot. rewrite <- E. apply in_map, Hx.
Qed.

Lemma NoDup_map_nkey : forall names, Forall bytes_pos names -> NoDup names -> NoDup (map nkey names).
Proof.
  induction names as [|n names IH]; cbn; intros Hp Hnd; [constructor|].
  inversion Hp as [|? ? Hn Hp']; inversion Hnd as [|? ? Hnot Hnd']; subst.
  constructor; [|apply IH; assumption].
  intros Hin. apply in_map_iff in Hin. destruct Hin as [m [E Hm]].
  assert (m = n).
  { apply nkey_inj; [|exact Hn|exact E]. rewrite Forall_forall in Hp'. apply Hp', Hm. }
  subst. contradiction.
Qed.

(* ---- the generic lookup theorem: records sorted on their name, names looked up by gen_search_in ---- *)
Section Lookup.
  Context {A : Type} (name_of : A -> list Z).
  Let key (r : A) := nkey (name_of r).

  Theorem sorted_table_lookup : forall (rs : list A) (d : A),
    NoDup (map name_of rs) -> Forall (fun r => bytes_pos (name_of r)) rs ->
    forall r, In r rs ->
    exists i, C25.Gen.gen_search_in (map key (sort_records key rs)) (key r) = Some i
              /\ (i < List.length rs)%nat /\ nth i (sort_records key rs) d = r.
  Proof.
    intros rs d Hnd Hpos r Hin.
    set (names := map key rs).
    assert (Hnames : names = map nkey (map name_of rs)) by (unfold names, key; rewrite map_map; reflexivity).
    assert (HposN : Forall bytes_pos (map name_of rs)).
    { rewrite Forall_forall in *. intros n Hn. apply in_map_iff in Hn. destruct Hn as [x [<- Hx]]. auto. }
    assert (HndN : NoDup names) by (rewrite Hnames; apply NoDup_map_nkey; assumption).
    assert (HnfN : Forall C25.Model.nulfree names).
    { rewrite Hnames. rewrite Forall_forall in *. intros n Hn. apply in_map_iff in Hn.
      destruct Hn as [x [<- Hx]]. apply nkey_nulfree, HposN, Hx. }
    assert (Hkr : C25.Model.nulfree (key r)).
    { rewrite Forall_forall in HnfN. apply HnfN. unfold names. apply in_map, Hin. }
    rewrite sort_records_keys. fold names.
    destruct (C25.Proofs.python_sort_gives_table names HndN) as [Hperm Hsorted].
    assert (HnfS : Forall C25.Model.nulfree (C25.Model.py_sorted names)).
    { rewrite Forall_forall in *. intros x Hx. apply HnfN. eapply Permutation_in; eauto. }
    pose proof (C25.GenProofs.gen_search_in_correct _ (key r) HnfS Hkr Hsorted) as Hc.
    destruct (proj1 (C25.GenProofs.gen_declared_names_found names (key r) HndN HnfN Hkr)) as [i [Hs Hn]].
    { unfold names. apply in_map, Hin. }
    exists i. split; [exact Hs|]. rewrite Hs in Hc. destruct Hc as [Hi _].
    assert (Hlen : List.length (C25.Model.py_sorted names) = List.length rs).
    { rewrite (Permutation_length Hperm). unfold names. apply map_length. }
    rewrite Hlen in Hi. split; [exact Hi|].
    (* the record at index i has the key of r, hence is r *)
    assert (Hi' : (i < List.length (sort_records key rs))%nat)
      by (rewrite (Permutation_length (sort_records_perm key rs)); exact Hi).
    assert (Hk : key (nth i (sort_records key rs) d) = key r).
    { rewrite <- Hn. unfold names. rewrite <- (sort_records_keys key rs).
      rewrite (nth_indep _ [] (key d)) by (rewrite map_length; exact Hi'). rewrite map_nth. reflexivity. }
    assert (Hin' : In (nth i (sort_records key rs) d) rs).
    { eapply Permutation_in; [apply sort_records_perm|]. apply nth_In, Hi'. }
    apply (NoDup_map_inj_in name_of rs); auto.
    rewrite Forall_forall in Hpos. apply nkey_inj; [apply (Hpos _ Hin')|apply (Hpos _ Hin)|exact Hk].
  Qed.
End Lookup.

(* ---- _globals ---- *)
Definition grec := (Z * Z * list Z)%type.                 (* CffiOp(op, arg), name *)
Definition gname (g : grec) : list Z := snd g.
Definition gkey (g : grec) := nkey (gname g).
Definition emit_global (g : grec) : list Z := let '(op, arg, name) := g in encode_global op arg name.
(* the byte strings of the generated module's _globals tuple, in emitted order *)
Definition emitted_globals (gs : list grec) : list (list Z) := map emit_global (sort_records gkey gs).
(* what ffiobj_init stores in nglobs[]: (type_op split into op/arg, name) *)
Definition decoded_globals (gs : list grec) : list ((Z * Z) * list Z) :=
  map (fun b => decode_global (as_c b)) (emitted_globals gs).

Lemma Forall_perm : forall {A} (P : A -> Prop) l l', Permutation l l' -> Forall P l' -> Forall P l.
Proof. intros A P l l' Hp H. rewrite Forall_forall in *. intros x Hx. apply H. eapply Permutation_in; eauto. Qed.

Lemma decoded_globals_eq : forall gs, Forall global_ok gs ->
  decoded_globals gs = map (fun g : grec => let '(op, arg, name) := g in ((op, arg), name)) (sort_records gkey gs).
Proof.
  intros gs H. unfold decoded_globals, emitted_globals, emit_global.
  apply globals_table_roundtrip. eapply Forall_perm; [apply sort_records_perm|exact H].
Qed.

Theorem global_lookup : forall gs,
  NoDup (map gname gs) -> Forall global_ok gs -> Forall (fun g => bytes_pos (gname g)) gs ->
  forall op arg name, In (op, arg, name) gs ->
  exists i, C25.Gen.gen_search_in (map (fun d => nkey (snd d)) (decoded_globals gs)) (nkey name) = Some i
            /\ nth i (decoded_globals gs) ((0, 0), []) = ((op, arg), name).
Proof.
  intros gs Hnd Hok Hpos op arg name Hin.
  rewrite decoded_globals_eq by assumption.
  destruct (sorted_table_lookup gname gs (0, 0, []) Hnd Hpos (op, arg, name) Hin) as [i [Hs [Hi Hn]]].
  exists i. split.
  - rewrite map_map. rewrite <- Hs. f_equal. apply map_ext. intros [[o a] n]. reflexivity.
  - change ((0, 0), @nil Z) with ((fun g : grec => let '(op, arg, name) := g in ((op, arg), name)) (0, 0, [])).
    rewrite map_nth. unfold gkey. rewrite Hn. reflexivity.
Qed.

(* ---- _typenames ---- *)
Definition trec := (Z * list Z)%type.                     (* type_index, name *)
Definition tkey (t : trec) := nkey (snd t).
Definition typename_ok (t : trec) : Prop := 0 <= fst t < 2 ^ 31 /\ nulfree (snd t).
Definition decoded_typenames (ts : list trec) : list (Z * list Z) :=
  map (fun b => decode_typename (as_c b)) (map (fun t : trec => encode_typename (fst t) (snd t)) (sort_records tkey ts)).

Lemma decoded_typenames_eq : forall ts, Forall typename_ok ts -> decoded_typenames ts = sort_records tkey ts.
Proof.
  intros ts H. unfold decoded_typenames. rewrite map_map.
  assert (H' : Forall typename_ok (sort_records tkey ts)) by (eapply Forall_perm; [apply sort_records_perm|exact H]).
  induction (sort_records tkey ts) as [|[ti n] l IH]; [reflexivity|].
  inversion H' as [|? ? [H1 H2] H3]; subst. cbn [map fst snd]. rewrite typename_roundtrip by assumption.
  f_equal. apply IH, H3.
Qed.

Theorem typename_lookup : forall ts,
  NoDup (map snd ts) -> Forall typename_ok ts -> Forall (fun t : trec => bytes_pos (snd t)) ts ->
  forall ti name, In (ti, name) ts ->
  exists i, C25.Gen.gen_search_in (map (fun d => nkey (snd d)) (decoded_typenames ts)) (nkey name) = Some i
            /\ nth i (decoded_typenames ts) (0, []) = (ti, name).
Proof.
  intros ts Hnd Hok Hpos ti name Hin.
  rewrite decoded_typenames_eq by assumption.
  destruct (sorted_table_lookup (@snd Z (list Z)) ts (0, []) Hnd Hpos (ti, name) Hin) as [i [Hs [Hi Hn]]].
  exists i. split; [exact Hs|exact Hn].
Qed.
