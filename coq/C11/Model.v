(* C11 — out-of-line ABI modules: the 4-byte opcode codec.

   Python side (regenerated into C11/Gen.v by tools/props/c11.py):
     cffi_opcode.format_four_bytes, CffiOp.as_python_bytes, OP_*, F_*     src/cffi/cffi_opcode.py
   C side (hand model, this file; its source text is shape-checked by the regenerator and the functions
   are run against the model by tools/props/c/c11_harness.c on every run):
     cdl_4bytes, cdl_opcode                          src/c/cdlopen.c:81
     _CFFI_GETOP, _CFFI_GETARG                       src/cffi/parse_c_type.h:8
     ffiobj_init record decoding                     src/c/cdlopen.c:120
     _cdl_realize_global_int / realize_global_int    src/c/cdlopen.c:101, src/c/realize_c_type.c:228
     OP_ARRAY length                                 src/c/realize_c_type.c:494 *)
From Coq Require Import Ascii String ZArith NArith List Bool.
Import ListNotations.
Open Scope Z_scope.

Definition cstr := list N.
Fixpoint s2l (s : string) : cstr :=
  match s with
  | EmptyString => []
  | String a s' => N_of_ascii a :: s2l s'
  end.

Inductive pyexc := OverflowError | VerificationError.
Inductive result (A : Type) := Ok (a : A) | Err (e : pyexc).
Arguments Ok {A} a.
Arguments Err {A} e.

(* a CffiOp as seen by as_python_bytes *)
Inductive cffiop :=
  | OpLen (n : Z)            (* op is None, arg is a string of digits: an array length (n >= 0) *)
  | OpExpr                   (* any other string arg (a C expression): cannot be emitted to Python *)
  | Op (op arg : Z).         (* CffiOp(OP_x, int) *)

(* ---- C side. A byte is a Z in [0, 256). *)
Definition sext8 (b : Z) : Z := if 128 <=? b then b - 256 else b.       (* (signed char) *)

(* return (ssrc[0] << 24) | (usrc[1] << 16) | (usrc[2] << 8) | usrc[3];   (int arithmetic, then Py_ssize_t)
   note: for ssrc[0] < 0 the shift of a negative int is formally undefined in ISO C; gcc defines it as
   two's complement multiplication, which is what is modelled *)
Definition cdl_4bytes (bs : list Z) : Z :=
  match bs with
  | b0 :: b1 :: b2 :: b3 :: _ =>
      Z.lor (Z.lor (Z.lor (Z.shiftl (sext8 b0) 24) (Z.shiftl b1 16)) (Z.shiftl b2 8)) b3
  | _ => 0
  end.

(* #define _CFFI_GETOP(cffi_opcode)    ((unsigned char)(uintptr_t)cffi_opcode) *)
Definition getop (x : Z) : Z := Z.land x 255.
(* #define _CFFI_GETARG(cffi_opcode)   (((intptr_t)cffi_opcode) >> 8) *)
Definition getarg (x : Z) : Z := Z.shiftr x 8.

Definition decode_op (bs : list Z) : Z * Z := let x := cdl_4bytes bs in (getop x, getarg x).

(* C string starting at s: the bytes before the first NUL *)
Fixpoint cstring (s : list Z) : list Z :=
  match s with
  | [] => []
  | c :: s' => if c =? 0 then [] else c :: cstring s'
  end.
Fixpoint after_cstring (s : list Z) : list Z :=      (* e += strlen(e) + 1 *)
  match s with
  | [] => []
  | c :: s' => if c =? 0 then s' else after_cstring s'
  end.

(* the bytes objects of the generated module as C sees them: PyBytes_AS_STRING, NUL-terminated *)
Definition as_c (b : list Z) : list Z := b ++ [0].

(* ffiobj_init: struct/union record  s: type_index, flags, name *)
Definition decode_struct (s : list Z) : Z * Z * list Z :=
  (cdl_4bytes s, cdl_4bytes (skipn 4 s), cstring (skipn 8 s)).
(* field record f: field_type_op, [field_size unless OP_NOOP], name *)
Definition decode_field (op_noop : Z) (f : list Z) : (Z * Z) * option Z * list Z :=
  let o := decode_op f in
  if fst o =? op_noop then (o, None, cstring (skipn 4 f))
  else (o, Some (cdl_4bytes (skipn 4 f)), cstring (skipn 8 f)).
(* enum record e: type_index, type_prim, name \0 enumerators *)
Definition decode_enum (e : list Z) : Z * Z * list Z * list Z :=
  (cdl_4bytes e, cdl_4bytes (skipn 4 e), cstring (skipn 8 e), cstring (after_cstring (skipn 8 e))).
(* typename record t: type_index, name;  global record g: type_op, name *)
Definition decode_typename (t : list Z) : Z * list Z := (cdl_4bytes t, cstring (skipn 4 t)).
Definition decode_global (g : list Z) : (Z * Z) * list Z := (decode_op g, cstring (skipn 4 g)).

(* ---- integer constants: the generated module holds the Python int o;
     ffiobj_init:            neg = PyObject_RichCompareBool(o, Py_False, Py_LE);     (o <= 0)
                             value = PyLong_AsUnsignedLongLongMask(o);               (o mod 2^64)
     realize_global_int:     case 0: value <= LONG_MAX ? PyLong_FromLong((long)value) : PyLong_FromUnsignedLongLong(value)
                             case 1: (long long)value >= LONG_MIN ? PyLong_FromLong((long)value)
                                                                  : PyLong_FromLongLong((long long)value) *)
Definition wrap_signed (bits x : Z) : Z :=
  let r := x mod 2 ^ bits in if 2 ^ (bits - 1) <=? r then r - 2 ^ bits else r.

Definition decode_int (long_bits : Z) (o : Z) : Z :=
  let neg := o <=? 0 in
  let value := o mod 2 ^ 64 in
  if neg then
    let sv := wrap_signed 64 value in                     (* (long long)value *)
    if - 2 ^ (long_bits - 1) <=? sv then wrap_signed long_bits value else sv
  else
    if value <=? 2 ^ (long_bits - 1) - 1 then wrap_signed long_bits value else value.

(* the C side alone: realize_global_int on the stored (neg, value); the stored pair itself is REGENERATED from
   ffiobj_init into C11/Gen.v (gen_intconst_neg, gen_intconst_value) *)
Definition realize_global_int (long_bits : Z) (neg : bool) (value : Z) : Z :=
  if neg then
    let sv := wrap_signed 64 value in
    if - 2 ^ (long_bits - 1) <=? sv then wrap_signed long_bits value else sv
  else
    if value <=? 2 ^ (long_bits - 1) - 1 then wrap_signed long_bits value else value.

(* ---- array length: length = (Py_ssize_t)opcodes[index + 1], the raw 4-byte value *)
Definition decode_len (bs : list Z) : Z := cdl_4bytes bs.

Definition pair_z_eqb (a b : Z * Z) : bool := (fst a =? fst b) && (snd a =? snd b).
