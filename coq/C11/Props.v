(* C11 — Out-of-line ABI module is equivalent to the in-line FFI: the serialisation part.
   Statements only; proofs in C11/Proofs.v. format_four_bytes, as_python_bytes, gen_pack and the OP_/F_
   tables are regenerated from /repo on every run (C11/Gen.v); cdl_4bytes, getop, getarg, decode_* are
   the hand model of cdlopen.c / parse_c_type.h / realize_c_type.c (C11/Model.v), whose source text is
   shape-checked by the regenerator and which is run against the real C functions on every run.
   The equivalence of whole modules is decided on the implementation by tools/props/c11.py (sampling). *)
From Coq Require Import Ascii String ZArith NArith List Bool.
Import ListNotations.
From Cffi Require Import C11.Model C11.Gen C11.Proofs C11.Lookup.
From Cffi Require C25.Model C25.Gen.
Open Scope Z_scope.

(* every emitted value is a byte, so the text \xHH in the generated b'...' literal denotes it *)
Theorem C11_bytes_in_range : forall num b, In b (format_four_bytes num) -> 0 <= b < 256.
Proof. exact bytes_in_range. Qed.
Print Assumptions C11_bytes_in_range.

(* decode (encode (op, arg)) = (op, arg) for ALL op < 256 and ALL 24-bit signed arguments *)
Theorem C11_decode_encode_op : forall op arg,
  0 <= op < 256 -> - 2 ^ 23 <= arg < 2 ^ 23 ->
  exists bs, as_python_bytes (Op op arg) = Ok bs /\ decode_op bs = (op, arg).
Proof. exact decode_encode_op. Qed.
Print Assumptions C11_decode_encode_op.

(* ... and not beyond (type tables with more than 2^23 entries would be needed to get there) *)
Theorem C11_decode_encode_op_refuted_outside : exists op arg bs,
  0 <= op < 256 /\ as_python_bytes (Op op arg) = Ok bs /\ decode_op bs <> (op, arg).
Proof. exact decode_encode_op_refuted_outside. Qed.
Print Assumptions C11_decode_encode_op_refuted_outside.

(* array lengths: all 0 <= n < 2^31 survive; from 2^31 on the generator raises OverflowError although the
   in-line FFI accepts such arrays (known finding array-len-ge-2^31, replayed on the implementation) *)
Theorem C11_decode_encode_len : forall n, 0 <= n < 2 ^ 31 ->
  exists bs, as_python_bytes (OpLen n) = Ok bs /\ decode_len bs = n.
Proof. exact decode_encode_len. Qed.
Print Assumptions C11_decode_encode_len.

Theorem C11_len_overflow_refuted : forall n, 2 ^ 31 <= n -> as_python_bytes (OpLen n) = Err OverflowError.
Proof. exact encode_len_overflow. Qed.
Print Assumptions C11_len_overflow_refuted.

(* records, for all NUL-free names *)
Theorem C11_struct_record : forall ti flags name,
  0 <= ti < 2 ^ 31 -> 0 <= flags < 2 ^ 31 -> nulfree name ->
  decode_struct (as_c (encode_struct ti flags name)) = (ti, flags, name).
Proof. exact struct_roundtrip. Qed.
Print Assumptions C11_struct_record.

Theorem C11_field_record : forall op_noop op arg bitsize name,
  0 <= op < 256 -> - 2 ^ 23 <= arg < 2 ^ 23 -> 0 <= bitsize < 2 ^ 31 -> nulfree name ->
  decode_field op_noop (as_c (encode_field op_noop op arg bitsize name)) =
  ((op, arg), (if op =? op_noop then None else Some bitsize), name).
Proof. exact field_roundtrip. Qed.
Print Assumptions C11_field_record.

Theorem C11_enum_record : forall ti prim name enumerators,
  0 <= ti < 2 ^ 31 -> 0 <= prim < 2 ^ 31 -> nulfree name -> nulfree enumerators ->
  decode_enum (as_c (encode_enum ti prim name enumerators)) = (ti, prim, name, enumerators).
Proof. exact enum_roundtrip. Qed.
Print Assumptions C11_enum_record.

Theorem C11_typename_record : forall ti name, 0 <= ti < 2 ^ 31 -> nulfree name ->
  decode_typename (as_c (encode_typename ti name)) = (ti, name).
Proof. exact typename_roundtrip. Qed.
Print Assumptions C11_typename_record.

Theorem C11_global_record : forall op arg name, 0 <= op < 256 -> - 2 ^ 23 <= arg < 2 ^ 23 -> nulfree name ->
  decode_global (as_c (encode_global op arg name)) = ((op, arg), name).
Proof. exact global_roundtrip. Qed.
Print Assumptions C11_global_record.

(* ---- the whole artefact, not only single records ----
   the `_types` byte string of a generated module (''.join of as_python_bytes over the ops of the type table)
   has 4 bytes per op, and the loop of ffiobj_init that cuts it into 4-byte words recovers, for EVERY list of
   encodable ops (any length), the word of each op in order: arg*256+op for CffiOp(op, arg), n for a length *)
Theorem C11_types_table : forall ops, Forall encodable ops ->
  exists bs, encode_types ops = Ok bs /\ List.length bs = (4 * List.length ops)%nat /\
             decode_types bs = map raw_of ops.
Proof. exact types_table_roundtrip. Qed.
Print Assumptions C11_types_table.

(* ... and each opcode word splits back into its (op, arg) with _CFFI_GETOP / _CFFI_GETARG *)
Theorem C11_types_table_entries : forall op arg, 0 <= op < 256 ->
  getop (raw_of (Op op arg)) = op /\ getarg (raw_of (Op op arg)) = arg.
Proof. exact raw_splits. Qed.
Print Assumptions C11_types_table_entries.

(* the `_globals` tuple: every record of the list is read back (any number of globals) *)
Theorem C11_globals_table : forall gs, Forall global_ok gs ->
  map (fun b => decode_global (as_c b)) (map (fun g => let '(op, arg, name) := g in encode_global op arg name) gs)
  = map (fun g => let '(op, arg, name) := g in ((op, arg), name)) gs.
Proof. exact globals_table_roundtrip. Qed.
Print Assumptions C11_globals_table.

(* the `_struct_unions` tuple of tuples: every struct/union with all its fields (any number of each) *)
Theorem C11_struct_unions_table : forall op_noop ss, Forall struct_ok ss ->
  map (decode_struct_entry op_noop) (map (encode_struct_entry op_noop) ss)
  = map (fun s => let '(ti, flags, name, fields) := s in
                  Some ((ti, flags, name),
                        map (fun f => let '(op, arg, bitsize, fname) := f in
                                      ((op, arg), (if op =? op_noop then None else Some bitsize), fname)) fields)) ss.
Proof. exact struct_unions_table_roundtrip. Qed.
Print Assumptions C11_struct_unions_table.

(* integer constants and enumerators: every value of [-2^63, 2^64) comes back unchanged (LP64) ... *)
Theorem C11_int_constant : forall v, - 2 ^ 63 <= v < 2 ^ 64 -> decode_int 64 v = v.
Proof. exact decode_int_correct. Qed.
Print Assumptions C11_int_constant.

(* the same with the stored sign and value as REGENERATED from ffiobj_init() of src/c/cdlopen.c on every run:
   decoded constant = declared constant for every value in [-2^63, 2^64) *)
Theorem C11_int_constant_regenerated : forall v, - 2 ^ 63 <= v < 2 ^ 64 ->
  realize_global_int 64 (gen_intconst_neg v) (gen_intconst_value v) = v.
Proof. exact gen_int_constant_correct. Qed.
Print Assumptions C11_int_constant_regenerated.

(* ... and the statement is false outside: 2^64 reads 0, -2^63-1 reads 2^63-1, while the in-line FFI keeps
   the exact Python integer (known finding int-const-outside-64bit, replayed on the implementation) *)
Theorem C11_int_constant_refuted_outside :
  (exists v, 2 ^ 64 <= v /\ decode_int 64 v <> v) /\ (exists v, v < - 2 ^ 63 /\ decode_int 64 v <> v).
Proof. exact decode_int_refuted_outside. Qed.
Print Assumptions C11_int_constant_refuted_outside.

(* OP_* / F_* (Python) = _CFFI_OP_* / _CFFI_F_* (C); every opcode is an odd byte *)
Theorem C11_opcode_tables_agree : py_ops = c_ops /\ py_flags = c_flags.
Proof. exact gen_ops_agree. Qed.
Print Assumptions C11_opcode_tables_agree.

Theorem C11_opcodes_are_odd_bytes :
  forallb (fun e => (0 <=? snd e) && (snd e <? 256) && Z.odd (snd e)) py_ops = true.
Proof. exact gen_ops_are_bytes. Qed.
Print Assumptions C11_opcodes_are_odd_bytes.

(* ---- C11 x C25: the module exposes the declared names ----
   For EVERY list gs of global records (CffiOp(op, arg), name) with pairwise distinct names made of bytes 1..:
   sort it on the name as collect_step_tables does, emit b'<type_op><name>' per record, let ffiobj_init decode
   the byte strings into nglobs[]; then search_in_globals (C25.Gen.gen_search_in: the binary search REGENERATED
   from src/c/parse_c_type.c on every run) applied to the decoded table and the name of any declared record
   returns an index, and the decoded entry at that index is exactly the declared (op, arg, name). *)
Theorem C11_global_lookup : forall gs,
  NoDup (map gname gs) -> Forall global_ok gs -> Forall (fun g => bytes_pos (gname g)) gs ->
  forall op arg name, In (op, arg, name) gs ->
  exists i, C25.Gen.gen_search_in (map (fun d => nkey (snd d)) (decoded_globals gs)) (nkey name) = Some i
            /\ nth i (decoded_globals gs) ((0, 0), []) = ((op, arg), name).
Proof. exact global_lookup. Qed.
Print Assumptions C11_global_lookup.

(* the same for the `_typenames` table and search_in_typenames *)
Theorem C11_typename_lookup : forall ts,
  NoDup (map snd ts) -> Forall typename_ok ts -> Forall (fun t : trec => bytes_pos (snd t)) ts ->
  forall ti name, In (ti, name) ts ->
  exists i, C25.Gen.gen_search_in (map (fun d => nkey (snd d)) (decoded_typenames ts)) (nkey name) = Some i
            /\ nth i (decoded_typenames ts) (0, []) = (ti, name).
Proof. exact typename_lookup. Qed.
Print Assumptions C11_typename_lookup.

(* generic form (any record type with a name; used for both tables above; it also covers _struct_unions and
   _enums once their records are read back by C11_struct_record / C11_enum_record) *)
Theorem C11_sorted_table_lookup : forall (A : Type) (name_of : A -> list Z) (rs : list A) (d : A),
  NoDup (map name_of rs) -> Forall (fun r => bytes_pos (name_of r)) rs ->
  forall r, In r rs ->
  exists i, C25.Gen.gen_search_in (map (fun r => nkey (name_of r)) (sort_records (fun r => nkey (name_of r)) rs))
                                  (nkey (name_of r)) = Some i
            /\ (i < List.length rs)%nat /\ nth i (sort_records (fun r => nkey (name_of r)) rs) d = r.
Proof. exact @sorted_table_lookup. Qed.
Print Assumptions C11_sorted_table_lookup.

Example C11_lookup_example :
  let gs := [(11, -1, [102; 111; 111; 95]); (13, 2, [102; 111; 111]); (11, -1, [102; 111; 112])] in
  decoded_globals gs = [((13, 2), [102; 111; 111]); ((11, -1), [102; 111; 111; 95]); ((11, -1), [102; 111; 112])] /\
  map (C25.Gen.gen_search_in (map (fun d => nkey (snd d)) (decoded_globals gs)))
      [nkey [102; 111; 111; 95]; nkey [102; 111; 111]; nkey [102; 111; 112]; nkey [102; 111]]
  = [Some 1%nat; Some 0%nat; Some 2%nat; None].
Proof. vm_compute. split; reflexivity. Qed.

(* non-vacuity *)
Example C11_example :
  as_python_bytes (Op 11 (-1)) = Ok [255; 255; 255; 11] /\ decode_op [255; 255; 255; 11] = (11, -1) /\
  as_python_bytes (Op 3 70000) = Ok [1; 17; 112; 3] /\ decode_op [1; 17; 112; 3] = (3, 70000) /\
  as_python_bytes (OpLen 2147483647) = Ok [127; 255; 255; 255] /\
  decode_int 64 (-1) = -1 /\ decode_int 64 (2 ^ 64 - 1) = 2 ^ 64 - 1 /\ decode_int 64 (2 ^ 64) = 0 /\
  decode_enum (as_c (encode_enum 7 22 [101] [65; 44; 66])) = (7, 22, [101], [65; 44; 66]) /\
  encode_types [Op 5 2; OpLen 16; Op 1 7; Op 11 (-1)] = Ok [0;0;2;5; 0;0;0;16; 0;0;7;1; 255;255;255;11] /\
  decode_types [0;0;2;5; 0;0;0;16; 0;0;7;1; 255;255;255;11] = [517; 16; 1793; -245].
Proof. vm_compute. repeat split; reflexivity. Qed.
