(* C11 — proofs about the opcode codec. *)
From Coq Require Import Ascii String ZArith NArith List Bool Lia ZifyBool.
Import ListNotations.
From Cffi Require Import C11.Model C11.Gen.
Open Scope Z_scope.

(* ------------------------------------------------------------------ bit-level basics *)
Lemma land_shiftl_small : forall a b n, 0 <= n -> 0 <= b < 2 ^ n -> Z.land (Z.shiftl a n) b = 0.
Proof.
  intros a b n Hn Hb. apply Z.bits_inj'. intros i Hi. rewrite Z.land_spec, Z.bits_0.
  destruct (Z.lt_ge_cases i n) as [Hlt|Hge].
  - rewrite Z.shiftl_spec_low by lia. reflexivity.
  - destruct (Z.eq_dec b 0) as [->|Hb0]; [rewrite Z.bits_0; apply andb_false_r|].
    rewrite (Z.bits_above_log2 b i); [apply andb_false_r | lia |].
    apply Z.log2_lt_pow2; [lia|]. apply Z.lt_le_trans with (2 ^ n); [lia|]. apply Z.pow_le_mono_r; lia.
Qed.

Lemma lor_shiftl_add : forall a b n, 0 <= n -> 0 <= b < 2 ^ n -> Z.lor (Z.shiftl a n) b = a * 2 ^ n + b.
Proof.
  intros a b n Hn Hb. pose proof (land_shiftl_small a b n Hn Hb) as H.
  rewrite <- Z.lxor_lor by exact H. rewrite <- Z.add_nocarry_lxor by exact H.
  rewrite Z.shiftl_mul_pow2 by lia. reflexivity.
Qed.

Lemma land_255 : forall x, Z.land x 255 = x mod 256.
Proof. intros. change 255 with (Z.ones 8). rewrite Z.land_ones by lia. reflexivity. Qed.

Lemma shiftr_div : forall x n, 0 <= n -> Z.shiftr x n = x / 2 ^ n.
Proof. intros. apply Z.shiftr_div_pow2. lia. Qed.

Lemma cdl_arith : forall a b1 b2 b3, 0 <= b1 < 256 -> 0 <= b2 < 256 -> 0 <= b3 < 256 ->
  Z.lor (Z.lor (Z.lor (Z.shiftl a 24) (Z.shiftl b1 16)) (Z.shiftl b2 8)) b3
  = ((a * 256 + b1) * 256 + b2) * 256 + b3.
Proof.
  intros a b1 b2 b3 H1 H2 H3.
  replace (Z.shiftl a 24) with (Z.shiftl (Z.shiftl a 8) 16) by (rewrite Z.shiftl_shiftl by lia; reflexivity).
  rewrite <- Z.shiftl_lor. rewrite (lor_shiftl_add a b1 8) by (change (2 ^ 8) with 256; lia).
  change (2 ^ 8) with 256.
  replace (Z.shiftl (a * 256 + b1) 16) with (Z.shiftl (Z.shiftl (a * 256 + b1) 8) 8)
    by (rewrite Z.shiftl_shiftl by lia; reflexivity).
  rewrite <- Z.shiftl_lor. rewrite (lor_shiftl_add (a * 256 + b1) b2 8) by (change (2 ^ 8) with 256; lia).
  change (2 ^ 8) with 256.
  rewrite (lor_shiftl_add _ b3 8) by (change (2 ^ 8) with 256; lia). reflexivity.
Qed.

(* the four bytes of format_four_bytes, arithmetically *)
Lemma ffb_arith : forall num,
  format_four_bytes num = [(num / 2 ^ 24) mod 256; (num / 2 ^ 16) mod 256; (num / 2 ^ 8) mod 256; num mod 256].
Proof.
  intros. unfold format_four_bytes. rewrite !land_255, !shiftr_div by lia. reflexivity.
Qed.

Lemma bytes_in_range : forall num b, In b (format_four_bytes num) -> 0 <= b < 256.
Proof.
  intros num b H. rewrite ffb_arith in H. cbn in H.
  destruct H as [<-|[<-|[<-|[<-|[]]]]]; apply Z.mod_pos_bound; lia.
Qed.

(* reading back the four bytes of any num in the 32-bit signed range gives num *)
Lemma cdl_ffb : forall num, - 2 ^ 31 <= num < 2 ^ 31 -> cdl_4bytes (format_four_bytes num) = num.
Proof.
  intros num Hr. rewrite ffb_arith. unfold cdl_4bytes.
  rewrite cdl_arith by (apply Z.mod_pos_bound; lia).
  change (2 ^ 24) with 16777216. change (2 ^ 16) with 65536. change (2 ^ 8) with 256.
  change (2 ^ 31) with 2147483648 in Hr.
  unfold sext8. destruct (Z.leb_spec 128 ((num / 16777216) mod 256)) as [H|H].
  - Ltac Zify.zify_post_hook ::= Z.to_euclidean_division_equations. lia.
  - Ltac Zify.zify_post_hook ::= Z.to_euclidean_division_equations. lia.
Qed.

Lemma pack_arith : forall op arg, 0 <= op < 256 -> gen_pack arg op = arg * 256 + op.
Proof. intros. unfold gen_pack. rewrite lor_shiftl_add by (change (2 ^ 8) with 256; lia). reflexivity. Qed.

(* ------------------------------------------------------------------ opcodes *)
Lemma decode_encode_op : forall op arg,
  0 <= op < 256 -> - 2 ^ 23 <= arg < 2 ^ 23 ->
  exists bs, as_python_bytes (Op op arg) = Ok bs /\ decode_op bs = (op, arg).
Proof.
  intros op arg Hop Harg. eexists. split; [reflexivity|].
  unfold decode_op. rewrite pack_arith by assumption.
  change (2 ^ 23) with 8388608 in Harg.
  rewrite cdl_ffb by (change (2 ^ 31) with 2147483648; lia).
  unfold getop, getarg. rewrite land_255, shiftr_div by lia. change (2 ^ 8) with 256.
  f_equal.
  - Ltac Zify.zify_post_hook ::= Z.to_euclidean_division_equations. lia.
  - Ltac Zify.zify_post_hook ::= Z.to_euclidean_division_equations. lia.
Qed.

(* outside the 24-bit signed range the argument does not survive: witness *)
Lemma decode_encode_op_refuted_outside : exists op arg bs,
  0 <= op < 256 /\ as_python_bytes (Op op arg) = Ok bs /\ decode_op bs <> (op, arg).
Proof. exists 1, (2 ^ 23). eexists. split; [lia|]. split; [reflexivity|]. vm_compute. discriminate. Qed.

(* ------------------------------------------------------------------ array lengths *)
Lemma decode_encode_len : forall n, 0 <= n < 2 ^ 31 ->
  exists bs, as_python_bytes (OpLen n) = Ok bs /\ decode_len bs = n.
Proof.
  intros n Hn. unfold as_python_bytes, gen_len_overflow.
  destruct (Z.geb_spec n (2 ^ 31)) as [H|H]; [lia|].
  eexists. split; [reflexivity|]. unfold decode_len. apply cdl_ffb. lia.
Qed.

Lemma encode_len_overflow : forall n, 2 ^ 31 <= n -> as_python_bytes (OpLen n) = Err OverflowError.
Proof.
  intros n Hn. unfold as_python_bytes, gen_len_overflow.
  destruct (Z.geb_spec n (2 ^ 31)) as [H|H]; [reflexivity|lia].
Qed.

(* ------------------------------------------------------------------ records *)
Definition nulfree (s : list Z) : Prop := Forall (fun c => c <> 0) s.

Lemma cstring_app : forall name rest, nulfree name -> cstring (name ++ 0 :: rest) = name.
Proof.
  induction name as [|c name IH]; intros rest H; cbn; [reflexivity|].
  inversion H; subst. destruct (Z.eqb_spec c 0); [contradiction|]. f_equal. apply IH. assumption.
Qed.

Lemma after_cstring_app : forall name rest, nulfree name -> after_cstring (name ++ 0 :: rest) = rest.
Proof.
  induction name as [|c name IH]; intros rest H; cbn; [reflexivity|].
  inversion H; subst. destruct (Z.eqb_spec c 0); [contradiction|]. apply IH. assumption.
Qed.

Lemma ffb_length : forall n, length (format_four_bytes n) = 4%nat.
Proof. reflexivity. Qed.

Lemma skipn_ffb : forall n rest, skipn 4 (format_four_bytes n ++ rest) = rest.
Proof. reflexivity. Qed.

Lemma cdl_prefix : forall n rest, cdl_4bytes (format_four_bytes n ++ rest) = cdl_4bytes (format_four_bytes n).
Proof. reflexivity. Qed.

(* b'<type_index><flags><name>'  (StructUnionExpr.as_python_expr, item 0) *)
Definition encode_struct (type_index flags : Z) (name : list Z) : list Z :=
  format_four_bytes type_index ++ format_four_bytes flags ++ name.

Lemma struct_roundtrip : forall ti flags name,
  0 <= ti < 2 ^ 31 -> 0 <= flags < 2 ^ 31 -> nulfree name ->
  decode_struct (as_c (encode_struct ti flags name)) = (ti, flags, name).
Proof.
  intros ti flags name H1 H2 Hn. unfold decode_struct, as_c, encode_struct.
  rewrite <- !app_assoc. rewrite cdl_prefix, cdl_ffb by lia.
  change (skipn 8 (format_four_bytes ti ++ format_four_bytes flags ++ name ++ [0]))
    with (skipn 4 (format_four_bytes flags ++ name ++ [0])).
  rewrite skipn_ffb at 1. rewrite cdl_prefix, cdl_ffb by lia.
  rewrite skipn_ffb. change (name ++ [0]) with (name ++ 0 :: []). rewrite cstring_app by assumption. reflexivity.
Qed.

(* b'<type_op><name>' for OP_NOOP fields, b'<type_op><bitsize><name>' for OP_BITFIELD (FieldExpr.as_field_python_expr) *)
Definition encode_field (op_noop op arg : Z) (bitsize : Z) (name : list Z) : list Z :=
  format_four_bytes (gen_pack arg op) ++ (if op =? op_noop then [] else format_four_bytes bitsize) ++ name.

Lemma field_roundtrip : forall op_noop op arg bitsize name,
  0 <= op < 256 -> - 2 ^ 23 <= arg < 2 ^ 23 -> 0 <= bitsize < 2 ^ 31 -> nulfree name ->
  decode_field op_noop (as_c (encode_field op_noop op arg bitsize name)) =
  ((op, arg), (if op =? op_noop then None else Some bitsize), name).
Proof.
  intros op_noop op arg bitsize name Hop Harg Hb Hn.
  destruct (decode_encode_op op arg Hop Harg) as [bs [Hbs Hdec]]. cbn in Hbs. inversion Hbs; subst bs. clear Hbs.
  unfold decode_field, as_c, encode_field. rewrite <- !app_assoc.
  assert (E : decode_op (format_four_bytes (gen_pack arg op) ++
                         (if op =? op_noop then [] else format_four_bytes bitsize) ++ name ++ [0]) = (op, arg))
    by exact Hdec.
  rewrite E. cbn [fst]. rewrite skipn_ffb.
  destruct (op =? op_noop).
  - cbn [app]. change (name ++ [0]) with (name ++ 0 :: []). rewrite cstring_app by assumption. reflexivity.
  - rewrite cdl_prefix, cdl_ffb by lia.
    change (skipn 8 (format_four_bytes (gen_pack arg op) ++ format_four_bytes bitsize ++ name ++ [0]))
      with (skipn 4 (format_four_bytes bitsize ++ name ++ [0])).
    rewrite skipn_ffb. change (name ++ [0]) with (name ++ 0 :: []). rewrite cstring_app by assumption. reflexivity.
Qed.

(* b'<type_index><prim_index><name>\x00<enumerators>'  (EnumExpr.as_python_expr) *)
Definition encode_enum (type_index prim : Z) (name enumerators : list Z) : list Z :=
  format_four_bytes type_index ++ format_four_bytes prim ++ name ++ [0] ++ enumerators.

Lemma enum_roundtrip : forall ti prim name enumerators,
  0 <= ti < 2 ^ 31 -> 0 <= prim < 2 ^ 31 -> nulfree name -> nulfree enumerators ->
  decode_enum (as_c (encode_enum ti prim name enumerators)) = (ti, prim, name, enumerators).
Proof.
  intros ti prim name en H1 H2 Hn He. unfold decode_enum, as_c, encode_enum.
  rewrite <- !app_assoc. rewrite cdl_prefix, cdl_ffb by lia.
  change (skipn 8 (format_four_bytes ti ++ format_four_bytes prim ++ name ++ [0] ++ en ++ [0]))
    with (skipn 4 (format_four_bytes prim ++ name ++ [0] ++ en ++ [0])).
  rewrite skipn_ffb at 1. rewrite cdl_prefix, cdl_ffb by lia. rewrite skipn_ffb.
  change (name ++ [0] ++ en ++ [0]) with (name ++ 0 :: (en ++ 0 :: [])).
  rewrite cstring_app, after_cstring_app, cstring_app by assumption. reflexivity.
Qed.

(* b'<type_index><name>' (TypenameExpr), b'<type_op><name>' (GlobalExpr) *)
Definition encode_typename (type_index : Z) (name : list Z) : list Z := format_four_bytes type_index ++ name.
Definition encode_global (op arg : Z) (name : list Z) : list Z := format_four_bytes (gen_pack arg op) ++ name.

Lemma typename_roundtrip : forall ti name, 0 <= ti < 2 ^ 31 -> nulfree name ->
  decode_typename (as_c (encode_typename ti name)) = (ti, name).
Proof.
  intros ti name H Hn. unfold decode_typename, as_c, encode_typename. rewrite <- !app_assoc.
  rewrite cdl_prefix, cdl_ffb by lia. rewrite skipn_ffb.
  change (name ++ [0]) with (name ++ 0 :: []). rewrite cstring_app by assumption. reflexivity.
Qed.

Lemma global_roundtrip : forall op arg name, 0 <= op < 256 -> - 2 ^ 23 <= arg < 2 ^ 23 -> nulfree name ->
  decode_global (as_c (encode_global op arg name)) = ((op, arg), name).
Proof.
  intros op arg name Hop Harg Hn.
  destruct (decode_encode_op op arg Hop Harg) as [bs [Hbs Hdec]]. cbn in Hbs. inversion Hbs; subst bs. clear Hbs.
  unfold decode_global, as_c, encode_global. rewrite <- !app_assoc.
  assert (E : decode_op (format_four_bytes (gen_pack arg op) ++ name ++ [0]) = (op, arg)) by exact Hdec.
  rewrite E. rewrite skipn_ffb. change (name ++ [0]) with (name ++ 0 :: []). rewrite cstring_app by assumption.
  reflexivity.
Qed.

(* ------------------------------------------------------------------ integer constants *)
Lemma decode_int_correct : forall v, - 2 ^ 63 <= v < 2 ^ 64 -> decode_int 64 v = v.
Proof.
  intros v Hv. unfold decode_int, wrap_signed.
  change (2 ^ 64) with 18446744073709551616 in *. change (2 ^ (64 - 1)) with 9223372036854775808.
  change (2 ^ 63) with 9223372036854775808 in Hv.
  destruct (Z.leb_spec v 0) as [Hneg|Hpos].
  - assert (E : v mod 18446744073709551616 = if v =? 0 then 0 else v + 18446744073709551616).
    { destruct (Z.eqb_spec v 0) as [->|Hnz]; [reflexivity|].
      symmetry. apply (Z.mod_unique v 18446744073709551616 (-1)); lia. }
    rewrite E. destruct (Z.eqb_spec v 0) as [->|Hnz]; [reflexivity|].
    rewrite Z.mod_small by lia.
    destruct (Z.leb_spec 9223372036854775808 (v + 18446744073709551616)); [|lia].
    destruct (_ <=? _); lia.
  - rewrite (Z.mod_small v) by lia.
    destruct (Z.leb_spec v (9223372036854775808 - 1)) as [H|H]; [|reflexivity].
    rewrite Z.mod_small by lia. destruct (Z.leb_spec 9223372036854775808 v); lia.
Qed.

(* with the sign and value REGENERATED from ffiobj_init (C11/Gen.v): an edit of the `neg` or `value`
   computation in cdlopen.c changes gen_intconst_* and this proof no longer goes through *)
Lemma decode_int_is_gen : forall lb o,
  realize_global_int lb (gen_intconst_neg o) (gen_intconst_value o) = decode_int lb o.
Proof. reflexivity. Qed.

Lemma gen_int_constant_correct : forall v, - 2 ^ 63 <= v < 2 ^ 64 ->
  realize_global_int 64 (gen_intconst_neg v) (gen_intconst_value v) = v.
Proof. intros v Hv. rewrite decode_int_is_gen. apply decode_int_correct, Hv. Qed.

Lemma decode_int_refuted_outside :
  (exists v, 2 ^ 64 <= v /\ decode_int 64 v <> v) /\ (exists v, v < - 2 ^ 63 /\ decode_int 64 v <> v).
Proof.
  split.
  - exists (2 ^ 64). split; [lia|]. vm_compute. discriminate.
  - exists (- 2 ^ 63 - 1). split; [lia|]. vm_compute. discriminate.
Qed.

(* ------------------------------------------------------------------ constants tables *)
Lemma gen_ops_agree : py_ops = c_ops /\ py_flags = c_flags.
Proof. split; vm_compute; reflexivity. Qed.

Lemma gen_ops_are_bytes : forallb (fun e => (0 <=? snd e) && (snd e <? 256) && Z.odd (snd e)) py_ops = true.
Proof. vm_compute. reflexivity. Qed.

(* ------------------------------------------------------------------ whole tables *)
(* _types = ''.join(op.as_python_bytes() for op in cffi_types)   (recompiler.write_py_source_to_f) *)
Fixpoint encode_types (ops : list cffiop) : result (list Z) :=
  match ops with
  | [] => Ok []
  | o :: ops' =>
      match as_python_bytes o with
      | Err e => Err e
      | Ok b => match encode_types ops' with Ok r => Ok (b ++ r) | Err e => Err e end
      end
  end.

(* ffiobj_init: n = types_len / 4;  for (i = 0; i < n; i++) { ntypes[i] = cdl_opcode(types); types += 4; } *)
Fixpoint decode_types_n (n : nat) (bs : list Z) : list Z :=
  match n with O => [] | S k => cdl_4bytes bs :: decode_types_n k (skipn 4 bs) end.
Definition decode_types (bs : list Z) : list Z := decode_types_n (Nat.div (List.length bs) 4) bs.

Definition encodable (o : cffiop) : Prop :=
  match o with
  | Op op arg => 0 <= op < 256 /\ - 2 ^ 23 <= arg < 2 ^ 23
  | OpLen n => 0 <= n < 2 ^ 31
  | OpExpr => False
  end.

(* what the C side holds for an entry: the opcode word, or the raw array length *)
Definition raw_of (o : cffiop) : Z :=
  match o with Op op arg => arg * 256 + op | OpLen n => n | OpExpr => 0 end.

Lemma encode_one : forall o, encodable o ->
  exists b, as_python_bytes o = Ok b /\ List.length b = 4%nat /\ forall rest, cdl_4bytes (b ++ rest) = raw_of o
            /\ skipn 4 (b ++ rest) = rest.
Proof.
  intros o H. destruct o as [n| |op arg]; cbn [encodable] in H; [| contradiction |].
  - exists (format_four_bytes n). unfold as_python_bytes, gen_len_overflow.
    destruct (Z.geb_spec n (2 ^ 31)); [lia|]. split; [reflexivity|]. split; [reflexivity|].
    intros rest. split; [|reflexivity].
    rewrite cdl_prefix. cbn [raw_of]. apply cdl_ffb. lia.
  - destruct H as [Hop Harg]. exists (format_four_bytes (gen_pack arg op)).
    split; [reflexivity|]. split; [reflexivity|]. intros rest. split; [|reflexivity].
    rewrite cdl_prefix, pack_arith by assumption. cbn [raw_of]. apply cdl_ffb.
    change (2 ^ 23) with 8388608 in Harg. change (2 ^ 31) with 2147483648. lia.
Qed.

Lemma types_table_roundtrip : forall ops, Forall encodable ops ->
  exists bs, encode_types ops = Ok bs /\ List.length bs = (4 * List.length ops)%nat /\
             decode_types bs = map raw_of ops.
Proof.
  assert (G : forall ops, Forall encodable ops ->
          exists bs, encode_types ops = Ok bs /\ List.length bs = (4 * List.length ops)%nat /\
                     decode_types_n (List.length ops) bs = map raw_of ops).
  { induction ops as [|o ops IH]; intros H.
    - exists []. repeat split; reflexivity.
    - inversion H as [|? ? Ho Hops]; subst. destruct (IH Hops) as [r [Er [Lr Dr]]].
      destruct (encode_one o Ho) as [b [Eb [Lb Hb]]].
      exists (b ++ r). cbn [encode_types]. rewrite Eb, Er. split; [reflexivity|]. split.
      + rewrite app_length, Lb, Lr. cbn [List.length]. lia.
      + cbn [List.length decode_types_n map]. destruct (Hb r) as [H1 H2]. rewrite H1, H2, Dr. reflexivity. }
  intros ops H. destruct (G ops H) as [bs [E [L D]]]. exists bs. repeat split; try assumption.
  unfold decode_types. rewrite L. rewrite Nat.mul_comm, Nat.div_mul by lia. exact D.
Qed.

(* an opcode word splits back into (op, arg) *)
Lemma raw_splits : forall op arg, 0 <= op < 256 -> getop (raw_of (Op op arg)) = op /\ getarg (raw_of (Op op arg)) = arg.
Proof.
  intros op arg Hop. cbn [raw_of]. unfold getop, getarg. rewrite land_255, shiftr_div by lia. change (2 ^ 8) with 256.
  split.
  - Ltac Zify.zify_post_hook ::= Z.to_euclidean_division_equations. lia.
  - Ltac Zify.zify_post_hook ::= Z.to_euclidean_division_equations. lia.
Qed.

(* _globals = (b'<type_op><name>', int, ...): the records, as a list *)
Definition global_ok (g : Z * Z * list Z) : Prop :=
  let '(op, arg, name) := g in 0 <= op < 256 /\ - 2 ^ 23 <= arg < 2 ^ 23 /\ nulfree name.

Lemma globals_table_roundtrip : forall gs, Forall global_ok gs ->
  map (fun b => decode_global (as_c b)) (map (fun g => let '(op, arg, name) := g in encode_global op arg name) gs)
  = map (fun g => let '(op, arg, name) := g in ((op, arg), name)) gs.
Proof.
  induction gs as [|[[op arg] name] gs IH]; intros H; [reflexivity|].
  inversion H as [|? ? H1 H2]; subst. cbn [map]. rewrite IH by exact H2.
  destruct H1 as [Hop [Harg Hn]]. rewrite global_roundtrip by assumption. reflexivity.
Qed.

(* _struct_unions = ((b'<type_index><flags><name>', b'<field>', ...), ...) *)
Definition field_ok (f : Z * Z * Z * list Z) : Prop :=
  let '(op, arg, bitsize, name) := f in
  0 <= op < 256 /\ - 2 ^ 23 <= arg < 2 ^ 23 /\ 0 <= bitsize < 2 ^ 31 /\ nulfree name.
Definition struct_ok (s : Z * Z * list Z * list (Z * Z * Z * list Z)) : Prop :=
  let '(ti, flags, name, fields) := s in
  0 <= ti < 2 ^ 31 /\ 0 <= flags < 2 ^ 31 /\ nulfree name /\ Forall field_ok fields.

Definition encode_struct_entry (op_noop : Z) (s : Z * Z * list Z * list (Z * Z * Z * list Z)) : list (list Z) :=
  let '(ti, flags, name, fields) := s in
  encode_struct ti flags name
  :: map (fun f => let '(op, arg, bitsize, fname) := f in encode_field op_noop op arg bitsize fname) fields.

Definition decode_struct_entry (op_noop : Z) (e : list (list Z)) :=
  match e with
  | [] => None
  | head :: fields => Some (decode_struct (as_c head), map (fun f => decode_field op_noop (as_c f)) fields)
  end.

Lemma struct_unions_table_roundtrip : forall op_noop ss, Forall struct_ok ss ->
  map (decode_struct_entry op_noop) (map (encode_struct_entry op_noop) ss)
  = map (fun s => let '(ti, flags, name, fields) := s in
                  Some ((ti, flags, name),
                        map (fun f => let '(op, arg, bitsize, fname) := f in
                                      ((op, arg), (if op =? op_noop then None else Some bitsize), fname)) fields)) ss.
Proof.
  induction ss as [|[[[ti flags] name] fields] ss IH]; intros H; [reflexivity|].
  inversion H as [|? ? H1 H2]; subst. cbn [map]. rewrite IH by exact H2.
  destruct H1 as [Hti [Hfl [Hn Hf]]]. cbn [encode_struct_entry decode_struct_entry].
  rewrite struct_roundtrip by assumption. f_equal. f_equal. f_equal.
  rewrite map_map. clear - Hf. induction fields as [|[[[op arg] bs] fname] fields IHf]; [reflexivity|].
  inversion Hf as [|? ? F1 F2]; subst. cbn [map]. rewrite IHf by exact F2.
  destruct F1 as [A [B [C D]]]. rewrite field_roundtrip by assumption. reflexivity.
Qed.
