(* C28/Gen.v — REGENERATED on every run by tools/props/c28.py:regen from
     /repo/src/cffi/_embedding.h   (_cffi_start_python: where "_cffi_call_python = ... _cffi_call_python_org"
                                    stands relative to the "if (!called)" block and its success branch, and
                                    whether the failure branch resets _cffi_call_python_org;
                                    _cffi_initialize_python: PyGILState_Release on both exits;
                                    _cffi_acquire_reentrant_mutex: guard released before the lock;
                                    _cffi_start_and_call_python: memset / call under the NULL tests)
   Do not edit: this committed copy is the snapshot used when the translator fails. *)

(* the switch to the fast path is inside "if (!called) { ... if (_cffi_initialize_python() == 0) { HERE } }" *)
Definition gen_switch_in_success : bool := true.

(* _cffi_initialize_python: (the success exit, the error exit) passes PyGILState_Release(state) *)
Definition gen_init_exits : bool * bool := (true, true).

(* _cffi_acquire_reentrant_mutex: the CAS guard is released before pthread_mutex_lock *)
Definition gen_guard_released_before_lock : bool := true.

(* _cffi_start_and_call_python: memset(args, 0, size_of_result) under "if (fnptr == NULL)", and the only
   call through fnptr under "if (fnptr != NULL)", after it *)
Definition gen_zero_on_null : bool := true.

(* _cffi_start_python: the failure branch of _cffi_initialize_python(), inside "if (!called)", resets
   _cffi_call_python_org = NULL *)
Definition gen_fail_resets_org : bool := true.
