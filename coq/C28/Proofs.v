(* C28 — proofs: invariants of every reachable state, for all schedules, any number of threads
   and libraries. *)
From Coq Require Import Arith List Bool Lia.
Import ListNotations.
From Cffi Require Import C28.Gen C28.Model.

(* the proofs are about the code as it is: the fast-path switch inside the success branch, the CAS
   guard released before pthread_mutex_lock, the result zeroed when the pointer is NULL, the pointer reset after a failed init.  If the
   regenerated Gen.v says otherwise, [ustep] fails and every theorem about [step] stops checking. *)
Definition cstep := core true true true true.
Ltac ustep := unfold cstep, core; cbv beta iota zeta.

(* ------------------------------------------------------------------ projections *)
Lemma updf_same {A} (f : nat -> A) i v : updf f i v i = v.
Proof. unfold updf. rewrite Nat.eqb_refl. reflexivity. Qed.
Lemma updf_other {A} (f : nat -> A) i v j : j <> i -> updf f i v j = f j.
Proof. unfold updf. intros N. destruct (Nat.eqb_spec j i); [contradiction | reflexivity]. Qed.

(* what one step can do to the stacks: only the stepping thread's stack changes *)
Ltac step_cases s t c :=
  ustep; cbv beta iota zeta;
  destruct (t <? nthr s) eqn:Ht; cbn [negb];
  [ destruct (stacks s t) as [| [l p] rest] eqn:Hst;
    [ destruct c | destruct p ] | ].

Ltac simp_state :=
  unfold enter_py, set_stack, set_lib, set_spin, set_py, set_bad, add_zero in *;
  cbn [nthr stacks spin pyinit pycount libs bad zeros gil] in *.

Ltac split_ifs :=
  repeat match goal with
         | |- context [if ?b then _ else _] => let E := fresh "E" in destruct b eqn:E
         | |- context [match ?x with Some _ => _ | None => _ end] => let E := fresh "E" in destruct x eqn:E
         | |- context [match ?c with CCall _ => _ | COk => _ | CFail => _ end] => destruct c
         end.

Lemma step_nthr s tc : nthr (cstep s tc) = nthr s.
Proof. destruct tc as [t c]. step_cases s t c; split_ifs; simp_state; split_ifs; reflexivity. Qed.

Lemma step_other s t c t' : t' <> t -> stacks (cstep s (t, c)) t' = stacks s t'.
Proof.
  intros N. step_cases s t c; split_ifs; simp_state; split_ifs; simp_state;
    rewrite ?updf_other by exact N; reflexivity.
Qed.

(* the core step never touches the GIL field *)
Lemma cstep_gil s tc : gil (cstep s tc) = gil s.
Proof. destruct tc as [t c]. step_cases s t c; split_ifs; simp_state; split_ifs; reflexivity. Qed.

(* [step] is the core step wrapped into the GIL bookkeeping; with the exits of
   _cffi_initialize_python as they are (both release the GIL: Gen.gen_init_exits) nobody ever
   keeps the GIL, and the two coincide *)
Lemma step_cases s tc : step s tc = s \/ step s tc = cstep s tc.
Proof.
  unfold step, step_gen, keeps_gil. change gen_switch_in_success with true. change gen_guard_released_before_lock with true. change gen_zero_on_null with true. change gen_fail_resets_org with true.
  change gen_init_exits with (true, true). cbn [fst snd negb].
  destruct (gil_blocked s (fst tc)); [left; reflexivity | right].
  fold cstep. destruct (fst tc <? nthr s); cbn [andb]; [|reflexivity].
  destruct (stacks s (fst tc)) as [| [l p] r]; [reflexivity|]. destruct p; reflexivity.
Qed.

Lemma step_cstep s tc : gil s = None -> step s tc = cstep s tc.
Proof.
  intros G. unfold step, step_gen, keeps_gil, gil_blocked. rewrite G. change gen_switch_in_success with true. change gen_guard_released_before_lock with true. change gen_zero_on_null with true. change gen_fail_resets_org with true.
  change gen_init_exits with (true, true). cbn [fst snd negb]. fold cstep.
  destruct (fst tc <? nthr s); cbn [andb]; [|reflexivity].
  destruct (stacks s (fst tc)) as [| [l p] r]; [reflexivity|]. destruct p; reflexivity.
Qed.

Lemma run_cstep n sched : run n sched = fold_left cstep sched (init n) /\ gil (run n sched) = None.
Proof.
  unfold run. generalize (init n) (eq_refl : gil (init n) = None).
  induction sched as [| tc sched IH]; intros s G; cbn [fold_left]; [auto|].
  rewrite (step_cstep s tc G). apply IH. rewrite cstep_gil. exact G.
Qed.

(* ------------------------------------------------------------------ A: shape of the stacks *)
Record InvA (s : state) : Prop := {
  a_idle : forall t, nthr s <= t -> stacks s t = [];
  a_mid : forall t, Forall (fun f => midpc (snd f) = true) (tl (stacks s t)) }.

Lemma stepA s tc : InvA s -> InvA (cstep s tc).
Proof.
  intros [I M]. destruct tc as [t c]. constructor.
  - intros t' L. rewrite step_nthr in L. destruct (Nat.eqb_spec t' t).
    + subst. ustep. assert (E : (t <? nthr s) = false) by (apply Nat.ltb_ge; exact L).
      rewrite E. cbn. apply I. exact L.
    + rewrite step_other by assumption. apply I. exact L.
  - intros t'. destruct (Nat.eqb_spec t' t); [subst | rewrite step_other by assumption; apply M].
    specialize (M t). ustep. cbv beta iota zeta.
    destruct (t <? nthr s) eqn:Ht; cbn [negb]; [|exact M].
    destruct (stacks s t) as [| [l p] rest] eqn:Hst.
    + destruct c; simp_state; rewrite ?updf_same, ?Hst; cbn [tl]; constructor.
    + cbn [tl] in M.
      assert (P : forall q, Forall (fun f => midpc (snd f) = true) (tl ((l, q) :: rest))) by (intros; exact M).
      assert (Q : Forall (fun f => midpc (snd f) = true) (tl rest)).
      { destruct rest; [constructor | inversion M; assumption]. }
      destruct p; split_ifs; simp_state; split_ifs; simp_state;
        rewrite ?updf_same, ?Hst; try apply P; try exact Q; cbn [tl];
        try (constructor; [reflexivity | exact M]).
Qed.

(* a frame below the top is waiting for a nested call: it holds neither the slot nor a CAS cell *)
Lemma mid_not_spin p : midpc p = true -> spinpc p = false /\ caspc p = false.
Proof. destruct p; cbn; intros; try discriminate; auto. Qed.

Definition top_is (f : pc -> bool) (st : list frame) : bool :=
  match st with (_, p) :: _ => f p | [] => false end.

Lemma rest_top s t l p rest f : InvA s -> stacks s t = (l, p) :: rest ->
  (forall q, midpc q = true -> f q = false) -> top_is f rest = false.
Proof.
  intros A H F. pose proof (a_mid s A t) as M. rewrite H in M. cbn [tl] in M.
  destruct rest as [| [l' q] r]; [reflexivity|]. inversion M; subst. cbn in *. auto.
Qed.

(* ------------------------------------------------------------------ B: the process-wide slot *)
Record InvB (s : state) : Prop := {
  b_top : forall t l p rest, stacks s t = (l, p) :: rest -> spinpc p = true -> spin s = Some t;
  b_holder : forall u, spin s = Some u -> top_is spinpc (stacks s u) = true;
  b_init : forall t l rest, stacks s t = (l, PGilInit) :: rest -> pyinit s = false;
  b_count : pycount s = if pyinit s then 1 else 0 }.

Lemma B_frame s s' t : InvB s ->
  spin s' = spin s -> pyinit s' = pyinit s -> pycount s' = pycount s ->
  (forall t', t' <> t -> stacks s' t' = stacks s t') ->
  top_is spinpc (stacks s t) = false -> top_is spinpc (stacks s' t) = false -> InvB s'.
Proof.
  intros [B1 B2 B3 B4] Es Ep Ec Eo Old New. constructor.
  - intros t' l p rest H Sp. rewrite Es. destruct (Nat.eqb_spec t' t).
    + subst. rewrite H in New. cbn in New. congruence.
    + rewrite Eo in H by assumption. eapply B1; eassumption.
  - intros u H. rewrite Es in H. pose proof (B2 u H) as T. destruct (Nat.eqb_spec u t).
    + subst. congruence.
    + rewrite Eo by assumption. exact T.
  - intros t' l rest H. rewrite Ep. destruct (Nat.eqb_spec t' t).
    + subst. rewrite H in New. cbn in New. discriminate.
    + rewrite Eo in H by assumption. eapply B3; eassumption.
  - rewrite Ec, Ep. exact B4.
Qed.

Ltac stk := rewrite ?updf_same; intros; rewrite ?updf_other by assumption; try reflexivity.

Lemma stepB s tc : InvA s -> InvB s -> InvB (cstep s tc).
Proof.
  intros A B. destruct tc as [t c]. ustep. cbv beta iota zeta.
  destruct (t <? nthr s) eqn:Ht; cbn [negb]; [|exact B].
  destruct (stacks s t) as [| [l p] rest] eqn:Hst.
  - destruct c; try exact B.
    apply (B_frame s _ t B); simp_state; stk; rewrite ?Hst; reflexivity.
  - assert (R : top_is spinpc rest = false)
      by (eapply (rest_top s t l p rest spinpc A Hst); intros q Q; apply mid_not_spin; exact Q).
    destruct B as [B1 B2 B3 B4].
    destruct p;
      try (split_ifs; try (constructor; assumption);
           apply (B_frame s _ t (Build_InvB s B1 B2 B3 B4)); simp_state; split_ifs; simp_state; stk;
           rewrite ?Hst; try reflexivity; try exact R; fail).
    + (* PSpin *)
      destruct (spin s) as [u|] eqn:Sp; [constructor; rewrite ?Sp; assumption|].
      simp_state. constructor; cbn [spin stacks pyinit pycount]; try assumption.
      * intros t' l' p' rest' H Q. destruct (Nat.eqb_spec t' t); [subst; reflexivity|].
        rewrite updf_other in H by assumption. pose proof (B1 _ _ _ _ H Q). congruence.
      * intros u H. inversion H; subst. rewrite updf_same. reflexivity.
      * intros t' l' rest' H. destruct (Nat.eqb_spec t' t).
        -- subst. rewrite updf_same in H. discriminate.
        -- rewrite updf_other in H by assumption. eapply B3; eassumption.
    + (* PGilTest *)
      pose proof (B1 t l PGilTest rest Hst eq_refl) as Sp.
      destruct (pyinit s) eqn:Py; simp_state; constructor; cbn [spin stacks pyinit pycount];
        try assumption; try (rewrite Py; assumption).
      all: try (intros t' l' p' rest' H Q; destruct (Nat.eqb_spec t' t); [subst; exact Sp|];
                rewrite updf_other in H by assumption; eapply B1; eassumption).
      all: try (intros u H; pose proof (B2 u H) as T; destruct (Nat.eqb_spec u t);
                [subst; rewrite updf_same; reflexivity | rewrite updf_other by assumption; exact T]).
      all: try (intros t' l' rest' H; destruct (Nat.eqb_spec t' t);
                [subst; rewrite updf_same in H; try discriminate; try exact Py
                | rewrite updf_other in H by assumption;
                  first [exact Py | rewrite Py; eapply B3; eassumption | eapply B3; eassumption]]).
      all: try (rewrite Py in B4; exact B4).
    + (* PGilInit *)
      pose proof (B1 t l PGilInit rest Hst eq_refl) as Sp.
      pose proof (B3 t l rest Hst) as Py.
      simp_state. constructor; cbn [spin stacks pyinit pycount].
      * intros t' l' p' rest' H Q. destruct (Nat.eqb_spec t' t); [subst; exact Sp|].
        rewrite updf_other in H by assumption. eapply B1; eassumption.
      * intros u H. pose proof (B2 u H) as T. destruct (Nat.eqb_spec u t);
          [subst; rewrite updf_same; reflexivity | rewrite updf_other by assumption; exact T].
      * intros t' l' rest' H. destruct (Nat.eqb_spec t' t).
        -- subst. rewrite updf_same in H. discriminate.
        -- rewrite updf_other in H by assumption.
           pose proof (B1 t' l' PGilInit rest' H eq_refl) as Sp'. congruence.
      * rewrite B4, Py. reflexivity.
    + (* PGilRelease *)
      pose proof (B1 t l PGilRelease rest Hst eq_refl) as Sp.
      simp_state. constructor; cbn [spin stacks pyinit pycount]; try assumption.
      * intros t' l' p' rest' H Q. destruct (Nat.eqb_spec t' t).
        -- subst. rewrite updf_same in H. inversion H; subst. discriminate.
        -- rewrite updf_other in H by assumption. pose proof (B1 _ _ _ _ H Q). congruence.
      * intros u H. discriminate.
      * intros t' l' rest' H. destruct (Nat.eqb_spec t' t).
        -- subst. rewrite updf_same in H. discriminate.
        -- rewrite updf_other in H by assumption. eapply B3; eassumption.
Qed.
