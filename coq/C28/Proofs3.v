(* C28 — proofs, part 3: the per-library initialization state. *)
From Coq Require Import Arith List Bool Lia.
Import ListNotations.
From Cffi Require Import C28.Gen C28.Model C28.Proofs C28.Proofs2.

Definition is_init (l : nat) (f : frame) : bool := initpc (snd f) && Nat.eqb (fst f) l.
Definition ninit (l : nat) (st : list frame) : nat := length (filter (is_init l) st).
Definition is_start (p : pc) : bool := match p with PInitStart => true | _ => false end.
Definition has_start (l : nat) (st : list frame) : bool :=
  existsb (fun f => is_start (snd f) && Nat.eqb (fst f) l) st.
Definition special (p : pc) : bool := match p with PMark | PRel | PRet => true | _ => false end.
Definition special_top (st : list frame) : option frame :=
  match st with (l, q) :: _ => if special q then Some (l, q) else None | [] => None end.

Definition lib_ok (s : state) (l : nat) : Prop :=
  let L := libs s l in
  match ist L with
  | NotStarted => called L = false /\ icount L = 0 /\ org L = false /\ switched L = false
  | Running t0 => called L = true /\ switched L = false /\ ninit l (stacks s t0) = 1 /\
                  (if has_start l (stacks s t0) then icount L = 0 /\ org L = false
                   else icount L = 1 /\ org L = true)
  | DoneOk => called L = true /\ org L = true /\ switched L = true /\ icount L = 1
  | DoneFail => called L = true /\ org L = false /\ switched L = false /\ icount L = 1
  end.

Record InvE (s : state) : Prop := {
  e_run : forall t l p, In (l, p) (stacks s t) -> initpc p = true -> ist (libs s l) = Running t;
  e_one : forall t l, ninit l (stacks s t) <= 1;
  e_lib : forall l, lib_ok s l;
  e_mark : forall t l rest, stacks s t = (l, PMark) :: rest -> called (libs s l) = false;
  e_rel : forall t l rest, stacks s t = (l, PRel) :: rest -> called (libs s l) = true;
  e_ret : forall t l rest, stacks s t = (l, PRet) :: rest ->
            called (libs s l) = true /\ forall t0, ist (libs s l) = Running t0 -> t0 = t;
  e_bad : bad s = false }.

Definition lib_same (x y : libstate) : Prop :=
  called x = called y /\ org x = org y /\ switched x = switched y /\ ist x = ist y /\ icount x = icount y.

Definition top_ok (s : state) (t l : nat) (q : pc) : Prop :=
  match q with
  | PMark => called (libs s l) = false
  | PRel => called (libs s l) = true
  | PRet => called (libs s l) = true /\ forall t0, ist (libs s l) = Running t0 -> t0 = t
  | _ => True
  end.

(* a step of thread t that leaves the initialization fields of every library unchanged *)
Lemma E_frame_gen s s' t : InvE s ->
  (forall l, lib_same (libs s' l) (libs s l)) -> bad s' = bad s ->
  (forall t', t' <> t -> stacks s' t' = stacks s t') ->
  (forall l p, initpc p = true -> In (l, p) (stacks s' t) -> ist (libs s l) = Running t) ->
  (forall l, ninit l (stacks s' t) = ninit l (stacks s t)) ->
  (forall l, has_start l (stacks s' t) = has_start l (stacks s t)) ->
  (forall l q rest, stacks s' t = (l, q) :: rest -> special q = true ->
     (exists r0, stacks s t = (l, q) :: r0) \/ top_ok s t l q) ->
  InvE s'.
Proof.
  intros [E1 E2 E3 E4 E5 E6 E7] El Eb Eo Ein En Eh Et.
  assert (ST : forall t' l q rest, stacks s' t' = (l, q) :: rest -> special q = true -> top_ok s t' l q).
  { intros t' l q rest H Sq. destruct (Nat.eqb_spec t' t).
    - subst. destruct (Et l q rest H Sq) as [(r0 & H0) | T]; [|exact T].
      destruct q; try discriminate; cbn; eauto.
    - rewrite Eo in H by assumption. destruct q; try discriminate; cbn; eauto. }
  constructor.
  - intros t' l p H Ip. destruct (El l) as (_ & _ & _ & Ei & _). rewrite Ei.
    destruct (Nat.eqb_spec t' t); [subst; apply Ein with p; auto | rewrite Eo in H by assumption; eapply E1; eassumption].
  - intros t' l. destruct (Nat.eqb_spec t' t); [subst; rewrite En | rewrite Eo by assumption]; apply E2.
  - intros l. specialize (E3 l). unfold lib_ok in *. destruct (El l) as (Ec & Eg & Es & Ei & En').
    cbv zeta in *. rewrite Ec, Eg, Es, Ei, En'. destruct (ist (libs s l)) as [| t0 | |]; try exact E3.
    destruct (Nat.eqb_spec t0 t); [subst; rewrite En, Eh | rewrite Eo by assumption]; exact E3.
  - intros t' l rest H. pose proof (ST t' l PMark rest H eq_refl) as T. cbn in T.
    destruct (El l) as (Ec & _). rewrite Ec. exact T.
  - intros t' l rest H. pose proof (ST t' l PRel rest H eq_refl) as T. cbn in T.
    destruct (El l) as (Ec & _). rewrite Ec. exact T.
  - intros t' l rest H. pose proof (ST t' l PRet rest H eq_refl) as T. cbn in T.
    destruct (El l) as (Ec & _ & _ & Ei & _). rewrite Ec, Ei. exact T.
  - rewrite Eb. exact E7.
Qed.

Lemma E_frame s s' t : InvE s ->
  (forall l, lib_same (libs s' l) (libs s l)) -> bad s' = bad s ->
  (forall t', t' <> t -> stacks s' t' = stacks s t') ->
  (forall l p, initpc p = true -> In (l, p) (stacks s' t) -> In (l, p) (stacks s t)) ->
  (forall l, ninit l (stacks s' t) = ninit l (stacks s t)) ->
  (forall l, has_start l (stacks s' t) = has_start l (stacks s t)) ->
  (special_top (stacks s' t) = None \/ special_top (stacks s' t) = special_top (stacks s t)) ->
  InvE s'.
Proof.
  intros E El Eb Eo Ein En Eh Et. apply (E_frame_gen s s' t E El Eb Eo); try assumption.
  - intros l p Ip H. eapply (e_run s E); [apply Ein; eassumption | exact Ip].
  - intros l q rest H Sq. left. unfold special_top in Et. rewrite H, Sq in Et.
    destruct Et as [Et | Et]; [discriminate|].
    destruct (stacks s t) as [| [l0 q0] r0]; [discriminate|]. destruct (special q0); inversion Et; subst. eauto.
Qed.

Lemma mid_not_special p : midpc p = true -> special p = false.
Proof. destruct p; cbn; intros; try discriminate; reflexivity. Qed.

Lemma rest_special s t l p rest : InvA s -> stacks s t = (l, p) :: rest -> special_top rest = None.
Proof.
  intros A H. pose proof (a_mid s A t) as M. rewrite H in M. cbn [tl] in M.
  destruct rest as [| [l' q] r]; [reflexivity|]. inversion M; subst. cbn in *.
  rewrite (mid_not_special q H2). reflexivity.
Qed.

Lemma lib_same_refl x : lib_same x x.
Proof. unfold lib_same. auto. Qed.

Ltac libsame :=
  intros; unfold updf;
  match goal with
  | |- context [Nat.eqb ?a ?b] => destruct (Nat.eqb_spec a b); subst; unfold lib_same; cbn; auto
  | _ => apply lib_same_refl
  end.

Ltac in_init :=
  let H := fresh in let I := fresh in
  intros ? ? I H; cbn [In] in *;
  repeat match goal with
         | X : _ \/ _ |- _ => destruct X
         end;
  try (match goal with X : (_, _) = (_, _) |- _ => inversion X; subst; cbn in I; discriminate end);
  auto.

Lemma stepE_generic s t c l p rest :
  InvA s -> InvE s -> (t <? nthr s) = true -> stacks s t = (l, p) :: rest ->
  match p with
  | PSpin | PGilTest | PGilInit | PGilRelease | PCas1 | PMTest | PMInit | PCas2 | PLock | PInPy => True
  | _ => False
  end -> InvE (cstep s (t, c)).
Proof.
  intros A E Ht Hst P. ustep. cbv beta iota zeta. rewrite Ht, Hst. cbn [negb].
  pose proof (rest_special s t l p rest A Hst) as RS.
  destruct p; try contradiction; split_ifs; try exact E;
    (apply (E_frame s _ t E); simp_state;
    [ libsame | reflexivity
    | intros t' N; rewrite updf_other by exact N; reflexivity
    | rewrite updf_same, ?Hst; in_init
    | intros ?; rewrite updf_same, ?Hst; reflexivity
    | intros ?; rewrite updf_same, ?Hst; reflexivity
    | rewrite updf_same; first [left; reflexivity | left; exact RS] ]).
Qed.

(* ---- helpers on stacks *)
Lemma ninit_cons l f st : ninit l (f :: st) = (if is_init l f then 1 else 0) + ninit l st.
Proof. unfold ninit. cbn [filter]. destruct (is_init l f); reflexivity. Qed.

Lemma ninit_pos_In l st : 0 < ninit l st -> exists p, In (l, p) st /\ initpc p = true.
Proof.
  induction st as [| [l0 q] st IH]; [cbn; lia|]. rewrite ninit_cons. unfold is_init at 1. cbn [fst snd].
  destruct (initpc q) eqn:Iq; cbn [andb].
  - destruct (Nat.eqb_spec l0 l).
    + subst. intros _. exists q. split; [left; reflexivity | exact Iq].
    + intros H. destruct (IH H) as (p & I & Ip). exists p. split; [right|]; assumption.
  - intros H. destruct (IH H) as (p & I & Ip). exists p. split; [right|]; assumption.
Qed.

Lemma In_ninit_pos l p st : In (l, p) st -> initpc p = true -> 0 < ninit l st.
Proof.
  induction st as [| [l0 q] st IH]; [intros []|]. rewrite ninit_cons. intros [E | I] Ip.
  - inversion E; subst. unfold is_init. cbn. rewrite Ip, Nat.eqb_refl. cbn. lia.
  - specialize (IH I Ip). lia.
Qed.

Lemma init_holding p : initpc p = true -> holding p = true.
Proof. destruct p; cbn; intros; try discriminate; reflexivity. Qed.

Lemma In_holds l p st : In (l, p) st -> holding p = true -> holds_lib l st = true.
Proof.
  intros I H. unfold holds_lib. apply existsb_exists. exists (l, p). split; [exact I|].
  cbn. rewrite Nat.eqb_refl, H. reflexivity.
Qed.

Lemma no_init_frames s t l : InvE s -> (forall t0, ist (libs s l) <> Running t0) \/ ist (libs s l) <> Running t ->
  ninit l (stacks s t) = 0.
Proof.
  intros E H. destruct (ninit l (stacks s t)) eqn:N; [reflexivity|].
  destruct (ninit_pos_In l (stacks s t) ltac:(lia)) as (p & I & Ip).
  pose proof (e_run s E t l p I Ip) as R. destruct H as [H | H]; [exfalso; eapply H; eassumption | contradiction].
Qed.

Lemma has_start_false l st : ninit l st = 0 -> has_start l st = false.
Proof.
  induction st as [| [l0 q] st IH]; [reflexivity|]. rewrite ninit_cons. unfold is_init at 1, has_start. cbn [fst snd existsb].
  destruct q; cbn [initpc is_start andb]; try (intros H; apply IH; exact H);
    destruct (Nat.eqb_spec l0 l); cbn; intros H; try lia; apply IH; exact H.
Qed.

(* ---- the remaining transitions *)
Lemma stepE_idle s t l' : InvE s -> stacks s t = [] -> InvE (set_stack s t [(l', PCall)]).
Proof.
  intros E Hst. apply (E_frame s _ t E); simp_state;
    [ libsame | reflexivity | intros t' N; rewrite updf_other by exact N; reflexivity
    | rewrite updf_same, Hst; in_init
    | intros ?; rewrite updf_same, Hst; reflexivity
    | intros ?; rewrite updf_same, Hst; reflexivity
    | rewrite updf_same; left; reflexivity ].
Qed.

(* replace the top frame (l, p) by (l, q), neither of them an initialization frame *)
Lemma stepE_replace s t l p q rest : InvE s -> stacks s t = (l, p) :: rest ->
  initpc p = false -> initpc q = false ->
  (special q = true -> top_ok s t l q) ->
  InvE (set_stack s t ((l, q) :: rest)).
Proof.
  intros E Hst Ip Iq T. apply (E_frame_gen s _ t E); simp_state.
  - libsame.
  - reflexivity.
  - intros t' N. rewrite updf_other by exact N. reflexivity.
  - rewrite updf_same. intros l0 p0 I0 [H | H].
    + inversion H; subst. congruence.
    + eapply (e_run s E); [rewrite Hst; right; exact H | exact I0].
  - intros l0. rewrite updf_same, Hst, !ninit_cons. unfold is_init. cbn [snd]. rewrite Ip, Iq. reflexivity.
  - intros l0. rewrite updf_same, Hst. unfold has_start. cbn [existsb snd].
    assert (Sp : is_start p = false) by (destruct p; try reflexivity; discriminate).
    assert (Sq : is_start q = false) by (destruct q; try reflexivity; discriminate).
    rewrite Sp, Sq. reflexivity.
  - rewrite updf_same. intros l0 q0 r0 H Sq. inversion H; subst. right. apply T. exact Sq.
Qed.

Lemma stepE_push s t l p rest l' : InvE s -> stacks s t = (l, p) :: rest ->
  InvE (set_stack s t ((l', PCall) :: (l, p) :: rest)).
Proof.
  intros E Hst. apply (E_frame s _ t E); simp_state;
    [ libsame | reflexivity | intros t' N; rewrite updf_other by exact N; reflexivity
    | rewrite updf_same, Hst; in_init
    | intros ?; rewrite updf_same, Hst; reflexivity
    | intros ?; rewrite updf_same, Hst; reflexivity
    | rewrite updf_same; left; reflexivity ].
Qed.

Lemma stepE_pop s t l p rest : InvA s -> InvE s -> stacks s t = (l, p) :: rest -> initpc p = false ->
  InvE (set_stack s t rest) /\ InvE (set_stack (add_zero s l) t rest).
Proof.
  intros A E Hst Ip. pose proof (rest_special s t l p rest A Hst) as RS.
  split; (apply (E_frame s _ t E); simp_state;
    [ libsame | reflexivity
    | intros t' N; rewrite updf_other by exact N; reflexivity
    | rewrite updf_same, Hst; intros l0 p0 I0 H; right; exact H
    | intros l0; rewrite updf_same, Hst, ninit_cons; unfold is_init; cbn [snd]; rewrite Ip; reflexivity
    | intros l0; rewrite updf_same, Hst; unfold has_start; cbn [existsb snd];
      destruct p; try discriminate; reflexivity
    | rewrite updf_same; left; exact RS ]).
Qed.

(* the user's init code finishes: PInitRun -> PInitOk / PInitFail *)
Lemma stepE_finish s t l rest q : InvE s -> stacks s t = (l, PInitRun) :: rest ->
  q = PInitOk \/ q = PInitFail -> InvE (set_stack s t ((l, q) :: rest)).
Proof.
  intros E Hst Q. apply (E_frame_gen s _ t E); simp_state.
  - libsame.
  - reflexivity.
  - intros t' N. rewrite updf_other by exact N. reflexivity.
  - rewrite updf_same. intros l0 p0 I0 [H | H].
    + inversion H; subst. eapply (e_run s E t l0 PInitRun); [rewrite Hst; left; reflexivity | reflexivity].
    + eapply (e_run s E); [rewrite Hst; right; exact H | exact I0].
  - intros l0. rewrite updf_same, Hst, !ninit_cons. destruct Q; subst; reflexivity.
  - intros l0. rewrite updf_same, Hst. destruct Q; subst; reflexivity.
  - rewrite updf_same. intros l0 q0 r0 H Sq. inversion H; subst. destruct Q; subst; discriminate.
Qed.

Lemma lib_ok_other s s' l : libs s' l = libs s l ->
  (forall t, stacks s' t = stacks s t \/ (ninit l (stacks s' t) = ninit l (stacks s t) /\
                                          has_start l (stacks s' t) = has_start l (stacks s t))) ->
  lib_ok s l -> lib_ok s' l.
Proof.
  intros El Es. unfold lib_ok. cbv zeta. rewrite El. destruct (ist (libs s l)) as [| t0 | |]; auto.
  destruct (Es t0) as [-> | (-> & ->)]; auto.
Qed.

(* called = 1 : PMark -> PInitStart *)
Lemma stepE_mark s t l rest : InvA s -> InvD s -> InvE s -> stacks s t = (l, PMark) :: rest ->
  InvE (set_stack (set_lib s l (lcalled (libs s l) t)) t ((l, PInitStart) :: rest)).
Proof.
  intros A D E Hst. pose proof (e_mark s E t l rest Hst) as Cf.
  pose proof (e_lib s E l) as Lk. unfold lib_ok in Lk. cbv zeta in Lk.
  destruct (ist (libs s l)) as [| t0 | |] eqn:Is; try (destruct Lk as (C & _); congruence).
  destruct Lk as (_ & Ic & Og & Sw).
  assert (NI : forall t', ninit l (stacks s t') = 0).
  { intros t'. apply (no_init_frames s t' l E). left. intros t0. rewrite Is. discriminate. }
  assert (NR : ninit l rest = 0).
  { pose proof (NI t) as N. rewrite Hst, ninit_cons in N. unfold is_init in N. cbn in N. exact N. }
  simp_state. constructor; cbn [stacks libs bad].
  - intros t' l0 p H Ip. unfold updf at 1. destruct (Nat.eqb_spec l0 l).
    + subst. cbn. destruct (Nat.eqb_spec t' t); [subst; reflexivity|].
      rewrite updf_other in H by assumption. exfalso.
      pose proof (In_ninit_pos l p _ H Ip). rewrite NI in H0. lia.
    + destruct (Nat.eqb_spec t' t).
      * subst. rewrite updf_same in H. destruct H as [H | H]; [inversion H; subst; contradiction|].
        eapply (e_run s E); [rewrite Hst; right; exact H | exact Ip].
      * rewrite updf_other in H by assumption. eapply (e_run s E); eassumption.
  - intros t' l0. destruct (Nat.eqb_spec t' t).
    + subst. rewrite updf_same, ninit_cons. unfold is_init. cbn [fst snd initpc andb].
      destruct (Nat.eqb_spec l l0).
      * subst. rewrite NR. lia.
      * pose proof (e_one s E t l0) as O. rewrite Hst, ninit_cons in O. unfold is_init in O. cbn in O. exact O.
    + rewrite updf_other by assumption. apply (e_one s E).
  - intros l0. destruct (Nat.eqb_spec l0 l).
    + subst. unfold lib_ok. cbv zeta. cbn [libs stacks]. rewrite updf_same. cbn [ist lcalled called switched icount org].
      rewrite updf_same. rewrite ninit_cons. unfold is_init, has_start. cbn. rewrite Nat.eqb_refl. cbn.
      rewrite NR. repeat split; auto.
    + apply (lib_ok_other s); [cbn; apply updf_other; assumption | | apply (e_lib s E)].
      intros t'. cbn [stacks]. destruct (Nat.eqb_spec t' t); [subst; right | left; apply updf_other; assumption].
      rewrite updf_same, Hst, !ninit_cons. unfold is_init, has_start. cbn.
      destruct (Nat.eqb_spec l l0); [subst; contradiction | split; reflexivity].
  - intros t' l0 r0 H. destruct (Nat.eqb_spec t' t); [subst; rewrite updf_same in H; discriminate|].
    rewrite updf_other in H by assumption. unfold updf. destruct (Nat.eqb_spec l0 l).
    + subst. exfalso. apply n. apply (D t' t l).
      * rewrite H. cbn. rewrite Nat.eqb_refl. reflexivity.
      * rewrite Hst. cbn. rewrite Nat.eqb_refl. reflexivity.
    + eapply (e_mark s E); eassumption.
  - intros t' l0 r0 H. destruct (Nat.eqb_spec t' t); [subst; rewrite updf_same in H; discriminate|].
    rewrite updf_other in H by assumption. unfold updf. destruct (Nat.eqb_spec l0 l); [subst; reflexivity|].
    eapply (e_rel s E); eassumption.
  - intros t' l0 r0 H. destruct (Nat.eqb_spec t' t); [subst; rewrite updf_same in H; discriminate|].
    rewrite updf_other in H by assumption. unfold updf. destruct (Nat.eqb_spec l0 l).
    + subst. destruct (e_ret s E t' l r0 H) as (C & _). congruence.
    + eapply (e_ret s E); eassumption.
  - apply (e_bad s E).
Qed.

Lemma running_facts s t l p rest : InvE s -> stacks s t = (l, p) :: rest -> initpc p = true ->
  ist (libs s l) = Running t /\ called (libs s l) = true /\ switched (libs s l) = false /\
  ninit l rest = 0 /\
  (if is_start p then icount (libs s l) = 0 /\ org (libs s l) = false
   else icount (libs s l) = 1 /\ org (libs s l) = true).
Proof.
  intros E Hst Ip.
  assert (R : ist (libs s l) = Running t) by (eapply (e_run s E t l p); [rewrite Hst; left; reflexivity | exact Ip]).
  pose proof (e_lib s E l) as Lk. unfold lib_ok in Lk. cbv zeta in Lk. rewrite R in Lk.
  destruct Lk as (C & Sw & N & HS). rewrite Hst, ninit_cons in N. unfold is_init in N. cbn [fst snd] in N.
  rewrite Ip, Nat.eqb_refl in N. cbn in N.
  assert (NR : ninit l rest = 0) by lia.
  repeat split; auto. rewrite Hst in HS. unfold has_start in HS. cbn [existsb fst snd] in HS.
  rewrite Nat.eqb_refl, andb_true_r in HS. fold (has_start l rest) in HS.
  rewrite (has_start_false l rest NR), orb_false_r in HS. exact HS.
Qed.

(* the module init function fills _cffi_exports: PInitStart -> PInitRun *)
Lemma stepE_start s t l rest : InvE s -> stacks s t = (l, PInitStart) :: rest ->
  InvE (set_stack (set_lib s l (lstart (libs s l))) t ((l, PInitRun) :: rest)).
Proof.
  intros E Hst. destruct (running_facts s t l PInitStart rest E Hst eq_refl) as (R & C & Sw & NR & Ic & Og).
  simp_state. constructor; cbn [stacks libs bad].
  - intros t' l0 p H Ip.
    assert (I0 : ist (updf (libs s) l (lstart (libs s l)) l0) = ist (libs s l0))
      by (unfold updf; destruct (Nat.eqb_spec l0 l); [subst; reflexivity | reflexivity]).
    rewrite I0. destruct (Nat.eqb_spec t' t).
    + subst. rewrite updf_same in H. destruct H as [H | H].
      * inversion H; subst. exact R.
      * eapply (e_run s E); [rewrite Hst; right; exact H | exact Ip].
    + rewrite updf_other in H by assumption. eapply (e_run s E); eassumption.
  - intros t' l0. destruct (Nat.eqb_spec t' t); [subst | rewrite updf_other by assumption; apply (e_one s E)].
    rewrite updf_same. pose proof (e_one s E t l0) as O. rewrite Hst in O. rewrite ninit_cons in *. exact O.
  - intros l0. destruct (Nat.eqb_spec l0 l).
    + subst. unfold lib_ok. cbv zeta. cbn [libs stacks]. rewrite updf_same. cbn [ist lstart called switched icount org].
      rewrite R, updf_same, ninit_cons. unfold is_init, has_start. cbn [existsb fst snd initpc is_start andb orb].
      rewrite Nat.eqb_refl. fold (has_start l rest). rewrite (has_start_false l rest NR), NR. cbn. rewrite Ic. auto.
    + apply (lib_ok_other s); [cbn; apply updf_other; assumption | | apply (e_lib s E)].
      intros t'. cbn [stacks]. destruct (Nat.eqb_spec t' t); [subst; right | left; apply updf_other; assumption].
      rewrite updf_same, Hst, !ninit_cons. unfold is_init, has_start. cbn.
      destruct (Nat.eqb_spec l l0); [subst; contradiction | split; reflexivity].
  - intros t' l0 r0 H. destruct (Nat.eqb_spec t' t); [subst; rewrite updf_same in H; discriminate|].
    rewrite updf_other in H by assumption. unfold updf.
    destruct (Nat.eqb_spec l0 l); [subst; cbn|]; eapply (e_mark s E); eassumption.
  - intros t' l0 r0 H. destruct (Nat.eqb_spec t' t); [subst; rewrite updf_same in H; discriminate|].
    rewrite updf_other in H by assumption. unfold updf.
    destruct (Nat.eqb_spec l0 l); [subst; cbn|]; eapply (e_rel s E); eassumption.
  - intros t' l0 r0 H. destruct (Nat.eqb_spec t' t); [subst; rewrite updf_same in H; discriminate|].
    rewrite updf_other in H by assumption. unfold updf.
    destruct (Nat.eqb_spec l0 l); [subst; cbn|]; eapply (e_ret s E); eassumption.
  - apply (e_bad s E).
Qed.

(* initialization ends: PInitOk / PInitFail -> PRel *)
Lemma stepE_done s t l rest (ok : bool) : InvE s ->
  stacks s t = (l, if ok then PInitOk else PInitFail) :: rest ->
  InvE (set_stack (set_lib s l (if ok then lok (libs s l) else lfail (libs s l))) t ((l, PRel) :: rest)).
Proof.
  intros E Hst.
  assert (Ip : initpc (if ok then PInitOk else PInitFail) = true) by (destruct ok; reflexivity).
  destruct (running_facts s t l _ rest E Hst Ip) as (R & C & Sw & NR & HS).
  assert (HS' : icount (libs s l) = 1 /\ org (libs s l) = true) by (destruct ok; exact HS).
  destruct HS' as (Ic & Og).
  set (L' := if ok then lok (libs s l) else lfail (libs s l)).
  assert (Cl : called L' = true) by (unfold L'; destruct ok; exact C).
  assert (Il : forall t0, ist L' <> Running t0) by (unfold L'; destruct ok; cbn; discriminate).
  simp_state. constructor; cbn [stacks libs bad].
  - intros t' l0 p H Ip0. unfold updf at 1. destruct (Nat.eqb_spec l0 l).
    + subst. exfalso. destruct (Nat.eqb_spec t' t).
      * subst. rewrite updf_same in H. destruct H as [H | H]; [inversion H; subst; discriminate|].
        pose proof (In_ninit_pos l p rest H Ip0). lia.
      * rewrite updf_other in H by assumption. pose proof (e_run s E t' l p H Ip0). congruence.
    + destruct (Nat.eqb_spec t' t).
      * subst. rewrite updf_same in H. destruct H as [H | H]; [inversion H; subst; contradiction|].
        eapply (e_run s E); [rewrite Hst; right; exact H | exact Ip0].
      * rewrite updf_other in H by assumption. eapply (e_run s E); eassumption.
  - intros t' l0. destruct (Nat.eqb_spec t' t); [subst | rewrite updf_other by assumption; apply (e_one s E)].
    rewrite updf_same. pose proof (e_one s E t l0) as O. rewrite Hst in O. rewrite ninit_cons in *.
    unfold is_init at 1. cbn [snd initpc andb]. lia.
  - intros l0. destruct (Nat.eqb_spec l0 l).
    + subst. unfold lib_ok. cbv zeta. cbn [libs]. rewrite updf_same. unfold L'. destruct ok; cbn; auto.
    + apply (lib_ok_other s); [cbn; apply updf_other; assumption | | apply (e_lib s E)].
      intros t'. cbn [stacks]. destruct (Nat.eqb_spec t' t); [subst; right | left; apply updf_other; assumption].
      rewrite updf_same, Hst, !ninit_cons. unfold is_init, has_start. cbn [existsb fst snd].
      destruct (Nat.eqb_spec l l0); [subst; contradiction|]. rewrite !andb_false_r. split; reflexivity.
  - intros t' l0 r0 H. destruct (Nat.eqb_spec t' t); [subst; rewrite updf_same in H; discriminate|].
    rewrite updf_other in H by assumption. unfold updf. destruct (Nat.eqb_spec l0 l).
    + subst. pose proof (e_mark s E t' l r0 H). congruence.
    + eapply (e_mark s E); eassumption.
  - intros t' l0 r0 H. unfold updf at 1. destruct (Nat.eqb_spec l0 l); [subst; exact Cl|].
    destruct (Nat.eqb_spec t' t).
    + subst. rewrite updf_same in H. inversion H; subst. contradiction.
    + rewrite updf_other in H by assumption. eapply (e_rel s E); eassumption.
  - intros t' l0 r0 H. destruct (Nat.eqb_spec t' t); [subst; rewrite updf_same in H; discriminate|].
    rewrite updf_other in H by assumption. unfold updf. destruct (Nat.eqb_spec l0 l).
    + subst. split; [exact Cl | intros t0 X; exfalso; eapply Il; exact X].
    + eapply (e_ret s E); eassumption.
  - apply (e_bad s E).
Qed.

(* ------------------------------------------------------------------ every step *)
Lemma ist_allows_ret s t l rest : InvE s -> stacks s t = (l, PRet) :: rest -> org (libs s l) = true ->
  ist_allows (ist (libs s l)) t = true.
Proof.
  intros E Hst Og. destruct (e_ret s E t l rest Hst) as (_ & R).
  pose proof (e_lib s E l) as Lk. unfold lib_ok in Lk. cbv zeta in Lk.
  destruct (ist (libs s l)) as [| t0 | |]; cbn.
  - destruct Lk as (_ & _ & O & _). congruence.
  - rewrite (R t0 eq_refl). apply Nat.eqb_refl.
  - reflexivity.
  - destruct Lk as (_ & O & _). congruence.
Qed.

Lemma ist_allows_fast s t l : InvE s -> switched (libs s l) = true -> ist_allows (ist (libs s l)) t = true.
Proof.
  intros E Sw. pose proof (e_lib s E l) as Lk. unfold lib_ok in Lk. cbv zeta in Lk.
  destruct (ist (libs s l)) as [| t0 | |]; cbn; try reflexivity; exfalso.
  - destruct Lk as (_ & _ & _ & S). congruence.
  - destruct Lk as (_ & S & _). congruence.
  - destruct Lk as (_ & _ & S & _). congruence.
Qed.

Lemma stepE s tc : InvA s -> InvD s -> InvE s -> InvE (cstep s tc).
Proof.
  intros A D E. destruct tc as [t c].
  destruct (t <? nthr s) eqn:Ht; [|ustep; rewrite Ht; exact E].
  destruct (stacks s t) as [| [l p] rest] eqn:Hst.
  { ustep. rewrite Ht, Hst. cbn [negb]. destruct c; try exact E. apply stepE_idle; assumption. }
  destruct p; try (apply (stepE_generic s t c l _ rest A E Ht Hst); exact I);
    ustep; cbv beta iota zeta; rewrite Ht, Hst; cbn [negb].
  - (* PCall *)
    destruct (switched (libs s l)) eqn:Sw.
    + unfold enter_py. rewrite (ist_allows_fast s t l E Sw).
      apply (stepE_replace s t l PCall PInPy rest E Hst); auto; discriminate.
    + apply (stepE_replace s t l PCall PSpin rest E Hst); auto; discriminate.
  - (* PChk *)
    destruct (called (libs s l)) eqn:Cl.
    + apply (stepE_replace s t l PChk PRel rest E Hst); auto.
    + apply (stepE_replace s t l PChk PMark rest E Hst); auto.
  - (* PMark *) apply stepE_mark; assumption.
  - (* PInitStart *) apply stepE_start; assumption.
  - (* PInitRun *)
    destruct c.
    + apply stepE_push; assumption.
    + apply stepE_finish; auto.
    + apply stepE_finish; auto.
  - (* PInitOk *) apply (stepE_done s t l rest true E Hst).
  - (* PInitFail *) apply (stepE_done s t l rest false E Hst).
  - (* PRel *)
    apply (stepE_replace s t l PRel PRet rest E Hst); auto. intros _. cbn. split.
    + eapply (e_rel s E); eassumption.
    + intros t0 R. pose proof (e_lib s E l) as Lk. unfold lib_ok in Lk. cbv zeta in Lk. rewrite R in Lk.
      destruct Lk as (_ & _ & N & _).
      destruct (ninit_pos_In l (stacks s t0) ltac:(lia)) as (p & I0 & Ip).
      apply (D t0 t l).
      * eapply In_holds; [exact I0 | apply init_holding; exact Ip].
      * rewrite Hst. cbn. rewrite Nat.eqb_refl. reflexivity.
  - (* PRet *)
    destruct (org (libs s l)) eqn:Og.
    + unfold enter_py. rewrite (ist_allows_ret s t l rest E Hst Og).
      apply (stepE_replace s t l PRet PInPy rest E Hst); auto; discriminate.
    + apply (stepE_pop s t l PRet rest A E Hst eq_refl).
Qed.

(* ------------------------------------------------------------------ the whole invariant *)
Record Inv (s : state) : Prop := {
  iA : InvA s; iB : InvB s; iC : InvC s; iD : InvD s; iE : InvE s }.

Lemma init_inv n : Inv (init n).
Proof.
  constructor.
  - constructor; cbn; intros; [reflexivity | constructor].
  - constructor; cbn; intros; try discriminate; reflexivity.
  - constructor; cbn; intros; try discriminate; reflexivity.
  - intros t1 t2 l H. cbn in H. discriminate.
  - constructor; cbn; intros; try discriminate; try contradiction; try lia; try reflexivity;
      try (unfold lib_ok; cbn; auto).
Qed.

Lemma step_inv s tc : Inv s -> Inv (cstep s tc).
Proof.
  intros [A B C D E]. constructor.
  - apply stepA; assumption.
  - apply stepB; assumption.
  - apply stepC; assumption.
  - apply stepD; assumption.
  - apply stepE; assumption.
Qed.

Lemma run_inv_from sched : forall s, Inv s -> Inv (fold_left cstep sched s).
Proof. induction sched as [| tc sched IH]; intros s H; cbn; [exact H | apply IH, step_inv, H]. Qed.

Theorem run_inv n sched : Inv (run n sched).
Proof. rewrite (proj1 (run_cstep n sched)). apply run_inv_from, init_inv. Qed.
