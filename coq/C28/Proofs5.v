(* C28 — proofs, part 5: an actual bound.  [weight s] = the sum, over the threads and over the
   frames of their stacks, of [rank] of the frame's program point.  A step that does not start a
   nested call (choice COk / CFail) either leaves the WHOLE state unchanged (stutter) or strictly
   decreases the weight; a run segment without CCall therefore has at most [weight s] effective
   steps, and [weight s <= 18 * total_frames s].  With libraries that do not call into each
   other (in particular: one library) every round in which each thread is scheduled at least once
   contains an effective step as long as some call is in progress (no deadlock), so after
   [weight s] such rounds every call has returned. *)
From Coq Require Import Arith List Bool Lia.
Import ListNotations.
From Cffi Require Import C28.Gen C28.Model C28.Proofs C28.Proofs2 C28.Proofs3 C28.Proofs4.

(* ------------------------------------------------------------------ sums over the threads *)
Definition sumf (g : nat -> nat) (n : nat) : nat := list_sum (map g (seq 0 n)).

Lemma sumf_S g n : sumf g (S n) = sumf g n + g n.
Proof. unfold sumf. rewrite seq_S, map_app, list_sum_app. cbn. lia. Qed.

Lemma sumf_le g g' n : (forall u, u < n -> g' u <= g u) -> sumf g' n <= sumf g n.
Proof.
  induction n as [| n IH]; intros H; [reflexivity|]. rewrite !sumf_S.
  assert (sumf g' n <= sumf g n) by (apply IH; intros; apply H; lia).
  pose proof (H n ltac:(lia)). lia.
Qed.

Lemma sumf_lt g g' n t : t < n -> g' t < g t -> (forall u, u <> t -> g' u = g u) ->
  sumf g' n < sumf g n.
Proof.
  induction n as [| n IH]; intros L Lt Eq; [lia|]. rewrite !sumf_S.
  destruct (Nat.eq_dec t n) as [-> | N].
  - assert (sumf g' n <= sumf g n) by (apply sumf_le; intros u Hu; rewrite Eq by lia; lia). lia.
  - assert (sumf g' n < sumf g n) by (apply IH; [lia | assumption | assumption]).
    rewrite (Eq n) by auto. lia.
Qed.

Lemma sumf_zero g n : sumf g n = 0 -> forall u, u < n -> g u = 0.
Proof.
  induction n as [| n IH]; intros H u L; [lia|]. rewrite sumf_S in H.
  destruct (Nat.eq_dec u n) as [-> | N]; [lia | apply IH; lia].
Qed.

Lemma sumf_pos g n : 0 < sumf g n -> exists u, u < n /\ 0 < g u.
Proof.
  induction n as [| n IH]; intros H; [cbn in H; lia|]. rewrite sumf_S in H.
  destruct (g n) eqn:E.
  - destruct IH as (u & L & P); [lia|]. exists u. split; [lia | assumption].
  - exists n. split; lia.
Qed.

(* ------------------------------------------------------------------ the weight *)
Definition frank (st : list frame) : nat := list_sum (map (fun f => rank (snd f)) st).
Definition weight (s : state) : nat := sumf (fun t => frank (stacks s t)) (nthr s).
Definition total_frames (s : state) : nat := sumf (fun t => length (stacks s t)) (nthr s).

Definition is_call (c : choice) : bool := match c with CCall _ => true | _ => false end.
(* a schedule segment in which no call is started *)
Definition nocall (seg : list (nat * choice)) : Prop := Forall (fun tc => is_call (snd tc) = false) seg.
(* a round: every one of the n threads is scheduled at least once *)
Definition round (n : nat) (seg : list (nat * choice)) : Prop := forall t, t < n -> exists c, In (t, c) seg.

Lemma rank_pos p : 1 <= rank p.
Proof. destruct p; cbn; lia. Qed.
Lemma rank_max p : rank p <= 18.
Proof. destruct p; cbn; lia. Qed.

Lemma frank_cons f st : frank (f :: st) = rank (snd f) + frank st.
Proof. reflexivity. Qed.

Lemma frank_bound st : frank st <= 18 * length st.
Proof.
  induction st as [| f st IH]; [cbn; lia|]. rewrite frank_cons. cbn [length].
  pose proof (rank_max (snd f)). lia.
Qed.

Lemma frank_zero st : frank st = 0 -> st = [].
Proof. destruct st as [| f st]; [reflexivity|]. rewrite frank_cons. pose proof (rank_pos (snd f)). lia. Qed.

Theorem weight_bound s : weight s <= 18 * total_frames s.
Proof.
  unfold weight, total_frames. generalize (nthr s) as n. induction n as [| n IH]; [cbn; lia|].
  rewrite !sumf_S. pose proof (frank_bound (stacks s n)). lia.
Qed.

(* ------------------------------------------------------------------ one step *)
(* what a step WITHOUT the choice CCall does to the stepping thread's stack *)
Inductive effect_nc (old new : list frame) : Prop :=
| NcNone : new = old -> effect_nc old new
| NcPop : forall f, old = f :: new -> effect_nc old new
| NcDown : forall l p p' r, old = (l, p) :: r -> new = (l, p') :: r -> rank p' < rank p -> effect_nc old new.

Lemma ceffect_nc s t c : is_call c = false -> effect_nc (stacks s t) (stacks (cstep s (t, c)) t).
Proof.
  intros Hc. ustep. destruct (t <? nthr s) eqn:Ht; cbn [negb]; [|apply NcNone; reflexivity].
  destruct (stacks s t) as [| [l p] rest] eqn:Hst.
  - destruct c; try discriminate; simp_state; rewrite ?Hst; apply NcNone; reflexivity.
  - destruct c; try discriminate;
      (destruct p; split_ifs; simp_state; split_ifs; simp_state; rewrite ?updf_same, ?Hst;
       try (apply NcNone; reflexivity);
       try (eapply NcDown; [reflexivity | reflexivity | cbn; lia]);
       try (eapply NcPop; reflexivity)).
Qed.

(* a step that leaves the stepping thread's stack unchanged leaves the whole state unchanged *)
Lemma cstutter s t c : stacks (cstep s (t, c)) t = stacks s t -> cstep s (t, c) = s.
Proof.
  ustep. destruct (t <? nthr s) eqn:Ht; cbn [negb]; [|reflexivity].
  destruct (stacks s t) as [| [l p] rest] eqn:Hst.
  - destruct c; simp_state; rewrite ?updf_same; intros H; try reflexivity; discriminate H.
  - destruct p; split_ifs; simp_state; split_ifs; simp_state; rewrite ?updf_same; intros H;
      try reflexivity; try (inversion H; fail);
      try (exfalso; symmetry in H; revert H; apply neq_cons);
      try (exfalso; revert H; apply neq_cons; fail);
      try (exfalso; revert H; apply neq_cons2).
Qed.

Theorem stutter s t c : stacks (step s (t, c)) t = stacks s t -> step s (t, c) = s.
Proof.
  destruct (step_cases s (t, c)) as [E | E]; rewrite E; [reflexivity | apply cstutter].
Qed.

Lemma step_nthr' s tc : nthr (step s tc) = nthr s.
Proof. destruct (step_cases s tc) as [E | E]; rewrite E; [reflexivity | apply step_nthr]. Qed.

Lemma step_other' s t c t' : t' <> t -> stacks (step s (t, c)) t' = stacks s t'.
Proof. intros N. destruct (step_cases s (t, c)) as [E | E]; rewrite E; [reflexivity | apply step_other, N]. Qed.

Lemma effect_nc_step s t c : is_call c = false -> effect_nc (stacks s t) (stacks (step s (t, c)) t).
Proof.
  intros Hc. destruct (step_cases s (t, c)) as [E | E]; rewrite E; [apply NcNone; reflexivity | apply ceffect_nc, Hc].
Qed.

Lemma step_in_range s t c : stacks (step s (t, c)) t <> stacks s t -> t < nthr s.
Proof.
  intros H. destruct (Nat.lt_ge_cases t (nthr s)) as [L | L]; [exact L|]. exfalso. apply H.
  destruct (step_cases s (t, c)) as [E | E]; rewrite E; [reflexivity|].
  ustep. assert (X : (t <? nthr s) = false) by (apply Nat.ltb_ge; exact L). rewrite X. reflexivity.
Qed.

Lemma effect_nc_le old new : effect_nc old new -> frank new <= frank old.
Proof.
  intros [-> | f -> | l p p' r -> -> L]; rewrite ?frank_cons; cbn [snd]; lia.
Qed.

Lemma effect_nc_lt old new : effect_nc old new -> new <> old -> frank new < frank old.
Proof.
  intros [-> | f -> | l p p' r -> -> L] N; rewrite ?frank_cons; cbn [snd]; try lia.
  - contradiction.
  - pose proof (rank_pos (snd f)). lia.
Qed.

(* an effective step that does not start a call strictly decreases the weight ... *)
Theorem weight_decreases s t c : is_call c = false ->
  stacks (step s (t, c)) t <> stacks s t -> weight (step s (t, c)) < weight s.
Proof.
  intros Hc N. unfold weight. rewrite step_nthr'. apply (sumf_lt _ _ _ t).
  - apply (step_in_range s t c N).
  - apply effect_nc_lt; [apply effect_nc_step, Hc | exact N].
  - intros u Hu. rewrite step_other' by exact Hu. reflexivity.
Qed.

(* ... and no such step increases it *)
Lemma weight_step_le s tc : is_call (snd tc) = false -> weight (step s tc) <= weight s.
Proof.
  destruct tc as [t c]. cbn [snd]. intros Hc. unfold weight. rewrite step_nthr'. apply sumf_le. intros u _.
  destruct (Nat.eq_dec u t) as [-> | N]; [apply effect_nc_le, effect_nc_step, Hc | rewrite step_other' by exact N; lia].
Qed.

Lemma weight_seg_le seg : forall s, nocall seg -> weight (fold_left step seg s) <= weight s.
Proof.
  induction seg as [| tc seg IH]; intros s H; cbn [fold_left]; [lia|]. inversion H; subst.
  etransitivity; [apply IH; assumption | apply weight_step_le; assumption].
Qed.

(* a step that starts a call adds one frame of rank 18 (or nothing) *)
Theorem weight_call s t l : weight (step s (t, CCall l)) <= weight s + 18.
Proof.
  unfold weight. rewrite step_nthr'.
  destruct (Nat.lt_ge_cases t (nthr s)) as [L | L].
  - assert (E : sumf (fun u => frank (stacks s u)) (nthr s) + 18 =
                sumf (fun u => if Nat.eqb u t then frank (stacks s u) + 18 else frank (stacks s u)) (nthr s)).
    { revert L. generalize (nthr s) as n. induction n as [| n IH]; intros L; [lia|]. rewrite !sumf_S.
      destruct (Nat.eqb_spec n t) as [-> | N].
      - assert (X : sumf (fun u => if Nat.eqb u t then frank (stacks s u) + 18 else frank (stacks s u)) t
                    = sumf (fun u => frank (stacks s u)) t).
        { assert (A : sumf (fun u => if Nat.eqb u t then frank (stacks s u) + 18 else frank (stacks s u)) t
                      <= sumf (fun u => frank (stacks s u)) t)
            by (apply sumf_le; intros u Hu; destruct (Nat.eqb_spec u t); lia).
          assert (B : sumf (fun u => frank (stacks s u)) t
                      <= sumf (fun u => if Nat.eqb u t then frank (stacks s u) + 18 else frank (stacks s u)) t)
            by (apply sumf_le; intros u Hu; destruct (Nat.eqb_spec u t); lia).
          lia. }
        rewrite X. lia.
      - rewrite <- IH by lia. lia. }
    rewrite E. apply sumf_le. intros u _. destruct (Nat.eqb_spec u t) as [-> | N].
    + pose proof (bounded_steps_step s t (CCall l)) as [-> | l' -> _ | f -> | l0 p p' r -> -> Lr];
        rewrite ?frank_cons; cbn [snd rank]; lia.
    + rewrite step_other' by exact N. lia.
  - apply Nat.le_trans with (sumf (fun u => frank (stacks s u)) (nthr s)); [|lia].
    apply sumf_le. intros u Hu. destruct (Nat.eq_dec u t) as [-> | N]; [lia | rewrite step_other' by exact N; lia].
Qed.

(* ------------------------------------------------------------------ counting effective steps *)
Definition frame_eq_dec : forall a b : frame, {a = b} + {a <> b}.
Proof. repeat decide equality. Defined.
Definition stack_eq_dec : forall a b : list frame, {a = b} + {a <> b} := list_eq_dec frame_eq_dec.

(* the step changes the stepping thread's stack (equivalently, by [stutter], the state) *)
Definition effective (s : state) (tc : nat * choice) : bool :=
  if stack_eq_dec (stacks (step s tc) (fst tc)) (stacks s (fst tc)) then false else true.

Fixpoint eff_count (s : state) (seg : list (nat * choice)) : nat :=
  match seg with
  | [] => 0
  | tc :: seg' => (if effective s tc then 1 else 0) + eff_count (step s tc) seg'
  end.

(* in ANY schedule segment without CCall, from ANY state: the number of effective steps is at most
   the weight lost, hence at most weight s <= 18 * total_frames s *)
Theorem effective_steps_bounded seg : forall s, nocall seg ->
  eff_count s seg + weight (fold_left step seg s) <= weight s.
Proof.
  induction seg as [| [t c] seg IH]; intros s H; cbn [fold_left eff_count]; [lia|]. inversion H; subst.
  cbn [snd] in *. specialize (IH (step s (t, c)) ltac:(assumption)).
  unfold effective. cbn [fst]. destruct (stack_eq_dec _ _) as [E | N].
  - rewrite (stutter s t c E) in *. lia.
  - pose proof (weight_decreases s t c ltac:(assumption) N). lia.
Qed.

Corollary effective_steps_bounded_frames seg s : nocall seg -> eff_count s seg <= 18 * total_frames s.
Proof. intros H. pose proof (effective_steps_bounded seg s H). pose proof (weight_bound s). lia. Qed.

(* ------------------------------------------------------------------ no deadlock, for every
   choice that is not a call: some BUSY thread changes its state whatever non-call choice the
   scheduler hands it (strengthening of no_deadlock_independent, same argument) *)
Definition enabled_nc (s : state) (t : nat) : Prop :=
  forall c, is_call c = false -> stacks (step s (t, c)) t <> stacks s t.

Lemma enabled_top_nc s t l p rest : gil s = None -> (t <? nthr s) = true -> stacks s t = (l, p) :: rest ->
  (p = PSpin -> spin s = None) -> (p = PCas1 -> cas (libs s l) = None) ->
  (p = PLock -> mutex_free s l t = true) -> enabled_nc s t.
Proof.
  intros G Ht Hst Hs Hc Hl c Hcc. rewrite (step_cstep s _ G). ustep. cbv beta iota zeta. rewrite Ht, Hst. cbn [negb].
  destruct c; try discriminate;
  (destruct p; try rewrite (Hs eq_refl); try rewrite (Hc eq_refl); try rewrite (Hl eq_refl);
    split_ifs; simp_state; split_ifs; simp_state; rewrite ?updf_same;
    try (intros X; inversion X; fail); try apply neq_cons; try (intros X; symmetry in X; revert X; apply neq_cons)).
Qed.

Theorem no_deadlock_independent_nc n sched :
  let s := run n sched in
  independent s -> (exists t, busy s t = true) -> exists t, t < nthr s /\ enabled_nc s t.
Proof.
  intros s Ind (t & Bt). pose proof (run_inv n sched) as [A B C D E]. fold s in A, B, C, D, E.
  pose proof (proj2 (run_cstep n sched)) as GN. fold s in GN.
  assert (LT : forall u, stacks s u <> [] -> (u <? nthr s) = true).
  { intros u Hu. apply Nat.ltb_lt. destruct (Nat.lt_ge_cases u (nthr s)); [assumption|].
    exfalso. apply Hu. apply (a_idle s A). assumption. }
  destruct (spin s) as [u|] eqn:Sp.
  { pose proof (b_holder s B u Sp) as T. destruct (stacks s u) as [| [l p] rest] eqn:Hu; [discriminate|].
    cbn in T. exists u. assert (Lu : (u <? nthr s) = true) by (apply LT; rewrite Hu; discriminate).
    split; [apply Nat.ltb_lt; exact Lu|].
    apply (enabled_top_nc s u l p rest GN Lu Hu); intros ->; discriminate. }
  assert (Free : forall u l p rest, stacks s u = (l, p) :: rest ->
                 (p = PLock -> mutex_free s l u = true) -> exists v, v < nthr s /\ enabled_nc s v).
  { intros u l p rest Hu Hl. assert (Lu : (u <? nthr s) = true) by (apply LT; rewrite Hu; discriminate).
    destruct (cas (libs s l)) as [v|] eqn:Cs.
    - destruct (c_holder s C l v Cs) as (q & r & Hv & Cq). exists v.
      assert (Lv : (v <? nthr s) = true) by (apply LT; rewrite Hv; discriminate).
      split; [apply Nat.ltb_lt; exact Lv|].
      apply (enabled_top_nc s v l q r GN Lv Hv); intros ->; discriminate.
    - exists u. split; [apply Nat.ltb_lt; exact Lu|]. apply (enabled_top_nc s u l p rest GN Lu Hu); auto. }
  unfold busy in Bt. destruct (stacks s t) as [| [l p] rest] eqn:Ht; [discriminate|].
  destruct (mutex_free s l t) eqn:F.
  { apply (Free t l p rest Ht). auto. }
  destruct (mutex_free_false s l t F) as (u & Lu & Nu & Hu).
  destruct (stacks s u) as [| [l' q] rest'] eqn:Su; [discriminate|].
  assert (El : l' = l).
  { unfold holds_lib in Hu. apply existsb_exists in Hu. destruct Hu as (f & I & Hf).
    apply andb_true_iff in Hf. destruct Hf as (Hf & _). apply Nat.eqb_eq in Hf.
    destruct I as [<- | I]; [exact Hf|]. rewrite <- (Ind u l' q rest' f Su I). exact Hf. }
  subst l'. apply (Free u l q rest' Su). intros _.
  destruct (mutex_free s l u) eqn:Fu; [reflexivity|]. exfalso.
  destruct (mutex_free_false s l u Fu) as (v & _ & Nv & Hv).
  apply Nv. apply (D v u l); [exact Hv | rewrite Su; exact Hu].
Qed.

(* ------------------------------------------------------------------ rounds *)
Lemma single_independent s l0 : single s l0 -> independent s.
Proof.
  intros Sg t l p r f H I.
  rewrite (Sg t f ltac:(rewrite H; right; exact I)).
  symmetry. apply (Sg t (l, p)). rewrite H. left. reflexivity.
Qed.

(* steps that start no call keep the libraries independent / the single library *)
Lemma independent_step s t c : is_call c = false -> independent s -> independent (step s (t, c)).
Proof.
  intros Hc Ind t' l p r f H I. destruct (Nat.eq_dec t' t) as [-> | N];
    [| rewrite step_other' in H by exact N; eapply Ind; eassumption].
  destruct (effect_nc_step s t c Hc) as [E | f0 E | l1 p1 p' r1 E1 E2 L].
  - rewrite E in H. eapply Ind; eassumption.
  - rewrite H in E. destruct f0 as [l0 p0].
    rewrite (Ind t l0 p0 ((l, p) :: r) f E ltac:(right; exact I)).
    symmetry. apply (Ind t l0 p0 ((l, p) :: r) (l, p) E). left. reflexivity.
  - rewrite E2 in H. inversion H; subst. eapply Ind; eassumption.
Qed.

Lemma single_step s t c l0 : is_call c = false -> single s l0 -> single (step s (t, c)) l0.
Proof.
  intros Hc Sg t' f I. destruct (Nat.eq_dec t' t) as [-> | N];
    [| rewrite step_other' in I by exact N; eapply Sg; eassumption].
  destruct (effect_nc_step s t c Hc) as [E | f0 E | l1 p1 p' r1 E1 E2 L].
  - rewrite E in I. eapply Sg; eassumption.
  - apply (Sg t f). rewrite E. right. exact I.
  - rewrite E2 in I. destruct I as [<- | I].
    + apply (Sg t (l1, p1)). rewrite E1. left. reflexivity.
    + apply (Sg t f). rewrite E1. right. exact I.
Qed.

Lemma independent_seg seg : forall s, nocall seg -> independent s -> independent (fold_left step seg s).
Proof.
  induction seg as [| [t c] seg IH]; intros s H Ind; cbn [fold_left]; [exact Ind|]. inversion H; subst.
  apply IH; [assumption | apply independent_step; assumption].
Qed.

Lemma nthr_seg seg : forall s, nthr (fold_left step seg s) = nthr s.
Proof. induction seg as [| tc seg IH]; intros s; cbn [fold_left]; [reflexivity|]. rewrite IH. apply step_nthr'. Qed.

Lemma nthr_run n sched : nthr (run n sched) = n.
Proof. unfold run. rewrite nthr_seg. reflexivity. Qed.

(* a thread that can move whatever non-call choice it is given is scheduled somewhere in the
   segment: the segment loses weight (if nobody moved before it, the state is still s when its
   turn comes) *)
Lemma seg_progress t : forall seg s, nocall seg -> (exists c, In (t, c) seg) -> enabled_nc s t ->
  weight (fold_left step seg s) < weight s.
Proof.
  induction seg as [| [u c] seg IH]; intros s H (c0 & I) En; [contradiction|]. cbn [fold_left].
  inversion H as [| x y Hc Hrest]; subst. cbn [snd] in Hc.
  destruct (stack_eq_dec (stacks (step s (u, c)) u) (stacks s u)) as [E | N].
  - rewrite (stutter s u c E). destruct I as [I | I].
    + inversion I; subst. exfalso. apply (En c0 Hc). exact E.
    + apply IH; [assumption | eauto | assumption].
  - pose proof (weight_decreases s u c Hc N). pose proof (weight_seg_le seg (step s (u, c)) Hrest). lia.
Qed.

Lemma weight_zero_idle s : InvA s -> weight s = 0 -> forall t, busy s t = false.
Proof.
  intros A W t. unfold busy. destruct (Nat.lt_ge_cases t (nthr s)) as [L | L].
  - rewrite (frank_zero _ (sumf_zero _ _ W t L)). reflexivity.
  - rewrite (a_idle s A t L). reflexivity.
Qed.

Lemma weight_pos_busy s : 0 < weight s -> exists t, busy s t = true.
Proof.
  intros W. destruct (sumf_pos _ _ W) as (t & L & P). exists t. unfold busy.
  destruct (stacks s t); [cbn in P; lia | reflexivity].
Qed.

Lemma run_app n sched seg : fold_left step seg (run n sched) = run n (sched ++ seg).
Proof. unfold run. rewrite fold_left_app. reflexivity. Qed.

(* every call terminates, with a bound: n threads, libraries that do not call into each other,
   any reachable state s; the scheduler then runs [rounds], in each of which every thread is
   scheduled at least once and nobody starts a further call (the init codes and extern functions
   that are running return: COk / CFail).  After weight s <= 18 * total_frames s rounds no call is
   in progress any more. *)
Theorem independent_terminates rounds : forall n sched,
  let s := run n sched in
  independent s ->
  (forall seg, In seg rounds -> round n seg /\ nocall seg) ->
  weight s <= length rounds ->
  forall t, busy (fold_left step (concat rounds) s) t = false.
Proof.
  induction rounds as [| seg rounds IH]; intros n sched s Ind R W t.
  - cbn [concat fold_left]. apply weight_zero_idle; [apply (iA _ (run_inv n sched)) | cbn in W; lia].
  - cbn [concat]. rewrite fold_left_app. unfold s. rewrite run_app.
    destruct (R seg ltac:(left; reflexivity)) as (Rd & Nc).
    assert (W' : weight (run n (sched ++ seg)) <= length rounds).
    { rewrite <- run_app. fold s. cbn [length] in W.
      destruct (Nat.eq_dec (weight s) 0) as [Z | NZ].
      - pose proof (weight_seg_le seg s Nc). lia.
      - destruct (no_deadlock_independent_nc n sched Ind (weight_pos_busy s ltac:(lia))) as (u & Lu & En).
        fold s in Lu, En. unfold s in Lu at 1. rewrite nthr_run in Lu.
        pose proof (seg_progress u seg s Nc (Rd u Lu) En). lia. }
    apply IH.
    + rewrite <- run_app. apply independent_seg; assumption.
    + intros seg' I. apply R. right. exact I.
    + exact W'.
Qed.

Theorem single_library_terminates rounds n sched l0 :
  let s := run n sched in
  single s l0 ->
  (forall seg, In seg rounds -> round n seg /\ nocall seg) ->
  18 * total_frames s <= length rounds ->
  forall t, busy (fold_left step (concat rounds) s) t = false.
Proof.
  intros s Sg R W. apply independent_terminates; [eapply single_independent; exact Sg | exact R |].
  pose proof (weight_bound s). fold s. lia.
Qed.
