(* C28 — proofs, part 2: the per-library CAS cell and the recursive mutex. *)
From Coq Require Import Arith List Bool Lia.
Import ListNotations.
From Cffi Require Import C28.Gen C28.Model C28.Proofs.

(* ------------------------------------------------------------------ C: the CAS cell of
   _cffi_acquire_reentrant_mutex and the lazy pthread_mutex_init *)
Record InvC (s : state) : Prop := {
  c_top : forall t l p rest, stacks s t = (l, p) :: rest -> caspc p = true -> cas (libs s l) = Some t;
  c_holder : forall l u, cas (libs s l) = Some u ->
               exists p rest, stacks s u = (l, p) :: rest /\ caspc p = true;
  c_init : forall t l rest, stacks s t = (l, PMInit) :: rest -> ready (libs s l) = false;
  c_count : forall l, mcount (libs s l) = if ready (libs s l) then 1 else 0 }.

Lemma C_frame s s' t : InvC s ->
  (forall l, cas (libs s' l) = cas (libs s l) /\ ready (libs s' l) = ready (libs s l) /\
             mcount (libs s' l) = mcount (libs s l)) ->
  (forall t', t' <> t -> stacks s' t' = stacks s t') ->
  top_is caspc (stacks s t) = false -> top_is caspc (stacks s' t) = false -> InvC s'.
Proof.
  intros [C1 C2 C3 C4] El Eo Old New. constructor.
  - intros t' l p rest H Cp. destruct (El l) as (E1 & _). rewrite E1. destruct (Nat.eqb_spec t' t).
    + subst. rewrite H in New. cbn in New. congruence.
    + rewrite Eo in H by assumption. eapply C1; eassumption.
  - intros l u H. destruct (El l) as (E1 & _). rewrite E1 in H.
    destruct (C2 l u H) as (p & rest & Hs & Cp). destruct (Nat.eqb_spec u t).
    + subst. rewrite Hs in Old. cbn in Old. congruence.
    + rewrite Eo by assumption. eauto.
  - intros t' l rest H. destruct (El l) as (_ & E2 & _). rewrite E2. destruct (Nat.eqb_spec t' t).
    + subst. rewrite H in New. cbn in New. discriminate.
    + rewrite Eo in H by assumption. eapply C3; eassumption.
  - intros l. destruct (El l) as (_ & E2 & E3). rewrite E2, E3. apply C4.
Qed.

Ltac lib_same :=
  intros; unfold updf; repeat split;
  match goal with |- context [Nat.eqb ?a ?b] => destruct (Nat.eqb_spec a b); subst; reflexivity
                | _ => reflexivity end.

Lemma stepC s tc : InvA s -> InvC s -> InvC (cstep s tc).
Proof.
  intros A C. destruct tc as [t c]. ustep. cbv beta iota zeta.
  destruct (t <? nthr s) eqn:Ht; cbn [negb]; [|exact C].
  destruct (stacks s t) as [| [l p] rest] eqn:Hst.
  - destruct c; try exact C.
    apply (C_frame s _ t C); simp_state; stk; rewrite ?Hst; try reflexivity. lib_same.
  - assert (R : top_is caspc rest = false)
      by (eapply (rest_top s t l p rest caspc A Hst); intros q Q; apply mid_not_spin; exact Q).
    destruct C as [C1 C2 C3 C4].
    destruct p;
      try (split_ifs; try (constructor; assumption);
           apply (C_frame s _ t (Build_InvC s C1 C2 C3 C4)); simp_state; split_ifs; simp_state; stk;
           rewrite ?Hst; try reflexivity; try exact R; try lib_same; fail).
    + (* PCas1 *)
      destruct (cas (libs s l)) as [u|] eqn:Cs; [constructor; assumption|].
      simp_state. constructor; cbn [stacks libs].
      * intros t' l' p' rest' H Q. unfold updf at 1. destruct (Nat.eqb_spec l' l).
        -- subst. cbn. destruct (Nat.eqb_spec t' t); [subst; reflexivity|].
           rewrite updf_other in H by assumption. pose proof (C1 _ _ _ _ H Q). congruence.
        -- destruct (Nat.eqb_spec t' t).
           ++ subst. rewrite updf_same in H. inversion H; subst. contradiction.
           ++ rewrite updf_other in H by assumption. eapply C1; eassumption.
      * intros l' u H. unfold updf at 1 in H. destruct (Nat.eqb_spec l' l).
        -- subst. cbn in H. inversion H; subst. rewrite updf_same. eauto.
        -- destruct (C2 l' u H) as (p & r & Hs & Cp). destruct (Nat.eqb_spec u t).
           ++ subst. rewrite Hs in Hst. inversion Hst; subst. discriminate.
           ++ rewrite updf_other by assumption. eauto.
      * intros t' l' rest' H. unfold updf at 1. destruct (Nat.eqb_spec t' t).
        -- subst. rewrite updf_same in H. discriminate.
        -- rewrite updf_other in H by assumption.
           destruct (Nat.eqb_spec l' l); [subst; cbn|]; eapply C3; eassumption.
      * intros l'. unfold updf. destruct (Nat.eqb_spec l' l); [subst; cbn|]; apply C4.
    + (* PMTest *)
      pose proof (C1 t l PMTest rest Hst eq_refl) as Cs.
      destruct (ready (libs s l)) eqn:Rd; simp_state; constructor; cbn [stacks libs]; try assumption.
      all: try (intros t' l' p' rest' H Q; destruct (Nat.eqb_spec t' t);
                [subst; rewrite updf_same in H; inversion H; subst; exact Cs
                | rewrite updf_other in H by assumption; eapply C1; eassumption]).
      all: try (intros l' u H; destruct (C2 l' u H) as (p & r & Hs & Cp); destruct (Nat.eqb_spec u t);
                [subst; rewrite updf_same; rewrite Hs in Hst; inversion Hst; subst; eauto
                | rewrite updf_other by assumption; eauto]).
      all: try (intros t' l' rest' H; destruct (Nat.eqb_spec t' t);
                [subst; rewrite updf_same in H; try discriminate; inversion H; subst; exact Rd
                | rewrite updf_other in H by assumption; eapply C3; eassumption]).
    + (* PMInit *)
      pose proof (C1 t l PMInit rest Hst eq_refl) as Cs.
      pose proof (C3 t l rest Hst) as Rd.
      simp_state. constructor; cbn [stacks libs].
      * intros t' l' p' rest' H Q. unfold updf at 1. destruct (Nat.eqb_spec t' t).
        -- subst. rewrite updf_same in H. inversion H; subst. rewrite Nat.eqb_refl. exact Cs.
        -- rewrite updf_other in H by assumption.
           destruct (Nat.eqb_spec l' l); [subst; cbn|]; eapply C1; eassumption.
      * intros l' u H. unfold updf at 1 in H.
        assert (H' : cas (libs s l') = Some u) by (destruct (Nat.eqb_spec l' l); [subst; exact H | exact H]).
        destruct (C2 l' u H') as (p & r & Hs & Cp). destruct (Nat.eqb_spec u t).
        -- subst. rewrite updf_same. rewrite Hs in Hst. inversion Hst; subst. eauto.
        -- rewrite updf_other by assumption. eauto.
      * intros t' l' rest' H. destruct (Nat.eqb_spec t' t).
        -- subst. rewrite updf_same in H. discriminate.
        -- rewrite updf_other in H by assumption.
           pose proof (C1 t' l' PMInit rest' H eq_refl) as Cs'. unfold updf.
           destruct (Nat.eqb_spec l' l); [subst; congruence | eapply C3; eassumption].
      * intros l'. unfold updf. destruct (Nat.eqb_spec l' l); [subst; cbn; rewrite C4, Rd; reflexivity | apply C4].
    + (* PCas2 *)
      pose proof (C1 t l PCas2 rest Hst eq_refl) as Cs.
      simp_state. constructor; cbn [stacks libs].
      * intros t' l' p' rest' H Q. destruct (Nat.eqb_spec t' t).
        -- subst. rewrite updf_same in H. inversion H; subst. discriminate.
        -- rewrite updf_other in H by assumption. pose proof (C1 _ _ _ _ H Q) as E.
           unfold updf. destruct (Nat.eqb_spec l' l); [subst; congruence | exact E].
      * intros l' u H. unfold updf at 1 in H. destruct (Nat.eqb_spec l' l); [subst; discriminate|].
        destruct (C2 l' u H) as (p & r & Hs & Cp). destruct (Nat.eqb_spec u t).
        -- subst. rewrite Hs in Hst. inversion Hst; subst. contradiction.
        -- rewrite updf_other by assumption. eauto.
      * intros t' l' rest' H. destruct (Nat.eqb_spec t' t).
        -- subst. rewrite updf_same in H. discriminate.
        -- rewrite updf_other in H by assumption. unfold updf.
           destruct (Nat.eqb_spec l' l); [subst; cbn|]; eapply C3; eassumption.
      * intros l'. unfold updf. destruct (Nat.eqb_spec l' l); [subst; cbn|]; apply C4.
Qed.

(* ------------------------------------------------------------------ D: the recursive mutex *)
Definition InvD (s : state) : Prop :=
  forall t1 t2 l, holds_lib l (stacks s t1) = true -> holds_lib l (stacks s t2) = true -> t1 = t2.

Lemma holds_cons l f st : holds_lib l (f :: st) = (Nat.eqb (fst f) l && holding (snd f)) || holds_lib l st.
Proof. reflexivity. Qed.

Lemma D_frame s s' t : InvD s ->
  (forall t', t' <> t -> stacks s' t' = stacks s t') ->
  (forall l, holds_lib l (stacks s' t) = true -> holds_lib l (stacks s t) = true) -> InvD s'.
Proof.
  intros D Eo Sub t1 t2 l H1 H2. apply (D t1 t2 l).
  - destruct (Nat.eqb_spec t1 t); [subst; apply Sub; exact H1 | rewrite <- Eo by assumption; exact H1].
  - destruct (Nat.eqb_spec t2 t); [subst; apply Sub; exact H2 | rewrite <- Eo by assumption; exact H2].
Qed.

Lemma mutex_free_spec s l t : InvA s -> mutex_free s l t = true ->
  forall t', holds_lib l (stacks s t') = true -> t' = t.
Proof.
  intros A F t' H. unfold mutex_free in F. rewrite forallb_forall in F.
  destruct (Nat.lt_ge_cases t' (nthr s)) as [L | L].
  - specialize (F t' ltac:(apply in_seq; lia)). rewrite H in F. cbn in F.
    rewrite orb_false_r in F. apply Nat.eqb_eq. exact F.
  - rewrite (a_idle s A t' L) in H. discriminate.
Qed.

Lemma stepD s tc : InvA s -> InvD s -> InvD (cstep s tc).
Proof.
  intros A D. destruct tc as [t c]. ustep. cbv beta iota zeta.
  destruct (t <? nthr s) eqn:Ht; cbn [negb]; [|exact D].
  destruct (stacks s t) as [| [l p] rest] eqn:Hst.
  - destruct c; try exact D.
    apply (D_frame s _ t D); simp_state.
    + intros t' N. rewrite updf_other by assumption. reflexivity.
    + intros l0 H. rewrite updf_same in H. cbn in H. rewrite andb_false_r in H. discriminate.
  - destruct p;
      try (split_ifs; try exact D;
           apply (D_frame s _ t D); simp_state; split_ifs; simp_state; stk;
           match goal with H : holds_lib _ _ = true |- _ =>
             rewrite ?updf_same, ?Hst in *; rewrite ?holds_cons in *; cbn [fst snd holding] in *;
             rewrite ?andb_false_r, ?andb_true_r, ?orb_false_l in *;
             try exact H; try (rewrite H; apply orb_true_r) end; fail).
    (* PLock: the only step that starts holding *)
    destruct (mutex_free s l t) eqn:F; [|exact D]. simp_state.
    intros t1 t2 l' H1 H2. cbn [stacks] in *.
    assert (K : forall t', holds_lib l' (updf (stacks s) t ((l, PChk) :: rest) t') = true ->
                t' = t \/ (t' <> t /\ holds_lib l' (stacks s t') = true)).
    { intros t' H. destruct (Nat.eqb_spec t' t); [left; assumption | right].
      rewrite updf_other in H by assumption. auto. }
    destruct (K t1 H1) as [-> | (N1 & G1)], (K t2 H2) as [-> | (N2 & G2)]; try reflexivity.
    + rewrite updf_same, holds_cons in H1. cbn [fst snd holding] in H1. rewrite andb_true_r in H1.
      destruct (Nat.eqb_spec l l').
      * subst. symmetry. eapply mutex_free_spec; eassumption.
      * cbn in H1. apply (D t t2 l'); [rewrite Hst, holds_cons; cbn [fst snd holding]; rewrite H1; apply orb_true_r | exact G2].
    + rewrite updf_same, holds_cons in H2. cbn [fst snd holding] in H2. rewrite andb_true_r in H2.
      destruct (Nat.eqb_spec l l').
      * subst. eapply mutex_free_spec; eassumption.
      * cbn in H2. apply (D t1 t l'); [exact G1 | rewrite Hst, holds_cons; cbn [fst snd holding]; rewrite H2; apply orb_true_r].
    + apply (D t1 t2 l'); assumption.
Qed.
