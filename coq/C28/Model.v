(* C28 — start-up of embedded libraries: an N-thread, any-number-of-libraries transition system
   for src/cffi/_embedding.h (CPython section).  One step = one thread executes the next
   shared-memory action of its innermost active call; a schedule is a list of (thread, choice).

   Per call of an extern "Python" function of library l (frame (l, pc)):
     PCall        read _cffi_call_python (:37); already switched to cffi_call_python -> PInPy,
                  otherwise _cffi_start_and_call_python (:467) -> _cffi_start_python (:386)
     PSpin        _cffi_carefully_make_gil (:247): CAS on the process-wide slot
                  PyCapsule_Type.tp_as_buffer (spin)                                   :312-317
     PGilTest     holds the slot: if (!Py_IsInitialized())                               :333
     PGilInit       Py_InitializeEx(0)                                                   :334
     PGilRelease  CAS the slot back                                                      :343
     PCas1        _cffi_acquire_reentrant_mutex (:70): CAS lock NULL -> 1 (spin)         :74
     PMTest       holds lock: if (!_cffi_embed_startup_lock_ready)                       :82
     PMInit         pthread_mutex_init (recursive); _cffi_embed_startup_lock_ready = 1    :84-93
     PCas2        CAS lock 1 -> NULL                                                     :96
     PLock        pthread_mutex_lock (recursive mutex of THIS library)                   :100
     PChk         holds the mutex: if (!called)                                          :435
     PMark          called = 1                                                           :436
     PInitStart   _cffi_initialize_python (:141): the module init function fills
                  _cffi_exports, i.e. _cffi_call_python_org becomes non-NULL             :164
     PInitRun     the user's embedding_init_code runs (may call into any library)        :186
     PInitOk      write barrier; _cffi_call_python = _cffi_call_python_org               :445-455
     PInitFail    _cffi_call_python_org = NULL                                           :462
     PRel         pthread_mutex_unlock                                                   :466
     PRet         return _cffi_call_python_org; NULL -> zeroed result, else call it      :468, :476-488
     PInPy        cffi_call_python: the extern "Python" function runs (may call into any library)

   The pthread mutex is an external primitive and is modelled by its specification: a thread
   may take it iff no OTHER thread is between lock and unlock of it ([mutex_free]).  The two CAS
   cells are modelled as cells.  Ghost: pycount, icount, ist, bad, zeros. *)
From Coq Require Import Arith List Bool Lia.
Import ListNotations.
From Cffi Require Import C28.Gen.

Inductive pc :=
| PCall | PSpin | PGilTest | PGilInit | PGilRelease | PCas1 | PMTest | PMInit | PCas2 | PLock
| PChk | PMark | PInitStart | PInitRun | PInitOk | PInitFail | PRel | PRet | PInPy.

(* between pthread_mutex_lock and pthread_mutex_unlock *)
Definition holding (p : pc) : bool :=
  match p with PChk | PMark | PInitStart | PInitRun | PInitOk | PInitFail | PRel => true | _ => false end.
(* inside _cffi_initialize_python *)
Definition initpc (p : pc) : bool :=
  match p with PInitStart | PInitRun | PInitOk | PInitFail => true | _ => false end.

(* holds the process-wide slot / the library's CAS cell *)
Definition spinpc (p : pc) : bool := match p with PGilTest | PGilInit | PGilRelease => true | _ => false end.
Definition caspc (p : pc) : bool := match p with PMTest | PMInit | PCas2 => true | _ => false end.
(* a call that is waiting for a nested call to return *)
Definition midpc (p : pc) : bool := match p with PInitRun | PInPy => true | _ => false end.

Definition frame := (nat * pc)%type.

Inductive istate := NotStarted | Running (t : nat) | DoneOk | DoneFail.

Record libstate := mklib {
  cas : option nat;          (* the static 'lock' of _cffi_acquire_reentrant_mutex: holder *)
  ready : bool;              (* _cffi_embed_startup_lock_ready *)
  called : bool;             (* static char called *)
  org : bool;                (* _cffi_call_python_org != NULL *)
  switched : bool;           (* _cffi_call_python == cffi_call_python *)
  ist : istate;              (* ghost *)
  icount : nat;              (* ghost: how often the init code was started *)
  mcount : nat }.            (* ghost: how often pthread_mutex_init was called *)

Definition lib0 := mklib None false false false false NotStarted 0 0.

Record state := mkstate {
  nthr : nat;
  stacks : nat -> list frame;
  spin : option nat;         (* holder of the process-wide slot *)
  pyinit : bool;             (* Py_IsInitialized() *)
  pycount : nat;             (* ghost: calls of Py_InitializeEx *)
  libs : nat -> libstate;
  bad : bool;                (* ghost: an extern "Python" function of l ran in a thread that is not the
                                initializer of l although l's initialization had not finished *)
  zeros : nat -> nat;        (* ghost: per library, calls that returned the zeroed result *)
  gil : option nat }.        (* a thread that left _cffi_initialize_python WITHOUT PyGILState_Release: it
                                keeps the GIL although it no longer runs Python, for ever *)

Definition init (n : nat) : state :=
  mkstate n (fun _ => []) None false 0 (fun _ => lib0) false (fun _ => 0) None.

Inductive choice := CCall (l : nat) | COk | CFail.

Definition updf {A} (f : nat -> A) (i : nat) (v : A) : nat -> A :=
  fun j => if Nat.eqb j i then v else f j.

Definition set_stack (s : state) (t : nat) (st : list frame) : state :=
  mkstate (nthr s) (updf (stacks s) t st) (spin s) (pyinit s) (pycount s) (libs s) (bad s) (zeros s) (gil s).
Definition set_lib (s : state) (l : nat) (x : libstate) : state :=
  mkstate (nthr s) (stacks s) (spin s) (pyinit s) (pycount s) (updf (libs s) l x) (bad s) (zeros s) (gil s).
Definition set_spin (s : state) (v : option nat) : state :=
  mkstate (nthr s) (stacks s) v (pyinit s) (pycount s) (libs s) (bad s) (zeros s) (gil s).
Definition set_py (s : state) : state :=
  mkstate (nthr s) (stacks s) (spin s) true (S (pycount s)) (libs s) (bad s) (zeros s) (gil s).
Definition set_bad (s : state) : state :=
  mkstate (nthr s) (stacks s) (spin s) (pyinit s) (pycount s) (libs s) true (zeros s) (gil s).
Definition add_zero (s : state) (l : nat) : state :=
  mkstate (nthr s) (stacks s) (spin s) (pyinit s) (pycount s) (libs s) (bad s)
          (updf (zeros s) l (S (zeros s l))) (gil s).

Definition holds_lib (l : nat) (st : list frame) : bool :=
  existsb (fun f => Nat.eqb (fst f) l && holding (snd f)) st.

(* pthread_mutex_lock of library l's recursive mutex succeeds for t *)
Definition mutex_free (s : state) (l t : nat) : bool :=
  forallb (fun t' => Nat.eqb t' t || negb (holds_lib l (stacks s t'))) (seq 0 (nthr s)).

Definition ist_allows (i : istate) (t : nat) : bool :=
  match i with DoneOk => true | Running t0 => Nat.eqb t0 t | _ => false end.

(* the extern "Python" function of l starts running in thread t *)
Definition enter_py (s : state) (t l : nat) (rest : list frame) : state :=
  let s1 := if ist_allows (ist (libs s l)) t then s else set_bad s in
  set_stack s1 t ((l, PInPy) :: rest).

Definition lcas (x : libstate) (v : option nat) := mklib v (ready x) (called x) (org x) (switched x) (ist x) (icount x) (mcount x).
Definition lready (x : libstate) := mklib (cas x) true (called x) (org x) (switched x) (ist x) (icount x) (S (mcount x)).
Definition lcalled (x : libstate) (t : nat) := mklib (cas x) (ready x) true (org x) (switched x) (Running t) (icount x) (mcount x).
Definition lstart (x : libstate) := mklib (cas x) (ready x) (called x) true (switched x) (ist x) (S (icount x)) (mcount x).
Definition lok (x : libstate) := mklib (cas x) (ready x) (called x) (org x) true DoneOk (icount x) (mcount x).
Definition lfail (x : libstate) := mklib (cas x) (ready x) (called x) false (switched x) DoneFail (icount x) (mcount x).

(* a failed initialization that does NOT reset _cffi_call_python_org *)
Definition lfail_keep (x : libstate) := mklib (cas x) (ready x) (called x) (org x) (switched x) DoneFail (icount x) (mcount x).

Definition lok_noswitch (x : libstate) := mklib (cas x) (ready x) (called x) (org x) (switched x) DoneOk (icount x) (mcount x).
Definition lswitch (x : libstate) := mklib (cas x) (ready x) (called x) (org x) true (ist x) (icount x) (mcount x).

(* [sw] = where _cffi_start_python switches _cffi_call_python to the fast path:
     true   inside "if (!called) { ... if (_cffi_initialize_python() == 0) { HERE } ... }"   (the code as it is)
     false  after that block, under "if (_cffi_call_python_org != NULL)", before the mutex is released
   The position is read from the source on every run (C28/Gen.v, gen_switch_in_success).
   [rb] = in _cffi_acquire_reentrant_mutex the CAS guard is released BEFORE pthread_mutex_lock
     true   ... CAS lock 1 -> NULL; pthread_mutex_lock(...)                   (the code as it is)
     false  ... pthread_mutex_lock(...); CAS lock 1 -> NULL: a thread that has to wait for the
            mutex waits while holding the guard
   (C28/Gen.v, gen_guard_released_before_lock).
   [zn] = in _cffi_start_and_call_python (:467-489) the result buffer is zeroed under
   "if (fnptr == NULL) { ... memset(args, 0, externpy->size_of_result); }" and the only call through
   the pointer stands under "if (fnptr != NULL)", after it
     true   the code as it is: a call that gets NULL from _cffi_start_python returns zeros
     false  the memset is missing / not under that test, or the call is not guarded: the model then
            does not count a zeroed result at PRet (tripwire: the theorems are about [core true true true])
   (C28/Gen.v, gen_zero_on_null).
   [fr] = in _cffi_start_python the failure branch of "_cffi_initialize_python()" (the else of
   "if (... == 0)", or the body of "if (... != 0)"), inside "if (!called)", resets
   _cffi_call_python_org = NULL                                                            :462
     true   the code as it is
     false  the assignment is missing: after a failed init the pointer keeps the value the module
            init function stored, and PRet calls through it
   (C28/Gen.v, gen_fail_resets_org). *)
Definition core (sw rb zn fr : bool) (s : state) (tc : nat * choice) : state :=
  let (t, c) := tc in
  if negb (t <? nthr s) then s else
  match stacks s t with
  | [] => match c with CCall l => set_stack s t [(l, PCall)] | _ => s end
  | (l, p) :: rest =>
      let L := libs s l in
      let go p' := set_stack s t ((l, p') :: rest) in
      match p with
      | PCall => if switched L then enter_py s t l rest else go PSpin
      | PSpin =>
          match spin s with
          | None => set_stack (set_spin s (Some t)) t ((l, PGilTest) :: rest)
          | Some _ => s
          end
      | PGilTest => if pyinit s then go PGilRelease else go PGilInit
      | PGilInit => set_stack (set_py s) t ((l, PGilRelease) :: rest)
      | PGilRelease => set_stack (set_spin s None) t ((l, PCas1) :: rest)
      | PCas1 =>
          match cas L with
          | None => set_stack (set_lib s l (lcas L (Some t))) t ((l, PMTest) :: rest)
          | Some _ => s
          end
      | PMTest => if ready L then go (if rb then PCas2 else PLock) else go PMInit
      | PMInit => set_stack (set_lib s l (lready L)) t ((l, if rb then PCas2 else PLock) :: rest)
      | PCas2 => set_stack (set_lib s l (lcas L None)) t ((l, if rb then PLock else PChk) :: rest)
      | PLock => if mutex_free s l t then go (if rb then PChk else PCas2) else s
      | PChk => if called L then go PRel else go PMark
      | PMark => set_stack (set_lib s l (lcalled L t)) t ((l, PInitStart) :: rest)
      | PInitStart => set_stack (set_lib s l (lstart L)) t ((l, PInitRun) :: rest)
      | PInitRun =>
          match c with
          | CCall l' => set_stack s t ((l', PCall) :: (l, PInitRun) :: rest)
          | COk => go PInitOk
          | CFail => go PInitFail
          end
      | PInitOk => set_stack (set_lib s l (if sw then lok L else lok_noswitch L)) t ((l, PRel) :: rest)
      | PInitFail => set_stack (set_lib s l (if fr then lfail L else lfail_keep L)) t ((l, PRel) :: rest)
      | PRel => if sw then go PRet
                else set_stack (set_lib s l (if org L then lswitch L else L)) t ((l, PRet) :: rest)
      | PRet => if org L then enter_py s t l rest else set_stack (if zn then add_zero s l else s) t rest
      | PInPy =>
          match c with
          | CCall l' => set_stack s t ((l', PCall) :: (l, PInPy) :: rest)
          | _ => set_stack s t rest
          end
      end
  end.

(* The GIL.  A thread that runs Python (init code, extern function) holds the GIL but yields it
   regularly and around every call into C, so it never blocks others for good (fair GIL: runtime
   hypothesis).  What can block for good is a thread that RETURNS from _cffi_initialize_python
   without PyGILState_Release: it is back in C code and never yields.  [gen_init_exits] = whether
   the success exit resp. the error exit of _cffi_initialize_python passes PyGILState_Release
   (regenerated from the function's return paths, C28/Gen.v).  PyGILState_Ensure is executed on
   entry of _cffi_initialize_python (PInitStart) and of cffi_call_python (entering PInPy); it
   blocks while another thread keeps the GIL in that way. *)
Definition set_gil (s : state) (v : option nat) : state :=
  mkstate (nthr s) (stacks s) (spin s) (pyinit s) (pycount s) (libs s) (bad s) (zeros s) v.

Definition needs_gil (s : state) (t : nat) : bool :=
  match stacks s t with
  | (l, PInitStart) :: _ => true
  | (l, PCall) :: _ => switched (libs s l)
  | (l, PRet) :: _ => org (libs s l)
  | _ => false
  end.

Definition gil_blocked (s : state) (t : nat) : bool :=
  match gil s with Some u => negb (Nat.eqb u t) && needs_gil s t | None => false end.

Definition keeps_gil (s : state) (t : nat) : bool :=
  (t <? nthr s) &&
  match stacks s t with
  | (_, PInitOk) :: _ => negb (fst gen_init_exits)
  | (_, PInitFail) :: _ => negb (snd gen_init_exits)
  | _ => false
  end.

Definition step_gen (sw rb zn fr : bool) (s : state) (tc : nat * choice) : state :=
  if gil_blocked s (fst tc) then s
  else let s' := core sw rb zn fr s tc in
       if keeps_gil s (fst tc) then set_gil s' (Some (fst tc)) else s'.

Definition step := step_gen gen_switch_in_success gen_guard_released_before_lock gen_zero_on_null
                            gen_fail_resets_org.

Definition run (n : nat) (sched : list (nat * choice)) : state := fold_left step sched (init n).

(* a thread that is inside a call *)
Definition busy (s : state) (t : nat) : bool := match stacks s t with [] => false | _ => true end.

(* observation for the correspondence run *)
Definition observe (s : state) (nlibs : nat) :=
  (pycount s, bad s,
   map (fun l => (icount (libs s l), mcount (libs s l), zeros s l,
                  match ist (libs s l) with NotStarted => 0 | Running _ => 1 | DoneOk => 2 | DoneFail => 3 end))
       (seq 0 nlibs),
   map (fun t => length (stacks s t)) (seq 0 (nthr s))).
