(* C28 — proofs, part 4: the statements. *)
From Coq Require Import Arith List Bool Lia.
Import ListNotations.
From Cffi Require Import C28.Gen C28.Model C28.Proofs C28.Proofs2 C28.Proofs3.

Theorem py_initialize_at_most_once n sched : pycount (run n sched) <= 1.
Proof.
  pose proof (b_count _ (iB _ (run_inv n sched))) as H. destruct (pyinit (run n sched)); lia.
Qed.

Theorem init_code_at_most_once n sched l : icount (libs (run n sched) l) <= 1.
Proof.
  pose proof (e_lib _ (iE _ (run_inv n sched)) l) as H. unfold lib_ok in H. cbv zeta in H.
  destruct (ist (libs (run n sched) l)); try (intuition lia).
  destruct H as (_ & _ & _ & H). destruct (has_start l _); intuition lia.
Qed.

Theorem mutex_init_at_most_once n sched l : mcount (libs (run n sched) l) <= 1.
Proof.
  pose proof (c_count _ (iC _ (run_inv n sched)) l) as H. destruct (ready (libs (run n sched) l)); lia.
Qed.

(* no thread other than the initializing one runs an extern "Python" function of l before l's
   initialization has finished (successfully) *)
Theorem no_early_extern n sched : bad (run n sched) = false.
Proof. apply (e_bad _ (iE _ (run_inv n sched))). Qed.

(* mutual exclusion of the three locks *)
Theorem slot_exclusive n sched t1 t2 :
  let s := run n sched in
  top_is spinpc (stacks s t1) = true -> top_is spinpc (stacks s t2) = true -> t1 = t2.
Proof.
  intros s H1 H2. pose proof (iB _ (run_inv n sched)) as B. fold s in B.
  destruct (stacks s t1) as [| [l1 p1] r1] eqn:E1; [discriminate|].
  destruct (stacks s t2) as [| [l2 p2] r2] eqn:E2; [discriminate|].
  pose proof (b_top s B t1 l1 p1 r1 E1 H1). pose proof (b_top s B t2 l2 p2 r2 E2 H2). congruence.
Qed.

Theorem mutex_exclusive n sched t1 t2 l :
  let s := run n sched in
  holds_lib l (stacks s t1) = true -> holds_lib l (stacks s t2) = true -> t1 = t2.
Proof. intros s. apply (iD _ (run_inv n sched)). Qed.

(* after a failed initialization: the state is final, _cffi_call_python_org stays NULL, the
   fast path is never enabled, and no step makes the library's extern "Python" function run:
   every call returns the zeroed result *)
Lemma fail_facts s l : Inv s -> ist (libs s l) = DoneFail ->
  called (libs s l) = true /\ org (libs s l) = false /\ switched (libs s l) = false.
Proof.
  intros H F. pose proof (e_lib _ (iE _ H) l) as K. unfold lib_ok in K. cbv zeta in K. rewrite F in K. tauto.
Qed.

Lemma fail_stable_step s tc l : Inv s -> ist (libs s l) = DoneFail -> ist (libs (cstep s tc) l) = DoneFail.
Proof.
  intros H F. destruct (fail_facts s l H F) as (C & O & Sw). destruct tc as [t c].
  ustep. cbv beta iota zeta. destruct (t <? nthr s) eqn:Ht; cbn [negb]; [|exact F].
  destruct (stacks s t) as [| [l0 p] rest] eqn:Hst; [destruct c; exact F|].
  assert (NI : l0 = l -> initpc p = false).
  { intros ->. destruct (initpc p) eqn:Ip; [|reflexivity].
    pose proof (e_run _ (iE _ H) t l p ltac:(rewrite Hst; left; reflexivity) Ip). congruence. }
  assert (NM : l0 = l -> p <> PMark).
  { intros -> ->. pose proof (e_mark _ (iE _ H) t l rest Hst). congruence. }
  destruct p; split_ifs; simp_state; split_ifs; simp_state; try exact F;
    unfold updf; destruct (Nat.eqb_spec l l0); subst; try exact F; cbn; try exact F;
    try (specialize (NI eq_refl); discriminate); try (exfalso; apply (NM eq_refl); reflexivity).
Qed.

Theorem failed_init_is_final n sched1 sched2 l :
  ist (libs (run n sched1) l) = DoneFail ->
  let s := run n (sched1 ++ sched2) in
  ist (libs s l) = DoneFail /\ org (libs s l) = false /\ switched (libs s l) = false.
Proof.
  intros F s. assert (E : s = fold_left cstep sched2 (run n sched1)).
  { unfold s. rewrite (proj1 (run_cstep n (sched1 ++ sched2))), (proj1 (run_cstep n sched1)). apply fold_left_app. }
  assert (G : forall sch st, Inv st -> ist (libs st l) = DoneFail -> ist (libs (fold_left cstep sch st) l) = DoneFail).
  { induction sch as [| tc sch IH]; intros st I X; cbn; [exact X|].
    apply IH; [apply step_inv; exact I | apply fail_stable_step; assumption]. }
  pose proof (G sched2 (run n sched1) (run_inv n sched1) F) as F'. rewrite <- E in F'.
  destruct (fail_facts s l (run_inv n (sched1 ++ sched2)) F') as (_ & O & Sw). auto.
Qed.

Theorem failed_init_never_runs_extern n sched l t c t' :
  let s := run n sched in
  ist (libs s l) = DoneFail ->
  In (l, PInPy) (stacks (cstep s (t, c)) t') -> In (l, PInPy) (stacks s t').
Proof.
  intros s F. destruct (fail_facts s l (run_inv n sched) F) as (C & O & Sw).
  destruct (Nat.eqb_spec t' t); [subst t' | rewrite step_other by assumption; auto].
  ustep. cbv beta iota zeta. destruct (t <? nthr s) eqn:Ht; cbn [negb]; [|auto].
  destruct (stacks s t) as [| [l0 p] rest] eqn:Hst.
  - destruct c; simp_state; rewrite ?updf_same, ?Hst; cbn; intuition discriminate.
  - destruct p; split_ifs; simp_state; split_ifs; simp_state; rewrite ?updf_same, ?Hst; cbn [In];
      try (intros [X | X]; [inversion X; subst; try discriminate; try congruence | auto]);
      try (intros [X | [X | X]]; [inversion X | auto | auto]); auto.
Qed.

(* a call that reaches the end of _cffi_start_python after a failed initialization returns the
   zeroed result *)
Theorem failed_init_returns_zero n sched l t c rest :
  let s := run n sched in
  ist (libs s l) = DoneFail -> (t <? nthr s) = true -> stacks s t = (l, PRet) :: rest ->
  stacks (cstep s (t, c)) t = rest /\ zeros (cstep s (t, c)) l = S (zeros s l).
Proof.
  intros s F Ht Hst. destruct (fail_facts s l (run_inv n sched) F) as (C & O & Sw).
  ustep. cbv beta iota zeta. rewrite Ht, Hst. cbn [negb]. rewrite O. simp_state.
  rewrite !updf_same. auto.
Qed.

(* ------------------------------------------------------------------ progress *)
Definition enabled (s : state) (t : nat) : Prop :=
  exists c, stacks (step s (t, c)) t <> stacks s t.

Lemma neq_cons {A} (x : A) l : l <> x :: l.
Proof. intros H. apply (f_equal (@length A)) in H. cbn in H. lia. Qed.
Lemma neq_cons2 {A} (x y : A) l : x :: y :: l <> y :: l.
Proof. intros H. apply (f_equal (@length A)) in H. cbn in H. lia. Qed.

Lemma enabled_top s t l p rest : gil s = None -> (t <? nthr s) = true -> stacks s t = (l, p) :: rest ->
  (p = PSpin -> spin s = None) -> (p = PCas1 -> cas (libs s l) = None) ->
  (p = PLock -> mutex_free s l t = true) -> enabled s t.
Proof.
  intros G Ht Hst Hs Hc Hl. exists COk. rewrite (step_cstep s _ G). ustep. cbv beta iota zeta. rewrite Ht, Hst. cbn [negb].
  destruct p; try rewrite (Hs eq_refl); try rewrite (Hc eq_refl); try rewrite (Hl eq_refl);
    split_ifs; simp_state; split_ifs; simp_state; rewrite ?updf_same;
    try (intros X; inversion X; fail); try apply neq_cons; try (intros X; symmetry in X; revert X; apply neq_cons).
Qed.

(* all calls go to one library *)
Definition single (s : state) (l0 : nat) : Prop := forall t f, In f (stacks s t) -> fst f = l0.

Lemma mutex_free_false s l t : mutex_free s l t = false ->
  exists u, u < nthr s /\ u <> t /\ holds_lib l (stacks s u) = true.
Proof.
  unfold mutex_free. intros F.
  assert (G : exists u, In u (seq 0 (nthr s)) /\ (Nat.eqb u t || negb (holds_lib l (stacks s u))) = false).
  { induction (seq 0 (nthr s)) as [| u us IH]; [discriminate|]. cbn [forallb] in F.
    apply andb_false_iff in F. destruct F as [F | F].
    - exists u. split; [left; reflexivity | exact F].
    - destruct (IH F) as (v & I & Fv). exists v. split; [right; exact I | exact Fv]. }
  destruct G as (u & I & Fu). apply in_seq in I. apply orb_false_iff in Fu. destruct Fu as (N & Hd).
  exists u. repeat split; [lia | apply Nat.eqb_neq; exact N | apply negb_false_iff; exact Hd].
Qed.

(* with one library — any number of threads, recursion from the init code and from the extern
   functions included — some thread can always move as long as a call is in progress *)
Theorem no_deadlock_one_library n sched l0 :
  let s := run n sched in
  single s l0 -> (exists t, busy s t = true) -> exists t, t < nthr s /\ enabled s t.
Proof.
  intros s Sg (t & Bt). pose proof (run_inv n sched) as [A B C D E]. fold s in A, B, C, D, E.
  pose proof (proj2 (run_cstep n sched)) as GN. fold s in GN.
  assert (LT : forall u, stacks s u <> [] -> (u <? nthr s) = true).
  { intros u Hu. apply Nat.ltb_lt. destruct (Nat.lt_ge_cases u (nthr s)); [assumption|].
    exfalso. apply Hu. apply (a_idle s A). assumption. }
  destruct (spin s) as [u|] eqn:Sp.
  { pose proof (b_holder s B u Sp) as T. destruct (stacks s u) as [| [l p] rest] eqn:Hu; [discriminate|].
    cbn in T. exists u. assert (Lu : (u <? nthr s) = true) by (apply LT; rewrite Hu; discriminate).
    split; [apply Nat.ltb_lt; exact Lu|].
    apply (enabled_top s u l p rest GN Lu Hu); intros ->; discriminate. }
  destruct (cas (libs s l0)) as [u|] eqn:Cs.
  { destruct (c_holder s C l0 u Cs) as (p & rest & Hu & Cp). exists u.
    assert (Lu : (u <? nthr s) = true) by (apply LT; rewrite Hu; discriminate).
    split; [apply Nat.ltb_lt; exact Lu|].
    apply (enabled_top s u l0 p rest GN Lu Hu); intros ->; discriminate. }
  (* no CAS cell is held *)
  assert (Free : forall u l p rest, stacks s u = (l, p) :: rest ->
                 (p = PLock -> mutex_free s l u = true) -> u < nthr s /\ enabled s u).
  { intros u l p rest Hu Hl. assert (Lu : (u <? nthr s) = true) by (apply LT; rewrite Hu; discriminate).
    split; [apply Nat.ltb_lt; exact Lu|]. apply (enabled_top s u l p rest GN Lu Hu); auto.
    intros ->. rewrite <- (Sg u (l, PCas1) ltac:(rewrite Hu; left; reflexivity)) in Cs. exact Cs. }
  unfold busy in Bt. destruct (stacks s t) as [| [l p] rest] eqn:Ht; [discriminate|].
  assert (El : l = l0) by (apply (Sg t (l, p)); rewrite Ht; left; reflexivity). subst l.
  destruct (mutex_free s l0 t) eqn:F.
  { exists t. apply (Free t l0 p rest Ht). auto. }
  destruct (mutex_free_false s l0 t F) as (u & Lu & Nu & Hu).
  destruct (stacks s u) as [| [l q] rest'] eqn:Su; [discriminate|].
  assert (El : l = l0) by (apply (Sg u (l, q)); rewrite Su; left; reflexivity). subst l.
  exists u. apply (Free u l0 q rest' Su). intros _.
  destruct (mutex_free s l0 u) eqn:Fu; [reflexivity|]. exfalso.
  destruct (mutex_free_false s l0 u Fu) as (v & _ & Nv & Hv).
  apply Nv. apply (D v u l0); [exact Hv | rewrite Su; exact Hu].
Qed.

(* ------------------------------------------------------------------ two libraries whose init
   codes call into each other: a schedule after which both threads wait for each other's mutex
   for ever.  Thread 0 initializes library 0 and, from its init code, calls library 1; thread 1
   initializes library 1 and calls library 0. *)
Definition go (t k : nat) : list (nat * choice) := repeat (t, COk) k.
Definition deadlock_schedule : list (nat * choice) :=
  (0, CCall 0) :: go 0 13 ++      (* thread 0: up to the init code of library 0 (initializes Python) *)
  (1, CCall 1) :: go 1 12 ++      (* thread 1: up to the init code of library 1 *)
  (0, CCall 1) :: go 0 7 ++       (* init code of library 0 calls library 1: blocks on its mutex *)
  (1, CCall 0) :: go 1 7.         (* init code of library 1 calls library 0: blocks on its mutex *)

Theorem two_libraries_deadlock :
  let s := run 2 deadlock_schedule in
  busy s 0 = true /\ busy s 1 = true /\ forall t c, cstep s (t, c) = s.
Proof.
  set (s := run 2 deadlock_schedule).
  assert (S0 : stacks s 0 = [(1, PLock); (0, PInitRun)]) by (vm_compute; reflexivity).
  assert (S1 : stacks s 1 = [(0, PLock); (1, PInitRun)]) by (vm_compute; reflexivity).
  assert (N : nthr s = 2) by (vm_compute; reflexivity).
  assert (F0 : mutex_free s 1 0 = false) by (vm_compute; reflexivity).
  assert (F1 : mutex_free s 0 1 = false) by (vm_compute; reflexivity).
  split; [unfold busy; rewrite S0; reflexivity|]. split; [unfold busy; rewrite S1; reflexivity|].
  intros t c. ustep. cbv beta iota zeta. rewrite N.
  destruct t as [| [| t]]; cbn [Nat.ltb Nat.leb negb].
  - rewrite S0, F0. reflexivity.
  - rewrite S1, F1. reflexivity.
  - reflexivity.
Qed.

(* ------------------------------------------------------------------ ranking: termination up to
   fairness.  Every step of a thread that changes its stack either starts a nested call (a
   decision of the user's init code / extern function, or of an idle thread), or returns from the
   innermost call, or moves the innermost call to a program point of strictly smaller rank; the
   stacks of the other threads are untouched (step_other).  A call therefore needs at most
   rank PCall = 18 own effective steps plus the steps of the nested calls its user code makes. *)
Definition rank (p : pc) : nat :=
  match p with
  | PCall => 18 | PSpin => 17 | PGilTest => 16 | PGilInit => 15 | PGilRelease => 14 | PCas1 => 13
  | PMTest => 12 | PMInit => 11 | PCas2 => 10 | PLock => 9 | PChk => 8 | PMark => 7 | PInitStart => 6
  | PInitRun => 5 | PInitOk => 4 | PInitFail => 4 | PRel => 3 | PRet => 2 | PInPy => 1
  end.

Inductive effect (old new : list frame) : Prop :=
| EffNone : new = old -> effect old new
| EffPush : forall l', new = (l', PCall) :: old -> (old = [] \/ exists l p r, old = (l, p) :: r /\ midpc p = true) ->
            effect old new
| EffPop : forall f, old = f :: new -> effect old new
| EffDown : forall l p p' r, old = (l, p) :: r -> new = (l, p') :: r -> rank p' < rank p -> effect old new.

Theorem bounded_steps s t c : effect (stacks s t) (stacks (cstep s (t, c)) t).
Proof.
  ustep. destruct (t <? nthr s) eqn:Ht; cbn [negb]; [|apply EffNone; reflexivity].
  destruct (stacks s t) as [| [l p] rest] eqn:Hst.
  - destruct c; simp_state; rewrite ?updf_same, ?Hst;
      [eapply EffPush; [reflexivity | left; reflexivity] | apply EffNone; reflexivity | apply EffNone; reflexivity].
  - destruct p; split_ifs; simp_state; split_ifs; simp_state; rewrite ?updf_same, ?Hst;
      try (apply EffNone; reflexivity);
      try (eapply EffDown; [reflexivity | reflexivity | cbn; lia]);
      try (eapply EffPop; reflexivity);
      try (eapply EffPush; [reflexivity | right; eauto 6]).
Qed.

(* after a failed initialization a call of that library never reaches the init code or the extern
   function: each of its effective steps lowers the rank within the "plain" program points, and it
   ends with the zeroed result *)
Definition plainpc (p : pc) : bool :=
  match p with PMark | PInitStart | PInitRun | PInitOk | PInitFail | PInPy => false | _ => true end.

Theorem failed_call_progress n sched l t c p rest :
  let s := run n sched in
  ist (libs s l) = DoneFail -> stacks s t = (l, p) :: rest -> plainpc p = true ->
  let s' := cstep s (t, c) in
  stacks s' t = stacks s t \/
  (exists p', stacks s' t = (l, p') :: rest /\ rank p' < rank p /\ plainpc p' = true) \/
  (p = PRet /\ stacks s' t = rest /\ zeros s' l = S (zeros s l)).
Proof.
  intros s F Hst Pp. destruct (fail_facts s l (run_inv n sched) F) as (C & O & Sw).
  ustep. destruct (t <? nthr s) eqn:Ht; cbn [negb]; [|left; reflexivity].
  rewrite Hst. destruct p; try discriminate; rewrite ?C, ?O, ?Sw;
    split_ifs; simp_state; split_ifs; simp_state; rewrite ?updf_same, ?Hst;
    try (left; reflexivity);
    try (right; left; eexists; split; [reflexivity | split; [cbn; lia | reflexivity]]);
    try (right; right; repeat split; reflexivity).
Qed.

(* ------------------------------------------------------------------ the GIL and [step] *)
Theorem gil_never_kept n sched : gil (run n sched) = None.
Proof. apply run_cstep. Qed.

(* libraries that do not call into each other: every thread's nested calls stay in one library *)
Definition independent (s : state) : Prop :=
  forall t l p r f, stacks s t = (l, p) :: r -> In f r -> fst f = l.

Theorem no_deadlock_independent n sched :
  let s := run n sched in
  independent s -> (exists t, busy s t = true) -> exists t, t < nthr s /\ enabled s t.
Proof.
  intros s Ind (t & Bt). pose proof (run_inv n sched) as [A B C D E]. fold s in A, B, C, D, E.
  pose proof (proj2 (run_cstep n sched)) as GN. fold s in GN.
  assert (LT : forall u, stacks s u <> [] -> (u <? nthr s) = true).
  { intros u Hu. apply Nat.ltb_lt. destruct (Nat.lt_ge_cases u (nthr s)); [assumption|].
    exfalso. apply Hu. apply (a_idle s A). assumption. }
  destruct (spin s) as [u|] eqn:Sp.
  { pose proof (b_holder s B u Sp) as T. destruct (stacks s u) as [| [l p] rest] eqn:Hu; [discriminate|].
    cbn in T. exists u. assert (Lu : (u <? nthr s) = true) by (apply LT; rewrite Hu; discriminate).
    split; [apply Nat.ltb_lt; exact Lu|].
    apply (enabled_top s u l p rest GN Lu Hu); intros ->; discriminate. }
  (* the slot is free.  A thread whose innermost call is not waiting for a mutex can move, unless
     it waits for a CAS cell, whose holder can move *)
  assert (Free : forall u l p rest, stacks s u = (l, p) :: rest ->
                 (p = PLock -> mutex_free s l u = true) -> exists v, v < nthr s /\ enabled s v).
  { intros u l p rest Hu Hl. assert (Lu : (u <? nthr s) = true) by (apply LT; rewrite Hu; discriminate).
    destruct (cas (libs s l)) as [v|] eqn:Cs.
    - destruct (c_holder s C l v Cs) as (q & r & Hv & Cq). exists v.
      assert (Lv : (v <? nthr s) = true) by (apply LT; rewrite Hv; discriminate).
      split; [apply Nat.ltb_lt; exact Lv|].
      apply (enabled_top s v l q r GN Lv Hv); intros ->; discriminate.
    - exists u. split; [apply Nat.ltb_lt; exact Lu|]. apply (enabled_top s u l p rest GN Lu Hu); auto. }
  unfold busy in Bt. destruct (stacks s t) as [| [l p] rest] eqn:Ht; [discriminate|].
  destruct (mutex_free s l t) eqn:F.
  { apply (Free t l p rest Ht). auto. }
  destruct (mutex_free_false s l t F) as (u & Lu & Nu & Hu).
  destruct (stacks s u) as [| [l' q] rest'] eqn:Su; [discriminate|].
  assert (El : l' = l).
  { unfold holds_lib in Hu. apply existsb_exists in Hu. destruct Hu as (f & I & Hf).
    apply andb_true_iff in Hf. destruct Hf as (Hf & _). apply Nat.eqb_eq in Hf.
    destruct I as [<- | I]; [exact Hf|]. rewrite <- (Ind u l' q rest' f Su I). exact Hf. }
  subst l'. apply (Free u l q rest' Su). intros _.
  destruct (mutex_free s l u) eqn:Fu; [reflexivity|]. exfalso.
  destruct (mutex_free_false s l u Fu) as (v & _ & Nv & Hv).
  apply Nv. apply (D v u l); [exact Hv | rewrite Su; exact Hu].
Qed.

(* the statements about one step, for the real [step] *)
Theorem failed_init_never_runs_extern_step n sched l t c t' :
  let s := run n sched in
  ist (libs s l) = DoneFail ->
  In (l, PInPy) (stacks (step s (t, c)) t') -> In (l, PInPy) (stacks s t').
Proof.
  intros s F. unfold s. rewrite (step_cstep _ _ (gil_never_kept n sched)).
  apply failed_init_never_runs_extern. exact F.
Qed.

Theorem failed_init_returns_zero_step n sched l t c rest :
  let s := run n sched in
  ist (libs s l) = DoneFail -> (t <? nthr s) = true -> stacks s t = (l, PRet) :: rest ->
  stacks (step s (t, c)) t = rest /\ zeros (step s (t, c)) l = S (zeros s l).
Proof.
  intros s F Ht Hst. unfold s. rewrite (step_cstep _ _ (gil_never_kept n sched)).
  apply failed_init_returns_zero; assumption.
Qed.

Theorem bounded_steps_step s t c : effect (stacks s t) (stacks (step s (t, c)) t).
Proof.
  destruct (step_cases s (t, c)) as [-> | ->]; [apply EffNone; reflexivity | apply bounded_steps].
Qed.

Theorem failed_call_progress_step n sched l t c p rest :
  let s := run n sched in
  ist (libs s l) = DoneFail -> stacks s t = (l, p) :: rest -> plainpc p = true ->
  let s' := step s (t, c) in
  stacks s' t = stacks s t \/
  (exists p', stacks s' t = (l, p') :: rest /\ rank p' < rank p /\ plainpc p' = true) \/
  (p = PRet /\ stacks s' t = rest /\ zeros s' l = S (zeros s l)).
Proof.
  intros s F Hst Pp. cbv zeta. unfold s. rewrite (step_cstep _ _ (gil_never_kept n sched)).
  apply failed_call_progress; assumption.
Qed.

Theorem two_libraries_deadlock_step :
  let s := run 2 deadlock_schedule in
  busy s 0 = true /\ busy s 1 = true /\ forall t c, step s (t, c) = s.
Proof.
  destruct two_libraries_deadlock as (B0 & B1 & H). repeat split; try assumption.
  intros t c. rewrite (step_cstep _ _ (gil_never_kept 2 deadlock_schedule)). apply H.
Qed.
