(* C28 — Embedded-library startup initializes once and never deadlocks.
   Statements only; proofs in C28/Proofs*.v.  [run n sched] is the state reached by n threads
   under ANY schedule (list of (thread, choice)); the number of threads, of libraries, the depth
   of recursion (init code and extern functions calling into libraries) and the outcome of
   every init code are arbitrary.  One step is one shared-memory access of _embedding.h.

   Hypotheses that are part of the model (named in the evidence): the CAS primitive is atomic;
   a pthread recursive mutex can be taken iff no other thread is between lock and unlock
   ([mutex_free]); memory is sequentially consistent (the code's write barrier / read barrier
   pair is not modelled); Py_InitializeEx, the module init function and the init code are
   single steps; the GIL is handed over fairly between threads that run Python. *)
From Coq Require Import Arith List Bool.
Import ListNotations.
From Cffi Require Import C28.Gen C28.Model C28.Proofs C28.Proofs2 C28.Proofs3 C28.Proofs4.

(* Python is initialized at most once *)
Theorem C28_py_initialize_at_most_once : forall n sched, pycount (run n sched) <= 1.
Proof. exact py_initialize_at_most_once. Qed.
Print Assumptions C28_py_initialize_at_most_once.

(* each library's init code runs at most once; its startup mutex is created at most once *)
Theorem C28_init_code_at_most_once : forall n sched l, icount (libs (run n sched) l) <= 1.
Proof. exact init_code_at_most_once. Qed.
Print Assumptions C28_init_code_at_most_once.

Theorem C28_mutex_init_at_most_once : forall n sched l, mcount (libs (run n sched) l) <= 1.
Proof. exact mutex_init_at_most_once. Qed.
Print Assumptions C28_mutex_init_at_most_once.

(* no thread runs a library's extern "Python" function before that library's initialization
   finished — except the initializing thread itself, from inside its init code (recursive
   calls are the documented exception; reading recorded in DESIGN.md Appendix B).  [bad] is set
   by [enter_py] whenever this is violated. *)
Theorem C28_no_early_extern : forall n sched, bad (run n sched) = false.
Proof. exact no_early_extern. Qed.
Print Assumptions C28_no_early_extern.

(* the process-wide slot and each library's mutex are exclusive *)
Theorem C28_slot_exclusive : forall n sched t1 t2,
  let s := run n sched in
  top_is spinpc (stacks s t1) = true -> top_is spinpc (stacks s t2) = true -> t1 = t2.
Proof. exact slot_exclusive. Qed.
Print Assumptions C28_slot_exclusive.

Theorem C28_mutex_exclusive : forall n sched t1 t2 l,
  let s := run n sched in
  holds_lib l (stacks s t1) = true -> holds_lib l (stacks s t2) = true -> t1 = t2.
Proof. exact mutex_exclusive. Qed.
Print Assumptions C28_mutex_exclusive.

(* after a failed initialization: it stays failed, the function pointer stays NULL, the fast
   path is never enabled, no step starts the library's extern "Python" function, and a call
   that comes back from _cffi_start_python returns the zeroed result *)
Theorem C28_failed_init_is_final : forall n sched1 sched2 l,
  ist (libs (run n sched1) l) = DoneFail ->
  let s := run n (sched1 ++ sched2) in
  ist (libs s l) = DoneFail /\ org (libs s l) = false /\ switched (libs s l) = false.
Proof. exact failed_init_is_final. Qed.
Print Assumptions C28_failed_init_is_final.

Theorem C28_failed_init_never_runs_extern : forall n sched l t c t',
  let s := run n sched in
  ist (libs s l) = DoneFail ->
  In (l, PInPy) (stacks (step s (t, c)) t') -> In (l, PInPy) (stacks s t').
Proof. exact failed_init_never_runs_extern_step. Qed.
Print Assumptions C28_failed_init_never_runs_extern.

Theorem C28_failed_init_returns_zero : forall n sched l t c rest,
  let s := run n sched in
  ist (libs s l) = DoneFail -> (t <? nthr s) = true -> stacks s t = (l, PRet) :: rest ->
  stacks (step s (t, c)) t = rest /\ zeros (step s (t, c)) l = S (zeros s l).
Proof. exact failed_init_returns_zero_step. Qed.
Print Assumptions C28_failed_init_returns_zero.

(* "every call terminates", one library: in every reachable state in which a call is in
   progress some thread can take a step that changes its own state (no deadlock); spinning
   threads wait only for a thread that can move.  Termination proper additionally needs a fair
   scheduler and terminating init code / extern functions (hypotheses, not modelled). *)
Theorem C28_no_deadlock_one_library : forall n sched l0,
  let s := run n sched in
  single s l0 -> (exists t, busy s t = true) -> exists t, t < nthr s /\ enabled s t.
Proof. exact no_deadlock_one_library. Qed.
Print Assumptions C28_no_deadlock_one_library.

(* The GIL.  A thread that returns from _cffi_initialize_python without PyGILState_Release keeps
   the GIL for ever ([gil s = Some t]) and every later PyGILState_Ensure of another thread (entry of
   _cffi_initialize_python of ANY library, entry of any extern function) blocks.  Whether the two
   exits release is the regenerated fact Gen.gen_init_exits (every return path of the function
   after PyGILState_Ensure is followed back to the labels it passes).  With the code as it is
   nobody ever keeps the GIL, whatever the schedule and the init outcomes: *)
Theorem C28_gil_never_kept : forall n sched, gil (run n sched) = None.
Proof. exact gil_never_kept. Qed.
Print Assumptions C28_gil_never_kept.

(* ... hence no deadlock for any number of libraries that do not call into each other (each
   thread's nested calls stay inside one library), e.g. library A's init fails in one thread and
   another thread then makes its first call into library B *)
Theorem C28_no_deadlock_independent_libraries : forall n sched,
  let s := run n sched in
  independent s -> (exists t, busy s t = true) -> exists t, t < nthr s /\ enabled s t.
Proof. exact no_deadlock_independent. Qed.
Print Assumptions C28_no_deadlock_independent_libraries.

(* Termination up to fairness (the pattern of C26_bounded_steps).  [rank] orders the program points
   of a call (PCall = 18 ... PInPy = 1).  Every step of thread t leaves its stack unchanged (it is
   blocked, idle or past nthr), or starts a nested call (only from the user's init code, an extern
   function or an idle thread), or returns from the innermost call, or moves the innermost call to a
   point of strictly smaller rank — and never touches another thread's stack (step_other).  So a
   call returns after at most 18 own effective steps plus the steps of the nested calls its user
   code makes; together with C28_no_deadlock_one_library (an effective step is always available
   to somebody) every call to a single library terminates under a weakly fair scheduler and
   terminating user code — those two are the hypotheses that are not formalised. *)
Theorem C28_bounded_steps : forall s t c, effect (stacks s t) (stacks (step s (t, c)) t).
Proof. exact bounded_steps_step. Qed.
Print Assumptions C28_bounded_steps.

(* ... and after a failed initialization a call of that library stays on the plain path (never
   the init code, never the extern function): each effective step lowers its rank, so within at
   most 18 own effective steps it is at PRet and returns the zeroed result.  (The failed state is
   permanent: C28_failed_init_is_final.) *)
Theorem C28_failed_call_progress : forall n sched l t c p rest,
  let s := run n sched in
  ist (libs s l) = DoneFail -> stacks s t = (l, p) :: rest -> plainpc p = true ->
  let s' := step s (t, c) in
  stacks s' t = stacks s t \/
  (exists p', stacks s' t = (l, p') :: rest /\ rank p' < rank p /\ plainpc p' = true) \/
  (p = PRet /\ stacks s' t = rest /\ zeros s' l = S (zeros s l)).
Proof. exact failed_call_progress_step. Qed.
Print Assumptions C28_failed_call_progress.

(* ... and the clause is FALSE for two libraries whose init codes call into each other: after
   this schedule both threads are inside a call and no step of any thread changes the state.
   The witness is replayed on the real code by the correspondence run (finding
   cross-library-init-deadlock). *)
Theorem C28_two_libraries_deadlock_refuted :
  let s := run 2 deadlock_schedule in
  busy s 0 = true /\ busy s 1 = true /\ forall t c, step s (t, c) = s.
Proof. exact two_libraries_deadlock_step. Qed.
Print Assumptions C28_two_libraries_deadlock_refuted.

(* non-vacuity: three threads race for one library whose init code fails; one initializes
   Python, one runs the init code, all three calls return the zeroed result *)
Example C28_example_fail :
  let race := [(0, CCall 0); (1, CCall 0); (2, CCall 0)] ++
              flat_map (fun _ => [(0, CFail); (1, CFail); (2, CFail)]) (seq 0 40) in
  observe (run 3 race) 1 = (1, false, [(1, 1, 3, 3)], [0; 0; 0]).
Proof. vm_compute. reflexivity. Qed.
