(* C28 — Embedded-library startup initializes once and never deadlocks.
   Statements only; proofs in C28/Proofs*.v.  [run n sched] is the state reached by n threads
   under ANY schedule (list of (thread, choice)); the number of threads, of libraries, the depth
   of recursion (init code and extern functions calling into libraries) and the outcome of
   every init code are arbitrary.  One step is one shared-memory access of _embedding.h.

   Hypotheses that are part of the model (named in the evidence): the CAS primitive is atomic;
   a pthread recursive mutex can be taken iff no other thread is between lock and unlock
   ([mutex_free]); memory is sequentially consistent (the code's write barrier / read barrier
   pair is not modelled); Py_InitializeEx, the module init function and the init code are
   single steps; the GIL is handed over fairly between threads that run Python.

   [step] consults five facts that tools/props/c28.py reads from _embedding.h on every run
   (C28/Gen.v): gen_switch_in_success, gen_init_exits, gen_guard_released_before_lock,
   gen_zero_on_null, gen_fail_resets_org.  The proofs are about [cstep = core true true true true]
   and are transferred to [step] by Proofs.step_cases / step_cstep, which only check when every
   fact has the value of the code as it is. *)
From Coq Require Import Arith List Bool.
Import ListNotations.
From Cffi Require Import C28.Gen C28.Model C28.Proofs C28.Proofs2 C28.Proofs3 C28.Proofs4 C28.Proofs5.

(* Python is initialized at most once *)
Theorem C28_py_initialize_at_most_once : forall n sched, pycount (run n sched) <= 1.
Proof. exact py_initialize_at_most_once. Qed.
Print Assumptions C28_py_initialize_at_most_once.

(* each library's init code runs at most once; its startup mutex is created at most once *)
Theorem C28_init_code_at_most_once : forall n sched l, icount (libs (run n sched) l) <= 1.
Proof. exact init_code_at_most_once. Qed.
Print Assumptions C28_init_code_at_most_once.

Theorem C28_mutex_init_at_most_once : forall n sched l, mcount (libs (run n sched) l) <= 1.
Proof. exact mutex_init_at_most_once. Qed.
Print Assumptions C28_mutex_init_at_most_once.

(* no thread runs a library's extern "Python" function before that library's initialization
   finished — except the initializing thread itself, from inside its init code (recursive
   calls are the documented exception; reading recorded in DESIGN.md Appendix B).  [bad] is set
   by [enter_py] whenever this is violated. *)
Theorem C28_no_early_extern : forall n sched, bad (run n sched) = false.
Proof. exact no_early_extern. Qed.
Print Assumptions C28_no_early_extern.

(* the process-wide slot and each library's mutex are exclusive *)
Theorem C28_slot_exclusive : forall n sched t1 t2,
  let s := run n sched in
  top_is spinpc (stacks s t1) = true -> top_is spinpc (stacks s t2) = true -> t1 = t2.
Proof. exact slot_exclusive. Qed.
Print Assumptions C28_slot_exclusive.

Theorem C28_mutex_exclusive : forall n sched t1 t2 l,
  let s := run n sched in
  holds_lib l (stacks s t1) = true -> holds_lib l (stacks s t2) = true -> t1 = t2.
Proof. exact mutex_exclusive. Qed.
Print Assumptions C28_mutex_exclusive.

(* after a failed initialization: it stays failed, the function pointer stays NULL, the fast
   path is never enabled, no step starts the library's extern "Python" function, and a call
   that comes back from _cffi_start_python returns the zeroed result *)
Theorem C28_failed_init_is_final : forall n sched1 sched2 l,
  ist (libs (run n sched1) l) = DoneFail ->
  let s := run n (sched1 ++ sched2) in
  ist (libs s l) = DoneFail /\ org (libs s l) = false /\ switched (libs s l) = false.
Proof. exact failed_init_is_final. Qed.
Print Assumptions C28_failed_init_is_final.

Theorem C28_failed_init_never_runs_extern : forall n sched l t c t',
  let s := run n sched in
  ist (libs s l) = DoneFail ->
  In (l, PInPy) (stacks (step s (t, c)) t') -> In (l, PInPy) (stacks s t').
Proof. exact failed_init_never_runs_extern_step. Qed.
Print Assumptions C28_failed_init_never_runs_extern.

Theorem C28_failed_init_returns_zero : forall n sched l t c rest,
  let s := run n sched in
  ist (libs s l) = DoneFail -> (t <? nthr s) = true -> stacks s t = (l, PRet) :: rest ->
  stacks (step s (t, c)) t = rest /\ zeros (step s (t, c)) l = S (zeros s l).
Proof. exact failed_init_returns_zero_step. Qed.
Print Assumptions C28_failed_init_returns_zero.

(* "every call terminates", one library: in every reachable state in which a call is in
   progress some thread can take a step that changes its own state (no deadlock); spinning
   threads wait only for a thread that can move.  Termination proper additionally needs a fair
   scheduler and terminating init code / extern functions (hypotheses, not modelled). *)
Theorem C28_no_deadlock_one_library : forall n sched l0,
  let s := run n sched in
  single s l0 -> (exists t, busy s t = true) -> exists t, t < nthr s /\ enabled s t.
Proof. exact no_deadlock_one_library. Qed.
Print Assumptions C28_no_deadlock_one_library.

(* The GIL.  A thread that returns from _cffi_initialize_python without PyGILState_Release keeps
   the GIL for ever ([gil s = Some t]) and every later PyGILState_Ensure of another thread (entry of
   _cffi_initialize_python of ANY library, entry of any extern function) blocks.  Whether the two
   exits release is the regenerated fact Gen.gen_init_exits (every return path of the function
   after PyGILState_Ensure is followed back to the labels it passes).  With the code as it is
   nobody ever keeps the GIL, whatever the schedule and the init outcomes: *)
Theorem C28_gil_never_kept : forall n sched, gil (run n sched) = None.
Proof. exact gil_never_kept. Qed.
Print Assumptions C28_gil_never_kept.

(* ... hence no deadlock for any number of libraries that do not call into each other (each
   thread's nested calls stay inside one library), e.g. library A's init fails in one thread and
   another thread then makes its first call into library B *)
Theorem C28_no_deadlock_independent_libraries : forall n sched,
  let s := run n sched in
  independent s -> (exists t, busy s t = true) -> exists t, t < nthr s /\ enabled s t.
Proof. exact no_deadlock_independent. Qed.
Print Assumptions C28_no_deadlock_independent_libraries.

(* The one-step SHAPE lemma behind the bound below (it states no bound by itself).  [rank] orders the
   program points of a call (PCall = 18 ... PInPy = 1).  Every step of thread t leaves its stack
   unchanged (it is blocked, idle or past nthr), or starts a nested call (only from the user's init
   code, an extern function or an idle thread), or returns from the innermost call, or moves the
   innermost call to a point of strictly smaller rank. *)
Theorem C28_bounded_steps : forall s t c, effect (stacks s t) (stacks (step s (t, c)) t).
Proof. exact bounded_steps_step. Qed.
Print Assumptions C28_bounded_steps.

(* The bound.  [weight s] = sum over the threads t < nthr s and over the frames (l, p) of t's stack
   of [rank p]; [total_frames s] = the number of calls in progress (nested ones included).  For ANY
   state s (reachable or not), thread t and choice c:
   - a step that leaves t's stack unchanged leaves the whole state unchanged (stuttering);
   - a step that changes it and does not start a call (c = COk / CFail) strictly decreases the weight;
   - a step that starts a call adds at most 18;
   - weight s <= 18 * total_frames s. *)
Theorem C28_stutter : forall s t c, stacks (step s (t, c)) t = stacks s t -> step s (t, c) = s.
Proof. exact stutter. Qed.
Print Assumptions C28_stutter.

Theorem C28_weight_decreases : forall s t c, is_call c = false ->
  stacks (step s (t, c)) t <> stacks s t -> weight (step s (t, c)) < weight s.
Proof. exact weight_decreases. Qed.
Print Assumptions C28_weight_decreases.

Theorem C28_weight_call : forall s t l, weight (step s (t, CCall l)) <= weight s + 18.
Proof. exact weight_call. Qed.
Print Assumptions C28_weight_call.

Theorem C28_weight_bound : forall s, weight s <= 18 * total_frames s.
Proof. exact weight_bound. Qed.
Print Assumptions C28_weight_bound.

(* ... hence, from any state and under ANY schedule segment in which no further call is started
   (any number of libraries, fair or not): the number of effective (state-changing) steps is at most
   the weight that is lost, so at most weight s <= 18 * total_frames s.  Everything beyond that
   is stuttering (spinning on a CAS cell, waiting for a mutex). *)
Theorem C28_effective_steps_bounded : forall seg s, nocall seg ->
  eff_count s seg + weight (fold_left step seg s) <= weight s.
Proof. exact effective_steps_bounded. Qed.
Print Assumptions C28_effective_steps_bounded.

Theorem C28_effective_steps_bounded_frames : forall seg s, nocall seg ->
  eff_count s seg <= 18 * total_frames s.
Proof. exact effective_steps_bounded_frames. Qed.
Print Assumptions C28_effective_steps_bounded_frames.

(* "Every call terminates", with a bound, under a bounded-fair scheduler.  s is any state reached by n
   threads; the libraries in use do not call into each other (in particular: one library).  The
   scheduler then runs [rounds]: in each round every thread is scheduled at least once, in any
   order and any number of times, and no further call is started (the init codes / extern
   functions that are running return: COk or CFail, chosen by the schedule).  As long as a call is
   in progress every round contains an effective step (no deadlock: the thread found by
   C28_no_deadlock_* moves whatever non-call choice it gets, and if somebody else moved first that
   was an effective step too), so after weight s <= 18 * total_frames s rounds NO call is in progress:
   every call has returned.  Not covered: init codes that call across libraries (refuted below) and
   schedules in which user code keeps starting nested calls for ever. *)
Theorem C28_independent_libraries_terminate : forall rounds n sched,
  let s := run n sched in
  independent s ->
  (forall seg, In seg rounds -> round n seg /\ nocall seg) ->
  weight s <= length rounds ->
  forall t, busy (fold_left step (concat rounds) s) t = false.
Proof. exact independent_terminates. Qed.
Print Assumptions C28_independent_libraries_terminate.

Theorem C28_single_library_terminates : forall rounds n sched l0,
  let s := run n sched in
  single s l0 ->
  (forall seg, In seg rounds -> round n seg /\ nocall seg) ->
  18 * total_frames s <= length rounds ->
  forall t, busy (fold_left step (concat rounds) s) t = false.
Proof. exact single_library_terminates. Qed.
Print Assumptions C28_single_library_terminates.

(* ... and after a failed initialization a call of that library stays on the plain path (never
   the init code, never the extern function): each effective step lowers its rank within the plain
   program points (one-step statement; the number of effective steps is bounded by
   C28_effective_steps_bounded) until it is at PRet and returns the zeroed result.  (The failed
   state is permanent: C28_failed_init_is_final.) *)
Theorem C28_failed_call_progress : forall n sched l t c p rest,
  let s := run n sched in
  ist (libs s l) = DoneFail -> stacks s t = (l, p) :: rest -> plainpc p = true ->
  let s' := step s (t, c) in
  stacks s' t = stacks s t \/
  (exists p', stacks s' t = (l, p') :: rest /\ rank p' < rank p /\ plainpc p' = true) \/
  (p = PRet /\ stacks s' t = rest /\ zeros s' l = S (zeros s l)).
Proof. exact failed_call_progress_step. Qed.
Print Assumptions C28_failed_call_progress.

(* ... and the clause is FALSE for two libraries whose init codes call into each other: after
   this schedule both threads are inside a call and no step of any thread changes the state.
   The witness is replayed on the real code by the correspondence run (finding
   cross-library-init-deadlock). *)
Theorem C28_two_libraries_deadlock_refuted :
  let s := run 2 deadlock_schedule in
  busy s 0 = true /\ busy s 1 = true /\ forall t c, step s (t, c) = s.
Proof. exact two_libraries_deadlock_step. Qed.
Print Assumptions C28_two_libraries_deadlock_refuted.

(* non-vacuity: three threads race for one library whose init code fails; one initializes
   Python, one runs the init code, all three calls return the zeroed result *)
Example C28_example_fail :
  let race := [(0, CCall 0); (1, CCall 0); (2, CCall 0)] ++
              flat_map (fun _ => [(0, CFail); (1, CFail); (2, CFail)]) (seq 0 40) in
  observe (run 3 race) 1 = (1, false, [(1, 1, 3, 3)], [0; 0; 0]).
Proof. vm_compute. reflexivity. Qed.

(* non-vacuity of C28_single_library_terminates: two threads have just called into library 0
   (weight 36 = 18 * 2 frames); 36 rounds "thread 1, then thread 0", thread 1's init code fails:
   the hypotheses hold and, as the theorem says, nobody is busy any more; Python and the init code
   ran once and both calls returned the zeroed result *)
Example C28_example_rounds :
  let s := run 2 [(0, CCall 0); (1, CCall 0)] in
  let rounds := repeat [(1, CFail); (0, COk)] 36 in
  single s 0 /\ weight s = 36 /\ 18 * total_frames s = length rounds /\
  (forall seg, In seg rounds -> round 2 seg /\ nocall seg) /\
  (forall t, busy (fold_left step (concat rounds) s) t = false) /\
  observe (fold_left step (concat rounds) s) 1 = (1, false, [(1, 1, 2, 3)], [0; 0]).
Proof.
  intros s rounds.
  assert (Sg : single s 0).
  { intros t f I. destruct t as [| [| t]]; vm_compute in I; intuition (subst; reflexivity). }
  assert (R : forall seg, In seg rounds -> round 2 seg /\ nocall seg).
  { intros seg I. apply repeat_spec in I. subst seg. split.
    - intros t Ht. destruct t as [| [| t]]; [exists COk; right; left; reflexivity | exists CFail; left; reflexivity |].
      exfalso. apply Nat.succ_lt_mono, Nat.succ_lt_mono in Ht. inversion Ht.
    - repeat constructor. }
  assert (W : 18 * total_frames s = length rounds) by (vm_compute; reflexivity).
  split; [exact Sg|]. split; [vm_compute; reflexivity|]. split; [exact W|]. split; [exact R|].
  split; [|vm_compute; reflexivity].
  apply (C28_single_library_terminates rounds 2 _ 0 Sg R). change (18 * total_frames s <= length rounds). rewrite W. constructor.
Qed.

(* non-vacuity of [independent] with two libraries (C28_no_deadlock_independent_libraries,
   C28_independent_libraries_terminate): thread 0 is in the init code of library 0 and has called
   library 0 again from there, thread 1 has called library 1; no single library covers the state;
   some thread is enabled, and after 41 = weight s rounds nobody is busy *)
Example C28_example_independent :
  let s := run 2 ((0, CCall 0) :: go 0 13 ++ [(0, CCall 0); (1, CCall 1)]) in
  let rounds := repeat [(1, CFail); (0, COk)] 41 in
  stacks s 0 = [(0, PCall); (0, PInitRun)] /\ stacks s 1 = [(1, PCall)] /\
  independent s /\ (forall l0, ~ single s l0) /\ weight s = length rounds /\
  (exists t, t < nthr s /\ enabled s t) /\
  (forall t, busy (fold_left step (concat rounds) s) t = false) /\
  observe (fold_left step (concat rounds) s) 2 = (1, false, [(1, 1, 0, 2); (1, 1, 1, 3)], [0; 0]).
Proof.
  intros s rounds.
  assert (S0 : stacks s 0 = [(0, PCall); (0, PInitRun)]) by (vm_compute; reflexivity).
  assert (S1 : stacks s 1 = [(1, PCall)]) by (vm_compute; reflexivity).
  assert (Ind : independent s).
  { intros t l p r f H I. destruct t as [| [| t]].
    - rewrite S0 in H. inversion H; subst. destruct I as [<- | []]. reflexivity.
    - rewrite S1 in H. inversion H; subst. destruct I.
    - vm_compute in H. discriminate. }
  assert (R : forall seg, In seg rounds -> round 2 seg /\ nocall seg).
  { intros seg I. apply repeat_spec in I. subst seg. split.
    - intros t Ht. destruct t as [| [| t]]; [exists COk; right; left; reflexivity | exists CFail; left; reflexivity |].
      exfalso. apply Nat.succ_lt_mono, Nat.succ_lt_mono in Ht. inversion Ht.
    - repeat constructor. }
  assert (W : weight s = length rounds) by (vm_compute; reflexivity).
  split; [exact S0|]. split; [exact S1|]. split; [exact Ind|]. split; [|split; [exact W|]].
  2: split; [|split; [|vm_compute; reflexivity]].
  - intros l0 Sg. pose proof (Sg 0 (0, PCall) ltac:(rewrite S0; left; reflexivity)) as A.
    pose proof (Sg 1 (1, PCall) ltac:(rewrite S1; left; reflexivity)) as B. cbn in A, B. congruence.
  - apply (C28_no_deadlock_independent_libraries 2 _ Ind). exists 0. unfold busy. fold s. rewrite S0. reflexivity.
  - apply (C28_independent_libraries_terminate rounds 2 _ Ind R). change (weight s <= length rounds). rewrite W. constructor.
Qed.
