(* C32 — value universe of verify() keyword arguments and the Python primitives (isinstance tests,
   dict access) that the regenerated model coq/C32/Gen.v is written in.  Definitions only.

   Gen.v is produced on every run by tools/props/c32.py `regen` from
     src/cffi/ffiplatform.py:91 _flatten, :110 flatten         (generic translator c35_trans.py)
     src/cffi/verifier.py:31 Verifier.__init__, the `else:` branch computing key, k1, k2, modulename
                                                                (shape-matched driver)
   Universe: str, int, bool, list, tuple, dict with str keys, and "anything else" (POther: float,
   None, bytes, ...: _flatten raises TypeError).  Dict keys other than str are outside the universe
   (the keyword dictionary of verify itself only has str keys; nested dicts with non-str keys are not modelled). *)
From Coq Require Import List NArith ZArith Bool.
Import ListNotations.
From Cffi Require Import C35.PyStr C35.Model C32.PyStr C24.Utf8.

Inductive pyval :=
| PStr (s : str)
| PInt (z : Z)
| PBool (b : bool)
| PList (l : list pyval)
| PTuple (l : list pyval)
| PDict (kvs : list (str * pyval))       (* insertion order; keys distinct *)
| POther (tag : N).

(* isinstance(x, str) etc.: the refined value when the test succeeds *)
Definition py_as_str (x : pyval) : option str := match x with PStr s => Some s | _ => None end.
Definition py_as_dict (x : pyval) : option (list (str * pyval)) :=
  match x with PDict kvs => Some kvs | _ => None end.
Definition py_as_seq (x : pyval) : option (list pyval) :=
  match x with PList l | PTuple l => Some l | _ => None end.
(* isinstance(x, int): bool is a subclass of int; True formats as 1 *)
Definition py_as_int (x : pyval) : option Z :=
  match x with PInt z => Some z | PBool b => Some (if b then 1%Z else 0%Z) | _ => None end.

(* x.keys() / x[key] on a dict *)
Definition pd_keys (kvs : list (str * pyval)) : list str := map fst kvs.
Fixpoint pd_get (kvs : list (str * pyval)) (k : str) : res pyval :=
  match kvs with
  | [] => Err KeyError
  | (k', v) :: kvs' => if str_eqb k k' then Ok v else pd_get kvs' k
  end.

(* key.encode('utf-8'): UnicodeEncodeError (a ValueError) for lone surrogates *)
Definition py_encode_utf8 (s : str) : res (list N) :=
  match utf8_encode s with Some b => Ok b | None => Err ValueError end.

(* an FFI as the user builds it: its cdef() strings and include()d FFIs, in call order (include() takes the
   included FFI as it is at that moment).  ffi._cdefsources — what Verifier.__init__ hashes — is computed from this
   by FFI._cdef / FFI.include (api.py:112, :510): regenerated in Gen.v as `cdefsources`. *)
Inductive ffi_item := ICdef (s : str) | IInclude (u : list ffi_item).

Fixpoint mapM {A B} (f : A -> res B) (l : list A) : res (list B) :=
  match l with
  | [] => Ok []
  | a :: l' => bind (f a) (fun b => bind (mapM f l') (fun bs => Ok (b :: bs)))
  end.
