(* C32 — from the user's inputs to the hashed list: `cdefsources` (regenerated from FFI._cdef / FFI.include) is
   injective on FFI trees whose cdef strings are not the include markers (bracket matching), and the key is
   injective in (version, verifier version, source, kwargs, FFI tree). *)
From Coq Require Import List NArith ZArith Bool Lia.
Import ListNotations.
From Cffi Require Import C35.PyStr C35.Model C35.Lemmas C24.Utf8 C32.PyStr C32.Model C32.Spec C32.Gen C32.Proofs.
Open Scope N_scope.

(* the two markers differ — with '[' '[' this is where the proofs break *)
Lemma markers_distinct : include_first <> include_last.
Proof. discriminate. Qed.

Lemma include_block_shape inner : include_block inner = include_first :: inner ++ [include_last].
Proof. reflexivity. Qed.

(* no cdef string is one of the markers (ffi.cdef refuses "[" and "]": they are not C declarations) *)
Fixpoint wf_item (it : ffi_item) : bool :=
  match it with
  | ICdef s => negb (str_eqb s include_first) && negb (str_eqb s include_last)
  | IInclude u => forallb wf_item u
  end.
Definition wf_tree (t : list ffi_item) : bool := forallb wf_item t.

Definition stops (r : list str) : Prop := r = [] \/ exists r', r = include_last :: r'.

Lemma cdefsources_cons it t : cdefsources (it :: t) = cdefsources_item it ++ cdefsources t.
Proof. reflexivity. Qed.

Lemma wf_cdef s : wf_item (ICdef s) = true -> s <> include_first /\ s <> include_last.
Proof.
  cbn [wf_item]. rewrite andb_true_iff, !negb_true_iff. intros [A B]. split; intros ->; rewrite str_eqb_refl in *; discriminate.
Qed.

Lemma cons_inj {A} (a b : A) l m : a :: l = b :: m -> a = b /\ l = m.
Proof. intros H. inversion H. auto. Qed.

Local Opaque include_first include_last.

Lemma cdefsources_prefix : forall n t1 t2 r1 r2, (length (cdefsources t1) <= n)%nat ->
  wf_tree t1 = true -> wf_tree t2 = true -> stops r1 -> stops r2 ->
  cdefsources t1 ++ r1 = cdefsources t2 ++ r2 -> t1 = t2 /\ r1 = r2.
Proof.
  induction n as [|n IH]; intros t1 t2 r1 r2 L W1 W2 S1 S2 E.
  - (* no tokens at all on the left *)
    destruct t1 as [|[s|u] t1]; [|cbn in L; lia|cbn in L; lia].
    destruct t2 as [|[s2|u2] t2]; [cbn in E; split; auto| |]; exfalso; cbn in E, W2; apply andb_true_iff in W2; destruct W2 as [W2 _].
    + destruct (wf_cdef _ W2) as [_ X]. destruct S1 as [->|[r' ->]]; [discriminate|]. apply cons_inj in E; destruct E as [E _]. congruence.
    + destruct S1 as [->|[r' ->]]; [discriminate|]. apply cons_inj in E; destruct E as [E _]. apply markers_distinct. congruence.
  - destruct t1 as [|[s|u] t1].
    + destruct t2 as [|[s2|u2] t2]; [cbn in E; split; auto| |]; exfalso; cbn in E, W2; apply andb_true_iff in W2; destruct W2 as [W2 _].
      * destruct (wf_cdef _ W2) as [_ X]. destruct S1 as [->|[r' ->]]; [discriminate|]. apply cons_inj in E; destruct E as [E _]. congruence.
      * destruct S1 as [->|[r' ->]]; [discriminate|]. apply cons_inj in E; destruct E as [E _]. apply markers_distinct. congruence.
    + (* a cdef string first *)
      cbn [wf_tree forallb] in W1. apply andb_true_iff in W1. destruct W1 as [Ws W1].
      destruct (wf_cdef _ Ws) as [A B].
      rewrite cdefsources_cons in E, L. cbn [cdefsources_item cdef_block app] in E, L.
      destruct t2 as [|[s2|u2] t2].
      * exfalso. cbn in E. destruct S2 as [->|[r' ->]]; [discriminate|]. apply cons_inj in E; destruct E as [E _]. congruence.
      * cbn [wf_tree forallb] in W2. apply andb_true_iff in W2. destruct W2 as [_ W2].
        rewrite cdefsources_cons in E. cbn [cdefsources_item cdef_block app] in E. apply cons_inj in E; destruct E as [-> E].
        destruct (IH t1 t2 r1 r2) as [-> ->]; auto. cbn in L. lia.
      * exfalso. rewrite cdefsources_cons in E. cbn [cdefsources_item] in E. rewrite include_block_shape in E.
        cbn [app] in E. apply cons_inj in E; destruct E as [E _]. congruence.
    + (* an include block first *)
      cbn [wf_tree forallb wf_item] in W1. apply andb_true_iff in W1. destruct W1 as [Wu W1].
      rewrite cdefsources_cons in E, L. cbn [cdefsources_item] in E, L. rewrite include_block_shape in E, L.
      cbn [app] in E, L. rewrite <- app_assoc in E. cbn [app] in E.
      destruct t2 as [|[s2|u2] t2].
      * exfalso. cbn in E. destruct S2 as [->|[r' ->]]; [discriminate|]. apply cons_inj in E; destruct E as [E _]. apply markers_distinct. auto.
      * exfalso. cbn [wf_tree forallb] in W2. apply andb_true_iff in W2. destruct W2 as [W2 _].
        destruct (wf_cdef _ W2) as [X _]. rewrite cdefsources_cons in E. cbn in E. apply cons_inj in E; destruct E as [E _]. congruence.
      * cbn [wf_tree forallb wf_item] in W2. apply andb_true_iff in W2. destruct W2 as [Wu2 W2].
        rewrite cdefsources_cons in E. cbn [cdefsources_item] in E. rewrite include_block_shape in E.
        cbn [app] in E. rewrite <- !app_assoc in E. cbn [app] in E. apply cons_inj in E; destruct E as [_ E].
        change (flat_map cdefsources_item u) with (cdefsources u) in E, L.
        change (flat_map cdefsources_item u2) with (cdefsources u2) in E.
        cbn [length] in L. rewrite !app_length in L. cbn [length] in L.
        assert (u = u2 /\ include_last :: cdefsources t1 ++ r1 = include_last :: cdefsources t2 ++ r2) as [-> E2].
        { apply (IH u u2); auto; try lia; try (right; eauto). }
        apply cons_inj in E2; destruct E2 as [_ E2].
        destruct (IH t1 t2 r1 r2) as [-> ->]; auto. lia.
Qed.

Theorem cdefsources_injective : forall t1 t2, wf_tree t1 = true -> wf_tree t2 = true ->
  cdefsources t1 = cdefsources t2 -> t1 = t2.
Proof.
  intros t1 t2 W1 W2 E.
  destruct (cdefsources_prefix (length (cdefsources t1)) t1 t2 [] []) as [A _]; auto; try (left; reflexivity).
  rewrite !app_nil_r. auto.
Qed.

(* the inputs the property names: Python version text, verifier version, C source, keyword arguments, and the FFI
   with its cdef strings and include structure *)
Record user_inputs := { u_version : str; u_vvm : str; u_preamble : str; u_kwds : list (str * pyval);
                        u_ffi : list ffi_item }.

Definition to_inputs (u : user_inputs) : inputs :=
  {| i_version := u_version u; i_vvm := u_vvm u; i_preamble := u_preamble u; i_kwds := u_kwds u;
     i_sources := cdefsources (u_ffi u) |}.

Definition user_key (fuel : nat) (u : user_inputs) : res str := key_of fuel (to_inputs u).

Definition wf_user (u : user_inputs) : Prop :=
  nulfree (u_version u) /\ nulfree (u_vvm u) /\ nulfree (u_preamble u) /\
  Forall nulfree (cdefsources (u_ffi u)) /\ wf_tree (u_ffi u) = true.

Theorem user_key_injective : forall fuel fuel' u v k, wf_user u -> wf_user v ->
  user_key fuel u = Ok k -> user_key fuel' v = Ok k ->
  u_version u = u_version v /\ u_vvm u = u_vvm v /\ u_preamble u = u_preamble v /\
  veq (PDict (u_kwds u)) (PDict (u_kwds v)) /\ u_ffi u = u_ffi v.
Proof.
  intros fuel fuel' u v k [A1 [A2 [A3 [A4 A5]]]] [B1 [B2 [B3 [B4 B5]]]] Hu Hv.
  destruct (key_injective fuel fuel' (to_inputs u) (to_inputs v) k) as [E1 [E2 [E3 [E4 E5]]]]; auto.
  - repeat split; auto.
  - repeat split; auto.
  - cbn in *. repeat split; auto. apply cdefsources_injective; auto.
Qed.
