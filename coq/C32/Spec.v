(* C32 — specification vocabulary, written independently of the regenerated model:
   encf   the encoding that flatten is meant to produce (length/arity-prefixed, tagged, dict keys sorted),
          as a function with the same fuel discipline (recursion through dict lookups is not structural)
   veq    equality of values "as far as flatten can see": list = tuple, True = 1, dict order irrelevant
          (DESIGN Appendix B, recorded reading)
   supported / depth   the value universe and the fuel that suffices. *)
From Coq Require Import List NArith ZArith Bool.
Import ListNotations.
From Cffi Require Import C35.PyStr C35.Model C32.PyStr C32.Model.
Open Scope N_scope.

Definition hdr (n : Z) (tag : N) : str := py_dec n ++ [tag].

Fixpoint encf (fuel : nat) (v : pyval) : res str :=
  match fuel with
  | O => Err OutOfFuel
  | S fuel =>
    match v with
    | PStr s => Ok (hdr (py_len s) 115 ++ s)                                     (* <len>s<text> *)
    | PInt z => Ok (hdr z 105)                                                   (* <int>i *)
    | PBool b => Ok (hdr (if b then 1 else 0) 105)
    | PList l | PTuple l =>
        bind (mapM (encf fuel) l) (fun es => Ok (hdr (py_len l) 108 ++ concat es))   (* <n>l items *)
    | PDict kvs =>
        let ks := py_sorted_str (pd_keys kvs) in
        bind (mapM (fun k => bind (encf fuel (PStr k)) (fun ek =>
                             bind (pd_get kvs k) (fun v =>
                             bind (encf fuel v) (fun ev => Ok (ek ++ ev))))) ks)
             (fun es => Ok (hdr (py_len ks) 100 ++ concat es))                   (* <n>d key value ... *)
    | POther _ => Err TypeError
    end
  end.

Inductive veq : pyval -> pyval -> Prop :=
| veq_str s : veq (PStr s) (PStr s)
| veq_int x y z : py_as_int x = Some z -> py_as_int y = Some z -> veq x y
| veq_seq x y l l' : py_as_seq x = Some l -> py_as_seq y = Some l' -> Forall2 veq l l' -> veq x y
| veq_dict kvs kvs' :
    (forall k, In k (pd_keys kvs) <-> In k (pd_keys kvs')) ->
    (forall k v, pd_get kvs k = Ok v -> exists v', pd_get kvs' k = Ok v' /\ veq v v') ->
    veq (PDict kvs) (PDict kvs').

Fixpoint supported (v : pyval) : bool :=
  match v with
  | PStr _ | PInt _ | PBool _ => true
  | PList l | PTuple l => forallb supported l
  | PDict kvs => forallb (fun kv => let '(_, x) := kv in supported x) kvs
  | POther _ => false
  end.

Fixpoint depth (v : pyval) : nat :=
  match v with
  | PList l | PTuple l => S (fold_right (fun x a => Nat.max (depth x) a) O l)
  | PDict kvs => S (fold_right (fun kv a => let '(_, x) := kv in Nat.max (depth x) a) O kvs)
  | _ => O
  end.

(* the inputs of the key: Python version text, __version_verifier_modules__, preamble (C source),
   keyword arguments (a dict), cdef sources *)
Record inputs := { i_version : str; i_vvm : str; i_preamble : str; i_kwds : list (str * pyval);
                   i_sources : list str }.

Definition nulfree_inputs (i : inputs) :=
  nulfree (i_version i) /\ nulfree (i_vvm i) /\ nulfree (i_preamble i) /\ Forall nulfree (i_sources i).

Definition equiv_inputs (i j : inputs) :=
  i_version i = i_version j /\ i_vvm i = i_vvm j /\ i_preamble i = i_preamble j /\
  veq (PDict (i_kwds i)) (PDict (i_kwds j)) /\ i_sources i = i_sources j.
