(* C32 — from the chosen name to what Verifier.get_module_name() returns (regenerated: Gen.v get_module_name,
   module_filename, class_keys), and injectivity of the name in (tag, engine, CRC pair). *)
From Coq Require Import List NArith ZArith Bool Lia ZifyBool.
Import ListNotations.
From Cffi Require Import C35.PyStr C35.Model C24.Utf8 C32.PyStr C32.Model C32.Gen C32.Proofs2.
Open Scope N_scope.

Definition cffi_prefix : str := [95;99;102;102;105;95].     (* _cffi_ *)

(* ------------------------------------------------------------------ get_module_name *)

(* the file name is tmpdir/<name><suffix>; get_module_name gives <name> back when it has no '.' *)
Lemma get_module_name_roundtrip : forall debug tmpdir name suffix r,
  no_char 46 name -> no_char 47 name -> no_char 47 suffix -> suffix = 46 :: r ->
  debug = false \/ py_endswith name [95;100] = false ->
  get_module_name debug (module_filename tmpdir name suffix) = name.
Proof.
  intros debug tmpdir name suffix r Hd Hs Hs' -> Hdbg.
  unfold get_module_name, module_filename.
  rewrite py_basename_join by (apply Forall_app; auto).
  rewrite split1_item0_before by exact Hd.
  destruct Hdbg as [-> | ->]; [rewrite andb_false_r|]; reflexivity.
Qed.

Lemma hexdigit_plain c : is_hexdigit c = true -> c <> 46 /\ c <> 47 /\ c <> 95.
Proof. unfold is_hexdigit. lia. Qed.

Lemma k1_plain n : Forall (fun c => c <> 46 /\ c <> 47 /\ c <> 95) (k1_of n).
Proof. destruct (k1_digits n) as [F _]. eapply Forall_impl; [|exact F]. apply hexdigit_plain. Qed.

Lemma k2_plain n : Forall (fun c => c <> 46 /\ c <> 47 /\ c <> 95) (k2_of n).
Proof.
  unfold k2_of. constructor; [lia|]. destruct (hexbody_digits n) as [F _].
  eapply Forall_impl; [|exact F]. apply hexdigit_plain.
Qed.

Lemma module_name_ok_form (crc : list N -> Z) tag ck key n : module_name crc tag ck key = Ok n ->
  exists b, utf8_encode key = Some b /\
            n = cffi_prefix ++ tag ++ [95] ++ ck ++ k1_of (fst (crc_pair crc b)) ++ k2_of (snd (crc_pair crc b)).
Proof.
  intros H. destruct (utf8_encode key) as [b|] eqn:E.
  - exists b. split; auto. rewrite (module_name_form crc tag ck key b E) in H. apply Ok_inj' in H. now subst.
  - unfold module_name, py_encode_utf8 in H. rewrite E in H. discriminate.
Qed.

Lemma no_char_weaken (P : N -> Prop) c s : (forall d, P d -> d <> c) -> Forall P s -> no_char c s.
Proof. intros H F. eapply Forall_impl; [|exact F]. exact H. Qed.

Ltac weak L := eapply no_char_weaken; [|apply L]; cbv beta; intros; tauto.

Lemma cffi_prefix_plain : Forall (fun c => c <> 46 /\ c <> 47) cffi_prefix.
Proof. repeat constructor; lia. Qed.

(* a generated name never ends with "_d": it ends with 'x' and at least one hexadecimal digit *)
Lemma generated_not_d pre n : py_endswith (pre ++ k2_of n) [95;100] = false.
Proof.
  unfold py_endswith, k2_of. rewrite rev_app_distr. cbn [List.rev app].
  destruct (hexbody_digits n) as [F V].
  assert (hexbody n <> []) as NE.
  { unfold hexbody. destruct (n =? 0) eqn:E; [discriminate|].
    destruct (hexbody_pos n ltac:(lia)) as [_ [_ [c [r [Hb _]]]]]. unfold hexbody in Hb. rewrite E in Hb. rewrite Hb. discriminate. }
  apply Forall_rev in F.
  destruct (List.rev (hexbody n)) as [|h t] eqn:R.
  - exfalso. apply NE. rewrite <- (rev_involutive (hexbody n)), R. reflexivity.
  - rewrite <- !app_assoc. cbn [app py_startswith]. destruct t as [|h2 t'].
    + cbn [app py_startswith]. assert (120 =? 95 = false) as -> by lia. cbn. apply andb_false_r.
    + cbn [app py_startswith]. inversion F as [|? ? _ F2]; subst. inversion F2 as [|? ? H2 _]; subst.
      apply hexdigit_plain in H2. assert (h2 =? 95 = false) as -> by lia. cbn. apply andb_false_r.
Qed.

(* for a tag without '.' and '/', get_module_name() is the name chosen by __init__, debug build or not *)
Theorem get_module_name_of_generated : forall (crc : list N -> Z) debug tmpdir suffix r tag ck key n,
  no_char 46 tag -> no_char 47 tag -> no_char 46 ck -> no_char 47 ck -> no_char 47 suffix -> suffix = 46 :: r ->
  module_name crc tag ck key = Ok n ->
  get_module_name debug (module_filename tmpdir n suffix) = n.
Proof.
  intros crc debug tmpdir suffix r tag ck key n T6 T7 C6 C7 S7 ES H.
  destruct (module_name_ok_form _ _ _ _ _ H) as [b [_ ->]].
  eapply get_module_name_roundtrip; eauto.
  - unfold no_char. rewrite !Forall_app. repeat split; auto.
    + weak cffi_prefix_plain.
    + repeat constructor; lia.
    + weak k1_plain.
    + weak k2_plain.
  - unfold no_char. rewrite !Forall_app. repeat split; auto.
    + weak cffi_prefix_plain.
    + repeat constructor; lia.
    + weak k1_plain.
    + weak k2_plain.
  - right. rewrite !app_assoc. apply generated_not_d.
Qed.

(* a tag with a '.': get_module_name() keeps what precedes the first '.', whatever the key is *)
Theorem dotted_tag_collapses : forall (crc : list N -> Z) tmpdir suffix t1 t2 ck key n,
  no_char 46 t1 -> no_char 47 t1 -> no_char 47 t2 -> no_char 47 ck -> no_char 47 suffix ->
  module_name crc (t1 ++ 46 :: t2) ck key = Ok n ->
  get_module_name false (module_filename tmpdir n suffix) = cffi_prefix ++ t1.
Proof.
  intros crc tmpdir suffix t1 t2 ck key n T6 T7 U7 C7 S7 H.
  destruct (module_name_ok_form _ _ _ _ _ H) as [b [_ ->]].
  unfold get_module_name, module_filename.
  rewrite py_basename_join.
  - rewrite andb_false_r.
    replace ((cffi_prefix ++ (t1 ++ 46 :: t2) ++ [95] ++ ck ++ k1_of (fst (crc_pair crc b)) ++ k2_of (snd (crc_pair crc b))) ++ suffix)
      with ((cffi_prefix ++ t1) ++ 46 :: (t2 ++ [95] ++ ck ++ k1_of (fst (crc_pair crc b)) ++ k2_of (snd (crc_pair crc b))) ++ suffix)
      by (repeat rewrite <- app_assoc; cbn [app]; repeat rewrite <- app_assoc; reflexivity).
    apply split1_item0_before. unfold no_char. rewrite Forall_app. split; auto.
    weak cffi_prefix_plain.
  - unfold no_char. rewrite !Forall_app. repeat split; auto.
    + weak cffi_prefix_plain.
    + constructor; [lia|exact U7].
    + repeat constructor; lia.
    + weak k1_plain.
    + weak k2_plain.
Qed.

(* hence the statement "get_module_name() determines the CRC pair" is false for such tags *)
Definition len_crc (b : list N) : Z := Z.of_nat (length b).
Theorem dotted_tag_refuted :
  exists (crc : list N -> Z) tag ck key key' b b' n n' tmpdir suffix,
    In ck class_keys /\ utf8_encode key = Some b /\ utf8_encode key' = Some b' /\
    module_name crc tag ck key = Ok n /\ module_name crc tag ck key' = Ok n' /\
    n <> n' /\ crc_pair crc b <> crc_pair crc b' /\
    get_module_name false (module_filename tmpdir n suffix) = get_module_name false (module_filename tmpdir n' suffix).
Proof.
  exists len_crc, [97;46;98], [120], [], [97], [], [97], [95;99;102;102;105;95;97;46;98;95;120;120;48],
         [95;99;102;102;105;95;97;46;98;95;120;49;120;48], [47;116], [46;115;111].
  vm_compute. repeat split; auto; discriminate.
Qed.

(* ------------------------------------------------------------------ injectivity in (tag, engine, CRC pair) *)

Lemma split_at_first c : forall a a' b b', no_char c a -> no_char c a' ->
  a ++ c :: b = a' ++ c :: b' -> a = a' /\ b = b'.
Proof.
  induction a as [|x a IH]; destruct a' as [|y a']; cbn; intros b b' Ha Ha' H.
  - injection H as ->. auto.
  - injection H as <- _. inversion Ha'; subst. congruence.
  - injection H as -> _. inversion Ha; subst. congruence.
  - injection H as -> H. inversion Ha as [|? ? _ Hx]; inversion Ha' as [|? ? _ Hy]; subst.
    destruct (IH _ _ _ Hx Hy H) as [-> ->]. auto.
Qed.

Lemma rev_eq_inv {A} (l m : list A) : List.rev l = List.rev m -> l = m.
Proof. intros H. rewrite <- (rev_involutive l), H. apply rev_involutive. Qed.

Lemma split_at_last c a a' b b' : no_char c b -> no_char c b' ->
  a ++ c :: b = a' ++ c :: b' -> a = a' /\ b = b'.
Proof.
  intros Hb Hb' H. apply (f_equal (@List.rev N)) in H. rewrite !rev_app_distr in H. cbn [List.rev] in H.
  rewrite <- !app_assoc in H. cbn [app] in H.
  apply split_at_first in H; try (apply Forall_rev; assumption).
  destruct H as [A B]. split; apply rev_eq_inv; auto.
Qed.

Lemma k_pair_inj p1 p2 q1 q2 : k1_of p1 ++ k2_of p2 = k1_of q1 ++ k2_of q2 -> p1 = q1 /\ p2 = q2.
Proof.
  intros H. unfold k2_of in H.
  destruct (k1_digits p1) as [F1 V1]. destruct (k1_digits q1) as [F1' V1'].
  apply split_at_x in H.
  - destruct H as [A B]. destruct (hexbody_digits p2) as [_ V2]. destruct (hexbody_digits q2) as [_ V2'].
    rewrite A in V1. rewrite B in V2. split; congruence.
  - eapply Forall_impl; [|exact F1]. intros c Hc. apply hexdigit_not in Hc. tauto.
  - eapply Forall_impl; [|exact F1']. intros c Hc. apply hexdigit_not in Hc. tauto.
Qed.

Section WithCrc.
Variable crc32 : list N -> Z.

(* the last '_' of the name separates the tag from engine key + CRCs: the name determines all three *)
Theorem name_injective_in_tag_engine : forall tag tag' ck ck' key key' b b' n,
  length ck = 1%nat -> length ck' = 1%nat -> no_char 95 ck -> no_char 95 ck' ->
  utf8_encode key = Some b -> utf8_encode key' = Some b' ->
  module_name crc32 tag ck key = Ok n -> module_name crc32 tag' ck' key' = Ok n ->
  tag = tag' /\ ck = ck' /\ crc_pair crc32 b = crc_pair crc32 b'.
Proof.
  intros tag tag' ck ck' key key' b b' n L L' U U' E E' H H'.
  rewrite (module_name_form _ _ _ _ _ E) in H. rewrite (module_name_form _ _ _ _ _ E') in H'.
  rewrite <- H' in H. clear H'. apply Ok_inj' in H. apply app_inv_head in H.
  destruct (crc_pair crc32 b) as [p1 p2]. destruct (crc_pair crc32 b') as [q1 q2]. cbn [fst snd] in H.
  cbn [app] in H.
  apply split_at_last in H.
  - destruct H as [-> H]. split; auto.
    destruct ck as [|c [|? ?]]; try discriminate. destruct ck' as [|c' [|? ?]]; try discriminate.
    cbn [app] in H. injection H as -> H. split; auto.
    apply k_pair_inj in H. destruct H as [-> ->]. reflexivity.
  - unfold no_char. rewrite !Forall_app. repeat split; auto.
    + weak k1_plain.
    + weak k2_plain.
  - unfold no_char. rewrite !Forall_app. repeat split; auto.
    + weak k1_plain.
    + weak k2_plain.
Qed.
End WithCrc.

(* the engine keys of the code: one character each, no '_', '.', '/' *)
Lemma class_keys_ok : forall ck, In ck class_keys ->
  length ck = 1%nat /\ no_char 95 ck /\ no_char 46 ck /\ no_char 47 ck.
Proof.
  assert (forallb (fun ck => (Nat.eqb (length ck) 1) && forallb (fun c => negb (c =? 95) && negb (c =? 46) && negb (c =? 47)) ck)
                  class_keys = true) as H by (vm_compute; reflexivity).
  rewrite forallb_forall in H. intros ck I. specialize (H ck I).
  apply andb_true_iff in H. destruct H as [L F]. rewrite forallb_forall in F.
  split; [apply Nat.eqb_eq; exact L|].
  repeat split; apply Forall_forall; intros c Ic; specialize (F c Ic); lia.
Qed.
