(* C32 — the module name is injective in the pair of (masked) CRCs: hex rendering, the lstrip/rstrip
   calls of Verifier.__init__ and the 'x' that lstrip('0') leaves in front of the second number. *)
From Coq Require Import List NArith ZArith Bool Lia ZifyBool.
Import ListNotations.
From Cffi Require Import C35.PyStr C35.Model C24.Utf8 C32.PyStr C32.Model C32.Gen.
Open Scope N_scope.
Ltac Zify.zify_post_hook ::= Z.to_euclidean_division_equations.

Definition dval (c : N) : N := if c <? 58 then c - 48 else c - 87.
Definition hexval (s : str) : N := fold_left (fun a c => 16 * a + dval c) s 0.
Definition is_hexdigit (c : N) : bool := ((48 <=? c) && (c <=? 57)) || ((97 <=? c) && (c <=? 102)).

Lemma hexval_snoc d c : hexval (d ++ [c]) = 16 * hexval d + dval c.
Proof. unfold hexval. rewrite fold_left_app. reflexivity. Qed.

Lemma hex_digit_ok d : d < 16 -> is_hexdigit (hex_digit d) = true /\ dval (hex_digit d) = d /\
  (d <> 0 -> hex_digit d <> 48).
Proof.
  unfold is_hexdigit, hex_digit, dval. intros H. destruct (d <? 10) eqn:E.
  - assert (48 + d <? 58 = true) as -> by lia. lia.
  - assert (87 + d <? 58 = false) as -> by lia. lia.
Qed.

Lemma hex_go_spec : forall fuel n acc, n < 16 ^ N.of_nat fuel ->
  exists d, hex_go fuel n acc = d ++ acc /\ hexval d = n /\ Forall (fun c => is_hexdigit c = true) d /\
            (n = 0 -> d = []) /\ (n <> 0 -> exists c r, d = c :: r /\ c <> 48).
Proof.
  induction fuel as [|fuel IH]; intros n acc H.
  - cbn in H. assert (n = 0) by lia. subst. exists []. cbn. repeat split; auto; try tauto; try constructor.
  - cbn [hex_go]. destruct (n =? 0) eqn:E.
    + apply N.eqb_eq in E. subst. exists []. cbn. repeat split; auto; try tauto; try constructor.
    + apply N.eqb_neq in E.
      assert (n / 16 < 16 ^ N.of_nat fuel) as H'.
      { rewrite Nnat.Nat2N.inj_succ, N.pow_succ_r' in H. apply N.div_lt_upper_bound; lia. }
      destruct (IH (n / 16) (hex_digit (n mod 16) :: acc) H') as [d [E1 [E2 [E3 [E4 E5]]]]].
      assert (n mod 16 < 16) as Hm by (apply N.mod_lt; lia).
      destruct (hex_digit_ok _ Hm) as [D1 [D2 D3]].
      exists (d ++ [hex_digit (n mod 16)]). rewrite E1, <- app_assoc. cbn [app]. repeat split; auto.
      * rewrite hexval_snoc, E2, D2. lia.
      * apply Forall_app. split; auto.
      * tauto.
      * intros _. destruct (N.eq_dec (n / 16) 0) as [Z|NZ].
        -- rewrite (E4 Z). cbn. eexists _, _. split; [reflexivity|]. apply D3.
           lia.
        -- destruct (E5 NZ) as [c [r [-> Hc]]]. cbn. eauto.
Qed.

(* the digits after "0x" *)
Definition hexbody (n : N) : str := if n =? 0 then [48] else hex_go (S (N.to_nat (N.log2 n))) n [].

Lemma py_hex_unfold z : py_hex z = [48; 120] ++ hexbody (Z.to_N z).
Proof. reflexivity. Qed.

Lemma hexbody_pos n : n <> 0 ->
  hexval (hexbody n) = n /\ Forall (fun c => is_hexdigit c = true) (hexbody n) /\
  exists c r, hexbody n = c :: r /\ c <> 48.
Proof.
  intros H. unfold hexbody. assert (n =? 0 = false) as -> by lia.
  destruct (hex_go_spec (S (N.to_nat (N.log2 n))) n []) as [d [E1 [E2 [E3 [E4 E5]]]]].
  - rewrite Nnat.Nat2N.inj_succ, Nnat.N2Nat.id.
    assert (n < 2 ^ N.succ (N.log2 n)) by (apply N.log2_spec; lia).
    assert (2 ^ N.succ (N.log2 n) <= 16 ^ N.succ (N.log2 n)) by (apply N.pow_le_mono_l; lia). lia.
  - rewrite app_nil_r in E1. rewrite E1. auto.
Qed.

Lemma hexdigit_not c : is_hexdigit c = true -> c <> 120 /\ c <> 76.
Proof. unfold is_hexdigit. lia. Qed.

Lemma lstrip_stop s chars : (forall c r, s = c :: r -> in_chars chars c = false) -> py_lstrip s chars = s.
Proof. destruct s as [|c r]; cbn; auto. intros H. rewrite (H c r eq_refl). reflexivity. Qed.

Lemma rstrip_hex s : Forall (fun c => is_hexdigit c = true \/ c = 120) s -> py_rstrip s [76] = s.
Proof.
  intros H. unfold py_rstrip.
  assert (py_lstrip (rev s) [76] = rev s) as ->; [|apply rev_involutive].
  apply lstrip_stop. intros c r E.
  assert (In c s) as I by (apply in_rev; rewrite E; left; auto).
  rewrite Forall_forall in H. destruct (H c I) as [X|X].
  - apply hexdigit_not in X. unfold in_chars. cbn. destruct (c =? 76) eqn:Q; [lia|auto].
  - subst. reflexivity.
Qed.

(* what Verifier.__init__ appends for the two numbers *)
Definition k1_of (n : N) : str := if n =? 0 then [] else hexbody n.          (* hex(n).lstrip('0x') *)
Definition k2_of (n : N) : str := 120 :: hexbody n.                           (* hex(n).lstrip('0') *)

Lemma lstrip_skip c s chars : in_chars chars c = true -> py_lstrip (c :: s) chars = py_lstrip s chars.
Proof. intros H. cbn [py_lstrip]. rewrite H. reflexivity. Qed.

Lemma k1_spec z : py_rstrip (py_lstrip (py_hex z) [48; 120]) [76] = k1_of (Z.to_N z).
Proof.
  rewrite py_hex_unfold. set (n := Z.to_N z). unfold k1_of. cbn [app].
  rewrite (lstrip_skip 48), (lstrip_skip 120) by reflexivity.
  destruct (n =? 0) eqn:E.
  - unfold hexbody. rewrite E. reflexivity.
  - assert (n <> 0) as Hn by lia. destruct (hexbody_pos n Hn) as [_ [F [c [r [Hb Hc]]]]].
    rewrite lstrip_stop.
    + apply rstrip_hex. eapply Forall_impl; [|exact F]. auto.
    + intros c0 r0 E0. rewrite Hb in E0. injection E0 as <- <-. rewrite Hb in F. inversion F; subst.
      destruct (hexdigit_not c) as [X _]; auto. unfold in_chars. cbn [existsb].
      assert (c =? 48 = false) as -> by lia. assert (c =? 120 = false) as -> by lia. reflexivity.
Qed.

Lemma hexbody_digits n : Forall (fun c => is_hexdigit c = true) (hexbody n) /\ hexval (hexbody n) = n.
Proof.
  destruct (N.eq_dec n 0) as [->|H]; [split; [repeat constructor|reflexivity]|].
  destruct (hexbody_pos n H) as [A [B _]]. auto.
Qed.

Lemma k2_spec z : py_rstrip (py_lstrip (py_hex z) [48]) [76] = k2_of (Z.to_N z).
Proof.
  rewrite py_hex_unfold. set (n := Z.to_N z). unfold k2_of.
  cbn [app]. rewrite (lstrip_skip 48) by reflexivity.
  rewrite lstrip_stop by (intros c r E; injection E as <- _; reflexivity).
  apply rstrip_hex. constructor; auto. destruct (hexbody_digits n) as [F _].
  eapply Forall_impl; [|exact F]. auto.
Qed.

Lemma k1_digits n : Forall (fun c => is_hexdigit c = true) (k1_of n) /\ hexval (k1_of n) = n.
Proof.
  unfold k1_of. destruct (n =? 0) eqn:E; [|apply hexbody_digits].
  apply N.eqb_eq in E. subst. split; [constructor|reflexivity].
Qed.

Lemma split_at_x : forall a a' b b', Forall (fun c => c <> 120) a -> Forall (fun c => c <> 120) a' ->
  a ++ 120 :: b = a' ++ 120 :: b' -> a = a' /\ b = b'.
Proof.
  induction a as [|x a IH]; destruct a' as [|y a']; cbn; intros b b' Ha Ha' H.
  - injection H as ->. auto.
  - injection H as <- _. inversion Ha'; subst. congruence.
  - injection H as -> _. inversion Ha; subst. congruence.
  - injection H as -> H. inversion Ha as [|? ? _ Hx]; inversion Ha' as [|? ? _ Hy]; subst.
    destruct (IH _ _ _ Hx Hy H) as [-> ->]. auto.
Qed.

Lemma Ok_inj' {A} (a b : A) : Ok a = Ok b -> a = b.
Proof. congruence. Qed.

Section WithCrc.
Variable crc32 : list N -> Z.

Definition crc_pair (b : list N) : N * N :=
  (Z.to_N (Z.land (crc32 (py_slice_step2 0 b)) 4294967295), Z.to_N (Z.land (crc32 (py_slice_step2 1 b)) 4294967295)).

Lemma module_name_form tag ck key b : utf8_encode key = Some b ->
  module_name crc32 tag ck key =
  Ok ([95;99;102;102;105;95] ++ tag ++ [95] ++ ck ++ k1_of (fst (crc_pair b)) ++ k2_of (snd (crc_pair b))).
Proof.
  intros E. unfold module_name, py_encode_utf8. rewrite E. cbn [bind]. cbv zeta.
  rewrite k1_spec, k2_spec. reflexivity.
Qed.

(* same tag and engine: equal names force equal CRC pairs *)
Theorem name_injective_in_crcs : forall tag ck key key' b b' n,
  utf8_encode key = Some b -> utf8_encode key' = Some b' ->
  module_name crc32 tag ck key = Ok n -> module_name crc32 tag ck key' = Ok n ->
  crc_pair b = crc_pair b'.
Proof.
  intros tag ck key key' b b' n E E' H H'.
  rewrite (module_name_form _ _ _ _ E) in H. rewrite (module_name_form _ _ _ _ E') in H'.
  rewrite <- H' in H. clear H'.
  destruct (crc_pair b) as [p1 p2]. destruct (crc_pair b') as [q1 q2]. cbn [fst snd] in H.
  apply Ok_inj' in H.
  apply app_inv_head in H. apply app_inv_head in H. apply app_inv_head in H. apply app_inv_head in H.
  unfold k2_of in H.
  destruct (k1_digits p1) as [F1 V1]. destruct (k1_digits q1) as [F1' V1'].
  apply split_at_x in H.
  - destruct H as [A B]. destruct (hexbody_digits p2) as [_ V2]. destruct (hexbody_digits q2) as [_ V2'].
    rewrite A in V1. rewrite B in V2. congruence.
  - eapply Forall_impl; [|exact F1]. intros c Hc. apply hexdigit_not in Hc. tauto.
  - eapply Forall_impl; [|exact F1']. intros c Hc. apply hexdigit_not in Hc. tauto.
Qed.
End WithCrc.
