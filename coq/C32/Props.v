(* C32 — verify() module names are deterministic and input-sensitive.  Statements only.
   _flatten, flatten, verify_key, module_name are those of C32/Gen.v, regenerated on every run from
   src/cffi/ffiplatform.py and src/cffi/verifier.py.  encf, veq, supported, depth, inputs: C32/Spec.v.
   CRC32 is not interpreted (Section variable of Gen.v).

   Recorded reading (DESIGN Appendix B): injectivity is up to veq — list = tuple, True = 1, dict order —
   i.e. up to what flatten can see, for NUL-free version/preamble/cdef sources.  With a NUL in a cdef
   source the key is NOT injective (C32_key_refuted_with_nul; replayed on the real code by the check:
   finding nul_in_source). *)
From Coq Require Import List NArith ZArith Bool Permutation.
Import ListNotations.
From Cffi Require Import C35.PyStr C35.Model C24.Utf8 C32.PyStr C32.Model C32.Spec C32.Gen C32.Proofs C32.Proofs2 C32.Proofs3 C32.Proofs4.
Open Scope N_scope.

(* the regenerated flatten computes the specified encoding, for every value and fuel *)
Theorem C32_flatten_is_spec : forall fuel v, flatten fuel v = encf fuel v.
Proof. exact flatten_is_encf. Qed.
Print Assumptions C32_flatten_is_spec.

(* it succeeds on the whole universe (fuel above the nesting depth), and fails only with TypeError
   (unsupported object) or for lack of fuel *)
Theorem C32_flatten_total : forall fuel v, supported v = true -> (depth v < fuel)%nat ->
  exists e, flatten fuel v = Ok e.
Proof. intros. rewrite flatten_is_encf. apply encf_total; auto. Qed.
Print Assumptions C32_flatten_total.

Theorem C32_flatten_errors : forall fuel v e, flatten fuel v = Err e -> e = TypeError \/ e = OutOfFuel.
Proof. intros fuel v e. rewrite flatten_is_encf. apply encf_error. Qed.
Print Assumptions C32_flatten_errors.

(* prefix code: an encoding followed by anything determines the value (up to veq) and the rest *)
Theorem C32_prefix_code : forall n m v1 v2 e1 e2 r1 r2,
  flatten n v1 = Ok e1 -> flatten m v2 = Ok e2 -> e1 ++ r1 = e2 ++ r2 -> veq v1 v2 /\ r1 = r2.
Proof. intros n m v1 v2 e1 e2 r1 r2. rewrite !flatten_is_encf. intros. eapply encf_prefix_code; eauto. Qed.
Print Assumptions C32_prefix_code.

Theorem C32_flatten_injective : forall n m v1 v2 e, flatten n v1 = Ok e -> flatten m v2 = Ok e -> veq v1 v2.
Proof. intros n m v1 v2 e. rewrite !flatten_is_encf. apply encf_injective. Qed.
Print Assumptions C32_flatten_injective.

(* the order in which a dict holds its keys (keyword order, hash seed) does not matter *)
Theorem C32_order_independent : forall fuel kvs kvs', Permutation kvs kvs' -> NoDup (map fst kvs) ->
  flatten fuel (PDict kvs) = flatten fuel (PDict kvs').
Proof. intros. rewrite !flatten_is_encf. apply encf_dict_order; auto. Qed.
Print Assumptions C32_order_independent.

(* determinism: the hashed key — hence the name, a function of it (C32_name_function_of_crcs) — is a function
   of the inputs alone: nothing else enters verify_key / flatten, and the order in which the keyword dictionary
   holds its entries (keyword order at the call, hash seed) is irrelevant *)
Theorem C32_key_deterministic : forall fuel i j,
  i_version i = i_version j -> i_vvm i = i_vvm j -> i_preamble i = i_preamble j -> i_sources i = i_sources j ->
  Permutation (i_kwds i) (i_kwds j) -> NoDup (map fst (i_kwds i)) ->
  key_of fuel i = key_of fuel j.
Proof.
  intros fuel i j Hv Hm Hp Hs P N. unfold key_of.
  rewrite (C32_order_independent fuel _ _ P N), Hv, Hm, Hp, Hs. reflexivity.
Qed.
Print Assumptions C32_key_deterministic.

(* the hashed text is an injective encoding of (version, verifier version, preamble, kwds, cdef sources)
   when version, preamble and sources contain no NUL *)
Theorem C32_key_injective : forall fuel fuel' i j k, nulfree_inputs i -> nulfree_inputs j ->
  key_of fuel i = Ok k -> key_of fuel' j = Ok k -> equiv_inputs i j.
Proof. exact key_injective. Qed.
Print Assumptions C32_key_injective.

(* ... and so are the bytes that are hashed *)
Theorem C32_key_bytes_injective : forall fuel fuel' i j k k' b, nulfree_inputs i -> nulfree_inputs j ->
  key_of fuel i = Ok k -> key_of fuel' j = Ok k' ->
  utf8_encode k = Some b -> utf8_encode k' = Some b -> equiv_inputs i j.
Proof.
  intros fuel fuel' i j k k' b Ni Nj Hi Hj E E'. rewrite (utf8_encode_injective _ _ _ E E') in Hi.
  eapply key_injective; eauto.
Qed.
Print Assumptions C32_key_bytes_injective.

(* from the inputs the property names to the hashed list: ffi._cdefsources is computed from the FFI's cdef() strings
   and include()d FFIs by FFI._cdef / FFI.include (regenerated: Gen.v `cdefsources`, markers `include_first`,
   `include_last`).  It determines the whole include structure (bracket matching) as long as no cdef string is itself
   a marker — ffi.cdef() refuses "[" and "]" — and the two markers differ. *)
Theorem C32_cdefsources_injective : forall t1 t2, wf_tree t1 = true -> wf_tree t2 = true ->
  cdefsources t1 = cdefsources t2 -> t1 = t2.
Proof. exact cdefsources_injective. Qed.
Print Assumptions C32_cdefsources_injective.

(* the key is an injective encoding of (version, verifier version, C source, keyword arguments, FFI with its cdef
   strings and include structure) *)
Theorem C32_user_key_injective : forall fuel fuel' u v k, wf_user u -> wf_user v ->
  user_key fuel u = Ok k -> user_key fuel' v = Ok k ->
  u_version u = u_version v /\ u_vvm u = u_vvm v /\ u_preamble u = u_preamble v /\
  veq (PDict (u_kwds u)) (PDict (u_kwds v)) /\ u_ffi u = u_ffi v.
Proof. exact user_key_injective. Qed.
Print Assumptions C32_user_key_injective.

(* the full statement without the NUL hypothesis is false of the model *)
Theorem C32_key_refuted_with_nul :
  exists i j, key_of 2 i = key_of 2 j /\ (exists k, key_of 2 i = Ok k) /\ ~ equiv_inputs i j /\
              nulfree (i_version i) /\ nulfree (i_vvm i) /\ nulfree (i_preamble i) /\ nulfree_inputs j.
Proof. exact key_not_injective_with_nul. Qed.
Print Assumptions C32_key_refuted_with_nul.

(* the name is a function of (tag, engine key, the two CRCs of the encoded key) *)
Theorem C32_name_function_of_crcs : forall (crc crc' : list N -> Z) tag ck key key' b b',
  utf8_encode key = Some b -> utf8_encode key' = Some b' ->
  crc (py_slice_step2 0 b) = crc' (py_slice_step2 0 b') ->
  crc (py_slice_step2 1 b) = crc' (py_slice_step2 1 b') ->
  module_name crc tag ck key = module_name crc' tag ck key'.
Proof. exact name_function_of_crcs. Qed.
Print Assumptions C32_name_function_of_crcs.

(* ... and for a given tag and engine the name determines the two (32-bit) CRCs: the hexadecimal renderings,
   hex(k1).lstrip('0x') and hex(k2).lstrip('0') — which keeps an 'x' between the two numbers — are injective *)
Theorem C32_name_injective_in_crcs : forall (crc : list N -> Z) tag ck key key' b b' n,
  utf8_encode key = Some b -> utf8_encode key' = Some b' ->
  module_name crc tag ck key = Ok n -> module_name crc tag ck key' = Ok n ->
  crc_pair crc b = crc_pair crc b'.
Proof. exact name_injective_in_crcs. Qed.
Print Assumptions C32_name_injective_in_crcs.

(* the property's conclusion: different inputs share a module name only through a CRC32 collision
   (two different byte strings with the same pair of CRCs) *)
Theorem C32_same_name_only_by_crc_collision : forall (crc : list N -> Z) fuel fuel' i j tag ck ki kj bi bj n,
  nulfree_inputs i -> nulfree_inputs j ->
  key_of fuel i = Ok ki -> key_of fuel' j = Ok kj ->
  utf8_encode ki = Some bi -> utf8_encode kj = Some bj ->
  module_name crc tag ck ki = Ok n -> module_name crc tag ck kj = Ok n ->
  equiv_inputs i j \/ (bi <> bj /\ crc_pair crc bi = crc_pair crc bj).
Proof.
  intros crc fuel fuel' i j tag ck ki kj bi bj n Ni Nj Ki Kj Ei Ej Mi Mj.
  destruct (list_eq_dec N.eq_dec bi bj) as [->|Hne].
  - left. eapply C32_key_bytes_injective; eauto.
  - right. split; auto. eapply name_injective_in_crcs; eauto.
Qed.
Print Assumptions C32_same_name_only_by_crc_collision.

(* the name determines tag and engine as well: the part after the last '_' is engine key (one character, not '_':
   C32_class_keys for the two engines of the code) + the two hexadecimal numbers, none of which contains '_' *)
Theorem C32_name_injective_in_tag_engine : forall (crc : list N -> Z) tag tag' ck ck' key key' b b' n,
  length ck = 1%nat -> length ck' = 1%nat -> no_char 95 ck -> no_char 95 ck' ->
  utf8_encode key = Some b -> utf8_encode key' = Some b' ->
  module_name crc tag ck key = Ok n -> module_name crc tag' ck' key' = Ok n ->
  tag = tag' /\ ck = ck' /\ crc_pair crc b = crc_pair crc b'.
Proof. exact name_injective_in_tag_engine. Qed.
Print Assumptions C32_name_injective_in_tag_engine.

(* the engine keys regenerated from vengine_cpy.py / vengine_gen.py (Gen.v class_keys) satisfy these hypotheses *)
Theorem C32_class_keys : forall ck, In ck class_keys ->
  length ck = 1%nat /\ no_char 95 ck /\ no_char 46 ck /\ no_char 47 ck.
Proof. exact class_keys_ok. Qed.
Print Assumptions C32_class_keys.

(* the property's conclusion with tag and engine free on both sides *)
Theorem C32_same_name_only_by_crc_collision_any_tag :
  forall (crc : list N -> Z) fuel fuel' i j tag tag' ck ck' ki kj bi bj n,
  In ck class_keys -> In ck' class_keys -> nulfree_inputs i -> nulfree_inputs j ->
  key_of fuel i = Ok ki -> key_of fuel' j = Ok kj ->
  utf8_encode ki = Some bi -> utf8_encode kj = Some bj ->
  module_name crc tag ck ki = Ok n -> module_name crc tag' ck' kj = Ok n ->
  tag = tag' /\ ck = ck' /\ (equiv_inputs i j \/ (bi <> bj /\ crc_pair crc bi = crc_pair crc bj)).
Proof.
  intros crc fuel fuel' i j tag tag' ck ck' ki kj bi bj n Ic Ic' Ni Nj Ki Kj Ei Ej Mi Mj.
  destruct (class_keys_ok _ Ic) as [L [U _]]. destruct (class_keys_ok _ Ic') as [L' [U' _]].
  destruct (name_injective_in_tag_engine crc _ _ _ _ _ _ _ _ _ L L' U U' Ei Ej Mi Mj) as [-> [-> P]].
  split; auto. split; auto.
  destruct (list_eq_dec N.eq_dec bi bj) as [->|Hne].
  - left. eapply C32_key_bytes_injective; eauto.
  - right. split; auto.
Qed.
Print Assumptions C32_same_name_only_by_crc_collision_any_tag.

(* what the property observes, Verifier(...).get_module_name() — regenerated with the assembly of self.modulefilename
   (Gen.v get_module_name, module_filename; os.path.join/basename = posixpath) — gives the file's <name> back when
   <name> has no '.' and no '/', the suffix starts with '.', and (debug build) <name> does not end with "_d" *)
Theorem C32_get_module_name : forall debug tmpdir name suffix r,
  no_char 46 name -> no_char 47 name -> no_char 47 suffix -> suffix = 46 :: r ->
  debug = false \/ py_endswith name [95;100] = false ->
  get_module_name debug (module_filename tmpdir name suffix) = name.
Proof. exact get_module_name_roundtrip. Qed.
Print Assumptions C32_get_module_name.

(* so for a tag without '.' and '/', get_module_name() IS the name chosen by __init__ (debug build or not: a chosen
   name ends with 'x' and a hexadecimal digit, never with "_d"), and the theorems above are about what is observed *)
Theorem C32_get_module_name_of_chosen : forall (crc : list N -> Z) debug tmpdir suffix r tag ck key n,
  no_char 46 tag -> no_char 47 tag -> In ck class_keys -> no_char 47 suffix -> suffix = 46 :: r ->
  module_name crc tag ck key = Ok n ->
  get_module_name debug (module_filename tmpdir n suffix) = n.
Proof.
  intros crc debug tmpdir suffix r tag ck key n T6 T7 Ic S7 ES H.
  destruct (class_keys_ok _ Ic) as [_ [_ [C6 C7]]].
  apply (get_module_name_of_generated crc debug tmpdir suffix r tag ck key n); assumption.
Qed.
Print Assumptions C32_get_module_name_of_chosen.

(* with a '.' in the tag the observed name is "_cffi_" + what precedes the first '.', for EVERY key: all inputs share it *)
Theorem C32_dotted_tag_collapses : forall (crc : list N -> Z) tmpdir suffix t1 t2 ck key n,
  no_char 46 t1 -> no_char 47 t1 -> no_char 47 t2 -> no_char 47 ck -> no_char 47 suffix ->
  module_name crc (t1 ++ 46 :: t2) ck key = Ok n ->
  get_module_name false (module_filename tmpdir n suffix) = [95;99;102;102;105;95] ++ t1.
Proof. exact dotted_tag_collapses. Qed.
Print Assumptions C32_dotted_tag_collapses.

(* hence "equal observed names only through a CRC collision" is false of the model when tags may contain '.':
   tag "a.b", engine 'x', two keys with different CRC pairs and different chosen names, one get_module_name().
   Replayed on the real code by the check (finding dotted_tag). *)
Theorem C32_dotted_tag_refuted :
  exists (crc : list N -> Z) tag ck key key' b b' n n' tmpdir suffix,
    In ck class_keys /\ utf8_encode key = Some b /\ utf8_encode key' = Some b' /\
    module_name crc tag ck key = Ok n /\ module_name crc tag ck key' = Ok n' /\
    n <> n' /\ crc_pair crc b <> crc_pair crc b' /\
    get_module_name false (module_filename tmpdir n suffix) = get_module_name false (module_filename tmpdir n' suffix).
Proof. exact dotted_tag_refuted. Qed.
Print Assumptions C32_dotted_tag_refuted.

(* non-vacuity: /tmp/x/_cffi_t_x1ax2b.cpython-312.so -> _cffi_t_x1ax2b ; tag "a.b" -> _cffi_a *)
Example C32_example_get_module_name :
  get_module_name false (module_filename [47;116;109;112;47;120] [95;99;102;102;105;95;116;95;120;49;97;120;50;98]
                                         [46;99;112;121;116;104;111;110;45;51;49;50;46;115;111])
  = [95;99;102;102;105;95;116;95;120;49;97;120;50;98] /\
  get_module_name false (module_filename [47;116] [95;99;102;102;105;95;97;46;98;95;120;49;97;120;50;98] [46;115;111])
  = [95;99;102;102;105;95;97].
Proof. vm_compute. split; reflexivity. Qed.

(* non-vacuity: {'libraries': ['m'], 'define_macros': [('A', '1')], 'x': True, 'n': -12}, keys sorted *)
Example C32_example :
  flatten 5 (PDict [([108;105;98], PList [PStr [109]]);
                    ([100;109], PList [PTuple [PStr [65]; PStr [49]]]);
                    ([120], PBool true); ([110], PInt (-12))])
  = Ok [52;100; 50;115;100;109; 49;108;50;108;49;115;65;49;115;49;
        51;115;108;105;98; 49;108;49;115;109; 49;115;110; 45;49;50;105; 49;115;120; 49;105].
Proof. vm_compute. reflexivity. Qed.

Example C32_example_key :
  key_of 3 {| i_version := [51;46;49;50]; i_vvm := [48;46;56;46;54]; i_preamble := [105;110;116];
              i_kwds := []; i_sources := [[97]; [98]] |}
  = Ok [51;46;49;50;0;48;46;56;46;54;0;105;110;116;0;48;100;0;97;0;98].
Proof. vm_compute. reflexivity. Qed.

(* A.include(B1[a]); A.cdef(b); A.include(B2[c])  vs  A.include(B[a, include(C[b]), c]) *)
Example C32_example_include_structures :
  cdefsources [IInclude [ICdef [97]]; ICdef [98]; IInclude [ICdef [99]]] = [[91]; [97]; [93]; [98]; [91]; [99]; [93]] /\
  cdefsources [IInclude [ICdef [97]; IInclude [ICdef [98]]; ICdef [99]]] = [[91]; [97]; [91]; [98]; [93]; [99]; [93]] /\
  wf_tree [IInclude [ICdef [97]; IInclude [ICdef [98]]; ICdef [99]]] = true.
Proof. vm_compute. repeat split; reflexivity. Qed.

Example C32_example_unsupported : flatten 3 (PList [PInt 1; POther 0]) = Err TypeError.
Proof. vm_compute. reflexivity. Qed.
