(* C32 — proofs: the regenerated _flatten/flatten (C32/Gen.v) compute the specified encoding encf
   (C32/Spec.v); encf is a prefix code up to veq; dict order does not matter; the key is injective. *)
From Coq Require Import List NArith ZArith Bool Lia Permutation Sorted.
Import ListNotations.
From Cffi Require Import C35.PyStr C35.Model C35.Lemmas C25.Model C25.Proofs C24.Utf8.
From Cffi Require Import C32.PyStr C32.Model C32.Spec C32.Gen.
Open Scope N_scope.

(* ------------------------------------------------------------------ A. Gen = Spec *)
Lemma py_for_mapM {X} (body : str -> X -> res str) (g : X -> res str) l :
  (forall f x, body f x = bind (g x) (fun e => Ok (f ++ e))) ->
  forall f, py_for body l f = bind (mapM g l) (fun es => Ok (f ++ concat es)).
Proof.
  intros H. induction l as [|a l IH]; intros f.
  - cbn. rewrite app_nil_r. reflexivity.
  - rewrite py_for_cons, H. cbn [mapM]. destruct (g a) as [e|e]; cbn [bind]; auto.
    rewrite IH. destruct (mapM g l) as [es|e']; cbn [bind concat]; auto.
    rewrite app_assoc. reflexivity.
Qed.

Lemma bind_acc (m : res (list str)) (f h : str) :
  bind (bind m (fun es => Ok ((f ++ h) ++ concat es))) (fun f0 => Ok f0) =
  bind (bind m (fun es => Ok (h ++ concat es))) (fun e => Ok (f ++ e)).
Proof. destruct m; cbn; [rewrite app_assoc|]; reflexivity. Qed.

Theorem flatten_encf : forall fuel v f,
  _flatten fuel v f = bind (encf fuel v) (fun e => Ok (f ++ e)).
Proof.
  induction fuel as [|fuel IH]; intros v f; [reflexivity|].
  destruct v as [s|z|b|l|l|kvs|t]; cbn [_flatten encf py_as_str py_as_dict py_as_seq py_as_int bind].
  - unfold hdr. rewrite <- !app_assoc. reflexivity.
  - unfold hdr. reflexivity.
  - unfold hdr. reflexivity.
  - rewrite (py_for_mapM _ (encf fuel)).
    + destruct (mapM (encf fuel) l) as [es|e]; cbn [bind]; auto.
      unfold hdr. rewrite <- !app_assoc. reflexivity.
    + intros f0 x. rewrite IH. destruct (encf fuel x); reflexivity.
  - rewrite (py_for_mapM _ (encf fuel)).
    + destruct (mapM (encf fuel) l) as [es|e]; cbn [bind]; auto.
      unfold hdr. rewrite <- !app_assoc. reflexivity.
    + intros f0 x. rewrite IH. destruct (encf fuel x); reflexivity.
  - cbv zeta. rewrite (py_for_mapM _ (fun k => bind (encf fuel (PStr k)) (fun ek =>
                             bind (pd_get kvs k) (fun v =>
                             bind (encf fuel v) (fun ev => Ok (ek ++ ev)))))).
    + apply bind_acc.
    + intros f0 k. rewrite IH. destruct (encf fuel (PStr k)) as [ek|e]; cbn [bind]; auto.
      destruct (pd_get kvs k) as [v|e]; cbn [bind]; auto.
      rewrite IH. destruct (encf fuel v) as [ev|e]; cbn [bind]; auto.
      rewrite app_assoc. reflexivity.
  - reflexivity.
Qed.

Corollary flatten_is_encf fuel v : flatten fuel v = encf fuel v.
Proof. unfold flatten. rewrite flatten_encf. destruct (encf fuel v); reflexivity. Qed.

(* ------------------------------------------------------------------ B. prefix code *)
Inductive shape := ShStr (s : str) | ShInt (z : Z) | ShSeq (l : list pyval)
                 | ShDict (kvs : list (str * pyval)) | ShOther.

Definition shape_of (v : pyval) : shape :=
  match v with
  | PStr s => ShStr s | PInt z => ShInt z | PBool b => ShInt (if b then 1 else 0)%Z
  | PList l | PTuple l => ShSeq l | PDict kvs => ShDict kvs | POther _ => ShOther
  end.

Definition item (n : nat) (kvs : list (str * pyval)) (k : str) : res str :=
  bind (encf n (PStr k)) (fun ek => bind (pd_get kvs k) (fun v =>
  bind (encf n v) (fun ev => Ok (ek ++ ev)))).

Lemma encf_shape n v : encf (S n) v =
  match shape_of v with
  | ShStr s => Ok (hdr (py_len s) 115 ++ s)
  | ShInt z => Ok (hdr z 105)
  | ShSeq l => bind (mapM (encf n) l) (fun es => Ok (hdr (py_len l) 108 ++ concat es))
  | ShDict kvs => bind (mapM (item n kvs) (py_sorted_str (pd_keys kvs)))
                       (fun es => Ok (hdr (py_len (py_sorted_str (pd_keys kvs))) 100 ++ concat es))
  | ShOther => Err TypeError
  end.
Proof. destruct v; reflexivity. Qed.

Lemma hdr_inj z t r z' t' r' : is_tag t = true -> is_tag t' = true ->
  hdr z t ++ r = hdr z' t' ++ r' -> z = z' /\ t = t' /\ r = r'.
Proof.
  unfold hdr. rewrite <- !app_assoc. cbn [app]. intros. eapply py_dec_prefix; eauto.
Qed.

Lemma bind_ok {A B} (x : res A) (f : A -> res B) b : bind x f = Ok b -> exists a, x = Ok a /\ f a = Ok b.
Proof. destruct x; cbn; [eauto|discriminate]. Qed.

Lemma Ok_inj {A} (a b : A) : Ok a = Ok b -> a = b.
Proof. intros H. congruence. Qed.

Lemma py_len_inj {A B} (l : list A) (l' : list B) : py_len l = py_len l' -> length l = length l'.
Proof. unfold py_len. lia. Qed.

Lemma veq_str_inv k k' : veq (PStr k) (PStr k') -> k = k'.
Proof. intros H. inversion H; subst; auto; cbn in *; discriminate. Qed.

Section PrefixStep.
Variable n : nat.
Hypothesis IH : forall v1 v2 m e1 e2 r1 r2, encf n v1 = Ok e1 -> encf m v2 = Ok e2 ->
  e1 ++ r1 = e2 ++ r2 -> veq v1 v2 /\ r1 = r2.

Lemma seq_inj : forall l l' m es es' r r',
  mapM (encf n) l = Ok es -> mapM (encf m) l' = Ok es' -> length l = length l' ->
  concat es ++ r = concat es' ++ r' -> Forall2 veq l l' /\ r = r'.
Proof.
  induction l as [|a l IHl]; destruct l' as [|a' l']; cbn [mapM length]; intros m es es' r r' H H' L E;
    try discriminate.
  - inversion H; inversion H'; subst. cbn in E. auto.
  - apply bind_ok in H. destruct H as [e [Ha H]]. apply bind_ok in H. destruct H as [es0 [Hl H]].
    apply bind_ok in H'. destruct H' as [e' [Ha' H']]. apply bind_ok in H'. destruct H' as [es0' [Hl' H']].
    inversion H; inversion H'; subst. cbn [concat] in E. rewrite <- !app_assoc in E.
    destruct (IH _ _ _ _ _ _ _ Ha Ha' E) as [V E2].
    destruct (IHl _ _ _ _ _ _ Hl Hl' (eq_add_S _ _ L) E2) as [F R]. auto.
Qed.

Lemma dict_inj kvs kvs' : forall ks ks' m es es' r r',
  mapM (item n kvs) ks = Ok es -> mapM (item m kvs') ks' = Ok es' -> length ks = length ks' ->
  concat es ++ r = concat es' ++ r' ->
  ks = ks' /\ (forall k, In k ks -> exists v v', pd_get kvs k = Ok v /\ pd_get kvs' k = Ok v' /\ veq v v') /\ r = r'.
Proof.
  induction ks as [|k ks IHk]; destruct ks' as [|k' ks']; cbn [mapM length]; intros m es es' r r' H H' L E;
    try discriminate.
  - inversion H; inversion H'; subst. cbn in E. repeat split; auto. intros k [].
  - apply bind_ok in H. destruct H as [e [Ha H]]. apply bind_ok in H. destruct H as [es0 [Hl H]].
    apply bind_ok in H'. destruct H' as [e' [Ha' H']]. apply bind_ok in H'. destruct H' as [es0' [Hl' H']].
    inversion H; inversion H'; subst. clear H H'.
    unfold item in Ha, Ha'.
    apply bind_ok in Ha. destruct Ha as [ek [K1 Ha]]. apply bind_ok in Ha. destruct Ha as [v [G1 Ha]].
    apply bind_ok in Ha. destruct Ha as [ev [V1 Ha]]. inversion Ha; subst e. clear Ha.
    apply bind_ok in Ha'. destruct Ha' as [ek' [K2 Ha']]. apply bind_ok in Ha'. destruct Ha' as [v' [G2 Ha']].
    apply bind_ok in Ha'. destruct Ha' as [ev' [V2 Ha']]. inversion Ha'; subst e'. clear Ha'.
    cbn [concat] in E. rewrite <- !app_assoc in E.
    destruct (IH _ _ _ _ _ _ _ K1 K2 E) as [Vk E2]. apply veq_str_inv in Vk. subst k'.
    destruct (IH _ _ _ _ _ _ _ V1 V2 E2) as [Vv E3].
    destruct (IHk _ _ _ _ _ _ Hl Hl' (eq_add_S _ _ L) E3) as [-> [F R]].
    repeat split; auto. intros k0 [<-|Hin]; eauto.
Qed.
End PrefixStep.

Lemma pd_get_in kvs k v : pd_get kvs k = Ok v -> In k (pd_keys kvs).
Proof.
  induction kvs as [|[k' v'] kvs IH]; cbn; [discriminate|].
  destruct (str_eqb k k') eqn:E; [apply str_eqb_eq in E; auto | auto].
Qed.

Theorem encf_prefix_code : forall n v1 v2 m e1 e2 r1 r2,
  encf n v1 = Ok e1 -> encf m v2 = Ok e2 -> e1 ++ r1 = e2 ++ r2 -> veq v1 v2 /\ r1 = r2.
Proof.
  induction n as [|n IH]; intros v1 v2 m e1 e2 r1 r2 H1 H2 E; [discriminate|].
  destruct m as [|m]; [discriminate|].
  rewrite encf_shape in H1, H2.
  destruct (shape_of v1) as [s|z|l|kvs|] eqn:S1; destruct (shape_of v2) as [s'|z'|l'|kvs'|] eqn:S2;
    try discriminate;
    try (apply bind_ok in H1; destruct H1 as [es [M1 H1]]);
    try (apply bind_ok in H2; destruct H2 as [es' [M2 H2]]);
    apply Ok_inj in H1; apply Ok_inj in H2; subst e1 e2;
    rewrite <- ?app_assoc in E;
    (apply hdr_inj in E; [|reflexivity|reflexivity]); destruct E as [Ez [Et E]]; try discriminate.
  - (* str / str *)
    apply py_len_inj in Ez. destruct (app_inv_length _ _ _ _ Ez E) as [-> ->].
    destruct v1, v2; try discriminate. inversion S1; inversion S2; subst. split; auto. constructor.
  - (* int / int *)
    subst. split; auto. apply veq_int with (z := z').
    + destruct v1; try discriminate; inversion S1; reflexivity.
    + destruct v2; try discriminate; inversion S2; reflexivity.
  - (* seq / seq *)
    apply py_len_inj in Ez. destruct (seq_inj n IH _ _ _ _ _ _ _ M1 M2 Ez E) as [F R]. split; auto.
    apply veq_seq with (l := l) (l' := l'); auto.
    + destruct v1; try discriminate; inversion S1; reflexivity.
    + destruct v2; try discriminate; inversion S2; reflexivity.
  - (* dict / dict *)
    apply py_len_inj in Ez. destruct (dict_inj n IH _ _ _ _ _ _ _ _ _ M1 M2 Ez E) as [K [F R]]. split; auto.
    destruct v1; try discriminate. destruct v2; try discriminate. inversion S1; inversion S2; subst.
    apply veq_dict.
    + intros k. rewrite <- (py_sorted_str_in (pd_keys kvs)), <- (py_sorted_str_in (pd_keys kvs')), K. tauto.
    + intros k v G. destruct (F k) as [v0 [v' [G1 [G2 V]]]].
      { apply py_sorted_str_in. eapply pd_get_in; eauto. }
      exists v'. split; auto. congruence.
Qed.

Corollary encf_injective n m v1 v2 e : encf n v1 = Ok e -> encf m v2 = Ok e -> veq v1 v2.
Proof.
  intros H1 H2. destruct (encf_prefix_code n v1 v2 m e e [] [] H1 H2 eq_refl). auto.
Qed.

(* ------------------------------------------------------------------ C. totality on the universe *)
Lemma mapM_total {A B} (f : A -> res B) l :
  (forall a, In a l -> exists b, f a = Ok b) -> exists bs, mapM f l = Ok bs.
Proof.
  induction l as [|a l IH]; intros H; cbn; [eauto|].
  destruct (H a (or_introl eq_refl)) as [b ->]. cbn.
  destruct IH as [bs ->]; [intros; apply H; right; auto|]. cbn. eauto.
Qed.

Lemma depth_in_seq x l : In x l -> (depth x <= fold_right (fun x a => Nat.max (depth x) a) O l)%nat.
Proof. induction l as [|a l IH]; cbn; [tauto|]. intros [->|H]; [lia|]. apply IH in H. lia. Qed.

Lemma depth_in_dict k x kvs : In (k, x) kvs ->
  (depth x <= fold_right (fun (kv : str * pyval) a => let '(_, x) := kv in Nat.max (depth x) a) O kvs)%nat.
Proof.
  induction kvs as [|[k' a] l IH]; cbn; [tauto|]. intros [H|H]; [inversion H; subst; lia|].
  apply IH in H. lia.
Qed.

Lemma pd_get_In kvs k v : pd_get kvs k = Ok v -> In (k, v) kvs.
Proof.
  induction kvs as [|[k' v'] kvs IH]; cbn; [discriminate|].
  destruct (str_eqb k k') eqn:E; [apply str_eqb_eq in E; intros H; inversion H; subst; auto | auto].
Qed.

Lemma pd_get_of_key kvs k : In k (pd_keys kvs) -> exists v, pd_get kvs k = Ok v.
Proof.
  induction kvs as [|[k' v'] kvs IH]; cbn; [tauto|].
  destruct (str_eqb k k') eqn:E; [eauto|]. intros [H|H]; [|auto].
  subst. rewrite str_eqb_refl in E. discriminate.
Qed.

Theorem encf_total : forall fuel v, supported v = true -> (depth v < fuel)%nat ->
  exists e, encf fuel v = Ok e.
Proof.
  induction fuel as [|fuel IH]; intros v S D; [lia|].
  destruct v as [s|z|b|l|l|kvs|t]; cbn [encf]; try (eexists; reflexivity); cbn [supported depth] in S, D.
  - destruct (mapM_total (encf fuel) l) as [es ->]; [|cbn; eauto].
    intros a Ha. apply IH; [rewrite forallb_forall in S; auto|]. apply depth_in_seq in Ha. lia.
  - destruct (mapM_total (encf fuel) l) as [es ->]; [|cbn; eauto].
    intros a Ha. apply IH; [rewrite forallb_forall in S; auto|]. apply depth_in_seq in Ha. lia.
  - match goal with |- context [mapM ?g ?l] => destruct (mapM_total g l) as [es ->]; [|cbn; eauto] end.
    intros k Hk. apply (proj1 (py_sorted_str_in _ _)) in Hk.
    assert (exists ek, encf fuel (PStr k) = Ok ek) as [ek ->] by (destruct fuel; [lia|eexists; reflexivity]).
    cbn [bind].
    destruct (pd_get_of_key _ _ Hk) as [v G]. rewrite G. cbn [bind].
    apply pd_get_In in G.
    destruct (IH v) as [ev ->]; [| |cbn; eauto].
    + rewrite forallb_forall in S. apply (S _ G).
    + apply depth_in_dict in G. lia.
  - discriminate.
Qed.

Theorem encf_error : forall fuel v e, encf fuel v = Err e -> e = TypeError \/ e = OutOfFuel.
Proof.
  assert (forall {A} (f : A -> res str) l e, mapM f l = Err e -> exists a, In a l /\ f a = Err e) as MM.
  { intros A f. induction l as [|a l IHl]; cbn; intros e H; [discriminate|].
    destruct (f a) as [b|e0] eqn:E; cbn in H.
    - destruct (mapM f l) as [bs|e1] eqn:E1; cbn in H; [discriminate|]. inversion H; subst.
      destruct (IHl _ eq_refl) as [x [Hx Fx]]. exists x. auto.
    - inversion H; subst. exists a. auto. }
  induction fuel as [|fuel IH]; intros v e H; [inversion H; auto|].
  destruct v as [s|z|b|l|l|kvs|t]; cbn [encf] in H; try discriminate.
  - destruct (mapM (encf fuel) l) as [es|e0] eqn:E; cbn in H; [discriminate|]. inversion H; subst.
    destruct (MM _ _ _ _ E) as [a [_ Ha]]. eauto.
  - destruct (mapM (encf fuel) l) as [es|e0] eqn:E; cbn in H; [discriminate|]. inversion H; subst.
    destruct (MM _ _ _ _ E) as [a [_ Ha]]. eauto.
  - match type of H with bind (mapM ?g ?l) _ = _ => destruct (mapM g l) as [es|e0] eqn:E end;
      cbn in H; [discriminate|]. inversion H; subst.
    destruct (MM _ _ _ _ E) as [k [Hk Fk]]. apply (proj1 (py_sorted_str_in _ _)) in Hk.
    destruct (encf fuel (PStr k)) as [ek|e1] eqn:E1; cbn in Fk.
    + destruct (pd_get_of_key _ _ Hk) as [v G]. rewrite G in Fk. cbn in Fk.
      destruct (encf fuel v) as [ev|e2] eqn:E2; cbn in Fk; [discriminate|]. inversion Fk; subst. eauto.
    + inversion Fk; subst. eauto.
  - inversion H; auto.
Qed.

(* ------------------------------------------------------------------ D. dict order *)
Lemma sorted_perm_unique : forall l l', StronglySorted lt_lex l -> StronglySorted lt_lex l' ->
  Permutation l l' -> l = l'.
Proof.
  induction l as [|a l IH]; intros l' S S' P.
  - apply Permutation_nil in P. auto.
  - destruct l' as [|a' l']; [apply Permutation_sym, Permutation_nil in P; discriminate|].
    inversion S as [|? ? Sl Fa]; inversion S' as [|? ? Sl' Fa']; subst.
    assert (a = a') as ->.
    { destruct (list_eq_dec N.eq_dec a a') as [|Hne]; auto. exfalso.
      assert (In a (a' :: l')) as I1 by (eapply Permutation_in; eauto; left; auto).
      assert (In a' (a :: l)) as I2 by (eapply Permutation_in; [apply Permutation_sym; eauto|left; auto]).
      destruct I1 as [|I1]; [congruence|]. destruct I2 as [|I2]; [congruence|].
      rewrite Forall_forall in Fa, Fa'. apply Fa in I2. apply Fa' in I1. unfold lt_lex in *.
      rewrite lex_antisym, I1 in I2. discriminate. }
    f_equal. apply IH; auto. eapply Permutation_cons_inv; eauto.
Qed.

Lemma pd_get_perm kvs kvs' k : Permutation kvs kvs' -> NoDup (pd_keys kvs) -> pd_get kvs k = pd_get kvs' k.
Proof.
  induction 1 as [|[k0 v0] l l' P IH|[k1 v1] [k2 v2] l|l l' l'' P1 IH1 P2 IH2]; intros N; auto.
  - cbn in *. inversion N; subst. destruct (str_eqb k k0); auto.
  - cbn in *. inversion N as [|? ? N1 N2]; subst. inversion N2; subst.
    destruct (str_eqb k k2) eqn:E2; destruct (str_eqb k k1) eqn:E1; auto.
    apply str_eqb_eq in E1, E2. subst. exfalso. apply N1. left; auto.
  - rewrite IH1; auto. apply IH2. unfold pd_keys in *.
    eapply Permutation_NoDup; [apply Permutation_map; eauto|auto].
Qed.

Lemma mapM_ext {A B} (f g : A -> res B) l : (forall a, f a = g a) -> mapM f l = mapM g l.
Proof. intros H. induction l as [|a l IH]; cbn; auto. rewrite H, IH. auto. Qed.

Theorem encf_dict_order : forall fuel kvs kvs', Permutation kvs kvs' -> NoDup (pd_keys kvs) ->
  encf fuel (PDict kvs) = encf fuel (PDict kvs').
Proof.
  intros fuel kvs kvs' P N. destruct fuel as [|fuel]; auto. cbn [encf].
  assert (py_sorted_str (pd_keys kvs) = py_sorted_str (pd_keys kvs')) as K.
  { assert (Permutation (pd_keys kvs) (pd_keys kvs')) as PK by (apply Permutation_map; auto).
    apply sorted_perm_unique.
    - apply py_sorted_strict; auto.
    - apply py_sorted_strict. eapply Permutation_NoDup; eauto.
    - eapply Permutation_trans; [apply py_sorted_str_perm|].
      eapply Permutation_trans; [exact PK|]. apply Permutation_sym, py_sorted_str_perm. }
  rewrite <- K. f_equal. apply mapM_ext. intros k. rewrite (pd_get_perm _ _ k P N). reflexivity.
Qed.

(* ------------------------------------------------------------------ E. the key *)
Lemma verify_key_unfold v m p f srcs :
  verify_key v m p f srcs = v ++ 0 :: m ++ 0 :: p ++ 0 :: f ++ flat_map (fun x => [0] ++ x) srcs.
Proof. unfold verify_key, py_join. cbn. rewrite <- ?app_assoc. reflexivity. Qed.

Definition key_of (fuel : nat) (i : inputs) : res str :=
  bind (flatten fuel (PDict (i_kwds i))) (fun fk =>
  Ok (verify_key (i_version i) (i_vvm i) (i_preamble i) fk (i_sources i))).

Theorem key_injective : forall fuel fuel' i j k,
  nulfree_inputs i -> nulfree_inputs j ->
  key_of fuel i = Ok k -> key_of fuel' j = Ok k -> equiv_inputs i j.
Proof.
  intros fuel fuel' i j k [Iv [Im [Ip Is]]] [Jv [Jm [Jp Js]]] Hi Hj.
  unfold key_of in *. rewrite flatten_is_encf in Hi, Hj.
  apply bind_ok in Hi. destruct Hi as [fi [Fi Hi]]. apply bind_ok in Hj. destruct Hj as [fj [Fj Hj]].
  apply Ok_inj in Hi, Hj. rewrite verify_key_unfold in Hi, Hj. rewrite <- Hj in Hi. clear Hj.
  destruct (nul_split _ _ _ _ Iv Jv Hi) as [Ev H1].
  destruct (nul_split _ _ _ _ Im Jm H1) as [Em H2].
  destruct (nul_split _ _ _ _ Ip Jp H2) as [Ep H3].
  destruct (encf_prefix_code _ _ _ _ _ _ _ _ Fi Fj H3) as [V H4].
  apply nul_tail_inj in H4; auto.
  unfold equiv_inputs. auto.
Qed.

(* with a NUL in a cdef source the key is not injective: one source "a\0b" vs two sources "a", "b" *)
Theorem key_not_injective_with_nul :
  exists i j, key_of 2 i = key_of 2 j /\ (exists k, key_of 2 i = Ok k) /\ ~ equiv_inputs i j /\
              nulfree (i_version i) /\ nulfree (i_vvm i) /\ nulfree (i_preamble i) /\
              nulfree_inputs j.
Proof.
  exists {| i_version := [51]; i_vvm := [48]; i_preamble := []; i_kwds := []; i_sources := [[97; 0; 98]] |}.
  exists {| i_version := [51]; i_vvm := [48]; i_preamble := []; i_kwds := []; i_sources := [[97]; [98]] |}.
  split; [vm_compute; reflexivity|]. split; [eexists; vm_compute; reflexivity|].
  split.
  - intros [_ [_ [_ [_ H]]]]. cbn in H. discriminate.
  - unfold nulfree_inputs, nulfree; cbn. repeat split; repeat constructor; discriminate.
Qed.

(* the module name depends on the key only through the two CRCs of the encoded key *)
Theorem name_function_of_crcs : forall (crc crc' : list N -> Z) tag ck key key' b b',
  utf8_encode key = Some b -> utf8_encode key' = Some b' ->
  crc (py_slice_step2 0 b) = crc' (py_slice_step2 0 b') ->
  crc (py_slice_step2 1 b) = crc' (py_slice_step2 1 b') ->
  module_name crc tag ck key = module_name crc' tag ck key'.
Proof.
  intros crc crc' tag ck key key' b b' E E' H0 H1. unfold module_name, py_encode_utf8.
  rewrite E, E'. cbn [bind]. rewrite H0, H1. reflexivity.
Qed.
