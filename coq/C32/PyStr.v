(* Python primitives used by the code translated for C32 (ffiplatform._flatten / flatten, the key
   assembly of verifier.Verifier.__init__), beyond those of C35/PyStr.v.  Each is run against CPython
   on generated inputs at the start of every check (tools/props/c32.py, micro-suite).
   Definitions, then lemmas. *)
From Coq Require Import List NArith ZArith Bool Lia ZifyBool Decimal DecimalZ DecimalN.
Import ListNotations.
From Cffi Require Import C35.PyStr C25.Model.
Open Scope N_scope.

(* decimal digits of a Decimal.uint, most significant first ('0' = 48) *)
Fixpoint digits (u : Decimal.uint) : str :=
  match u with
  | Nil => []
  | D0 u => 48 :: digits u | D1 u => 49 :: digits u | D2 u => 50 :: digits u
  | D3 u => 51 :: digits u | D4 u => 52 :: digits u | D5 u => 53 :: digits u
  | D6 u => 54 :: digits u | D7 u => 55 :: digits u | D8 u => 56 :: digits u
  | D9 u => 57 :: digits u
  end.

(* '%d' % z *)
Definition py_dec (z : Z) : str :=
  match Z.to_int z with
  | Decimal.Pos u => digits u
  | Decimal.Neg u => 45 :: digits u
  end.

(* hex(z) for z >= 0: '0x' + lowercase hexadecimal digits *)
Definition hex_digit (d : N) : N := if d <? 10 then 48 + d else 87 + d.
Fixpoint hex_go (fuel : nat) (n : N) (acc : str) : str :=
  match fuel with
  | O => acc
  | S f => if n =? 0 then acc else hex_go f (n / 16) (hex_digit (n mod 16) :: acc)
  end.
Definition py_hex (z : Z) : str :=
  let n := Z.to_N z in
  [48; 120] ++ (if n =? 0 then [48] else hex_go (S (N.to_nat (N.log2 n))) n []).

(* s.lstrip(chars) / s.rstrip(chars) *)
Definition in_chars (chars : str) (c : N) : bool := existsb (N.eqb c) chars.
Fixpoint py_lstrip (s chars : str) : str :=
  match s with
  | c :: s' => if in_chars chars c then py_lstrip s' chars else s
  | [] => []
  end.
Definition py_rstrip (s chars : str) : str := List.rev (py_lstrip (List.rev s) chars).

(* sep.join(l) *)
Definition py_join (sep : str) (l : list str) : str :=
  match l with
  | [] => []
  | a :: l' => a ++ flat_map (fun x => sep ++ x) l'
  end.

(* x[start::2] for start in {0, 1} *)
Fixpoint evens {A} (l : list A) : list A :=
  match l with
  | a :: _ :: l' => a :: evens l'
  | l => l
  end.
Definition py_slice_step2 {A} (start : nat) (l : list A) : list A := evens (skipn start l).

(* sorted(list of str): order by code points = C25's byte-wise lexicographic order on list N *)
Definition py_sorted_str (l : list str) : list str := py_sorted l.

(* ------------------------------------------------------------------ lemmas: decimal *)
Definition is_digit (c : N) : bool := (48 <=? c) && (c <=? 57).

Lemma digits_all_digit u : Forall (fun c => is_digit c = true) (digits u).
Proof. induction u; cbn; constructor; auto. Qed.

(* digit strings followed by a non-digit determine the digits and the rest *)
Lemma digits_prefix : forall u u' c c' r r',
  is_digit c = false -> is_digit c' = false ->
  digits u ++ c :: r = digits u' ++ c' :: r' -> u = u' /\ c = c' /\ r = r'.
Proof.
  induction u; destruct u'; cbn; intros c c' r r' Hc Hc' H;
    injection H; intros; subst; auto; try discriminate;
    try (cbn in Hc; discriminate); try (cbn in Hc'; discriminate);
    match goal with
    | H2 : digits _ ++ _ :: _ = digits _ ++ _ :: _ |- _ =>
        destruct (IHu _ _ _ _ _ Hc Hc' H2) as [-> [-> ->]]; auto
    end.
Qed.

Lemma to_int_inj z z' : Z.to_int z = Z.to_int z' -> z = z'.
Proof. intros H. rewrite <- (DecimalZ.of_to z), <- (DecimalZ.of_to z'), H. reflexivity. Qed.

(* the header written by _flatten: a decimal number then a tag letter that is neither a digit nor '-' *)
Definition is_tag (c : N) : bool := negb (is_digit c) && negb (c =? 45).

Lemma py_dec_prefix : forall z z' c c' r r', is_tag c = true -> is_tag c' = true ->
  py_dec z ++ c :: r = py_dec z' ++ c' :: r' -> z = z' /\ c = c' /\ r = r'.
Proof.
  intros z z' c c' r r' Hc Hc'. unfold is_tag in *.
  apply andb_true_iff in Hc, Hc'. destruct Hc as [Hd Hm], Hc' as [Hd' Hm'].
  apply negb_true_iff in Hd, Hm, Hd', Hm'. apply N.eqb_neq in Hm, Hm'.
  unfold py_dec. destruct (Z.to_int z) as [u|u] eqn:E, (Z.to_int z') as [u'|u'] eqn:E'; intros H.
  - destruct (digits_prefix _ _ _ _ _ _ Hd Hd' H) as [-> [-> ->]]. split; auto.
    apply to_int_inj. congruence.
  - exfalso. destruct u; cbn in H; injection H as H1 H2; subst; try discriminate. congruence.
  - exfalso. destruct u'; cbn in H; injection H as H1 H2; subst; try discriminate. congruence.
  - cbn in H. injection H as H.
    destruct (digits_prefix _ _ _ _ _ _ Hd Hd' H) as [-> [-> ->]]. split; auto.
    apply to_int_inj. congruence.
Qed.

Lemma app_inv_length {A} (a b r r' : list A) :
  length a = length b -> a ++ r = b ++ r' -> a = b /\ r = r'.
Proof.
  revert b. induction a as [|x a IH]; destruct b as [|y b]; cbn; intros L H; try discriminate; auto.
  injection H as -> H. destruct (IH b) as [-> ->]; auto.
Qed.

(* ------------------------------------------------------------------ lemmas: join *)
Definition nulfree (s : str) := Forall (fun c => c <> 0) s.

Lemma nul_split : forall a a' r r', nulfree a -> nulfree a' ->
  a ++ 0 :: r = a' ++ 0 :: r' -> a = a' /\ r = r'.
Proof.
  induction a as [|x a IH]; destruct a' as [|y a']; cbn; intros r r' Ha Ha' H.
  - injection H as ->. auto.
  - injection H as <- _. inversion Ha'; subst. congruence.
  - injection H as -> _. inversion Ha; subst. congruence.
  - injection H as -> H. inversion Ha as [|? ? _ Hx]; inversion Ha' as [|? ? _ Hy]; subst.
    destruct (IH _ _ _ Hx Hy H) as [-> ->]. auto.
Qed.

Lemma nul_tail_inj : forall l l', Forall nulfree l -> Forall nulfree l' ->
  flat_map (fun x => [0] ++ x) l = flat_map (fun x => [0] ++ x) l' -> l = l'.
Proof.
  induction l as [|a l IH]; destruct l' as [|a' l']; cbn; intros Hl Hl' H; try discriminate; auto.
  injection H as H. inversion Hl as [|? ? Na Nl]; inversion Hl' as [|? ? Na' Nl']; subst.
  destruct l as [|b l], l' as [|b' l']; cbn in *.
  - rewrite !app_nil_r in H. subst. auto.
  - exfalso. rewrite app_nil_r in H. subst a.
    unfold nulfree in Na. rewrite Forall_app in Na. destruct Na as [_ Na]. inversion Na; subst. congruence.
  - exfalso. rewrite app_nil_r in H. subst a'.
    unfold nulfree in Na'. rewrite Forall_app in Na'. destruct Na' as [_ Na']. inversion Na'; subst. congruence.
  - destruct (nul_split a a' _ _ Na Na' H) as [-> H'].
    f_equal. apply IH; auto. cbn. f_equal. exact H'.
Qed.

(* ------------------------------------------------------------------ lemmas: sorted *)
From Coq Require Import Permutation Sorted.
From Cffi Require Import C25.Proofs.

Lemma py_sorted_str_perm l : Permutation (py_sorted_str l) l.
Proof. apply py_sorted_perm. Qed.

Lemma py_sorted_str_in l k : In k (py_sorted_str l) <-> In k l.
Proof.
  split; apply Permutation_in; [apply py_sorted_str_perm | apply Permutation_sym, py_sorted_str_perm].
Qed.

Lemma py_sorted_str_length l : length (py_sorted_str l) = length l.
Proof. apply Permutation_length, py_sorted_str_perm. Qed.

(* ------------------------------------------------------------------ path and suffix primitives
   (Verifier.get_module_name / the modulefilename assembly; posixpath semantics, '/' = 47) *)

(* os.path.basename(p): what follows the last '/' *)
Definition py_basename (p : str) : str :=
  fold_left (fun acc c => if c =? 47 then [] else acc ++ [c]) p [].

(* os.path.join(a, b), two arguments *)
Definition py_path_join (a b : str) : str :=
  if py_startswith b [47] then b
  else match List.rev a with
       | [] => b
       | c :: _ => if c =? 47 then a ++ b else a ++ [47] ++ b
       end.

(* x.endswith(s) *)
Definition py_endswith (x s : str) : bool := py_startswith (List.rev x) (List.rev s).

(* l[0] for the result of a split (never empty; [] stands for IndexError, unreachable there) *)
Definition py_item0 (l : list str) : str := match l with x :: _ => x | [] => [] end.

(* x[:-n] for a constant n > 0 *)
Definition py_slice_to_neg (n : nat) (x : str) : str := firstn (length x - n) x.

Definition no_char (c : N) (s : str) := Forall (fun d => d <> c) s.

Lemma basename_fold_noslash : forall s acc, no_char 47 s ->
  fold_left (fun acc c => if c =? 47 then [] else acc ++ [c]) s acc = acc ++ s.
Proof.
  induction s as [|c s IH]; intros acc H; cbn [fold_left].
  - now rewrite app_nil_r.
  - inversion H as [|? ? Hc Hs]; subst. assert (c =? 47 = false) as -> by lia.
    rewrite IH by exact Hs. rewrite <- app_assoc. reflexivity.
Qed.

Lemma py_basename_noslash s : no_char 47 s -> py_basename s = s.
Proof. intros H. unfold py_basename. now rewrite basename_fold_noslash. Qed.

Lemma py_basename_after_slash d s : no_char 47 s -> py_basename (d ++ [47] ++ s) = s.
Proof.
  intros H. unfold py_basename. rewrite !fold_left_app. cbn [fold_left].
  assert (47 =? 47 = true) as -> by reflexivity. now rewrite basename_fold_noslash.
Qed.

Lemma py_basename_join a b : no_char 47 b -> py_basename (py_path_join a b) = b.
Proof.
  intros H. unfold py_path_join.
  destruct b as [|c b'] eqn:Eb.
  - cbn [py_startswith]. destruct (List.rev a) as [|x r] eqn:Er.
    + reflexivity.
    + destruct (x =? 47) eqn:Ex.
      * rewrite app_nil_r. assert (a = List.rev r ++ [47]) as ->.
        { rewrite <- (rev_involutive a), Er. cbn [List.rev]. f_equal. f_equal. lia. }
        apply (py_basename_after_slash (List.rev r) []). constructor.
      * cbn [app]. rewrite app_nil_r. apply (py_basename_after_slash a []). constructor.
  - rewrite <- Eb in *. assert (py_startswith b [47] = false) as ->.
    { subst b. inversion H; subst. cbn [py_startswith]. destruct b'; cbn [py_startswith]; lia. }
    destruct (List.rev a) as [|x r] eqn:Er.
    + now apply py_basename_noslash.
    + destruct (x =? 47) eqn:Ex.
      * assert (a = List.rev r ++ [47]) as ->.
        { rewrite <- (rev_involutive a), Er. cbn [List.rev]. f_equal. f_equal. lia. }
        rewrite <- app_assoc. now apply py_basename_after_slash.
      * now apply py_basename_after_slash.
Qed.

(* x.split(c, 1)[0]: the part before the first c *)
Lemma break_at_nochar c a : forall r, no_char c a -> break_at c (a ++ c :: r) = (a, Some r).
Proof.
  induction a as [|x a IH]; intros r H.
  - change (break_at c (c :: r) = ([], Some r)). unfold break_at. assert (c =? c = true) as -> by lia. reflexivity.
  - inversion H as [|? ? Hx Ha]; subst. change (break_at c (x :: (a ++ c :: r)) = (x :: a, Some r)).
    cbn [break_at]. assert (x =? c = false) as -> by lia. now rewrite IH.
Qed.

Lemma break_at_nochar_all c a : no_char c a -> break_at c a = (a, None).
Proof.
  induction a as [|x a IH]; intros H; cbn [break_at]; auto.
  inversion H as [|? ? Hx Ha]; subst. assert (x =? c = false) as -> by lia. now rewrite IH.
Qed.

Lemma split1_item0_before c a r : no_char c a -> py_item0 (py_split1 c (a ++ c :: r)) = a.
Proof. intros H. unfold py_split1. now rewrite break_at_nochar. Qed.

Lemma split1_item0_none c a : no_char c a -> py_item0 (py_split1 c a) = a.
Proof. intros H. unfold py_split1. now rewrite break_at_nochar_all. Qed.
