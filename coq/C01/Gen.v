(* C01 — REGENERATED on every run by tools/props/c01.py regen() from /repo/src/cffi/cparser.py
   (Parser._get_struct_union_enum_type, via ast; fail closed -> this committed snapshot).
   Fact extracted: where `tp.packed = self._options.get('packed')` stands relative to the parse
   of the `{...}` body (`for decl in type.decls`):
     true  = a top-level statement of the function AFTER that loop: the packed=/pack= options of
             the cdef() call that DEFINES the struct/union apply;
     false = anywhere else (e.g. where the model type object is first created): the options of
             the cdef() that first MENTIONS the tag would apply. *)
Definition packed_from_defining_cdef : bool := true.

(* Second fact, from /repo/src/cffi/api.py FFI._cdef: the loop that re-completes structs which went
   from opaque to defined is `for tp in finishlist: tp.finish_backend_type(self, finishlist)`, i.e. it
   iterates the very list that finish_backend_type GROWS (it appends every struct/union whose backend
   type it had to create lazily, those reached only through pointer fields), so these get completed
   too.  false = it iterates a copy/other expression: pointer targets first declared in the defining
   cdef() would stay unrealized ("ctype 'struct T' is of unknown size"). *)
Definition completion_loop_iterates_growing_list : bool := true.
