(* C01 — REGENERATED on every run by tools/props/c01.py regen() from /repo/src/cffi/cparser.py
   (Parser._get_struct_union_enum_type, via ast; fail closed -> this committed snapshot).
   Fact extracted: where `tp.packed = self._options.get('packed')` stands relative to the parse
   of the `{...}` body (`for decl in type.decls`):
     true  = a top-level statement of the function AFTER that loop: the packed=/pack= options of
             the cdef() call that DEFINES the struct/union apply;
     false = anywhere else (e.g. where the model type object is first created): the options of
             the cdef() that first MENTIONS the tag would apply. *)
Definition packed_from_defining_cdef : bool := true.
