(* C01 — second invariant of the field loop (same case analysis as Proofs.step_agrees, no cursor):
     * every emitted field starts at a non-negative offset and its storage (size_of its type,
       i.e. the whole unit for a bit-field) ends inside the final object; a bit-field's bits lie
       inside its unit                                                   -> fields_within
     * in a struct without (anonymous) unions the fields occupy consecutive non-overlapping
       absolute bit ranges                                               -> fields_chain
   Before the loop ends a bit-field's unit may still stick out of byteoffsetmax: the invariant
   then records that the unit starts at a multiple of an alignment `a <= alignment` with
   size <= a, which the final rounding of the size to `alignment` covers. *)
From Coq Require Import ZArith Lia Bool List.
Import ListNotations.
From Cffi Require Import C01.Spec C01.Model C01.Arith C01.Proofs.
Open Scope Z_scope.

Definition fld_loop (bmax al : Z) (c : cfield) : Prop :=
  0 <= cf_offset c /\ bits_in_unit c /\
  (cf_offset c + size_of (cf_type c) <= bmax \/
   exists a, is_pow2 a /\ a <= al /\ (a | cf_offset c) /\ size_of (cf_type c) <= a /\ cf_offset c < bmax).

(* A: "bit-field types have size <= alignment" is assumed; C: "no union" is assumed *)
Record winv (A C : Prop) (st : lstate) : Prop := {
  w_byte : 0 <= byteoffset st;
  w_bit : 0 <= bitoffset st < 8;
  w_al : is_pow2 (alignment st);
  w_max : ROUNDUP_BYTES (byteoffset st) (bitoffset st) <= byteoffsetmax st;
  w_fld : A -> Forall (fld_loop (byteoffsetmax st) (alignment st)) (fields_out st);
  w_chain : C -> chain 0 (fields_out st) (8 * byteoffset st + bitoffset st) }.

Lemma size_of_nonneg t : 0 <= size_of t.
Proof. unfold size_of. destruct (cffi_layout t); lia. Qed.

Lemma fld_loop_mono bmax al bmax' al' c : bmax <= bmax' -> al <= al' ->
  fld_loop bmax al c -> fld_loop bmax' al' c.
Proof.
  intros H1 H2 (H0 & Hb & [H|(a & Ha & Hle & Hd & Hs & Hlt)]); (split; [exact H0|split; [exact Hb|]]).
  - left. lia.
  - right. exists a. repeat split; auto; lia.
Qed.

Lemma fld_loop_intro bmax al c : 0 <= cf_offset c -> bits_in_unit c ->
  (cf_offset c + size_of (cf_type c) <= bmax \/
   exists a, is_pow2 a /\ a <= al /\ (a | cf_offset c) /\ size_of (cf_type c) <= a /\ cf_offset c < bmax) ->
  fld_loop bmax al c.
Proof. unfold fld_loop. auto. Qed.

Lemma chain_lo lo lo' l hi : lo' <= lo -> chain lo l hi -> chain lo' l hi.
Proof. destruct l; cbn; intros; [lia|]. intuition lia. Qed.

Lemma chain_hi l : forall lo hi hi', hi <= hi' -> chain lo l hi -> chain lo l hi'.
Proof.
  induction l as [|c l IH]; cbn; intros lo hi hi' H H1; [lia|].
  destruct H1 as (? & ? & ?). repeat split; auto. eapply IH; eauto.
Qed.

Lemma chain_le l : forall lo hi, chain lo l hi -> lo <= hi.
Proof.
  induction l as [|c l IH]; cbn; intros lo hi H; [lia|].
  destruct H as (? & ? & H). apply IH in H. lia.
Qed.

Lemma chain_app l : forall lo mid l' hi, chain lo l mid -> chain mid l' hi -> chain lo (l ++ l') hi.
Proof.
  induction l as [|c l IH]; cbn; intros lo mid l' hi H1 H2.
  - eapply chain_lo; eauto.
  - destruct H1 as (? & ? & ?). repeat split; auto. eapply IH; eauto.
Qed.

Definition shiftf (d fl : Z) (c : cfield) : cfield :=
  CF (cf_type c) (d + cf_offset c) (cf_bitshift c) (cf_bitsize c) (Z.lor (cf_flags c) fl).

Lemma fstart_shift d fl c : fstart (shiftf d fl c) = 8 * d + fstart c.
Proof. unfold fstart, is_bf, shiftf. cbn [cf_offset cf_bitsize cf_bitshift cf_type]. destruct (0 <=? cf_bitsize c); lia. Qed.
Lemma fend_shift d fl c : fend (shiftf d fl c) = 8 * d + fend c.
Proof. unfold fend, is_bf, shiftf. cbn [cf_offset cf_bitsize cf_bitshift cf_type]. destruct (0 <=? cf_bitsize c); lia. Qed.

Lemma chain_shift d fl l : forall lo hi, chain lo l hi -> chain (8 * d + lo) (map (shiftf d fl) l) (8 * d + hi).
Proof.
  induction l as [|c l IH]; cbn [map chain]; intros lo hi H; [lia|].
  destruct H as (H1 & H2 & H3). rewrite fstart_shift, fend_shift.
  repeat split; try lia. apply IH; auto.
Qed.

Lemma chain_starts l : forall lo hi, chain lo l hi -> Forall (fun c => lo <= fstart c) l.
Proof.
  induction l as [|c l IH]; cbn; intros lo hi H; constructor.
  - tauto.
  - destruct H as (H1 & H2 & H3). apply IH in H3. eapply Forall_impl; [|exact H3].
    cbn. intros. lia.
Qed.

(* consecutive ranges are pairwise disjoint: an earlier field ends before a later one starts *)
Lemma chain_pairs l : forall lo hi, chain lo l hi ->
  ForallOrdPairs (fun c1 c2 => fend c1 <= fstart c2) l.
Proof.
  induction l as [|c l IH]; cbn; intros lo hi H; constructor.
  - destruct H as (_ & _ & H). eapply chain_starts; eauto.
  - destruct H as (_ & _ & H). eapply IH; eauto.
Qed.

Lemma is_pow2_max x y : is_pow2 x -> is_pow2 y -> is_pow2 (Z.max x y).
Proof. intros. destruct (Z.max_spec x y) as [[_ ->]|[_ ->]]; auto. Qed.

Lemma fields_ok_In P fs f : In f fs -> fields_ok P fs -> exists last, field_ok P last f.
Proof.
  induction fs as [|g fs IH]; cbn [In fields_ok]; intros Hin Hok; [contradiction|].
  destruct Hok as (H1 & H2). destruct Hin as [<-|Hin]; eauto.
Qed.

Lemma aup_ge x m : 0 < m -> x <= m * ((x + m - 1) / m).
Proof. intros. pose proof (roundup_ge x m H). unfold roundup in *. lia. Qed.

Lemma pow2_divide a b : is_pow2 a -> is_pow2 b -> a <= b -> (a | b).
Proof.
  intros (k & Hk & ->) (j & Hj & ->) Hle.
  assert (k <= j) by (apply (Z.pow_le_mono_r_iff 2); lia).
  exists (2 ^ (j - k)). rewrite <- Z.pow_add_r by lia. f_equal. lia.
Qed.

Lemma carry_pos w : 0 < w -> 1 <= w / 8 + carry (w mod 8).
Proof.
  intros. unfold carry. pose proof (split8 w). pose proof (mod8_bound w).
  destruct (Z.ltb_spec 0 (w mod 8)); [|assert (w mod 8 = 0) by lia].
  - assert (0 <= w / 8) by (apply Z.div_pos; lia). lia.
  - lia.
Qed.

Lemma bits_le_bytes B b : 0 <= b < 8 -> 8 * B + b <= 8 * ROUNDUP_BYTES B b.
Proof. intros. unfold ROUNDUP_BYTES. destruct (Z.ltb_spec 0 b); lia. Qed.

Lemma winv_finish A C st B' b' al' pbs pbf i va cu pc new :
  winv A C st -> 0 <= B' -> 0 <= b' < 8 -> is_pow2 al' -> alignment st <= al' ->
  (A -> Forall (fld_loop (Z.max (byteoffsetmax st) (ROUNDUP_BYTES B' b')) al') new) ->
  (C -> chain (8 * byteoffset st + bitoffset st) new (8 * B' + b')) ->
  winv A C (LS B' b' (if byteoffsetmax st <? ROUNDUP_BYTES B' b' then ROUNDUP_BYTES B' b' else byteoffsetmax st)
                al' pbs pbf i va cu pc (fields_out st ++ new)).
Proof.
  intros W HB Hb Hal Hle Hnew Hch.
  assert (E : (if byteoffsetmax st <? ROUNDUP_BYTES B' b' then ROUNDUP_BYTES B' b' else byteoffsetmax st)
              = Z.max (byteoffsetmax st) (ROUNDUP_BYTES B' b'))
    by (destruct (Z.ltb_spec (byteoffsetmax st) (ROUNDUP_BYTES B' b')); lia).
  rewrite E.
  constructor; cbn [byteoffset bitoffset byteoffsetmax alignment fields_out]; auto.
  - lia.
  - intros HA. apply Forall_app. split; [|auto].
    eapply Forall_impl; [|apply (w_fld _ _ _ W HA)]. intros c. apply fld_loop_mono; lia.
  - intros HC. eapply chain_app; [apply (w_chain _ _ _ W HC)|auto].
Qed.

Lemma step_within (A C : Prop) u sflags pack P last st named ft fi bits st' :
  flags_ok sflags -> pack_rel pack P -> (C -> u = false) ->
  winv A C st ->
  cffi_layout ft = Ok fi -> is_pow2 (ti_align fi) -> ti_align fi <= MAXAL ->
  field_valid P named ft fi bits ->
  (A -> Forall (field_within (ti_size fi)) (ti_fields fi)) ->
  (A -> 0 <= bits -> ti_size fi <= ti_align fi) ->
  (C -> named = false -> chain 0 (ti_fields fi) (8 * Z.max 0 (ti_size fi))) ->
  field_step u sflags pack last st named ft fi bits = Ok st' -> winv A C st'.
Proof.
  intros (Farm & Fmsvc & Fbe) HP HCu W Hlay Hpa Hma (Hbits & Hanon) Hsub Hsa Hchin H.
  pose proof (is_pow2_pos _ Hpa) as Hapos.
  assert (Hso : size_of ft = Z.max 0 (ti_size fi)) by (unfold size_of; rewrite Hlay; reflexivity).
  unfold field_step in H.
  match type of H with bind ?X _ = _ => destruct X as [va|] eqn:Eva; [|discriminate] end.
  cbn [bind] in H.
  rewrite get_alignment_ok in H by auto. cbn [bind] in H.
  set (a := ti_align fi) in *.
  rewrite (falign_cap pack P a) in H by auto.
  rewrite Farm, Fmsvc, Fbe in H. cbn [negb andb] in H.
  set (B0 := if u then 0 else byteoffset st) in *.
  set (b0 := if u then 0 else bitoffset st) in *.
  assert (Hb0 : 0 <= b0 < 8) by (subst b0; destruct u; [lia|apply (w_bit _ _ _ W)]).
  assert (HB0 : 0 <= B0) by (subst B0; destruct u; [lia|apply (w_byte _ _ _ W)]).
  assert (HCB : C -> 8 * byteoffset st + bitoffset st = 8 * B0 + b0)
    by (intros HC; subst B0 b0; rewrite (HCu HC); reflexivity).
  rewrite align_update in H.
  pose proof (cap_pow2 pack P a HP Hpa Hma) as (Hcap & _).
  pose proof (is_pow2_pos _ Hcap) as Hcpos.
  pose proof (w_al _ _ _ W) as Hal.
  destruct (Z.ltb_spec bits 0) as [Hneg|Hnn].
  - (* not a bit-field *)
    assert (bits = -1) as -> by (destruct Hbits as [?|(? & _)]; lia).
    cbn [Z.leb Z.compare] in H. cbv zeta in H.
    rewrite (and_not_m1_spec _ (cap P a)) in H by tauto.
    set (b2 := cap P a * ((ROUNDUP_BYTES B0 b0 + cap P a - 1) / cap P a)) in *.
    assert (Hb2 : ROUNDUP_BYTES B0 b0 <= b2) by (apply aup_ge; lia).
    assert (Hrb : B0 <= ROUNDUP_BYTES B0 b0) by (unfold ROUNDUP_BYTES; destruct (0 <? b0); lia).
    pose proof (bits_le_bytes B0 b0 Hb0) as Hbb.
    assert (Hb3 : (if 0 <=? ti_size fi then b2 + ti_size fi else b2) = b2 + size_of ft)
      by (rewrite Hso; destruct (Z.leb_spec 0 (ti_size fi)); lia).
    rewrite Hb3 in H. pose proof (size_of_nonneg ft) as Hsnn.
    injection H as <-.
    assert (Hr3 : ROUNDUP_BYTES (b2 + size_of ft) 0 = b2 + size_of ft) by (unfold ROUNDUP_BYTES; cbn; lia).
    apply winv_finish; auto; try lia.
    + apply is_pow2_max; auto.
    + intros HA. rewrite Hr3.
      destruct (negb named && is_agg ft) eqn:Ean.
      * apply Forall_map. eapply Forall_impl; [|apply (Hsub HA)].
        intros c (Hc0 & Hc1 & Hc2).
        assert (0 <= size_of (cf_type c)) by apply size_of_nonneg.
        apply fld_loop_intro; cbn [cf_offset cf_type cf_bitsize cf_bitshift]; [lia|exact Hc2|].
        left. rewrite Hso in *. lia.
      * constructor; [|constructor].
        apply fld_loop_intro; cbn [cf_offset cf_type cf_bitsize cf_bitshift]; [lia| |left; lia].
        intros Hx. cbn in Hx. lia.
    + intros HC. rewrite (HCB HC).
      destruct (negb named && is_agg ft) eqn:Ean.
      * apply andb_true_iff in Ean. destruct Ean as (Hn & _). apply negb_true_iff in Hn.
        pose proof (Hchin HC Hn) as Hin. rewrite <- Hso in Hin.
        apply (chain_shift b2 (if u && (0 <? idx st) then BF_IGNORE_IN_CTOR else 0)) in Hin.
        eapply chain_lo; [|eapply chain_hi; [|exact Hin]]; lia.
      * cbn [chain]. unfold fstart, fend, is_bf. cbn [cf_offset cf_type cf_bitsize cf_bitshift].
        cbn [Z.leb Z.compare]. lia.
  - (* a bit-field *)
    destruct Hbits as [->|(_ & -> & Hbf & Hsnn & Hw & Hz)]; [lia|].
    rewrite Hbf in H. cbn [negb] in H.
    destruct (Z.ltb_spec (8 * ti_size fi) bits); [lia|].
    change (cap 0 a) with a in *.
    rewrite (and_not_m1_spec _ a) in H by auto.
    set (fob := a * (B0 / a)) in *.
    assert (Hfob : fob <= B0) by (apply Z.mul_div_le; lia).
    assert (Hfob0 : 0 <= fob) by (apply Z.mul_nonneg_nonneg; [lia|apply Z.div_pos; lia]).
    assert (Hfoba : B0 < fob + a).
    { subst fob. pose proof (Z.mod_pos_bound B0 a Hapos). pose proof (Z.div_mod B0 a ltac:(lia)). lia. }
    assert (Hdiv : (a | fob)) by (exists (B0 / a); subst fob; lia).
    destruct (Z.leb_spec 0 bits); [|lia].
    assert (Hal' : is_pow2 (if named then Z.max (alignment st) a else alignment st))
      by (destruct named; [apply is_pow2_max|]; auto).
    assert (Hale : alignment st <= (if named then Z.max (alignment st) a else alignment st))
      by (destruct named; lia).
    assert (Hsz : size_of ft = ti_size fi) by lia.
    pose proof (bits_le_bytes B0 b0 Hb0) as Hbb.
    destruct (Z.eqb_spec bits 0) as [->|Hnz].
    + (* width 0 *)
      rewrite Hz in * by auto. cbv zeta in H.
      destruct (Z.ltb_spec fob (ROUNDUP_BYTES B0 b0)) as [Hlt|Hge]; injection H as <-;
        apply winv_finish; auto; try lia;
        try (intros HC; rewrite (HCB HC); cbn [chain]; unfold ROUNDUP_BYTES in *;
             destruct (Z.ltb_spec 0 b0); lia);
        try (intros _; constructor).
    + assert (Hbpos : 0 < bits) by lia.
      cbv zeta in H.
      destruct (Z.ltb_spec (8 * ti_size fi) ((B0 - fob) * 8 + b0 + bits)) as [Hover|Hfit].
      * (* next unit *)
        destruct (has sflags SF_PACKED && negb (Z.land ((B0 - fob) * 8 + b0) 7 =? 0)); [discriminate|].
        injection H as <-.
        rewrite ?Z.add_0_l, shiftr3, land7.
        pose proof (split8 bits). pose proof (mod8_bound bits). pose proof (carry_pos bits Hbpos).
        assert (0 <= bits / 8) by (apply Z.div_pos; lia).
        apply winv_finish; auto; try lia.
        -- intros HA. destruct named; constructor; [|constructor].
           apply fld_loop_intro; cbn [cf_offset cf_type cf_bitsize cf_bitshift];
             [lia|intros _; cbn [cf_offset cf_type cf_bitsize cf_bitshift]; repeat split; auto; lia|].
           right. exists a. repeat split; auto; try lia.
           ++ apply Z.divide_add_r; [auto|apply Z.divide_refl].
           ++ rewrite Hsz. apply Hsa; auto.
           ++ rewrite rb_carry. lia.
        -- intros HC. rewrite (HCB HC). destruct named; cbn [chain]; [|lia].
           unfold fstart, fend, is_bf. cbn [cf_offset cf_type cf_bitsize cf_bitshift].
           destruct (Z.leb_spec 0 bits); lia.
      * (* same unit *)
        injection H as <-.
        rewrite shiftr3, land7.
        pose proof (split8 (b0 + bits)). pose proof (mod8_bound (b0 + bits)).
        pose proof (carry_pos (b0 + bits) ltac:(lia)).
        assert (0 <= (b0 + bits) / 8) by (apply Z.div_pos; lia).
        apply winv_finish; auto; try lia.
        -- intros HA. destruct named; constructor; [|constructor].
           apply fld_loop_intro; cbn [cf_offset cf_type cf_bitsize cf_bitshift];
             [lia|intros _; cbn [cf_offset cf_type cf_bitsize cf_bitshift]; repeat split; auto; lia|].
           right. exists a. repeat split; auto; try lia.
           ++ rewrite Hsz. apply Hsa; auto.
           ++ rewrite rb_carry. lia.
        -- intros HC. rewrite (HCB HC). destruct named; cbn [chain]; [|lia].
           unfold fstart, fend, is_bf. cbn [cf_offset cf_type cf_bitsize cf_bitshift].
           destruct (Z.leb_spec 0 bits); lia.
Qed.

(* ------------------------------------------------------------------ the loop and the end of the function *)

Lemma winv0 A C : winv A C lstate0.
Proof.
  constructor; cbn; try lia; auto.
  exists 0. split; [lia|reflexivity].
Qed.

Definition member_facts (A C : Prop) (f : field) : Prop :=
  in_class (f_type f) /\
  forall ti, cffi_layout (f_type f) = Ok ti ->
    (A -> Forall (field_within (ti_size ti)) (ti_fields ti) /\
          (0 <= f_bits f -> ti_size ti <= ti_align ti)) /\
    (C -> f_named f = false -> chain 0 (ti_fields ti) (8 * Z.max 0 (ti_size ti))).

Lemma mloop_within (A C : Prop) u sflags pack P :
  flags_ok sflags -> pack_rel pack P -> (C -> u = false) ->
  forall fs st st', winv A C st -> fields_ok P fs -> Forall (member_facts A C) fs ->
  mloop cffi_layout u sflags pack fs st = Ok st' -> winv A C st'.
Proof.
  intros Hf HP HCu. induction fs as [|[[named ft] bits] fs IH]; intros st st' W Hok Hall H.
  - cbn in H. injection H as <-. exact W.
  - inversion Hall as [|? ? (Hcl & Hfacts) Hall']; subst. cbn [f_type f_bits f_named fst snd] in *.
    destruct Hok as ((Hb & Han & Hfl) & Hok2).
    destruct (layout_total ft Hcl) as (ti & Eti & Hp & Hm & Hsz).
    rewrite mloop_cons, Eti in H. cbn [bind] in H.
    match type of H with bind ?X _ = _ => destruct X as [st1|] eqn:E1; [|discriminate] end.
    cbn [bind] in H.
    destruct (Hfacts ti Eti) as (HA & HC).
    assert (Hv : field_valid P named ft ti bits).
    { split; auto. destruct Hb as [?|(Hnn & HP0 & (s0 & a0 & -> & Hw) & Hz)]; [left; auto|right].
      cbn in Eti. inversion Eti; subst ti. cbn in *.
      destruct Hsz as [?|(? & it & ?)]; [|discriminate]. repeat split; auto. }
    eapply IH; [| exact Hok2 | exact Hall' | exact H].
    eapply (step_within A C); eauto.
    + intros HA'. apply (HA HA').
    + intros HA' Hnn. apply (HA HA'); auto.
Qed.

Lemma finish_within A C st : winv A C st ->
  (A -> Forall (field_within (ti_size (finish_struct st))) (ti_fields (finish_struct st))) /\
  (C -> chain 0 (ti_fields (finish_struct st)) (8 * Z.max 0 (ti_size (finish_struct st)))).
Proof.
  intros W. pose proof (w_al _ _ _ W) as Hp. pose proof (is_pow2_pos _ Hp) as Hpos.
  unfold finish_struct. cbn [ti_size ti_fields].
  rewrite (and_not_m1_spec _ _ Hp).
  set (x := alignment st * ((byteoffsetmax st + alignment st - 1) / alignment st)).
  assert (Hx : byteoffsetmax st <= x) by (apply aup_ge; lia).
  assert (Hdx : (alignment st | x)) by (exists ((byteoffsetmax st + alignment st - 1) / alignment st); subst x; lia).
  set (size := if x =? 0 then 1 else x).
  assert (Hsx : x <= size) by (subst size; destruct (Z.eqb_spec x 0); lia).
  split.
  - intros HA. eapply Forall_impl; [|apply (w_fld _ _ _ W HA)].
    intros c (H0 & Hb & [H|(a & Ha & Hle & Hd & Hs & Hlt)]); (split; [exact H0|split; [|exact Hb]]); [lia|].
    pose proof (pow2_divide a (alignment st) Ha Hp Hle) as Hda.
    pose proof (Z.divide_trans _ _ _ Hda Hdx) as Hdax.
    destruct Hd as (k & Hk). destruct Hdax as (j & Hj). pose proof (is_pow2_pos _ Ha).
    assert (k < j) by nia. nia.
  - intros HC. eapply chain_hi; [|apply (w_chain _ _ _ W HC)].
    pose proof (bits_le_bytes (byteoffset st) (bitoffset st) (w_bit _ _ _ W)). pose proof (w_max _ _ _ W). lia.
Qed.

Lemma bfsa_fields (fs : list (bool * ctype * Z)) :
  (fix all (fs : list (bool * ctype * Z)) : Prop :=
     match fs with
     | [] => True
     | (_, ft, bits) :: fs' =>
         (0 <= bits -> forall s a b, ft = TPrim s a b -> s <= a) /\ bf_size_le_align ft /\ all fs'
     end) fs
  <-> Forall (fun f => (0 <= f_bits f -> forall s a b, f_type f = TPrim s a b -> s <= a) /\
                       bf_size_le_align (f_type f)) fs.
Proof.
  induction fs as [|[[nm ft] b] fs IH]; [split; auto|].
  rewrite Forall_cons_iff, <- IH. cbn [f_bits f_type fst snd]. tauto.
Qed.

Lemma union_free_fields (fs : list (bool * ctype * Z)) :
  (fix all (fs : list (bool * ctype * Z)) : Prop :=
     match fs with
     | [] => True
     | (named, ft, _) :: fs' => (named = false -> union_free ft) /\ all fs'
     end) fs
  <-> Forall (fun f => f_named f = false -> union_free (f_type f)) fs.
Proof.
  induction fs as [|[[nm ft] b] fs IH]; [split; auto|].
  rewrite Forall_cons_iff, <- IH. cbn [f_named f_type fst snd]. tauto.
Qed.

Theorem layout_within t : in_class t -> forall ti, cffi_layout t = Ok ti ->
  (bf_size_le_align t -> Forall (field_within (ti_size ti)) (ti_fields ti)) /\
  (union_free t -> chain 0 (ti_fields ti) (8 * Z.max 0 (ti_size ti))).
Proof.
  induction t as [s a b|it n IH|u P fs IH] using ctype_ind2; intros Hc ti E.
  - cbn in E. injection E as <-. cbn [ti_fields ti_size chain]. split; intros; [apply Forall_nil|cbn [chain]; lia].
  - cbn [cffi_layout] in E. destruct (cffi_layout it) as [ii|]; [|discriminate]. cbn [bind] in E.
    destruct (ti_size ii <? 0); [discriminate|]. injection E as <-. cbn [ti_fields ti_size chain].
    split; intros; [apply Forall_nil|cbn [chain]; lia].
  - cbn [in_class] in Hc. destruct Hc as (HP & Hok & Hall). apply in_class_fields in Hall.
    rewrite cffi_layout_agg in E.
    pose proof (effective_flags_ok P HP) as Hfl.
    destruct (finish_backend_flags P) as (sflags0, pack0).
    destruct (effective_flags sflags0 pack0) as (sflags, pack).
    destruct Hfl as (Hf & Hpr & _).
    destruct (mloop cffi_layout u sflags pack fs lstate0) as [st'|] eqn:El; [|discriminate].
    cbn [bind] in E. injection E as <-.
    set (A := bf_size_le_align (TAgg u P fs)). set (C := union_free (TAgg u P fs)).
    assert (HCu : C -> u = false) by (intros HC; apply HC).
    assert (Hm : Forall (member_facts A C) fs).
    { rewrite Forall_forall in *. intros [[nm ft] bts] Hin. split; [apply (Hall _ Hin)|]. intros ti Eti.
      destruct (IH _ Hin (Hall _ Hin) ti Eti) as (IH1 & IH2).
      cbn [f_type f_bits f_named fst snd] in *.
      split.
      - intros HA. unfold A in HA. cbn [bf_size_le_align] in HA. apply bfsa_fields in HA.
        rewrite Forall_forall in HA. destruct (HA _ Hin) as (Hsa & Hbf). cbn [f_type f_bits fst snd] in *.
        split; [auto|]. intros Hnn.
        destruct (fields_ok_In P fs _ Hin Hok) as (last & (Hb & _)).
        destruct Hb as [?|(_ & _ & (s1 & a1 & -> & _) & _)]; [lia|].
        cbn in Eti. injection Eti as <-. cbn [ti_size ti_align]. eapply Hsa; eauto.
      - intros HC Hnm. apply IH2. unfold C in HC. cbn [union_free] in HC. destruct HC as (_ & HC).
        apply union_free_fields in HC. rewrite Forall_forall in HC. apply (HC _ Hin). exact Hnm. }
    pose proof (mloop_within A C u sflags pack P Hf Hpr HCu fs lstate0 st' (winv0 A C) Hok Hm El) as W.
    destruct (finish_within A C st' W) as (F1 & F2). split; auto.
Qed.
