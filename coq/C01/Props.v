(* C01 — ABI-mode struct and union layout equals the C compiler's layout.
   Statements only; proofs are in C01/Proofs.v (arithmetic in C01/Arith.v).

   cffi_layout (C01/Model.v) is the transcription of b_complete_struct_or_union_lock_held;
   gcc_layout (C01/Spec.v) is the independent bit-cursor specification of gcc's layout.
   Both take the same declaration tree `ctype`.  A model field (cf_offset, cf_bitshift,
   cf_bitsize) denotes, via norm_field, either the byte offset cf_offset (non-bit-field) or
   the absolute storage bits [8*cf_offset + cf_bitshift, + cf_bitsize). *)
From Coq Require Import ZArith List Bool Lia.
Import ListNotations.
From Cffi Require Import C01.Gen C01.Spec C01.Model C01.Arith C01.Proofs C01.Proofs2.
Open Scope Z_scope.

(* "No declaration in this class is rejected": every declaration of the class (see
   Spec.in_class: any field count, order and nesting depth; bit-fields of any integer type,
   widths 0..8*size; unions; anonymous members; trailing flexible array; pack = 0 or a power
   of two with no bit-field in a packed aggregate) is accepted — zero-size aggregates too. *)
(* (in_class bounds a bit-field's width by 8*size of its declared type; for _Bool, modelled as a
   1-byte type, that admits widths 2..8, which gcc refuses and which are therefore outside the
   property's class: the theorems quantify over a superset of it.) *)
Theorem C01_total : forall t, in_class t -> exists ti, cffi_layout t = Ok ti.
Proof. intros t H. destruct (layout_total t H) as (ti & E & _). eauto. Qed.
Print Assumptions C01_total.

(* The layout is the compiler's: for every struct/union of the class in which no struct/union
   (at any depth) has compiler size 0, ffi.sizeof, ffi.alignof, every non-bit-field offset and
   every bit-field's absolute bit range are those of the specification. *)
Theorem C01_agrees : forall u pack fields,
  let t := TAgg u pack fields in
  in_class t -> no_zero_size t ->
  exists ti, cffi_layout t = Ok ti /\
    ti_size ti = g_size (gcc_layout t) /\
    ti_align ti = g_align (gcc_layout t) /\
    map norm_field (ti_fields ti) = g_fields (gcc_layout t).
Proof.
  intros u pack fields t Hc Hz. destruct (layout_agrees t Hc Hz) as (ti & E & Ha & _ & _ & Hs & Hf).
  exists ti. repeat split; auto.
  destruct Hs as [[? _]|(_ & _ & it & Hit)]; [auto|discriminate].
Qed.
Print Assumptions C01_agrees.

(* the same for any type of the class, arrays and `T x[]` included (a flexible array has
   ct_size -1 in cffi and is laid out as an array of length 0 by the compiler) *)
Theorem C01_agrees_any_type : forall t, in_class t -> no_zero_size t ->
  exists ti, cffi_layout t = Ok ti /\
    ti_align ti = g_align (gcc_layout t) /\
    (ti_size ti = g_size (gcc_layout t) \/
     (ti_size ti = -1 /\ g_size (gcc_layout t) = 0 /\ exists it, t = TArr it (-1))) /\
    map norm_field (ti_fields ti) = g_fields (gcc_layout t).
Proof.
  intros t Hc Hz. destruct (layout_agrees t Hc Hz) as (ti & E & Ha & _ & _ & Hs & Hf).
  exists ti. repeat split; auto. destruct Hs as [[? _]|?]; auto.
Qed.
Print Assumptions C01_agrees_any_type.

(* Python side (regenerated fact C01.Gen, re-extracted from cparser.py on every run): the packing
   of a struct/union is the packed=/pack= option of the cdef() call that DEFINES it, whatever
   earlier cdef() calls mentioned its tag.  Breaks (obligation) if the assignment moves. *)
Theorem C01_defining_cdef_options : forall defining mention, struct_packed defining mention = defining.
Proof. reflexivity. Qed.
Print Assumptions C01_defining_cdef_options.

(* Python side, second regenerated fact (api.py FFI._cdef): the re-completion loop iterates the list
   that finish_backend_type grows, so struct/union types reached only through pointer fields of a
   re-completed struct are completed too and "no declaration in this class is rejected" also holds
   for tags that were opaque, used, and defined later.  This is an obligation on the SOURCE SHAPE
   only (no model of the worklist): it breaks if the loop iterates a snapshot; the behaviour itself
   is tied by the "opaque" stream of tools/props/c01.py against gcc. *)
Theorem C01_completion_loop_reaches_lazy_types : completion_loop_iterates_growing_list = true.
Proof. reflexivity. Qed.
Print Assumptions C01_completion_loop_reaches_lazy_types.

(* the loop invariant itself: one iteration of the field loop (any member, any state) keeps
   pos = 8*byteoffset + bitoffset, bitoffset < 8, byteoffsetmax = ceil(maxend/8), equal
   alignments and equal (normalised) field lists *)
Theorem C01_field_step_invariant :
  forall u sflags pack P last st c named ft fi bits s a sub,
  flags_ok sflags -> pack_rel pack P -> (has sflags SF_PACKED = true -> P <> 0) ->
  inv st c -> rel_member last bits ft fi s a sub -> field_valid P named ft fi bits ->
  exists st', field_step u sflags pack last st named ft fi bits = Ok st' /\
              inv st' (place_member u P c named s a sub bits).
Proof. exact step_agrees. Qed.
Print Assumptions C01_field_step_invariant.

(* A field access stays inside the object.  For every declaration of the class whose bit-field
   types have size <= alignment (Spec.bf_size_le_align: all integer types and _Bool on x86-64), every
   entry (cf_type, cf_offset, cf_bitshift, cf_bitsize) the layout function emits — anonymous members'
   fields included, at any depth — satisfies: the offset is non-negative; the field's storage
   (size_of its type = the ct_size the layout function itself computes; the whole storage unit for a
   bit-field; 0 for the flexible tail `T x[]`) ends inside ffi.sizeof; a bit-field has width >= 1, a
   non-negative shift, all its bits inside its unit, and an integer declared type.  These are the
   premises `placement T w sh` and `off + isize T <= length mem` of C02_isolated_object /
   C02_fields_noninterfere / C03_store_frame: read_raw_*_data / write_raw_integer_data at
   data + cf_offset never touch a byte outside the struct.  (Second loop invariant, C01/Proofs2.v.) *)
Theorem C01_fields_within_object : forall t ti,
  in_class t -> bf_size_le_align t -> cffi_layout t = Ok ti ->
  Forall (fun c => 0 <= cf_offset c /\ cf_offset c + size_of (cf_type c) <= ti_size ti /\
                   (0 <= cf_bitsize c ->
                    1 <= cf_bitsize c /\ 0 <= cf_bitshift c /\
                    cf_bitshift c + cf_bitsize c <= 8 * size_of (cf_type c) /\
                    bitfield_capable (cf_type c) = true)) (ti_fields ti).
Proof. intros t ti Hc Hb E. exact (proj1 (layout_within t Hc ti E) Hb). Qed.
Print Assumptions C01_fields_within_object.

(* bf_size_le_align cannot be dropped: with sizeof(T) = 8, alignof(T) = 4 (long long on i386; not an
   x86-64 type) `struct { T x:3; }` has size 4 and an 8-byte storage unit.  Model-level fact about
   the quantified superset, not a defect of cffi on this platform. *)
Theorem C01_fields_within_needs_size_le_align :
  exists t ti, in_class t /\ cffi_layout t = Ok ti /\
    ~ Forall (field_within (ti_size ti)) (ti_fields ti).
Proof.
  exists (TAgg false 0 [(true, TPrim 8 4 true, 3)]). eexists. split; [|split; [vm_compute; reflexivity|]].
  - cbn. repeat split; auto; try lia; try discriminate; try (exists 2; split; [lia|reflexivity]).
    right. repeat split; try lia. do 2 eexists. split; [reflexivity|lia].
  - intros H. inversion H as [|? ? (H0 & H1 & _) _]; subst. vm_compute in H1. apply H1. reflexivity.
Qed.
Print Assumptions C01_fields_within_needs_size_le_align.

(* Distinct fields of a struct occupy disjoint storage.  For every declaration of the class with no
   union among the aggregate and its anonymous members (Spec.union_free; the members of a union
   overlap by design), the emitted fields, in order, occupy consecutive non-overlapping absolute bit
   ranges [fstart, fend) — the bits 8*cf_offset + cf_bitshift .. + cf_bitsize of a bit-field, the
   bytes cf_offset .. + size_of of any other member — all inside [0, 8*sizeof): an earlier field ends
   before a later one starts.  With C02_fields_noninterfere (coq/C02/Props.v,
   C02_layout_fields_disjoint) this is "writing one bit-field never changes another field". *)
Theorem C01_fields_disjoint : forall t ti,
  in_class t -> union_free t -> cffi_layout t = Ok ti ->
  ForallOrdPairs (fun c1 c2 => fend c1 <= fstart c2) (ti_fields ti) /\
  chain 0 (ti_fields ti) (8 * Z.max 0 (ti_size ti)).
Proof.
  intros t ti Hc Hu E. pose proof (proj2 (layout_within t Hc ti E) Hu) as H.
  split; [eapply chain_pairs; eauto|exact H].
Qed.
Print Assumptions C01_fields_disjoint.

(* the second loop invariant itself, one iteration *)
Theorem C01_field_step_within :
  forall (A C : Prop) u sflags pack P last st named ft fi bits st',
  flags_ok sflags -> pack_rel pack P -> (C -> u = false) ->
  winv A C st ->
  cffi_layout ft = Ok fi -> is_pow2 (ti_align fi) -> ti_align fi <= MAXAL ->
  field_valid P named ft fi bits ->
  (A -> Forall (field_within (ti_size fi)) (ti_fields fi)) ->
  (A -> 0 <= bits -> ti_size fi <= ti_align fi) ->
  (C -> named = false -> chain 0 (ti_fields fi) (8 * Z.max 0 (ti_size fi))) ->
  field_step u sflags pack last st named ft fi bits = Ok st' -> winv A C st'.
Proof. exact step_within. Qed.
Print Assumptions C01_field_step_within.

(* The hypothesis no_zero_size cannot be dropped: the full statement is FALSE of the faithful
   model (deliberate in cffi: "alignedsize == 0 -> 1").  Known finding zero_size_aggregate. *)
Definition t_int := TPrim 4 4 true.
Definition t_char := TPrim 1 1 true.
Definition zero_witness := TAgg false 0 [(true, TArr t_int 0, -1)].          (* struct { int a[0]; } *)
Definition zero_nested_witness :=                                            (* struct { char c; struct {} e; char d; } *)
  TAgg false 0 [(true, t_char, -1); (true, TAgg false 0 [], -1); (true, t_char, -1)].

Ltac pow2 := first [exists 0; split; [lia|reflexivity] | exists 1; split; [lia|reflexivity]
                   | exists 2; split; [lia|reflexivity] | exists 3; split; [lia|reflexivity]
                   | exists 4; split; [lia|reflexivity]].
Ltac in_class_tac :=
  repeat (first [ exact I | lia | pow2 | left; reflexivity | discriminate
                | match goal with
                  | |- _ /\ _ => split
                  | |- forall _, _ => intro
                  | H : _ = TArr _ _ |- _ => inversion H; clear H
                  | |- _ = _ -> _ => intro
                  end ]); auto.

Theorem C01_zero_size_refuted :
  exists t, in_class t /\
    exists ti, cffi_layout t = Ok ti /\ ti_size ti <> g_size (gcc_layout t).
Proof.
  exists zero_witness. split.
  - cbn. in_class_tac.
  - eexists. split; [vm_compute; reflexivity|]. vm_compute. discriminate.
Qed.
Print Assumptions C01_zero_size_refuted.

(* ... and a zero-size member shifts the offsets of the members after it *)
Theorem C01_zero_size_refuted_offsets :
  exists t, in_class t /\
    exists ti, cffi_layout t = Ok ti /\ map norm_field (ti_fields ti) <> g_fields (gcc_layout t).
Proof.
  exists zero_nested_witness. split.
  - cbn. in_class_tac.
  - eexists. split; [vm_compute; reflexivity|]. vm_compute. discriminate.
Qed.
Print Assumptions C01_zero_size_refuted_offsets.

(* ---- non-vacuity: a declaration that uses every kind of member is in the class, has no
   zero-size part, and both sides compute the layout gcc 12 gives
   struct a { char c; int x:3; unsigned long long y:60; int :0; long long :5; _Bool b:1;
              struct { short s; union { int u1; char u2; }; }; struct { int q; } named; int arr[]; }; *)
Definition t_ull := TPrim 8 8 true.
Definition t_short := TPrim 2 2 true.
Definition example_a :=
  TAgg false 0 [(true, t_char, -1); (true, t_int, 3); (true, t_ull, 60); (false, t_int, 0);
                (false, t_ull, 5); (true, t_char, 1);
                (false, TAgg false 0 [(true, t_short, -1);
                                      (false, TAgg true 0 [(true, t_int, -1); (true, t_char, -1)], -1)], -1);
                (true, TAgg false 0 [(true, t_int, -1)], -1);
                (true, TArr t_int (-1), -1)].

Example C01_example_in_class : in_class example_a /\ no_zero_size example_a.
Proof.
  split.
  - cbn. in_class_tac;
      (right; split; [lia|split; [reflexivity|split;
         [do 2 eexists; split; [reflexivity|vm_compute; discriminate]
         |intro; first [reflexivity|lia]]]]).
  - cbn. repeat split; vm_compute; reflexivity.
Qed.

Example C01_example_layout :
  observe (cffi_layout example_a) =
    Some (32, 8, [(0, -1, -1, 0); (0, 8, 3, 0); (8, 0, 60, 0); (16, 5, 1, 0); (20, -1, -1, 0);
                  (24, -1, -1, 0); (24, -1, -1, 1); (28, -1, -1, 0); (32, -2, -1, 0)]) /\
  gobserve (gcc_layout example_a) =
    (32, 8, [(0, -1); (8, 3); (64, 60); (133, 1); (20, -1); (24, -1); (24, -1); (28, -1); (32, -1)]).
Proof. split; vm_compute; reflexivity. Qed.

(* packed: struct { char c; double d; short s; } with pack = 1, 2, 4 *)
Example C01_example_packed :
  map (fun p => gobserve (gcc_layout (TAgg false p [(true, t_char, -1); (true, TPrim 8 8 false, -1);
                                                    (true, t_short, -1)]))) [0; 1; 2; 4] =
  [(24, 8, [(0, -1); (8, -1); (16, -1)]); (11, 1, [(0, -1); (1, -1); (9, -1)]);
   (12, 2, [(0, -1); (2, -1); (10, -1)]); (16, 4, [(0, -1); (4, -1); (12, -1)])] /\
  forall p, In p [0; 1; 2; 4] ->
    in_class (TAgg false p [(true, t_char, -1); (true, TPrim 8 8 false, -1); (true, t_short, -1)]).
Proof.
  split; [vm_compute; reflexivity|].
  intros p [<-|[<-|[<-|[<-|[]]]]]; cbn; in_class_tac; try (right; pow2).
Qed.

(* non-vacuity of the two new hypotheses: example_a (which has an anonymous union) satisfies
   bf_size_le_align; example_b (no union; bit-fields of three types sharing and not sharing units,
   an anonymous struct with a bit-field) satisfies all of in_class, bf_size_le_align, union_free,
   and its fields are the ranges gcc gives *)
Definition example_b :=
  TAgg false 0 [(true, t_char, 3); (true, t_int, 5); (true, t_short, 9); (true, t_ull, 60);
                (false, TAgg false 0 [(true, t_short, -1); (true, t_int, 5)], -1); (true, t_char, -1)].
Example C01_example_size_le_align : bf_size_le_align example_a /\ bf_size_le_align example_b.
Proof.
  split; cbn; repeat split; try (intros ? s a b Heq; inversion Heq; lia).
Qed.
Example C01_example_b_in_class : in_class example_b /\ union_free example_b.
Proof.
  split.
  - cbn. in_class_tac;
      (right; split; [lia|split; [reflexivity|split;
         [do 2 eexists; split; [reflexivity|vm_compute; discriminate]
         |intro; first [reflexivity|lia]]]]).
  - cbn. repeat split; try discriminate.
Qed.
Example C01_example_b_ranges :
  match cffi_layout example_b with
  | Ok ti => (ti_size ti, map (fun c => (fstart c, fend c)) (ti_fields ti))
  | Err _ => (0, [])
  end = (24, [(0, 3); (3, 8); (16, 25); (64, 124); (128, 144); (144, 149); (160, 168)]).
Proof. vm_compute. reflexivity. Qed.
