(* C01 — ABI-mode struct and union layout equals the C compiler's layout.
   Statements only; proofs are in C01/Proofs.v (arithmetic in C01/Arith.v).

   cffi_layout (C01/Model.v) is the transcription of b_complete_struct_or_union_lock_held;
   gcc_layout (C01/Spec.v) is the independent bit-cursor specification of gcc's layout.
   Both take the same declaration tree `ctype`.  A model field (cf_offset, cf_bitshift,
   cf_bitsize) denotes, via norm_field, either the byte offset cf_offset (non-bit-field) or
   the absolute storage bits [8*cf_offset + cf_bitshift, + cf_bitsize). *)
From Coq Require Import ZArith List Bool Lia.
Import ListNotations.
From Cffi Require Import C01.Gen C01.Spec C01.Model C01.Arith C01.Proofs.
Open Scope Z_scope.

(* "No declaration in this class is rejected": every declaration of the class (see
   Spec.in_class: any field count, order and nesting depth; bit-fields of any integer type,
   widths 0..8*size; unions; anonymous members; trailing flexible array; pack = 0 or a power
   of two with no bit-field in a packed aggregate) is accepted — zero-size aggregates too. *)
(* (in_class bounds a bit-field's width by 8*size of its declared type; for _Bool, modelled as a
   1-byte type, that admits widths 2..8, which gcc refuses and which are therefore outside the
   property's class: the theorems quantify over a superset of it.) *)
Theorem C01_total : forall t, in_class t -> exists ti, cffi_layout t = Ok ti.
Proof. intros t H. destruct (layout_total t H) as (ti & E & _). eauto. Qed.
Print Assumptions C01_total.

(* The layout is the compiler's: for every struct/union of the class in which no struct/union
   (at any depth) has compiler size 0, ffi.sizeof, ffi.alignof, every non-bit-field offset and
   every bit-field's absolute bit range are those of the specification. *)
Theorem C01_agrees : forall u pack fields,
  let t := TAgg u pack fields in
  in_class t -> no_zero_size t ->
  exists ti, cffi_layout t = Ok ti /\
    ti_size ti = g_size (gcc_layout t) /\
    ti_align ti = g_align (gcc_layout t) /\
    map norm_field (ti_fields ti) = g_fields (gcc_layout t).
Proof.
  intros u pack fields t Hc Hz. destruct (layout_agrees t Hc Hz) as (ti & E & Ha & _ & _ & Hs & Hf).
  exists ti. repeat split; auto.
  destruct Hs as [[? _]|(_ & _ & it & Hit)]; [auto|discriminate].
Qed.
Print Assumptions C01_agrees.

(* the same for any type of the class, arrays and `T x[]` included (a flexible array has
   ct_size -1 in cffi and is laid out as an array of length 0 by the compiler) *)
Theorem C01_agrees_any_type : forall t, in_class t -> no_zero_size t ->
  exists ti, cffi_layout t = Ok ti /\
    ti_align ti = g_align (gcc_layout t) /\
    (ti_size ti = g_size (gcc_layout t) \/
     (ti_size ti = -1 /\ g_size (gcc_layout t) = 0 /\ exists it, t = TArr it (-1))) /\
    map norm_field (ti_fields ti) = g_fields (gcc_layout t).
Proof.
  intros t Hc Hz. destruct (layout_agrees t Hc Hz) as (ti & E & Ha & _ & _ & Hs & Hf).
  exists ti. repeat split; auto. destruct Hs as [[? _]|?]; auto.
Qed.
Print Assumptions C01_agrees_any_type.

(* Python side (regenerated fact C01.Gen, re-extracted from cparser.py on every run): the packing
   of a struct/union is the packed=/pack= option of the cdef() call that DEFINES it, whatever
   earlier cdef() calls mentioned its tag.  Breaks (obligation) if the assignment moves. *)
Theorem C01_defining_cdef_options : forall defining mention, struct_packed defining mention = defining.
Proof. reflexivity. Qed.
Print Assumptions C01_defining_cdef_options.

(* Python side, second regenerated fact (api.py FFI._cdef): the re-completion loop iterates the list
   that finish_backend_type grows, so struct/union types reached only through pointer fields of a
   re-completed struct are completed too and "no declaration in this class is rejected" also holds
   for tags that were opaque, used, and defined later.  This is an obligation on the SOURCE SHAPE
   only (no model of the worklist): it breaks if the loop iterates a snapshot; the behaviour itself
   is tied by the "opaque" stream of tools/props/c01.py against gcc. *)
Theorem C01_completion_loop_reaches_lazy_types : completion_loop_iterates_growing_list = true.
Proof. reflexivity. Qed.
Print Assumptions C01_completion_loop_reaches_lazy_types.

(* the loop invariant itself: one iteration of the field loop (any member, any state) keeps
   pos = 8*byteoffset + bitoffset, bitoffset < 8, byteoffsetmax = ceil(maxend/8), equal
   alignments and equal (normalised) field lists *)
Theorem C01_field_step_invariant :
  forall u sflags pack P last st c named ft fi bits s a sub,
  flags_ok sflags -> pack_rel pack P -> (has sflags SF_PACKED = true -> P <> 0) ->
  inv st c -> rel_member last bits ft fi s a sub -> field_valid P named ft fi bits ->
  exists st', field_step u sflags pack last st named ft fi bits = Ok st' /\
              inv st' (place_member u P c named s a sub bits).
Proof. exact step_agrees. Qed.
Print Assumptions C01_field_step_invariant.

(* The hypothesis no_zero_size cannot be dropped: the full statement is FALSE of the faithful
   model (deliberate in cffi: "alignedsize == 0 -> 1").  Known finding zero_size_aggregate. *)
Definition t_int := TPrim 4 4 true.
Definition t_char := TPrim 1 1 true.
Definition zero_witness := TAgg false 0 [(true, TArr t_int 0, -1)].          (* struct { int a[0]; } *)
Definition zero_nested_witness :=                                            (* struct { char c; struct {} e; char d; } *)
  TAgg false 0 [(true, t_char, -1); (true, TAgg false 0 [], -1); (true, t_char, -1)].

Ltac pow2 := first [exists 0; split; [lia|reflexivity] | exists 1; split; [lia|reflexivity]
                   | exists 2; split; [lia|reflexivity] | exists 3; split; [lia|reflexivity]
                   | exists 4; split; [lia|reflexivity]].
Ltac in_class_tac :=
  repeat (first [ exact I | lia | pow2 | left; reflexivity | discriminate
                | match goal with
                  | |- _ /\ _ => split
                  | |- forall _, _ => intro
                  | H : _ = TArr _ _ |- _ => inversion H; clear H
                  | |- _ = _ -> _ => intro
                  end ]); auto.

Theorem C01_zero_size_refuted :
  exists t, in_class t /\
    exists ti, cffi_layout t = Ok ti /\ ti_size ti <> g_size (gcc_layout t).
Proof.
  exists zero_witness. split.
  - cbn. in_class_tac.
  - eexists. split; [vm_compute; reflexivity|]. vm_compute. discriminate.
Qed.
Print Assumptions C01_zero_size_refuted.

(* ... and a zero-size member shifts the offsets of the members after it *)
Theorem C01_zero_size_refuted_offsets :
  exists t, in_class t /\
    exists ti, cffi_layout t = Ok ti /\ map norm_field (ti_fields ti) <> g_fields (gcc_layout t).
Proof.
  exists zero_nested_witness. split.
  - cbn. in_class_tac.
  - eexists. split; [vm_compute; reflexivity|]. vm_compute. discriminate.
Qed.
Print Assumptions C01_zero_size_refuted_offsets.

(* ---- non-vacuity: a declaration that uses every kind of member is in the class, has no
   zero-size part, and both sides compute the layout gcc 12 gives
   struct a { char c; int x:3; unsigned long long y:60; int :0; long long :5; _Bool b:1;
              struct { short s; union { int u1; char u2; }; }; struct { int q; } named; int arr[]; }; *)
Definition t_ull := TPrim 8 8 true.
Definition t_short := TPrim 2 2 true.
Definition example_a :=
  TAgg false 0 [(true, t_char, -1); (true, t_int, 3); (true, t_ull, 60); (false, t_int, 0);
                (false, t_ull, 5); (true, t_char, 1);
                (false, TAgg false 0 [(true, t_short, -1);
                                      (false, TAgg true 0 [(true, t_int, -1); (true, t_char, -1)], -1)], -1);
                (true, TAgg false 0 [(true, t_int, -1)], -1);
                (true, TArr t_int (-1), -1)].

Example C01_example_in_class : in_class example_a /\ no_zero_size example_a.
Proof.
  split.
  - cbn. in_class_tac;
      (right; split; [lia|split; [reflexivity|split;
         [do 2 eexists; split; [reflexivity|vm_compute; discriminate]
         |intro; first [reflexivity|lia]]]]).
  - cbn. repeat split; vm_compute; reflexivity.
Qed.

Example C01_example_layout :
  observe (cffi_layout example_a) =
    Some (32, 8, [(0, -1, -1, 0); (0, 8, 3, 0); (8, 0, 60, 0); (16, 5, 1, 0); (20, -1, -1, 0);
                  (24, -1, -1, 0); (24, -1, -1, 1); (28, -1, -1, 0); (32, -2, -1, 0)]) /\
  gobserve (gcc_layout example_a) =
    (32, 8, [(0, -1); (8, 3); (64, 60); (133, 1); (20, -1); (24, -1); (24, -1); (28, -1); (32, -1)]).
Proof. split; vm_compute; reflexivity. Qed.

(* packed: struct { char c; double d; short s; } with pack = 1, 2, 4 *)
Example C01_example_packed :
  map (fun p => gobserve (gcc_layout (TAgg false p [(true, t_char, -1); (true, TPrim 8 8 false, -1);
                                                    (true, t_short, -1)]))) [0; 1; 2; 4] =
  [(24, 8, [(0, -1); (8, -1); (16, -1)]); (11, 1, [(0, -1); (1, -1); (9, -1)]);
   (12, 2, [(0, -1); (2, -1); (10, -1)]); (16, 4, [(0, -1); (4, -1); (12, -1)])] /\
  forall p, In p [0; 1; 2; 4] ->
    in_class (TAgg false p [(true, t_char, -1); (true, TPrim 8 8 false, -1); (true, t_short, -1)]).
Proof.
  split; [vm_compute; reflexivity|].
  intros p [<-|[<-|[<-|[<-|[]]]]]; cbn; in_class_tac; try (right; pow2).
Qed.
