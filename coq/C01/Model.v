(* C01 — executable model of cffi's struct/union layout computation.

   Code modelled (line numbers of /repo/src/c/_cffi_backend.c at the pinned commit):
     b_complete_struct_or_union_lock_held   5197-5568   (field loop, all three bit-field conventions)
     complete_sflags                        5143-5169   (x86-64 Linux: GCC_X86 + LITTLE_ENDIAN)
     ROUNDUP_BYTES                          5193
     get_alignment                          1908-1942
     _add_field                             5094-5125   (names are not modelled: only "is the name empty")
   (header refreshed at /repo 2d93229; the line comments inside the definitions below were written
   48 lines earlier: add 48 to them)
   and, on the Python side, model.py StructOrUnion.finish_backend_type 403-428 (how `packed`
   becomes (sflags, pack)) and cparser.py 387-405 (cdef(packed=True) -> packed = 1).

   The state variables keep the names of the C code (byteoffset, bitoffset, byteoffsetmax,
   alignment, prev_bitfield_size, prev_bitfield_free) so that the model reads against the source.
   Not modelled: forced field offsets `foffset` / totalsize / totalalignment (only passed for
   cdefs with '...', outside C01), opaque types, duplicate field names (KeyError), overflow of
   the C integer types (all arithmetic is in Z). *)
From Coq Require Import ZArith List Bool.
Import ListNotations.
From Cffi Require Import C01.Spec.     (* only the declaration syntax `ctype` is used *)
From Cffi Require Import C01.Gen.      (* regenerated fact about cparser.py *)
Open Scope Z_scope.

Inductive err := TypeError | NotImplementedError | SystemError.
Inductive res (A : Type) := Ok (a : A) | Err (e : err).
Arguments Ok {A} a.
Arguments Err {A} e.

Definition bind {A B} (r : res A) (f : A -> res B) : res B :=
  match r with Ok a => f a | Err e => Err e end.

(* 5078-5087 *)
Definition SF_MSVC_BITFIELDS    := 1.
Definition SF_GCC_ARM_BITFIELDS := 2.
Definition SF_GCC_X86_BITFIELDS := 16.
Definition SF_GCC_BIG_ENDIAN    := 4.
Definition SF_GCC_LITTLE_ENDIAN := 64.
Definition SF_PACKED            := 8.
Definition SF_DEFAULT_PACKING   := 1073741824.      (* 0x40000000 *)
(* 286-288 *)
Definition BS_REGULAR     := -1.
Definition BS_EMPTY_ARRAY := -2.
Definition BF_IGNORE_IN_CTOR := 1.

Definition has (sflags flag : Z) : bool := negb (Z.land sflags flag =? 0).

(* 5095: on x86-64 Linux (not MS_WIN32, not arm) *)
Definition complete_sflags (sflags : Z) : Z :=
  let sflags :=
    if negb (has sflags (Z.lor SF_MSVC_BITFIELDS (Z.lor SF_GCC_ARM_BITFIELDS SF_GCC_X86_BITFIELDS)))
    then Z.lor sflags SF_GCC_X86_BITFIELDS else sflags in
  if negb (has sflags (Z.lor SF_GCC_BIG_ENDIAN SF_GCC_LITTLE_ENDIAN))
  then Z.lor sflags SF_GCC_LITTLE_ENDIAN else sflags.

(* cparser.py _get_struct_union_enum_type: which cdef()'s packed=/pack= option ends up in tp.packed.
   `defining` is the option of the cdef() call that contains the {...} body, `mention` the one of an
   earlier cdef() that only mentioned the tag (forward declaration, typedef, pointer field; -1: none).
   The position of the assignment in the source is the regenerated fact C01.Gen. *)
Definition struct_packed (defining mention : Z) : Z :=
  if packed_from_defining_cdef then defining
  else if mention <? 0 then defining else mention.

(* model.py 414-421: (sflags, pack) passed to complete_struct_or_union *)
Definition finish_backend_flags (packed : Z) : Z * Z :=
  if packed =? 0 then (0, 0)
  else if packed =? 1 then (8, 0)
  else (0, packed).

(* 5145 *)
Definition ROUNDUP_BYTES (bytes bits : Z) : Z := bytes + (if 0 <? bits then 1 else 0).

(* `x & ~(a-1)` *)
Definition and_not_m1 (x a : Z) : Z := Z.land x (Z.lnot (a - 1)).

Record cfield := CF {
  cf_type : ctype; cf_offset : Z; cf_bitshift : Z; cf_bitsize : Z; cf_flags : Z }.

(* what the backend knows about a completed ctype *)
Record tinfo := TI {
  ti_size : Z;                 (* ct_size; -1 for `T[]` *)
  ti_align : Z;                (* get_alignment(ct) *)
  ti_var_array : bool;         (* CT_WITH_VAR_ARRAY *)
  ti_custom_field_pos : bool;  (* CT_CUSTOM_FIELD_POS *)
  ti_packed_change : bool;     (* CT_WITH_PACKED_CHANGE *)
  ti_fields : list cfield }.   (* ct_extra, in order *)

Record lstate := LS {
  byteoffset : Z; bitoffset : Z; byteoffsetmax : Z; alignment : Z;
  prev_bitfield_size : Z; prev_bitfield_free : Z;
  idx : Z;                                   (* loop counter i *)
  fl_var_array : bool; fl_custom : bool; fl_packed_change : bool;
  fields_out : list cfield }.

Definition is_array (t : ctype) : bool := match t with TArr _ _ => true | _ => false end.
Definition array_len (t : ctype) : Z := match t with TArr _ n => n | _ => 0 end.
Definition bitfield_capable (t : ctype) : bool := match t with TPrim _ _ b => b | _ => false end.

(* 1871: the final sanity test of get_alignment *)
Definition get_alignment (fi : tinfo) : res Z :=
  let align := ti_align fi in
  if (align <? 1) || negb (Z.land align (align - 1) =? 0) then Err SystemError else Ok align.

(* one iteration of the loop at 5194; `last` is i == nb_fields-1 *)
Definition field_step (is_union : bool) (sflags pack : Z) (last : bool) (st : lstate)
           (named : bool) (ftype : ctype) (fi : tinfo) (fbitsize : Z) : res lstate :=
  (* 5214-5237 *)
  bind (if ti_size fi <? 0 then
          if is_array ftype && (fbitsize <? 0) && last then Ok true else Err TypeError
        else if is_agg ftype then Ok (fl_var_array st || ti_var_array fi)
        else Ok (fl_var_array st)) (fun var_array =>
  (* 5239 *)
  let byteoffset0 := if is_union then 0 else byteoffset st in
  let bitoffset0 := if is_union then 0 else bitoffset st in
  (* 5244-5247 *)
  bind (get_alignment fi) (fun falignorg =>
  let falign := if pack <? falignorg then pack else falignorg in
  (* 5249-5261 *)
  let do_align :=
    if negb (has sflags SF_GCC_ARM_BITFIELDS) && (0 <=? fbitsize) then
      if negb (has sflags SF_MSVC_BITFIELDS) then named else 0 <? fbitsize
    else true in
  let alignment1 := if (alignment st <? falign) && do_align then falign else alignment st in
  (* 5263 *)
  let fflags := if is_union && (0 <? idx st) then BF_IGNORE_IN_CTOR else 0 in
  let finish (byteoffset' bitoffset' pbs pbf : Z) (custom pchg : bool) (new : list cfield) : res lstate :=
    (* 5469-5471 *)
    let r := ROUNDUP_BYTES byteoffset' bitoffset' in
    Ok (LS byteoffset' bitoffset' (if byteoffsetmax st <? r then r else byteoffsetmax st) alignment1
           pbs pbf (idx st + 1) var_array custom pchg (fields_out st ++ new)) in
  if fbitsize <? 0 then
    (* 5265-5329: not a bitfield *)
    let bs_flag := if is_array ftype && (array_len ftype <=? 0) then BS_EMPTY_ARRAY else BS_REGULAR in
    let b1 := ROUNDUP_BYTES byteoffset0 bitoffset0 in
    let byteoffsetorg := and_not_m1 (b1 + falignorg - 1) falignorg in
    let b2 := and_not_m1 (b1 + falign - 1) falign in
    let pchg := fl_packed_change st || negb (byteoffsetorg =? b2) in
    let anon := negb named && is_agg ftype in
    let new :=
      if anon then
        map (fun c => CF (cf_type c) (b2 + cf_offset c) (cf_bitshift c) (cf_bitsize c)
                         (Z.lor (cf_flags c) fflags)) (ti_fields fi)
      else [CF ftype b2 bs_flag (-1) fflags] in
    let b3 := if 0 <=? ti_size fi then b2 + ti_size fi else b2 in
    finish b3 0 0 (prev_bitfield_free st) (fl_custom st || anon) pchg new
  else
    (* 5330-5467: a bitfield *)
    if negb (bitfield_capable ftype) then Err TypeError                  (* 5343 *)
    else if 8 * ti_size fi <? fbitsize then Err TypeError                (* 5352 *)
    else
      let field_offset_bytes := and_not_m1 byteoffset0 falign in         (* 5364 *)
      if fbitsize =? 0 then
        if named then Err TypeError                                      (* 5368 *)
        else if negb (has sflags SF_MSVC_BITFIELDS) then
          (* 5374-5384 *)
          let fob := if field_offset_bytes <? ROUNDUP_BYTES byteoffset0 bitoffset0
                     then field_offset_bytes + falign else field_offset_bytes in
          finish fob 0 0 (prev_bitfield_free st) (fl_custom st) (fl_packed_change st) []
        else
          finish byteoffset0 bitoffset0 0 (prev_bitfield_free st) (fl_custom st) (fl_packed_change st) []
      else
        let big_endian (bitshift : Z) :=
          if has sflags SF_GCC_BIG_ENDIAN then 8 * ti_size fi - fbitsize - bitshift else bitshift in
        if negb (has sflags SF_MSVC_BITFIELDS) then
          (* 5395-5427: GCC's algorithm *)
          let bits_already_occupied := (byteoffset0 - field_offset_bytes) * 8 + bitoffset0 in
          if 8 * ti_size fi <? bits_already_occupied + fbitsize then
            if has sflags SF_PACKED && negb (Z.land bits_already_occupied 7 =? 0)
            then Err NotImplementedError                                 (* 5406 *)
            else
              let fob := field_offset_bytes + falign in
              let bito := 0 + fbitsize in
              finish (fob + Z.shiftr bito 3) (Z.land bito 7) (prev_bitfield_size st) (prev_bitfield_free st)
                     (fl_custom st) (fl_packed_change st)
                     (if named then [CF ftype fob (big_endian 0) fbitsize fflags] else [])
          else
            let bito := bitoffset0 + fbitsize in
            finish (byteoffset0 + Z.shiftr bito 3) (Z.land bito 7)
                   (prev_bitfield_size st) (prev_bitfield_free st)
                   (fl_custom st) (fl_packed_change st)
                   (if named then [CF ftype field_offset_bytes (big_endian bits_already_occupied) fbitsize fflags]
                    else [])
        else
          (* 5428-5453: MSVC's algorithm *)
          if (prev_bitfield_size st =? ti_size fi) && (fbitsize <=? prev_bitfield_free st) then
            let bitshift := 8 * prev_bitfield_size st - prev_bitfield_free st in
            finish byteoffset0 bitoffset0 (prev_bitfield_size st) (prev_bitfield_free st - fbitsize)
                   (fl_custom st) (fl_packed_change st)
                   (if named then [CF ftype (byteoffset0 - ti_size fi) (big_endian bitshift) fbitsize fflags]
                    else [])
          else
            let b1 := ROUNDUP_BYTES byteoffset0 bitoffset0 in
            let b2 := and_not_m1 (b1 + falign - 1) falign + ti_size fi in
            finish b2 0 (ti_size fi) (8 * ti_size fi - fbitsize)
                   (fl_custom st) (fl_packed_change st)
                   (if named then [CF ftype (b2 - ti_size fi) (big_endian 0) fbitsize fflags] else []))).

Definition lstate0 := LS 0 0 0 1 0 0 0 false false false [].

(* 5162-5168 *)
Definition effective_flags (sflags0 pack0 : Z) : Z * Z :=
  let sflags := complete_sflags sflags0 in
  if has sflags SF_PACKED then (sflags, 1)
  else if pack0 <=? 0 then (sflags, SF_DEFAULT_PACKING)
  else (Z.lor sflags SF_PACKED, pack0).

(* 5473-5507, with totalsize = totalalignment = -1 *)
Definition finish_struct (st : lstate) : tinfo :=
  let alignedsize := and_not_m1 (byteoffsetmax st + alignment st - 1) (alignment st) in
  let alignedsize := if alignedsize =? 0 then 1 else alignedsize in
  TI alignedsize (alignment st) (fl_var_array st) (fl_custom st) (fl_packed_change st) (fields_out st).

(* the field loop over members whose types are already completed *)
Definition member := (bool * (ctype * tinfo) * Z)%type.

Fixpoint field_loop (u : bool) (sflags pack : Z) (ms : list member) (st : lstate) : res lstate :=
  match ms with
  | [] => Ok st
  | (named, (ft, fi), bits) :: ms' =>
      bind (field_step u sflags pack (match ms' with [] => true | _ => false end) st named ft fi bits)
           (field_loop u sflags pack ms')
  end.

Definition complete_struct_or_union (u : bool) (sflags0 pack0 : Z) (ms : list member) : res tinfo :=
  let '(sflags, pack) := effective_flags sflags0 pack0 in
  bind (field_loop u sflags pack ms lstate0) (fun st => Ok (finish_struct st)).

(* the field loop of one aggregate; `rec` completes a member's type (nested types are completed
   first, as cdef does) *)
Section Loop.
  Variable rec : ctype -> res tinfo.
  Variables (u : bool) (sflags pack : Z).
  Fixpoint mloop (fs : list (bool * ctype * Z)) (st : lstate) : res lstate :=
    match fs with
    | [] => Ok st
    | (named, ft, bits) :: fs' =>
        bind (rec ft) (fun fi =>
        bind (field_step u sflags pack (match fs' with [] => true | _ => false end) st named ft fi bits)
             (mloop fs'))
    end.
End Loop.

(* the whole declaration tree; arrays take size len*itemsize and the alignment of their item
   type (get_alignment's `goto retry`) *)
Fixpoint cffi_layout (t : ctype) : res tinfo :=
  match t with
  | TPrim s a _ => Ok (TI s a false false false [])
  | TArr item len =>
      bind (cffi_layout item) (fun ii =>
      if ti_size ii <? 0 then Err TypeError          (* new_array_type: array item of unknown size *)
      else Ok (TI (if len <? 0 then -1 else len * ti_size ii) (ti_align ii) false false false []))
  | TAgg u packed fields =>
      let '(sflags0, pack0) := finish_backend_flags packed in
      let '(sflags, pack) := effective_flags sflags0 pack0 in
      bind (mloop cffi_layout u sflags pack fields lstate0) (fun st => Ok (finish_struct st))
  end.

(* ---- observation functions used by the correspondence check and by the theorems *)

(* a field as the compiler would describe it: byte offset, or absolute bit range *)
Definition norm_field (c : cfield) : placed :=
  if cf_bitsize c <? 0 then PAt (cf_offset c)
  else PBits (8 * cf_offset c + cf_bitshift c) (cf_bitsize c).

(* what ffi.sizeof / ffi.alignof / typeof(T).fields show: (offset, bitshift, bitsize, flags) *)
Definition observe (r : res tinfo) : option (Z * Z * list (Z * Z * Z * Z)) :=
  match r with
  | Ok ti => Some (ti_size ti, ti_align ti,
                   map (fun c => (cf_offset c, cf_bitshift c, cf_bitsize c, cf_flags c)) (ti_fields ti))
  | Err _ => None
  end.

(* ---- "a field access stays inside the object" (C01_fields_within_object).
   size_of: ct_size of a field's type as the layout function itself computes it (0 for `T x[]`,
   whose ct_size is -1: the flexible tail is outside sizeof). *)
Definition size_of (t : ctype) : Z :=
  match cffi_layout t with Ok ti => Z.max 0 (ti_size ti) | Err _ => 0 end.
(* a bit-field's bits lie inside its storage unit of size_of(cf_type) bytes at cf_offset *)
Definition bits_in_unit (c : cfield) : Prop :=
  0 <= cf_bitsize c ->
  1 <= cf_bitsize c /\ 0 <= cf_bitshift c /\ cf_bitshift c + cf_bitsize c <= 8 * size_of (cf_type c) /\
  bitfield_capable (cf_type c) = true.
Definition field_within (size : Z) (c : cfield) : Prop :=
  0 <= cf_offset c /\ cf_offset c + size_of (cf_type c) <= size /\ bits_in_unit c.

(* the absolute bit range [fstart, fend) a field occupies: its bits for a bit-field, its bytes otherwise *)
Definition is_bf (c : cfield) : bool := 0 <=? cf_bitsize c.
Definition fstart (c : cfield) : Z := 8 * cf_offset c + (if is_bf c then cf_bitshift c else 0).
Definition fend (c : cfield) : Z :=
  if is_bf c then 8 * cf_offset c + cf_bitshift c + cf_bitsize c
  else 8 * (cf_offset c + size_of (cf_type c)).
(* the fields, in order, occupy consecutive non-overlapping ranges between lo and hi *)
Fixpoint chain (lo : Z) (l : list cfield) (hi : Z) : Prop :=
  match l with
  | [] => lo <= hi
  | c :: l' => lo <= fstart c /\ fstart c <= fend c /\ chain (fend c) l' hi
  end.

(* ---- wire format for the correspondence check.  Monomorphic constructors only: Coq elaborates a
   300-case literal written with list/pair notations in ~10 s, and the same data in this form in
   a fraction of that (no implicit arguments to infer). *)
Inductive wtype :=
| WPrim (s a : Z) (bf : bool)
| WArr (item : wtype) (n : Z)
| WAgg (u : bool) (pack mention : Z) (fs : wfields)    (* mention: pack option of an earlier cdef() naming the tag, -1 none *)
with wfields :=
| WNil
| WCons (named : bool) (t : wtype) (bits : Z) (rest : wfields).

(* cffi = true: the declaration as cffi sees it (tp.packed via struct_packed);
   cffi = false: as the compiler sees it (the packing in force at the definition) *)
Fixpoint of_wire (cffi : bool) (w : wtype) : ctype :=
  match w with
  | WPrim s a b => TPrim s a b
  | WArr i n => TArr (of_wire cffi i) n
  | WAgg u p mention fs => TAgg u (if cffi then struct_packed p mention else p) (of_wfields cffi fs)
  end
with of_wfields (cffi : bool) (fs : wfields) : list (bool * ctype * Z) :=
  match fs with
  | WNil => []
  | WCons nm t b r => (nm, of_wire cffi t, b) :: of_wfields cffi r
  end.

Inductive wobs := ONil | OCons (a b c d : Z) (rest : wobs).
Inductive wres := WNone | WSome (size align : Z) (fs : wobs).

Fixpoint of_wobs (o : wobs) : list (Z * Z * Z * Z) :=
  match o with ONil => [] | OCons a b c d r => (a, b, c, d) :: of_wobs r end.
Definition of_wres (r : wres) : option (Z * Z * list (Z * Z * Z * Z)) :=
  match r with WNone => None | WSome s a fs => Some (s, a, of_wobs fs) end.
(* for the spec side: (size, alignment, [(a, b)]) *)
Definition of_gres (r : wres) : Z * Z * list (Z * Z) :=
  match r with
  | WNone => (-1, -1, [])
  | WSome s a fs => (s, a, map (fun x => (fst (fst (fst x)), snd (fst (fst x)))) (of_wobs fs))
  end.

Fixpoint wobs_eqb (x y : wobs) : bool :=
  match x, y with
  | ONil, ONil => true
  | OCons a b c d r, OCons a' b' c' d' r' =>
      (a =? a') && (b =? b') && (c =? c') && (d =? d') && wobs_eqb r r'
  | _, _ => false
  end.
Definition wres_eqb (x y : wres) : bool :=
  match x, y with
  | WNone, WNone => true
  | WSome s a f, WSome s' a' f' => (s =? s') && (a =? a') && wobs_eqb f f'
  | _, _ => false
  end.
Definition to_wres (o : option (Z * Z * list (Z * Z * Z * Z))) : wres :=
  match o with
  | None => WNone
  | Some (s, a, l) => WSome s a (fold_right (fun x r => let '(a, b, c, d) := x in OCons a b c d r) ONil l)
  end.
Definition to_gres (o : Z * Z * list (Z * Z)) : wres :=
  let '(s, a, l) := o in WSome s a (fold_right (fun x r => OCons (fst x) (snd x) 0 0 r) ONil l).

(* a whole batch of correspondence cases, monomorphic as well; the result is the list of the
   indices of the cases on which `f` disagrees with the recorded output *)
Inductive wcases := CNil | CCons (w : wtype) (r : wres) (rest : wcases).
Fixpoint wmismatches (f : wtype -> wres) (i : Z) (cs : wcases) : list Z :=
  match cs with
  | CNil => []
  | CCons w r rest =>
      let tl := wmismatches f (i + 1) rest in
      if wres_eqb (f w) r then tl else i :: tl
  end.
Definition model_obs (w : wtype) : wres := to_wres (observe (cffi_layout (of_wire true w))).
Definition spec_obs (w : wtype) : wres := to_gres (gobserve (gcc_layout (of_wire false w))).

(* ---- the other conventions (MSVC, ARM, big endian, packed bit-fields): the backend function
   accepts explicit sflags/pack, so these branches of the model are tied to the C code by the
   correspondence check too (no theorem is claimed about them).  The top-level `pack` slot of the
   wire term carries sflags*65536 + pack; member types are completed with the default flags. *)
Fixpoint members_of (fs : list (bool * ctype * Z)) : res (list member) :=
  match fs with
  | [] => Ok []
  | (named, ft, bits) :: fs' =>
      bind (cffi_layout ft) (fun fi =>
      bind (members_of fs') (fun ms => Ok ((named, (ft, fi), bits) :: ms)))
  end.
Definition alt_obs (w : wtype) : wres :=
  match of_wire false w with
  | TAgg u code fs =>
      to_wres (observe (bind (members_of fs)
                             (complete_struct_or_union u (code / 65536) (code mod 65536))))
  | _ => WNone
  end.
