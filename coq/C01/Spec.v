(* C01 — specification of the layout a System V x86-64 C compiler (gcc) gives to a struct or
   union declaration.  Written independently of cffi's algorithm, in the "bit cursor" style
   of the psABI: there is ONE cursor `pos`, counted in bits from the start of the object.

     non-bit-field member of size s, alignment a:
         pos := roundup pos (8a);  the member occupies bytes [pos/8, pos/8+s);  pos += 8s
     bit-field of declared type (s, a) and width w > 0:
         if (pos mod 8a) + w > 8s  then pos := roundup pos (8a)
         the bit-field occupies bits [pos, pos+w);  pos += w
     bit-field of width 0 (always unnamed):   pos := roundup pos (8a)
     union: every member starts at pos = 0
     alignment of the aggregate = max alignment of its members, where unnamed bit-fields
         do not count;  #pragma pack(N) / packed caps the alignment of non-bit-field members
     size = (max end of any member) rounded up to the alignment
     members of an anonymous struct/union member are members of the enclosing aggregate,
         at (offset of the anonymous member) + (their offset inside it)
     a flexible array member `T x[];` is placed like an array of length 0.

   This text is tied to gcc on every run (tools/props/c01.py, correspondence "spec vs gcc").
   The first part of the file is the syntax of declarations, shared with C01/Model.v. *)
From Coq Require Import ZArith List Bool.
Import ListNotations.
Open Scope Z_scope.

(* ---------------------------------------------------------------- declarations *)

(* A field is (named?, type, bit-field width or -1).  Only whether a field has a name matters
   for layout.  Primitive and pointer types are abstracted as (size, alignment, may be the
   declared type of a bit-field); the harness instantiates them from ffi.sizeof/alignof on the
   cffi side and from sizeof/_Alignof on the gcc side. *)
Inductive ctype :=
| TPrim (size align : Z) (bf_ok : bool)
| TArr  (item : ctype) (len : Z)                 (* len = -1 : `T x[]` *)
| TAgg  (is_union : bool) (pack : Z)             (* pack: 0 = natural; N = cdef(pack=N); 1 = cdef(packed=True) *)
        (fields : list (bool * ctype * Z)).

Definition field := (bool * ctype * Z)%type.
Definition f_named (f : field) : bool := fst (fst f).
Definition f_type  (f : field) : ctype := snd (fst f).
Definition f_bits  (f : field) : Z := snd f.

Definition is_agg (t : ctype) : bool := match t with TAgg _ _ _ => true | _ => false end.

(* ---------------------------------------------------------------- the compiler's layout *)

(* where a named member ends up: a byte offset (non-bit-field) or an absolute bit range *)
Inductive placed :=
| PAt   (byte_offset : Z)
| PBits (first_bit width : Z).

Definition shift_placed (dbytes : Z) (p : placed) : placed :=
  match p with
  | PAt o => PAt (dbytes + o)
  | PBits b w => PBits (8 * dbytes + b) w
  end.

Record glayout := GL { g_size : Z; g_align : Z; g_fields : list placed }.

Definition roundup (x m : Z) : Z := ((x + m - 1) / m) * m.

Record cursor := CU { pos : Z; maxend : Z; salign : Z; out : list placed }.

Definition cap (pack a : Z) : Z := if (0 <? pack) && (pack <? a) then pack else a.

(* sub = Some l when the member's type is a struct/union whose (flattened) members are l *)
Definition place_member (is_union : bool) (pack : Z) (c : cursor)
           (named : bool) (s a : Z) (sub : option (list placed)) (bits : Z) : cursor :=
  let pos0 := if is_union then 0 else pos c in
  if bits <? 0 then
    let a' := cap pack a in
    let start := roundup pos0 (8 * a') in
    let fs := if named then [PAt (start / 8)]
              else match sub with
                   | Some l => map (shift_placed (start / 8)) l
                   | None => []
                   end in
    CU (start + 8 * s) (Z.max (maxend c) (start + 8 * s)) (Z.max (salign c) a') (out c ++ fs)
  else if bits =? 0 then
    let p := roundup pos0 (8 * a) in
    CU p (Z.max (maxend c) p) (if named then Z.max (salign c) a else salign c) (out c)
  else
    let start := if pos0 mod (8 * a) + bits >? 8 * s then roundup pos0 (8 * a) else pos0 in
    CU (start + bits) (Z.max (maxend c) (start + bits))
       (if named then Z.max (salign c) a else salign c)
       (out c ++ if named then [PBits start bits] else []).

Definition cursor0 := CU 0 0 1 [].

Definition finish_agg (c : cursor) : glayout :=
  GL (roundup (maxend c) (8 * salign c) / 8) (salign c) (out c).

(* the members of one aggregate, in order; `rec` lays out a member's type *)
Section PlaceFields.
  Variable rec : ctype -> glayout.
  Variables (u : bool) (pack : Z).
  Fixpoint place_fields (fs : list (bool * ctype * Z)) (c : cursor) : cursor :=
    match fs with
    | [] => c
    | (named, ft, bits) :: fs' =>
        let g := rec ft in
        place_fields fs' (place_member u pack c named (g_size g) (g_align g)
                                       (if is_agg ft then Some (g_fields g) else None) bits)
    end.
End PlaceFields.

Fixpoint gcc_layout (t : ctype) : glayout :=
  match t with
  | TPrim s a _ => GL s a []
  | TArr item n =>
      let g := gcc_layout item in
      GL (if n <? 0 then 0 else n * g_size g) (g_align g) []
  | TAgg u pack fields => finish_agg (place_fields gcc_layout u pack fields cursor0)
  end.

(* the same loop, as a stand-alone function over members whose types are already laid out
   (used to state the one-level theorem; place_fields_place_all in Proofs.v connects the two) *)
Definition smember := (bool * (Z * Z * option (list placed)) * Z)%type.

Fixpoint place_all (u : bool) (pack : Z) (ms : list smember) (c : cursor) : cursor :=
  match ms with
  | [] => c
  | (named, (s, a, sub), bits) :: ms' =>
      place_all u pack ms' (place_member u pack c named s a sub bits)
  end.

Definition smember_of (f : field) : smember :=
  let g := gcc_layout (f_type f) in
  (f_named f, (g_size g, g_align g, if is_agg (f_type f) then Some (g_fields g) else None), f_bits f).

(* ---------------------------------------------------------------- the class of declarations *)

Definition is_pow2 (a : Z) : Prop := exists k, 0 <= k /\ a = 2 ^ k.

(* what a C compiler accepts (and cdef can express without '...'):
   - sizes >= 0, alignments powers of two (at most 2^30);
   - a bit-field has an integer/_Bool declared type, 0 <= width <= 8*size, width 0 only unnamed;
   - unnamed non-bit-field members are anonymous structs/unions;
   - `T x[]` only as the last member, and never as an array item;
   - pack is 0 or a power of two, and a packed aggregate declares no bit-field itself. *)
Definition field_ok (pack : Z) (last : bool) (f : field) : Prop :=
  let '(named, t, bits) := f in
  (bits = -1 \/
     (0 <= bits /\ pack = 0 /\
      (exists s a, t = TPrim s a true /\ bits <= 8 * s) /\
      (bits = 0 -> named = false))) /\
  (bits = -1 -> named = false -> is_agg t = true) /\
  (forall it, t = TArr it (-1) -> last = true /\ bits = -1).

Fixpoint fields_ok (pack : Z) (fs : list field) : Prop :=
  match fs with
  | [] => True
  | f :: fs' => field_ok pack (match fs' with [] => true | _ => false end) f /\ fields_ok pack fs'
  end.

Fixpoint in_class (t : ctype) : Prop :=
  match t with
  | TPrim s a _ => 0 <= s /\ is_pow2 a /\ a <= 1073741824     (* SF_DEFAULT_PACKING, "a huge power of two" *)
  | TArr item n => in_class item /\ -1 <= n /\ (forall it, item <> TArr it (-1))
  | TAgg u pack fields =>
      (pack = 0 \/ is_pow2 pack) /\ fields_ok pack fields /\
      (fix all (fs : list (bool * ctype * Z)) : Prop :=
         match fs with
         | [] => True
         | (_, ft, _) :: fs' => in_class ft /\ all fs'
         end) fields
  end.

(* no struct/union at any depth has compiler size 0 (struct {}, struct { int a[0]; },
   struct { long :0; } are GNU extensions with sizeof == 0) *)
Fixpoint no_zero_size (t : ctype) : Prop :=
  match t with
  | TPrim _ _ _ => True
  | TArr item _ => no_zero_size item
  | TAgg u pack fields =>
      0 < g_size (gcc_layout t) /\
      (fix all (fs : list (bool * ctype * Z)) : Prop :=
         match fs with
         | [] => True
         | (_, ft, _) :: fs' => no_zero_size ft /\ all fs'
         end) fields
  end.

(* every bit-field (at any depth) is declared with a type whose size does not exceed its alignment
   (true of every integer type and of _Bool on x86-64: size = alignment); needed for "a bit-field's
   storage unit lies inside the object" — `struct { T x:3; }` with sizeof(T) = 8, alignof(T) = 4
   (long long on i386) has size 4 but an 8-byte unit *)
Fixpoint bf_size_le_align (t : ctype) : Prop :=
  match t with
  | TPrim _ _ _ => True
  | TArr item _ => bf_size_le_align item
  | TAgg u pack fields =>
      (fix all (fs : list (bool * ctype * Z)) : Prop :=
         match fs with
         | [] => True
         | (_, ft, bits) :: fs' =>
             (0 <= bits -> forall s a b, ft = TPrim s a b -> s <= a) /\ bf_size_le_align ft /\ all fs'
         end) fields
  end.

(* no union among the aggregate itself and its anonymous members, at any depth (the members of
   an anonymous union overlap by design) *)
Fixpoint union_free (t : ctype) : Prop :=
  match t with
  | TPrim _ _ _ => True
  | TArr _ _ => True
  | TAgg u pack fields =>
      u = false /\
      (fix all (fs : list (bool * ctype * Z)) : Prop :=
         match fs with
         | [] => True
         | (named, ft, _) :: fs' => (named = false -> union_free ft) /\ all fs'
         end) fields
  end.

(* ---- observation function for the correspondence check "spec vs gcc":
   (size, alignment, [(byte offset, -1) | (first bit, width)]) *)
Definition gobserve (g : glayout) : Z * Z * list (Z * Z) :=
  (g_size g, g_align g,
   map (fun p => match p with PAt o => (o, -1) | PBits b w => (b, w) end) (g_fields g)).
