(* C01 — arithmetic lemmas: `x & ~(a-1)` on powers of two, rounding in bits vs bytes. *)
From Coq Require Import ZArith Lia Bool List.
From Cffi Require Import C01.Spec C01.Model.
Open Scope Z_scope.

Lemma pow2_pos k : 0 <= k -> 0 < 2 ^ k.
Proof. intros. apply Z.pow_pos_nonneg; lia. Qed.

Lemma is_pow2_pos a : is_pow2 a -> 0 < a.
Proof. intros (k & Hk & ->). now apply pow2_pos. Qed.

(* get_alignment's test `align & (align-1)` accepts powers of two *)
Lemma pow2_land_pred k : 0 <= k -> Z.land (2 ^ k) (2 ^ k - 1) = 0.
Proof.
  intros Hk. apply Z.bits_inj'. intros i Hi.
  rewrite Z.land_spec, Z.bits_0.
  replace (2 ^ k - 1) with (Z.ones k) by (rewrite Z.ones_equiv; lia).
  destruct (Z.eq_dec i k) as [->|Hne].
  - rewrite Z.ones_spec_high by lia. apply andb_false_r.
  - rewrite Z.pow2_bits_false by lia. reflexivity.
Qed.

(* x & ~(2^k - 1) clears the low k bits *)
Lemma and_not_m1_pow2 x k : 0 <= k -> and_not_m1 x (2 ^ k) = 2 ^ k * (x / 2 ^ k).
Proof.
  intros Hk. unfold and_not_m1.
  replace (2 ^ k - 1) with (Z.ones k) by (rewrite Z.ones_equiv; lia).
  rewrite <- Z.ldiff_land, Z.ldiff_ones_r by lia.
  rewrite Z.shiftl_mul_pow2, Z.shiftr_div_pow2 by lia. lia.
Qed.

Lemma and_not_m1_spec x a : is_pow2 a -> and_not_m1 x a = a * (x / a).
Proof. intros (k & Hk & ->). now apply and_not_m1_pow2. Qed.

Lemma div_eq a b q r : 0 <= r < b -> a = b * q + r -> a / b = q.
Proof. intros. symmetry. apply Z.div_unique with r; auto. Qed.

Lemma mod_eq a b q r : 0 <= r < b -> a = b * q + r -> a mod b = r.
Proof. intros. symmetry. apply Z.mod_unique with q; auto. Qed.

Lemma decomp B a : 0 < a -> exists q r, B = a * q + r /\ 0 <= r < a.
Proof.
  intros. exists (B / a), (B mod a). split.
  - apply Z.div_mod. lia.
  - apply Z.mod_pos_bound. lia.
Qed.

(* rounding up, from a quotient/remainder decomposition *)
Lemma roundup_decomp x m q r : 0 <= r < m -> x = m * q + r ->
  roundup x m = if r =? 0 then m * q else m * (q + 1).
Proof.
  intros Hr ->. unfold roundup.
  destruct (Z.eqb_spec r 0) as [->|Hne].
  - rewrite (div_eq (m * q + 0 + m - 1) m q (m - 1)) by lia. lia.
  - rewrite (div_eq (m * q + r + m - 1) m (q + 1) (r - 1)) by lia. lia.
Qed.

Lemma aup_decomp x m q r : 0 <= r < m -> x = m * q + r ->
  m * ((x + m - 1) / m) = if r =? 0 then m * q else m * (q + 1).
Proof. intros. rewrite <- (roundup_decomp x m q r) by auto. unfold roundup. lia. Qed.

Definition carry (b : Z) : Z := if 0 <? b then 1 else 0.

(* the cursor in bits vs the pair (byteoffset, bitoffset): rounding to an a-byte boundary *)
Lemma roundup_bits_bytes B b a : 0 < a -> 0 <= b < 8 ->
  roundup (8 * B + b) (8 * a) = 8 * (a * ((B + carry b + a - 1) / a)).
Proof.
  intros Ha Hb. destruct (decomp B a Ha) as (q & r & -> & Hr).
  rewrite (roundup_decomp (8 * (a * q + r) + b) (8 * a) q (8 * r + b)) by lia.
  unfold carry. destruct (Z.ltb_spec 0 b).
  - destruct (Z.eq_dec (r + 1) a).
    + rewrite (aup_decomp (a * q + r + 1) a (q + 1) 0) by lia.
      rewrite Z.eqb_refl. destruct (Z.eqb_spec (8 * r + b) 0); lia.
    + rewrite (aup_decomp (a * q + r + 1) a q (r + 1)) by lia.
      destruct (Z.eqb_spec (8 * r + b) 0), (Z.eqb_spec (r + 1) 0); lia.
  - rewrite (aup_decomp (a * q + r + 0) a q r) by lia.
    destruct (Z.eqb_spec (8 * r + b) 0), (Z.eqb_spec r 0); lia.
Qed.

(* position inside the current a-byte unit *)
Lemma mod_bits_bytes B b a : 0 < a -> 0 <= b < 8 ->
  (8 * B + b) mod (8 * a) = (B - a * (B / a)) * 8 + b.
Proof.
  intros Ha Hb. destruct (decomp B a Ha) as (q & r & -> & Hr).
  rewrite (div_eq (a * q + r) a q r) by lia.
  rewrite (mod_eq (8 * (a * q + r) + b) (8 * a) q (8 * r + b)) by lia. lia.
Qed.

(* rounding to the next unit, in the form used by the bit-field branches:
   field_offset_bytes (+ falign if the cursor is not at the start of the unit) *)
Lemma roundup_next_unit B b a : 0 < a -> 0 <= b < 8 ->
  roundup (8 * B + b) (8 * a) =
  8 * (if a * (B / a) <? B + carry b then a * (B / a) + a else a * (B / a)).
Proof.
  intros Ha Hb. destruct (decomp B a Ha) as (q & r & -> & Hr).
  rewrite (div_eq (a * q + r) a q r) by lia.
  rewrite (roundup_decomp (8 * (a * q + r) + b) (8 * a) q (8 * r + b)) by lia.
  unfold carry.
  destruct (Z.eqb_spec (8 * r + b) 0), (Z.ltb_spec 0 b), (Z.ltb_spec (a * q) (a * q + r + 1)),
           (Z.ltb_spec (a * q) (a * q + r + 0)); lia.
Qed.

Lemma shiftr3 w : Z.shiftr w 3 = w / 8.
Proof. rewrite Z.shiftr_div_pow2 by lia. reflexivity. Qed.

Lemma land7 w : Z.land w 7 = w mod 8.
Proof. change 7 with (Z.ones 3). rewrite Z.land_ones by lia. reflexivity. Qed.

Lemma split8 w : 8 * (w / 8) + w mod 8 = w.
Proof. symmetry. apply Z.div_mod. lia. Qed.

Lemma mod8_bound w : 0 <= w mod 8 < 8.
Proof. apply Z.mod_pos_bound. lia. Qed.

(* byteoffsetmax (bytes, rounded up) vs the maximal end in bits *)
Lemma ceil8_max m p : (Z.max m p + 7) / 8 = Z.max ((m + 7) / 8) ((p + 7) / 8).
Proof.
  destruct (Z.le_ge_cases m p).
  - rewrite Z.max_r by lia. rewrite Z.max_r; [reflexivity|]. apply Z.div_le_mono; lia.
  - rewrite Z.max_l by lia. rewrite Z.max_l; [reflexivity|]. apply Z.div_le_mono; lia.
Qed.

Lemma ceil8_bits B b : 0 <= b < 8 -> (8 * B + b + 7) / 8 = B + carry b.
Proof.
  intros. unfold carry. destruct (Z.ltb_spec 0 b).
  - apply div_eq with (b - 1); lia.
  - apply div_eq with 7; lia.
Qed.

(* final size: rounding the maximal end (bits) to the alignment, vs rounding byteoffsetmax *)
Lemma final_size m A : 0 < A -> 0 <= m ->
  roundup m (8 * A) / 8 = A * (((m + 7) / 8 + A - 1) / A).
Proof.
  intros HA Hm.
  pose proof (Z.div_mod m 8 ltac:(lia)) as E. pose proof (Z.mod_pos_bound m 8 ltac:(lia)) as Hb.
  set (B := m / 8) in *. set (b := m mod 8) in *.
  rewrite E at 1. rewrite roundup_bits_bytes by lia.
  replace ((m + 7) / 8) with (B + carry b) by (rewrite E; symmetry; apply ceil8_bits; lia).
  rewrite Z.mul_comm, Z.div_mul by lia. reflexivity.
Qed.

Lemma roundup_ge x m : 0 < m -> x <= roundup x m.
Proof.
  intros. destruct (decomp x m H) as (q & r & -> & Hr).
  rewrite (roundup_decomp (m * q + r) m q r) by lia.
  destruct (Z.eqb_spec r 0); lia.
Qed.
