(* C01 — the model's field loop computes the specification's layout.
   Invariant carried through the loop:  pos = 8*byteoffset + bitoffset  (and bitoffset < 8,
   byteoffsetmax = ceil(maxend/8), equal alignments, equal field lists after normalisation). *)
From Coq Require Import ZArith Lia Bool List.
Import ListNotations.
From Cffi Require Import C01.Spec C01.Model C01.Arith.
Open Scope Z_scope.

Definition MAXAL := 1073741824.

(* the flag word the loop runs with on x86-64 Linux *)
Definition flags_ok (sflags : Z) : Prop :=
  has sflags SF_GCC_ARM_BITFIELDS = false /\ has sflags SF_MSVC_BITFIELDS = false /\
  has sflags SF_GCC_BIG_ENDIAN = false.

(* (effective pack of the C code) vs (pack of the declaration) *)
Definition pack_rel (pack P : Z) : Prop :=
  (P = 0 /\ pack = SF_DEFAULT_PACKING) \/ (is_pow2 P /\ pack = P).

Record inv (st : lstate) (c : cursor) : Prop := {
  i_pos : pos c = 8 * byteoffset st + bitoffset st;
  i_bit : 0 <= bitoffset st < 8;
  i_max : byteoffsetmax st = (maxend c + 7) / 8;
  i_maxnn : 0 <= maxend c;
  i_al : alignment st = salign c;
  i_alp : is_pow2 (alignment st) /\ alignment st <= MAXAL;
  i_out : map norm_field (fields_out st) = out c }.

(* what the model knows about a member's type vs what the specification knows *)
Definition rel_member (last : bool) (bits : Z) (ft : ctype) (fi : tinfo) (s a : Z)
           (sub : option (list placed)) : Prop :=
  ti_align fi = a /\ is_pow2 a /\ a <= MAXAL /\
  ((ti_size fi = s /\ 0 <= s) \/
   (ti_size fi = -1 /\ s = 0 /\ is_array ft = true /\ last = true /\ bits = -1)) /\
  sub = (if is_agg ft then Some (map norm_field (ti_fields fi)) else None).

Definition field_valid (P : Z) (named : bool) (ft : ctype) (fi : tinfo) (bits : Z) : Prop :=
  (bits = -1 \/
   (0 <= bits /\ P = 0 /\ bitfield_capable ft = true /\ 0 <= ti_size fi /\ bits <= 8 * ti_size fi /\
    (bits = 0 -> named = false))) /\
  (bits = -1 -> named = false -> is_agg ft = true).

Lemma get_alignment_ok fi : is_pow2 (ti_align fi) -> get_alignment fi = Ok (ti_align fi).
Proof.
  intros Hp. unfold get_alignment. pose proof (is_pow2_pos _ Hp).
  destruct Hp as (k & Hk & E). rewrite E at 2 3. rewrite pow2_land_pred by lia.
  destruct (Z.ltb_spec (ti_align fi) 1); [lia|]. reflexivity.
Qed.

Lemma falign_cap pack P a : pack_rel pack P -> 0 < a -> a <= MAXAL ->
  (if pack <? a then pack else a) = cap P a.
Proof.
  unfold pack_rel, cap, SF_DEFAULT_PACKING, MAXAL. intros [[-> ->]|[Hp ->]] Ha Hm.
  - destruct (Z.ltb_spec 1073741824 a); [lia|reflexivity].
  - apply is_pow2_pos in Hp. destruct (Z.ltb_spec 0 P); [|lia]. reflexivity.
Qed.

Lemma cap_pow2 pack P a : pack_rel pack P -> is_pow2 a -> a <= MAXAL ->
  is_pow2 (cap P a) /\ cap P a <= MAXAL.
Proof.
  unfold cap. intros HP Ha Hm.
  destruct (Z.ltb_spec 0 P), (Z.ltb_spec P a); cbn; auto.
  destruct HP as [[-> _]|[Hp _]]; [lia|]. split; [auto|lia].
Qed.

Lemma max_pow2 x y : is_pow2 x /\ x <= MAXAL -> is_pow2 y /\ y <= MAXAL ->
  is_pow2 (Z.max x y) /\ Z.max x y <= MAXAL.
Proof. intros. destruct (Z.max_spec x y) as [[_ ->]|[_ ->]]; auto. Qed.

Lemma align_update al fa (d : bool) :
  (if (al <? fa) && d then fa else al) = if d then Z.max al fa else al.
Proof.
  destruct d; [|rewrite andb_false_r; reflexivity]. rewrite andb_true_r.
  destruct (Z.ltb_spec al fa); lia.
Qed.

Lemma norm_shift d c :
  norm_field (CF (cf_type c) (d + cf_offset c) (cf_bitshift c) (cf_bitsize c) (Z.lor (cf_flags c) 0))
  = shift_placed d (norm_field c).
Proof.
  unfold norm_field. cbn [cf_bitsize cf_offset cf_bitshift].
  destruct (cf_bitsize c <? 0); cbn [shift_placed]; f_equal; lia.
Qed.

(* the common tail of every branch (lines 5469-5471): new (byteoffset, bitoffset) = (B', b') *)
Lemma inv_finish st c B' b' al' pbs pbf i va cu pc new :
  inv st c -> 0 <= b' < 8 -> is_pow2 al' /\ al' <= MAXAL ->
  inv (LS B' b' (if byteoffsetmax st <? ROUNDUP_BYTES B' b' then ROUNDUP_BYTES B' b' else byteoffsetmax st)
          al' pbs pbf i va cu pc (fields_out st ++ new))
      (CU (8 * B' + b') (Z.max (maxend c) (8 * B' + b')) al' (out c ++ map norm_field new)).
Proof.
  intros I Hb Hal. constructor; cbn [pos maxend salign out byteoffset bitoffset byteoffsetmax alignment fields_out]; auto.
  - rewrite ceil8_max, ceil8_bits by lia. rewrite <- (i_max _ _ I).
    change (ROUNDUP_BYTES B' b') with (B' + carry b').
    destruct (Z.ltb_spec (byteoffsetmax st) (B' + carry b')); lia.
  - pose proof (i_maxnn _ _ I). lia.
  - rewrite map_app, (i_out _ _ I). reflexivity.
Qed.

Lemma rb_carry B b : ROUNDUP_BYTES B b = B + carry b.
Proof. reflexivity. Qed.

Lemma step_agrees u sflags pack P last st c named ft fi bits s a sub :
  flags_ok sflags -> pack_rel pack P -> (has sflags SF_PACKED = true -> P <> 0) ->
  inv st c -> rel_member last bits ft fi s a sub -> field_valid P named ft fi bits ->
  exists st', field_step u sflags pack last st named ft fi bits = Ok st' /\
              inv st' (place_member u P c named s a sub bits).
Proof.
  intros (Farm & Fmsvc & Fbe) HP Hpk I (Ea & Hpa & Hma & Hsz & Hsub) (Hbits & Hanon).
  pose proof (is_pow2_pos _ Hpa) as Hapos.
  unfold field_step.
  match goal with |- context [bind ?X _] =>
    assert (Hva : exists va, X = Ok va) end.
  { destruct Hsz as [[Es Hs]|(Es & _ & Harr & Hl & Hb)].
    - destruct (Z.ltb_spec (ti_size fi) 0); [lia|]. destruct (is_agg ft); eauto.
    - rewrite Es, Harr, Hl, Hb. cbn. eauto. }
  destruct Hva as (va & ->). cbn [bind].
  rewrite get_alignment_ok by (rewrite Ea; auto). cbn [bind]. rewrite Ea.
  rewrite (falign_cap pack P a) by auto.
  rewrite Farm, Fmsvc, Fbe. cbn [negb andb].
  set (B0 := if u then 0 else byteoffset st).
  set (b0 := if u then 0 else bitoffset st).
  assert (Hb0 : 0 <= b0 < 8) by (subst b0; destruct u; [lia|apply (i_bit _ _ I)]).
  assert (Hpos0 : (if u then 0 else pos c) = 8 * B0 + b0)
    by (subst B0 b0; destruct u; [lia|apply (i_pos _ _ I)]).
  rewrite align_update.
  pose proof (cap_pow2 pack P a HP Hpa Hma) as Hcap.
  pose proof (is_pow2_pos _ (proj1 Hcap)) as Hcpos.
  destruct (Z.ltb_spec bits 0) as [Hneg|Hnn].
  - (* not a bit-field *)
    assert (bits = -1) as -> by (destruct Hbits as [?|(? & _)]; lia).
    cbn [Z.leb Z.compare].
    eexists. split; [reflexivity|].
    rewrite (and_not_m1_spec _ (cap P a)) by tauto.
    set (b2 := cap P a * ((ROUNDUP_BYTES B0 b0 + cap P a - 1) / cap P a)).
    set (b3 := if 0 <=? ti_size fi then b2 + ti_size fi else b2).
    assert (Hb3 : b3 = b2 + s).
    { subst b3. destruct Hsz as [[Es Hs]|(Es & -> & _)].
      - destruct (Z.leb_spec 0 (ti_size fi)); lia.
      - rewrite Es. cbn. lia. }
    match goal with |- inv (LS _ _ _ _ _ _ _ _ _ _ (_ ++ ?new)) _ =>
      replace (place_member u P c named s a sub (-1)) with
        (CU (8 * b3 + 0) (Z.max (maxend c) (8 * b3 + 0)) (Z.max (salign c) (cap P a))
            (out c ++ map norm_field new)) end.
    + rewrite (i_al _ _ I). apply inv_finish; auto; [lia|].
      rewrite <- (i_al _ _ I). apply max_pow2; auto. apply (i_alp _ _ I).
    + unfold place_member. cbn [Z.ltb Z.compare]. rewrite Hpos0.
      rewrite roundup_bits_bytes by lia. change (B0 + carry b0) with (ROUNDUP_BYTES B0 b0). fold b2.
      rewrite (Z.mul_comm 8 b2), Z.div_mul by lia.
      f_equal; try lia.
      f_equal. rewrite Hsub.
      destruct named; cbn [negb andb].
      * reflexivity.
      * rewrite Hanon by auto. rewrite !map_map.
        apply map_ext. intros cf. rewrite <- norm_shift. unfold norm_field. reflexivity.
  - (* a bit-field *)
    destruct Hbits as [->|(_ & -> & Hbf & Hsnn & Hw & Hz)]; [lia|].
    assert (Es : ti_size fi = s) by (destruct Hsz as [[? ?]|(? & ? & ? & ? & ?)]; [auto|lia]).
    rewrite Hbf. cbn [negb].
    destruct (Z.ltb_spec (8 * ti_size fi) bits); [lia|].
    change (cap 0 a) with a in *.
    rewrite (and_not_m1_spec _ a) by auto.
    set (fob := a * (B0 / a)).
    assert (Hfob : fob <= B0) by (apply Z.mul_div_le; lia).
    destruct (Z.leb_spec 0 bits); [|lia].
    assert (Hal' : is_pow2 (if named then Z.max (alignment st) a else alignment st) /\
                   (if named then Z.max (alignment st) a else alignment st) <= MAXAL).
    { destruct named; [apply max_pow2; auto|]; apply (i_alp _ _ I). }
    destruct (Z.eqb_spec bits 0) as [->|Hnz].
    + (* width 0 *)
      rewrite Hz in * by auto.
      eexists. split; [reflexivity|].
      match goal with |- inv (LS ?B' _ _ _ _ _ _ _ _ _ (_ ++ ?new)) _ =>
        replace (place_member u 0 c false s a sub 0) with
          (CU (8 * B' + 0) (Z.max (maxend c) (8 * B' + 0)) (salign c) (out c ++ map norm_field new)) end.
      * rewrite <- (i_al _ _ I). apply inv_finish; auto; lia.
      * unfold place_member. cbn [Z.ltb Z.eqb Z.compare]. rewrite Hpos0.
        rewrite roundup_next_unit by lia. fold fob. rewrite rb_carry.
        cbn [map]. rewrite app_nil_r. f_equal; lia.
    + assert (Hmod : (8 * B0 + b0) mod (8 * a) = (B0 - fob) * 8 + b0) by (apply mod_bits_bytes; lia).
      destruct (Z.ltb_spec (8 * ti_size fi) ((B0 - fob) * 8 + b0 + bits)) as [Hover|Hfit].
      * (* does not fit in the current unit *)
        destruct (has sflags SF_PACKED) eqn:Hpck; [exfalso; apply Hpk; auto|]. cbn [andb].
        eexists. split; [reflexivity|].
        match goal with |- inv (LS ?B' ?b' _ _ _ _ _ _ _ _ (_ ++ ?new)) _ =>
          replace (place_member u 0 c named s a sub bits) with
            (CU (8 * B' + b') (Z.max (maxend c) (8 * B' + b'))
                (if named then Z.max (salign c) a else salign c) (out c ++ map norm_field new)) end.
        -- rewrite <- (i_al _ _ I). apply inv_finish; auto. rewrite land7. apply mod8_bound.
        -- unfold place_member.
           destruct (Z.ltb_spec bits 0); [lia|]. destruct (Z.eqb_spec bits 0); [lia|].
           rewrite Hpos0, Hmod, Z.gtb_ltb.
           destruct (Z.ltb_spec (8 * s) ((B0 - fob) * 8 + b0 + bits)); [|lia].
           rewrite roundup_next_unit by lia. fold fob. unfold carry.
           destruct (Z.ltb_spec fob (B0 + (if 0 <? b0 then 1 else 0))) as [_|Hc];
             [|destruct (Z.ltb_spec 0 b0); lia].
           rewrite shiftr3, land7, Z.add_0_l.
           pose proof (split8 bits).
           f_equal; try lia.
           f_equal. destruct named; cbn [map]; [|reflexivity].
           unfold norm_field. cbn [cf_bitsize cf_offset cf_bitshift].
           destruct (Z.ltb_spec bits 0); [lia|]. f_equal. f_equal. lia.
      * (* fits *)
        eexists. split; [reflexivity|].
        match goal with |- inv (LS ?B' ?b' _ _ _ _ _ _ _ _ (_ ++ ?new)) _ =>
          replace (place_member u 0 c named s a sub bits) with
            (CU (8 * B' + b') (Z.max (maxend c) (8 * B' + b'))
                (if named then Z.max (salign c) a else salign c) (out c ++ map norm_field new)) end.
        -- rewrite <- (i_al _ _ I). apply inv_finish; auto. rewrite land7. apply mod8_bound.
        -- unfold place_member.
           destruct (Z.ltb_spec bits 0); [lia|]. destruct (Z.eqb_spec bits 0); [lia|].
           rewrite Hpos0, Hmod, Z.gtb_ltb.
           destruct (Z.ltb_spec (8 * s) ((B0 - fob) * 8 + b0 + bits)); [lia|].
           rewrite shiftr3, land7.
           pose proof (split8 (b0 + bits)).
           f_equal; try lia.
           f_equal. destruct named; cbn [map]; [|reflexivity].
           unfold norm_field. cbn [cf_bitsize cf_offset cf_bitshift].
           destruct (Z.ltb_spec bits 0); [lia|]. f_equal. f_equal. lia.
Qed.

(* ------------------------------------------------------------------ the loops, named *)

Lemma cffi_layout_agg u P fs :
  cffi_layout (TAgg u P fs) =
  let '(sflags0, pack0) := finish_backend_flags P in
  let '(sflags, pack) := effective_flags sflags0 pack0 in
  bind (mloop cffi_layout u sflags pack fs lstate0) (fun st => Ok (finish_struct st)).
Proof. reflexivity. Qed.

Lemma mloop_cons rec u sf pk named ft bits fs st :
  mloop rec u sf pk ((named, ft, bits) :: fs) st =
  bind (rec ft) (fun fi =>
  bind (field_step u sf pk (match fs with [] => true | _ => false end) st named ft fi bits)
       (mloop rec u sf pk fs)).
Proof. reflexivity. Qed.

Definition sgo := place_fields gcc_layout.

Lemma sgo_cons u P named ft bits fs c :
  sgo u P ((named, ft, bits) :: fs) c =
  sgo u P fs (place_member u P c named (g_size (gcc_layout ft)) (g_align (gcc_layout ft))
                           (if is_agg ft then Some (g_fields (gcc_layout ft)) else None) bits).
Proof. reflexivity. Qed.

Lemma gcc_layout_agg u P fs : gcc_layout (TAgg u P fs) = finish_agg (sgo u P fs cursor0).
Proof. reflexivity. Qed.

Lemma place_fields_place_all u P fs c : sgo u P fs c = place_all u P (map smember_of fs) c.
Proof.
  revert c. induction fs as [|[[named ft] bits] fs IH]; intros c; [reflexivity|].
  rewrite sgo_cons. cbn [map place_all smember_of f_named f_type f_bits fst snd]. apply IH.
Qed.

(* ------------------------------------------------------------------ induction on declarations *)

Section ctype_ind2.
  Variable Q : ctype -> Prop.
  Hypothesis HP : forall s a b, Q (TPrim s a b).
  Hypothesis HA : forall it n, Q it -> Q (TArr it n).
  Hypothesis HG : forall u p fs, Forall (fun f => Q (f_type f)) fs -> Q (TAgg u p fs).
  Fixpoint ctype_ind2 (t : ctype) : Q t :=
    match t with
    | TPrim s a b => HP s a b
    | TArr it n => HA it n (ctype_ind2 it)
    | TAgg u p fs =>
        HG u p fs ((fix go (l : list (bool * ctype * Z)) : Forall (fun f => Q (f_type f)) l :=
                      match l with
                      | [] => Forall_nil _
                      | (nm, ft, b) :: l' =>
                          Forall_cons (nm, ft, b) (ctype_ind2 ft : Q (f_type (nm, ft, b))) (go l')
                      end) fs)
    end.
End ctype_ind2.

Lemma in_class_fields (fs : list (bool * ctype * Z)) :
  (fix all (fs : list (bool * ctype * Z)) : Prop :=
     match fs with [] => True | (_, ft, _) :: fs' => in_class ft /\ all fs' end) fs
  <-> Forall (fun f => in_class (f_type f)) fs.
Proof.
  induction fs as [|[[nm ft] b] fs IH]; [split; auto|].
  rewrite Forall_cons_iff, <- IH. reflexivity.
Qed.

Lemma no_zero_fields (fs : list (bool * ctype * Z)) :
  (fix all (fs : list (bool * ctype * Z)) : Prop :=
     match fs with [] => True | (_, ft, _) :: fs' => no_zero_size ft /\ all fs' end) fs
  <-> Forall (fun f => no_zero_size (f_type f)) fs.
Proof.
  induction fs as [|[[nm ft] b] fs IH]; [split; auto|].
  rewrite Forall_cons_iff, <- IH. reflexivity.
Qed.

(* ------------------------------------------------------------------ flags *)

Lemma effective_flags_ok P : P = 0 \/ is_pow2 P ->
  let '(sflags0, pack0) := finish_backend_flags P in
  let '(sflags, pack) := effective_flags sflags0 pack0 in
  flags_ok sflags /\ pack_rel pack P /\ (has sflags SF_PACKED = true -> P <> 0).
Proof.
  intros HP. unfold finish_backend_flags.
  assert (F80 : flags_ok 80) by (repeat split; reflexivity).
  assert (F88 : flags_ok 88) by (repeat split; reflexivity).
  destruct (Z.eqb_spec P 0) as [->|H0].
  - change (effective_flags 0 0) with (80, SF_DEFAULT_PACKING). cbv iota beta.
    split; [exact F80|split].
    + left. split; reflexivity.
    + intros H. vm_compute in H. discriminate H.
  - destruct HP as [?|HP]; [contradiction|].
    destruct (Z.eqb_spec P 1) as [->|H1].
    + change (effective_flags 8 0) with (88, 1). cbv iota beta.
      split; [exact F88|split].
      * right. split; [exact HP|reflexivity].
      * intros _. lia.
    + pose proof (is_pow2_pos _ HP).
      unfold effective_flags. change (complete_sflags 0) with 80. change (has 80 SF_PACKED) with false.
      cbv iota. destruct (Z.leb_spec P 0); [lia|].
      change (Z.lor 80 SF_PACKED) with 88.
      split; [exact F88|split].
      * right. split; [exact HP|reflexivity].
      * intros _. exact H0.
Qed.

(* ------------------------------------------------------------------ relation between the two results *)

Definition rel_type (t : ctype) (ti : tinfo) (g : glayout) : Prop :=
  ti_align ti = g_align g /\ is_pow2 (g_align g) /\ g_align g <= MAXAL /\
  ((ti_size ti = g_size g /\ 0 <= g_size g) \/
   (ti_size ti = -1 /\ g_size g = 0 /\ exists it, t = TArr it (-1))) /\
  map norm_field (ti_fields ti) = g_fields g.

Lemma inv0 : inv lstate0 cursor0.
Proof.
  constructor; cbn; try reflexivity; try lia.
  split; [exists 0; split; [lia|reflexivity]|unfold MAXAL; lia].
Qed.

Lemma field_ok_valid P last named ft bits ti :
  field_ok P last (named, ft, bits) -> rel_type ft ti (gcc_layout ft) ->
  field_valid P named ft ti bits /\
  rel_member last bits ft ti (g_size (gcc_layout ft)) (g_align (gcc_layout ft))
             (if is_agg ft then Some (g_fields (gcc_layout ft)) else None).
Proof.
  intros (Hb & Han & Hfl) (Ea & Hpa & Hma & Hsz & Hf). split.
  - split; auto. destruct Hb as [?|(Hnn & HP & (s & a & -> & Hw) & Hz)]; [left; auto|right].
    cbn in Hsz. destruct Hsz as [[Es Hs]|(_ & _ & it & Hit)]; [|discriminate].
    cbn. rewrite Es. repeat split; auto.
  - unfold rel_member. repeat split; auto.
    + destruct Hsz as [?|(Es & E0 & it & ->)]; [left; auto|right].
      destruct (Hfl it eq_refl) as (-> & ->). auto.
    + rewrite Hf. reflexivity.
Qed.

Lemma mloop_agrees u sflags pack P :
  flags_ok sflags -> pack_rel pack P -> (has sflags SF_PACKED = true -> P <> 0) ->
  forall fs st c, inv st c -> fields_ok P fs ->
  Forall (fun f => exists ti, cffi_layout (f_type f) = Ok ti /\
                              rel_type (f_type f) ti (gcc_layout (f_type f))) fs ->
  exists st', mloop cffi_layout u sflags pack fs st = Ok st' /\ inv st' (sgo u P fs c).
Proof.
  intros Hf HP Hpk. induction fs as [|[[named ft] bits] fs IH]; intros st c I Hok Hall.
  - exists st. split; [reflexivity|exact I].
  - inversion Hall as [|? ? (ti & Eti & Hrel) Hall']; subst. cbn [f_type fst snd] in *.
    destruct Hok as (Hok1 & Hok2).
    destruct (field_ok_valid _ _ _ _ _ _ Hok1 Hrel) as (Hv & Hm).
    destruct (step_agrees u sflags pack P _ st c named ft ti bits _ _ _ Hf HP Hpk I Hm Hv)
      as (st1 & E1 & I1).
    rewrite mloop_cons, sgo_cons. rewrite Eti. cbn [bind]. unfold field in *. rewrite E1. cbn [bind].
    apply IH; auto.
Qed.

Lemma finish_agrees st c :
  inv st c ->
  ti_align (finish_struct st) = g_align (finish_agg c) /\
  is_pow2 (g_align (finish_agg c)) /\ g_align (finish_agg c) <= MAXAL /\
  0 <= g_size (finish_agg c) /\
  (0 < g_size (finish_agg c) -> ti_size (finish_struct st) = g_size (finish_agg c)) /\
  0 <= ti_size (finish_struct st) /\
  map norm_field (ti_fields (finish_struct st)) = g_fields (finish_agg c).
Proof.
  intros I. pose proof (i_alp _ _ I) as (Hp & Hm). pose proof (is_pow2_pos _ Hp) as Hpos.
  unfold finish_struct, finish_agg. cbn [ti_align ti_size ti_fields g_align g_size g_fields].
  rewrite <- (i_al _ _ I), (i_out _ _ I).
  rewrite (and_not_m1_spec _ _ Hp), (i_max _ _ I).
  rewrite final_size by (auto; apply (i_maxnn _ _ I)).
  set (x := alignment st * (((maxend c + 7) / 8 + alignment st - 1) / alignment st)).
  assert (0 <= x).
  { subst x. apply Z.mul_nonneg_nonneg; [lia|]. apply Z.div_pos; [|lia].
    pose proof (i_maxnn _ _ I). assert (0 <= (maxend c + 7) / 8) by (apply Z.div_pos; lia). lia. }
  repeat split; auto.
  - intros. destruct (Z.eqb_spec x 0); lia.
  - destruct (Z.eqb_spec x 0); lia.
Qed.

(* ------------------------------------------------------------------ the main theorems *)

Theorem layout_agrees t : in_class t -> no_zero_size t ->
  exists ti, cffi_layout t = Ok ti /\ rel_type t ti (gcc_layout t).
Proof.
  induction t as [s a b|it n IH|u P fs IH] using ctype_ind2; intros Hc Hz.
  - destruct Hc as (Hs & Hp & Hm). eexists. split; [reflexivity|].
    repeat split; cbn; auto.
  - destruct Hc as (Hc & Hn & Hnf).
    destruct (IH Hc Hz) as (ti & E & Ea & Hpa & Hma & Hsz & Hf).
    cbn [cffi_layout gcc_layout]. rewrite E. cbn [bind].
    destruct Hsz as [[Es Hs]|(_ & _ & it' & ->)]; [|exfalso; eapply Hnf; reflexivity].
    destruct (Z.ltb_spec (ti_size ti) 0); [lia|].
    eexists. split; [reflexivity|].
    repeat split; cbn [ti_align ti_size ti_fields g_align g_size g_fields map]; auto.
    destruct (Z.ltb_spec n 0).
    + right. assert (n = -1) as -> by lia. repeat split; eauto.
    + left. rewrite Es. split; [reflexivity|]. apply Z.mul_nonneg_nonneg; lia.
  - cbn [in_class] in Hc. destruct Hc as (HP & Hok & Hall). apply in_class_fields in Hall.
    cbn [no_zero_size] in Hz. destruct Hz as (Hsz & Hnz). apply no_zero_fields in Hnz.
    rewrite cffi_layout_agg. rewrite gcc_layout_agg in *.
    pose proof (effective_flags_ok P HP) as Hfl.
    destruct (finish_backend_flags P) as (sflags0, pack0).
    destruct (effective_flags sflags0 pack0) as (sflags, pack).
    destruct Hfl as (Hf & Hpr & Hpk).
    assert (Hall2 : Forall (fun f => exists ti, cffi_layout (f_type f) = Ok ti /\
                                     rel_type (f_type f) ti (gcc_layout (f_type f))) fs).
    { rewrite Forall_forall in *. intros f Hin. apply IH; auto. }
    destruct (mloop_agrees u sflags pack P Hf Hpr Hpk fs lstate0 cursor0 inv0 Hok Hall2)
      as (st' & E & I').
    rewrite E. cbn [bind]. eexists. split; [reflexivity|].
    destruct (finish_agrees _ _ I') as (H1 & H2 & H3 & H4 & H5 & H6 & H7).
    unfold rel_type. repeat split; auto.
Qed.

(* nothing in the class is rejected — zero-size aggregates included *)
Definition wf_info (t : ctype) (ti : tinfo) : Prop :=
  is_pow2 (ti_align ti) /\ ti_align ti <= MAXAL /\
  (0 <= ti_size ti \/ (ti_size ti = -1 /\ exists it, t = TArr it (-1))).

Lemma mloop_total u sflags pack P :
  flags_ok sflags -> pack_rel pack P -> (has sflags SF_PACKED = true -> P <> 0) ->
  forall fs st c, inv st c -> fields_ok P fs ->
  Forall (fun f => exists ti, cffi_layout (f_type f) = Ok ti /\ wf_info (f_type f) ti) fs ->
  exists st' c', mloop cffi_layout u sflags pack fs st = Ok st' /\ inv st' c'.
Proof.
  intros Hf HP Hpk. induction fs as [|[[named ft] bits] fs IH]; intros st c I Hok Hall.
  - exists st, c. split; [reflexivity|exact I].
  - inversion Hall as [|? ? (ti & Eti & Hp & Hm & Hsz) Hall']; subst. cbn [f_type fst snd] in *.
    destruct Hok as ((Hb & Han & Hfl) & Hok2).
    set (s := if ti_size ti <? 0 then 0 else ti_size ti).
    assert (Hv : field_valid P named ft ti bits).
    { split; auto. destruct Hb as [?|(Hnn & HP0 & (s0 & a0 & -> & Hw) & Hz)]; [left; auto|right].
      cbn in Eti. inversion Eti; subst ti. cbn in *.
      destruct Hsz as [?|(? & it & ?)]; [|discriminate]. repeat split; auto. }
    assert (Hmem : rel_member (match fs with [] => true | _ => false end) bits ft ti s (ti_align ti)
                     (if is_agg ft then Some (map norm_field (ti_fields ti)) else None)).
    { unfold rel_member. repeat split; auto. subst s.
      destruct Hsz as [?|(Es & it & ->)].
      - left. destruct (Z.ltb_spec (ti_size ti) 0); lia.
      - right. rewrite Es. destruct (Hfl it eq_refl) as (-> & ->). cbn. auto. }
    destruct (step_agrees u sflags pack P _ st c named ft ti bits _ _ _ Hf HP Hpk I Hmem Hv)
      as (st1 & E1 & I1).
    rewrite mloop_cons. rewrite Eti. cbn [bind]. unfold field in *. rewrite E1. cbn [bind].
    eapply IH; eauto.
Qed.

Theorem layout_total t : in_class t -> exists ti, cffi_layout t = Ok ti /\ wf_info t ti.
Proof.
  induction t as [s a b|it n IH|u P fs IH] using ctype_ind2; intros Hc.
  - destruct Hc as (Hs & Hp & Hm). eexists. split; [reflexivity|]. repeat split; cbn; auto.
  - destruct Hc as (Hc & Hn & Hnf).
    destruct (IH Hc) as (ti & E & Hp & Hm & Hsz).
    cbn [cffi_layout]. rewrite E. cbn [bind].
    destruct Hsz as [Hs|(_ & it' & ->)]; [|exfalso; eapply Hnf; reflexivity].
    destruct (Z.ltb_spec (ti_size ti) 0); [lia|].
    eexists. split; [reflexivity|].
    repeat split; cbn [ti_align ti_size]; auto.
    destruct (Z.ltb_spec n 0).
    + right. assert (n = -1) as -> by lia. eauto.
    + left. apply Z.mul_nonneg_nonneg; lia.
  - cbn [in_class] in Hc. destruct Hc as (HP & Hok & Hall). apply in_class_fields in Hall.
    rewrite cffi_layout_agg.
    pose proof (effective_flags_ok P HP) as Hfl.
    destruct (finish_backend_flags P) as (sflags0, pack0).
    destruct (effective_flags sflags0 pack0) as (sflags, pack).
    destruct Hfl as (Hf & Hpr & Hpk).
    assert (Hall2 : Forall (fun f => exists ti, cffi_layout (f_type f) = Ok ti /\ wf_info (f_type f) ti) fs).
    { rewrite Forall_forall in *. intros f Hin. apply IH; auto. }
    destruct (mloop_total u sflags pack P Hf Hpr Hpk fs lstate0 cursor0 inv0 Hok Hall2)
      as (st' & c' & E & I').
    rewrite E. cbn [bind]. eexists. split; [reflexivity|].
    destruct (finish_agrees _ _ I') as (H1 & H2 & H3 & H4 & H5 & H6 & H7).
    unfold wf_info. rewrite H1. repeat split; auto.
Qed.
