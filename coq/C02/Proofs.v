(* C02 — proofs about C02/Model.v against C02/Spec.v. *)
From Coq Require Import ZArith Znumtheory List Bool Lia ZifyBool.
From Cffi Require Import C03.Mem C03.MemProofs C03.Store C03.StoreProofs C02.Spec C02.Model.
Import ListNotations.
Open Scope Z_scope.

(* ------------------------------------------------------------------ placements *)

Definition bytes_ok (data : list Z) : Prop := Forall (fun b => 0 <= b < 256) data.

Record placement (T : ity) (w sh : Z) : Prop := {
  pl_size : (1 <= isize T <= 8)%nat;
  pl_w : 1 <= w;
  pl_sh : 0 <= sh;
  pl_fit : sh + w <= 8 * Z.of_nat (isize T);
  pl_bool : ibool T = true -> isize T = 1%nat /\ isigned T = false
}.

Definition unit_ok (T : ity) (data : list Z) : Prop :=
  List.length data = isize T /\ bytes_ok data.

Lemma decode_le_bound data : bytes_ok data -> 0 <= decode_le data < 2 ^ (8 * Z.of_nat (List.length data)).
Proof.
  induction 1 as [|b r Hb Hr IH]; cbn [decode_le List.length].
  - cbn. lia.
  - replace (8 * Z.of_nat (S (List.length r))) with (8 + 8 * Z.of_nat (List.length r)) by lia.
    rewrite Z.pow_add_r by lia. change (2 ^ 8) with 256. nia.
Qed.

Lemma pow2_pos n : 0 <= n -> 0 < 2 ^ n.
Proof. intros; apply Z.pow_pos_nonneg; lia. Qed.

Lemma pow2_le a b : 0 <= a <= b -> 2 ^ a <= 2 ^ b.
Proof. intros; apply Z.pow_le_mono_r; lia. Qed.

Lemma pow2_lt a b : 0 <= a < b -> 2 ^ a < 2 ^ b.
Proof. intros; apply Z.pow_lt_mono_r; lia. Qed.

Lemma pow2_double n : 0 < n -> 2 ^ n = 2 * 2 ^ (n - 1).
Proof. intros. replace n with (1 + (n - 1)) at 1 by lia. rewrite Z.pow_add_r by lia. reflexivity. Qed.

Lemma mod_mod_pow2 z a b : 0 <= a <= b -> (z mod 2 ^ b) mod 2 ^ a = z mod 2 ^ a.
Proof.
  intros H. symmetry. apply Zmod_div_mod; try (apply pow2_pos; lia).
  exists (2 ^ (b - a)). rewrite <- Z.pow_add_r by lia. f_equal. lia.
Qed.

(* ------------------------------------------------------------------ bits of a field *)

Lemma testbit_field w sh a i : 0 <= w -> 0 <= sh -> 0 <= i ->
  Z.testbit (field_bits w sh a) i = (i <? w) && Z.testbit a (i + sh).
Proof.
  intros Hw Hsh Hi. unfold field_bits.
  destruct (Z.ltb_spec i w).
  - rewrite Z.mod_pow2_bits_low by lia. rewrite Z.div_pow2_bits by lia. reflexivity.
  - rewrite Z.mod_pow2_bits_high by lia. reflexivity.
Qed.

Lemma field_bits_range w sh a : 0 <= w -> 0 <= field_bits w sh a < 2 ^ w.
Proof. intros. unfold field_bits. apply Z.mod_pos_bound. apply pow2_pos; lia. Qed.

(* the field only depends on the unit modulo 2^n for any n >= sh + w *)
Lemma field_bits_congr w sh a b n : 0 <= w -> 0 <= sh -> sh + w <= n ->
  a mod 2 ^ n = b mod 2 ^ n -> field_bits w sh a = field_bits w sh b.
Proof.
  intros Hw Hsh Hn E. apply Z.bits_inj'. intros i Hi. rewrite !testbit_field by lia.
  destruct (Z.ltb_spec i w); [|reflexivity]. cbn [andb].
  rewrite <- (Z.mod_pow2_bits_low a n) by lia. rewrite <- (Z.mod_pow2_bits_low b n) by lia.
  rewrite E. reflexivity.
Qed.

Lemma signed_value_spec w x : 0 < w -> 0 <= x < 2 ^ w ->
  (x + 2 ^ (w - 1)) mod 2 ^ w - 2 ^ (w - 1) = if 2 ^ (w - 1) <=? x then x - 2 ^ w else x.
Proof.
  intros Hw Hx. pose proof (pow2_double w Hw) as E. pose proof (pow2_pos (w - 1) ltac:(lia)).
  destruct (Z.leb_spec (2 ^ (w - 1)) x).
  - assert ((x + 2 ^ (w - 1)) mod 2 ^ w = x + 2 ^ (w - 1) - 2 ^ w); [|lia].
    symmetry. apply Z.mod_unique with (q := 1); lia.
  - rewrite Z.mod_small by lia. lia.
Qed.

(* ------------------------------------------------------------------ reading *)

Section Read.
  Variables (T : ity) (w sh : Z) (data : list Z).
  Hypothesis P : placement T w sh.
  Hypothesis U : unit_ok T data.

  Let B := 8 * Z.of_nat (isize T).
  Let u := read_raw_unsigned data.

  Lemma u_range : 0 <= u < 2 ^ B.
  Proof.
    destruct U as [L Bo]. unfold u, read_raw_unsigned, B. rewrite <- L. apply decode_le_bound. exact Bo.
  Qed.

  Lemma B_le_64 : 8 <= B <= 64.
  Proof. destruct P. unfold B. lia. Qed.

  Lemma signed_raw : read_raw_signed data = if u <? 2 ^ (B - 1) then u else u - 2 ^ B.
  Proof. destruct U as [L _]. unfold read_raw_signed, u, B, read_raw_unsigned. rewrite L. reflexivity. Qed.

  Lemma signed_raw_mod : (u64 (read_raw_signed data)) mod 2 ^ B = u mod 2 ^ B.
  Proof.
    pose proof u_range. pose proof B_le_64. unfold u64. rewrite mod_mod_pow2 by lia.
    rewrite signed_raw. destruct (u <? 2 ^ (B - 1)); [reflexivity|].
    replace (u - 2 ^ B) with (u + (-1) * 2 ^ B) by lia. apply Z.mod_add. pose proof (pow2_pos B). lia.
  Qed.

  Theorem read_like_C :
    bf_read T w sh data = BOk (c_bitfield_value (isigned T) w sh u).
  Proof.
    pose proof u_range as Hu. pose proof B_le_64 as HB. destruct P as [Hs Hw Hsh Hfit Hbool]. fold B in Hfit.
    unfold bf_read. destruct (Z.leb_spec 64 w) as [W64|W64].
    - (* full width: the plain integer read *)
      assert (B = 64) as B64 by lia. assert (w = 64) as -> by lia. assert (sh = 0) as -> by lia.
      f_equal. unfold read_int, c_bitfield_value, field_bits.
      rewrite Z.pow_0_r, Z.div_1_r. rewrite B64 in Hu. rewrite (Z.mod_small u) by lia.
      destruct (isigned T); cbn [andb].
      + rewrite signed_raw. rewrite B64. change (64 - 1) with 63.
        destruct (Z.ltb_spec u (2 ^ 63)), (Z.leb_spec (2 ^ 63) u); try lia; reflexivity.
      + reflexivity.
    - assert (count_ok w = true) as Cw by (unfold count_ok; lia).
      assert (count_ok (w - 1) = true) as Cw1 by (unfold count_ok; lia).
      assert (count_ok sh = true) as Csh by (unfold count_ok; lia).
      pose proof (pow2_lt w 64 ltac:(lia)) as Pw. pose proof (pow2_le w 63 ltac:(lia)) as Pw63. pose proof (pow2_pos w ltac:(lia)) as Pw0.
      pose proof (pow2_lt (w - 1) 63 ltac:(lia)) as Ph. pose proof (pow2_pos (w - 1) ltac:(lia)) as Ph0.
      pose proof (pow2_double w ltac:(lia)) as Dw.
      assert (2 ^ 64 = 2 * 2 ^ 63) as D64 by reflexivity.
      unfold shl_u64, shr_u64. rewrite Cw, Csh. rewrite !Z.mul_1_l.
      assert (u64 (2 ^ w) = 2 ^ w) as -> by (unfold u64; apply Z.mod_small; lia).
      assert (u64 (2 ^ w - 1) = Z.ones w) as -> by (unfold u64; rewrite Z.ones_equiv; apply Z.mod_small; lia).
      destruct (isigned T) eqn:Sg.
      + rewrite Cw1.
        assert (u64 (2 ^ (w - 1)) = 2 ^ (w - 1)) as -> by (unfold u64; apply Z.mod_small; lia).
        set (v64 := u64 (read_raw_signed data)).
        assert (0 <= v64 < 2 ^ 64) as V64 by (unfold v64, u64; apply Z.mod_pos_bound; lia).
        rewrite Z.land_ones by lia. unfold u64 at 1. rewrite mod_mod_pow2 by lia.
        rewrite Z.shiftr_div_pow2 by lia.
        rewrite <- Zplus_mod_idemp_l.
        assert ((v64 / 2 ^ sh) mod 2 ^ w = field_bits w sh u) as ->.
        { change ((v64 / 2 ^ sh) mod 2 ^ w) with (field_bits w sh v64).
          apply field_bits_congr with (n := B); try lia.
          unfold v64. apply signed_raw_mod. }
        pose proof (field_bits_range w sh u ltac:(lia)) as Fr.
        set (x := field_bits w sh u) in *.
        pose proof (Z.mod_pos_bound (x + 2 ^ (w - 1)) (2 ^ w) ltac:(lia)) as Mr.
        assert (s64 ((x + 2 ^ (w - 1)) mod 2 ^ w) = (x + 2 ^ (w - 1)) mod 2 ^ w) as ->.
        { unfold s64. rewrite Z.mod_small; lia. }
        assert (s64 (2 ^ (w - 1)) = 2 ^ (w - 1)) as -> by (unfold s64; rewrite Z.mod_small; lia).
        unfold arith_s64.
        destruct ((- 2 ^ 63 <=? (x + 2 ^ (w - 1)) mod 2 ^ w - 2 ^ (w - 1)) &&
                  ((x + 2 ^ (w - 1)) mod 2 ^ w - 2 ^ (w - 1) <? 2 ^ 63)) eqn:Ar; [|exfalso; lia].
        f_equal. unfold c_bitfield_value. fold x. cbn [andb]. apply signed_value_spec; lia.
      + f_equal. unfold c_bitfield_value. cbn [andb].
        rewrite Z.land_ones by lia. rewrite Z.shiftr_div_pow2 by lia. reflexivity.
  Qed.
End Read.
