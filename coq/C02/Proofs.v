(* C02 — proofs about C02/Model.v against C02/Spec.v. *)
From Coq Require Import ZArith Znumtheory List Bool Lia ZifyBool.
From Cffi Require Import C03.Mem C03.MemProofs C03.Store C03.StoreProofs C02.Spec C02.Model.
Import ListNotations.
Open Scope Z_scope.

(* ------------------------------------------------------------------ placements *)

Definition bytes_ok (data : list Z) : Prop := Forall (fun b => 0 <= b < 256) data.

Record placement (T : ity) (w sh : Z) : Prop := {
  pl_size : (1 <= isize T <= 8)%nat;
  pl_w : 1 <= w;
  pl_sh : 0 <= sh;
  pl_fit : sh + w <= 8 * Z.of_nat (isize T);
  pl_bool : ibool T = true -> isize T = 1%nat /\ isigned T = false
}.

Definition unit_ok (T : ity) (data : list Z) : Prop :=
  List.length data = isize T /\ bytes_ok data.

Lemma decode_le_bound data : bytes_ok data -> 0 <= decode_le data < 2 ^ (8 * Z.of_nat (List.length data)).
Proof.
  induction 1 as [|b r Hb Hr IH]; cbn [decode_le List.length].
  - cbn. lia.
  - replace (8 * Z.of_nat (S (List.length r))) with (8 + 8 * Z.of_nat (List.length r)) by lia.
    rewrite Z.pow_add_r by lia. change (2 ^ 8) with 256. nia.
Qed.

Lemma pow2_pos n : 0 <= n -> 0 < 2 ^ n.
Proof. intros; apply Z.pow_pos_nonneg; lia. Qed.

Lemma pow2_le a b : 0 <= a <= b -> 2 ^ a <= 2 ^ b.
Proof. intros; apply Z.pow_le_mono_r; lia. Qed.

Lemma pow2_lt a b : 0 <= a < b -> 2 ^ a < 2 ^ b.
Proof. intros; apply Z.pow_lt_mono_r; lia. Qed.

Lemma pow2_double n : 0 < n -> 2 ^ n = 2 * 2 ^ (n - 1).
Proof. intros. replace n with (1 + (n - 1)) at 1 by lia. rewrite Z.pow_add_r by lia. reflexivity. Qed.

Lemma mod_mod_pow2 z a b : 0 <= a <= b -> (z mod 2 ^ b) mod 2 ^ a = z mod 2 ^ a.
Proof.
  intros H. symmetry. apply Zmod_div_mod; try (apply pow2_pos; lia).
  exists (2 ^ (b - a)). rewrite <- Z.pow_add_r by lia. f_equal. lia.
Qed.

(* ------------------------------------------------------------------ bits of a field *)

Lemma testbit_field w sh a i : 0 <= w -> 0 <= sh -> 0 <= i ->
  Z.testbit (field_bits w sh a) i = (i <? w) && Z.testbit a (i + sh).
Proof.
  intros Hw Hsh Hi. unfold field_bits.
  destruct (Z.ltb_spec i w).
  - rewrite Z.mod_pow2_bits_low by lia. rewrite Z.div_pow2_bits by lia. reflexivity.
  - rewrite Z.mod_pow2_bits_high by lia. reflexivity.
Qed.

Lemma field_bits_range w sh a : 0 <= w -> 0 <= field_bits w sh a < 2 ^ w.
Proof. intros. unfold field_bits. apply Z.mod_pos_bound. apply pow2_pos; lia. Qed.

(* the field only depends on the unit modulo 2^n for any n >= sh + w *)
Lemma field_bits_congr w sh a b n : 0 <= w -> 0 <= sh -> sh + w <= n ->
  a mod 2 ^ n = b mod 2 ^ n -> field_bits w sh a = field_bits w sh b.
Proof.
  intros Hw Hsh Hn E. apply Z.bits_inj'. intros i Hi. rewrite !testbit_field by lia.
  destruct (Z.ltb_spec i w); [|reflexivity]. cbn [andb].
  rewrite <- (Z.mod_pow2_bits_low a n) by lia. rewrite <- (Z.mod_pow2_bits_low b n) by lia.
  rewrite E. reflexivity.
Qed.

Lemma signed_value_spec w x : 0 < w -> 0 <= x < 2 ^ w ->
  (x + 2 ^ (w - 1)) mod 2 ^ w - 2 ^ (w - 1) = if 2 ^ (w - 1) <=? x then x - 2 ^ w else x.
Proof.
  intros Hw Hx. pose proof (pow2_double w Hw) as E. pose proof (pow2_pos (w - 1) ltac:(lia)).
  destruct (Z.leb_spec (2 ^ (w - 1)) x).
  - assert ((x + 2 ^ (w - 1)) mod 2 ^ w = x + 2 ^ (w - 1) - 2 ^ w); [|lia].
    symmetry. apply Z.mod_unique with (q := 1); lia.
  - rewrite Z.mod_small by lia. lia.
Qed.

(* ------------------------------------------------------------------ reading *)

Section Read.
  Variables (T : ity) (w sh : Z) (data : list Z).
  Hypothesis P : placement T w sh.
  Hypothesis U : unit_ok T data.

  Let B := 8 * Z.of_nat (isize T).
  Let u := read_raw_unsigned data.

  Lemma u_range : 0 <= u < 2 ^ B.
  Proof.
    destruct U as [L Bo]. unfold u, read_raw_unsigned, B. rewrite <- L. apply decode_le_bound. exact Bo.
  Qed.

  Lemma B_le_64 : 8 <= B <= 64.
  Proof. destruct P. unfold B. lia. Qed.

  Lemma signed_raw : read_raw_signed data = if u <? 2 ^ (B - 1) then u else u - 2 ^ B.
  Proof. destruct U as [L _]. unfold read_raw_signed, u, B, read_raw_unsigned. rewrite L. reflexivity. Qed.

  Lemma signed_raw_mod : (u64 (read_raw_signed data)) mod 2 ^ B = u mod 2 ^ B.
  Proof.
    pose proof u_range. pose proof B_le_64. unfold u64. rewrite mod_mod_pow2 by lia.
    rewrite signed_raw. destruct (u <? 2 ^ (B - 1)); [reflexivity|].
    replace (u - 2 ^ B) with (u + (-1) * 2 ^ B) by lia. apply Z.mod_add. pose proof (pow2_pos B). lia.
  Qed.

  Theorem read_like_C :
    bf_read T w sh data = BOk (c_bitfield_value (isigned T) w sh u).
  Proof.
    pose proof u_range as Hu. pose proof B_le_64 as HB. destruct P as [Hs Hw Hsh Hfit Hbool]. fold B in Hfit.
    unfold bf_read. destruct (Z.leb_spec 64 w) as [W64|W64].
    - (* full width: the plain integer read *)
      assert (B = 64) as B64 by lia. assert (w = 64) as -> by lia. assert (sh = 0) as -> by lia.
      f_equal. unfold read_int, c_bitfield_value, field_bits.
      rewrite Z.pow_0_r, Z.div_1_r. rewrite B64 in Hu. rewrite (Z.mod_small u) by lia.
      destruct (isigned T); cbn [andb].
      + rewrite signed_raw. rewrite B64. change (64 - 1) with 63.
        destruct (Z.ltb_spec u (2 ^ 63)), (Z.leb_spec (2 ^ 63) u); try lia; reflexivity.
      + reflexivity.
    - assert (count_ok w = true) as Cw by (unfold count_ok; lia).
      assert (count_ok (w - 1) = true) as Cw1 by (unfold count_ok; lia).
      assert (count_ok sh = true) as Csh by (unfold count_ok; lia).
      pose proof (pow2_lt w 64 ltac:(lia)) as Pw. pose proof (pow2_le w 63 ltac:(lia)) as Pw63. pose proof (pow2_pos w ltac:(lia)) as Pw0.
      pose proof (pow2_lt (w - 1) 63 ltac:(lia)) as Ph. pose proof (pow2_pos (w - 1) ltac:(lia)) as Ph0.
      pose proof (pow2_double w ltac:(lia)) as Dw.
      assert (2 ^ 64 = 2 * 2 ^ 63) as D64 by reflexivity.
      unfold shl_u64, shr_u64. rewrite Cw, Csh. rewrite !Z.mul_1_l.
      assert (u64 (2 ^ w) = 2 ^ w) as -> by (unfold u64; apply Z.mod_small; lia).
      assert (u64 (2 ^ w - 1) = Z.ones w) as -> by (unfold u64; rewrite Z.ones_equiv; apply Z.mod_small; lia).
      destruct (isigned T) eqn:Sg.
      + rewrite Cw1.
        assert (u64 (2 ^ (w - 1)) = 2 ^ (w - 1)) as -> by (unfold u64; apply Z.mod_small; lia).
        set (v64 := u64 (read_raw_signed data)).
        assert (0 <= v64 < 2 ^ 64) as V64 by (unfold v64, u64; apply Z.mod_pos_bound; lia).
        rewrite Z.land_ones by lia. unfold u64 at 1. rewrite mod_mod_pow2 by lia.
        rewrite Z.shiftr_div_pow2 by lia.
        rewrite <- Zplus_mod_idemp_l.
        assert ((v64 / 2 ^ sh) mod 2 ^ w = field_bits w sh u) as ->.
        { change ((v64 / 2 ^ sh) mod 2 ^ w) with (field_bits w sh v64).
          apply field_bits_congr with (n := B); try lia.
          unfold v64. apply signed_raw_mod. }
        pose proof (field_bits_range w sh u ltac:(lia)) as Fr.
        set (x := field_bits w sh u) in *.
        pose proof (Z.mod_pos_bound (x + 2 ^ (w - 1)) (2 ^ w) ltac:(lia)) as Mr.
        assert (s64 ((x + 2 ^ (w - 1)) mod 2 ^ w) = (x + 2 ^ (w - 1)) mod 2 ^ w) as ->.
        { unfold s64. rewrite Z.mod_small; lia. }
        assert (s64 (2 ^ (w - 1)) = 2 ^ (w - 1)) as -> by (unfold s64; rewrite Z.mod_small; lia).
        unfold arith_s64.
        destruct ((- 2 ^ 63 <=? (x + 2 ^ (w - 1)) mod 2 ^ w - 2 ^ (w - 1)) &&
                  ((x + 2 ^ (w - 1)) mod 2 ^ w - 2 ^ (w - 1) <? 2 ^ 63)) eqn:Ar; [|exfalso; lia].
        f_equal. unfold c_bitfield_value. fold x. cbn [andb]. apply signed_value_spec; lia.
      + f_equal. unfold c_bitfield_value. cbn [andb].
        rewrite Z.land_ones by lia. rewrite Z.shiftr_div_pow2 by lia. reflexivity.
  Qed.
End Read.

(* ------------------------------------------------------------------ writing *)

Definition fmax' (sg : bool) (w : Z) : Z := if sg && (w =? 1) then 1 else fmax sg w.
Definition acceptb (sg : bool) (w v : Z) : bool := (fmin sg w <=? v) && (v <=? fmax' sg w).

Lemma acceptb_spec sg w v : 1 <= w -> acceptb sg w v = true <-> accepted sg w v.
Proof.
  intros Hw. unfold acceptb, accepted, fmax', fmin, fmax.
  destruct sg; cbn [andb].
  - destruct (Z.eqb_spec w 1) as [->|N].
    + change (2 ^ (1 - 1)) with 1. split; intros H; [|destruct H as [H|[_ [_ ->]]]]; lia.
    + split; intros H; [left; lia|destruct H as [H|[_ [E _]]]; [lia|congruence]].
  - split; intros H; [left; lia|destruct H as [H|[E _]]; [lia|discriminate]].
Qed.

Lemma bounds_eq sg w : 1 <= w < 64 -> bf_bounds sg w = Some (fmin sg w, fmax' sg w).
Proof.
  intros Hw. unfold bf_bounds, fmin, fmax', fmax.
  pose proof (pow2_lt (w - 1) 63 ltac:(lia)) as Ph. pose proof (pow2_pos (w - 1) ltac:(lia)) as Ph0.
  pose proof (pow2_lt w 64 ltac:(lia)) as Pw. pose proof (pow2_le w 63 ltac:(lia)) as Pw63.
  pose proof (pow2_pos w ltac:(lia)) as Pw0.
  destruct sg; cbn [andb].
  - unfold shl_s64, count_ok. rewrite Z.mul_1_l.
    destruct ((0 <=? w - 1) && (w - 1 <? 64) && (0 <=? 1) && (2 ^ (w - 1) <? 2 ^ 63)) eqn:E; [|exfalso; lia].
    unfold arith_s64.
    destruct ((- 2 ^ 63 <=? - 2 ^ (w - 1)) && (- 2 ^ (w - 1) <? 2 ^ 63)) eqn:E1; [|exfalso; lia].
    destruct ((- 2 ^ 63 <=? 2 ^ (w - 1) - 1) && (2 ^ (w - 1) - 1 <? 2 ^ 63)) eqn:E2; [|exfalso; lia].
    f_equal. f_equal.
    destruct (Z.eqb_spec w 1) as [->|N].
    + reflexivity.
    + assert (2 <= 2 ^ (w - 1)).
      { change 2 with (2 ^ 1) at 1. apply pow2_le. lia. }
      destruct (Z.eqb_spec (2 ^ (w - 1) - 1) 0); [lia|reflexivity].
  - unfold shl_u64, count_ok. rewrite Z.mul_1_l.
    destruct ((0 <=? w) && (w <? 64)) eqn:E; [|exfalso; lia].
    f_equal. f_equal. unfold u64, s64.
    rewrite (Z.mod_small (2 ^ w)) by lia. rewrite (Z.mod_small (2 ^ w - 1)) by lia.
    rewrite Z.mod_small by lia. lia.
Qed.

Lemma small_of_high_bits a n : 0 <= a -> 0 <= n ->
  (forall i, n <= i -> Z.testbit a i = false) -> 0 <= a < 2 ^ n.
Proof.
  intros Ha Hn H. assert (a mod 2 ^ n = a) as E.
  { apply Z.bits_inj'. intros i Hi. destruct (Z.ltb_spec i n).
    - apply Z.mod_pow2_bits_low. lia.
    - rewrite Z.mod_pow2_bits_high by lia. symmetry. apply H. lia. }
  rewrite <- E. apply Z.mod_pos_bound. apply pow2_pos. lia.
Qed.

Lemma high_bits_of_small a n i : 0 <= a < 2 ^ n -> 0 <= n <= i -> Z.testbit a i = false.
Proof.
  intros Ha Hi. rewrite <- (Z.mod_small a (2 ^ n)) by lia. apply Z.mod_pow2_bits_high. lia.
Qed.

Lemma testbit_rawmask w sh i : 0 <= w -> 0 <= sh -> 0 <= i ->
  Z.testbit (Z.ones w * 2 ^ sh) i = (sh <=? i) && (i <? sh + w).
Proof.
  intros Hw Hsh Hi. rewrite <- Z.shiftl_mul_pow2 by lia. rewrite Z.shiftl_spec by lia.
  destruct (Z.leb_spec sh i).
  - rewrite Z.testbit_ones_nonneg by lia. cbn [andb].
    destruct (Z.ltb_spec (i - sh) w), (Z.ltb_spec i (sh + w)); try lia; reflexivity.
  - rewrite Z.testbit_neg_r by lia. reflexivity.
Qed.

Section Write.
  Variables (T : ity) (w sh v : Z) (data : list Z).
  Hypothesis P : placement T w sh.
  Hypothesis U : unit_ok T data.

  Let B := 8 * Z.of_nat (isize T).
  Let u := read_raw_unsigned data.

  Definition in_field (i : Z) : bool := (sh <=? i) && (i <? sh + w).

  (* the write, completely: rejected writes are pure; accepted ones produce a unit whose bits are
     v's low bits inside the field and the old bits outside *)
  Theorem write_exact :
    if acceptb (isigned T) w v then
      exists data', bf_write T w sh v data = (BOk tt, data') /\ unit_ok T data' /\
        forall i, 0 <= i ->
          Z.testbit (read_raw_unsigned data') i = if in_field i then Z.testbit v (i - sh) else Z.testbit u i
    else bf_write T w sh v data = (BErr OverflowError, data).
  Proof.
    pose proof (u_range T data U) as Hu.
    assert (8 <= B <= 64) as HB by (destruct P; unfold B; lia).
    fold B in Hu. fold u in Hu.
    destruct P as [Hs Hw Hsh Hfit Hbool]. fold B in Hfit.
    unfold bf_write. destruct (Z.leb_spec 64 w) as [W64|W64].
    - (* full width: convert_from_object *)
      assert (B = 64) as B64 by lia. assert (w = 64) as Ew by lia. assert (sh = 0) as Esh by lia.
      rewrite B64 in Hu.
      assert (isize T = 8%nat) as S8 by (unfold B in B64; lia).
      assert (ibool T = false) as Nb.
      { destruct (ibool T) eqn:Eb; [|reflexivity]. destruct (Hbool eq_refl) as [E1 _]. lia. }
      assert (wf_ity T) as Wf by (split; [lia|intros E; congruence]).
      rewrite store_exact by exact Wf.
      assert (in_range T v = acceptb (isigned T) w v) as ->.
      { unfold in_range, acceptb, fmin, fmax', fmax, tbits. rewrite Nb, S8, Ew.
        destruct (isigned T); cbn [andb Z.eqb]; reflexivity. }
      destruct (acceptb (isigned T) w v) eqn:A; cbn [lift_res]; [|reflexivity].
      exists (encode_int T v). split; [reflexivity|]. unfold encode_int. rewrite S8. split.
      + split; [rewrite write_raw_length; congruence|]. unfold write_raw. apply encode_le_bytes.
      + intros i Hi. rewrite read_unsigned_write by lia. change (8 * Z.of_nat 8) with 64.
        unfold in_field. rewrite Ew, Esh. rewrite Z.sub_0_r.
        destruct (Z.ltb_spec i 64).
        * rewrite Z.mod_pow2_bits_low by lia.
          replace ((0 <=? i) && (i <? 0 + 64)) with true by lia. reflexivity.
        * rewrite Z.mod_pow2_bits_high by lia.
          replace ((0 <=? i) && (i <? 0 + 64)) with false by lia.
          symmetry. apply high_bits_of_small with (n := 64); lia.
    - pose proof (pow2_lt w 64 ltac:(lia)) as Pw. pose proof (pow2_le w 63 ltac:(lia)) as Pw63.
      pose proof (pow2_pos w ltac:(lia)) as Pw0.
      pose proof (pow2_lt (w - 1) 63 ltac:(lia)) as Ph. pose proof (pow2_pos (w - 1) ltac:(lia)) as Ph0.
      pose proof (pow2_double w ltac:(lia)) as Dw.
      rewrite bounds_eq by lia.
      unfold as_longlong.
      destruct ((- 2 ^ 63 <=? v) && (v <? 2 ^ 63)) eqn:LL.
      2:{ (* beyond long long: OverflowError from PyLong_AsLongLong, and v is certainly out of range *)
          assert (acceptb (isigned T) w v = false) as ->; [|reflexivity].
          unfold acceptb, fmin, fmax', fmax. destruct (isigned T); cbn [andb].
          - destruct (w =? 1); lia.
          - lia. }
      fold (acceptb (isigned T) w v).
      assert (((v <? fmin (isigned T) w) || (fmax' (isigned T) w <? v)) = negb (acceptb (isigned T) w v)) as ->.
      { unfold acceptb. lia. }
      destruct (acceptb (isigned T) w v) eqn:A; cbn [negb]; [|reflexivity].
      assert (count_ok w = true) as Cw by (unfold count_ok; lia).
      assert (count_ok sh = true) as Csh by (unfold count_ok; lia).
      unfold shl_u64. rewrite Cw, Csh. rewrite Z.mul_1_l.
      assert (u64 (2 ^ w) = 2 ^ w) as -> by (unfold u64; apply Z.mod_small; lia).
      assert (u64 (2 ^ w - 1) = Z.ones w) as -> by (unfold u64; rewrite Z.ones_equiv; apply Z.mod_small; lia).
      pose proof (pow2_le (sh + w) 64 ltac:(lia)) as Psw. pose proof (pow2_pos sh ltac:(lia)) as Psh.
      assert (0 <= Z.ones w * 2 ^ sh < 2 ^ 64) as Rm.
      { rewrite Z.ones_equiv. rewrite Z.pow_add_r in Psw by lia. nia. }
      assert (u64 (Z.ones w * 2 ^ sh) = Z.ones w * 2 ^ sh) as -> by (unfold u64; apply Z.mod_small; lia).
      set (rawmask := Z.ones w * 2 ^ sh) in *.
      set (rawvalue := u64 (u64 v * 2 ^ sh)).
      set (raw' := Z.lor (Z.land (read_raw_unsigned data) (u64 (Z.lnot rawmask))) (Z.land rawvalue rawmask)).
      fold u in raw'.
      (* bits of the new unit *)
      assert (forall i, 0 <= i -> Z.testbit raw' i = if in_field i then Z.testbit v (i - sh) else Z.testbit u i) as Bits.
      { intros i Hi. unfold raw'. rewrite Z.lor_spec, !Z.land_spec.
        unfold rawmask at 2. rewrite testbit_rawmask by lia. fold (in_field i).
        destruct (in_field i) eqn:F.
        - unfold in_field in F. rewrite andb_true_r.
          assert (Z.testbit (u64 (Z.lnot rawmask)) i = false) as ->.
          { unfold u64. rewrite Z.mod_pow2_bits_low by lia. rewrite Z.lnot_spec by lia.
            unfold rawmask. rewrite testbit_rawmask by lia. rewrite F. reflexivity. }
          rewrite andb_false_r. cbn [orb].
          unfold rawvalue, u64. rewrite Z.mod_pow2_bits_low by lia.
          rewrite Z.mul_pow2_bits by lia. apply Z.mod_pow2_bits_low. lia.
        - rewrite andb_false_r, orb_false_r.
          destruct (Z.ltb_spec i 64).
          + unfold u64. rewrite Z.mod_pow2_bits_low by lia. rewrite Z.lnot_spec by lia.
            unfold rawmask. rewrite testbit_rawmask by lia. fold (in_field i). rewrite F.
            cbn [negb]. apply andb_true_r.
          + rewrite (high_bits_of_small u B i) by lia. reflexivity. }
      assert (0 <= raw' < 2 ^ B) as Rr.
      { apply small_of_high_bits; try lia.
        - unfold raw'. apply Z.lor_nonneg. split; apply Z.land_nonneg; left; [lia|].
          unfold rawvalue, u64. apply Z.mod_pos_bound. lia.
        - intros i Hi. rewrite Bits by lia.
          assert (in_field i = false) as -> by (unfold in_field; lia).
          apply high_bits_of_small with (n := B); lia. }
      exists (write_raw (isize T) raw'). split; [reflexivity|]. split.
      + split; [apply write_raw_length|]. unfold write_raw. apply encode_le_bytes.
      + intros i Hi. rewrite read_unsigned_write by lia. fold B. rewrite Z.mod_small by lia. apply Bits. exact Hi.
  Qed.
End Write.

(* ------------------------------------------------------------------ the property, piece by piece *)

Theorem no_ub T w sh v data : placement T w sh -> unit_ok T data ->
  fst (bf_write T w sh v data) <> BUB /\ bf_read T w sh data <> BUB.
Proof.
  intros P U. split.
  - pose proof (write_exact T w sh v data P U) as H.
    destruct (acceptb (isigned T) w v).
    + destruct H as [d' [E _]]. rewrite E. discriminate.
    + rewrite H. discriminate.
  - rewrite (read_like_C T w sh data P U). discriminate.
Qed.

Theorem accept_iff T w sh v data : placement T w sh -> unit_ok T data ->
  (exists data', bf_write T w sh v data = (BOk tt, data')) <-> accepted (isigned T) w v.
Proof.
  intros P U. rewrite <- acceptb_spec by (destruct P; assumption).
  pose proof (write_exact T w sh v data P U) as H.
  destruct (acceptb (isigned T) w v).
  - split; [reflexivity|]. intros _. destruct H as [d' [E _]]. exists d'. exact E.
  - split; [|discriminate]. intros [d' E]. rewrite H in E. discriminate.
Qed.

Theorem reject_pure T w sh v data : placement T w sh -> unit_ok T data ->
  ~ accepted (isigned T) w v -> bf_write T w sh v data = (BErr OverflowError, data).
Proof.
  intros P U N. rewrite <- acceptb_spec in N by (destruct P; assumption).
  pose proof (write_exact T w sh v data P U) as H.
  destruct (acceptb (isigned T) w v); [exfalso; apply N; reflexivity|exact H].
Qed.

Theorem isolated T w sh v data data' : placement T w sh -> unit_ok T data ->
  bf_write T w sh v data = (BOk tt, data') ->
  unit_ok T data' /\
  forall i, 0 <= i -> ~ (sh <= i < sh + w) ->
    Z.testbit (read_raw_unsigned data') i = Z.testbit (read_raw_unsigned data) i.
Proof.
  intros P U E. pose proof (write_exact T w sh v data P U) as H.
  destruct (acceptb (isigned T) w v).
  - destruct H as [d' [E' [U' Bits]]]. rewrite E in E'. injection E' as <-.
    split; [exact U'|]. intros i Hi Out. rewrite Bits by exact Hi.
    assert (in_field w sh i = false) as -> by (unfold in_field; lia). reflexivity.
  - rewrite H in E. discriminate.
Qed.

Theorem roundtrip T w sh v data data' : placement T w sh -> unit_ok T data ->
  bf_write T w sh v data = (BOk tt, data') ->
  bf_read T w sh data' = BOk (if isigned T && (w =? 1) && (v =? 1) then -1 else v).
Proof.
  intros P U E. pose proof (write_exact T w sh v data P U) as H.
  destruct (acceptb (isigned T) w v) eqn:A; [|rewrite H in E; discriminate].
  destruct H as [d' [E' [U' Bits]]]. rewrite E in E'. injection E' as <-.
  rewrite (read_like_C T w sh data' P U'). f_equal.
  assert (1 <= w /\ 0 <= sh) as [Hw Hsh] by (destruct P; split; assumption).
  assert (field_bits w sh (read_raw_unsigned data') = v mod 2 ^ w) as F.
  { apply Z.bits_inj'. intros i Hi. rewrite testbit_field by lia.
    destruct (Z.ltb_spec i w).
    - rewrite Z.mod_pow2_bits_low by lia. cbn [andb]. rewrite Bits by lia.
      assert (in_field w sh (i + sh) = true) as -> by (unfold in_field; lia). f_equal. lia.
    - rewrite Z.mod_pow2_bits_high by lia. reflexivity. }
  unfold c_bitfield_value. rewrite F. clear F Bits.
  pose proof (pow2_pos w ltac:(lia)) as Pw0. pose proof (pow2_pos (w - 1) ltac:(lia)) as Ph0.
  pose proof (pow2_double w ltac:(lia)) as Dw.
  unfold acceptb, fmin, fmax', fmax in A.
  destruct (isigned T); cbn [andb] in *.
  - destruct (Z.eqb_spec w 1) as [->|N].
    + change (2 ^ (1 - 1)) with 1 in *. change (2 ^ 1) with 2 in *.
      assert (v = -1 \/ v = 0 \/ v = 1) as [-> | [-> | ->]] by lia; reflexivity.
    + cbn [andb].
      destruct (Z.leb_spec 0 v).
      * rewrite Z.mod_small by lia. destruct (Z.leb_spec (2 ^ (w - 1)) v); lia.
      * assert (v mod 2 ^ w = v + 2 ^ w) as ->.
        { symmetry. apply Z.mod_unique with (q := -1); lia. }
        destruct (Z.leb_spec (2 ^ (w - 1)) (v + 2 ^ w)); lia.
  - apply Z.mod_small. lia.
Qed.

(* ------------------------------------------------------------------ inside the enclosing object *)

Lemma bytes_ok_unit_at off size mem : bytes_ok mem -> bytes_ok (unit_at off size mem).
Proof.
  intros H. unfold unit_at, bytes_ok in *.
  rewrite <- (firstn_skipn off mem) in H. apply Forall_app in H. destruct H as [_ H].
  rewrite <- (firstn_skipn size (skipn off mem)) in H. apply Forall_app in H. tauto.
Qed.

Theorem isolated_object T w sh v off mem : placement T w sh ->
  (off + isize T <= List.length mem)%nat -> bytes_ok mem ->
  let r := bf_write_at T w sh v off mem in
  if acceptb (isigned T) w v then
    fst r = BOk tt /\
    List.length (snd r) = List.length mem /\
    (forall j d, (j < off \/ off + isize T <= j)%nat -> nth j (snd r) d = nth j mem d) /\
    (forall i, 0 <= i -> ~ (sh <= i < sh + w) ->
       Z.testbit (read_raw_unsigned (unit_at off (isize T) (snd r))) i =
       Z.testbit (read_raw_unsigned (unit_at off (isize T) mem)) i) /\
    bf_read_at T w sh off (snd r) = BOk (if isigned T && (w =? 1) && (v =? 1) then -1 else v)
  else r = (BErr OverflowError, mem).
Proof.
  intros P Hlen Hb. cbv zeta. unfold bf_write_at, bf_read_at.
  assert (unit_ok T (unit_at off (isize T) mem)) as U.
  { split; [apply unit_at_length; exact Hlen|apply bytes_ok_unit_at; exact Hb]. }
  pose proof (write_exact T w sh v _ P U) as H.
  destruct (acceptb (isigned T) w v) eqn:A.
  - destruct H as [d' [E [[L' B'] Bits]]]. rewrite E. cbn [fst snd].
    split; [reflexivity|]. split; [apply splice_length; lia|].
    split; [intros j d Hj; apply nth_splice_outside; lia|].
    assert (unit_at off (isize T) (splice off d' mem) = d') as ->
      by (rewrite <- L'; apply unit_at_splice; lia).
    split.
    + intros i Hi Out. rewrite Bits by exact Hi.
      assert (in_field w sh i = false) as -> by (unfold in_field; lia). reflexivity.
    + apply (roundtrip T w sh v _ d' P U E).
  - rewrite H. cbn. rewrite splice_same by exact Hlen. reflexivity.
Qed.

(* _Bool fields: C (and gcc) only allow width 1, where the range is {0, 1} *)
Corollary bool_field T sh v data : placement T 1 sh -> ibool T = true -> unit_ok T data ->
  (exists data', bf_write T 1 sh v data = (BOk tt, data')) <-> (v = 0 \/ v = 1).
Proof.
  intros P Hb U. rewrite (accept_iff T 1 sh v data P U).
  destruct P as [_ _ _ _ Pb]. destruct (Pb Hb) as [_ Sg]. rewrite Sg.
  unfold accepted, fmin, fmax. change (2 ^ 1 - 1) with 1.
  split; [intros [H|[H _]]; [lia|discriminate]|intros H; left; lia].
Qed.
