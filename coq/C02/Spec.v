(* C02 — what C reads from a bitfield, written independently of the cffi model: the field is
   the bits [sh, sh+w) of the little-endian storage unit u; an unsigned field is that bit
   string as a number, a signed field its two's complement reading (gcc).  Range of a field. *)
From Coq Require Import ZArith Bool.
Open Scope Z_scope.

Definition field_bits (w sh u : Z) : Z := (u / 2 ^ sh) mod 2 ^ w.

Definition c_bitfield_value (sg : bool) (w sh u : Z) : Z :=
  let x := field_bits w sh u in
  if sg && (2 ^ (w - 1) <=? x) then x - 2 ^ w else x.

Definition fmin (sg : bool) (w : Z) : Z := if sg then - 2 ^ (w - 1) else 0.
Definition fmax (sg : bool) (w : Z) : Z := if sg then 2 ^ (w - 1) - 1 else 2 ^ w - 1.

(* the values cffi accepts: the representable range, plus 1 for a signed 1-bit field *)
Definition accepted (sg : bool) (w v : Z) : Prop :=
  fmin sg w <= v <= fmax sg w \/ (sg = true /\ w = 1 /\ v = 1).
