(* C02 — Bitfield reads and writes are range-exact, round-trip and isolated.  Statements only.

   T: the field's integer ctype (unit size 1..8 bytes, signedness; _Bool is a 1-byte unsigned type),
   w = cf_bitsize, sh = cf_bitshift, `placement T w sh`: 1 <= w, 0 <= sh, sh + w <= 8 * size.
   data: the bytes of the storage unit (the only bytes the code reads or writes), v: ANY Python int.
   BUB = C undefined behaviour (shift count out of range, signed overflow).
   Spec (C02/Spec.v): the field is bits [sh, sh+w) of the little-endian unit; c_bitfield_value is
   their unsigned / two's complement reading; accepted = representable range, plus 1 for a signed
   1-bit field. *)
From Coq Require Import ZArith List Bool Lia.
From Cffi Require Import C03.Mem C03.Store C02.Spec C02.Model C02.Proofs C02.IR C02.Gen C02.Interp C02.GenProofs.
From Cffi Require Import C02.Proofs2 C02.Layout.
From Cffi Require C01.Spec C01.Model.
Import ListNotations.
Open Scope Z_scope.

(* no shift by >= 64, no signed overflow is ever evaluated — including full-width (64-bit) fields *)
Theorem C02_no_ub : forall T w sh v data, placement T w sh -> unit_ok T data ->
  fst (bf_write T w sh v data) <> BUB /\ bf_read T w sh data <> BUB.
Proof. exact no_ub. Qed.
Print Assumptions C02_no_ub.

(* assignment succeeds iff v is in the field's range (a signed 1-bit field also accepts 1) *)
Theorem C02_accept_iff : forall T w sh v data, placement T w sh -> unit_ok T data ->
  (exists data', bf_write T w sh v data = (BOk tt, data')) <-> accepted (isigned T) w v.
Proof. exact accept_iff. Qed.
Print Assumptions C02_accept_iff.

(* ... after which reading the field returns v (-1 for that signed 1-bit case) *)
Theorem C02_roundtrip : forall T w sh v data data', placement T w sh -> unit_ok T data ->
  bf_write T w sh v data = (BOk tt, data') ->
  bf_read T w sh data' = BOk (if isigned T && (w =? 1) && (v =? 1) then -1 else v).
Proof. exact roundtrip. Qed.
Print Assumptions C02_roundtrip.

(* ... and no other bit of the enclosing object has changed: the new unit has the same length
   (nothing outside the unit is written) and every bit outside [sh, sh+w) is the old bit *)
Theorem C02_isolated : forall T w sh v data data', placement T w sh -> unit_ok T data ->
  bf_write T w sh v data = (BOk tt, data') ->
  unit_ok T data' /\
  forall i, 0 <= i -> ~ (sh <= i < sh + w) ->
    Z.testbit (read_raw_unsigned data') i = Z.testbit (read_raw_unsigned data) i.
Proof. exact isolated. Qed.
Print Assumptions C02_isolated.

(* the same inside the enclosing object `mem` (any struct/union content around the unit, which
   sits at byte offset `off`): an accepted write keeps the object's length, every byte outside the
   unit and every bit of the unit outside [sh, sh+w), and reads back v; a rejected one returns
   the object unchanged *)
Theorem C02_isolated_object : forall T w sh v off mem, placement T w sh ->
  (off + isize T <= List.length mem)%nat -> bytes_ok mem ->
  let r := bf_write_at T w sh v off mem in
  if acceptb (isigned T) w v then
    fst r = BOk tt /\
    List.length (snd r) = List.length mem /\
    (forall j d, (j < off \/ off + isize T <= j)%nat -> nth j (snd r) d = nth j mem d) /\
    (forall i, 0 <= i -> ~ (sh <= i < sh + w) ->
       Z.testbit (read_raw_unsigned (unit_at off (isize T) (snd r))) i =
       Z.testbit (read_raw_unsigned (unit_at off (isize T) mem)) i) /\
    bf_read_at T w sh off (snd r) = BOk (if isigned T && (w =? 1) && (v =? 1) then -1 else v)
  else r = (BErr OverflowError, mem).
Proof. exact isolated_object. Qed.
Print Assumptions C02_isolated_object.

(* ---- isolation with respect to the OTHER fields of the object (absolute-bit view, C02/Proofs2.v).
   The object `mem` is one little-endian number; a field (T, w, sh) at byte offset `off` is its bits
   [8*off+sh, 8*off+sh+w), whatever the type and offset of the storage unit it is accessed through. *)
Theorem C02_read_abs : forall T w sh off mem, placement T w sh ->
  (off + isize T <= List.length mem)%nat -> bytes_ok mem ->
  bf_read_at T w sh off mem =
  BOk (c_bitfield_value (isigned T) w (8 * Z.of_nat off + sh) (decode_le mem)).
Proof. exact read_abs. Qed.
Print Assumptions C02_read_abs.

(* a write (any v, accepted or rejected) keeps the object's length and changes no bit of the object
   outside the field's absolute range *)
Theorem C02_write_frame_abs : forall T w sh v off mem, placement T w sh ->
  (off + isize T <= List.length mem)%nat -> bytes_ok mem ->
  let mem' := snd (bf_write_at T w sh v off mem) in
  List.length mem' = List.length mem /\ bytes_ok mem' /\
  forall j, 0 <= j -> ~ (8 * Z.of_nat off + sh <= j < 8 * Z.of_nat off + sh + w) ->
    Z.testbit (decode_le mem') j = Z.testbit (decode_le mem) j.
Proof. exact write_frame_abs. Qed.
Print Assumptions C02_write_frame_abs.

(* two bit-fields with disjoint absolute bit ranges — their storage units may have different types
   and offsets and overlap partially, e.g. `char a:3; int b:5` — : writing one never changes what
   is read through the other *)
Theorem C02_fields_noninterfere : forall T1 w1 sh1 off1 T2 w2 sh2 off2 v mem,
  placement T1 w1 sh1 -> placement T2 w2 sh2 ->
  (off1 + isize T1 <= List.length mem)%nat -> (off2 + isize T2 <= List.length mem)%nat ->
  bytes_ok mem ->
  (8 * Z.of_nat off1 + sh1 + w1 <= 8 * Z.of_nat off2 + sh2 \/
   8 * Z.of_nat off2 + sh2 + w2 <= 8 * Z.of_nat off1 + sh1) ->
  bf_read_at T2 w2 sh2 off2 (snd (bf_write_at T1 w1 sh1 v off1 mem)) = bf_read_at T2 w2 sh2 off2 mem.
Proof. exact fields_noninterfere. Qed.
Print Assumptions C02_fields_noninterfere.

(* ... nor the bytes [off2, off2+n2) of a neighbouring member that is not a bit-field *)
Theorem C02_field_write_keeps_bytes : forall T1 w1 sh1 off1 v mem off2 n2,
  placement T1 w1 sh1 -> (off1 + isize T1 <= List.length mem)%nat ->
  (off2 + n2 <= List.length mem)%nat -> bytes_ok mem ->
  (8 * Z.of_nat off1 + sh1 + w1 <= 8 * Z.of_nat off2 \/
   8 * Z.of_nat (off2 + n2) <= 8 * Z.of_nat off1 + sh1) ->
  unit_at off2 n2 (snd (bf_write_at T1 w1 sh1 v off1 mem)) = unit_at off2 n2 mem.
Proof. exact field_write_keeps_bytes. Qed.
Print Assumptions C02_field_write_keeps_bytes.

(* Composition with the layout function (C01 model of b_complete_struct_or_union): in ANY struct of
   C01's class without (anonymous) unions and with bit-field types of size <= alignment, for any two
   distinct entries c1, c2 of the field table the layout function emits (anonymous structs' fields
   included) with c1 a bit-field: the placement premises hold (C01_fields_within_object — the unit
   lies inside the object), and writing c1 (any v) changes neither what is read through c2 if c2 is
   a bit-field, nor the bytes of c2 otherwise.  `ity_for T c`: T is any integer ctype (either
   signedness) whose size is the size the layout function computed for c's declared type, <= 8. *)
Theorem C02_layout_fields_disjoint : forall t ti,
  C01.Spec.in_class t -> C01.Spec.bf_size_le_align t -> C01.Spec.union_free t ->
  C01.Model.cffi_layout t = C01.Model.Ok ti ->
  forall i j c1 c2, i <> j ->
  nth_error (C01.Model.ti_fields ti) i = Some c1 -> nth_error (C01.Model.ti_fields ti) j = Some c2 ->
  0 <= C01.Model.cf_bitsize c1 ->
  forall T1 v mem, ity_for T1 c1 -> C01.Model.ti_size ti <= Z.of_nat (List.length mem) -> bytes_ok mem ->
  let w1 := C01.Model.cf_bitsize c1 in let sh1 := C01.Model.cf_bitshift c1 in
  let off1 := Z.to_nat (C01.Model.cf_offset c1) in
  let w2 := C01.Model.cf_bitsize c2 in let sh2 := C01.Model.cf_bitshift c2 in
  let off2 := Z.to_nat (C01.Model.cf_offset c2) in
  let mem' := snd (bf_write_at T1 w1 sh1 v off1 mem) in
  placement T1 w1 sh1 /\ (off1 + isize T1 <= List.length mem)%nat /\
  (0 <= w2 -> forall T2, ity_for T2 c2 -> bf_read_at T2 w2 sh2 off2 mem' = bf_read_at T2 w2 sh2 off2 mem) /\
  (w2 < 0 -> unit_at off2 (Z.to_nat (C01.Model.size_of (C01.Model.cf_type c2))) mem' =
             unit_at off2 (Z.to_nat (C01.Model.size_of (C01.Model.cf_type c2))) mem).
Proof. exact layout_fields_disjoint. Qed.
Print Assumptions C02_layout_fields_disjoint.

(* acceptb is the boolean form of `accepted` *)
Theorem C02_acceptb_spec : forall sg w v, 1 <= w -> acceptb sg w v = true <-> accepted sg w v.
Proof. exact acceptb_spec. Qed.
Print Assumptions C02_acceptb_spec.

(* _Bool fields.  C and gcc only admit width 1 ("width exceeds its type" otherwise), so the
   property's class contains `_Bool x:1` only; there the accepted values are exactly {0, 1}.
   (cffi's cdef also accepts `_Bool x:3`, which no C compiler does; the code then treats it as a
   3-bit unsigned field, which is what the general theorems say about it.) *)
Theorem C02_bool_field : forall T sh v data, placement T 1 sh -> ibool T = true -> unit_ok T data ->
  (exists data', bf_write T 1 sh v data = (BOk tt, data')) <-> (v = 0 \/ v = 1).
Proof. exact bool_field. Qed.
Print Assumptions C02_bool_field.

(* an out-of-range v raises OverflowError and changes nothing *)
Theorem C02_reject_pure : forall T w sh v data, placement T w sh -> unit_ok T data ->
  ~ accepted (isigned T) w v -> bf_write T w sh v data = (BErr OverflowError, data).
Proof. exact reject_pure. Qed.
Print Assumptions C02_reject_pure.

(* the value read is the value C reads from the same storage: c_bitfield_value (C02/Spec.v) is the
   two's-complement reading of bits [sh, sh+w) of the little-endian unit, i.e. gcc's x86-64
   convention written down independently of the model; that gcc really reads this value is
   checked on every run against a gcc-compiled accessor (no C semantics is available in Coq here) *)
Theorem C02_reads_like_C : forall T w sh data, placement T w sh -> unit_ok T data ->
  bf_read T w sh data = BOk (c_bitfield_value (isigned T) w sh (read_raw_unsigned data)).
Proof. exact read_like_C. Qed.
Print Assumptions C02_reads_like_C.

(* the source's own expressions (regenerated into C02/Gen.v), run by the C-expression evaluator
   inside the code's control skeleton (including the regenerated way `value` is obtained from
   the Python object: PyLong_AsLongLong + error check), compute exactly the model — on every placement, every unit
   content and every v; so all theorems above hold of them, in particular no UB *)
Theorem C02_gen_read_refines : forall T w sh data, placement T w sh -> unit_ok T data ->
  gen_read T w sh data = bf_read T w sh data.
Proof. exact gen_read_refines. Qed.
Print Assumptions C02_gen_read_refines.

Theorem C02_gen_write_refines : forall T w sh data, placement T w sh -> unit_ok T data ->
  forall v, gen_write T w sh v data = bf_write T w sh v data.
Proof. exact gen_write_refines. Qed.
Print Assumptions C02_gen_write_refines.

(* non-vacuity: placements exist (incl. the full 64-bit width), both outcomes occur, and the
   documented exception is real *)
Example C02_ex_placement : placement (mk_ity 8 true false) 64 0 /\ placement (mk_ity 4 false false) 5 27 /\
                           placement (mk_ity 1 false true) 1 7 /\ unit_ok (mk_ity 2 true false) [170; 85].
Proof.
  repeat split; cbn; try lia; try discriminate; try (intros; discriminate);
    repeat constructor; lia.
Qed.
Example C02_ex_width64 : bf_write (mk_ity 8 true false) 64 0 5 (repeat 255 8) = (BOk tt, [5; 0; 0; 0; 0; 0; 0; 0]) /\
                         bf_read (mk_ity 8 true false) 64 0 [5; 0; 0; 0; 0; 0; 0; 0] = BOk 5 /\
                         bf_write (mk_ity 8 false false) 64 0 5 (repeat 0 8) = (BOk tt, [5; 0; 0; 0; 0; 0; 0; 0]) /\
                         fst (bf_write (mk_ity 8 false false) 64 0 (2 ^ 64) (repeat 0 8)) = BErr OverflowError.
Proof. vm_compute. repeat split. Qed.
Example C02_ex_signed1 : bf_write (mk_ity 4 true false) 1 3 1 [0; 0; 0; 0] = (BOk tt, [8; 0; 0; 0]) /\
                         bf_read (mk_ity 4 true false) 1 3 [8; 0; 0; 0] = BOk (-1) /\
                         fst (bf_write (mk_ity 4 true false) 1 3 2 [0; 0; 0; 0]) = BErr OverflowError.
Proof. vm_compute. repeat split. Qed.
Example C02_ex_gen : gen_write (mk_ity 2 false false) 5 9 21 [255; 255] = (BOk tt, [255; 235]) /\
                     gen_read (mk_ity 2 false false) 5 9 [255; 235] = BOk 21.
Proof. vm_compute. repeat split. Qed.

(* `struct { char a:3; int b:5; }` (gcc: a = bits 0..2 via a 1-byte unit, b = bits 3..7 via a 4-byte
   unit at the same offset): the hypotheses of C02_fields_noninterfere hold, and writing a = -3 into
   an all-ones object leaves b's reading -1 while a reads -3 *)
Example C02_ex_two_units :
  let Tc := mk_ity 1 true false in let Ti := mk_ity 4 true false in
  placement Tc 3 0 /\ placement Ti 5 3 /\
  snd (bf_write_at Tc 3 0 (-3) 0 [255; 255; 255; 255]) = [253; 255; 255; 255] /\
  bf_read_at Ti 5 3 0 [253; 255; 255; 255] = BOk (-1) /\ bf_read_at Tc 3 0 0 [253; 255; 255; 255] = BOk (-3).
Proof.
  cbv zeta. split; [|split]; [constructor; cbn; try lia; discriminate ..|]. vm_compute. repeat split.
Qed.
