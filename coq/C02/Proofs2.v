(* C02 — the absolute-bit view: the enclosing object `mem` is one little-endian number
   decode_le mem; a bit-field (T, w, sh) whose storage unit sits at byte offset `off` is the bits
   [8*off + sh, 8*off + sh + w) of that number, whatever the unit type.  A write changes no other
   bit of the object (write_frame_abs), so it cannot change what is read through ANY other field
   whose absolute bit range is disjoint — also when the two fields use storage units of
   different types and offsets that overlap partially (`char a:3; int b:5`). *)
From Coq Require Import ZArith Znumtheory List Bool Lia ZifyBool.
From Cffi Require Import C03.Mem C03.MemProofs C03.Store C03.StoreProofs C02.Spec C02.Model C02.Proofs.
Import ListNotations.
Open Scope Z_scope.

Local Ltac Zify.zify_post_hook ::= Z.to_euclidean_division_equations.

Lemma nth_nil_Z k : nth k (@nil Z) 0 = 0.
Proof. destruct k; reflexivity. Qed.

(* bit i of a little-endian byte string is bit (i mod 8) of byte (i / 8) *)
Lemma testbit_decode_nth l : bytes_ok l -> forall i, 0 <= i ->
  Z.testbit (decode_le l) i = Z.testbit (nth (Z.to_nat (i / 8)) l 0) (i mod 8).
Proof.
  induction 1 as [|b r Hb Hr IH]; intros i Hi.
  - cbn [decode_le]. rewrite nth_nil_Z, !Z.bits_0. reflexivity.
  - cbn [decode_le]. destruct (Z.ltb_spec i 8).
    + assert (i / 8 = 0) as -> by (apply Z.div_small; lia). rewrite Z.mod_small by lia. cbn [Z.to_nat nth].
      rewrite <- (Z.mod_pow2_bits_low (b + 256 * decode_le r) 8 i) by lia.
      f_equal. change (2 ^ 8) with 256.
      replace (b + 256 * decode_le r) with (b + decode_le r * 256) by lia.
      rewrite Z_mod_plus_full. apply Z.mod_small; lia.
    + assert (E1 : i / 8 = (i - 8) / 8 + 1) by lia.
      assert (E2 : i mod 8 = (i - 8) mod 8) by lia.
      assert (0 <= (i - 8) / 8) by lia.
      rewrite E1, E2. rewrite Z2Nat.inj_add by lia. change (Z.to_nat 1) with 1%nat.
      rewrite Nat.add_1_r. cbn [nth].
      rewrite <- IH by lia.
      replace i with ((i - 8) + 8) at 1 by lia. rewrite <- Z.div_pow2_bits by lia. f_equal.
      change (2 ^ 8) with 256.
      replace (b + 256 * decode_le r) with (decode_le r * 256 + b) by lia.
      rewrite Z.div_add_l by lia. rewrite (Z.div_small b 256) by lia. lia.
Qed.

Lemma nth_unit_at off n mem k d : (k < n)%nat -> (off + n <= List.length mem)%nat ->
  nth k (unit_at off n mem) d = nth (off + k) mem d.
Proof.
  intros Hk Hlen. unfold unit_at.
  assert (L1 : List.length (firstn n (skipn off mem)) = n) by (rewrite firstn_length, skipn_length; lia).
  transitivity (nth k (firstn n (skipn off mem) ++ skipn n (skipn off mem)) d).
  - rewrite app_nth1 by lia. reflexivity.
  - rewrite firstn_skipn.
    transitivity (nth (off + k) (firstn off mem ++ skipn off mem) d); [|rewrite firstn_skipn; reflexivity].
    assert (L2 : List.length (firstn off mem) = off) by (rewrite firstn_length; lia).
    rewrite app_nth2 by lia. rewrite L2. f_equal. lia.
Qed.

(* the bits of a unit are the bits of the object, 8*off further *)
Lemma unit_bits off n mem i : bytes_ok mem -> (off + n <= List.length mem)%nat ->
  0 <= i < 8 * Z.of_nat n ->
  Z.testbit (decode_le (unit_at off n mem)) i = Z.testbit (decode_le mem) (8 * Z.of_nat off + i).
Proof.
  intros Hb Hlen Hi.
  rewrite (testbit_decode_nth _ (bytes_ok_unit_at off n mem Hb)) by lia.
  rewrite (testbit_decode_nth _ Hb) by lia.
  assert (E1 : (8 * Z.of_nat off + i) / 8 = Z.of_nat off + i / 8) by lia.
  assert (E2 : (8 * Z.of_nat off + i) mod 8 = i mod 8) by lia.
  assert (0 <= i / 8) by lia.
  rewrite E1, E2, Z2Nat.inj_add, Nat2Z.id by lia.
  rewrite nth_unit_at; [reflexivity| |exact Hlen]. lia.
Qed.

Lemma bytes_ok_splice off new mem : bytes_ok mem -> bytes_ok new -> bytes_ok (splice off new mem).
Proof.
  intros Hm Hn. unfold splice, bytes_ok in *. apply Forall_app. split; [|apply Forall_app; split; auto].
  - rewrite <- (firstn_skipn off mem) in Hm. apply Forall_app in Hm. tauto.
  - rewrite <- (firstn_skipn (off + List.length new) mem) in Hm. apply Forall_app in Hm. tauto.
Qed.

(* memcpy of a unit: the object's bits are the new unit's inside its byte range, the old ones outside *)
Lemma splice_bits off new mem j : bytes_ok mem -> bytes_ok new ->
  (off + List.length new <= List.length mem)%nat -> 0 <= j ->
  Z.testbit (decode_le (splice off new mem)) j =
  if (8 * Z.of_nat off <=? j) && (j <? 8 * Z.of_nat (off + List.length new))
  then Z.testbit (decode_le new) (j - 8 * Z.of_nat off) else Z.testbit (decode_le mem) j.
Proof.
  intros Hm Hn Hlen Hj.
  pose proof (bytes_ok_splice off new mem Hm Hn) as Hs.
  destruct ((8 * Z.of_nat off <=? j) && (j <? 8 * Z.of_nat (off + List.length new))) eqn:E.
  - rewrite <- (unit_at_splice off new mem Hlen) at 2.
    rewrite unit_bits; [f_equal; lia|exact Hs|rewrite splice_length; lia|lia].
  - rewrite (testbit_decode_nth _ Hs), (testbit_decode_nth _ Hm) by lia.
    rewrite nth_splice_outside; [reflexivity|exact Hlen|]. lia.
Qed.

Lemma field_bits_ext w sh sh' a b : 0 <= w -> 0 <= sh -> 0 <= sh' ->
  (forall i, 0 <= i < w -> Z.testbit a (i + sh) = Z.testbit b (i + sh')) ->
  field_bits w sh a = field_bits w sh' b.
Proof.
  intros Hw Hsh Hsh' H. apply Z.bits_inj'. intros i Hi. rewrite !testbit_field by lia.
  destruct (Z.ltb_spec i w); [|reflexivity]. cbn [andb]. apply H. lia.
Qed.

(* reading a field = reading bits [8*off+sh, +w) of the whole object *)
Theorem read_abs T w sh off mem : placement T w sh ->
  (off + isize T <= List.length mem)%nat -> bytes_ok mem ->
  bf_read_at T w sh off mem =
  BOk (c_bitfield_value (isigned T) w (8 * Z.of_nat off + sh) (decode_le mem)).
Proof.
  intros P Hlen Hb. unfold bf_read_at.
  assert (unit_ok T (unit_at off (isize T) mem)) as U
    by (split; [apply unit_at_length; exact Hlen|apply bytes_ok_unit_at; exact Hb]).
  rewrite (read_like_C T w sh _ P U). f_equal. unfold c_bitfield_value, read_raw_unsigned.
  destruct P as [Hs Hw Hsh Hfit _].
  rewrite (field_bits_ext w sh (8 * Z.of_nat off + sh) (decode_le (unit_at off (isize T) mem)) (decode_le mem));
    [reflexivity|lia|lia|lia|].
  intros i Hi. rewrite unit_bits by (auto; lia). f_equal. lia.
Qed.

(* a bit-field write, seen on the whole object: same length, bytes stay bytes, and every bit of the
   object outside the field's absolute range [8*off+sh, 8*off+sh+w) is unchanged (accepted or not) *)
Theorem write_frame_abs T w sh v off mem : placement T w sh ->
  (off + isize T <= List.length mem)%nat -> bytes_ok mem ->
  let mem' := snd (bf_write_at T w sh v off mem) in
  List.length mem' = List.length mem /\ bytes_ok mem' /\
  forall j, 0 <= j -> ~ (8 * Z.of_nat off + sh <= j < 8 * Z.of_nat off + sh + w) ->
    Z.testbit (decode_le mem') j = Z.testbit (decode_le mem) j.
Proof.
  intros P Hlen Hb. cbv zeta. unfold bf_write_at.
  assert (unit_ok T (unit_at off (isize T) mem)) as U
    by (split; [apply unit_at_length; exact Hlen|apply bytes_ok_unit_at; exact Hb]).
  pose proof (write_exact T w sh v _ P U) as H.
  destruct (acceptb (isigned T) w v).
  - destruct H as [d' [E [[L' B'] Bits]]]. rewrite E. cbn [snd].
    split; [apply splice_length; lia|]. split; [apply bytes_ok_splice; auto|].
    intros j Hj Out. rewrite splice_bits by (auto; lia). rewrite L'.
    destruct ((8 * Z.of_nat off <=? j) && (j <? 8 * Z.of_nat (off + isize T))) eqn:Ein; [|reflexivity].
    unfold read_raw_unsigned in Bits. rewrite Bits by lia.
    assert (in_field w sh (j - 8 * Z.of_nat off) = false) as -> by (unfold in_field; lia).
    rewrite unit_bits by (auto; lia). f_equal. lia.
  - rewrite H. cbn [snd]. rewrite splice_same by exact Hlen. auto.
Qed.

(* two bit-fields with disjoint absolute ranges: writing the first (any v, accepted or rejected)
   does not change what is read through the second *)
Theorem fields_noninterfere T1 w1 sh1 off1 T2 w2 sh2 off2 v mem :
  placement T1 w1 sh1 -> placement T2 w2 sh2 ->
  (off1 + isize T1 <= List.length mem)%nat -> (off2 + isize T2 <= List.length mem)%nat ->
  bytes_ok mem ->
  (8 * Z.of_nat off1 + sh1 + w1 <= 8 * Z.of_nat off2 + sh2 \/
   8 * Z.of_nat off2 + sh2 + w2 <= 8 * Z.of_nat off1 + sh1) ->
  bf_read_at T2 w2 sh2 off2 (snd (bf_write_at T1 w1 sh1 v off1 mem)) = bf_read_at T2 w2 sh2 off2 mem.
Proof.
  intros P1 P2 L1 L2 Hb Hd.
  destruct (write_frame_abs T1 w1 sh1 v off1 mem P1 L1 Hb) as (Hl & Hb' & Hfr).
  rewrite !read_abs by (auto; lia). f_equal. unfold c_bitfield_value.
  destruct P2 as [_ Hw2 Hsh2 _ _].
  rewrite (field_bits_ext w2 (8 * Z.of_nat off2 + sh2) (8 * Z.of_nat off2 + sh2)
             (decode_le (snd (bf_write_at T1 w1 sh1 v off1 mem))) (decode_le mem));
    [reflexivity|lia|lia|lia|].
  intros i Hi. apply Hfr; lia.
Qed.

(* ... nor the bytes of a neighbouring non-bit-field member occupying [off2, off2+n2) *)
Theorem field_write_keeps_bytes T1 w1 sh1 off1 v mem off2 n2 :
  placement T1 w1 sh1 -> (off1 + isize T1 <= List.length mem)%nat ->
  (off2 + n2 <= List.length mem)%nat -> bytes_ok mem ->
  (8 * Z.of_nat off1 + sh1 + w1 <= 8 * Z.of_nat off2 \/
   8 * Z.of_nat (off2 + n2) <= 8 * Z.of_nat off1 + sh1) ->
  unit_at off2 n2 (snd (bf_write_at T1 w1 sh1 v off1 mem)) = unit_at off2 n2 mem.
Proof.
  intros P1 L1 L2 Hb Hd.
  destruct (write_frame_abs T1 w1 sh1 v off1 mem P1 L1 Hb) as (Hl & Hb' & Hfr).
  set (mem' := snd (bf_write_at T1 w1 sh1 v off1 mem)) in *.
  apply (nth_ext _ _ 0 0); [rewrite !unit_at_length by lia; reflexivity|].
  intros k Hk. rewrite unit_at_length in Hk by lia.
  rewrite !nth_unit_at by lia.
  assert (Hbyte : forall l, bytes_ok l -> 0 <= nth (off2 + k) l 0 < 256).
  { intros l Hl0. destruct (Nat.lt_ge_cases (off2 + k) (List.length l)).
    - unfold bytes_ok in Hl0. rewrite Forall_forall in Hl0. apply Hl0. apply nth_In. lia.
    - rewrite nth_overflow by lia. lia. }
  apply Z.bits_inj'. intros i Hi.
  destruct (Z.ltb_spec i 8).
  - pose proof (testbit_decode_nth _ Hb' (8 * Z.of_nat (off2 + k) + i) ltac:(lia)) as E1.
    pose proof (testbit_decode_nth _ Hb (8 * Z.of_nat (off2 + k) + i) ltac:(lia)) as E2.
    assert (Eq : (8 * Z.of_nat (off2 + k) + i) / 8 = Z.of_nat (off2 + k)) by lia.
    assert (Em : (8 * Z.of_nat (off2 + k) + i) mod 8 = i) by lia.
    rewrite Eq, Em, Nat2Z.id in E1, E2. rewrite <- E1, <- E2. apply Hfr; lia.
  - pose proof (Hbyte mem' Hb'). pose proof (Hbyte mem Hb).
    rewrite !(high_bits_of_small _ 8 i) by (change (2 ^ 8) with 256; lia). reflexivity.
Qed.
