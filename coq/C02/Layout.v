(* C02 x C01 — the bit-fields of a struct laid out by cffi's layout function (C01 model) do not
   interfere.  C01_fields_within_object discharges `placement` and `off + isize T <= length mem`;
   C01_fields_disjoint gives the disjoint absolute bit ranges; C02's fields_noninterfere does the
   rest.  C01's declaration syntax abstracts an integer type as (size, alignment): the theorem
   quantifies over every `ity` of that size (any signedness). *)
From Coq Require Import ZArith List Bool Lia.
From Cffi Require Import C03.Mem C03.MemProofs C03.Store C02.Spec C02.Model C02.Proofs C02.Proofs2.
From Cffi Require Import C01.Spec C01.Model C01.Proofs C01.Proofs2.
Import ListNotations.
Open Scope Z_scope.

Lemma ordpairs_nth (A : Type) (R : A -> A -> Prop) l : ForallOrdPairs R l ->
  forall i j a b, (i < j)%nat -> nth_error l i = Some a -> nth_error l j = Some b -> R a b.
Proof.
  induction 1 as [|x l Hx Hl IH]; intros i j a b Hij Ha Hb.
  - destruct i; discriminate.
  - destruct j as [|j]; [exfalso; lia|]. cbn [nth_error] in Hb. destruct i as [|i].
    + cbn in Ha. injection Ha as <-. rewrite Forall_forall in Hx. apply Hx. eapply nth_error_In; eauto.
    + cbn [nth_error] in Ha. apply (IH i j a b); auto. lia.
Qed.

(* an integer ctype usable for field c: its size is the size the layout function gave the field's
   declared type, at most 8 bytes; _Bool is a 1-byte unsigned type *)
Definition ity_for (T : ity) (c : cfield) : Prop :=
  Z.of_nat (isize T) = size_of (cf_type c) /\ (isize T <= 8)%nat /\
  (ibool T = true -> isize T = 1%nat /\ isigned T = false).

Lemma within_placement size T c (mem : list Z) : field_within size c -> 0 <= cf_bitsize c -> ity_for T c ->
  size <= Z.of_nat (List.length mem) ->
  placement T (cf_bitsize c) (cf_bitshift c) /\
  (Z.to_nat (cf_offset c) + isize T <= List.length mem)%nat /\
  Z.of_nat (Z.to_nat (cf_offset c)) = cf_offset c.
Proof.
  intros (H0 & H1 & Hb) Hbf (Es & H8 & Hbool) Hlen. destruct (Hb Hbf) as (Hw & Hsh & Hfit & _).
  split; [constructor; auto; lia|]. split; lia.
Qed.

Theorem layout_fields_disjoint t ti : in_class t -> bf_size_le_align t -> union_free t ->
  cffi_layout t = Ok ti ->
  forall i j c1 c2, i <> j -> nth_error (ti_fields ti) i = Some c1 -> nth_error (ti_fields ti) j = Some c2 ->
  0 <= cf_bitsize c1 ->
  forall T1 v mem, ity_for T1 c1 -> ti_size ti <= Z.of_nat (List.length mem) -> bytes_ok mem ->
  let mem' := snd (bf_write_at T1 (cf_bitsize c1) (cf_bitshift c1) v (Z.to_nat (cf_offset c1)) mem) in
  placement T1 (cf_bitsize c1) (cf_bitshift c1) /\
  (Z.to_nat (cf_offset c1) + isize T1 <= List.length mem)%nat /\
  (0 <= cf_bitsize c2 -> forall T2, ity_for T2 c2 ->
     bf_read_at T2 (cf_bitsize c2) (cf_bitshift c2) (Z.to_nat (cf_offset c2)) mem' =
     bf_read_at T2 (cf_bitsize c2) (cf_bitshift c2) (Z.to_nat (cf_offset c2)) mem) /\
  (cf_bitsize c2 < 0 ->
     unit_at (Z.to_nat (cf_offset c2)) (Z.to_nat (size_of (cf_type c2))) mem' =
     unit_at (Z.to_nat (cf_offset c2)) (Z.to_nat (size_of (cf_type c2))) mem).
Proof.
  intros Hc Ha Hu E i j c1 c2 Hij N1 N2 Hbf1 T1 v mem HT1 Hlen Hb. cbv zeta.
  pose proof (proj1 (layout_within t Hc ti E) Ha) as Hw. rewrite Forall_forall in Hw.
  pose proof (chain_pairs _ _ _ (proj2 (layout_within t Hc ti E) Hu)) as Hp.
  pose proof (Hw c1 (nth_error_In _ _ N1)) as W1. pose proof (Hw c2 (nth_error_In _ _ N2)) as W2.
  destruct (within_placement _ T1 c1 mem W1 Hbf1 HT1 Hlen) as (P1 & L1 & O1).
  assert (Hd : fend c1 <= fstart c2 \/ fend c2 <= fstart c1).
  { destruct (Nat.lt_ge_cases i j) as [Hlt|Hge].
    - left. eapply (ordpairs_nth _ _ _ Hp i j); eauto.
    - right. eapply (ordpairs_nth _ _ _ Hp j i); eauto. lia. }
  assert (B1 : is_bf c1 = true) by (unfold is_bf; lia).
  unfold fstart, fend in Hd. rewrite B1 in Hd.
  split; [exact P1|]. split; [exact L1|]. split.
  - intros Hbf2 T2 HT2.
    destruct (within_placement _ T2 c2 mem W2 Hbf2 HT2 Hlen) as (P2 & L2 & O2).
    assert (B2 : is_bf c2 = true) by (unfold is_bf; lia). rewrite B2 in Hd.
    apply fields_noninterfere; auto. rewrite O1, O2. lia.
  - intros Hn2. assert (B2 : is_bf c2 = false) by (unfold is_bf; lia). rewrite B2 in Hd.
    destruct W2 as (H20 & H21 & _). pose proof (size_of_nonneg (cf_type c2)).
    apply field_write_keeps_bytes; auto; try lia.
Qed.
