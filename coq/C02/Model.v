(* C02 — model of bitfield reads and writes.

   Hand-transcribed from src/c/_cffi_backend.c (at the commit that contains
   "fix: 64-bit-wide bitfields were mis-read and mis-checked"):
     convert_to_object_bitfield   (:1184)   -> bf_read
     convert_from_object_bitfield (:1815)   -> bf_write
   with 64-bit machine arithmetic explicit and every shift / signed operation guarded:
   BUB = C undefined behaviour (shift count >= 64 or negative, signed overflow).
   A field as wide as long long (cf_bitsize >= 64) is delegated to convert_to_object /
   convert_from_object (the plain integer paths, C03/Store.v).
   `data` is exactly the ct_size bytes of the storage unit (the only bytes the code touches:
   read_raw_*_data(data, ct_size), write_raw_integer_data(data, _, ct_size)).
   The mask/shift/range expressions are also regenerated from the source text (C02/Gen.v) and
   shown equal to the ones used here (C02/GenProofs.v). *)
From Coq Require Import ZArith List Bool.
From Cffi Require Import C03.Mem C03.Store.
Import ListNotations.
Open Scope Z_scope.

Inductive bres (A : Type) := BOk (a : A) | BErr (e : exc) | BUB.
Arguments BOk {A} a.
Arguments BErr {A} e.
Arguments BUB {A}.

(* ---- unsigned long long / long long arithmetic *)
Definition u64 (z : Z) : Z := z mod 2 ^ 64.                       (* conversion to unsigned long long *)
Definition s64 (z : Z) : Z := (z + 2 ^ 63) mod 2 ^ 64 - 2 ^ 63.   (* conversion to long long (gcc) *)
Definition count_ok (k : Z) : bool := (0 <=? k) && (k <? 64).
Definition shl_u64 (x k : Z) : option Z := if count_ok k then Some (u64 (x * 2 ^ k)) else None.
Definition shr_u64 (x k : Z) : option Z := if count_ok k then Some (Z.shiftr x k) else None.
(* E1 << E2 on long long: undefined unless E1 >= 0 and E1 * 2^E2 is representable *)
Definition shl_s64 (x k : Z) : option Z :=
  if count_ok k && (0 <=? x) && (x * 2 ^ k <? 2 ^ 63) then Some (x * 2 ^ k) else None.
(* signed + - unary-: undefined on overflow *)
Definition arith_s64 (z : Z) : option Z := if (- 2 ^ 63 <=? z) && (z <? 2 ^ 63) then Some z else None.

(* ---- convert_to_object_bitfield *)
Definition bf_read (T : ity) (w sh : Z) (data : list Z) : bres Z :=
  if 64 <=? w then BOk (read_int T data)                          (* return convert_to_object(data, ct) *)
  else if isigned T then
    let value := u64 (read_raw_signed data) in
    match shl_u64 1 w, shl_u64 1 (w - 1), shr_u64 value sh with
    | Some p, Some shiftforsign, Some shifted =>
        let valuemask := u64 (p - 1) in
        let value := Z.land (u64 (shifted + shiftforsign)) valuemask in
        match arith_s64 (s64 value - s64 shiftforsign) with
        | Some result => BOk result
        | None => BUB
        end
    | _, _, _ => BUB
    end
  else
    let value := read_raw_unsigned data in
    match shl_u64 1 w, shr_u64 value sh with
    | Some p, Some shifted => BOk (Z.land shifted (u64 (p - 1)))
    | _, _ => BUB
    end.

(* fmin / fmax as the code computes them *)
Definition bf_bounds (sg : bool) (w : Z) : option (Z * Z) :=
  if sg then
    match shl_s64 1 (w - 1) with
    | Some p =>
        match arith_s64 (- p), arith_s64 (p - 1) with
        | Some fmin, Some fmax => Some (fmin, if fmax =? 0 then 1 else fmax)
        | _, _ => None
        end
    | None => None
    end
  else
    match shl_u64 1 w with
    | Some p => Some (0, s64 (u64 (p - 1)))
    | None => None
    end.

Definition lift_res (r : res unit * list Z) : bres unit * list Z :=
  match r with
  | (Ok _, d) => (BOk tt, d)
  | (Err e, d) => (BErr e, d)
  | (UB, d) => (BUB, d)
  end.

(* ---- convert_from_object_bitfield: result and new content of the unit *)
Definition bf_write (T : ity) (w sh : Z) (v : Z) (data : list Z) : bres unit * list Z :=
  if 64 <=? w then lift_res (convert_from_object_int T v data)    (* return convert_from_object(data, ct, init) *)
  else
    match as_longlong v with                                      (* PyLong_AsLongLong(init) *)
    | Err e => (BErr e, data)
    | UB => (BUB, data)
    | Ok value =>
        match bf_bounds (isigned T) w with
        | None => (BUB, data)
        | Some (fmin, fmax) =>
            if (value <? fmin) || (fmax <? value) then (BErr OverflowError, data)
            else
              match shl_u64 1 w with
              | Some p =>
                  match shl_u64 (u64 (p - 1)) sh, shl_u64 (u64 value) sh with
                  | Some rawmask, Some rawvalue =>
                      let raw := read_raw_unsigned data in
                      let raw' := Z.lor (Z.land raw (u64 (Z.lnot rawmask))) (Z.land rawvalue rawmask) in
                      (BOk tt, write_raw (isize T) raw')
                  | _, _ => (BUB, data)
                  end
              | None => (BUB, data)
              end
        end
    end.

(* ---- the write inside the enclosing object: the unit is ct_size bytes at byte offset `off`
        (cf_offset) of `mem`; only read_raw_unsigned_data(data, ct_size) and
        write_raw_integer_data(data, _, ct_size) touch memory *)
Definition bf_write_at (T : ity) (w sh v : Z) (off : nat) (mem : list Z) : bres unit * list Z :=
  match bf_write T w sh v (unit_at off (isize T) mem) with
  | (r, d) => (r, splice off d mem)
  end.
Definition bf_read_at (T : ity) (w sh : Z) (off : nat) (mem : list Z) : bres Z :=
  bf_read T w sh (unit_at off (isize T) mem).

(* ---- for the correspondence run (tools/props/c02.py): unit contents as little-endian numbers;
        status 0 ok, 1 OverflowError, 2 TypeError, 99 UB *)
Definition bres_code {A} (r : bres A) : Z :=
  match r with BOk _ => 0 | BErr OverflowError => 1 | BErr TypeError => 2 | BUB => 99 end.
Definition write_obs (size : Z) (sg bl : bool) (w sh v old : Z) : Z * Z :=
  match bf_write (mk_ity (Z.to_nat size) sg bl) w sh v (encode_le (Z.to_nat size) old) with
  | (r, d) => (bres_code r, decode_le d)
  end.
Definition read_obs (size : Z) (sg bl : bool) (w sh old : Z) : Z * Z :=
  match bf_read (mk_ity (Z.to_nat size) sg bl) w sh (encode_le (Z.to_nat size) old) with
  | BOk x => (0, x)
  | r => (bres_code r, 0)
  end.
