(* C02 — the regenerated expressions (C02/Gen.v), evaluated with C semantics by C03/CExpr.v,
   compute exactly what the hand model C02/Model.v computes, on every placement. *)
From Coq Require Import ZArith Znumtheory List Bool Lia ZifyBool String.
From Cffi Require Import C03.CExpr C03.CExprFacts C03.Mem C03.MemProofs C03.Store C03.StoreProofs.
From Cffi Require Import C02.Spec C02.Model C02.Proofs C02.Gen C02.Interp.
Import ListNotations.
Open Scope string_scope.
Open Scope Z_scope.

(* ------------------------------------------------------------------ evaluator steps *)

Lemma ceval_var rho x t z : rho x = Some (t, z) -> fits t z = true -> ceval rho (EVar x) = Some (t, z).
Proof. intros H F. cbn [ceval]. rewrite H, F. reflexivity. Qed.

Lemma ceval_lit rho t z : fits t z = true -> ceval rho (ELit t z) = Some (t, z).
Proof. intros F. cbn [ceval]. rewrite F. reflexivity. Qed.

Definition strict_op (o : binop) : Prop := match o with BLAnd | BLOr => False | _ => True end.

Lemma ceval_bin rho o a b ta za tb zb : strict_op o ->
  ceval rho a = Some (ta, za) -> ceval rho b = Some (tb, zb) ->
  ceval rho (EBin o a b) = eval_bin o ta za tb zb.
Proof. intros S A B. destruct o; try contradiction; cbn [ceval]; rewrite A, B; reflexivity. Qed.

Lemma ceval_cast rho t e t0 z : ceval rho e = Some (t0, z) -> ceval rho (ECast t e) = Some (t, conv t z).
Proof. intros E. cbn [ceval]. rewrite E. reflexivity. Qed.

Lemma ceval_not rho e t z : ceval rho e = Some (t, z) -> ceval rho (EUn UNot e) = Some (t, conv t (Z.lnot z)).
Proof. intros E. cbn [ceval]. rewrite E. reflexivity. Qed.

Lemma ceval_neg rho e t z : ceval rho e = Some (t, z) -> ceval rho (EUn UNeg e) = arith t (- z).
Proof. intros E. cbn [ceval]. rewrite E. reflexivity. Qed.

Lemma fits_ull z : fits TULL z = true <-> 0 <= z < 2 ^ 64.
Proof. unfold fits, tmin, tmax; cbn [is_signed bits]. lia. Qed.
Lemma fits_ll z : fits TLL z = true <-> - 2 ^ 63 <= z < 2 ^ 63.
Proof. unfold fits, tmin, tmax; cbn [is_signed bits]. lia. Qed.
Lemma fits_int z : fits TInt z = true <-> - 2 ^ 31 <= z < 2 ^ 31.
Proof. unfold fits, tmin, tmax; cbn [is_signed bits]. lia. Qed.

Lemma conv_ull z : conv TULL z = u64 z.
Proof. reflexivity. Qed.
Lemma conv_ll z : conv TLL z = s64 z.
Proof. reflexivity. Qed.

Lemma u64_range z : 0 <= u64 z < 2 ^ 64.
Proof. unfold u64. apply Z.mod_pos_bound. lia. Qed.
Lemma u64_id z : 0 <= z < 2 ^ 64 -> u64 z = z.
Proof. intros. unfold u64. apply Z.mod_small. assumption. Qed.
Lemma s64_id z : - 2 ^ 63 <= z < 2 ^ 63 -> s64 z = z.
Proof. intros. unfold s64. rewrite Z.mod_small; lia. Qed.

Lemma ev_shl_ull a k : eval_bin BShl TULL a TInt k = option_map (pair TULL) (shl_u64 a k).
Proof. unfold eval_bin, shl_u64, count_ok. cbn [is_signed bits]. destruct ((0 <=? k) && (k <? 64)); reflexivity. Qed.

Lemma ev_shr_ull a k : eval_bin BShr TULL a TInt k = option_map (pair TULL) (shr_u64 a k).
Proof. unfold eval_bin, shr_u64, count_ok. cbn [bits]. destruct ((0 <=? k) && (k <? 64)); reflexivity. Qed.

Lemma ev_sub_ull a b : 0 <= a < 2 ^ 64 -> 0 <= b < 2 ^ 64 -> eval_bin BSub TULL a TULL b = Some (TULL, u64 (a - b)).
Proof.
  intros Ha Hb. unfold eval_bin; cbv zeta; cbn [common]. rewrite !conv_ull, !u64_id by assumption. reflexivity.
Qed.
Lemma ev_add_ull a b : 0 <= a < 2 ^ 64 -> 0 <= b < 2 ^ 64 -> eval_bin BAdd TULL a TULL b = Some (TULL, u64 (a + b)).
Proof.
  intros Ha Hb. unfold eval_bin; cbv zeta; cbn [common]. rewrite !conv_ull, !u64_id by assumption. reflexivity.
Qed.

Lemma land_u64 a b : 0 <= a < 2 ^ 64 -> 0 <= b -> 0 <= Z.land a b < 2 ^ 64.
Proof.
  intros Ha Hb. apply small_of_high_bits; try lia.
  - apply Z.land_nonneg. lia.
  - intros i Hi. rewrite Z.land_spec. rewrite (high_bits_of_small a 64 i) by lia. reflexivity.
Qed.
Lemma lor_u64 a b : 0 <= a < 2 ^ 64 -> 0 <= b < 2 ^ 64 -> 0 <= Z.lor a b < 2 ^ 64.
Proof.
  intros Ha Hb. apply small_of_high_bits; try lia.
  - apply Z.lor_nonneg. lia.
  - intros i Hi. rewrite Z.lor_spec.
    rewrite (high_bits_of_small a 64 i), (high_bits_of_small b 64 i) by lia. reflexivity.
Qed.

Lemma ev_and_ull a b : 0 <= a < 2 ^ 64 -> 0 <= b < 2 ^ 64 -> eval_bin BAnd TULL a TULL b = Some (TULL, Z.land a b).
Proof.
  intros Ha Hb. unfold eval_bin; cbv zeta; cbn [common]. rewrite !conv_ull, (u64_id a), (u64_id b) by assumption.
  rewrite u64_id by (apply land_u64; lia). reflexivity.
Qed.
Lemma ev_or_ull a b : 0 <= a < 2 ^ 64 -> 0 <= b < 2 ^ 64 -> eval_bin BOr TULL a TULL b = Some (TULL, Z.lor a b).
Proof.
  intros Ha Hb. unfold eval_bin; cbv zeta; cbn [common]. rewrite !conv_ull, (u64_id a), (u64_id b) by assumption.
  rewrite u64_id by (apply lor_u64; lia). reflexivity.
Qed.

Lemma ev_sub_int a b : - 2 ^ 31 <= a < 2 ^ 31 -> - 2 ^ 31 <= b < 2 ^ 31 -> - 2 ^ 31 <= a - b < 2 ^ 31 ->
  eval_bin BSub TInt a TInt b = Some (TInt, a - b).
Proof.
  intros Ha Hb Hab. unfold eval_bin; cbv zeta; cbn [common].
  rewrite !conv_id by (apply fits_int; assumption). unfold arith. cbn [is_signed].
  replace (fits TInt (a - b)) with true by (symmetry; apply fits_int; assumption). reflexivity.
Qed.

Lemma arith_ll z : arith TLL z = option_map (pair TLL) (arith_s64 z).
Proof.
  unfold arith, arith_s64, fits, tmin, tmax. cbn [is_signed bits].
  destruct ((- 2 ^ (64 - 1) <=? z) && (z <=? 2 ^ (64 - 1) - 1)) eqn:E1;
    destruct ((- 2 ^ 63 <=? z) && (z <? 2 ^ 63)) eqn:E2; try reflexivity; exfalso; lia.
Qed.

Lemma ev_sub_ll a b : - 2 ^ 63 <= a < 2 ^ 63 -> - 2 ^ 63 <= b < 2 ^ 63 ->
  eval_bin BSub TLL a TLL b = option_map (pair TLL) (arith_s64 (a - b)).
Proof.
  intros Ha Hb. unfold eval_bin; cbv zeta; cbn [common]. rewrite !conv_id by (apply fits_ll; assumption). apply arith_ll.
Qed.

Lemma ev_shl_ll a k : eval_bin BShl TLL a TInt k = option_map (pair TLL) (shl_s64 a k).
Proof.
  unfold eval_bin, shl_s64, count_ok, fits, tmin, tmax. cbn [is_signed bits].
  destruct ((0 <=? k) && (k <? 64)) eqn:C; cbn [andb]; [|reflexivity].
  destruct (0 <=? a) eqn:A; cbn [andb]; [|reflexivity].
  assert (0 <= a * 2 ^ k) by (apply Z.mul_nonneg_nonneg; [lia|apply Z.pow_nonneg; lia]).
  destruct ((- 2 ^ (64 - 1) <=? a * 2 ^ k) && (a * 2 ^ k <=? 2 ^ (64 - 1) - 1)) eqn:E1;
    destruct (a * 2 ^ k <? 2 ^ 63) eqn:E2; try reflexivity; exfalso; lia.
Qed.

Lemma ev_lt_ll a b : - 2 ^ 63 <= a < 2 ^ 63 -> - 2 ^ 63 <= b < 2 ^ 63 ->
  eval_bin BLt TLL a TLL b = Some (TInt, b2z (a <? b)).
Proof. intros. unfold eval_bin; cbv zeta; cbn [common]. rewrite !conv_id by (apply fits_ll; assumption). reflexivity. Qed.
Lemma ev_gt_ll a b : - 2 ^ 63 <= a < 2 ^ 63 -> - 2 ^ 63 <= b < 2 ^ 63 ->
  eval_bin BGt TLL a TLL b = Some (TInt, b2z (b <? a)).
Proof. intros. unfold eval_bin; cbv zeta; cbn [common]. rewrite !conv_id by (apply fits_ll; assumption). reflexivity. Qed.

(* ------------------------------------------------------------------ the full-width guard *)

Lemma guard_eval w sh data g : g = read_fullwidth_guard \/ g = write_fullwidth_guard ->
  - 2 ^ 31 <= w < 2 ^ 31 ->
  ceval (rho0 w sh data) g = Some (TInt, b2z (64 <=? w)).
Proof.
  intros [-> | ->] Hw; unfold read_fullwidth_guard, write_fullwidth_guard;
    (erewrite ceval_bin; [| exact I | apply ceval_var; [reflexivity | apply fits_int; exact Hw]
                          | erewrite ceval_bin; [| exact I | apply ceval_lit; reflexivity | apply ceval_lit; reflexivity];
                            reflexivity]);
    unfold eval_bin; cbv zeta; cbn [common]; rewrite conv_id by (apply fits_int; exact Hw); reflexivity.
Qed.
