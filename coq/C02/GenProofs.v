(* C02 — the regenerated expressions (C02/Gen.v), evaluated with C semantics by C03/CExpr.v,
   compute exactly what the hand model C02/Model.v computes, on every placement. *)
From Coq Require Import ZArith Znumtheory List Bool Lia ZifyBool String.
From Cffi Require Import C03.CExpr C03.CExprFacts C03.Mem C03.MemProofs C03.Store C03.StoreProofs.
From Cffi Require Import C02.Spec C02.Model C02.Proofs C02.IR C02.Gen C02.Interp.
Import ListNotations.
Open Scope string_scope.
Open Scope Z_scope.

(* ------------------------------------------------------------------ evaluator steps *)

Lemma ceval_var rho x t z : rho x = Some (t, z) -> fits t z = true -> ceval rho (EVar x) = Some (t, z).
Proof. intros H F. cbn [ceval]. rewrite H, F. reflexivity. Qed.

Lemma ceval_lit rho t z : fits t z = true -> ceval rho (ELit t z) = Some (t, z).
Proof. intros F. cbn [ceval]. rewrite F. reflexivity. Qed.

Definition strict_op (o : binop) : Prop := match o with BLAnd | BLOr => False | _ => True end.

Lemma ceval_bin rho o a b ta za tb zb : strict_op o ->
  ceval rho a = Some (ta, za) -> ceval rho b = Some (tb, zb) ->
  ceval rho (EBin o a b) = eval_bin o ta za tb zb.
Proof. intros S A B. destruct o; try contradiction; cbn [ceval]; rewrite A, B; reflexivity. Qed.

Lemma ceval_cast rho t e t0 z : ceval rho e = Some (t0, z) -> ceval rho (ECast t e) = Some (t, conv t z).
Proof. intros E. cbn [ceval]. rewrite E. reflexivity. Qed.

Lemma ceval_not rho e t z : ceval rho e = Some (t, z) -> ceval rho (EUn UNot e) = Some (t, conv t (Z.lnot z)).
Proof. intros E. cbn [ceval]. rewrite E. reflexivity. Qed.

Lemma ceval_neg rho e t z : ceval rho e = Some (t, z) -> ceval rho (EUn UNeg e) = arith t (- z).
Proof. intros E. cbn [ceval]. rewrite E. reflexivity. Qed.

Lemma fits_ull z : fits TULL z = true <-> 0 <= z < 2 ^ 64.
Proof. unfold fits, tmin, tmax; cbn [is_signed bits]. lia. Qed.
Lemma fits_ll z : fits TLL z = true <-> - 2 ^ 63 <= z < 2 ^ 63.
Proof. unfold fits, tmin, tmax; cbn [is_signed bits]. lia. Qed.
Lemma fits_int z : fits TInt z = true <-> - 2 ^ 31 <= z < 2 ^ 31.
Proof. unfold fits, tmin, tmax; cbn [is_signed bits]. lia. Qed.

Lemma conv_ull z : conv TULL z = u64 z.
Proof. reflexivity. Qed.
Lemma conv_ll z : conv TLL z = s64 z.
Proof. reflexivity. Qed.

Lemma u64_range z : 0 <= u64 z < 2 ^ 64.
Proof. unfold u64. apply Z.mod_pos_bound. lia. Qed.
Lemma u64_id z : 0 <= z < 2 ^ 64 -> u64 z = z.
Proof. intros. unfold u64. apply Z.mod_small. assumption. Qed.
Lemma s64_id z : - 2 ^ 63 <= z < 2 ^ 63 -> s64 z = z.
Proof. intros. unfold s64. rewrite Z.mod_small; lia. Qed.

Lemma ev_shl_ull a k : eval_bin BShl TULL a TInt k = option_map (pair TULL) (shl_u64 a k).
Proof. unfold eval_bin, shl_u64, count_ok. cbn [is_signed bits]. destruct ((0 <=? k) && (k <? 64)); reflexivity. Qed.

Lemma ev_shr_ull a k : eval_bin BShr TULL a TInt k = option_map (pair TULL) (shr_u64 a k).
Proof. unfold eval_bin, shr_u64, count_ok. cbn [bits]. destruct ((0 <=? k) && (k <? 64)); reflexivity. Qed.

Lemma ev_sub_ull a b : 0 <= a < 2 ^ 64 -> 0 <= b < 2 ^ 64 -> eval_bin BSub TULL a TULL b = Some (TULL, u64 (a - b)).
Proof.
  intros Ha Hb. unfold eval_bin; cbv zeta; cbn [common].
  rewrite (conv_id TULL a), (conv_id TULL b) by (apply fits_ull; assumption). reflexivity.
Qed.
Lemma ev_add_ull a b : 0 <= a < 2 ^ 64 -> 0 <= b < 2 ^ 64 -> eval_bin BAdd TULL a TULL b = Some (TULL, u64 (a + b)).
Proof.
  intros Ha Hb. unfold eval_bin; cbv zeta; cbn [common].
  rewrite (conv_id TULL a), (conv_id TULL b) by (apply fits_ull; assumption). reflexivity.
Qed.

Lemma land_u64 a b : 0 <= a < 2 ^ 64 -> 0 <= b -> 0 <= Z.land a b < 2 ^ 64.
Proof.
  intros Ha Hb. apply small_of_high_bits; try lia.
  - apply Z.land_nonneg. lia.
  - intros i Hi. rewrite Z.land_spec. rewrite (high_bits_of_small a 64 i) by lia. reflexivity.
Qed.
Lemma lor_u64 a b : 0 <= a < 2 ^ 64 -> 0 <= b < 2 ^ 64 -> 0 <= Z.lor a b < 2 ^ 64.
Proof.
  intros Ha Hb. apply small_of_high_bits; try lia.
  - apply Z.lor_nonneg. lia.
  - intros i Hi. rewrite Z.lor_spec.
    rewrite (high_bits_of_small a 64 i), (high_bits_of_small b 64 i) by lia. reflexivity.
Qed.

Lemma ev_and_ull a b : 0 <= a < 2 ^ 64 -> 0 <= b < 2 ^ 64 -> eval_bin BAnd TULL a TULL b = Some (TULL, Z.land a b).
Proof.
  intros Ha Hb. unfold eval_bin; cbv zeta; cbn [common].
  rewrite (conv_id TULL a), (conv_id TULL b) by (apply fits_ull; assumption).
  change (conv TULL (Z.land a b)) with (u64 (Z.land a b)).
  rewrite u64_id by (apply land_u64; lia). reflexivity.
Qed.
Lemma ev_or_ull a b : 0 <= a < 2 ^ 64 -> 0 <= b < 2 ^ 64 -> eval_bin BOr TULL a TULL b = Some (TULL, Z.lor a b).
Proof.
  intros Ha Hb. unfold eval_bin; cbv zeta; cbn [common].
  rewrite (conv_id TULL a), (conv_id TULL b) by (apply fits_ull; assumption).
  change (conv TULL (Z.lor a b)) with (u64 (Z.lor a b)).
  rewrite u64_id by (apply lor_u64; lia). reflexivity.
Qed.

Lemma ev_sub_int a b : - 2 ^ 31 <= a < 2 ^ 31 -> - 2 ^ 31 <= b < 2 ^ 31 -> - 2 ^ 31 <= a - b < 2 ^ 31 ->
  eval_bin BSub TInt a TInt b = Some (TInt, a - b).
Proof.
  intros Ha Hb Hab. unfold eval_bin; cbv zeta; cbn [common].
  rewrite !conv_id by (apply fits_int; assumption). unfold arith. cbn [is_signed].
  replace (fits TInt (a - b)) with true by (symmetry; apply fits_int; assumption). reflexivity.
Qed.

Lemma arith_ll z : arith TLL z = option_map (pair TLL) (arith_s64 z).
Proof.
  unfold arith, arith_s64, fits, tmin, tmax. cbn [is_signed bits].
  destruct ((- 2 ^ (64 - 1) <=? z) && (z <=? 2 ^ (64 - 1) - 1)) eqn:E1;
    destruct ((- 2 ^ 63 <=? z) && (z <? 2 ^ 63)) eqn:E2; try reflexivity; exfalso; lia.
Qed.

Lemma ev_sub_ll a b : - 2 ^ 63 <= a < 2 ^ 63 -> - 2 ^ 63 <= b < 2 ^ 63 ->
  eval_bin BSub TLL a TLL b = option_map (pair TLL) (arith_s64 (a - b)).
Proof.
  intros Ha Hb. unfold eval_bin; cbv zeta; cbn [common]. rewrite !conv_id by (apply fits_ll; assumption). apply arith_ll.
Qed.

Lemma ev_shl_ll a k : eval_bin BShl TLL a TInt k = option_map (pair TLL) (shl_s64 a k).
Proof.
  unfold eval_bin, shl_s64, count_ok, fits, tmin, tmax. cbn [is_signed bits].
  destruct ((0 <=? k) && (k <? 64)) eqn:C; cbn [andb]; [|reflexivity].
  destruct (0 <=? a) eqn:A; cbn [andb]; [|reflexivity].
  assert (0 <= a * 2 ^ k) by (apply Z.mul_nonneg_nonneg; [lia|apply Z.pow_nonneg; lia]).
  destruct ((- 2 ^ (64 - 1) <=? a * 2 ^ k) && (a * 2 ^ k <=? 2 ^ (64 - 1) - 1)) eqn:E1;
    destruct (a * 2 ^ k <? 2 ^ 63) eqn:E2; try reflexivity; exfalso; lia.
Qed.

Lemma ev_lt_ll a b : - 2 ^ 63 <= a < 2 ^ 63 -> - 2 ^ 63 <= b < 2 ^ 63 ->
  eval_bin BLt TLL a TLL b = Some (TInt, b2z (a <? b)).
Proof. intros. unfold eval_bin; cbv zeta; cbn [common]. rewrite !conv_id by (apply fits_ll; assumption). reflexivity. Qed.
Lemma ev_gt_ll a b : - 2 ^ 63 <= a < 2 ^ 63 -> - 2 ^ 63 <= b < 2 ^ 63 ->
  eval_bin BGt TLL a TLL b = Some (TInt, b2z (b <? a)).
Proof. intros. unfold eval_bin; cbv zeta; cbn [common]. rewrite !conv_id by (apply fits_ll; assumption). reflexivity. Qed.

(* ------------------------------------------------------------------ the full-width guard *)

Lemma guard_eval w sh data g : g = read_fullwidth_guard \/ g = write_fullwidth_guard ->
  - 2 ^ 31 <= w < 2 ^ 31 ->
  ceval (rho0 w sh data) g = Some (TInt, b2z (64 <=? w)).
Proof.
  intros [-> | ->] Hw; unfold read_fullwidth_guard, write_fullwidth_guard;
    (erewrite ceval_bin; [| exact I | apply ceval_var; [reflexivity | apply fits_int; exact Hw]
                          | erewrite ceval_bin; [| exact I | apply ceval_lit; reflexivity | apply ceval_lit; reflexivity];
                            vm_compute; reflexivity]);
    unfold eval_bin; cbv zeta; cbn [common]; rewrite !conv_id by (apply fits_int; lia); reflexivity.
Qed.

(* ------------------------------------------------------------------ stepping through programs *)

Lemma shiftr_u64 a k : 0 <= a < 2 ^ 64 -> 0 <= k -> 0 <= Z.shiftr a k < 2 ^ 64.
Proof.
  intros Ha Hk. rewrite Z.shiftr_div_pow2 by lia. pose proof (pow2_pos k Hk). split.
  - apply Z.div_pos; lia.
  - apply Z.le_lt_trans with a; [|lia]. apply Z.div_le_upper_bound; nia.
Qed.

Lemma land_u64' a b : 0 <= a < 2 ^ 64 -> 0 <= b < 2 ^ 64 -> 0 <= Z.land a b < 2 ^ 64.
Proof. intros. apply land_u64; lia. Qed.
Lemma s64_range z : - 2 ^ 63 <= s64 z < 2 ^ 63.
Proof. unfold s64. pose proof (Z.mod_pos_bound (z + 2 ^ 63) (2 ^ 64) ltac:(lia)). lia. Qed.
Lemma arith_s64_some z r : arith_s64 z = Some r -> r = z /\ - 2 ^ 63 <= z < 2 ^ 63.
Proof. unfold arith_s64. destruct ((- 2 ^ 63 <=? z) && (z <? 2 ^ 63)) eqn:E; [|discriminate]. intros H; injection H as <-. lia. Qed.

Ltac rng :=
  lazymatch goal with
  | |- fits TULL _ = true => apply (proj2 (fits_ull _)); rng
  | |- fits TLL _ = true => apply (proj2 (fits_ll _)); rng
  | |- fits TInt _ = true => apply (proj2 (fits_int _)); rng
  | |- 0 <= u64 _ < 2 ^ 64 => apply u64_range
  | |- 0 <= Z.land _ _ < 2 ^ 64 => apply land_u64'; rng
  | |- - 2 ^ 63 <= s64 _ < 2 ^ 63 => apply s64_range
  | |- 0 <= Z.lor _ _ < 2 ^ 64 => apply lor_u64; rng
  | |- 0 <= Z.shiftr _ _ < 2 ^ 64 => apply shiftr_u64; [rng | lia]
  | |- _ => first [assumption | lia]
  end.

Ltac use_counts :=
  repeat match goal with
         | H : count_ok ?k = true |- context [count_ok ?k] => rewrite H
         end.

Ltac simp_eval :=
  first [ rewrite ev_shl_ull | rewrite ev_shr_ull | rewrite ev_shl_ll
        | rewrite ev_sub_ull by rng | rewrite ev_add_ull by rng | rewrite ev_and_ull by rng
        | rewrite ev_or_ull by rng | rewrite ev_sub_int by rng | rewrite ev_sub_ll by rng
        | rewrite ev_lt_ll by rng | rewrite ev_gt_ll by rng | rewrite arith_ll ];
  unfold shl_u64, shr_u64; use_counts;
  repeat match goal with
         | H : shl_s64 ?a ?k = Some _ |- context [shl_s64 ?a ?k] => rewrite H
         | H : arith_s64 ?z = Some _ |- context [arith_s64 ?z] => rewrite H
         end;
  cbn [option_map].

Lemma ceval_cast_ull rho e t0 z : ceval rho e = Some (t0, z) -> ceval rho (ECast TULL e) = Some (TULL, u64 z).
Proof. intros E. cbn [ceval]. rewrite E. reflexivity. Qed.
Lemma ceval_cast_ll rho e t0 z : ceval rho e = Some (t0, z) -> ceval rho (ECast TLL e) = Some (TLL, s64 z).
Proof. intros E. cbn [ceval]. rewrite E. reflexivity. Qed.
Lemma ceval_not_ull rho e z : ceval rho e = Some (TULL, z) -> ceval rho (EUn UNot e) = Some (TULL, u64 (Z.lnot z)).
Proof. intros E. cbn [ceval]. rewrite E. reflexivity. Qed.

Lemma ceval_lor rho a b ta za tb zb : ceval rho a = Some (ta, za) -> ceval rho b = Some (tb, zb) ->
  ceval rho (EBin BLOr a b) = Some (TInt, b2z (negb (za =? 0) || negb (zb =? 0))).
Proof.
  intros A B. cbn [ceval]. rewrite A, B. destruct (za =? 0); cbn [negb orb]; [|reflexivity].
  destruct (zb =? 0); reflexivity.
Qed.

Ltac solve_ceval :=
  lazymatch goal with
  | |- ceval _ (ELit _ _) = _ => apply ceval_lit; reflexivity
  | |- ceval _ (EVar _) = _ => apply ceval_var; [reflexivity | rng]
  | |- ceval _ (ECast TULL _) = _ => eapply ceval_cast_ull; solve_ceval
  | |- ceval _ (ECast TLL _) = _ => eapply ceval_cast_ll; solve_ceval
  | |- ceval _ (EUn UNot _) = _ => eapply ceval_not_ull; solve_ceval
  | |- ceval _ (EUn UNeg _) = _ =>
      etransitivity; [eapply ceval_neg; solve_ceval | simp_eval; reflexivity]
  | |- ceval _ (EBin _ _ _) = _ =>
      etransitivity; [eapply ceval_bin; [exact I | solve_ceval | solve_ceval] | simp_eval; reflexivity]
  end.

Lemma run_step rho x t e r t0 z : ceval rho e = Some (t0, z) ->
  run_prog rho ((x, t, e) :: r) = run_prog (env_set x t (conv t z) rho) r.
Proof. intros E. cbn [run_prog]. rewrite E. reflexivity. Qed.

Ltac step := erewrite run_step by solve_ceval;
             repeat match goal with |- context [conv ?t ?z] => rewrite (conv_id t z) by rng end.

Lemma env_set_same x t z rho : env_set x t z rho x = Some (t, z).
Proof. unfold env_set. rewrite String.eqb_refl. reflexivity. Qed.

Ltac finish_write v :=
  unfold range_cond; erewrite ceval_lor; [ | solve_ceval | solve_ceval ];
  match goal with |- context [v <? ?lo] => destruct (v <? lo) end;
  match goal with |- context [?hi <? v] => destruct (hi <? v) end;
  cbn [b2z negb orb Z.eqb]; try reflexivity;
  unfold write_prog; step; step; step; step; cbn [run_prog]; rewrite env_set_same; reflexivity.

Section Refine.
  Variables (T : ity) (w sh : Z) (data : list Z).
  Hypothesis P : placement T w sh.
  Hypothesis U : unit_ok T data.

  Theorem gen_read_refines : gen_read T w sh data = bf_read T w sh data.
  Proof.
    pose proof (u_range T data U) as Hu.
    destruct P as [Hs Hw Hsh Hfit Hbool].
    assert (8 * Z.of_nat (isize T) <= 64) as HB by lia.
    pose proof (pow2_le (8 * Z.of_nat (isize T)) 64 ltac:(lia)) as PB.
    unfold gen_read. rewrite guard_eval by (auto; lia).
    unfold bf_read. destruct (Z.leb_spec 64 w) as [W|W]; [reflexivity|]. cbn [b2z Z.eqb negb].
    assert (count_ok w = true) as Cw by (unfold count_ok; lia).
    assert (count_ok (w - 1) = true) as Cw1 by (unfold count_ok; lia).
    assert (count_ok sh = true) as Csh by (unfold count_ok; lia).
    unfold rho0, shl_u64, shr_u64. rewrite Cw, Cw1, Csh.
    remember (read_raw_unsigned data) as u eqn:Eu.
    destruct (isigned T).
    - unfold read_signed_prog.
      assert (- 2 ^ 63 <= read_raw_signed data < 2 ^ 63) as Hrs.
      { rewrite (signed_raw T data U). rewrite <- Eu.
        pose proof (pow2_double (8 * Z.of_nat (isize T)) ltac:(lia)).
        pose proof (pow2_le (8 * Z.of_nat (isize T) - 1) 63 ltac:(lia)).
        destruct (u <? 2 ^ (8 * Z.of_nat (isize T) - 1)) eqn:E; lia. }
      step. step. step. step.
      cbn [run_prog].
      match goal with |- context [ceval ?rho ?e] =>
        assert (ceval rho e = option_map (pair TLL) (arith_s64
          (s64 (Z.land (u64 (Z.shiftr (u64 (read_raw_signed data)) sh + u64 (1 * 2 ^ (w - 1)))) (u64 (u64 (1 * 2 ^ w) - 1)))
           - s64 (u64 (1 * 2 ^ (w - 1)))))) as ->
          by (etransitivity; [eapply ceval_bin; [exact I | solve_ceval | solve_ceval] | rewrite ev_sub_ll by rng; reflexivity])
      end.
      destruct (arith_s64 _) as [r|] eqn:EA; cbn [option_map result_of]; [|reflexivity].
      apply arith_s64_some in EA. destruct EA as [-> Rr].
      rewrite conv_id by rng. reflexivity.
    - unfold read_unsigned_prog. step. step. step. reflexivity.
  Qed.

  Theorem gen_write_refines v : gen_write T w sh v data = bf_write T w sh v data.
  Proof.
    pose proof (u_range T data U) as Hu.
    destruct P as [Hs Hw Hsh Hfit Hbool].
    assert (8 * Z.of_nat (isize T) <= 64) as HB by lia.
    pose proof (pow2_le (8 * Z.of_nat (isize T)) 64 ltac:(lia)) as PB.
    unfold gen_write. rewrite guard_eval by (auto; lia).
    unfold bf_write. destruct (Z.leb_spec 64 w) as [W|W]; [reflexivity|]. cbn [b2z Z.eqb negb].
    unfold write_value_conv. cbn [conv_value].
    unfold as_longlong. destruct ((- 2 ^ 63 <=? v) && (v <? 2 ^ 63)) eqn:LL; [|reflexivity].
    assert (- 2 ^ 63 <= v < 2 ^ 63) as Hv by lia.
    assert (count_ok w = true) as Cw by (unfold count_ok; lia).
    assert (count_ok (w - 1) = true) as Cw1 by (unfold count_ok; lia).
    assert (count_ok sh = true) as Csh by (unfold count_ok; lia).
    pose proof (pow2_lt (w - 1) 63 ltac:(lia)) as Ph. pose proof (pow2_pos (w - 1) ltac:(lia)) as Ph0.
    assert (shl_s64 1 (w - 1) = Some (2 ^ (w - 1))) as Hshl.
    { unfold shl_s64. rewrite Cw1, Z.mul_1_l. replace (2 ^ (w - 1) <? 2 ^ 63) with true by lia. reflexivity. }
    assert (arith_s64 (- 2 ^ (w - 1)) = Some (- 2 ^ (w - 1))) as Ha1.
    { unfold arith_s64. replace ((- 2 ^ 63 <=? - 2 ^ (w - 1)) && (- 2 ^ (w - 1) <? 2 ^ 63)) with true by lia. reflexivity. }
    assert (arith_s64 (2 ^ (w - 1) - 1) = Some (2 ^ (w - 1) - 1)) as Ha2.
    { unfold arith_s64. replace ((- 2 ^ 63 <=? 2 ^ (w - 1) - 1) && (2 ^ (w - 1) - 1 <? 2 ^ 63)) with true by lia. reflexivity. }
    unfold rho0, bf_bounds, shl_u64. rewrite Cw, Csh, Hshl, Ha1, Ha2.
    remember (read_raw_unsigned data) as u eqn:Eu.
    destruct (isigned T).
    - unfold bounds_signed_prog. step. step. cbn [run_prog]. rewrite env_set_same.
      destruct (2 ^ (w - 1) - 1 =? 0); finish_write v.
    - unfold bounds_unsigned_prog. step. step. cbn [run_prog]. finish_write v.
  Qed.
End Refine.
