(* C02 — the two bitfield converters with their integer expressions taken from the regenerated
   C02/Gen.v and evaluated by the C-expression evaluator (C03/CExpr.v).  Only the control skeleton
   (full-width guard, signed/unsigned branch, `if (fmax == 0) fmax = 1`, range test, masked write)
   is written here; it is the shape tools/props/c02_regen.py matches before extracting. *)
From Coq Require Import ZArith List Bool String.
From Cffi Require Import C03.CExpr C03.Mem C03.Store C02.IR C02.Gen C02.Model.
Import ListNotations.
Open Scope string_scope.
Open Scope Z_scope.

(* straight-line program: x = (type of x) e; ... *)
Fixpoint run_prog (rho : env) (p : list (string * cty * cexpr)) : option env :=
  match p with
  | [] => Some rho
  | (x, t, e) :: r =>
      match ceval rho e with
      | Some (_, z) => run_prog (env_set x t (conv t z) rho) r
      | None => None
      end
  end.

Definition rho0 (w sh : Z) (data : list Z) : env :=
  env_set "cf_cf_bitsize" TInt w
    (env_set "cf_cf_bitshift" TInt sh
      (env_set "raw_signed" TLL (read_raw_signed data)
        (env_set "raw_unsigned" TULL (read_raw_unsigned data) env_empty))).

Definition result_of (r : option env) (x : string) : bres Z :=
  match r with
  | Some rho => match rho x with Some (_, z) => BOk z | None => BUB end
  | None => BUB
  end.

Definition gen_read (T : ity) (w sh : Z) (data : list Z) : bres Z :=
  let rho := rho0 w sh data in
  match ceval rho read_fullwidth_guard with
  | None => BUB
  | Some (_, g) =>
      if negb (g =? 0) then BOk (read_int T data)
      else if isigned T then result_of (run_prog rho read_signed_prog) "result"
      else result_of (run_prog rho read_unsigned_prog) "value"
  end.

(* the regenerated way of obtaining `value` *)
Definition conv_value (c : value_conv) (v : Z) : res Z :=
  match c with
  | VCAsLongLong => as_longlong v
  | VCAndOverflow saturate =>
      if (- 2 ^ 63 <=? v) && (v <? 2 ^ 63) then Ok v
      else if saturate then Ok (if 0 <? v then 2 ^ 63 - 1 else - 2 ^ 63)
      else Ok (-1)                      (* the overflow flag is ignored: value stays -1 *)
  end.

Definition gen_write (T : ity) (w sh v : Z) (data : list Z) : bres unit * list Z :=
  let rho := rho0 w sh data in
  match ceval rho write_fullwidth_guard with
  | None => (BUB, data)
  | Some (_, g) =>
      if negb (g =? 0) then lift_res (convert_from_object_int T v data)
      else
        match conv_value write_value_conv v with
        | Err e => (BErr e, data)
        | UB => (BUB, data)
        | Ok value =>
            let rho1 := env_set "value" TLL value rho in
            match run_prog rho1 (if isigned T then bounds_signed_prog else bounds_unsigned_prog) with
            | None => (BUB, data)
            | Some rho2 =>
                let rho3 :=
                  if isigned T then
                    match rho2 "fmax" with
                    | Some (t, z) => if z =? 0 then env_set "fmax" t 1 rho2 else rho2
                    | None => rho2
                    end
                  else rho2 in
                match ceval rho3 range_cond with
                | None => (BUB, data)
                | Some (_, c) =>
                    if negb (c =? 0) then (BErr OverflowError, data)
                    else
                      match run_prog rho3 write_prog with
                      | Some rho4 =>
                          match rho4 "rawfielddata" with
                          | Some (_, r) => (BOk tt, write_raw (isize T) r)
                          | None => (BUB, data)
                          end
                      | None => (BUB, data)
                      end
                end
            end
        end
  end.
