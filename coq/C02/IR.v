(* C02 — how convert_from_object_bitfield obtains `value` from the Python object (regenerated) *)
Inductive value_conv :=
| VCAsLongLong                          (* value = PyLong_AsLongLong(init); error check *)
| VCAndOverflow (saturate : bool).      (* value = PyLong_AsLongLongAndOverflow(init, &overflow); error check;
                                           [if (overflow != 0) value = overflow > 0 ? PY_LLONG_MAX : PY_LLONG_MIN;] *)
