(* C37 — vocabulary for the regenerated close paths (C37/Gen.v) *)
From Coq Require Import List Bool.
Import ListNotations.

Inductive cstep :=
| SetHandleNull      (* lib->l_libhandle = NULL;  /  dlobj->dl_handle = NULL; *)
| ClearDict          (* PyDict_Clear(lib->l_dict);  /  self.__dict__.clear() *)
| DlClose            (* dlclose(handle) / cdlopen_close(...) *)
| CallCloseLib.      (* backendlib.close_lib() *)

Definition cstep_eqb (a b : cstep) : bool :=
  match a, b with
  | SetHandleNull, SetHandleNull | ClearDict, ClearDict | DlClose, DlClose | CallCloseLib, CallCloseLib => true
  | _, _ => false
  end.
Definition has (x : cstep) (l : list cstep) : bool := existsb (cstep_eqb x) l.

(* x occurs, and no y occurs before it *)
Fixpoint before (x y : cstep) (l : list cstep) : bool :=
  match l with
  | [] => false
  | z :: t => if cstep_eqb z x then true else if cstep_eqb z y then false else before x y t
  end.
