(* C37 — closed dlopen libraries refuse further symbol access.

   Executable state-machine model of the two dlopen() front ends over ONE shared C library
   (several lib objects may be open on the same .so; they share the library's globals).

   In-line mode  (src/cffi/api.py:825 _make_ffi_library, class FFILibrary api.py:904;
                  backend src/c/_cffi_backend.c:4346 dl_check_closed, 4357 dl_load_function,
                  4392 dl_read_variable, 4419 dl_write_variable, 4448 dl_close_lib):
     * library.__dict__           : cached function cdata and integer constants   -> [ldict]
     * properties on FFILibrary   : one per variable, installed by accessor_variable on the
                                    first access; they survive close                -> [lprops]
     * addr_variables             : cache of ffi.addressof(lib, 'var'); survives close -> [laddr]
     * backendlib.dl_handle       : NULL after close_lib                           -> [lopen]
     * __cffi_close__ (api.py:932): backendlib.close_lib(); self.__dict__.clear()
   Out-of-line mode (src/c/cdlopen.c:3 cdlopen_fetch, :58 ffi_dlclose;
                  src/c/lib_obj.c:208 lib_build_and_cache_attr, :510 lib_getattr, :559 lib_setattr,
                  :689 address_of_global_var):
     * lib->l_dict                : functions, integer constants AND the GlobSupport objects of
                                    variables (holding the dlsym'ed address)        -> [ldict]
     * lib->l_libhandle           : NULL after ffi_dlclose                         -> [lopen]
     * ffi_dlclose                : l_libhandle = NULL; PyDict_Clear(l_dict); dlclose()

   The C library is described by [desc]: integer variables with the range of their C type,
   functions (getter / setter of a variable) and integer #define constants. *)
From Coq Require Import ZArith List Bool Arith Lia.
Import ListNotations.
From Cffi Require Export C37.Steps C37.Gen.
Open Scope Z_scope.

(* the decisive facts of the close paths, read from the REGENERATED source text (C37/Gen.v) *)
(* au: the lib owns its handle (dl_auto_close / l_auto_close; false for ffi.dlopen(<void * handle>)).  The handle is
   reset only if the block containing the reset is entered: its guard must not also require the auto-close flag *)
Definition inline_sets_null (au : bool) : bool :=
  has CallCloseLib inline_close && has SetHandleNull backend_close_lib && (negb backend_close_guard_auto || au).
Definition inline_clears : bool := has ClearDict inline_close.
Definition ool_sets_null (au : bool) : bool := has SetHandleNull ool_close && (negb ool_close_guard_auto || au).
Definition ool_clears : bool := has ClearDict ool_close.
Inductive mode := Inline | Ool.
(* does an access path test "closed" BEFORE it calls dlsym()?  If it does not, dlsym(NULL, name) is
   dlsym(RTLD_DEFAULT, name) on glibc: a symbol that is resolvable in the process-global scope (the library
   also open elsewhere with RTLD_GLOBAL, a libc name on a dlopen(None) lib) is found and the closed lib object
   behaves as if it were open — the model then takes that worst case *)
Definition unchecked (m : mode) : bool :=
  negb (match m with Inline => inline_checks_first | Ool => ool_fetch_checks_first end).

Inductive exn := ValueError | FFIError | AttributeError | OverflowError | NoSuchLib.

Inductive out :=
| OInt (z : Z)        (* an integer result *)
| ONone               (* None *)
| OFn (f : nat)       (* the function cdata of function f *)
| OPtr (v : nat)      (* pointer cdata to variable v *)
| OErr (e : exn).

Inductive fnkind := FGet (v : nat) | FSet (v : nat).
Record desc := { d_vars : list (Z * Z);      (* variable k has a C integer type with range [lo,hi] *)
                 d_fns : list fnkind;        (* T get_k(void) / T set_k(T): returns old value *)
                 d_consts : list Z }.

Inductive name := NVar (k : nat) | NFn (k : nat) | NConst (k : nat).
Definition name_eqb (a b : name) : bool :=
  match a, b with
  | NVar i, NVar j | NFn i, NFn j | NConst i, NConst j => Nat.eqb i j
  | _, _ => false
  end.
Definition is_const (n : name) : bool := match n with NConst _ => true | _ => false end.

Record lib := { lmode : mode; lauto : bool;     (* lauto: owns the dlopen handle (opened from a file name) *)
                lopen : bool;
                ldict : list name; lprops : list nat; laddr : list nat }.
Record state := { mem : list Z; libs : list lib }.
Definition usable (L : lib) : bool := lopen L || unchecked (lmode L).

Inductive op :=
| OpRead (l v : nat)               (* lib.var_v *)
| OpWrite (l v : nat) (z : Z)      (* lib.var_v = z *)
| OpFetch (l f : nat)              (* lib.fn_f   (no call) *)
| OpCall (l f : nat) (z : Z)       (* lib.fn_f(z) for a setter, lib.fn_f() for a getter *)
| OpConst (l c : nat)              (* lib.K_c *)
| OpAddr (l v : nat)               (* ffi.addressof(lib, 'var_v') *)
| OpClose (l : nat).               (* ffi.dlclose(lib) *)

Definition op_lib (o : op) : nat :=
  match o with
  | OpRead l _ | OpWrite l _ _ | OpFetch l _ | OpCall l _ _ | OpConst l _ | OpAddr l _ | OpClose l => l
  end.

Definition mem_in (x : nat) (l : list nat) : bool := existsb (Nat.eqb x) l.
Definition dict_in (x : name) (l : list name) : bool := existsb (name_eqb x) l.
Definition dict_add (x : name) (l : list name) : list name := if dict_in x l then l else x :: l.
Definition set_add (x : nat) (l : list nat) : list nat := if mem_in x l then l else x :: l.

Definition in_range (b : Z * Z) (z : Z) : bool := (fst b <=? z) && (z <=? snd b).

Fixpoint upd {A} (l : list A) (i : nat) (x : A) : list A :=
  match l, i with
  | [], _ => []
  | _ :: t, O => x :: t
  | h :: t, S i' => h :: upd t i' x
  end.

Definition closed_exn (m : mode) : exn := match m with Inline => ValueError | Ool => FFIError end.

Definition with_dict (L : lib) (d : list name) : lib :=
  {| lmode := lmode L; lauto := lauto L; lopen := lopen L; ldict := d; lprops := lprops L; laddr := laddr L |}.
Definition with_props (L : lib) (p : list nat) : lib :=
  {| lmode := lmode L; lauto := lauto L; lopen := lopen L; ldict := ldict L; lprops := p; laddr := laddr L |}.
Definition with_addr (L : lib) (a : list nat) : lib :=
  {| lmode := lmode L; lauto := lauto L; lopen := lopen L; ldict := ldict L; lprops := lprops L; laddr := a |}.

(* ---- what the C library itself does (no notion of close) *)
Definition call_fn (d : desc) (m : list Z) (f : nat) (z : Z) : list Z * out :=
  match nth_error (d_fns d) f with
  | None => (m, OErr AttributeError)
  | Some (FGet v) => (m, OInt (nth v m 0))
  | Some (FSet v) =>
      match nth_error (d_vars d) v with
      | None => (m, OErr AttributeError)
      | Some b => if in_range b z then (upd m v z, OInt (nth v m 0)) else (m, OErr OverflowError)
      end
  end.

Definition write_var (b : Z * Z) (m : list Z) (v : nat) (z : Z) : list Z * out :=
  if in_range b z then (upd m v z, ONone) else (m, OErr OverflowError).

(* ---- fetching a function object: both modes look in the dict first, then dlsym (which
        needs the handle), then cache.  Returns the new lib and Some f / the error. *)
Definition fetch_fn (d : desc) (L : lib) (f : nat) : lib * option exn :=
  match nth_error (d_fns d) f with
  | None => (L, Some AttributeError)
  | Some _ =>
      if dict_in (NFn f) (ldict L) then (L, None)
      else if usable L then (with_dict L (dict_add (NFn f) (ldict L)), None)
      else (L, Some (closed_exn (lmode L)))
  end.

(* ---- in-line: make sure the property of variable v exists (accessor_variable; touches nothing) *)
Definition inline_prop (L : lib) (v : nat) : lib := with_props L (set_add v (lprops L)).

(* ---- out-of-line: get the GlobSupport object of variable v (cached, else cdlopen_fetch) *)
Definition ool_globsupport (L : lib) (v : nat) : lib * option exn :=
  if dict_in (NVar v) (ldict L) then (L, None)
  else if usable L then (with_dict L (dict_add (NVar v) (ldict L)), None)
  else (L, Some FFIError).

Definition step_lib (d : desc) (m : list Z) (L : lib) (o : op) : list Z * lib * out :=
  match o with
  | OpRead _ v =>
      match nth_error (d_vars d) v with
      | None => (m, L, OErr AttributeError)
      | Some _ =>
          match lmode L with
          | Inline => let L' := inline_prop L v in
                      if usable L' then (m, L', OInt (nth v m 0)) else (m, L', OErr ValueError)
          | Ool => match ool_globsupport L v with
                   | (L', None) => (m, L', OInt (nth v m 0))
                   | (L', Some e) => (m, L', OErr e)
                   end
          end
      end
  | OpWrite _ v z =>
      match nth_error (d_vars d) v with
      | None => (m, L, OErr AttributeError)
      | Some b =>
          match lmode L with
          | Inline => let L' := inline_prop L v in
                      if usable L' then let '(m', r) := write_var b m v z in (m', L', r)
                      else (m, L', OErr ValueError)
          | Ool => match ool_globsupport L v with
                   | (L', None) => let '(m', r) := write_var b m v z in (m', L', r)
                   | (L', Some e) => (m, L', OErr e)
                   end
          end
      end
  | OpFetch _ f =>
      match fetch_fn d L f with
      | (L', None) => (m, L', OFn f)
      | (L', Some e) => (m, L', OErr e)
      end
  | OpCall _ f z =>
      match fetch_fn d L f with
      | (L', None) => let '(m', r) := call_fn d m f z in (m', L', r)
      | (L', Some e) => (m, L', OErr e)
      end
  | OpConst _ c =>
      match nth_error (d_consts d) c with
      | None => (m, L, OErr AttributeError)
      | Some k => (m, with_dict L (dict_add (NConst c) (ldict L)), OInt k)
      end
  | OpAddr _ v =>
      match nth_error (d_vars d) v with
      | None => (m, L, OErr AttributeError)
      | Some _ =>
          match lmode L with
          | Inline =>
              (* FFILibrary.__addressof__: not in __dict__; property present or installed by
                 make_accessor; then addressof_var: addr_variables cache, else load_function *)
              let L' := inline_prop L v in
              if mem_in v (laddr L') then (m, L', OPtr v)
              else if usable L' then (m, with_addr L' (set_add v (laddr L')), OPtr v)
              else (m, L', OErr ValueError)
          | Ool => match ool_globsupport L v with
                   | (L', None) => (m, L', OPtr v)
                   | (L', Some e) => (m, L', OErr e)
                   end
          end
      end
  | OpClose _ =>
      (* both modes: handle := NULL, dict cleared; a second close finds the handle NULL.
         In-line clears the dict again on every close (api.py:934), out-of-line only when the
         handle was not NULL (cdlopen.c:66) *)
      match lmode L with
      | Inline => (m, {| lmode := Inline; lauto := lauto L; lopen := if inline_sets_null (lauto L) then false else lopen L;
                         ldict := if inline_clears then [] else ldict L;
                         lprops := lprops L; laddr := laddr L |}, ONone)
      | Ool => if lopen L
               then (m, {| lmode := Ool; lauto := lauto L; lopen := if ool_sets_null (lauto L) then false else true;
                           ldict := if ool_clears then [] else ldict L;
                           lprops := lprops L; laddr := laddr L |}, ONone)
               else (m, L, ONone)
      end
  end.

Definition step (d : desc) (s : state) (o : op) : state * out :=
  match nth_error (libs s) (op_lib o) with
  | None => (s, OErr NoSuchLib)
  | Some L => let '(m', L', r) := step_lib d (mem s) L o in
              ({| mem := m'; libs := upd (libs s) (op_lib o) L' |}, r)
  end.

Fixpoint run (d : desc) (s : state) (h : list op) : state * list out :=
  match h with
  | [] => (s, [])
  | o :: h' => let '(s1, r) := step d s o in
               let '(s2, rs) := run d s1 h' in (s2, r :: rs)
  end.

Definition new_lib (m : mode * bool) : lib :=
  {| lmode := fst m; lauto := snd m; lopen := true; ldict := []; lprops := []; laddr := [] |}.
Definition init (m0 : list Z) (modes : list (mode * bool)) : state :=
  {| mem := m0; libs := map new_lib modes |}.

(* ======== the cache-free specification the property talks about =========================
   A lib object is just: open or closed, plus (in-line only) the set of variables whose address
   was taken while it was open.  Everything that needs the library fails once closed. *)
Record alib := { amode : mode; aopen : bool; ataken : list nat }.
Record astate := { amem : list Z; alibs : list alib }.

Definition spec_lib (d : desc) (m : list Z) (A : alib) (o : op) : list Z * alib * out :=
  let closed := OErr (closed_exn (amode A)) in
  match o with
  | OpRead _ v =>
      match nth_error (d_vars d) v with
      | None => (m, A, OErr AttributeError)
      | Some _ => if aopen A then (m, A, OInt (nth v m 0)) else (m, A, closed)
      end
  | OpWrite _ v z =>
      match nth_error (d_vars d) v with
      | None => (m, A, OErr AttributeError)
      | Some b => if aopen A then let '(m', r) := write_var b m v z in (m', A, r) else (m, A, closed)
      end
  | OpFetch _ f =>
      match nth_error (d_fns d) f with
      | None => (m, A, OErr AttributeError)
      | Some _ => if aopen A then (m, A, OFn f) else (m, A, closed)
      end
  | OpCall _ f z =>
      match nth_error (d_fns d) f with
      | None => (m, A, OErr AttributeError)
      | Some _ => if aopen A then let '(m', r) := call_fn d m f z in (m', A, r) else (m, A, closed)
      end
  | OpConst _ c =>
      match nth_error (d_consts d) c with
      | None => (m, A, OErr AttributeError)
      | Some k => (m, A, OInt k)
      end
  | OpAddr _ v =>
      match nth_error (d_vars d) v with
      | None => (m, A, OErr AttributeError)
      | Some _ =>
          if aopen A then
            (m, {| amode := amode A; aopen := true;
                   ataken := match amode A with Inline => set_add v (ataken A) | Ool => ataken A end |}, OPtr v)
          else match amode A with
               | Inline => if mem_in v (ataken A) then (m, A, OPtr v) else (m, A, closed)
               | Ool => (m, A, closed)
               end
      end
  | OpClose _ => (m, {| amode := amode A; aopen := false; ataken := ataken A |}, ONone)
  end.

Definition spec_step (d : desc) (s : astate) (o : op) : astate * out :=
  match nth_error (alibs s) (op_lib o) with
  | None => (s, OErr NoSuchLib)
  | Some A => let '(m', A', r) := spec_lib d (amem s) A o in
              ({| amem := m'; alibs := upd (alibs s) (op_lib o) A' |}, r)
  end.

Fixpoint spec_run (d : desc) (s : astate) (h : list op) : astate * list out :=
  match h with
  | [] => (s, [])
  | o :: h' => let '(s1, r) := spec_step d s o in
               let '(s2, rs) := spec_run d s1 h' in (s2, r :: rs)
  end.

Definition ainit (m0 : list Z) (modes : list (mode * bool)) : astate :=
  {| amem := m0; alibs := map (fun m => {| amode := fst m; aopen := true; ataken := [] |}) modes |}.

(* ---- for the correspondence check *)
Definition exn_eqb (a b : exn) : bool :=
  match a, b with
  | ValueError, ValueError | FFIError, FFIError | AttributeError, AttributeError
  | OverflowError, OverflowError | NoSuchLib, NoSuchLib => true
  | _, _ => false
  end.
Definition out_eqb (a b : out) : bool :=
  match a, b with
  | OInt x, OInt y => Z.eqb x y
  | ONone, ONone => true
  | OFn x, OFn y | OPtr x, OPtr y => Nat.eqb x y
  | OErr x, OErr y => exn_eqb x y
  | _, _ => false
  end.
(* input of a correspondence case: library description, initial memory, modes, history;
   result: outputs followed by the final values of all variables *)
Definition run_case (c : desc * list Z * list (mode * bool) * list op) : list out * list Z :=
  let '(d, m0, modes, h) := c in
  let '(s, rs) := run d (init m0 modes) h in (rs, mem s).
