(* C37 — Closed dlopen libraries refuse further symbol access.  Statements only.
   [run d (init m0 modes) h] executes history h on lib objects (in-line or out-of-line, owning their dlopen handle or made
   from a caller-supplied `void *` handle: one (mode, owns-handle) pair per entry of [modes]) opened on one shared C library described by d with initial memory m0. *)
From Coq Require Import ZArith List Bool Arith.
Import ListNotations.
From Cffi Require Import C37.Model C37.Proofs.
Open Scope Z_scope.

(* Scope: every operation goes THROUGH the lib object.  Calling a function object, or dereferencing
   a pointer, that the user fetched before the close and kept (f = lib.fn; dlclose; f()) is not an
   operation of the model: the property text excludes it ("fetching a function not fetched before
   the close") and the documentation calls it undefined. *)

(* After ffi.dlclose(lib l), at every later point of every history (whatever was cached before,
   whatever happened to the other lib objects), every variable read, variable write, function
   fetch and function call through lib l is refused (ValueError in-line / ffi.error
   out-of-line; AttributeError only for an undeclared name) and the library's memory is not
   touched. *)
Theorem C37_after_close_refused : forall d m0 modes h1 l h2 o md au,
  nth_error modes l = Some (md, au) -> op_lib o = l -> touches o = true ->
  let s := fst (run d (init m0 modes) (h1 ++ OpClose l :: h2)) in
  refusal md (snd (step d s o)) /\ mem (fst (step d s o)) = mem s.
Proof. exact after_close_refused. Qed.
Print Assumptions C37_after_close_refused.

(* the address of a variable not taken through this lib before the close is refused as well
   (in-line mode keeps returning the cached pointer of a variable whose address WAS taken
   before the close; that is "fetched before the close") *)
Theorem C37_after_close_addr_refused : forall d m0 modes h1 l h2 v md au L1,
  nth_error modes l = Some (md, au) ->
  let s1 := fst (run d (init m0 modes) (h1 ++ [OpClose l])) in
  nth_error (libs s1) l = Some L1 -> mem_in v (laddr L1) = false ->
  let s := fst (run d s1 h2) in
  refusal md (snd (step d s (OpAddr l v))) /\ mem (fst (step d s (OpAddr l v))) = mem s.
Proof. exact after_close_addr_refused. Qed.
Print Assumptions C37_after_close_addr_refused.

(* closing again is harmless: same state, same result (None) *)
Theorem C37_close_idempotent : forall d s l,
  let s1 := fst (step d s (OpClose l)) in
  step d s1 (OpClose l) = (s1, snd (step d s (OpClose l))).
Proof. exact close_idempotent. Qed.
Print Assumptions C37_close_idempotent.

Theorem C37_close_returns_none : forall d s l,
  (l < length (libs s))%nat -> snd (step d s (OpClose l)) = ONone.
Proof. exact close_returns_none. Qed.
Print Assumptions C37_close_returns_none.

(* before its close, a lib behaves exactly as the C library itself (cache-free semantics
   open_sem), at any point of any history *)
Theorem C37_before_close_unchanged : forall d m0 modes h o L,
  let s := fst (run d (init m0 modes) h) in
  nth_error (libs s) (op_lib o) = Some L -> lopen L = true ->
  (mem (fst (step d s o)), snd (step d s o)) = open_sem d (mem s) o.
Proof. exact before_close_unchanged. Qed.
Print Assumptions C37_before_close_unchanged.

(* only dlclose closes, and only the lib it is applied to *)
Theorem C37_only_close_closes : forall d s o i,
  (forall l, o <> OpClose l) ->
  option_map lopen (nth_error (libs (fst (step d s o))) i) = option_map lopen (nth_error (libs s) i).
Proof. exact only_close_closes. Qed.
Print Assumptions C37_only_close_closes.

Theorem C37_other_libs_untouched : forall d s o i,
  i <> op_lib o -> nth_error (libs (fst (step d s o))) i = nth_error (libs s) i.
Proof. exact other_libs_untouched. Qed.
Print Assumptions C37_other_libs_untouched.

(* the whole observable behaviour is that of the cache-free specification [spec_run]
   (open/closed flag per lib + addresses taken while open): outputs and final memory agree
   on every history *)
Theorem C37_refines_spec : forall d m0 modes h,
  snd (run d (init m0 modes) h) = snd (spec_run d (ainit m0 modes) h) /\
  mem (fst (run d (init m0 modes) h)) = amem (fst (spec_run d (ainit m0 modes) h)).
Proof. exact refines_spec. Qed.
Print Assumptions C37_refines_spec.

(* ---- the close paths as they are in the source text now (C37/Gen.v, regenerated on every run).
   The model's OpClose is DEFINED from these lists (Model.v: inline_sets_null, inline_clears,
   ool_sets_null, ool_clears), so every theorem above is about the current text: dropping the
   dict clearing or the handle reset from a close path breaks Proofs.v. *)
Theorem C37_gen_close_paths :
  (* in-line: FFILibrary.__cffi_close__ calls close_lib() and clears __dict__;
     dl_close_lib dlclose()s and resets dl_handle *)
  has CallCloseLib inline_close = true /\ has ClearDict inline_close = true /\
  has DlClose backend_close_lib = true /\ has SetHandleNull backend_close_lib = true /\
  (* out-of-line: ffi_dlclose resets l_libhandle and clears l_dict BEFORE it calls dlclose
     (whose failure returns early: the lib must already be closed for Python) *)
  before SetHandleNull DlClose ool_close = true /\ before ClearDict DlClose ool_close = true /\
  has DlClose ool_close = true.
Proof. vm_compute. repeat split; reflexivity. Qed.
Print Assumptions C37_gen_close_paths.

(* the handle reset is executed whenever the handle was non-NULL: the blocks of dl_close_lib and ffi_dlclose that
   contain it are guarded by the NULL test ALONE, not also by the auto-close flag — so a lib object made from a
   caller-supplied `void *` handle (ffi.dlopen(handle_cdata), auto_close = 0) is closed by ffi.dlclose() like any
   other.  The lib's "owns its handle" flag is part of the model state (lauto) and the model's close consults these
   facts (Model.v: inline_sets_null / ool_sets_null), for every value of the flag. *)
Theorem C37_gen_handle_reset_unconditional :
  backend_close_guard_auto = false /\ ool_close_guard_auto = false.
Proof. split; reflexivity. Qed.
Print Assumptions C37_gen_handle_reset_unconditional.

(* every access path tests "closed" and returns BEFORE it calls dlsym(): cdlopen_fetch (out-of-line) and
   dl_load_function / dl_read_variable / dl_write_variable (in-line).  The model's accesses are defined from
   these facts (Model.v: usable / unchecked): without the early test, dlsym(NULL, name) searches the
   process-global scope and a closed lib object would serve globally resolvable symbols — so
   C37_after_close_refused is about the current text here too. *)
Theorem C37_gen_closed_test_precedes_dlsym :
  ool_fetch_checks_first = true /\ inline_checks_first = true.
Proof. split; reflexivity. Qed.
Print Assumptions C37_gen_closed_test_precedes_dlsym.

(* non-vacuity: a history that caches a function, a variable and an address, closes, and
   tries everything again, in both modes; the other lib keeps working *)
Example C37_example :
  let d := {| d_vars := [(-128, 127); (0, 255)]; d_fns := [FGet 0%nat; FSet 1%nat]; d_consts := [42] |} in
  let h := [OpCall 0 1 7; OpRead 0 1; OpRead 1 1; OpAddr 0 0; OpFetch 0 0; OpFetch 1 0; OpWrite 1 1 300;
            OpClose 0; OpRead 0 1; OpWrite 0 0 1; OpFetch 0 0; OpCall 0 1 9; OpConst 0 0; OpAddr 0 0; OpAddr 0 1;
            OpClose 0; OpRead 1 1; OpClose 1; OpRead 1 1; OpFetch 1 0; OpAddr 1 0]%nat in
  run_case (d, [5; 6], [(Inline, false); (Ool, true)], h) =
  ([OInt 6; OInt 7; OInt 7; OPtr 0; OFn 0; OFn 0; OErr OverflowError;
    ONone; OErr ValueError; OErr ValueError; OErr ValueError; OErr ValueError; OInt 42; OPtr 0; OErr ValueError;
    ONone; OInt 7; ONone; OErr FFIError; OErr FFIError; OErr FFIError]%nat, [5; 7]).
Proof. vm_compute. reflexivity. Qed.
