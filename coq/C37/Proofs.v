(* C37 — proofs: invariant (a closed lib caches nothing that needs the library), refinement of
   the cache-free specification, refusal after close, idempotence of close. *)
From Coq Require Import ZArith List Bool Arith Lia.
Import ListNotations.
From Cffi Require Import C37.Model.
Open Scope Z_scope.

(* ---------- the regenerated close paths do what the model of close relies on *)
Lemma inline_sets_null_ok au : inline_sets_null au = true. Proof. destruct au; reflexivity. Qed.
Lemma inline_clears_ok : inline_clears = true. Proof. reflexivity. Qed.
Lemma ool_sets_null_ok au : ool_sets_null au = true. Proof. destruct au; reflexivity. Qed.
Lemma ool_clears_ok : ool_clears = true. Proof. reflexivity. Qed.
Lemma unchecked_ok m : unchecked m = false. Proof. destruct m; reflexivity. Qed.
Ltac genfacts := rewrite ?inline_sets_null_ok, ?inline_clears_ok, ?ool_sets_null_ok, ?ool_clears_ok in *.
Ltac usablefacts := unfold usable in *; rewrite ?unchecked_ok, ?orb_false_r in *.

(* ---------- list helpers *)
Lemma upd_length {A} (l : list A) i x : length (upd l i x) = length l.
Proof. revert i; induction l; destruct i; cbn; auto. Qed.

Lemma nth_error_upd_same {A} (l : list A) i x y :
  nth_error l i = Some y -> nth_error (upd l i x) i = Some x.
Proof. revert i; induction l; destruct i; cbn; intros; try discriminate; eauto. Qed.

Lemma nth_error_upd_other {A} (l : list A) i j x : i <> j -> nth_error (upd l i x) j = nth_error l j.
Proof. revert i j; induction l; destruct i, j; cbn; intros; try congruence; auto. Qed.

Lemma upd_upd {A} (l : list A) i x y : upd (upd l i x) i y = upd l i y.
Proof. revert i; induction l; destruct i; cbn; intros; f_equal; auto. Qed.

Lemma upd_same {A} (l : list A) i x : nth_error l i = Some x -> upd l i x = l.
Proof. revert i; induction l; destruct i; cbn; intros; try discriminate; f_equal; auto; congruence. Qed.

Lemma map_upd {A B} (f : A -> B) l i x : map f (upd l i x) = upd (map f l) i (f x).
Proof. revert i; induction l; destruct i; cbn; intros; f_equal; auto. Qed.

Lemma set_add_in x l : mem_in x l = true -> set_add x l = l.
Proof. unfold set_add; intros ->; reflexivity. Qed.

(* ---------- the invariant *)
Definition Inv_lib (L : lib) : Prop := lopen L = false -> forallb is_const (ldict L) = true.
Definition Inv (s : state) : Prop := forall i L, nth_error (libs s) i = Some L -> Inv_lib L.

Lemma consts_no_fn l f : forallb is_const l = true -> dict_in (NFn f) l = false.
Proof.
  unfold dict_in. induction l as [|a l IH]; cbn [forallb existsb]; auto.
  intros H; apply andb_true_iff in H as [Ha Hl].
  rewrite IH by auto. destruct a; cbn in *; try discriminate; reflexivity.
Qed.
Lemma consts_no_var l v : forallb is_const l = true -> dict_in (NVar v) l = false.
Proof.
  unfold dict_in. induction l as [|a l IH]; cbn [forallb existsb]; auto.
  intros H; apply andb_true_iff in H as [Ha Hl].
  rewrite IH by auto. destruct a; cbn in *; try discriminate; reflexivity.
Qed.
Lemma consts_add l c : forallb is_const l = true -> forallb is_const (dict_add (NConst c) l) = true.
Proof. unfold dict_add; intros H; destruct dict_in; cbn; auto. Qed.

Definition abs_lib (L : lib) : alib := {| amode := lmode L; aopen := lopen L; ataken := laddr L |}.
Definition abs (s : state) : astate := {| amem := mem s; alibs := map abs_lib (libs s) |}.

Ltac brk :=
  repeat match goal with
  | |- context [match ?x with _ => _ end] => destruct x eqn:?
  | H : context [match ?x with _ => _ end] |- _ => destruct x eqn:?
  end.

Ltac inv_pairs :=
  repeat match goal with
  | H : (_, _) = (_, _) |- _ => inversion H; subst; clear H
  end.

(* one step of one lib: refines the specification and keeps the invariant *)
Lemma step_lib_refines d m L o m' L' r :
  Inv_lib L -> step_lib d m L o = (m', L', r) ->
  spec_lib d m (abs_lib L) o = (m', abs_lib L', r) /\ Inv_lib L' /\ lmode L' = lmode L.
Proof.
  intros HI H. unfold Inv_lib in *.
  destruct L as [md au op dict props addr]; cbn [lmode lopen ldict lprops laddr] in *.
  destruct o; cbn [step_lib spec_lib] in *; genfacts;
    unfold fetch_fn, ool_globsupport, inline_prop, with_props, with_dict, with_addr, abs_lib in *; usablefacts;
    cbn [lmode lopen ldict lprops laddr amode aopen ataken] in *;
    brk; inv_pairs; cbn [lmode lopen ldict lprops laddr amode aopen ataken closed_exn];
    repeat split; auto; try discriminate; try congruence;
    try (rewrite consts_no_var in * by auto; discriminate);
    try (rewrite consts_no_fn in * by auto; discriminate);
    try (intros; apply consts_add; auto);
    try (rewrite set_add_in by auto; reflexivity).
Qed.

Lemma inv_init m0 modes : Inv (init m0 modes).
Proof.
  intros i L H. cbn in H. rewrite nth_error_map in H.
  destruct (nth_error modes i); inversion H; subst. intros Ho; discriminate.
Qed.

Lemma step_refines d s o s' r :
  Inv s -> step d s o = (s', r) -> spec_step d (abs s) o = (abs s', r) /\ Inv s'.
Proof.
  intros HI H. unfold step in H. unfold spec_step. cbn [abs alibs amem].
  rewrite nth_error_map. destruct (nth_error (libs s) (op_lib o)) as [L|] eqn:HL; cbn [option_map].
  - destruct (step_lib d (mem s) L o) as [[m' L'] r'] eqn:Hs. inversion H; subst; clear H.
    destruct (step_lib_refines _ _ _ _ _ _ _ (HI _ _ HL) Hs) as (Hsp & HI' & _).
    rewrite Hsp. split.
    + unfold abs; cbn. rewrite map_upd. reflexivity.
    + intros i L0 Hn. cbn in Hn. destruct (Nat.eq_dec (op_lib o) i) as [<-|Hne].
      * rewrite (nth_error_upd_same _ _ _ _ HL) in Hn. inversion Hn; subst; auto.
      * rewrite nth_error_upd_other in Hn by auto. eauto.
  - inversion H; subst. auto.
Qed.

Lemma run_refines d h : forall s s' rs,
  Inv s -> run d s h = (s', rs) -> spec_run d (abs s) h = (abs s', rs) /\ Inv s'.
Proof.
  induction h as [|o h IH]; cbn; intros s s' rs HI H.
  - inversion H; subst; auto.
  - destruct (step d s o) as [s1 r] eqn:Hs. destruct (run d s1 h) as [s2 rs2] eqn:Hr.
    inversion H; subst; clear H.
    destruct (step_refines _ _ _ _ _ HI Hs) as [Hsp HI1]. rewrite Hsp.
    destruct (IH _ _ _ HI1 Hr) as [Hsp2 HI2]. rewrite Hsp2. auto.
Qed.

Lemma abs_init m0 modes : abs (init m0 modes) = ainit m0 modes.
Proof. unfold abs, init, ainit; cbn. rewrite map_map. reflexivity. Qed.

Theorem refines_spec d m0 modes h :
  snd (run d (init m0 modes) h) = snd (spec_run d (ainit m0 modes) h) /\
  mem (fst (run d (init m0 modes) h)) = amem (fst (spec_run d (ainit m0 modes) h)).
Proof.
  destruct (run d (init m0 modes) h) as [s' rs] eqn:H.
  destruct (run_refines _ _ _ _ _ (inv_init m0 modes) H) as [Hs _].
  rewrite abs_init in Hs. rewrite Hs. cbn. auto.
Qed.

Lemma run_inv d m0 modes h : Inv (fst (run d (init m0 modes) h)).
Proof.
  destruct (run d (init m0 modes) h) as [s' rs] eqn:H.
  apply (run_refines _ _ _ _ _ (inv_init m0 modes) H).
Qed.

(* ---------- direct statements about the model *)

(* operations that need the library *)
Definition touches (o : op) : bool :=
  match o with OpRead _ _ | OpWrite _ _ _ | OpFetch _ _ | OpCall _ _ _ => true | _ => false end.

Definition refusal (m : mode) (r : out) : Prop :=
  r = OErr (closed_exn m) \/ r = OErr AttributeError.

(* a closed lib satisfying the invariant refuses, and memory is untouched *)
Lemma closed_lib_refuses d m L o m' L' r :
  Inv_lib L -> lopen L = false -> touches o = true -> step_lib d m L o = (m', L', r) ->
  refusal (lmode L) r /\ m' = m /\ lopen L' = false.
Proof.
  intros HI Ho Ht H. specialize (HI Ho). unfold refusal.
  destruct L as [md au op dict props addr]; cbn [lmode lopen ldict lprops laddr] in *; subst op.
  destruct o; try discriminate; cbn [step_lib] in H;
    unfold fetch_fn, ool_globsupport, inline_prop, with_props, with_dict, with_addr in *; usablefacts;
    cbn [lmode lopen ldict lprops laddr] in *;
    rewrite ?consts_no_var, ?consts_no_fn in H by auto;
    brk; inv_pairs; cbn [lmode lopen closed_exn]; auto.
Qed.

(* the address of a variable not taken before is refused too *)
Lemma closed_lib_refuses_addr d m L l v m' L' r :
  Inv_lib L -> lopen L = false -> mem_in v (laddr L) = false ->
  step_lib d m L (OpAddr l v) = (m', L', r) ->
  refusal (lmode L) r /\ m' = m /\ lopen L' = false /\ laddr L' = laddr L.
Proof.
  intros HI Ho Ha H. specialize (HI Ho). unfold refusal.
  destruct L as [md au op dict props addr]; cbn [lmode lopen ldict lprops laddr] in *; subst op.
  cbn [step_lib] in H;
    unfold fetch_fn, ool_globsupport, inline_prop, with_props, with_dict, with_addr in *; usablefacts;
    cbn [lmode lopen ldict lprops laddr] in *;
    rewrite ?consts_no_var, ?consts_no_fn, ?Ha in H by auto;
    brk; inv_pairs; cbn [lmode lopen laddr closed_exn]; auto.
Qed.

(* closed stays closed, whatever is done to it; mode never changes; the addr cache of a
   closed lib never grows *)
Lemma closed_stays d m L o m' L' r :
  lopen L = false -> step_lib d m L o = (m', L', r) ->
  lopen L' = false /\ laddr L' = laddr L.
Proof.
  intros Ho H.
  destruct L as [md au op dict props addr]; cbn [lmode lopen ldict lprops laddr] in *; subst op.
  destruct o; cbn [step_lib] in H; genfacts;
    unfold fetch_fn, ool_globsupport, inline_prop, with_props, with_dict, with_addr in *; usablefacts;
    cbn [lmode lopen ldict lprops laddr] in *;
    brk; inv_pairs; cbn [lmode lopen laddr]; auto.
Qed.

Definition lib_closed (s : state) (l : nat) : Prop :=
  exists L, nth_error (libs s) l = Some L /\ lopen L = false.

Lemma step_keeps_closed d s o s' r l :
  lib_closed s l -> step d s o = (s', r) -> lib_closed s' l.
Proof.
  intros (L & HL & Ho) H. unfold step in H.
  destruct (nth_error (libs s) (op_lib o)) as [L0|] eqn:H0.
  - destruct (step_lib d (mem s) L0 o) as [[m' L'] r'] eqn:Hs. inversion H; subst; clear H.
    unfold lib_closed; cbn. destruct (Nat.eq_dec (op_lib o) l) as [<-|Hne].
    + rewrite (nth_error_upd_same _ _ _ _ H0). exists L'. split; auto.
      assert (L0 = L) by congruence; subst. eapply closed_stays; eauto.
    + rewrite nth_error_upd_other by auto. eauto.
  - inversion H; subst. exists L; auto.
Qed.

Lemma run_keeps_closed d h : forall s l, lib_closed s l -> lib_closed (fst (run d s h)) l.
Proof.
  induction h as [|o h IH]; cbn; intros; auto.
  destruct (step d s o) as [s1 r] eqn:Hs. destruct (run d s1 h) as [s2 rs] eqn:Hr. cbn.
  change s2 with (fst (s2, rs)). rewrite <- Hr. apply IH. eapply step_keeps_closed; eauto.
Qed.

Lemma run_app d h1 : forall s h2,
  fst (run d s (h1 ++ h2)) = fst (run d (fst (run d s h1)) h2).
Proof.
  induction h1 as [|o h1 IH]; cbn; intros; auto.
  destruct (step d s o) as [s1 r]. specialize (IH s1 h2).
  destruct (run d s1 (h1 ++ h2)); destruct (run d s1 h1); cbn in *. auto.
Qed.

Lemma close_closes d s l : (l < length (libs s))%nat -> lib_closed (fst (step d s (OpClose l))) l.
Proof.
  intros Hl. unfold step; cbn [op_lib]. destruct (nth_error (libs s) l) as [L|] eqn:HL.
  - cbn [step_lib]. genfacts. unfold lib_closed.
    destruct (lmode L) eqn:Hm; [|destruct (lopen L) eqn:Ho]; cbn;
      rewrite (nth_error_upd_same _ _ _ _ HL); eexists; split; eauto.
  - apply nth_error_None in HL. lia.
Qed.

Lemma run_length d h : forall s, length (libs (fst (run d s h))) = length (libs s).
Proof.
  induction h as [|o h IH]; cbn; intros; auto.
  destruct (step d s o) as [s1 r] eqn:Hs. specialize (IH s1).
  destruct (run d s1 h); cbn in *. rewrite IH. unfold step in Hs.
  destruct (nth_error (libs s) (op_lib o)); [|inversion Hs; subst; auto].
  destruct (step_lib d (mem s) l0 o) as [[? ?] ?]. inversion Hs; subst; cbn. apply upd_length.
Qed.

Lemma run_modes d h : forall s i,
  Inv s -> option_map lmode (nth_error (libs (fst (run d s h))) i) = option_map lmode (nth_error (libs s) i).
Proof.
  induction h as [|o h IH]; cbn; intros s i HI; auto.
  destruct (step d s o) as [s1 r] eqn:Hs. destruct (step_refines _ _ _ _ _ HI Hs) as [_ HI1].
  specialize (IH s1 i HI1). destruct (run d s1 h); cbn in *. rewrite IH. unfold step in Hs.
  destruct (nth_error (libs s) (op_lib o)) as [L|] eqn:HL; [|inversion Hs; subst; auto].
  destruct (step_lib d (mem s) L o) as [[m' L'] r'] eqn:Hl. inversion Hs; subst; cbn.
  destruct (Nat.eq_dec (op_lib o) i) as [<-|Hne].
  - rewrite (nth_error_upd_same _ _ _ _ HL), HL. cbn.
    destruct (step_lib_refines _ _ _ _ _ _ _ (HI _ _ HL) Hl) as (_ & _ & ->). reflexivity.
  - rewrite nth_error_upd_other by auto. reflexivity.
Qed.

(* After dlclose(lib l), at any later point of any history, every read, write, function fetch
   and call through lib l is refused and leaves the library's memory untouched. *)
Theorem after_close_refused d m0 modes h1 l h2 o md au0 :
  nth_error modes l = Some (md, au0) -> op_lib o = l -> touches o = true ->
  let s := fst (run d (init m0 modes) (h1 ++ OpClose l :: h2)) in
  refusal md (snd (step d s o)) /\ mem (fst (step d s o)) = mem s.
Proof.
  intros Hmd Hl Ht s.
  assert (HI : Inv s) by apply run_inv.
  assert (Hc : lib_closed s l).
  { subst s. rewrite run_app. cbn [run].
    set (s1 := fst (run d (init m0 modes) h1)).
    destruct (step d s1 (OpClose l)) as [s2 r] eqn:Hs.
    destruct (run d s2 h2) as [s3 rs] eqn:Hr. cbn.
    change s3 with (fst (s3, rs)). rewrite <- Hr. apply run_keeps_closed.
    change s2 with (fst (s2, r)). rewrite <- Hs. apply close_closes.
    subst s1. rewrite run_length. cbn. rewrite map_length.
    apply nth_error_Some. congruence. }
  destruct Hc as (L & HL & Ho).
  assert (Hm : lmode L = md).
  { pose proof (run_modes d (h1 ++ OpClose l :: h2) (init m0 modes) l (inv_init _ _)) as E.
    fold s in E. rewrite HL in E. cbn in E. rewrite nth_error_map, Hmd in E. cbn in E. congruence. }
  unfold step. rewrite Hl, HL.
  destruct (step_lib d (mem s) L o) as [[m' L'] r] eqn:Hs. cbn.
  destruct (closed_lib_refuses _ _ _ _ _ _ _ (HI _ _ HL) Ho Ht Hs) as (Hr & -> & _).
  rewrite Hm in Hr. auto.
Qed.

(* declared names are refused with the "closed" error, not AttributeError *)
Definition declared (d : desc) (o : op) : bool :=
  match o with
  | OpRead _ v | OpWrite _ v _ | OpAddr _ v => if nth_error (d_vars d) v then true else false
  | OpFetch _ f | OpCall _ f _ => if nth_error (d_fns d) f then true else false
  | OpConst _ c => if nth_error (d_consts d) c then true else false
  | OpClose _ => true
  end.

Lemma closed_lib_refuses_declared d m L o m' L' r :
  Inv_lib L -> lopen L = false -> touches o = true -> declared d o = true ->
  step_lib d m L o = (m', L', r) -> r = OErr (closed_exn (lmode L)).
Proof.
  intros HI Ho Ht Hd H. specialize (HI Ho).
  destruct L as [md au op dict props addr]; cbn [lmode lopen ldict lprops laddr] in *; subst op.
  destruct o; try discriminate; cbn [step_lib declared] in *;
    unfold fetch_fn, ool_globsupport, inline_prop, with_props, with_dict, with_addr in *; usablefacts;
    cbn [lmode lopen ldict lprops laddr] in *;
    rewrite ?consts_no_var, ?consts_no_fn in H by auto;
    brk; inv_pairs; cbn [lmode lopen closed_exn]; auto; try discriminate.
Qed.

(* close is idempotent: the second close changes nothing and returns None like the first *)
Theorem close_idempotent d s l :
  let s1 := fst (step d s (OpClose l)) in
  step d s1 (OpClose l) = (s1, snd (step d s (OpClose l))).
Proof.
  unfold step; cbn [op_lib]. destruct (nth_error (libs s) l) as [L|] eqn:HL.
  - cbn [step_lib]. genfacts. destruct (lmode L) eqn:Hm; [|destruct (lopen L) eqn:Ho]; cbn [fst snd libs mem].
    + rewrite (nth_error_upd_same _ _ _ _ HL). cbn. rewrite upd_upd. reflexivity.
    + rewrite (nth_error_upd_same _ _ _ _ HL). cbn. rewrite upd_upd. reflexivity.
    + rewrite (nth_error_upd_same _ _ _ _ HL). rewrite Hm, Ho. cbn. rewrite upd_upd. reflexivity.
  - cbn. rewrite HL. reflexivity.
Qed.

Theorem close_returns_none d s l : (l < length (libs s))%nat -> snd (step d s (OpClose l)) = ONone.
Proof.
  intros Hl. unfold step; cbn [op_lib]. destruct (nth_error (libs s) l) as [L|] eqn:HL.
  - cbn [step_lib]. destruct (lmode L); [|destruct (lopen L)]; reflexivity.
  - apply nth_error_None in HL. lia.
Qed.

(* what an open library does: plain C-library semantics, independent of caches and mode *)
Definition open_sem (d : desc) (m : list Z) (o : op) : list Z * out :=
  let '(m', _, r) := spec_lib d m {| amode := Inline; aopen := true; ataken := [] |} o in (m', r).

Lemma open_lib_unchanged d m L o m' L' r :
  lopen L = true -> step_lib d m L o = (m', L', r) -> open_sem d m o = (m', r).
Proof.
  intros Ho H.
  assert (HI : Inv_lib L) by (intros E; congruence).
  destruct (step_lib_refines _ _ _ _ _ _ _ HI H) as (Hs & _ & _).
  unfold open_sem. unfold abs_lib in Hs. rewrite Ho in Hs.
  destruct o; cbn [spec_lib aopen amode ataken] in *; brk; inversion Hs; subst; try reflexivity; try congruence.
Qed.

(* before close, behaviour through lib l is that of the library itself — at any point of any
   history, including histories in which OTHER lib objects on the same library were closed *)
Theorem before_close_unchanged d m0 modes h o L :
  let s := fst (run d (init m0 modes) h) in
  nth_error (libs s) (op_lib o) = Some L -> lopen L = true ->
  (mem (fst (step d s o)), snd (step d s o)) = open_sem d (mem s) o.
Proof.
  intros s HL Ho. unfold step. rewrite HL.
  destruct (step_lib d (mem s) L o) as [[m' L'] r] eqn:Hs. cbn.
  symmetry. eapply open_lib_unchanged; eauto.
Qed.

(* an operation other than close leaves every lib's open/closed status as it was; and an
   operation on lib l never changes another lib *)
Lemma step_lib_open_status d m L o m' L' r :
  (forall l, o <> OpClose l) -> step_lib d m L o = (m', L', r) -> lopen L' = lopen L.
Proof.
  intros Hn H.
  destruct L as [md au op dict props addr]; cbn [lmode lopen ldict lprops laddr] in *.
  destruct o; cbn [step_lib] in H; genfacts;
    unfold fetch_fn, ool_globsupport, inline_prop, with_props, with_dict, with_addr in *; usablefacts;
    cbn [lmode lopen ldict lprops laddr] in *;
    brk; inv_pairs; cbn [lmode lopen laddr]; auto; exfalso; eapply Hn; eauto.
Qed.

Theorem only_close_closes d s o i :
  (forall l, o <> OpClose l) ->
  option_map lopen (nth_error (libs (fst (step d s o))) i) = option_map lopen (nth_error (libs s) i).
Proof.
  intros Hn. unfold step. destruct (nth_error (libs s) (op_lib o)) as [L|] eqn:HL; auto.
  destruct (step_lib d (mem s) L o) as [[m' L'] r] eqn:Hs. cbn.
  destruct (Nat.eq_dec (op_lib o) i) as [<-|Hne].
  - rewrite (nth_error_upd_same _ _ _ _ HL), HL. cbn. f_equal. eapply step_lib_open_status; eauto.
  - rewrite nth_error_upd_other by auto. reflexivity.
Qed.

Theorem other_libs_untouched d s o i :
  i <> op_lib o -> nth_error (libs (fst (step d s o))) i = nth_error (libs s) i.
Proof.
  intros Hne. unfold step. destruct (nth_error (libs s) (op_lib o)) as [L|] eqn:HL; auto.
  destruct (step_lib d (mem s) L o) as [[m' L'] r] eqn:Hs. cbn.
  rewrite nth_error_upd_other by auto. reflexivity.
Qed.

(* addresses: after close, the address of a variable that was not taken through this lib
   before the close is refused, at any later point *)
Lemma step_keeps_closed_addr d s o s' r l A :
  (exists L, nth_error (libs s) l = Some L /\ lopen L = false /\ laddr L = A) ->
  step d s o = (s', r) ->
  (exists L, nth_error (libs s') l = Some L /\ lopen L = false /\ laddr L = A).
Proof.
  intros (L & HL & Ho & HA) H. unfold step in H.
  destruct (nth_error (libs s) (op_lib o)) as [L0|] eqn:H0.
  - destruct (step_lib d (mem s) L0 o) as [[m' L'] r'] eqn:Hs. inversion H; subst; clear H.
    cbn. destruct (Nat.eq_dec (op_lib o) l) as [<-|Hne].
    + rewrite (nth_error_upd_same _ _ _ _ H0). exists L'. split; auto.
      assert (L0 = L) by congruence; subst.
      destruct (closed_stays _ _ _ _ _ _ _ Ho Hs). split; congruence.
    + rewrite nth_error_upd_other by auto. eauto.
  - inversion H; subst. exists L; auto.
Qed.

Lemma run_keeps_closed_addr d h : forall s l A,
  (exists L, nth_error (libs s) l = Some L /\ lopen L = false /\ laddr L = A) ->
  (exists L, nth_error (libs (fst (run d s h))) l = Some L /\ lopen L = false /\ laddr L = A).
Proof.
  induction h as [|o h IH]; cbn; intros; auto.
  destruct (step d s o) as [s1 r] eqn:Hs. destruct (run d s1 h) as [s2 rs] eqn:Hr. cbn.
  change s2 with (fst (s2, rs)). rewrite <- Hr. apply IH. eapply step_keeps_closed_addr; eauto.
Qed.

Theorem after_close_addr_refused d m0 modes h1 l h2 v md au0 L1 :
  nth_error modes l = Some (md, au0) ->
  let s1 := fst (run d (init m0 modes) (h1 ++ [OpClose l])) in
  nth_error (libs s1) l = Some L1 -> mem_in v (laddr L1) = false ->
  let s := fst (run d s1 h2) in
  refusal md (snd (step d s (OpAddr l v))) /\ mem (fst (step d s (OpAddr l v))) = mem s.
Proof.
  intros Hmd s1 HL1 Hv s.
  assert (HI1 : Inv s1) by apply run_inv.
  assert (HI : Inv s).
  { subst s. destruct (run d s1 h2) as [s' rs] eqn:Hr. cbn.
    apply (run_refines _ _ _ _ _ HI1 Hr). }
  assert (Hc1 : lopen L1 = false).
  { assert (lib_closed s1 l).
    { subst s1. rewrite run_app. cbn [run].
      set (s0 := fst (run d (init m0 modes) h1)).
      destruct (step d s0 (OpClose l)) as [s2 r] eqn:Hs. cbn.
      change s2 with (fst (s2, r)). rewrite <- Hs. apply close_closes.
      subst s0. rewrite run_length. cbn. rewrite map_length. apply nth_error_Some. congruence. }
    destruct H as (L & HL & Ho). congruence. }
  destruct (run_keeps_closed_addr d h2 s1 l (laddr L1)) as (L & HL & Ho & HA); [eauto|].
  fold s in HL.
  assert (Hm : lmode L = md).
  { pose proof (run_modes d h2 s1 l HI1) as E. fold s in E. rewrite HL in E.
    pose proof (run_modes d (h1 ++ [OpClose l]) (init m0 modes) l (inv_init _ _)) as E1.
    fold s1 in E1. rewrite E1 in E. cbn in E. rewrite nth_error_map, Hmd in E. cbn in E. congruence. }
  unfold step. cbn [op_lib]. rewrite HL.
  destruct (step_lib d (mem s) L (OpAddr l v)) as [[m' L'] r] eqn:Hs. cbn.
  rewrite <- HA in Hv.
  destruct (closed_lib_refuses_addr _ _ _ _ _ _ _ _ (HI _ _ HL) Ho Hv Hs) as (Hr & -> & _).
  rewrite Hm in Hr. auto.
Qed.
