(* REGENERATED on every run by tools/props/c37.py (regen) from
     src/cffi/api.py      FFILibrary.__cffi_close__          (statements of the body, in order)
     src/c/_cffi_backend.c dl_close_lib                       (statements under `if (dlobj->dl_handle != NULL)`)
     src/c/cdlopen.c      ffi_dlclose                        (statements under `if (libhandle != NULL)`)
   the committed copy is Gen.v.snapshot.  Do not edit. *)
From Coq Require Import List.
Import ListNotations.
From Cffi Require Import C37.Steps.

Definition inline_close : list cstep := [ CallCloseLib; ClearDict ].
Definition backend_close_lib : list cstep := [ DlClose; SetHandleNull ].
Definition ool_close : list cstep := [ SetHandleNull; ClearDict; DlClose ].
