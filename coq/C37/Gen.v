(* REGENERATED on every run by tools/props/c37.py (regen) from
     src/cffi/api.py      FFILibrary.__cffi_close__          (statements of the body, in order)
     src/c/_cffi_backend.c dl_close_lib                       (statements under `if (dlobj->dl_handle != NULL)`)
     src/c/cdlopen.c      ffi_dlclose                        (statements under `if (libhandle != NULL)`)
     src/c/cdlopen.c      cdlopen_fetch, and dl_load_function / dl_read_variable / dl_write_variable in
                          _cffi_backend.c: does the closed test (returning NULL) PRECEDE the dlsym() call?
     the conditions guarding the two close blocks: do they ALSO require the auto-close flag (so that a lib made
     from a caller-supplied `void *` handle would never get its handle reset)?
   the committed copy is Gen.v.snapshot.  Do not edit. *)
From Coq Require Import List.
Import ListNotations.
From Cffi Require Import C37.Steps.

Definition inline_close : list cstep := [ CallCloseLib; ClearDict ].
Definition backend_close_lib : list cstep := [ DlClose; SetHandleNull ].
Definition ool_close : list cstep := [ SetHandleNull; ClearDict; DlClose ].
Definition ool_fetch_checks_first : bool := true.
Definition inline_checks_first : bool := true.
Definition backend_close_guard_auto : bool := false.
Definition ool_close_guard_auto : bool := false.
