(* C17 — hash theorems on the regenerated cdata_hash program (C17/Gen.v hash_prog). *)
From Coq Require Import ZArith List Bool Lia ZifyBool.
Import ListNotations.
From Cffi Require Import C17.Model.
Open Scope Z_scope.
Ltac Zify.zify_post_hook ::= Z.to_euclidean_division_equations.

(* the program as it is in the source now hashes a primitive cdata that converts to an ordinary Python
   value x as x — whatever the raw integer value is (all of Z, in particular every 64-bit value) *)
Lemma prim_hash_every_value (pyval : Type) (py_hash : pyval -> hres) self (x : pyval) raw :
  hash_prim pyval py_hash hash_prog self (CvVal x) raw = py_hash x.
Proof. reflexivity. Qed.

Lemma prim_cdata_hash_every_value (pyval : Type) (py_hash : pyval -> hres) self raw :
  hash_prim pyval py_hash hash_prog self CvCData raw = HOk (hash_pointer self).
Proof. reflexivity. Qed.

(* integer cdata: hash(cd) = hash(int(cd)) for EVERY value of every integer ctype (signed or not,
   fits-long or not) *)
Lemma int_cdata_hash_every_value signed fits_long self v :
  - 2 ^ 63 <= v < 2 ^ 64 -> int_cdata_hash hash_prog signed fits_long self v = HOk (pyint_hash v).
Proof. intros _. destruct signed, fits_long; reflexivity. Qed.

(* CPython's int hash: identity below the modulus ... *)
Lemma pyint_hash_small v : 0 <= v < 2 ^ 61 - 1 -> pyint_hash v = v.
Proof.
  intros H. unfold pyint_hash.
  assert (E : Z.sgn v * (Z.abs v mod (2 ^ 61 - 1)) = v).
  { rewrite Z.abs_eq by lia. rewrite Z.mod_small by lia. destruct (Z.eq_dec v 0) as [->|]; [reflexivity|].
    rewrite Z.sgn_pos by lia. lia. }
  cbv zeta. rewrite E. destruct (v =? -1) eqn:Q; [lia|reflexivity].
Qed.
(* ... but not from the modulus on: the "a non-negative C integer is its own hash" shortcut is wrong *)
Lemma pyint_hash_not_identity v : 2 ^ 61 - 1 <= v -> pyint_hash v <> v.
Proof.
  intros H. unfold pyint_hash. cbv zeta.
  rewrite Z.abs_eq by lia. rewrite Z.sgn_pos by lia. rewrite Z.mul_1_l.
  assert (0 <= v mod (2 ^ 61 - 1) < 2 ^ 61 - 1) by (apply Z.mod_pos_bound; lia).
  destruct (v mod (2 ^ 61 - 1) =? -1); lia.
Qed.
Lemma pyint_hash_range v : - 2 ^ 63 <= v < 2 ^ 64 ->
  - (2 ^ 61 - 1) < pyint_hash v < 2 ^ 61 - 1 /\ pyint_hash v <> -1.
Proof.
  intros H. unfold pyint_hash. cbv zeta.
  assert (0 <= Z.abs v mod (2 ^ 61 - 1) < 2 ^ 61 - 1) by (apply Z.mod_pos_bound; lia).
  destruct (Z.sgn_spec v) as [[? ->]|[[? ->]|[? ->]]];
    destruct (_ =? -1) eqn:Q; lia.
Qed.

(* the theorem has teeth: with the shortcut arm of seed C17-c in front of the conversion
   (what the translator produces for that text), the statement is false for every value >= 2^61-1 *)
Lemma nonneg_shortcut_refuted self v : 2 ^ 61 - 1 <= v < 2 ^ 63 ->
  int_cdata_hash [HNonnegSelf; HConvert] true true self v <> HOk (pyint_hash v).
Proof.
  intros H. unfold int_cdata_hash. cbn.
  destruct (0 <=? v) eqn:Q; [|lia].
  intros E. inversion E as [E']. symmetry in E'. revert E'. apply pyint_hash_not_identity. lia.
Qed.
