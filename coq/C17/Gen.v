(* REGENERATED on every run by tools/props/c17.py (regen) from the `if (v_is_ptr && w_is_ptr)` block of
   cdata_richcompare and from the whole body of cdata_hash in src/c/_cffi_backend.c; the committed copy is Gen.v.snapshot.  Do not edit. *)
From Coq Require Import List.
Import ListNotations.
From Cffi Require Import C17.Cmp.

Definition ptr_branch : pbranch :=
  PSwitch [ (OEq, {| pc_signed := false; pc_l := SV; pc_rel := OEq; pc_r := SW |});
            (ONe, {| pc_signed := false; pc_l := SV; pc_rel := ONe; pc_r := SW |});
            (OLt, {| pc_signed := false; pc_l := SV; pc_rel := OLt; pc_r := SW |});
            (OLe, {| pc_signed := false; pc_l := SV; pc_rel := OLe; pc_r := SW |});
            (OGt, {| pc_signed := false; pc_l := SV; pc_rel := OGt; pc_r := SW |});
            (OGe, {| pc_signed := false; pc_l := SV; pc_rel := OGe; pc_r := SW |}) ].

(* cdata_hash: the arms tried, in source order, before `return _Py_HashPointer(c_data)` *)
Definition hash_prog : list harm :=
  [ HConvert ].
